package main

import (
	"flag"
	"fmt"
	"os"
	"path/filepath"
	"runtime"
	"runtime/debug"
	"strings"
	"time"
)

type areaFunc func(r *Rng, n int, dir string) (*AreaOut, error)

var areas = map[string]areaFunc{}

func main() {
	if len(os.Args) < 2 {
		fmt.Fprintln(os.Stderr, "usage: lsverif <area> -seed S -n N -out DIR")
		os.Exit(2)
	}
	area := os.Args[1]
	// the process runs in a non-UTC local time zone, as most deployments do: everything that names or compares
	// instants (snapshot names, metadata, cutoffs) must not depend on it
	time.Local = time.FixedZone("verif+0230", 9000)
	fs := flag.NewFlagSet(area, flag.ExitOnError)
	seed := fs.Uint64("seed", 1, "PRNG seed")
	n := fs.Int("n", 300, "number of cases")
	out := fs.String("out", ".", "output directory")
	_ = fs.Parse(os.Args[2:])
	f, ok := areas[area]
	if !ok {
		fmt.Fprintf(os.Stderr, "unknown area %q\n", area)
		os.Exit(2)
	}
	if err := os.MkdirAll(*out, 0o755); err != nil {
		panic(err)
	}
	r := NewRng(*seed)
	var res *AreaOut
	var err error
	// the code under test must neither hang nor need an unbounded stack (C08, C17): a run that does not finish
	// in time is reported as an oracle failure of whatever property is being checked, with the blocked goroutines
	debug.SetMaxStack(64 << 20)
	if !strings.HasSuffix(area, "-child") {
		limit := 7 * time.Minute
		time.AfterFunc(limit, func() {
			buf := make([]byte, 1<<20)
			buf = buf[:runtime.Stack(buf, true)]
			var blocked []string
			for _, g := range strings.Split(string(buf), "\n\n") {
				if strings.Contains(g, "PowerDNS/lightningstream/") && !strings.Contains(g, "lsverif") && len(blocked) < 6 {
					blocked = append(blocked, g)
				}
			}
			hung := &AreaOut{Area: area, Seed: *seed, N: *n, Hist: map[string]int{}, Rule: "aborted: the run did not finish", Samples: []any{"(aborted)"},
				Oracle: []OracleFailure{{Property: "ANY", Clause: "hang", Desc: fmt.Sprintf("area %s did not finish within %v: the code under test hangs (goroutines inside the repository's code are listed in the input)", area, limit), Input: blocked}}}
			_ = writeJSON(filepath.Join(*out, "area_"+area+".json"), hung)
			fmt.Printf("area=%s HUNG\n", area)
			os.Exit(0)
		})
	}
	func() {
		defer func() {
			if rec := recover(); rec != nil {
				// a panic escaping from the code under test is itself a finding: report it as an oracle failure
				// of whatever property is being checked, with the stack as the replay
				res = &AreaOut{Hist: map[string]int{}, Rule: "aborted: panic in the code under test", Samples: []any{"(aborted)"},
					Oracle: []OracleFailure{{Property: "ANY", Clause: "panic", Desc: fmt.Sprintf("panic in the code under test while running area %s: %v", area, rec), Input: string(debug.Stack())}}}
				err = nil
			}
		}()
		res, err = f(r, *n, *out)
	}()
	if err != nil {
		fmt.Fprintf(os.Stderr, "area %s failed: %v\n", area, err)
		os.Exit(3)
	}
	res.Area = area
	res.Seed = *seed
	res.N = *n
	if err := writeJSON(filepath.Join(*out, "area_"+area+".json"), res); err != nil {
		panic(err)
	}
	fmt.Printf("area=%s cases=%d distinct=%d oracle_failures=%d\n", area, res.Cases, res.Distinct, len(res.Oracle))
}
