package main

import (
	"time"

	"github.com/PowerDNS/lightningstream/config"
	"github.com/PowerDNS/lightningstream/lmdbenv"
	"github.com/PowerDNS/lightningstream/syncer"
	"github.com/PowerDNS/lmdb-go/lmdb"
	"github.com/PowerDNS/simpleblob"
	"github.com/sirupsen/logrus"
)

func init() { logrus.SetLevel(logrus.PanicLevel) }

type configT = config.Config
type lmdbCfgT = config.LMDB

const dbName = "db"

type syncerOpts struct {
	Native    bool
	DupHack   bool
	Padding   bool
	Instance  string
	Mod       func(c *config.Config, lc *config.LMDB)
	SyncerOpt syncer.Options
}

func newSyncer(env *lmdb.Env, st simpleblob.Interface, o syncerOpts) (*syncer.Syncer, error) {
	if o.Instance == "" {
		o.Instance = "a"
	}
	c := config.Config{
		Instance:                    o.Instance,
		LMDBs:                       map[string]config.LMDB{},
		LMDBPollInterval:            5 * time.Millisecond,
		StoragePollInterval:         5 * time.Millisecond,
		StorageRetryInterval:        2 * time.Millisecond,
		StorageRetryCount:           1,
		MemoryDownloadedSnapshots:   3,
		MemoryDecompressedSnapshots: 3,
	}
	lc := config.LMDB{Options: lmdbenv.Options{}, SchemaTracksChanges: o.Native, DupSortHack: o.DupHack, HeaderExtraPaddingBlock: o.Padding}
	if o.Mod != nil {
		o.Mod(&c, &lc)
	}
	c.LMDBs[dbName] = lc
	return syncer.New(dbName, env, st, c, lc, o.SyncerOpt)
}
