package main

// area "retention": the retention arithmetic of the tomb sweeper and the snapshot loader.
// Real code: config.Sweeper.RetentionDuration / RetentionDurationMinusCutoff,
// header.TimestampFromTime(now.Add(-retention)) (the expression sweeper.sweep evaluates on
// time.Now()), Syncer.deletedCutoff through VerifDeletedCutoff (build tag verif).

import (
	"fmt"
	"math"
	"strings"
	"time"

	"github.com/PowerDNS/lightningstream/config"
	"github.com/PowerDNS/lightningstream/lmdbenv/header"
	"github.com/PowerDNS/lightningstream/syncer"
)

func init() { areas["retention"] = areaRetention }

type retKey struct {
	Days    float32
	C       int64
	Enabled bool
	Once    bool // only_once: a single pass; the stale-marker rule is the same for it
}

var retSyncers = map[retKey]*syncer.Syncer{}

func retSyncer(k retKey) (*syncer.Syncer, error) {
	if s, ok := retSyncers[k]; ok {
		return s, nil
	}
	c := config.Config{Instance: "a", LMDBs: map[string]config.LMDB{}, OnlyOnce: k.Once}
	c.Sweeper = config.Sweeper{Enabled: k.Enabled, RetentionDays: k.Days, RetentionLoadCutoffDuration: time.Duration(k.C)}
	lc := config.LMDB{}
	c.LMDBs["db"] = lc
	s, err := syncer.New("db", nil, nil, c, lc, syncer.Options{})
	if err != nil {
		return nil, err
	}
	retSyncers[k] = s
	return s, nil
}

type retObs struct {
	Days            float32
	R, C, T         int64
	Enabled         bool
	RMC             int64
	Sweep, Deleted  uint64
	sweepOn, loadOn uint64 // cutoffs with the sweeper enabled (oracle)
}

func retReal(days float32, c int64, t int64, enabled bool) (retObs, error) {
	sw := config.Sweeper{Enabled: enabled, RetentionDays: days, RetentionLoadCutoffDuration: time.Duration(c)}
	R := sw.RetentionDuration()
	now := time.Unix(0, t)
	o := retObs{Days: days, R: int64(R), C: c, T: t, Enabled: enabled,
		RMC:   int64(sw.RetentionDurationMinusCutoff()),
		Sweep: uint64(header.TimestampFromTime(now.Add(-R)))}
	s, err := retSyncer(retKey{days, c, enabled, (t+c)%2 == 0})
	if err != nil {
		return o, err
	}
	o.Deleted = uint64(s.VerifDeletedCutoff(now))
	return o, nil
}

func (o retObs) Coq() string {
	return fmt.Sprintf("RCase (%d) (%d) (%d) %s (%d) %d %d", o.R, o.C, o.T, cBool(o.Enabled), o.RMC, o.Sweep, o.Deleted)
}

func addI64(a, b int64) (int64, bool) {
	s := a + b
	if (b > 0 && s < a) || (b < 0 && s > a) {
		return 0, false
	}
	return s, true
}

func areaRetention(r *Rng, n int, dir string) (*AreaOut, error) {
	out := &AreaOut{Hist: map[string]int{}, Rule: "retention: real RetentionDuration/RetentionDurationMinusCutoff, TimestampFromTime(now.Add(-R)), VerifDeletedCutoff(now) on the grid retention_days in {0,0.001,1,370,20000,20800,21000,36500,106751} (+ out-of-claim 106752 and -1: R<0) x retention_load_cutoff_duration in {-1h,-1ns,0,1ns,1s,1h,75%R-1,75%R,75%R+1,R,R+1,maxInt64} x now in {-1,0,1,R-1,R,R+1,RMC-1,RMC,RMC+1,today,today+1h,2^62,maxInt64}, sweeper enabled/disabled, plus n random (days,c,now); observable: the three integers. distinct = distinct (R,c,now,enabled); non-trivial = R > 0. Oracle (C04, R>=0): 0 <= RMC <= R; load cutoff(t_load) >= sweep cutoff(t_sweep) for every grid pair t_sweep <= t_load; (C13 guard) sweep cutoff(now) <= now"}
	today := time.Now().UnixNano()
	daysGrid := []float32{0, 0.001, 1, 370, 20000, 20800, 21000, 36500, 106751, 106752, -1}
	var cases []string
	seen := map[string]bool{}
	nontriv := map[string]bool{}
	add := func(o retObs) {
		cases = append(cases, o.Coq())
		key := fmt.Sprintf("R=%d c=%d t=%d en=%v days=%v", o.R, o.C, o.T, o.Enabled, o.Days)
		out.CaseDescs = append(out.CaseDescs, key)
		if !seen[key] {
			seen[key] = true
			if o.R > 0 {
				nontriv[key] = true
			}
		}
		switch {
		case o.R < 0:
			hist(out.Hist, "R<0")
		case o.R == 0:
			hist(out.Hist, "R=0")
		case o.R > o.T:
			hist(out.Hist, "R>now")
		default:
			hist(out.Hist, "R<=now")
		}
		switch {
		case o.C < 0:
			hist(out.Hist, "c<0")
		case o.C == 0:
			hist(out.Hist, "c=0")
		case o.C > o.R:
			hist(out.Hist, "c>R")
		default:
			hist(out.Hist, "0<c<=R")
		}
	}
	// RetentionDuration itself (an input of the model) against an independent computation: retention_days is a
	// number of DAYS, fractions included (float32 precision: 2^-23 relative)
	for _, days := range []float32{0.03, 0.5, 1, 1.5, 2, 2.03, 30.4, 370, 1000.25} {
		out.OracleN++
		got := float64(config.Sweeper{RetentionDays: days}.RetentionDuration())
		want := float64(days) * 24 * float64(time.Hour)
		if math.Abs(got-want) > want*1e-6+1000 {
			for _, pid := range []string{"C13", "C04"} {
				out.Oracle = append(out.Oracle, OracleFailure{pid, "retention-duration", fmt.Sprintf("retention_days %v gives RetentionDuration %v, expected %v: markers younger than the configured retention would be swept (or older ones kept)", days, time.Duration(got), time.Duration(want)), map[string]any{"days": days}})
			}
		}
	}
	cnt := 0
	for _, days := range daysGrid {
		R := int64(config.Sweeper{RetentionDays: days}.RetentionDuration())
		q := R / 4 * 3
		cGrid := []int64{-int64(time.Hour), -1, 0, 1, int64(time.Second), int64(time.Hour), q - 1, q, q + 1, R, math.MaxInt64}
		if v, ok := addI64(R, 1); ok {
			cGrid = append(cGrid, v)
		}
		for _, c := range cGrid {
			rmc := int64(config.Sweeper{RetentionDays: days, RetentionLoadCutoffDuration: time.Duration(c)}.RetentionDurationMinusCutoff())
			tGrid := []int64{-1, 0, 1, R, rmc, today, today + int64(time.Hour), 1 << 62, math.MaxInt64}
			for _, d := range []int64{-1, 1} {
				if v, ok := addI64(R, d); ok {
					tGrid = append(tGrid, v)
				}
				if v, ok := addI64(rmc, d); ok {
					tGrid = append(tGrid, v)
				}
			}
			var enabledObs []retObs
			for _, t := range tGrid {
				cnt++
				en := cnt%7 != 0
				o, err := retReal(days, c, t, en)
				if err != nil {
					return nil, err
				}
				add(o)
				oe := o
				if !en {
					if oe, err = retReal(days, c, t, true); err != nil {
						return nil, err
					}
				}
				enabledObs = append(enabledObs, oe)
				if !en && o.Deleted != 0 {
					out.Oracle = append(out.Oracle, OracleFailure{"C04", "cutoff-disabled", "sweeper disabled but deletedCutoff is not 0", o})
				}
			}
			if R < 0 {
				continue
			}
			// ---- oracles (claimed range R >= 0) ----
			out.OracleN++
			if rmc < 0 || rmc > R {
				out.Oracle = append(out.Oracle, OracleFailure{"C04", "no-bounce-rmc", fmt.Sprintf("RetentionDurationMinusCutoff %d outside [0, RetentionDuration %d]", rmc, R), map[string]any{"days": days, "c": c}})
			}
			for _, a := range enabledObs {
				if a.T < 0 {
					continue
				}
				out.OracleN++
				if a.Sweep > uint64(a.T) {
					out.Oracle = append(out.Oracle, OracleFailure{"C13", "cutoff-guard", fmt.Sprintf("sweep cutoff %d lies after now %d: entries written now would be swept", a.Sweep, a.T), a})
				}
				for _, b := range enabledObs {
					if b.T < a.T {
						continue
					}
					out.OracleN++
					if b.Deleted < a.Sweep {
						out.Oracle = append(out.Oracle, OracleFailure{"C04", "no-bounce-cutoffs", fmt.Sprintf("load cutoff %d at t_load=%d is below sweep cutoff %d at t_sweep=%d: markers in between are swept and re-created", b.Deleted, b.T, a.Sweep, a.T), map[string]any{"days": days, "R": R, "c": c, "t_sweep": a.T, "t_load": b.T}})
					}
				}
			}
		}
	}
	// random stream
	for i := 0; i < n; i++ {
		var days float32
		switch r.Intn(4) {
		case 0:
			days = float32(r.Intn(1000)) / 1000
		case 1:
			days = float32(r.Intn(40000))
		case 2:
			days = float32(r.Intn(106752))
		default:
			days = float32(20600+r.Intn(400)) + float32(r.Intn(100))/100
		}
		R := int64(config.Sweeper{RetentionDays: days}.RetentionDuration())
		var c int64
		switch r.Intn(5) {
		case 0:
			c = 0
		case 1:
			c = -int64(r.U64() >> 1)
		case 2:
			c = int64(r.U64() >> 1)
		case 3:
			c = int64(r.U64()>>1) % (R + 1)
		default:
			c = R/4*3 + int64(r.Intn(5)) - 2
		}
		ts := today - int64(r.Intn(1000))*int64(time.Hour)
		if r.Chance(30) {
			ts = int64(r.U64() >> 1)
		}
		tl := ts + int64(r.Intn(100))*int64(time.Minute)
		if tl < ts {
			tl = ts
		}
		a, err := retReal(days, c, ts, true)
		if err != nil {
			return nil, err
		}
		b, err := retReal(days, c, tl, r.Chance(90))
		if err != nil {
			return nil, err
		}
		add(a)
		add(b)
		if b.Enabled && R >= 0 {
			out.OracleN++
			if b.Deleted < a.Sweep {
				out.Oracle = append(out.Oracle, OracleFailure{"C04", "no-bounce-cutoffs", fmt.Sprintf("load cutoff %d at t_load=%d is below sweep cutoff %d at t_sweep=%d", b.Deleted, tl, a.Sweep, ts), map[string]any{"days": days, "R": R, "c": c, "t_sweep": ts, "t_load": tl}})
			}
			if a.Sweep > uint64(ts) {
				out.Oracle = append(out.Oracle, OracleFailure{"C13", "cutoff-guard", fmt.Sprintf("sweep cutoff %d lies after now %d", a.Sweep, ts), a})
			}
		}
	}
	// C10: a load cutoff below the sweep cutoff is also a feedback loop (sweep, re-load, sweep, ... each commits a
	// transaction and triggers an upload)
	for _, f := range append([]OracleFailure{}, out.Oracle...) {
		if f.Property == "C04" && f.Clause == "cutoff-disabled" {
			// C01/C02: with the sweeper disabled no deletion is ever dropped as stale (order-independence needs it)
			for _, pid := range []string{"C01", "C02"} {
				g := f
				g.Property = pid
				out.Oracle = append(out.Oracle, g)
			}
		}
		if f.Property == "C04" && strings.HasPrefix(f.Clause, "no-bounce") {
			f.Property, f.Clause = "C10", "sweep-reload-loop/"+f.Clause
			out.Oracle = append(out.Oracle, f)
		}
	}
	out.Cases = len(cases)
	out.Distinct = len(nontriv)
	for i := 0; i < 3 && i < len(cases); i++ {
		out.Samples = append(out.Samples, cases[i*len(cases)/3])
	}
	files, err := writeCases(dir, "retention", "From Coq Require Import ZArith.\nFrom LS Require Import Base.Bytes Base.Res Retention.Model Corr.Obs Corr.Run_retention.", "rcase", cases, 150)
	out.Shards = files
	return out, err
}
