package main

import (
	"bytes"
	"encoding/binary"
	"errors"
	"fmt"
	"io"
	"sort"

	"github.com/PowerDNS/lightningstream/lmdbenv/strategy"
	"github.com/PowerDNS/lmdb-go/lmdb"
)

func init() { areas["strategy"] = areaStrategy }

type tdec struct {
	Kind string // set keep append fail ifabsent
	V    []byte
}

func (d tdec) Coq() string {
	switch d.Kind {
	case "set":
		return "(DSet " + cBytes(d.V) + ")"
	case "keep":
		return "DKeep"
	case "append":
		return "(DAppend " + cBytes(d.V) + ")"
	case "fail":
		return "DFail"
	default:
		return "(DIfAbsent " + cBytes(d.V) + ")"
	}
}

var errDecFail = errors.New("iterator decision failed")

func (d tdec) apply(old []byte) ([]byte, error) {
	var r []byte
	switch d.Kind {
	case "set":
		r = d.V
	case "keep":
		r = old
	case "append":
		r = append(append([]byte{}, old...), d.V...)
	case "fail":
		return nil, errDecFail
	default:
		if len(old) == 0 {
			r = d.V
		} else {
			r = old
		}
	}
	if len(r) == 0 {
		return nil, nil // contract: never an empty slice, nil instead
	}
	return r, nil
}

type tent struct {
	Key []byte
	Dec tdec
}

type tIter struct {
	ents  []tent
	i     int
	clean tdec
	reuse bool // hand out every key in the SAME buffer (the Iterator contract: a key is valid until the next call)
	buf   []byte
}

func (it *tIter) Next() ([]byte, error) {
	if it.i >= len(it.ents) {
		return nil, io.EOF
	}
	it.i++
	if it.reuse {
		if cap(it.buf) < 600 {
			it.buf = make([]byte, 0, 600)
		}
		it.buf = append(it.buf[:0], it.ents[it.i-1].Key...)
		return it.buf, nil
	}
	return it.ents[it.i-1].Key, nil
}
func (it *tIter) Merge(old []byte) ([]byte, error) { return it.ents[it.i-1].Dec.apply(old) }
func (it *tIter) Clean(old []byte) ([]byte, error) { return it.clean.apply(old) }

func le32(v uint32) []byte { b := make([]byte, 4); binary.LittleEndian.PutUint32(b, v); return b }
func le64(v uint64) []byte { b := make([]byte, 8); binary.LittleEndian.PutUint64(b, v); return b }

var byteKeyPool = [][]byte{[]byte("a"), []byte("aa"), []byte("ab"), []byte("a\x00"), []byte("a\xff"), []byte("b"), []byte("\x00"), []byte("\xff"),
	[]byte("abc"), []byte("abd"), []byte("b\x00\x00"), []byte("\x00\x00"), []byte("\xff\xff"), []byte("m"), []byte("z")}
var longKeys = [][]byte{bytes.Repeat([]byte("k"), 511), bytes.Repeat([]byte("k"), 510)}
var int4Pool = []uint32{0, 1, 2, 255, 256, 257, 65535, 65536, 1<<31 - 1, 1 << 31, 1<<31 + 1, 1<<32 - 2, 1<<32 - 1}
var int8Pool = []uint64{0, 1, 255, 256, 1 << 31, 1<<32 - 1, 1 << 32, 1<<63 - 1, 1 << 63, 1<<64 - 1}
var stratVals = [][]byte{[]byte("v"), []byte("w"), []byte("vv"), []byte("x\x00"), []byte("1234567890")}

func keyLess(intKey bool) func(a, b []byte) bool {
	if !intKey {
		return func(a, b []byte) bool { return bytes.Compare(a, b) < 0 }
	}
	toInt := func(x []byte) uint64 {
		if len(x) == 4 {
			return uint64(binary.LittleEndian.Uint32(x))
		}
		return binary.LittleEndian.Uint64(x)
	}
	return func(a, b []byte) bool { return toInt(a) < toInt(b) }
}

func genDec(r *Rng, allowFail bool) tdec {
	switch k := r.Intn(20); {
	case k < 7:
		return tdec{"set", pick(r, stratVals)}
	case k < 9:
		return tdec{"set", nil} // delete
	case k < 12:
		return tdec{"keep", nil}
	case k < 15:
		return tdec{"append", pick(r, stratVals)}
	case k < 18:
		return tdec{"ifabsent", pick(r, stratVals)}
	default:
		if allowFail && r.Chance(70) {
			return tdec{"fail", nil}
		}
		return tdec{"set", pick(r, stratVals)}
	}
}

func areaStrategy(r *Rng, n int, dir string) (*AreaOut, error) {
	out := &AreaOut{Hist: map[string]int{}, Rule: "strategy.Update/IterUpdate/EmptyPut on a real LMDB (transaction rolled back) with a table-driven iterator whose merge/clean decisions (set, delete, keep, append, if-absent, fail) are part of the case; stored contents x inputs over a key pool with common prefixes, 0x00/0xff, 510/511-byte keys, 4- and 8-byte integer keys incl. 0, 2^31, 2^32-1, 2^63; sorted, shuffled and duplicate-key inputs; DUPSORT DBIs for EmptyPut. distinct = distinct (strategy, flags, stored, input, clean) tuples; non-trivial = stored and input both non-empty"}
	env, closeEnv, err := newEnv()
	if err != nil {
		return nil, err
	}
	defer closeEnv()
	var cases []string
	seen := map[string]bool{}
	nontriv := map[string]bool{}
	for i := 0; i < n; i++ {
		strat := pick(r, []string{"update", "iterupdate", "iterupdate", "iterupdate", "emptyput"})
		var flags uint
		kind := pick(r, []string{"bytes", "bytes", "bytes", "int4", "int8"})
		var pool [][]byte
		switch kind {
		case "int4":
			flags = strategy.LMDBIntegerKeyFlag
			for _, v := range int4Pool {
				pool = append(pool, le32(v))
			}
		case "int8":
			flags = strategy.LMDBIntegerKeyFlag
			for _, v := range int8Pool {
				pool = append(pool, le64(v))
			}
		default:
			pool = byteKeyPool
			if r.Chance(8) {
				pool = append(append([][]byte{}, byteKeyPool...), longKeys...)
			}
		}
		allKeep := r.Chance(6)
		if strat == "emptyput" && kind == "bytes" && r.Chance(70) {
			flags |= lmdb.DupSort
		}
		less := keyLess(flags&strategy.LMDBIntegerKeyFlag != 0)
		// stored content
		var stored []pair
		emptyStored := r.Chance(8) // a DBI that holds nothing yet (first load)
		for _, k := range pool {
			if r.Chance(35) && !emptyStored {
				if flags&lmdb.DupSort == 0 && r.Chance(12) {
					stored = append(stored, pair{k, []byte{}}) // LMDB allows a zero-length value: the key is present
					continue
				}
				stored = append(stored, pair{k, pick(r, stratVals)})
				if flags&lmdb.DupSort != 0 && r.Chance(40) {
					stored = append(stored, pair{k, pick(r, stratVals)})
				}
			}
		}
		// input (sometimes empty: every stored key then gets the clean decision / EmptyPut leaves nothing)
		var ents []tent
		emptyInput := r.Chance(8)
		for _, k := range pool {
			if r.Chance(40) && !emptyInput {
				if allKeep {
					ents = append(ents, tent{k, tdec{"keep", nil}})
				} else {
					ents = append(ents, tent{k, genDec(r, r.Chance(30))})
				}
			}
		}
		sort.SliceStable(ents, func(a, b int) bool { return less(ents[a].Key, ents[b].Key) })
		shape := "sorted"
		if strat == "emptyput" && flags&lmdb.DupSort != 0 {
			// several values per key
			for j := 0; j < 3 && len(ents) > 0; j++ {
				e := ents[r.Intn(len(ents))]
				ents = append(ents, tent{e.Key, tdec{"set", pick(r, stratVals)}})
			}
		}
		if len(ents) >= 2 && (strat == "update" && r.Chance(50) || strat != "update" && r.Chance(18)) {
			switch r.Intn(3) {
			case 0: // swap two
				a, b := r.Intn(len(ents)), r.Intn(len(ents))
				ents[a], ents[b] = ents[b], ents[a]
				shape = "swapped"
			case 1: // duplicate key
				a := r.Intn(len(ents))
				ents = append(ents[:a+1], append([]tent{{ents[a].Key, genDec(r, false)}}, ents[a+1:]...)...)
				shape = "dupkey"
			default: // last element moved to front
				ents = append([]tent{ents[len(ents)-1]}, ents[:len(ents)-1]...)
				shape = "rotated"
			}
		}
		if strat == "update" && emptyStored && len(ents) >= 1 && shape == "sorted" && r.Chance(60) {
			// Update takes unsorted input with repeated keys: the second occurrence of a key sees what the first one
			// stored, also when the DBI was empty when the call began
			a := r.Intn(len(ents))
			ents = append(ents, tent{ents[a].Key, pick(r, []tdec{{"append", []byte("+2")}, {"ifabsent", []byte("second")}, {"keep", nil}})})
			shape = "repeated-on-empty"
		}
		clean := genDec(r, r.Chance(8))
		if allKeep {
			clean = tdec{"keep", nil}
		}
		if strat != "iterupdate" {
			clean = tdec{"keep", nil}
		}

		reuseBuf := r.Chance(30)
		var result []pair
		var runErr error
		var panicked any
		err := inRolledBackTxn(env, func(txn *lmdb.Txn) (ferr error) {
			dbi, err := txn.OpenDBI("t", lmdb.Create|flags)
			if err != nil {
				return err
			}
			for _, p := range stored {
				if err := txn.Put(dbi, p.K, p.V, 0); err != nil {
					return fmt.Errorf("prefill: %w", err)
				}
			}
			stored, _ = dumpDBI(txn, dbi) // canonical stored content (LMDB order, dup pairs collapsed)
			it := &tIter{ents: ents, clean: clean, reuse: reuseBuf}
			func() {
				defer func() { panicked = recover() }()
				switch strat {
				case "update":
					runErr = strategy.Update(txn, dbi, it)
				case "iterupdate":
					runErr = strategy.IterUpdate(txn, dbi, it)
				default:
					runErr = strategy.EmptyPut(txn, dbi, it)
				}
			}()
			if runErr == nil && panicked == nil {
				result, err = dumpDBI(txn, dbi)
				return err
			}
			return nil
		})
		if err != nil {
			return nil, fmt.Errorf("case %d: %w", i, err)
		}
		var obs string
		switch {
		case panicked != nil:
			obs = "SPanic"
		case runErr != nil:
			cls := errClass(runErr)
			obs = fmt.Sprintf("(SErr %d)", cls)
		default:
			obs = "(SDb " + cDB(result) + ")"
		}
		var es []string
		for _, e := range ents {
			es = append(es, fmt.Sprintf("mkT %s %s", cBytes(e.Key), e.Dec.Coq()))
		}
		sname := map[string]string{"update": "SUpdate", "iterupdate": "SIterUpdate", "emptyput": "SEmptyPut"}[strat]
		estr := "[]"
		if len(es) > 0 {
			estr = "[" + joinS(es, "; ") + "]"
		}
		cs := fmt.Sprintf("mkS %s %d %s %s %s %s", sname, flags, cDB(stored), estr, clean.Coq(), obs)
		cases = append(cases, cs)
		key := fmt.Sprintf("%s|%d|%s|%s|%s", strat, flags, cDB(stored), estr, clean.Coq())
		seen[key] = true
		if len(stored) > 0 && len(ents) > 0 {
			nontriv[key] = true
		}
		okind := "ok"
		if runErr != nil {
			okind = fmt.Sprintf("err%d", errClass(runErr))
		}
		hist(out.Hist, strat+"/"+kind+"/"+shape+"/"+okind)
		if reuseBuf {
			hist(out.Hist, "iterator-reuses-key-buffer")
		}
		if emptyStored {
			hist(out.Hist, "stored-empty/"+strat+"/"+shape)
		}
		out.CaseDescs = append(out.CaseDescs, key)

		// ---- implementation-side oracle (C19): a map-based reference of the property statement ----
		if flags&lmdb.DupSort == 0 {
			out.OracleN++
			if msg := strategyOracle(strat, less, stored, ents, clean, result, runErr, panicked); msg != "" {
				out.Oracle = append(out.Oracle, OracleFailure{"C19", "strategy-reference", msg, map[string]any{"strategy": strat, "flags": flags, "stored": cDB(stored), "input": estr, "clean": clean.Coq()}})
			}
		}
	}
	// ---- contents of several LMDB pages (reference oracle only): a leaf page already rewritten in this
	// transaction, then enough inserts in front of a pending stored key to split that page, then decisions that
	// depend on the stored value of that key and of the keys after it
	for rep := 0; rep < 6; rep++ {
		big := func(tag string, n int) []byte {
			return append([]byte(tag+":"), bytes.Repeat([]byte{byte('A' + rep)}, n)...)
		}
		var stored []pair
		for j := 0; j < 4+rep; j++ {
			stored = append(stored, pair{[]byte(fmt.Sprintf("a%02d", j)), big("s", 60+7*j)})
		}
		for _, k := range []string{"m", "n", "p", "z"} {
			stored = append(stored, pair{[]byte(k), big("R-"+k, 20+rep)})
		}
		var ents []tent
		ents = append(ents, tent{[]byte("a00"), tdec{"set", big("new", 90)}}) // dirties the first leaf page
		if rep%2 == 1 {
			ents = append(ents, tent{[]byte("a01"), tdec{"set", nil}})
		}
		for j := 0; j < 30+8*rep; j++ {
			ents = append(ents, tent{[]byte(fmt.Sprintf("b%03d", j)), tdec{"ifabsent", big("ins", 100+rep)}})
		}
		ents = append(ents, tent{[]byte("m"), tdec{"append", []byte("+r")}}, tent{[]byte("n"), tdec{"ifabsent", []byte("x")}}, tent{[]byte("q"), tdec{"set", []byte("new-q")}})
		clean := pick(r, []tdec{{"keep", nil}, {"append", []byte("!")}, {"set", nil}})
		less := keyLess(false)
		var result []pair
		var runErr error
		var panicked any
		err := inRolledBackTxn(env, func(txn *lmdb.Txn) error {
			dbi, err := txn.OpenDBI("pages", lmdb.Create)
			if err != nil {
				return err
			}
			for _, p := range stored {
				if err := txn.Put(dbi, p.K, p.V, 0); err != nil {
					return err
				}
			}
			func() {
				defer func() { panicked = recover() }()
				runErr = strategy.IterUpdate(txn, dbi, &tIter{ents: ents, clean: clean})
			}()
			if runErr == nil && panicked == nil {
				result, err = dumpDBI(txn, dbi)
				return err
			}
			return nil
		})
		if err != nil {
			return nil, fmt.Errorf("page case %d: %w", rep, err)
		}
		out.OracleN++
		hist(out.Hist, "iterupdate/several-pages")
		if msg := strategyOracle("iterupdate", less, stored, ents, clean, result, runErr, panicked); msg != "" {
			out.Oracle = append(out.Oracle, OracleFailure{"C19", "strategy-reference", "contents of several pages (stored: 4-9 keys a.. with 60-120-byte values, m n p z; input: rewrite a00, 30-70 inserts b... of ~105 bytes, append to m, if-absent n, set q): " + msg, map[string]any{"rep": rep, "clean": clean.Coq()}})
		}
	}
	out.Cases = len(cases)
	out.Distinct = len(nontriv)
	for i := 0; i < 3 && i < len(cases); i++ {
		out.Samples = append(out.Samples, cases[i*len(cases)/3])
	}
	files, err := writeCases(dir, "strategy", "From LS Require Import Base.Bytes Base.Res Strategy.Model Shadow.Model Corr.Obs Corr.Run_strategy.", "scase", cases, 150)
	out.Shards = files
	return out, err
}

func joinS(xs []string, sep string) string {
	s := ""
	for i, x := range xs {
		if i > 0 {
			s += sep
		}
		s += x
	}
	return s
}

// strategyOracle evaluates the property's own clauses with Go maps (no Coq model involved).
func strategyOracle(strat string, less func(a, b []byte) bool, stored []pair, ents []tent, clean tdec, result []pair, runErr error, panicked any) string {
	if panicked != nil {
		return fmt.Sprintf("strategy panicked: %v", panicked)
	}
	cur := map[string][]byte{}
	for _, p := range stored {
		cur[string(p.K)] = p.V
	}
	sortedIn := true
	for i := 1; i < len(ents); i++ {
		if !less(ents[i-1].Key, ents[i].Key) {
			sortedIn = false
		}
	}
	anyFail := clean.Kind == "fail" && strat == "iterupdate"
	for _, e := range ents {
		if e.Dec.Kind == "fail" {
			anyFail = true
		}
	}
	if strat == "iterupdate" && !sortedIn {
		if runErr == nil {
			return "input violating the required order was accepted"
		}
		return ""
	}
	if anyFail {
		return "" // which error surfaces first is not part of the property
	}
	if runErr != nil {
		return "valid input was rejected: " + runErr.Error()
	}
	inInput := map[string]bool{}
	switch strat {
	case "update", "iterupdate":
		for _, e := range ents {
			v, _ := e.Dec.apply(cur[string(e.Key)])
			if len(v) == 0 {
				delete(cur, string(e.Key))
			} else {
				cur[string(e.Key)] = v
			}
			inInput[string(e.Key)] = true
		}
		if strat == "iterupdate" {
			for _, p := range stored {
				if !inInput[string(p.K)] {
					v, _ := clean.apply(p.V)
					if len(v) == 0 {
						delete(cur, string(p.K))
					} else {
						cur[string(p.K)] = v
					}
				}
			}
		}
	default: // emptyput, no duplicates: rebuilt from empty
		cur = map[string][]byte{}
		for _, e := range ents {
			v, _ := e.Dec.apply(nil)
			if len(v) != 0 {
				cur[string(e.Key)] = v
			}
		}
	}
	if len(result) != len(cur) {
		return fmt.Sprintf("content differs from the reference: %d entries, expected %d", len(result), len(cur))
	}
	for i, p := range result {
		if !bytes.Equal(cur[string(p.K)], p.V) {
			return fmt.Sprintf("key %x holds %x, expected %x", p.K, p.V, cur[string(p.K)])
		}
		if i > 0 && !less(result[i-1].K, p.K) {
			return "content not in the DBI's key order"
		}
	}
	return ""
}
