package main

import (
	"bytes"
	"context"
	"errors"
	"fmt"
	"os"
	"sort"
	"strings"
	"sync/atomic"
	"time"

	"github.com/PowerDNS/lightningstream/config"
	"github.com/PowerDNS/lightningstream/lmdbenv"
	"github.com/PowerDNS/lightningstream/lmdbenv/dbiflags"
	"github.com/PowerDNS/lightningstream/lmdbenv/header"
	"github.com/PowerDNS/lightningstream/lmdbenv/strategy"
	"github.com/PowerDNS/lightningstream/snapshot"
	"github.com/PowerDNS/lightningstream/syncer"
	"github.com/PowerDNS/lightningstream/syncer/hooks"
	"github.com/PowerDNS/lmdb-go/lmdb"
	"github.com/PowerDNS/simpleblob/backends/memory"
)

func init() { areas["instance"] = areaInstance }

type dbiDump struct {
	Name  string
	Flags uint
	Data  []pair
}

// pollCtx is a context that turns out to be cancelled at the (left+1)-th time somebody looks at it: a shutdown
// request arriving while a long transaction is under way
type pollCtx struct {
	context.Context
	left *int32
}

var closedCh = func() chan struct{} { c := make(chan struct{}); close(c); return c }()

func (c pollCtx) Done() <-chan struct{} {
	if atomic.AddInt32(c.left, -1) < 0 {
		return closedCh
	}
	return nil
}
func (c pollCtx) Err() error {
	if atomic.LoadInt32(c.left) < 0 {
		return context.Canceled
	}
	return nil
}

func dumpEnv(env *lmdb.Env) ([]dbiDump, uint64, error) {
	var out []dbiDump
	err := env.View(func(txn *lmdb.Txn) error {
		names, err := lmdbenv.ReadDBINames(txn)
		if err != nil {
			return err
		}
		for _, n := range names {
			dbi, err := txn.OpenDBI(n, 0)
			if err != nil {
				return err
			}
			fl, err := txn.Flags(dbi)
			if err != nil {
				return err
			}
			ps, err := dumpDBI(txn, dbi)
			if err != nil {
				return err
			}
			out = append(out, dbiDump{n, fl, ps})
		}
		return nil
	})
	if err != nil {
		return nil, 0, err
	}
	info, err := env.Info()
	if err != nil {
		return nil, 0, err
	}
	return out, uint64(info.LastTxnID), nil
}

func cEnv(ds []dbiDump, last uint64) string {
	var items []string
	for _, d := range ds {
		items = append(items, fmt.Sprintf("(%s, mkDbi %d %s)", cBytes([]byte(d.Name)), d.Flags, cDB(d.Data)))
	}
	return fmt.Sprintf("(mkEnv %s %d)", lst(items), last)
}

type snapDBI struct {
	Name      string
	Flags     uint64
	Transform string
	Entries   []snapshot.KV
}

func cSnapDBIs(ds []snapDBI) string {
	var items []string
	for _, d := range ds {
		var es []string
		for _, e := range d.Entries {
			es = append(es, kvCoq(e))
		}
		items = append(items, fmt.Sprintf("(mkSDbi %s %d %s %s)", cBytes([]byte(d.Name)), d.Flags, cBytes([]byte(d.Transform)), lst(es)))
	}
	return lst(items)
}

func buildSnapshot(fmtv, compat uint32, inst string, ts uint64, ds []snapDBI) *snapshot.Snapshot {
	s := &snapshot.Snapshot{FormatVersion: fmtv, CompatVersion: compat}
	s.Meta.InstanceID = inst
	s.Meta.DatabaseName = dbName
	s.Meta.TimestampNano = ts
	for _, d := range ds {
		m := snapshot.NewDBI()
		m.SetName(d.Name)
		m.SetFlags(d.Flags)
		m.SetTransform(d.Transform)
		for _, e := range d.Entries {
			m.Append(e)
		}
		s.Databases = append(s.Databases, m)
	}
	return s
}

func decodeSnapDBIs(s *snapshot.Snapshot) ([]snapDBI, error) {
	var out []snapDBI
	for _, d := range s.Databases {
		kvs, err := d.AsInefficientKVList()
		if err != nil {
			return nil, err
		}
		var es []snapshot.KV
		for _, k := range kvs {
			es = append(es, snapshot.KV{Key: append([]byte{}, k.Key...), Value: append([]byte{}, k.Value...), TimestampNano: k.TimestampNano, Flags: k.Flags})
		}
		out = append(out, snapDBI{d.Name(), d.Flags(), d.Transform(), es})
	}
	return out, nil
}

func instErrClass(err error) int {
	c := errClass(err)
	if c != clsOther {
		return c
	}
	s := err.Error()
	for _, sub := range []string{"transform", "formatVersion", "compatVersion", "no TxnID", "cannot safely", "dupsort_hack", "dupsort db"} {
		if strings.Contains(s, sub) {
			return clsRefused
		}
	}
	return clsOther
}

type appOp struct {
	DBI   string
	Flags uint
	Key   []byte
	Val   []byte // nil = delete
	Del   bool
	Ext   int // native mode: number of 8-byte header extension blocks the application writes (0 = plain 24-byte header)
}

// applyApp commits one application transaction; in native mode values get a header stamped ts.
func applyApp(env *lmdb.Env, native bool, ts uint64, ops []appOp) error {
	return env.Update(func(txn *lmdb.Txn) error {
		for _, op := range ops {
			dbi, err := txn.OpenDBI(op.DBI, lmdb.Create|op.Flags)
			if err != nil {
				return err
			}
			if native {
				fl := byte(0)
				v := op.Val
				if op.Del {
					fl, v = 1, nil
				}
				val := mkStored(ts, uint64(txn.ID()), fl, op.Ext, v)
				if err := txn.Put(dbi, op.Key, val, 0); err != nil {
					return err
				}
				continue
			}
			if op.Del {
				if op.Flags&lmdb.DupSort != 0 {
					err = txn.Del(dbi, op.Key, op.Val)
				} else {
					err = txn.Del(dbi, op.Key, nil)
				}
				if err != nil && !lmdb.IsNotFound(err) {
					return err
				}
				continue
			}
			if err := txn.Put(dbi, op.Key, op.Val, 0); err != nil {
				return err
			}
		}
		return nil
	})
}

var instVals = [][]byte{[]byte("v1"), []byte("v2"), []byte("w"), []byte("x\x00y")}

func genAppOps(r *Rng, native, allowDup bool, n int) []appOp {
	var ops []appOp
	for i := 0; i < n; i++ {
		switch k := r.Intn(10); {
		case k < 6:
			ops = append(ops, appOp{DBI: "app", Key: pick(r, byteKeyPool[:8]), Val: pick(r, instVals), Del: r.Chance(20)})
		case k < 8:
			ops = append(ops, appOp{DBI: "ints", Flags: strategy.LMDBIntegerKeyFlag, Key: le32(pick(r, int4Pool)), Val: pick(r, instVals), Del: r.Chance(20)})
		default:
			if allowDup && !native {
				ops = append(ops, appOp{DBI: "dup", Flags: lmdb.DupSort, Key: pick(r, byteKeyPool[:4]), Val: pick(r, instVals), Del: r.Chance(15)})
			} else {
				// (an application DBI whose name merely CONTAINS "_sync" is an application DBI like any other: only the
				// prefix is reserved)
				ops = append(ops, appOp{DBI: pick(r, []string{"zz", "zz", "geo_sync_state"}), Key: pick(r, byteKeyPool[:5]), Val: pick(r, instVals)})
			}
		}
	}
	if r.Chance(8) {
		// the application empties a whole DBI (the DBI itself stays): every key of its pool deleted
		if r.Chance(70) {
			for _, k := range byteKeyPool[:8] {
				ops = append(ops, appOp{DBI: "app", Key: k, Del: true})
			}
		} else {
			for _, k := range byteKeyPool[:5] {
				ops = append(ops, appOp{DBI: "zz", Key: k, Del: true})
			}
		}
	}
	for i := range ops {
		if ops[i].Del && !native {
			ops[i].Val = pick(r, instVals)
		}
	}
	return ops
}

func setClock(ns uint64) {
	// in the process's local (non-UTC, see main) zone, like time.Now()
	syncer.VerifSetClock(func(time.Time) time.Time { return time.Unix(0, int64(ns)) })
}

func areaInstance(r *Rng, n int, dir string) (*AreaOut, error) {
	out := &AreaOut{Hist: map[string]int{}, Rule: "Syncer.LoadOnce / Syncer.SendOnce on a fresh real LMDB per case: environments built by real application transactions and real SendOnce/LoadOnce calls (native DBIs with headers; shadow mode with byte-key, integer-key and DUPSORT application DBIs and their shadow DBIs), lastSynced in {last, last-1, 0}; snapshots with 1-4 DBIs, format 0..4, compat 0..4, transforms {none, dupsort_hack_v1, unknown}, private _sync DBIs, new DBIs, entries with timestamps around the stored ones, deleted flags, v1 empty values, a malformed stored value planted under a touched key. distinct = distinct (cfg, env, snapshot, lastSynced) tuples; non-trivial = environment and snapshot both non-empty"}
	ctx := context.Background()
	var cases []string
	seen := map[string]bool{}
	nontriv := map[string]bool{}
	base := uint64(1700000000000000000)
	for i := 0; i < n; i++ {
		native := r.Chance(40)
		hack := r.Chance(70)
		pad := r.Chance(15)
		env, closeEnv, err := newEnv()
		if err != nil {
			return nil, err
		}
		st := memory.New()
		recvOnly := r.Chance(10) // receive-only: captures and merges like any other instance, never stores
		sweep := r.Chance(25)    // tomb sweeper configured: LoadOnce refuses to re-create markers older than the load cutoff
		// dbi_options.override_create_flags for some DBI names (each option applies to its own DBI only)
		type ovr struct {
			name  string
			flags uint
		}
		var ovrs []ovr
		if r.Chance(30) {
			for _, o := range []ovr{{"app", 0}, {"dup", lmdb.DupSort}, {"dup", lmdb.DupSort}, {"ints", strategy.LMDBIntegerKeyFlag}, {"new1", 0}} {
				if r.Chance(40) {
					ovrs = append(ovrs, o)
				}
			}
		}
		// an UpdateSnapshotInfo hook that moves the snapshot's timestamp (as an embedding application may): the stored
		// NAME must encode the timestamp the NameInfo ends up with
		hk := hooks.New()
		nameShift := time.Duration(0)
		if r.Chance(20) {
			nameShift = time.Hour
			hk.UpdateSnapshotInfo = func(si hooks.SnapshotInfo) error {
				si.NameInfo.Timestamp = si.NameInfo.Timestamp.Add(nameShift)
				return nil
			}
		}
		// configured instance names with characters outside the safe set: names and metadata carry the sanitised form
		instCfg := pick(r, []string{"a", "a", "a_b", "n__x_", "h.example.com"})
		instSafe := []byte(instCfg)
		for j, ch := range instSafe {
			if !(ch >= 'a' && ch <= 'z' || ch >= 'A' && ch <= 'Z' || ch >= '0' && ch <= '9' || ch == '-') {
				instSafe[j] = '-'
			}
		}
		sy, err := newSyncer(env, st, syncerOpts{Native: native, DupHack: hack, Padding: pad, Instance: instCfg, SyncerOpt: syncer.Options{ReceiveOnly: recvOnly, Hooks: hk}, Mod: func(c *configT, lc *lmdbCfgT) {
			if sweep {
				c.Sweeper = config.Sweeper{Enabled: true, RetentionDays: 1}
			}
			if len(ovrs) > 0 {
				lc.DBIOptions = map[string]config.DBIOptions{}
				for _, o := range ovrs {
					f := dbiflags.Flags(o.flags)
					lc.DBIOptions[o.name] = config.DBIOptions{OverrideCreateFlags: &f}
				}
			}
		}})
		if err != nil {
			closeEnv()
			return nil, err
		}
		clock := base + uint64(i)*1000000
		// ---- build an initial state with real operations ----
		steps := r.Intn(4)
		for s := 0; s < steps; s++ {
			clock += 1000
			setClock(clock)
			sops := genAppOps(r, native, hack, 1+r.Intn(4))
			if native && r.Chance(25) {
				for j := range sops { // application-written header extension blocks (allowed in a native schema)
					sops[j].Ext = 1 + r.Intn(2)
				}
			}
			if err := applyApp(env, native, clock, sops); err != nil {
				closeEnv()
				return nil, fmt.Errorf("setup app: %w", err)
			}
			if r.Chance(60) {
				clock += 1000
				setClock(clock)
				_, _ = sy.SendOnce(ctx, env) // creates/updates shadow DBIs in shadow mode
			}
		}
		recreated := false
		if native && r.Chance(15) {
			// the application drops a DBI and re-creates it under the same name with other flags while LS keeps running
			recreated = true
			clock += 1000
			setClock(clock)
			_ = applyApp(env, true, clock, []appOp{{DBI: "ints", Flags: strategy.LMDBIntegerKeyFlag, Key: le32(7), Val: []byte("int")}})
			clock += 1000
			setClock(clock)
			_, _ = sy.SendOnce(ctx, env)
			_ = env.Update(func(txn *lmdb.Txn) error {
				if dbi, err := txn.OpenDBI("ints", 0); err == nil {
					if err := txn.Drop(dbi, true); err != nil {
						return err
					}
				}
				dbi, err := txn.OpenDBI("ints", lmdb.Create) // plain byte-ordered now
				if err != nil {
					return err
				}
				return txn.Put(dbi, le32(7), mkStored(clock, uint64(txn.ID()), 0, 0, []byte("re")), 0)
			})
		}
		if native && r.Chance(12) { // plant a malformed stored value
			_ = env.Update(func(txn *lmdb.Txn) error {
				dbi, err := txn.OpenDBI("app", lmdb.Create)
				if err != nil {
					return err
				}
				return txn.Put(dbi, byteKeyPool[r.Intn(4)], []byte("short"), 0)
			})
		}
		if native && r.Chance(12) { // leftovers of an earlier shadow-mode period in a native-schema LMDB
			_ = env.Update(func(txn *lmdb.Txn) error {
				dbi, err := txn.OpenDBI(shadowPrefix+"old", lmdb.Create)
				if err != nil {
					return err
				}
				return txn.Put(dbi, []byte("k"), mkStored(clock-9000, 1, 0, 0, []byte("left")), 0)
			})
		}
		if sweep && r.Chance(60) {
			// deletion markers of every age (sweeper enabled: some are past the load cutoff, some past the retention
			// period and not swept yet): they exist, so they are part of the image
			_ = env.Update(func(txn *lmdb.Txn) error {
				name := "app"
				if !native {
					name = shadowPrefix + "app"
					if _, err := txn.OpenDBI("app", 0); err != nil {
						return nil // no application DBI of that name: nothing to mirror
					}
				}
				dbi, err := txn.OpenDBI(name, lmdb.Create)
				if err != nil {
					return err
				}
				for j, age := range []time.Duration{23*time.Hour + 50*time.Minute, 25 * time.Hour, 72 * time.Hour} {
					if r.Chance(60) {
						if err := txn.Put(dbi, []byte(fmt.Sprintf("zold%d", j)), mkStored(clock-uint64(age), 1, 1, 0, nil), 0); err != nil {
							return err
						}
					}
				}
				return nil
			})
		}
		if native && r.Chance(10) {
			// a native entry the application flagged deleted while leaving bytes after the header: part of the image
			// exactly as stored
			_ = env.Update(func(txn *lmdb.Txn) error {
				dbi, err := txn.OpenDBI("app", lmdb.Create)
				if err != nil {
					return err
				}
				return txn.Put(dbi, []byte("ghost"), mkStored(clock-3000, 1, 1, 0, []byte("left-behind")), 0)
			})
		}
		if r.Chance(7) {
			// values that do not fit the iterators' first buffer (1 kB)
			big := pick(r, []int{1500, 2048})
			clock += 1000
			setClock(clock)
			_ = applyApp(env, native, clock, []appOp{{DBI: "app", Key: []byte("a"), Val: []byte("small")}})
			clock += 1000
			setClock(clock)
			_, _ = sy.SendOnce(ctx, env)
			clock += 1000
			setClock(clock)
			// ... written right after a deletion in the same application transaction
			_ = applyApp(env, native, clock, []appOp{{DBI: "app", Key: []byte("a"), Del: true}, {DBI: "app", Key: []byte("big"), Val: bytes.Repeat([]byte{'B'}, big)}})
			hist(out.Hist, "values-over-1kB")
		}
		oldLiveDeleted := false
		if sweep && !native && r.Chance(50) {
			// shadow mode with the sweeper configured: an entry captured long ago (older than the retention period),
			// which the application now deletes: the deletion is captured as a marker stamped NOW like any other
			_ = env.Update(func(txn *lmdb.Txn) error {
				a, err := txn.OpenDBI("app", lmdb.Create)
				if err != nil {
					return err
				}
				sh, err := txn.OpenDBI(shadowPrefix+"app", lmdb.Create)
				if err != nil {
					return err
				}
				if err := txn.Put(sh, []byte("zlive-old"), mkStored(clock-uint64(72*time.Hour), 1, 0, 0, []byte("kept-for-days")), 0); err != nil {
					return err
				}
				if r.Chance(30) { // ... or still has
					return txn.Put(a, []byte("zlive-old"), []byte("kept-for-days"), 0)
				}
				oldLiveDeleted = true
				return nil
			})
		}
		_ = oldLiveDeleted
		if !native && r.Chance(10) { // an application DBI that has no shadow yet
			_ = applyApp(env, false, clock, []appOp{{DBI: "late", Key: []byte("k"), Val: []byte("v")}})
		}
		before, last, err := dumpEnv(env)
		if err != nil {
			closeEnv()
			return nil, err
		}
		clock += 1000
		setClock(clock)
		cancelled := r.Chance(8)
		runCtx := ctx
		if cancelled {
			c2, cancelNow := context.WithCancel(ctx)
			cancelNow()
			runCtx = c2
		}
		var ovc []string
		for _, o := range ovrs {
			ovc = append(ovc, fmt.Sprintf("(%s, %d)", cBytes([]byte(o.name)), o.flags))
		}
		cfg := fmt.Sprintf("(mkICfg %s %s %s %s %s %s)", cBool(native), cBool(hack), cBool(pad), cBool(recvOnly), cBool(cancelled), lst(ovc))

		isSend := recreated || r.Chance(25)
		if isSend && !native && r.Chance(35) {
			// an application entry with a ZERO-LENGTH value: a live entry like any other in the image (how the
			// projection treats it later is finding F6, reported under C11)
			clock += 1000
			setClock(clock)
			_ = applyApp(env, false, clock, []appOp{{DBI: "app", Key: pick(r, byteKeyPool[:6]), Val: []byte{}}})
			before, last, _ = dumpEnv(env)
			if os.Getenv("LSVERIF_DEBUG") != "" {
				fmt.Fprintf(os.Stderr, "DEBUG case %d send-with-empty: hack=%v recreated=%v env=%s\n", i, hack, recreated, cEnv(before, last))
			}
			clock += 1000
			setClock(clock)
		}
		if isSend {
			// ---------------- SendOnce ----------------
			var retID uint64
			var sendErr error
			var pan any
			func() {
				defer func() { pan = recover() }()
				id, err := sy.SendOnce(runCtx, env)
				retID, sendErr = uint64(id), err
			}()
			after, last2, _ := dumpEnv(env)
			obs := ""
			var up []snapDBI
			switch {
			case pan != nil:
				obs = "IPanic"
			case sendErr != nil:
				obs = fmt.Sprintf("(IErr %d)", instErrClass(sendErr))
			case recvOnly:
				ls, _ := st.List(ctx, "")
				out.OracleN++
				if len(ls) != 0 {
					for _, pid := range []string{"C12", "C06"} {
						out.Oracle = append(out.Oracle, OracleFailure{pid, "receive-only-stores", fmt.Sprintf("a receive-only instance stored %v", ls.Names()), nil})
					}
				}
				obs = fmt.Sprintf("(ISend %s %d [])", cEnv(after, last2), retID)
			default:
				// newest blob of this instance
				ls, _ := st.List(ctx, "")
				names := ls.Names()
				sort.Strings(names)
				blob, _ := st.Load(ctx, names[len(names)-1])
				sn, err := snapshot.LoadData(blob)
				if err != nil {
					closeEnv()
					return nil, fmt.Errorf("decode own upload: %w", err)
				}
				up, _ = decodeSnapDBIs(sn)
				obs = fmt.Sprintf("(ISend %s %d %s)", cEnv(after, last2), retID, cSnapDBIs(up))
				// oracle C06: metadata and name
				out.OracleN++
				ni, perr := snapshot.ParseName(names[len(names)-1])
				wantName := clock + uint64(nameShift)
				if sn.Meta.DatabaseName != dbName || sn.Meta.InstanceID != string(instSafe) || sn.Meta.TimestampNano != clock || perr != nil || uint64(ni.Timestamp.UnixNano()) != wantName || ni.InstanceID != string(instSafe) || ni.SyncerName != dbName {
					for _, pid := range []string{"C06", "C15"} {
						out.Oracle = append(out.Oracle, OracleFailure{pid, "meta", fmt.Sprintf("name %s meta %+v do not carry database/instance/time of the image (image taken at %d; name timestamp expected %d, a hook moved it by %v; configured instance %q = %q sanitised; parse error %v)", names[len(names)-1], sn.Meta, clock, wantName, nameShift, instCfg, instSafe, perr), nil})
					}
				}
				for _, f := range dumpOracle(native, after, up) {
					out.Oracle = append(out.Oracle, f)
				}
			}
			cs := fmt.Sprintf("ISendCase %s %s %d 0 %s", cfg, cEnv(before, last), clock, obs)
			cases = append(cases, cs)
			key := "send|" + cfg + cEnv(before, last)
			seen[key] = true
			if len(before) > 0 {
				nontriv[key] = true
			}
			hist(out.Hist, fmt.Sprintf("send/native=%v/err=%v", native, sendErr != nil))
			out.CaseDescs = append(out.CaseDescs, key)
			closeEnv()
			continue
		}

		// ---------------- LoadOnce ----------------
		lastSynced := last
		switch r.Intn(5) {
		case 0:
			if last > 0 {
				lastSynced = last - 1
			}
		case 1:
			lastSynced = 0
		}
		fmtv := uint32(3)
		if r.Chance(30) {
			fmtv = pick(r, []uint32{0, 1, 1, 2, 2, 3, 4})
		}
		compat := uint32(1)
		if r.Chance(15) {
			compat = pick(r, []uint32{0, 1, 2, 3, 4, 5})
		}
		if r.Chance(7) {
			// a snapshot of a FUTURE incompatible format: compat version above what this build supports, format
			// version at least that (what a newer sender really writes)
			fmtv = pick(r, []uint32{4, 5, 5, 6})
			compat = pick(r, []uint32{4, fmtv})
		}
		var sds []snapDBI
		nd := 1 + r.Intn(3)
		onlyPrivate := (fmtv == 0 || compat > 3) && r.Chance(35)
		usedNames := map[string]bool{}
		for j := 0; j < nd; j++ {
			name := pick(r, []string{"app", "app", "ints", "dup", "new1", "_sync_meta", "zz", "geo_sync_state"})
			if onlyPrivate {
				// a snapshot of an unreadable version whose DBIs are all private (skipped by the merge loop before any
				// per-DBI check): refused all the same
				name = pick(r, []string{"_sync_meta", "_sync_shadow_app", "_sync_x"})
			}
			if j == 0 && !native && hack && r.Chance(70) {
				for _, o := range ovrs { // the documented way to receive a duplicate-keys DBI: override_create_flags MDB_DUPSORT
					if o.name == "dup" {
						name = "dup"
					}
				}
			}
			if usedNames[name] {
				continue
			}
			usedNames[name] = true
			d := snapDBI{Name: name}
			var keys [][]byte
			plainDup := false
			switch name {
			case "ints":
				d.Flags = strategy.LMDBIntegerKeyFlag
				for _, v := range int4Pool {
					if r.Chance(35) {
						keys = append(keys, le32(v))
					}
				}
			case "dup":
				if r.Chance(15) {
					plainDup = true
					// the sender has this name as a PLAIN DBI (no duplicate keys, no transform): consistent in itself, but
					// its keys are not shadow keys of the hack; a receiver whose own DBI of that name has duplicate keys
					// cannot mirror them and refuses the snapshot
					for _, k := range byteKeyPool[:6] {
						if r.Chance(50) {
							keys = append(keys, k)
						}
					}
					break
				}
				d.Flags = lmdb.DupSort
				d.Transform = "dupsort_hack_v1"
				for _, k := range byteKeyPool[:4] {
					if r.Chance(50) {
						e, _ := syncer.VerifDupSortEncodeOne(snapshot.KV{Key: k, Value: pick(r, instVals)})
						keys = append(keys, e.Key)
					}
				}
				sort.Slice(keys, func(a, b int) bool { return bytes.Compare(keys[a], keys[b]) < 0 })
			default:
				for _, k := range byteKeyPool[:8] {
					if r.Chance(40) {
						keys = append(keys, k)
					}
				}
			}
			if r.Chance(8) {
				d.Transform = pick(r, []string{"bogus", "dupsort_hack_v1", ""})
			}
			if r.Chance(5) {
				d.Flags ^= lmdb.DupSort
			}
			for _, k := range keys {
				e := snapshot.KV{Key: k, TimestampNano: pick(r, []uint64{clock - 5000, clock - 1000, clock - 2000, clock + 500, 1, 0})}
				if r.Chance(6) {
					// versions stamped far ahead of this instance's clock (a writer whose clock is wrong, or a native
					// application that chooses its own timestamps): ordered by their timestamps like any others
					e.TimestampNano = clock + uint64(pick(r, []time.Duration{25 * time.Hour, 49 * time.Hour, 400 * 24 * time.Hour}))
				}
				if name == "dup" && !plainDup && r.Chance(8) {
					// a damaged shadow key in a dump that claims the transform (a deletion marker half of the time): no
					// part of such a snapshot is merged
					e.Key = append([]byte{}, k[:len(k)/2]...)
					e.Value = nil
					if r.Chance(50) {
						e.Flags = 1
					}
					d.Entries = append(d.Entries, e)
					continue
				}
				if name == "dup" && !plainDup {
					// value is the suffix stored in the hack key; keep consistent
					dec, _ := syncer.VerifDupSortDecodeOne(snapshot.KV{Key: k})
					_ = dec
					e.Value = hackValueOf(k)
				} else {
					e.Value = pick(r, [][]byte{[]byte("v1"), []byte("v2"), []byte("remote"), nil})
				}
				if r.Chance(20) {
					e.Flags = 1
					if r.Chance(80) {
						e.Value = nil
					}
				} else if name != "dup" && r.Chance(4) {
					e.Value = bytes.Repeat([]byte{'R'}, pick(r, []int{1100, 2048})) // larger than the iterator's first buffer
				}
				d.Entries = append(d.Entries, e)
			}
			if len(d.Entries) > 0 && name != "dup" && d.Flags&lmdb.DupSort == 0 && r.Chance(12) {
				// the same key twice in one snapshot DBI (a foreign or buggy writer): the versions are joined like any
				// others, whichever comes first — also when the DBI is new here
				e0 := d.Entries[r.Intn(len(d.Entries))]
				e2 := e0
				e2.Value = pick(r, [][]byte{[]byte("dupA"), []byte("dupB"), nil})
				e2.Flags = 0
				if e0.TimestampNano > 2000 {
					e2.TimestampNano = e0.TimestampNano - 1500 // older: must lose wherever it stands
				}
				d.Entries = append(d.Entries, e2)
			}
			sds = append(sds, d)
		}
		cutoff := uint64(sy.VerifDeletedCutoff(time.Unix(0, int64(clock))))
		snapTS := clock - 10
		if sweep {
			if r.Chance(50) {
				snapTS = clock - uint64(36*time.Hour) // the last snapshot of an instance that has been silent for a while
			}
			// deletion markers exactly around the load cutoff, mostly for keys this instance may not have
			for j := range sds {
				for q := range sds[j].Entries {
					if r.Chance(45) {
						sds[j].Entries[q].TimestampNano = pick(r, []uint64{cutoff - 1, cutoff, cutoff + 1, cutoff - uint64(time.Hour), cutoff + uint64(time.Hour)})
						sds[j].Entries[q].Flags = 1
						sds[j].Entries[q].Value = nil
					}
				}
			}
		}
		// the snapshot is another instance's, or (a quarter of the cases) one of this instance's OWN name, as loaded
		// after a restart with an LMDB that is behind it: merging does not depend on whose snapshot it is
		snapInst := "b"
		if r.Chance(25) {
			snapInst = string(instSafe)
		}
		sn := buildSnapshot(fmtv, compat, snapInst, snapTS, sds)
		upd := snapshot.Update{Snapshot: sn, NameInfo: snapshot.NameInfo{Kind: snapshot.KindSnapshot, InstanceID: snapInst, SyncerName: dbName, Timestamp: time.Unix(0, int64(snapTS))}}
		if r.Chance(10) {
			// somebody (a hook, an embedding application, an earlier aborted attempt) has already READ the snapshot's
			// DBIs through their cursors: the merge still starts at the first entry
			for _, d := range sn.Databases {
				d.ResetCursor()
				for {
					if _, err := d.Next(); err != nil {
						break
					}
				}
			}
			hist(out.Hist, "load/snapshot-read-before-the-merge")
		}
		// a shutdown request that arrives at the k-th look at the context (mid-transaction): the load either fails and
		// changes nothing, or succeeds completely (oracles only for the failing runs: the model's cancellation is at the start)
		midCancel := !cancelled && r.Chance(15)
		var retID uint64
		var lc bool
		var loadErr error
		var pan any
		var after []dbiDump
		var last2 uint64
		for k := int32(0); ; k++ {
			if midCancel {
				// the shutdown request arrives at the (k+1)-th look at the context, for k = 0, 1, 2, ...: every attempt
				// that is cut short returns the cancellation and leaves the LMDB untouched; the SAME update object is
				// then retried, until an attempt runs to the end
				left := k
				runCtx = pollCtx{ctx, &left}
			}
			func() {
				defer func() { pan = recover() }()
				id, l, err := sy.LoadOnce(runCtx, env, snapInst, upd, header.TxnID(lastSynced))
				retID, lc, loadErr = uint64(id), l, err
			}()
			after, last2, _ = dumpEnv(env)
			if midCancel && pan == nil && loadErr != nil && errors.Is(loadErr, context.Canceled) && k < 60 {
				out.OracleN++
				hist(out.Hist, "load/cancelled-mid-transaction")
				if cEnv(after, last2) != cEnv(before, last) {
					for _, pid := range []string{"C18", "C20"} {
						out.Oracle = append(out.Oracle, OracleFailure{pid, "all-or-nothing", fmt.Sprintf("LoadOnce was cancelled at its %d-th look at the context and returned the cancellation, but the LMDB changed", k+1), map[string]any{"cfg": cfg, "env": cEnv(before, last)}})
					}
					break
				}
				continue
			}
			break
		}
		obs := ""
		switch {
		case pan != nil:
			obs = "IPanic"
		case loadErr != nil:
			obs = fmt.Sprintf("(IErr %d)", instErrClass(loadErr))
		default:
			obs = fmt.Sprintf("(ILoad %s %d %s)", cEnv(after, last2), retID, cBool(lc))
		}
		// the snapshot as the code saw it (Append drops all-default entries)
		seenDBIs, _ := decodeSnapDBIs(sn)
		cs := fmt.Sprintf("ILoadCase %s %s (mkSnap %d %d %s) %d %d %d %s", cfg, cEnv(before, last), fmtv, compat, cSnapDBIs(seenDBIs), lastSynced, clock, cutoff, obs)
		cases = append(cases, cs)
		key := fmt.Sprintf("load|%s|%s|%d|%d|%s|%d|%v", cfg, cEnv(before, last), fmtv, compat, cSnapDBIs(seenDBIs), lastSynced, sweep)
		seen[key] = true
		if len(before) > 0 && len(sds) > 0 {
			nontriv[key] = true
		}
		hist(out.Hist, fmt.Sprintf("load/native=%v/fmt=%d/sweeper=%v/err=%v", native, fmtv, sweep, loadErr != nil))
		out.CaseDescs = append(out.CaseDescs, key)

		// ---- oracles ----
		out.OracleN++
		in := map[string]any{"cfg": cfg, "env": cEnv(before, last), "snapshot": cSnapDBIs(seenDBIs), "fmt": fmtv, "compat": compat, "lastSynced": lastSynced}
		if loadErr != nil || pan != nil {
			// C18: all-or-nothing
			if cEnv(after, last2) != cEnv(before, last) {
				out.Oracle = append(out.Oracle, OracleFailure{"C18", "all-or-nothing", fmt.Sprintf("LoadOnce failed (%v) but the LMDB changed", loadErr), in})
			}
			if pan != nil {
				out.Oracle = append(out.Oracle, OracleFailure{"C18", "no-panic", fmt.Sprint(pan), in})
			}
		} else {
			if !native {
				// a shadow DBI is a plain DBI of unique keys (integer-key order transferred), whatever flags the
				// snapshot or dbi_options.override_create_flags give the application's DBI: the dupsort hack relies on it
				for _, d := range after {
					if strings.HasPrefix(d.Name, shadowPrefix) && d.Flags&^strategy.LMDBIntegerKeyFlag != 0 {
						// (every property that speaks about merged state relies on it: with duplicate keys in the shadow DBI a
						// Put adds a version instead of replacing one)
						for _, pid := range []string{"C20", "C18", "C02", "C03", "C04", "C11"} {
							out.Oracle = append(out.Oracle, OracleFailure{pid, "shadow-dbi-is-plain", fmt.Sprintf("after LoadOnce the shadow DBI %s has LMDB flags %#x (only MDB_INTEGERKEY may be transferred to a shadow DBI)", d.Name, d.Flags), in})
						}
					}
				}
			}
			if fmtv == 0 || compat > 3 {
				out.Oracle = append(out.Oracle, OracleFailure{"C18", "version-gate", fmt.Sprintf("format %d / compat %d was merged", fmtv, compat), in})
			}
			// C18 / C20: a snapshot DBI whose stated transform this receiver does not know, must not apply (native
			// schema), or that contradicts the DUPSORT flag (format >= 3) is refused — whether or not the DBI exists
			for _, d := range seenDBIs {
				if strings.HasPrefix(d.Name, "_sync") {
					continue
				}
				isDupTr := d.Transform == "dupsort_hack_v1"
				why := ""
				switch {
				case d.Transform != "" && !isDupTr:
					why = fmt.Sprintf("unknown transform %q", d.Transform)
				case native && d.Transform != "":
					why = fmt.Sprintf("transform %q in a native schema", d.Transform)
				case fmtv >= 3 && (d.Flags&uint64(lmdb.DupSort) != 0) != isDupTr:
					why = fmt.Sprintf("DUPSORT flag %v but transform %q (format %d)", d.Flags&uint64(lmdb.DupSort) != 0, d.Transform, fmtv)
				}
				if why != "" {
					for _, pid := range []string{"C18", "C20"} {
						out.Oracle = append(out.Oracle, OracleFailure{pid, "transform-refused", fmt.Sprintf("snapshot DBI %s with %s was merged instead of refused", d.Name, why), in})
					}
				}
			}
			// C04: with the sweeper configured, a deletion marker older than the load cutoff (now - retention + buffer,
			// `now` being the time of THIS load) is never re-created on an instance that has no entry for the key;
			// a younger marker is stored (markers travel)
			// a snapshot DBI that names one key twice is merged entry by entry: what the second entry meets is no longer
			// the state before the load (a stale marker dropped, then an older live version of the same key stored, is
			// the order dependence C02_cutoff_order_refuted documents) — the per-snapshot oracles below skip those
			snapHasDupKeys := false
			for _, d := range seenDBIs {
				seenK := map[string]bool{}
				for _, e := range d.Entries {
					if seenK[string(e.Key)] {
						snapHasDupKeys = true
					}
					seenK[string(e.Key)] = true
				}
			}
			if sweep && !snapHasDupKeys {
				tgt := func(ds []dbiDump, name string) map[string][]byte {
					m := map[string][]byte{}
					if !native {
						name = shadowPrefix + name
					}
					for _, d := range ds {
						if d.Name == name {
							for _, p := range d.Data {
								m[string(p.K)] = p.V
							}
						}
					}
					return m
				}
				for _, d := range seenDBIs {
					if strings.HasPrefix(d.Name, "_sync") {
						continue
					}
					b0, a0 := tgt(before, d.Name), tgt(after, d.Name)
					if !native && lc {
						continue // the capture step may have touched the shadow DBI first
					}
					for _, e := range d.Entries {
						isDel := e.Flags&1 == 1 || (fmtv < 2 && len(e.Value) == 0)
						if _, had := b0[string(e.Key)]; had || !isDel || e.TimestampNano == 0 {
							continue
						}
						_, has := a0[string(e.Key)]
						if e.TimestampNano < cutoff && has {
							out.Oracle = append(out.Oracle, OracleFailure{"C04", "swept-marker-recreated", fmt.Sprintf("DBI %s key %x: deletion marker with timestamp %d is older than the load cutoff %d (snapshot dated %d, loaded at %d) but was re-created on an instance without an entry for the key", d.Name, e.Key, e.TimestampNano, cutoff, snapTS, clock), in})
						}
						if e.TimestampNano >= cutoff && !has {
							out.Oracle = append(out.Oracle, OracleFailure{"C04", "marker-dropped", fmt.Sprintf("DBI %s key %x: deletion marker with timestamp %d is not older than the load cutoff %d but was not stored", d.Name, e.Key, e.TimestampNano, cutoff), in})
						}
					}
				}
			}
			for _, d := range after {
				if strings.HasPrefix(d.Name, "_sync_meta") {
					out.Oracle = append(out.Oracle, OracleFailure{"C18", "private-dbi", "a private DBI from the snapshot was created locally", in})
				}
			}
			// C18/C02: the merged state is, per key, the last-writer-wins join of what was stored and what came in
			// (documented meaning per format version: v1 empty value = deletion, from v2 the deleted flag)
			for _, f := range mergeResultOracle(native || !lc, native, fmtv, cutoff, before, after, seenDBIs) {
				f.Input = in
				out.Oracle = append(out.Oracle, f)
				if f.Property == "C18" { // the same fact is C02's: the stored version is the join, never an older one
					f.Property, f.Clause = "C02", "merge-is-join"
					out.Oracle = append(out.Oracle, f)
				}
			}
			// C11: after the step the application DBIs hold exactly the live entries of the merged (shadow) state
			// (entries with an empty value: known finding F6, skipped; DUPSORT DBIs: C20)
			if !native {
				byName := map[string]dbiDump{}
				for _, d := range after {
					byName[d.Name] = d
				}
				for _, d := range after {
					if strings.HasPrefix(d.Name, "_sync") || d.Flags&lmdb.DupSort != 0 {
						continue
					}
					sh, ok := byName[shadowPrefix+d.Name]
					if !ok {
						continue
					}
					want := map[string][]byte{}
					bad := false
					for _, p := range sh.Data {
						lv, ok := logical(p.V)
						if !ok {
							bad = true
							break
						}
						if !lv.Del && len(lv.Val) > 0 {
							want[string(p.K)] = lv.Val
						} else if lv.Del && len(lv.Val) > 0 {
							// a marker carrying a value: LS must never write one (C14); whatever wrote it, the key is deleted
							delete(want, string(p.K))
						}
					}
					if bad {
						continue
					}
					got := map[string][]byte{}
					for _, p := range d.Data {
						got[string(p.K)] = p.V
					}
					for k, v := range want {
						if g, ok := got[k]; !ok || !bytes.Equal(g, v) {
							out.Oracle = append(out.Oracle, OracleFailure{"C11", "mirror-after-load", fmt.Sprintf("DBI %s key %x: merged state is live with value %x, the application DBI has present=%v value %x", d.Name, k, v, ok, g), in})
							if midCancel {
								for _, pid := range []string{"C18", "C20"} {
									out.Oracle = append(out.Oracle, OracleFailure{pid, "partial-load-reported-as-success", fmt.Sprintf("a cancellation arrived mid-transaction, LoadOnce returned SUCCESS and committed, but application DBI %s was not brought in line with the merged state (key %x: merged value %x, application DBI present=%v value %x)", d.Name, k, v, ok, g), in})
								}
							}
							break
						}
					}
					for k, g := range got {
						if _, ok := want[k]; !ok {
							out.Oracle = append(out.Oracle, OracleFailure{"C11", "mirror-after-load", fmt.Sprintf("DBI %s key %x: the application DBI holds %x but the merged state has no live non-empty entry for it", d.Name, k, g), in})
							if midCancel {
								for _, pid := range []string{"C18", "C20"} {
									out.Oracle = append(out.Oracle, OracleFailure{pid, "partial-load-reported-as-success", fmt.Sprintf("a cancellation arrived mid-transaction, LoadOnce returned SUCCESS and committed, but application DBI %s still holds key %x = %x, which the merged state does not", d.Name, k, g), in})
								}
							}
							break
						}
					}
				}
			}
			// C10: merging the same snapshot again, with nothing changed locally, commits nothing
			// (DBIs under the dupsort hack excepted) and reports no local change
			hasDup := false
			for _, d := range after {
				if d.Flags&lmdb.DupSort != 0 {
					hasDup = true
				}
			}
			setClock(clock + 100)
			id2, lc2, err2 := sy.LoadOnce(ctx, env, snapInst, upd, header.TxnID(retID))
			again, last3, _ := dumpEnv(env)
			switch {
			case snapHasDupKeys && sweep:
				// see above: with the sweeper configured a re-merge may legitimately find something newer
			case err2 != nil:
				out.Oracle = append(out.Oracle, OracleFailure{"C10", "noop-load", "re-merging an already merged snapshot failed: " + err2.Error(), in})
			case lc2:
				out.Oracle = append(out.Oracle, OracleFailure{"C10", "noop-load", "re-merging reported a local change although nothing was written locally", in})
			case uint64(id2) != last3:
				out.Oracle = append(out.Oracle, OracleFailure{"C10", "noop-load", fmt.Sprintf("returned txn id %d is not the last recorded one %d: the next check would upload an echo", id2, last3), in})
			case !hasDup && last3 != last2:
				out.Oracle = append(out.Oracle, OracleFailure{"C10", "noop-load", fmt.Sprintf("re-merging an already merged snapshot committed a transaction (LastTxnID %d -> %d)", last2, last3), in})
			case !hasDup && cEnv(again, 0) != cEnv(after, 0):
				out.Oracle = append(out.Oracle, OracleFailure{"C10", "noop-load", "re-merging an already merged snapshot changed stored bytes", in})
			}
		}
		closeEnv()
	}
	syncer.VerifSetClock(nil)
	eofValueProbe(out, dir)
	if err := boundarySizesSend(out); err != nil {
		return nil, err
	}
	if err := v1DeletionScenario(out); err != nil {
		return nil, err
	}
	if err := malformedKeyLoad(out); err != nil {
		return nil, err
	}
	if err := dupsortCollision(out); err != nil {
		return nil, err
	}
	out.Cases = len(cases)
	out.Distinct = len(nontriv)
	for i := 0; i < 3 && i < len(cases); i++ {
		out.Samples = append(out.Samples, cases[i*len(cases)/3])
	}
	files, err := writeCases(dir, "instance", "From LS Require Import Base.Bytes Base.Res Merge.Model Strategy.Model Shadow.Model Instance.Model Corr.Obs Corr.Run_instance.", "icase", cases, 60)
	out.Shards = files
	return out, err
}

// hackValueOf extracts the value part embedded in a dupsort_hack key (values used here are short)
func hackValueOf(k []byte) []byte {
	kl := int(k[len(k)-1])
	return append([]byte{}, k[kl+4:len(k)-1]...)
}

// dumpOracle (C06): the upload is the complete image of the application DBIs
func dumpOracle(native bool, envAfter []dbiDump, up []snapDBI) []OracleFailure {
	var fs []OracleFailure
	byName := map[string]dbiDump{}
	for _, d := range envAfter {
		byName[d.Name] = d
	}
	upBy := map[string]snapDBI{}
	for _, d := range up {
		if strings.HasPrefix(d.Name, "_sync") {
			fs = append(fs, OracleFailure{"C06", "private-absent", "private DBI " + d.Name + " is in the snapshot", nil})
		}
		upBy[d.Name] = d
	}
	for _, d := range envAfter {
		if strings.HasPrefix(d.Name, "_sync") {
			continue
		}
		u, ok := upBy[d.Name]
		if !ok {
			fs = append(fs, OracleFailure{"C06", "complete", "application DBI " + d.Name + " missing from the snapshot", nil})
			continue
		}
		if u.Flags != uint64(d.Flags) {
			fs = append(fs, OracleFailure{"C06", "flags", fmt.Sprintf("DBI %s: snapshot flags %d, application DBI flags %d", d.Name, u.Flags, d.Flags), nil})
		}
		src := d
		if !native {
			src = byName[shadowPrefix+d.Name]
		}
		// C04: deletion markers travel in every snapshot for as long as they exist in the LMDB, however old
		{
			inSnap := map[string]bool{}
			for _, e := range u.Entries {
				if e.Flags&1 == 1 {
					inSnap[string(e.Key)] = true
				}
			}
			for _, p := range src.Data {
				if lv, ok := logical(p.V); ok && lv.Del && !inSnap[string(p.K)] {
					fs = append(fs, OracleFailure{"C04", "markers-travel", fmt.Sprintf("DBI %s: the deletion marker for key %x (timestamp %d) is stored in the LMDB but is not in the snapshot uploaded from it", d.Name, p.K, lv.TS), nil})
					break
				}
			}
		}
		if len(src.Data) != len(u.Entries) {
			fs = append(fs, OracleFailure{"C06", "complete", fmt.Sprintf("DBI %s: %d stored entries, %d in the snapshot", d.Name, len(src.Data), len(u.Entries)), nil})
			continue
		}
		// shadow mode: the image is that of the APPLICATION DBI as of the dump transaction: its (key, value) pairs are
		// exactly the live entries of the snapshot (the capture ran in the same transaction)
		if !native && d.Flags&lmdb.DupSort == 0 {
			app := map[string][]byte{}
			for _, p := range d.Data {
				app[string(p.K)] = p.V
			}
			live := map[string][]byte{}
			for _, e := range u.Entries {
				if e.Flags&1 == 0 {
					live[string(e.Key)] = e.Value
				}
			}
			for k, v := range app {
				if lv, ok := live[k]; !ok || !bytes.Equal(lv, v) {
					fs = append(fs, OracleFailure{"C06", "image-of-application-dbi", fmt.Sprintf("DBI %s key %x: the application DBI holds %x at the dump transaction, the snapshot has live=%v value %x", d.Name, k, v, ok, lv), nil})
					break
				}
			}
			for k, v := range live {
				if _, ok := app[k]; !ok {
					fs = append(fs, OracleFailure{"C06", "image-of-application-dbi", fmt.Sprintf("DBI %s key %x: the snapshot has a live entry (value %x) for a key that is not in the application DBI at the dump transaction", d.Name, k, v), nil})
					break
				}
			}
		}
		for i, p := range src.Data {
			lv, ok := logical(p.V)
			e := u.Entries[i]
			if !ok || !bytes.Equal(e.Key, p.K) || !bytes.Equal(e.Value, lv.Val) || e.TimestampNano != lv.TS || (e.Flags&1 == 1) != lv.Del || e.Flags > 1 {
				fs = append(fs, OracleFailure{"C06", "entry", fmt.Sprintf("DBI %s key %x: stored %+v, snapshot has %s", d.Name, p.K, lv, kvCoq(e)), nil})
				if ok && !bytes.Equal(e.Value, lv.Val) && len(p.V) >= 24 && (p.V[22] != 0 || p.V[23] != 0) {
					// C14: the application value of a stored value with extension blocks is what follows ALL blocks
					fs = append(fs, OracleFailure{"C14", "ext-blocks-read", fmt.Sprintf("DBI %s key %x: stored value %x (extension count %d) was dumped with application value %x instead of %x", d.Name, p.K, p.V, int(p.V[22])<<8|int(p.V[23]), e.Value, lv.Val), nil})
				}
				break
			}
		}
	}
	return fs
}

func lwwWins(n, o lver) bool {
	if n.TS != o.TS {
		return n.TS > o.TS
	}
	if c := bytes.Compare(n.Val, o.Val); c != 0 {
		return c < 0
	}
	return n.Del && !o.Del
}

// mergeResultOracle: per DBI and key of the snapshot, stored-after == LWW join(stored-before, incoming)
func mergeResultOracle(applicable, native bool, fmtv uint32, cutoff uint64, before, after []dbiDump, sds []snapDBI) []OracleFailure {
	var fs []OracleFailure
	if !applicable {
		return nil // shadow mode with local changes: the capture step rewrites the baseline first (C11)
	}
	bm := map[string]dbiDump{}
	am := map[string]dbiDump{}
	for _, d := range before {
		bm[d.Name] = d
	}
	for _, d := range after {
		am[d.Name] = d
	}
	get := func(d dbiDump, k []byte) []byte {
		for _, p := range d.Data {
			if bytes.Equal(p.K, k) {
				return p.V
			}
		}
		return nil
	}
	for _, sd := range sds {
		if strings.HasPrefix(sd.Name, "_sync") {
			continue
		}
		target := sd.Name
		if !native {
			target = shadowPrefix + sd.Name
		}
		seenKey := map[string]bool{}
		dupKeys := false
		for _, e := range sd.Entries {
			if seenKey[string(e.Key)] {
				dupKeys = true
			}
			seenKey[string(e.Key)] = true
		}
		if dupKeys {
			continue
		}
		for _, e := range sd.Entries {
			in := lver{TS: e.TimestampNano, Del: e.Flags&1 == 1, Val: e.Value}
			if fmtv < 2 && len(e.Value) == 0 {
				in.Del = true
			}
			if in.Del {
				in.Val = nil
			}
			old, hadOld := logical(get(bm[target], e.Key))
			want := in
			if hadOld && !lwwWins(in, old) {
				want = old
			}
			got, ok := logical(get(am[target], e.Key))
			if !hadOld && in.Del && in.TS < cutoff {
				// tomb sweeper configured: a marker older than the load cutoff is not re-created on an instance that has
				// no entry for the key (C04); the dedicated oracle below checks both directions
				if ok {
					fs = append(fs, OracleFailure{Property: "C04", Clause: "swept-marker-recreated", Desc: fmt.Sprintf("format %d, DBI %s key %x: marker %+v older than the load cutoff %d was stored on an instance without an entry", fmtv, sd.Name, e.Key, in, cutoff)})
				}
				continue
			}
			if !ok || !got.eq(want) {
				fs = append(fs, OracleFailure{Property: "C18", Clause: "merge-result", Desc: fmt.Sprintf("format %d, DBI %s key %x: stored %+v (present=%v), incoming %+v, result %+v (present=%v), last-writer-wins gives %+v", fmtv, sd.Name, e.Key, old, hadOld, in, got, ok, want)})
				break
			}
		}
	}
	return fs
}
