package main

import (
	"bytes"
	"encoding/binary"
	"fmt"

	"github.com/PowerDNS/lightningstream/lmdbenv/header"
)

func init() { areas["header"] = areaHeader }

var tsBoundary = []uint64{0, 1, 2, 255, 256, 1<<31 - 1, 1 << 31, 1<<32 - 1, 1 << 32, 1700000000000000000,
	1<<63 - 1, 1 << 63, 1<<64 - 1}

func genHeaderValue(r *Rng) ([]byte, string) {
	switch k := r.Intn(12); k {
	case 0: // short
		return r.Bytes(pick(r, []int{0, 1, 8, 16, 17, 22, 23})), "short"
	case 1: // random bytes
		return r.Bytes(r.Intn(80)), "random"
	case 2: // exactly 24, random content
		b := r.Bytes(24)
		if r.Bool() {
			b[16] = 0
		}
		return b, "random24"
	default:
		ts := pick(r, tsBoundary)
		if r.Chance(30) {
			ts = r.U64()
		}
		txn := pick(r, tsBoundary)
		n := pick(r, []int{0, 0, 0, 0, 1, 1, 1, 2, 2, 3, 7, 8})
		if r.Chance(6) {
			n = pick(r, []int{255, 256, 257, 300, 512})
		}
		if r.Chance(15) {
			n = r.Intn(40)
		}
		app := r.Bytes(pick(r, []int{0, 0, 1, 2, 7, 8, 9, 24, 40}))
		b := make([]byte, 24, 24+8*n+len(app))
		binary.BigEndian.PutUint64(b[0:8], ts)
		binary.BigEndian.PutUint64(b[8:16], txn)
		b[17] = byte(r.U64())
		if r.Chance(70) {
			b[17] &= 1
		}
		if r.Chance(20) {
			copy(b[18:22], r.Bytes(4))
		}
		binary.BigEndian.PutUint16(b[22:24], uint16(n))
		kind := fmt.Sprintf("ext%d", min(n, 9))
		if n >= 255 {
			kind = "ext-big"
		}
		b = append(b, r.Bytes(8*n)...)
		b = append(b, app...)
		switch r.Intn(10) {
		case 0: // wrong version
			b[16] = byte(1 + r.Intn(255))
			kind += "-badversion"
		case 1: // truncated inside the extension blocks / value
			if len(b) > 24 {
				cut := 24 + r.Intn(len(b)-24)
				b = b[:cut]
				kind += "-trunc"
			}
		case 2: // claims more blocks than present
			extra := pick(r, []int{1, 2, 255, 256, 65535 - n})
			if n+extra <= 65535 {
				binary.BigEndian.PutUint16(b[22:24], uint16(n+extra))
				kind += "-overclaim"
			}
		}
		return b, kind
	}
}

func areaHeader(r *Rng, n int, dir string) (*AreaOut, error) {
	out := &AreaOut{Hist: map[string]int{}, Rule: "header.Parse/Skip on structured values (boundary timestamps, extension counts 0..300 incl. 255/256/257, truncations, wrong versions, over-claimed counts) and random bytes; PutBasic into a dirty buffer. distinct = distinct input byte strings; non-trivial = every case (each crosses at least one length/offset comparison of Parse)"}
	var cases []string
	seen := map[string]bool{}
	for i := 0; i < n; i++ {
		switch r.Intn(10) {
		case 0: // PutBasic
			ts, txn, fl := pick(r, tsBoundary), pick(r, tsBoundary), byte(r.U64())
			if r.Bool() {
				ts, txn = r.U64(), r.U64()
			}
			buf := bytes.Repeat([]byte{0xAA}, 24+r.Intn(9))
			header.PutBasic(buf, header.Timestamp(ts), header.TxnID(txn), header.Flags(fl))
			cases = append(cases, fmt.Sprintf("HPut %d %d %d %s", ts, txn, fl, cBytes(buf[:24])))
			hist(out.Hist, "put")
			key := fmt.Sprintf("put/%d/%d/%d", ts, txn, fl)
			seen[key] = true
			out.CaseDescs = append(out.CaseDescs, key)
			// oracle: round trip through the real Parse
			app := r.Bytes(r.Intn(5))
			h, a, err := header.Parse(append(append([]byte{}, buf[:24]...), app...))
			out.OracleN++
			if err != nil || uint64(h.Timestamp) != ts || uint64(h.TxnID) != txn || uint8(h.Flags) != fl || h.NumExtra != 0 || !bytes.Equal(a, app) {
				out.Oracle = append(out.Oracle, OracleFailure{"C14", "parse-put-roundtrip",
					fmt.Sprintf("PutBasic(%d,%d,%d)+%x parsed as %+v %x err=%v", ts, txn, fl, app, h, a, err), hexs(buf)})
			}
		case 1: // Skip
			v, kind := genHeaderValue(r)
			o := guard(func() ([]byte, error) { return header.Skip(v) })
			cases = append(cases, fmt.Sprintf("HSkip %s %s", cBytes(v), o.Coq()))
			hist(out.Hist, "skip/"+kind)
			seen["skip/"+hexs(v)] = true
			out.CaseDescs = append(out.CaseDescs, "skip "+hexs(v))
		default:
			v, kind := genHeaderValue(r)
			var hs string
			func() {
				defer func() {
					if rec := recover(); rec != nil {
						hs = "HPanic"
					}
				}()
				h, a, err := header.Parse(v)
				if err != nil {
					hs = fmt.Sprintf("(HErr %d)", errClass(err))
					return
				}
				hs = fmt.Sprintf("(HOk %d %d %d %d %s %s)", uint64(h.Timestamp), uint64(h.TxnID), uint8(h.Flags), h.NumExtra, cBytes(h.Extra), cBytes(a))
				// oracle (soundness): header bytes ++ extra ++ app value is the input
				out.OracleN++
				if h.Version != 0 || h.NumExtra != int(binary.BigEndian.Uint16(v[22:24])) || len(h.Extra) != 8*h.NumExtra || !bytes.Equal(append(append(append([]byte{}, v[:24]...), h.Extra...), a...), v) {
					out.Oracle = append(out.Oracle, OracleFailure{"C14", "parse-sound",
						fmt.Sprintf("Parse(%x) = %+v, %x: pieces do not reassemble to the input", v, h, a), hexs(v)})
				}
			}()
			cases = append(cases, fmt.Sprintf("HParse %s %s", cBytes(v), hs))
			hist(out.Hist, "parse/"+kind)
			seen["parse/"+hexs(v)] = true
			out.CaseDescs = append(out.CaseDescs, "parse "+hexs(v))
		}
	}
	headerLargeExtension(out)
	out.Cases = len(cases)
	out.Distinct = len(seen)
	for i := 0; i < 3 && i < len(cases); i++ {
		out.Samples = append(out.Samples, cases[i*len(cases)/3])
	}
	files, err := writeCases(dir, "header", "From LS Require Import Base.Bytes Base.Res Header.Model Corr.Obs Corr.Run_header.", "hcase", cases, 150)
	out.Shards = files
	return out, err
}
