package main

// area "codec" (property C07): the hand-written snapshot codec of /repo/snapshot against the Coq model
// Codec/Custom.v, and the generated reference codec snapshot/gogosnapshot against the Coq specification
// Codec/Wire.v. Shared helpers for area "hostile" (area_hostile.go) live here too.

import (
	"bytes"
	"fmt"
	"io"
	"strings"
	"sync"
	"time"

	"github.com/PowerDNS/lightningstream/snapshot"
	"github.com/PowerDNS/lightningstream/snapshot/gogosnapshot"
)

func init() { areas["codec"] = areaCodec }

// cB: a byte string as a Coq literal over the constructors of Coq.Init.Byte.byte (see Corr/Run_codec.v bs)
func cB(b []byte) string {
	if len(b) == 0 {
		return "[]"
	}
	var sb strings.Builder
	sb.Grow(4*len(b) + 8)
	sb.WriteString("(bs [")
	const hexd = "0123456789abcdef"
	for i, x := range b {
		if i > 0 {
			sb.WriteByte(';')
		}
		sb.WriteByte('x')
		sb.WriteByte(hexd[x>>4])
		sb.WriteByte(hexd[x&15])
	}
	sb.WriteString("])")
	return sb.String()
}

func cObs(o Obs) string {
	if o.Kind == "bytes" {
		return "(OBytes " + cB(o.Bytes) + ")"
	}
	return o.Coq()
}

// ---- content ----

type gKV struct {
	Key, Val []byte
	TS       uint64
	Flags    uint32
}
type gDBI struct {
	Name      []byte
	Flags     uint64
	Transform []byte
	Entries   []gKV
}
type gMeta struct {
	Gen, Inst, Host []byte
	Txn             int64
	TS              uint64
	DBName          []byte
	From            int64
}
type gSnap struct {
	Fmt, Compat uint32
	Meta        gMeta
	DBIs        []gDBI
}

func (e gKV) Coq() string {
	return fmt.Sprintf("(mkKV %s %s %d %d)", cB(e.Key), cB(e.Val), e.TS, e.Flags)
}
func (d gDBI) Coq() string {
	es := make([]string, len(d.Entries))
	for i, e := range d.Entries {
		es[i] = e.Coq()
	}
	l := "[]"
	if len(es) > 0 {
		l = "[" + strings.Join(es, "; ") + "]"
	}
	return fmt.Sprintf("(mkDbi %s %d %s %s)", cB(d.Name), d.Flags, cB(d.Transform), l)
}
func (m gMeta) Coq() string {
	return fmt.Sprintf("(mkMeta %s %s %s (%d)%%Z %d %s (%d)%%Z)", cB(m.Gen), cB(m.Inst), cB(m.Host), m.Txn, m.TS, cB(m.DBName), m.From)
}
func (s gSnap) Coq() string {
	ds := make([]string, len(s.DBIs))
	for i, d := range s.DBIs {
		ds[i] = d.Coq()
	}
	l := "[]"
	if len(ds) > 0 {
		l = "[" + strings.Join(ds, "; ") + "]"
	}
	return fmt.Sprintf("(mkSnap %d %d %s %s)", s.Fmt, s.Compat, s.Meta.Coq(), l)
}

func (a gKV) eq(b gKV) bool {
	return bytes.Equal(a.Key, b.Key) && bytes.Equal(a.Val, b.Val) && a.TS == b.TS && a.Flags == b.Flags
}
func (a gDBI) eq(b gDBI) bool {
	if !bytes.Equal(a.Name, b.Name) || a.Flags != b.Flags || !bytes.Equal(a.Transform, b.Transform) || len(a.Entries) != len(b.Entries) {
		return false
	}
	for i := range a.Entries {
		if !a.Entries[i].eq(b.Entries[i]) {
			return false
		}
	}
	return true
}
func (a gMeta) eq(b gMeta) bool {
	return bytes.Equal(a.Gen, b.Gen) && bytes.Equal(a.Inst, b.Inst) && bytes.Equal(a.Host, b.Host) && a.Txn == b.Txn &&
		a.TS == b.TS && bytes.Equal(a.DBName, b.DBName) && a.From == b.From
}
func (a gSnap) eq(b gSnap) bool {
	if a.Fmt != b.Fmt || a.Compat != b.Compat || !a.Meta.eq(b.Meta) || len(a.DBIs) != len(b.DBIs) {
		return false
	}
	for i := range a.DBIs {
		if !a.DBIs[i].eq(b.DBIs[i]) {
			return false
		}
	}
	return true
}

// decObs: what decoding a blob did
type decObs struct {
	Kind string // "ok" | "err" | "panic" | "timeout"
	S    gSnap
	Msg  string
}

func (o decObs) Coq() string {
	switch o.Kind {
	case "ok":
		return "(DOk " + o.S.Coq() + ")"
	case "err":
		return "DErr"
	case "panic":
		return "DPanic"
	default:
		return "DTimeout"
	}
}
func (a decObs) same(b decObs) bool {
	if a.Kind != b.Kind {
		return false
	}
	return a.Kind != "ok" || a.S.eq(b.S)
}

func guardDec(timeout time.Duration, f func() (gSnap, error)) decObs {
	done := make(chan decObs, 1)
	go func() {
		defer func() {
			if r := recover(); r != nil {
				done <- decObs{Kind: "panic", Msg: fmt.Sprint(r)}
			}
		}()
		s, err := f()
		if err != nil {
			done <- decObs{Kind: "err", Msg: err.Error()}
			return
		}
		done <- decObs{Kind: "ok", S: s}
	}()
	select {
	case o := <-done:
		return o
	case <-time.After(timeout):
		return decObs{Kind: "timeout"}
	}
}

// ---- the real hand-written codec ----

func contentOf(s *snapshot.Snapshot) (gSnap, error) {
	out := gSnap{Fmt: s.FormatVersion, Compat: s.CompatVersion, Meta: gMeta{
		Gen: []byte(s.Meta.GenerationID), Inst: []byte(s.Meta.InstanceID), Host: []byte(s.Meta.Hostname),
		Txn: s.Meta.LmdbTxnID, TS: s.Meta.TimestampNano, DBName: []byte(s.Meta.DatabaseName), From: s.Meta.FromLmdbTxnID}}
	for _, d := range s.Databases {
		g := gDBI{Name: []byte(d.Name()), Flags: d.Flags(), Transform: []byte(d.Transform())}
		d.ResetCursor()
		for {
			kv, err := d.Next()
			if err == io.EOF {
				break
			}
			if err != nil {
				return out, err
			}
			g.Entries = append(g.Entries, gKV{append([]byte{}, kv.Key...), append([]byte{}, kv.Value...), kv.TimestampNano, kv.Flags})
		}
		out.DBIs = append(out.DBIs, g)
	}
	return out, nil
}

// customDecode: (*Snapshot).Unmarshal + full iteration of every DBI
func customDecode(b []byte) decObs {
	return guardDec(2*time.Second, func() (gSnap, error) {
		s := new(snapshot.Snapshot)
		if err := s.Unmarshal(append([]byte{}, b...)); err != nil {
			return gSnap{}, err
		}
		return contentOf(s)
	})
}

func buildDBI(d gDBI) *snapshot.DBI {
	m := snapshot.NewDBI()
	m.SetName(string(d.Name))
	m.SetTransform(string(d.Transform))
	m.SetFlags(d.Flags)
	for _, e := range d.Entries {
		m.Append(snapshot.KV{Key: e.Key, Value: e.Val, TimestampNano: e.TS, Flags: e.Flags})
	}
	return m
}

// customEncode: DBIs built the way syncer/utils.go readDBI builds them, then (*Snapshot).WriteTo
func customEncode(s gSnap) Obs {
	return guard(func() ([]byte, error) {
		m := &snapshot.Snapshot{FormatVersion: s.Fmt, CompatVersion: s.Compat, Meta: snapshot.Meta{
			GenerationID: string(s.Meta.Gen), InstanceID: string(s.Meta.Inst), Hostname: string(s.Meta.Host),
			LmdbTxnID: s.Meta.Txn, TimestampNano: s.Meta.TS, DatabaseName: string(s.Meta.DBName), FromLmdbTxnID: s.Meta.From}}
		for _, d := range s.DBIs {
			m.Databases = append(m.Databases, buildDBI(d))
		}
		var buf bytes.Buffer
		if _, err := m.WriteTo(&buf); err != nil {
			return nil, err
		}
		return buf.Bytes(), nil
	})
}

// ---- the generated reference codec ----

func toGogo(s gSnap) *gogosnapshot.Snapshot {
	m := &gogosnapshot.Snapshot{FormatVersion: s.Fmt, CompatVersion: s.Compat, Meta: gogosnapshot.Snapshot_Meta{
		GenerationID: string(s.Meta.Gen), InstanceID: string(s.Meta.Inst), Hostname: string(s.Meta.Host),
		LmdbTxnID: s.Meta.Txn, TimestampNano: s.Meta.TS, DatabaseName: string(s.Meta.DBName), FromLmdbTxnID: s.Meta.From}}
	for _, d := range s.DBIs {
		g := &gogosnapshot.DBI{Name: string(d.Name), Flags: d.Flags, Transform: string(d.Transform)}
		for _, e := range d.Entries {
			g.Entries = append(g.Entries, gogosnapshot.KV{Key: e.Key, Value: e.Val, TimestampNano: e.TS, Flags: e.Flags})
		}
		m.Databases = append(m.Databases, g)
	}
	return m
}

func gogoEncode(s gSnap) []byte {
	b, err := toGogo(s).Marshal()
	if err != nil {
		panic(err)
	}
	return b
}

func gogoDecode(b []byte) decObs {
	return guardDec(5*time.Second, func() (gSnap, error) {
		var m gogosnapshot.Snapshot
		if err := m.Unmarshal(b); err != nil {
			return gSnap{}, err
		}
		out := gSnap{Fmt: m.FormatVersion, Compat: m.CompatVersion, Meta: gMeta{
			Gen: []byte(m.Meta.GenerationID), Inst: []byte(m.Meta.InstanceID), Host: []byte(m.Meta.Hostname),
			Txn: m.Meta.LmdbTxnID, TS: m.Meta.TimestampNano, DBName: []byte(m.Meta.DatabaseName), From: m.Meta.FromLmdbTxnID}}
		for _, d := range m.Databases {
			g := gDBI{Name: []byte(d.Name), Flags: d.Flags, Transform: []byte(d.Transform)}
			for _, e := range d.Entries {
				g.Entries = append(g.Entries, gKV{e.Key, e.Value, e.TimestampNano, e.Flags})
			}
			out.DBIs = append(out.DBIs, g)
		}
		return out, nil
	})
}

// ---- validity (the hypothesis of C07_roundtrip) ----

func validSnap(s gSnap) bool {
	if s.Meta.Txn < 0 || s.Meta.From < 0 {
		return false
	}
	for _, d := range s.DBIs {
		if len(d.Name) < 1 || len(d.Name) > 511 || len(d.Transform) > 472 {
			return false
		}
		for _, e := range d.Entries {
			if len(e.Key) == 0 {
				return false
			}
		}
	}
	return true
}

// ---- a conforming-encoder simulator: messages as trees of wire fields ----

type wfield struct {
	Num   uint64
	WT    int
	V     uint64   // varint / fixed value
	P     []byte   // payload of a length-delimited field (when Sub == nil)
	Sub   []wfield // nested message (encoded into the payload)
	Short int      // fixed-width values: number of trailing value bytes NOT written (area hostile)
	Pad   int      // extra bytes of non-minimal varint encoding for the value / length
	KPad  int      // same for the key
	// adversarial overrides (area hostile): the declared length / the raw key
	LenOverride *uint64
	KeyOverride *uint64
}

func putVarint(b []byte, v uint64, pad int) []byte {
	for v >= 0x80 {
		b = append(b, byte(v)|0x80)
		v >>= 7
	}
	if pad == 0 {
		return append(b, byte(v))
	}
	b = append(b, byte(v)|0x80)
	for i := 1; i < pad; i++ {
		b = append(b, 0x80)
	}
	return append(b, 0)
}

func encFields(fs []wfield) []byte {
	var b []byte
	for _, f := range fs {
		key := f.Num<<3 | uint64(f.WT)
		if f.KeyOverride != nil {
			key = *f.KeyOverride
		}
		b = putVarint(b, key, f.KPad)
		switch f.WT {
		case 0:
			b = putVarint(b, f.V, f.Pad)
		case 1:
			for i := 0; i < 8-f.Short; i++ {
				b = append(b, byte(f.V>>(8*i)))
			}
		case 5:
			for i := 0; i < 4-f.Short; i++ {
				b = append(b, byte(f.V>>(8*i)))
			}
		case 2:
			p := f.P
			if f.Sub != nil {
				p = encFields(f.Sub)
			}
			l := uint64(len(p))
			if f.LenOverride != nil {
				l = *f.LenOverride
			}
			b = putVarint(b, l, f.Pad)
			b = append(b, p...)
		default: // group wire types 3/4 and the invalid 6/7: key only
		}
	}
	return b
}

func strF(num uint64, s []byte, always bool) []wfield {
	if len(s) == 0 && !always {
		return nil
	}
	return []wfield{{Num: num, WT: 2, P: append([]byte{}, s...)}}
}
func varF(num uint64, v uint64, always bool) []wfield {
	if v == 0 && !always {
		return nil
	}
	return []wfield{{Num: num, WT: 0, V: v}}
}
func fixF(num uint64, v uint64, always bool) []wfield {
	if v == 0 && !always {
		return nil
	}
	return []wfield{{Num: num, WT: 1, V: v}}
}

// treeOf: the canonical field tree of a snapshot (explicit zero values when `zeros`)
func treeOf(s gSnap, zeros bool) []wfield {
	var top []wfield
	top = append(top, varF(1, uint64(s.Fmt), zeros)...)
	var meta []wfield
	meta = append(meta, strF(1, s.Meta.Gen, zeros)...)
	meta = append(meta, strF(2, s.Meta.Inst, zeros)...)
	meta = append(meta, strF(3, s.Meta.Host, zeros)...)
	meta = append(meta, varF(4, uint64(s.Meta.Txn), zeros)...)
	meta = append(meta, fixF(5, s.Meta.TS, zeros)...)
	meta = append(meta, strF(7, s.Meta.DBName, zeros)...)
	meta = append(meta, varF(8, uint64(s.Meta.From), zeros)...)
	if len(meta) > 0 || zeros {
		if meta == nil {
			meta = []wfield{}
		}
		top = append(top, wfield{Num: 2, WT: 2, Sub: meta})
	}
	for _, d := range s.DBIs {
		var df []wfield
		df = append(df, strF(1, d.Name, zeros)...)
		for _, e := range d.Entries {
			var ef []wfield
			ef = append(ef, strF(1, e.Key, false)...)
			ef = append(ef, strF(2, e.Val, zeros && len(e.Key) > 0)...)
			ef = append(ef, fixF(3, e.TS, zeros && len(e.Key) > 0)...)
			ef = append(ef, varF(4, uint64(e.Flags), zeros && len(e.Key) > 0)...)
			if ef == nil {
				ef = []wfield{}
			}
			df = append(df, wfield{Num: 2, WT: 2, Sub: ef})
		}
		df = append(df, varF(3, d.Flags, zeros)...)
		df = append(df, strF(4, d.Transform, zeros)...)
		if df == nil {
			df = []wfield{}
		}
		top = append(top, wfield{Num: 3, WT: 2, Sub: df})
	}
	top = append(top, varF(4, uint64(s.Compat), zeros)...)
	return top
}

var unknownNums = []uint64{5, 15, 16, 17, 2047, 2048, 1 << 20}

// unknown numbers per nesting level (level 0 snapshot, 1 meta, 2 dbi, 3 kv); all unused in the schema
func unknownNum(r *Rng, level int) uint64 {
	n := pick(r, unknownNums)
	if level == 1 && n == 5 {
		return 6 // reserved in Meta (5 is timestampNano)
	}
	return n
}

func unknownField(r *Rng, level int) wfield {
	f := wfield{Num: unknownNum(r, level), WT: pick(r, []int{0, 1, 2, 5})}
	switch f.WT {
	case 0:
		f.V = pick(r, []uint64{0, 1, 127, 128, 300, 1 << 32, 1<<63 - 1, 1 << 63, 1<<64 - 1})
	case 1, 5:
		f.V = r.U64()
	case 2:
		f.P = r.Bytes(pick(r, []int{0, 1, 2, 5, 127, 128, 200}))
	}
	return f
}

func permute(r *Rng, fs []wfield) {
	for i := len(fs) - 1; i > 0; i-- {
		j := r.Intn(i + 1)
		fs[i], fs[j] = fs[j], fs[i]
	}
}

// mutateTree applies, in place, the liberties a conforming encoder (or a newer schema) may take.
// keepOrder: do not permute repeated fields against each other (content order is preserved anyway
// for the comparison of the two decoders, so permuting them is allowed).
func mutateTree(r *Rng, fs []wfield, level int, tags map[string]int) []wfield {
	// recurse first
	for i := range fs {
		if fs[i].Sub != nil {
			sub := 3 // level 2 (DBI): entries are KV messages
			if level == 0 && fs[i].Num == 2 {
				sub = 1
			} else if level == 0 {
				sub = 2
			}
			fs[i].Sub = mutateTree(r, fs[i].Sub, sub, tags)
		}
	}
	// repeated scalars: an earlier occurrence with another value (last one wins)
	if r.Chance(30) && len(fs) > 0 {
		i := r.Intn(len(fs))
		if fs[i].Sub == nil {
			dup := fs[i]
			switch dup.WT {
			case 0, 1:
				dup.V = dup.V ^ (1 + uint64(r.Intn(1000)))
			case 2:
				dup.P = r.Bytes(r.Intn(6))
			}
			if !(level == 3 && dup.Num == 1 && len(dup.P) == 0) { // keep keys non-empty only matters for the final one
				fs = append(fs[:i], append([]wfield{dup}, fs[i:]...)...)
				tags["dup-scalar"]++
			}
		}
	}
	// split an embedded Meta message in two (merged by the reader)
	if level == 0 && r.Chance(30) {
		for i := range fs {
			if fs[i].Num == 2 && fs[i].Sub != nil && len(fs[i].Sub) >= 2 {
				k := 1 + r.Intn(len(fs[i].Sub)-1)
				a := wfield{Num: 2, WT: 2, Sub: append([]wfield{}, fs[i].Sub[:k]...)}
				b := wfield{Num: 2, WT: 2, Sub: append([]wfield{}, fs[i].Sub[k:]...)}
				fs[i] = a
				fs = append(fs, b)
				tags["split-meta"]++
				break
			}
		}
	}
	// unknown fields
	for k := r.Intn(3); k > 0 && r.Chance(60); k-- {
		u := unknownField(r, level)
		i := r.Intn(len(fs) + 1)
		fs = append(fs[:i], append([]wfield{u}, fs[i:]...)...)
		tags[fmt.Sprintf("unknown-L%d-wt%d", level, u.WT)]++
	}
	// field order
	if r.Chance(50) {
		permute(r, fs)
		tags["permuted"]++
	}
	// non-minimal varints (accepted by every decoder)
	if r.Chance(10) && len(fs) > 0 {
		i := r.Intn(len(fs))
		if r.Bool() {
			fs[i].Pad = 1 + r.Intn(2)
		} else {
			fs[i].KPad = 1 + r.Intn(2)
		}
		tags["nonminimal-varint"]++
	}
	return fs
}

// ---- generators ----

var lenClasses = []int{0, 1, 2, 3, 8, 20, 100, 126, 127, 128, 129, 200}

func genBytes(r *Rng, n int) []byte {
	switch r.Intn(4) {
	case 0:
		return bytes.Repeat([]byte{byte('a' + r.Intn(26))}, n)
	case 1:
		b := r.Bytes(n)
		for i := range b {
			b[i] = pick(r, []byte{0, 1, 0x7f, 0x80, 0xff, 0x12, 0x0a})
		}
		return b
	default:
		return r.Bytes(n)
	}
}

var kvFlagVals = []uint32{0, 0, 0, 1, 1, 2, 127, 128, 129, 255, 256, 16383, 16384, 1<<21 - 1, 1 << 21, 1 << 28, 1<<32 - 1}
var tsVals = []uint64{0, 0, 1, 127, 128, 1700000000000000000, 1 << 63, 1<<64 - 1}
var dbiFlagVals = []uint64{0, 0, 1, 4, 0x20, 127, 128, 0x7fff, 1<<32 - 1, 1 << 32, 1 << 63, 1<<64 - 1}
var txnVals = []int64{0, 0, 1, 5, 127, 128, 16384, 1 << 31, 1<<63 - 1}
var verVals = []uint32{0, 1, 2, 3, 3, 3, 127, 128, 1<<32 - 1}

// genSnap generates a structured snapshot; `budget` bounds the total payload bytes; valid=true keeps it
// inside the hypothesis of C07_roundtrip.
func genSnap(r *Rng, budget int, valid bool) gSnap {
	s := gSnap{Fmt: pick(r, verVals), Compat: pick(r, verVals)}
	if r.Chance(85) {
		s.Meta = gMeta{Gen: genBytes(r, pick(r, []int{0, 1, 8, 27})), Inst: genBytes(r, pick(r, []int{0, 1, 5, 12})),
			Host: genBytes(r, pick(r, []int{0, 3, 9})), Txn: pick(r, txnVals), TS: pick(r, tsVals),
			DBName: genBytes(r, pick(r, []int{0, 4, 4, 4, 7, 127, 128})), From: pick(r, txnVals)}
		if r.Chance(6) {
			// long metadata strings (host names, generation ids are free text): past the encoder's scratch buffer
			s.Meta.Host = genBytes(r, pick(r, []int{300, 980, 1000, 1024, 2500}))
			s.Meta.Gen = genBytes(r, pick(r, []int{27, 500, 1100}))
		}
		if !valid && r.Chance(20) {
			s.Meta.Txn = pick(r, []int64{-1, -128, -1 << 63})
		}
		if !valid && r.Chance(10) {
			s.Meta.From = -5
		}
	}
	nd := pick(r, []int{0, 1, 1, 1, 2, 2, 3, 4})
	for i := 0; i < nd; i++ {
		d := gDBI{Name: genBytes(r, pick(r, []int{1, 1, 3, 4, 4, 6, 10, 10, 20})), Flags: pick(r, dbiFlagVals)}
		if r.Chance(8) && budget > 300 {
			d.Name = genBytes(r, pick(r, []int{127, 128, 200}))
		}
		if r.Chance(4) && budget > 600 {
			d.Name = genBytes(r, 511)
		}
		if r.Chance(30) {
			d.Transform = []byte("dupsort_hack_v1")
		} else if r.Chance(10) {
			d.Transform = genBytes(r, pick(r, []int{1, 50, 50, 127, 128, 300}))
		}
		if !valid && r.Chance(15) {
			d.Name = nil
		}
		ne := pick(r, []int{0, 0, 1, 1, 2, 3, 5, 8})
		if budget > 1000 && r.Chance(30) {
			ne = 20
		}
		for j := 0; j < ne && budget > 0; j++ {
			e := gKV{Key: genBytes(r, pick(r, []int{1, 1, 2, 4, 8, 16})), TS: pick(r, tsVals), Flags: pick(r, kvFlagVals)}
			if r.Chance(8) && budget > 200 {
				e.Key = genBytes(r, pick(r, []int{100, 126, 127, 128}))
			}
			if r.Chance(70) {
				e.Val = genBytes(r, pick(r, []int{0, 1, 2, 3, 8, 20}))
				if r.Chance(12) && budget > 200 {
					e.Val = genBytes(r, pick(r, lenClasses))
				}
			}
			if r.Chance(3) && budget > 1200 {
				e.Val = genBytes(r, pick(r, []int{1000, 1024}))
			}
			if r.Chance(3) && budget > 600 {
				e.Key = genBytes(r, 511)
			}
			if !valid && r.Chance(10) {
				e.Key = nil
			}
			if !valid && r.Chance(5) {
				e = gKV{}
			}
			budget -= len(e.Key) + len(e.Val) + 16
			d.Entries = append(d.Entries, e)
		}
		budget -= len(d.Name) + len(d.Transform) + 16
		s.DBIs = append(s.DBIs, d)
	}
	return s
}

// sizeTargetSnap: one DBI whose entry / DBI message length lands exactly on a varint size boundary
func sizeTargetSnap(r *Rng, target int, what string) gSnap {
	s := gSnap{Fmt: 3, Compat: 1}
	d := gDBI{Name: []byte("t")}
	key := []byte("k")
	switch what {
	case "value-len": // len(value) = target
		d.Entries = []gKV{{Key: key, Val: genBytes(r, target)}}
	case "entry-len": // KV message length = target: 1+1+1 (key) + 1+sz+len (value)
		for vl := target; vl >= 0; vl-- {
			e := gKV{Key: key, Val: genBytes(r, vl)}
			if kvMsgLen(e) == target {
				d.Entries = []gKV{e}
				break
			}
		}
	case "dbi-len": // DBI message length = target
		for vl := target; vl >= 0; vl-- {
			dd := gDBI{Name: d.Name, Entries: []gKV{{Key: key, Val: genBytes(r, vl)}}}
			if dbiMsgLen(dd) == target {
				d = dd
				break
			}
		}
	}
	s.DBIs = []gDBI{d}
	return s
}

func varintLen(v uint64) int { return len(putVarint(nil, v, 0)) }
func kvMsgLen(e gKV) int {
	n := 0
	if len(e.Key) > 0 {
		n += 1 + varintLen(uint64(len(e.Key))) + len(e.Key)
	}
	if len(e.Val) > 0 {
		n += 1 + varintLen(uint64(len(e.Val))) + len(e.Val)
	}
	if e.Flags > 0 {
		n += 1 + varintLen(uint64(e.Flags))
	}
	if e.TS > 0 {
		n += 9
	}
	return n
}
func dbiMsgLen(d gDBI) int {
	n := 0
	if len(d.Name) > 0 {
		n += 1 + varintLen(uint64(len(d.Name))) + len(d.Name)
	}
	if d.Flags > 0 {
		n += 1 + varintLen(d.Flags)
	}
	if len(d.Transform) > 0 {
		n += 1 + varintLen(uint64(len(d.Transform))) + len(d.Transform)
	}
	for _, e := range d.Entries {
		if m := kvMsgLen(e); m > 0 {
			n += 1 + varintLen(uint64(m)) + m
		}
	}
	return n
}

// ---- the area ----

const coqMaxBytes = 4500

func areaCodec(r *Rng, n int, dir string) (*AreaOut, error) {
	out := &AreaOut{Hist: map[string]int{}, Rule: "structured snapshots (0-4 DBIs, 0-20 entries, key/value/name/string lengths from {0,1,2,3,8,20,100,126,127,128,129,200,511,1000,1024}, message lengths placed exactly on 127/128 and 16383/16384, KV flags up to 2^32-1 incl. 127/128/16383/16384/2^21, DBI flags up to 2^64-1, timestamps and txn ids at varint boundaries, all meta fields; also snapshots outside the round-trip hypothesis: empty keys, empty names, negative txn ids, all-default entries, over-long names/transforms) encoded by the real hand-written encoder (compared byte for byte with the model encoder) and by the generated reference encoder; each encoding decoded by the real hand-written decoder (vs the model) and by the reference decoder (vs the Coq schema specification); plus re-encodings by a conforming-encoder simulator: field permutation at every level, repeated scalars, split embedded Meta, non-minimal varints, unknown fields numbered 5/6/15/16/17/2047/2048/2^20 of wire types 0/1/2/5 at each of the four message levels, explicit zero values; plus the documented exclusions (empty entry message, field number >= 2^26, uint32 above 2^32, group wire types). distinct = distinct message byte strings given to a decoder; non-trivial = the message has at least one DBI or an unknown field"}
	var cases []string
	seen := map[string]bool{}
	nontriv := map[string]bool{}
	tags := map[string]int{}

	addMsg := func(b []byte, label string, inGrammar, expectAgree bool, src any) {
		if len(b) > 17500 {
			return
		}
		cu := customDecode(b)
		go_ := gogoDecode(b)
		key := hexs(b)
		if inGrammar && cu.same(go_) {
			cases = append(cases, fmt.Sprintf("CMsgS %s %s", cB(b), cu.Coq()))
		} else if inGrammar {
			cases = append(cases, fmt.Sprintf("CMsg %s %s %s", cB(b), cu.Coq(), go_.Coq()))
		} else {
			cases = append(cases, fmt.Sprintf("CCus %s %s", cB(b), cu.Coq()))
		}
		out.CaseDescs = append(out.CaseDescs, label+"|"+key)
		hist(out.Hist, "msg/"+label+"/"+cu.Kind)
		seen[key] = true
		if bytes.Contains(b, []byte{0x1a}) || strings.Contains(label, "unknown") {
			nontriv[key] = true
		}
		// oracles (no model involved)
		out.OracleN++
		if cu.Kind == "panic" || cu.Kind == "timeout" {
			out.Oracle = append(out.Oracle, OracleFailure{"C08", "no-crash", "decoding " + cu.Kind + ": " + cu.Msg, map[string]any{"bytes": key, "label": label}})
		}
		if expectAgree && !cu.same(go_) {
			out.Oracle = append(out.Oracle, OracleFailure{"C07", "forward-compat", fmt.Sprintf("hand-written decoder: %s %s; reference decoder: %s %s", cu.Kind, cu.Msg, go_.Kind, go_.Msg),
				map[string]any{"bytes": key, "label": label, "custom": cu, "reference": go_, "source": src}})
		}
	}

	for i := 0; i < n; i++ {
		var s gSnap
		label := "structured"
		valid := true
		switch k := r.Intn(20); {
		case k < 12:
			s = genSnap(r, pick(r, []int{150, 150, 250, 250, 250, 400, 400, 600, 1500, 4000}), true)
		case k < 15:
			s = genSnap(r, pick(r, []int{150, 250, 400, 800}), false)
			valid = validSnap(s)
			label = "structured-any"
		case k < 17:
			tgt := pick(r, []int{126, 127, 128, 129})
			s = sizeTargetSnap(r, tgt, pick(r, []string{"value-len", "entry-len", "dbi-len"}))
			label = fmt.Sprintf("size-%d", tgt)
		case k == 17 && i%5 == 0:
			tgt := pick(r, []int{16383, 16384})
			s = sizeTargetSnap(r, tgt, pick(r, []string{"value-len", "entry-len", "dbi-len"}))
			label = fmt.Sprintf("size-%d", tgt)
		case k == 18:
			// scratch-buffer limits of doFlushFields (outside the hypothesis): long name / transform
			s = gSnap{Fmt: 3, DBIs: []gDBI{{Name: genBytes(r, pick(r, []int{511, 512, 900, 980, 985, 986, 990, 995, 996, 997, 998, 1000, 1100})),
				Flags: pick(r, []uint64{0, 1, 300, 1<<64 - 1}), Transform: genBytes(r, pick(r, []int{0, 1, 15, 400, 472, 473, 480, 600})),
				Entries: []gKV{{Key: []byte("k"), Val: []byte("v")}}}}}
			valid = validSnap(s)
			label = "scratch-buffer"
		default:
			s = genSnap(r, 300, true)
		}
		// (1) the real encoder, byte for byte against the model, and its output through both decoders
		enc := customEncode(s)
		if enc.Kind == "bytes" && len(enc.Bytes) <= 17500 || enc.Kind != "bytes" {
			var dec decObs
			if enc.Kind == "bytes" {
				dec = customDecode(enc.Bytes)
			} else {
				dec = decObs{Kind: "err"}
			}
			if enc.Kind == "bytes" && dec.Kind == "ok" && dec.S.eq(s) {
				cases = append(cases, fmt.Sprintf("CEncS %s %s", s.Coq(), cB(enc.Bytes)))
			} else {
				cases = append(cases, fmt.Sprintf("CEnc %s %s %s", s.Coq(), cObs(enc), dec.Coq()))
			}
			out.CaseDescs = append(out.CaseDescs, "enc/"+label+"|"+hexs(enc.Bytes))
			hist(out.Hist, "enc/"+label+"/"+enc.Kind)
			seen["e"+hexs(enc.Bytes)] = true
			if len(s.DBIs) > 0 {
				nontriv["e"+hexs(enc.Bytes)] = true
			}
			if valid {
				if i%4 == 0 {
					containerRoundTrip(out, s, "generated snapshot ("+label+")")
				}
				out.OracleN += 2
				switch {
				case enc.Kind != "bytes":
					out.Oracle = append(out.Oracle, OracleFailure{"C07", "round-trip", "encoding a valid snapshot failed: " + enc.Kind + " " + enc.Msg, map[string]any{"snapshot": s}})
				case dec.Kind != "ok" || !dec.S.eq(s):
					out.Oracle = append(out.Oracle, OracleFailure{"C07", "round-trip", "decode(encode(s)) differs from s: " + dec.Kind + " " + dec.Msg, map[string]any{"snapshot": s, "bytes": hexs(enc.Bytes), "decoded": dec}})
				}
				if enc.Kind == "bytes" {
					if ref := gogoDecode(enc.Bytes); ref.Kind != "ok" || !ref.S.eq(s) {
						out.Oracle = append(out.Oracle, OracleFailure{"C07", "valid-wire", "the reference decoder does not read the written bytes back as s: " + ref.Kind + " " + ref.Msg, map[string]any{"snapshot": s, "bytes": hexs(enc.Bytes), "decoded": ref}})
					}
				}
			}
		}
		if label == "scratch-buffer" {
			continue
		}
		// (1b) DBI.Map on the first DBI
		if i%3 == 0 && len(s.DBIs) > 0 && validSnap(s) {
			d0 := s.DBIs[0]
			data := append([]byte{}, buildDBI(d0).Marshal()...)
			tr := pick(r, [][]byte{[]byte("mapped"), nil, []byte("dupsort_hack_v1")})
			mo := guard(func() ([]byte, error) {
				o, err := snapshot.NewDBIFromData(append([]byte{}, data...))
				if err != nil {
					return nil, err
				}
				m, err := o.Map(string(tr), func(kv snapshot.KV) (snapshot.KV, error) {
					kv.Value = append(append([]byte{}, kv.Value...), '!')
					return kv, nil
				})
				if err != nil {
					return nil, err
				}
				return m.Marshal(), nil
			})
			cases = append(cases, fmt.Sprintf("CMap %s %s %s", cB(data), cB(tr), cObs(mo)))
			out.CaseDescs = append(out.CaseDescs, "map|"+hexs(data))
			hist(out.Hist, "map/"+mo.Kind)
			// oracle: the mapped DBI decodes to the same entries with '!' appended, name and flags kept
			out.OracleN++
			if mo.Kind == "bytes" {
				want := gDBI{Name: d0.Name, Flags: d0.Flags, Transform: tr}
				for _, e := range d0.Entries {
					want.Entries = append(want.Entries, gKV{e.Key, append(append([]byte{}, e.Val...), '!'), e.TS, e.Flags})
				}
				got := gogoDecode(append([]byte{0x1a}, append(putVarint(nil, uint64(len(mo.Bytes)), 0), mo.Bytes...)...))
				if len(mo.Bytes) > 0 && (got.Kind != "ok" || len(got.S.DBIs) != 1 || !got.S.DBIs[0].eq(want)) {
					out.Oracle = append(out.Oracle, OracleFailure{"C07", "map", "DBI.Map did not copy the DBI faithfully", map[string]any{"dbi": d0, "mapped": hexs(mo.Bytes)}})
				}
			} else {
				out.Oracle = append(out.Oracle, OracleFailure{"C07", "map", "DBI.Map failed on a valid DBI: " + mo.Kind + " " + mo.Msg, map[string]any{"dbi": d0}})
			}
		}
		// (2) the reference encoder's bytes
		gb := gogoEncode(s)
		emptyEntry := false
		for _, d := range s.DBIs {
			for _, e := range d.Entries {
				if kvMsgLen(e) == 0 {
					emptyEntry = true
				}
			}
		}
		addMsg(gb, "gogo-"+label, true, !emptyEntry, s)
		// (3) re-encodings
		if len(gb) < coqMaxBytes {
			for k := 0; k < 1+i%2; k++ {
				tr := mutateTree(r, treeOf(s, r.Chance(25)), 0, tags)
				addMsg(encFields(tr), "reenc", true, !emptyEntry, s)
			}
		}
		// (4) the documented exclusions, one at a time
		if i%6 == 0 {
			tr := treeOf(genSnap(r, 300, true), false)
			var lbl string
			inGrammar := true
			switch r.Intn(5) {
			case 0: // an entry whose KV message is empty
				tr = append(tr, wfield{Num: 3, WT: 2, Sub: []wfield{{Num: 1, WT: 2, P: []byte("x")}, {Num: 2, WT: 2, Sub: []wfield{}}}})
				lbl = "excl-empty-entry"
			case 1: // field number >= 2^26 at snapshot or meta level
				u := wfield{Num: pick(r, []uint64{1<<26 - 1, 1 << 26, 1<<29 - 1}), WT: pick(r, []int{0, 1, 2, 5}), V: 7, P: []byte("zz")}
				if r.Bool() {
					tr = append(tr, u)
				} else {
					tr = append(tr, wfield{Num: 2, WT: 2, Sub: []wfield{u}})
				}
				lbl = "excl-fieldnum"
				if u.Num == 1<<26-1 {
					lbl = "edge-fieldnum-ok"
				}
			case 2: // uint32 varint above 2^32-1
				tr = append(tr, wfield{Num: pick(r, []uint64{1, 4}), WT: 0, V: pick(r, []uint64{1<<32 - 1, 1 << 32, 1<<32 + 3, 1<<64 - 1})})
				lbl = "excl-uint32"
			case 3: // group wire types: outside the grammar
				tr = append(tr, wfield{Num: 9, WT: 3}, wfield{Num: 9, WT: 4})
				lbl = "excl-group"
				inGrammar = false
			default: // same field number >= 2^26 inside DBI / KV: fine there
				u := wfield{Num: pick(r, []uint64{1 << 26, 1<<29 - 1}), WT: pick(r, []int{0, 1, 2, 5}), V: 7, P: []byte("zz")}
				tr = append(tr, wfield{Num: 3, WT: 2, Sub: []wfield{{Num: 1, WT: 2, P: []byte("d")}, u, {Num: 2, WT: 2, Sub: []wfield{{Num: 1, WT: 2, P: []byte("k")}, u}}}})
				lbl = "edge-fieldnum-dbi-kv"
			}
			addMsg(encFields(tr), lbl, inGrammar, strings.HasPrefix(lbl, "edge-"), nil)
		}
	}

	// (5) big messages, real code only: 2^21 boundaries and the 10 MB buffer growth step of Append
	for _, sz := range []int{1<<21 - 1, 1 << 21, 1<<21 + 1} {
		s := gSnap{Fmt: 3, Compat: 1, DBIs: []gDBI{{Name: []byte("big"), Entries: []gKV{{Key: []byte("k"), Val: bytes.Repeat([]byte{byte(sz)}, sz), TS: 5}}}}}
		bigRoundTrip(out, s, fmt.Sprintf("value of %d bytes", sz))
	}
	{
		s := gSnap{Fmt: 3, Compat: 1, DBIs: []gDBI{{Name: []byte("grow"), Flags: 4}}}
		val := bytes.Repeat([]byte("v"), 3000)
		for i := 0; i < 3600; i++ { // ~10.9 MB: crosses the first growth step (10 MB)
			s.DBIs[0].Entries = append(s.DBIs[0].Entries, gKV{Key: []byte(fmt.Sprintf("key-%08d", i)), Val: val, TS: uint64(i), Flags: uint32(i % 3)})
		}
		bigRoundTrip(out, s, "DBI of 10.9 MB (buffer growth)")
	}

	// (6) highly compressible content through the gzip container: many tiny DBIs, many identical entries
	{
		s := gSnap{Fmt: 3, Compat: 1, Meta: gMeta{Inst: []byte("i"), DBName: []byte("d")}}
		for i := 0; i < 3000; i++ {
			s.DBIs = append(s.DBIs, gDBI{Name: []byte("dbi")})
		}
		containerRoundTrip(out, s, "3000 empty DBIs of the same name (compression ratio > 10)")
	}
	{
		s := gSnap{Fmt: 3, Compat: 1, DBIs: []gDBI{{Name: []byte("same")}}}
		for i := 0; i < 20000; i++ {
			s.DBIs[0].Entries = append(s.DBIs[0].Entries, gKV{Key: []byte("kkkkkkkk"), Val: []byte("vvvvvvvvvvvvvvvv"), TS: 7})
		}
		containerRoundTrip(out, s, "20000 identical entries (compression ratio > 10)")
	}

	// (7) several snapshots encoded at the same time (two syncers in one process do that): each output decodes
	// to its own content
	{
		out.OracleN++
		var wg sync.WaitGroup
		var mu sync.Mutex
		bad := ""
		for g := 0; g < 8; g++ {
			wg.Add(1)
			go func(g int) {
				defer wg.Done()
				s := gSnap{Fmt: 3, Compat: 1, Meta: gMeta{Inst: []byte(fmt.Sprintf("inst-%d", g)), DBName: bytes.Repeat([]byte{byte('a' + g)}, 20+g)}}
				for d := 0; d < 3+g%3; d++ {
					s.DBIs = append(s.DBIs, gDBI{Name: []byte(fmt.Sprintf("dbi-%d-%d", g, d)), Flags: uint64(g), Entries: []gKV{{Key: []byte{byte(g)}, Val: bytes.Repeat([]byte{byte(g)}, 10*g+1), TS: uint64(g + 1)}}})
				}
				for it := 0; it < 300; it++ {
					enc := customEncode(s)
					if enc.Kind != "bytes" {
						mu.Lock()
						bad = "encoding failed: " + enc.Kind + " " + enc.Msg
						mu.Unlock()
						return
					}
					if dec := customDecode(enc.Bytes); dec.Kind != "ok" || !dec.S.eq(s) {
						mu.Lock()
						bad = fmt.Sprintf("goroutine %d, iteration %d: its own encoding does not decode to its own content (%s %s)", g, it, dec.Kind, dec.Msg)
						mu.Unlock()
						return
					}
				}
			}(g)
		}
		wg.Wait()
		hist(out.Hist, "concurrent-encode")
		if bad != "" {
			out.Oracle = append(out.Oracle, OracleFailure{"C07", "concurrent-encode", "8 goroutines encoding different snapshots at the same time: " + bad, nil})
		}
	}
	// (8) a decoded snapshot is a value like any other: appending to one of its DBIs leaves the others alone
	{
		out.OracleN++
		s := gSnap{Fmt: 3, Compat: 1}
		for d := 0; d < 3; d++ {
			s.DBIs = append(s.DBIs, gDBI{Name: []byte(fmt.Sprintf("dbi-%d", d)), Entries: []gKV{{Key: []byte("k"), Val: []byte(fmt.Sprintf("value-%d", d)), TS: uint64(d + 1)}}})
		}
		enc := customEncode(s)
		o := guardDec(20*time.Second, func() (gSnap, error) {
			back := new(snapshot.Snapshot)
			if err := back.Unmarshal(enc.Bytes); err != nil {
				return gSnap{}, err
			}
			back.Databases[0].Append(snapshot.KV{Key: []byte("added"), Value: bytes.Repeat([]byte("x"), 40), TimestampNano: 9})
			return contentOf(back)
		})
		want := gSnap{Fmt: 3, Compat: 1, DBIs: append([]gDBI{}, s.DBIs...)}
		want.DBIs[0] = gDBI{Name: s.DBIs[0].Name, Entries: append(append([]gKV{}, s.DBIs[0].Entries...), gKV{Key: []byte("added"), Val: bytes.Repeat([]byte("x"), 40), TS: 9})}
		hist(out.Hist, "append-to-decoded")
		if enc.Kind != "bytes" || o.Kind != "ok" || !o.S.eq(want) {
			out.Oracle = append(out.Oracle, OracleFailure{"C07", "append-to-decoded", "decode a 3-DBI snapshot, Append one entry to the first DBI, read everything back: " + o.Kind + " " + o.Msg + fmt.Sprintf(" (%d DBIs)", len(o.S.DBIs)), nil})
		}
	}

	// (9) "values of any length": entries larger than one growth step of a DBI's buffer (10 MB), on a fresh DBI
	// and on one that is nearly full, followed by a small entry; every entry reads back byte for byte
	for _, sc := range []struct {
		name  string
		hint  int
		sizes []int
	}{
		{"fresh DBI, one 11 MB value", 0, []int{11 << 20, 3}},
		{"size hint 6 MB, 5 MB used, one 8 MB value", 6 << 20, []int{5 << 20, 8 << 20, 3}},
		{"three 4 MB values then 21 MB", 0, []int{4 << 20, 4 << 20, 4 << 20, 21 << 20, 1}},
	} {
		out.OracleN++
		type res struct {
			ok  bool
			msg string
		}
		ch := make(chan res, 1)
		go func() {
			defer func() {
				if p := recover(); p != nil {
					ch <- res{false, fmt.Sprintf("panic: %v", p)}
				}
			}()
			d := snapshot.NewDBISize(sc.hint)
			d.SetName("big")
			var want [][]byte
			for j, n := range sc.sizes {
				v := bytes.Repeat([]byte{byte('a' + j)}, n)
				v[n-1] = '!'
				want = append(want, v)
				d.Append(snapshot.KV{Key: []byte(fmt.Sprintf("k%d", j)), Value: v, TimestampNano: uint64(j + 1)})
			}
			sn := &snapshot.Snapshot{FormatVersion: 3, CompatVersion: 1, Databases: []*snapshot.DBI{d}}
			var buf bytes.Buffer
			if _, err := sn.WriteTo(&buf); err != nil {
				ch <- res{false, "encode: " + err.Error()}
				return
			}
			blob := buf.Bytes()
			back := new(snapshot.Snapshot)
			if err := back.Unmarshal(blob); err != nil {
				ch <- res{false, "decode: " + err.Error()}
				return
			}
			if len(back.Databases) != 1 {
				ch <- res{false, fmt.Sprintf("%d DBIs read back", len(back.Databases))}
				return
			}
			bd := back.Databases[0]
			bd.ResetCursor()
			for j := range want {
				kv, err := bd.Next()
				if err != nil {
					ch <- res{false, fmt.Sprintf("entry %d: %v", j, err)}
					return
				}
				if string(kv.Key) != fmt.Sprintf("k%d", j) || !bytes.Equal(kv.Value, want[j]) || kv.TimestampNano != uint64(j+1) {
					ch <- res{false, fmt.Sprintf("entry %d (value of %d bytes) reads back as key %q, %d bytes, timestamp %d", j, len(want[j]), kv.Key, len(kv.Value), kv.TimestampNano)}
					return
				}
			}
			if _, err := bd.Next(); err == nil {
				ch <- res{false, "more entries read back than were appended"}
				return
			}
			ch <- res{true, ""}
		}()
		var rr res
		select {
		case rr = <-ch:
		case <-time.After(60 * time.Second):
			rr = res{false, "no result after 60 s"}
		}
		hist(out.Hist, "huge-entries")
		if !rr.ok {
			out.Oracle = append(out.Oracle, OracleFailure{"C07", "huge-entry-round-trip", sc.name + ": " + rr.msg, nil})
		}
	}

	out.Cases = len(cases)
	out.Distinct = len(nontriv)
	for _, k := range sortedKeys(tags) {
		out.Hist["mut/"+k] = tags[k]
	}
	for i := 0; i < 3 && i < len(cases); i++ {
		c := cases[i*len(cases)/3]
		if len(c) > 600 {
			c = c[:600] + "..."
		}
		out.Samples = append(out.Samples, c)
	}
	files, err := writeCases(dir, "codec", "From Coq Require Import Init.Byte.\nFrom LS Require Import Base.Bytes Base.Res Merge.Model Codec.Wire Corr.Obs Corr.Run_codec.", "ccase", cases, 150)
	out.Shards = files
	return out, err
}

// containerRoundTrip: the path every upload and download takes: snapshot.DumpData (protobuf + gzip) followed by
// snapshot.LoadData (gunzip + Unmarshal) and the full iteration; the content must come back unchanged
func containerRoundTrip(out *AreaOut, s gSnap, what string) {
	out.OracleN++
	o := guardDec(60*time.Second, func() (gSnap, error) {
		m := &snapshot.Snapshot{FormatVersion: s.Fmt, CompatVersion: s.Compat, Meta: snapshot.Meta{
			GenerationID: string(s.Meta.Gen), InstanceID: string(s.Meta.Inst), Hostname: string(s.Meta.Host),
			LmdbTxnID: s.Meta.Txn, TimestampNano: s.Meta.TS, DatabaseName: string(s.Meta.DBName), FromLmdbTxnID: s.Meta.From}}
		for _, d := range s.DBIs {
			m.Databases = append(m.Databases, buildDBI(d))
		}
		blob, _, err := snapshot.DumpData(m)
		if err != nil {
			return gSnap{}, err
		}
		back, err := snapshot.LoadData(blob)
		if err != nil {
			return gSnap{}, err
		}
		return contentOf(back)
	})
	hist(out.Hist, "container/"+o.Kind)
	if o.Kind != "ok" || !o.S.eq(s) {
		var in map[string]any
		if len(s.DBIs) <= 3 && kvCount(s) <= 8 {
			in = map[string]any{"snapshot": s}
		}
		out.Oracle = append(out.Oracle, OracleFailure{"C07", "container-round-trip", what + ": LoadData(DumpData(s)) differs from s (" + o.Kind + " " + o.Msg + fmt.Sprintf("; %d of %d DBIs came back)", len(o.S.DBIs), len(s.DBIs)), in})
	}
}

func kvCount(s gSnap) int {
	n := 0
	for _, d := range s.DBIs {
		n += len(d.Entries)
	}
	return n
}

func bigRoundTrip(out *AreaOut, s gSnap, what string) {
	containerRoundTrip(out, s, what)
	out.OracleN++
	enc := customEncode(s)
	if enc.Kind != "bytes" {
		out.Oracle = append(out.Oracle, OracleFailure{"C07", "round-trip", what + ": encoding failed: " + enc.Kind + " " + enc.Msg, nil})
		return
	}
	hist(out.Hist, "big/"+what)
	dec := customDecode(enc.Bytes)
	ref := gogoDecode(enc.Bytes)
	if dec.Kind != "ok" || !dec.S.eq(s) {
		out.Oracle = append(out.Oracle, OracleFailure{"C07", "round-trip", what + ": decode(encode(s)) differs from s (" + dec.Kind + " " + dec.Msg + ")", nil})
	}
	if ref.Kind != "ok" || !ref.S.eq(s) {
		out.Oracle = append(out.Oracle, OracleFailure{"C07", "valid-wire", what + ": the reference decoder does not read the written bytes back as s (" + ref.Kind + " " + ref.Msg + ")", nil})
	}
	if gb := gogoEncode(s); !customDecode(gb).same(ref) {
		out.Oracle = append(out.Oracle, OracleFailure{"C07", "forward-compat", what + ": hand-written decoder disagrees with the reference on the reference encoding", nil})
	}
}
