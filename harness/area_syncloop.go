package main

import (
	"context"
	"errors"
	"fmt"
	"runtime"
	"sort"
	"strings"
	"sync"
	"time"

	"github.com/PowerDNS/lightningstream/lmdbenv/strategy"
	"github.com/PowerDNS/lightningstream/snapshot"
	"github.com/PowerDNS/lightningstream/syncer"
	"github.com/PowerDNS/lightningstream/syncer/hooks"
	"github.com/PowerDNS/lmdb-go/lmdb"
	"github.com/PowerDNS/simpleblob"
	"github.com/PowerDNS/simpleblob/backends/memory"
)

func init() { areas["syncloop"] = areaSyncloop }

var pointNo = map[string]int{"boot.capture": 1, "boot.send": 2, "loop.top": 3, "load.begin": 4, "load.after_txn": 5, "load.end": 6,
	"check.info": 7, "send.begin": 8, "send.after_txn": 9, "send.before_store": 10, "send.end": 11, "loop.sleep": 12}

// recStore wraps a bucket: injects Store failures and records every Store call into the trace
type recStore struct {
	simpleblob.Interface
	mu       sync.Mutex
	txnClock uint64 // the clock value set at the last send.begin / boot.send yield: the dump transaction starts after it
	late     []string
	fail     int
	trace    *[]string
	stores   []storeRec
	onStore  func()
}
type storeRec struct {
	OK   bool
	TS   uint64
	ID   uint64
	DBIs []snapDBI
}

func (s *recStore) Store(ctx context.Context, name string, data []byte) error {
	sn, derr := snapshot.LoadData(data)
	var rec storeRec
	if derr == nil {
		rec.DBIs, _ = decodeSnapDBIs(sn)
		rec.ID = uint64(sn.Meta.LmdbTxnID)
	}
	if ni, err := snapshot.ParseName(name); err == nil {
		rec.TS = uint64(ni.Timestamp.UnixNano())
	}
	s.mu.Lock()
	failing := s.fail > 0
	if failing {
		s.fail--
	}
	rec.OK = !failing
	if s.txnClock != 0 && rec.TS < s.txnClock {
		s.late = append(s.late, fmt.Sprintf("snapshot named/timed %d although the transaction that produced the image started after %d", rec.TS, s.txnClock))
	}
	s.stores = append(s.stores, rec)
	*s.trace = append(*s.trace, fmt.Sprintf("TStore %s %d %d %s", cBool(rec.OK), rec.TS, rec.ID, cSnapDBIs(rec.DBIs)))
	s.mu.Unlock()
	if failing {
		return errors.New("injected Store failure")
	}
	return s.Interface.Store(ctx, name, data)
}

type appWrite struct {
	DBI         string
	Key         string
	Val         []byte
	Del         bool
	Clock       uint64
	Point       string
	Yield       int
	Visible     bool // leaves a difference between the application DBI and the live shadow content (always true in native mode)
	OwnTxnEmpty bool // the write happened right after one of Lightning Stream's own transactions that recorded nothing
}

func opCoq(o appOp, native bool, raw []byte) string {
	v := "None"
	if raw != nil || !o.Del {
		v = "(Some " + cBytes(raw) + ")"
	}
	if o.Del && !native {
		v = "None"
	}
	return fmt.Sprintf("mkOp %s %d %s %s", cBytes([]byte(o.DBI)), o.Flags, cBytes(o.Key), v)
}

func areaSyncloop(r *Rng, n int, dir string) (*AreaOut, error) {
	out := &AreaOut{Hist: map[string]int{}, Rule: "the real syncLoop (Syncer.Sync) on a real LMDB and an in-memory bucket, stepped through the verif yield points: at every yield the harness may commit an application transaction (insert/overwrite/delete, byte-key and integer-key DBIs, new DBIs), inject a remote snapshot through the update source, make the next Store calls fail, or cancel; application commits are biased towards the points right after Lightning Stream's own transactions (load.after_txn, send.after_txn). Native and shadow mode, empty and pre-filled start, clock substituted (strictly increasing). The schedule actually played is the case; the model replays it. distinct = distinct schedules; non-trivial = at least one application commit or injected snapshot"}
	var cases []string
	seen := map[string]bool{}
	nontriv := map[string]bool{}
	for i := 0; i < n; i++ {
		cs, key, nt, err := oneLoopRun(r, out, i)
		if err != nil {
			return nil, fmt.Errorf("run %d: %w", i, err)
		}
		if cs == "" {
			continue // a run outside the loop model (forced periodic snapshots): implementation-side oracles only
		}
		cases = append(cases, cs)
		seen[key] = true
		if nt {
			nontriv[key] = true
		}
		out.CaseDescs = append(out.CaseDescs, key)
	}
	syncer.VerifSetClock(nil)
	out.Cases = len(cases)
	out.Distinct = len(nontriv)
	for i := 0; i < 2 && i < len(cases); i++ {
		out.Samples = append(out.Samples, cases[i*len(cases)/2])
	}
	files, err := writeCases(dir, "syncloop", "From LS Require Import Base.Bytes Base.Res Merge.Model Strategy.Model Shadow.Model Instance.Model Instance.SyncLoop Corr.Obs Corr.Run_instance Corr.Run_syncloop.", "lcase", cases, 12)
	out.Shards = files
	return out, err
}

func oneLoopRun(r *Rng, out *AreaOut, idx int) (string, string, bool, error) {
	native := r.Chance(45)
	env, closeEnv, err := newEnv()
	if err != nil {
		return "", "", false, err
	}
	defer closeEnv()
	clock0 := uint64(1700000000000000000) + uint64(idx)*100000000
	setClock(clock0)
	// optional pre-filled start (application data; in shadow mode possibly existing shadow DBIs)
	if r.Chance(55) {
		for s := 0; s < 1+r.Intn(3); s++ {
			if err := applyApp(env, native, clock0-5000+uint64(s), genAppOps(r, native, false, 1+r.Intn(3))); err != nil {
				return "", "", false, err
			}
		}
		if !native && r.Chance(50) {
			pre, err := newSyncer(env, memory.New(), syncerOpts{Native: false, DupHack: true})
			if err != nil {
				return "", "", false, err
			}
			setClock(clock0 - 2000)
			_, _ = pre.SendOnce(context.Background(), env)
			if r.Chance(50) {
				_ = applyApp(env, native, clock0-1000, genAppOps(r, native, false, 1+r.Intn(2)))
			}
		}
	}
	before, last0, err := dumpEnv(env)
	if err != nil {
		return "", "", false, err
	}
	var trace []string
	st := &recStore{Interface: memory.New(), trace: &trace}
	updCh := make(chan snapshot.Update, 64)
	h := hooks.New()
	h.OtherUpdateSource = func() <-chan snapshot.Update { return updCh }
	recvOnly := r.Chance(10) // receive-only instance: captures and merges, never uploads
	// forced periodic snapshots with an interval that is always overdue: every pass uploads, whether or not the
	// loop SAW a local change. The loop model has no forced snapshots, so these runs are judged by the C03 / C09
	// oracles only (an application commit between the loop's env.Info() and SendOnce's transaction is still
	// captured and published)
	forcedMode := !recvOnly && r.Chance(9)
	sy, err := newSyncer(env, st, syncerOpts{Native: native, DupHack: true, SyncerOpt: syncer.Options{Hooks: h, ReceiveOnly: recvOnly}, Mod: func(c *configT, lc *lmdbCfgT) {
		c.StorageRetryCount = 3
		c.StoragePollInterval = time.Hour
		c.LMDBPollInterval = time.Millisecond
		if forcedMode {
			c.StorageForceSnapshotInterval = time.Nanosecond
		}
	}})
	if err != nil {
		return "", "", false, err
	}
	yieldCh := make(chan string)
	contCh := make(chan struct{})
	syncer.VerifSetYield(sy, func(p string) { yieldCh <- p; <-contCh })
	defer syncer.VerifSetYield(sy, nil)
	ctx, cancel := context.WithCancel(context.Background())
	defer cancel()
	done := make(chan error, 1)
	go func() { done <- sy.Sync(ctx) }()

	K := 30 + r.Intn(35)
	quiet := 26
	// directed schedule (a third of the runs): a peer's snapshot that contains nothing new (an echo of this
	// instance's own upload) is merged, then exactly ONE application transaction commits, then another echo
	// arrives — the sequence in which a transaction id counted as synced by mistake shows
	script := (r.Chance(35) && !recvOnly) || forcedMode
	phase := 0
	sawLoadEnd := false
	if script {
		K = 70
	}
	// a large fleet: a dozen peers' snapshots become ready in the same pass (more than the loop loads in a row
	// when it has local changes pending)
	burst := !script && !forcedMode && r.Chance(14)
	burstDone := false
	if burst {
		K, quiet = 120, 90
	}
	var acts []string
	var writes []appWrite
	remoteMax := map[string]uint64{}
	yi := 0
	prevLast := int64(-1)
	cancelFlag := false
	nApp, nInj := 0, 0
	pendingCause := true // application commits not yet covered by a dump; the start-up counts as a cause
	sendCause := false   // cause of the SendOnce in progress
	var exitErr error
	exited := false
	var echo []string
	var heldRelease func() error
	var heldWG sync.WaitGroup
	defer heldWG.Wait()
	commAtStore := uint64(0)
	lastStoreCount := 0
	for !exited {
		select {
		case p := <-yieldCh:
			yi++
			info, _ := env.Info()
			ownEmpty := strings.HasSuffix(p, ".after_txn") && info.LastTxnID == prevLast
			prevLast = info.LastTxnID
			st.mu.Lock()
			// C10: every successful Store since the previous yield needs a cause
			for _, s := range st.stores[lastStoreCount:] {
				if s.OK && !sendCause {
					echo = append(echo, fmt.Sprintf("upload before yield %d (%s) without an application commit since the previous dump", yi, p))
				}
			}
			lastStoreCount = len(st.stores)
			trace = append(trace, fmt.Sprintf("TYield %d %d", pointNo[p], info.LastTxnID))
			st.mu.Unlock()
			clock := clock0 + 1000*uint64(yi)
			setClock(clock)
			if p == "send.begin" {
				st.mu.Lock()
				st.txnClock = clock
				st.mu.Unlock()
			}
			var a []string
			if p == "load.end" {
				sawLoadEnd = true
			}
			if p == "send.end" { // reached only after a successful Store; runs in the loop's goroutine
				commAtStore = 0
				if t, ok := sy.VerifLastByInstance()["b"]; ok && !t.IsZero() {
					commAtStore = uint64(t.UnixNano())
				}
			}
			if script && yi <= K-quiet {
				st.mu.Lock()
				var newest *storeRec
				for j := range st.stores {
					if st.stores[j].OK {
						newest = &st.stores[j]
					}
				}
				st.mu.Unlock()
				injectEcho := func() {
					sn := buildSnapshot(3, 1, "b", clock-10, newest.DBIs)
					seenD, _ := decodeSnapDBIs(sn)
					updCh <- snapshot.Update{Snapshot: sn, NameInfo: snapshot.NameInfo{Kind: snapshot.KindSnapshot, InstanceID: "b", SyncerName: dbName, Timestamp: time.Unix(0, int64(clock-10))}}
					a = append(a, fmt.Sprintf("AInject (mkUpd %s %d (mkSnap 3 1 %s))", cBytes([]byte("b")), clock-10, cSnapDBIs(seenD)))
					nInj++
					sawLoadEnd = false
				}
				commitOne := func() error {
					ops := []appOp{{DBI: "app", Key: pick(r, byteKeyPool[:4]), Val: []byte(fmt.Sprintf("s%d", yi))}}
					raw := ops[0].Val
					if native {
						raw = mkStored(clock, uint64(info.LastTxnID)+1, 0, 0, ops[0].Val)
					}
					changed, err := applyAppFixed(env, native, clock, uint64(info.LastTxnID)+1, ops)
					if err != nil {
						return err
					}
					writes = append(writes, appWrite{"app", string(ops[0].Key), ops[0].Val, false, clock, p, yi, changed[0], false})
					a = append(a, "AApp "+lst([]string{opCoq(ops[0], native, raw)}))
					pendingCause = true
					nApp++
					return nil
				}
				if forcedMode {
					// directed: one application commit at send.begin of a pass that is only a FORCED snapshot (the loop saw
					// no local change), then a peer snapshot with nothing new, then quiet
					switch {
					case p == "loop.sleep" && newest == nil && phase == 0:
						if err := commitOne(); err != nil {
							cancel()
							return "", "", false, err
						}
					case p == "loop.sleep" && phase == 0:
						phase = 10
					case p == "send.begin" && phase == 10 && !pendingCause:
						if err := commitOne(); err != nil {
							cancel()
							return "", "", false, err
						}
						phase = 11
					case p == "loop.sleep" && phase == 11:
						injectEcho()
						phase = 12
					}
				} else if p == "loop.sleep" {
					switch {
					case newest == nil && phase == 0:
						if err := commitOne(); err != nil {
							cancel()
							return "", "", false, err
						}
					case phase == 0:
						injectEcho()
						phase = 1
					case phase == 1 && sawLoadEnd:
						if err := commitOne(); err != nil {
							cancel()
							return "", "", false, err
						}
						phase = 2
					case phase == 2:
						injectEcho()
						phase = 3
					}
				}
			}
			if yi <= K {
				if !script && yi <= K-quiet && !burstDone { // after the burst: nothing but the loads themselves
					// ---- application commit ----
					pa := 10
					switch p {
					case "load.after_txn", "send.after_txn":
						pa = 35
					case "load.begin", "send.begin":
						pa = 30
					case "boot.capture", "boot.send": // between the loop's first look at the LMDB and its start-up pass
						pa = 40
					case "check.info", "loop.sleep":
						pa = 18
					}
					if r.Chance(pa) {
						ops := genAppOps(r, native, false, 1+r.Intn(2))
						// at least one op must write (a transaction that only deletes a missing key is not recorded)
						nDelApp := 0
						for _, o := range ops {
							if o.DBI == "app" && o.Del {
								nDelApp++
							}
						}
						if nDelApp >= 8 { // the application emptied "app": keep it empty, write elsewhere
							ops = append(ops, appOp{DBI: "yy", Key: pick(r, byteKeyPool[:3]), Val: pick(r, instVals)})
						} else {
							ops = append(ops, appOp{DBI: "app", Key: pick(r, byteKeyPool[:8]), Val: pick(r, instVals)})
						}
						if (p == "load.begin" || p == "send.begin") && r.Chance(50) {
							// the same transaction CREATES a DBI (an application adding a table while it writes elsewhere)
							ops = append(ops, appOp{DBI: fmt.Sprintf("late%d", yi), Key: []byte("k"), Val: pick(r, instVals[:3])})
						}
						var oc []string
						for _, o := range ops {
							raw := o.Val
							if native {
								fl := byte(0)
								v := o.Val
								if o.Del {
									fl, v = 1, nil
								}
								raw = mkStored(clock, uint64(info.LastTxnID)+1, fl, 0, v)
							}
							oc = append(oc, opCoq(o, native, raw))
						}
						var changed []bool
						var err error
						if (p == "load.begin" || (p == "send.begin" && !native)) && r.Chance(50) {
							// the application's transaction is still open when the loop continues and commits a little
							// later, while Lightning Stream is already waiting for the write lock
							var rel func() error
							changed, rel, err = applyAppHeld(env, native, clock, uint64(info.LastTxnID)+1, ops)
							if err == nil {
								heldRelease = rel
								newDBI := false
								for _, o := range ops {
									if strings.HasPrefix(o.DBI, "late") {
										newDBI = true
									}
								}
								hist(out.Hist, fmt.Sprintf("held-open-commit/%s/native=%v/creates-dbi=%v", p, native, newDBI))
							}
						} else {
							changed, err = applyAppFixed(env, native, clock, uint64(info.LastTxnID)+1, ops)
						}
						if err != nil {
							cancel()
							return "", "", false, fmt.Errorf("app commit: %w", err)
						}
						for j, o := range ops {
							writes = append(writes, appWrite{o.DBI, string(o.Key), o.Val, o.Del, clock, p, yi, changed[j], ownEmpty})
						}
						a = append(a, "AApp "+lst(oc))
						pendingCause = true
						nApp++
					}
					// ---- remote snapshot ----
					nInjectNow := 0
					if r.Chance(9) {
						nInjectNow = 1
						if r.Chance(40) {
							nInjectNow = 2 // two peers' snapshots ready in the same pass
						}
					}
					if burst && !burstDone && yi >= 3 && p == "loop.sleep" && !pendingCause {
						nInjectNow, burstDone = 12, true
						hist(out.Hist, "twelve-snapshots-ready-in-one-pass")
					}
					for q := 0; q < nInjectNow; q++ {
						gclock := clock
						if nInjectNow == 12 {
							gclock = clock + 10000*uint64(q+1) // every snapshot of the burst carries something newer than the one before
						}
						sds, fmtv := genRemoteDBIs(r, gclock)
						for _, d := range sds {
							for _, e := range d.Entries {
								k := d.Name + "|" + string(e.Key)
								if e.TimestampNano > remoteMax[k] {
									remoteMax[k] = e.TimestampNano
								}
							}
						}
						uts := clock - 10
						if nInj > 0 && r.Chance(25) {
							// an OLDER snapshot of the peer is delivered after a newer one (its newest was corrupt or cleaned,
							// or the listing was inconsistent): it is merged like any other
							uts = clock0 + 7*uint64(nInj)
						}
						sn := buildSnapshot(fmtv, 1, "b", uts, sds)
						seenD, _ := decodeSnapDBIs(sn)
						updCh <- snapshot.Update{Snapshot: sn, NameInfo: snapshot.NameInfo{Kind: snapshot.KindSnapshot, InstanceID: "b", SyncerName: dbName, Timestamp: time.Unix(0, int64(uts))}}
						a = append(a, fmt.Sprintf("AInject (mkUpd %s %d (mkSnap %d 1 %s))", cBytes([]byte("b")), uts, fmtv, cSnapDBIs(seenD)))
						nInj++
					}
					if p == "send.before_store" && r.Chance(12) {
						k := 1 + r.Intn(3)
						st.mu.Lock()
						st.fail += k
						st.mu.Unlock()
						a = append(a, fmt.Sprintf("AFailStores %d", k))
					}
					if r.Chance(1) {
						cancelFlag = true
						a = append(a, "ACancel")
					}
				}
				acts = append(acts, lst(a))
			}
			if p == "send.begin" { // the transaction that dumps starts right after this yield: it covers every commit so far
				sendCause, pendingCause = pendingCause, false
			}
			if p == "loop.sleep" && (yi > K || cancelFlag) {
				cancel()
			}
			// LastTxnID as the loop will find it when it continues (application commits made at THIS yield included):
			// an own transaction that leaves it unchanged until the next *.after_txn yield recorded nothing
			if i2, err := env.Info(); err == nil {
				prevLast = i2.LastTxnID
			}
			if heldRelease != nil {
				prevLast++ // the open transaction commits before the loop's next write transaction can start
				rel := heldRelease
				heldRelease = nil
				heldWG.Add(1)
				go func() {
					defer heldWG.Done()
					time.Sleep(15 * time.Millisecond)
					_ = rel()
				}()
			}
			contCh <- struct{}{}
		case exitErr = <-done:
			exited = true
		case <-time.After(20 * time.Second):
			cancel()
			return "", "", false, fmt.Errorf("sync loop stuck after yield %d", yi)
		}
	}
	cls := 0
	if exitErr != nil && !errors.Is(exitErr, context.Canceled) {
		cls = instErrClass(exitErr)
	}
	st.mu.Lock()
	trace = append(trace, fmt.Sprintf("TExit %d", cls))
	st.mu.Unlock()
	after, last1, err := dumpEnv(env)
	if err != nil {
		return "", "", false, err
	}
	cfg := fmt.Sprintf("(mkICfg %s true false %s false [])", cBool(native), cBool(recvOnly))
	// what the cleaner was told (SetCommitted) and what the loop recorded as merged, for the peer instance
	commB := uint64(0)
	if t := sy.VerifCleaner().GetCommitted("b"); !t.IsZero() {
		commB = uint64(t.UnixNano())
	}
	lastB := uint64(0)
	if t, ok := sy.VerifLastByInstance()["b"]; ok && !t.IsZero() {
		lastB = uint64(t.UnixNano())
	}
	cs := fmt.Sprintf("mkLC %s %s %s %d %s %s %d %d", cfg, cEnv(before, last0), lst(acts), clock0, lst(trace), cEnv(after, last1), commB, lastB)
	key := cfg + cEnv(before, last0) + lst(acts)
	hist(out.Hist, fmt.Sprintf("native=%v/recvonly=%v/app=%d/inject=%d/exit=%d", native, recvOnly, min(nApp, 3), min(nInj, 2), cls))

	// ---------------- implementation-side oracles (C03, C09, C10) ----------------
	out.OracleN++
	in := map[string]any{"cfg": cfg, "env": cEnv(before, last0), "acts": lst(acts), "clock0": clock0}
	if forcedMode {
		echo = nil // every pass uploads by configuration
		hist(out.Hist, "forced-snapshots-every-pass/oracle-only")
	}
	for _, e := range echo {
		out.Oracle = append(out.Oracle, OracleFailure{"C10", "echo-upload", e, in})
	}
	for _, e := range st.late {
		out.Oracle = append(out.Oracle, OracleFailure{"C06", "time-of-image", e, in})
	}
	// C12 / C05: the cleaner is told that a peer's snapshot is "committed" only by a SUCCESSFUL own upload that
	// followed its merge: the value is what the loop had merged when that upload's Store succeeded
	if commB != commAtStore {
		for _, pid := range []string{"C12", "C05"} {
			out.Oracle = append(out.Oracle, OracleFailure{pid, "committed-without-upload", fmt.Sprintf("cleaner.GetCommitted(b) = %d at the end of the run, but the merged-snapshot time of b at the last successful own upload was %d (0 = no successful upload after a merge of b)", commB, commAtStore), in})
		}
	}
	if cls == 0 && !cancelFlag { // only a run that ended idle (quiet tail, stopped by the schedule) is judged
		// last write per key
		lastW := map[string]appWrite{}
		for _, w := range writes {
			lastW[w.DBI+"|"+w.Key] = w
		}
		var newest *storeRec
		for j := range st.stores {
			if st.stores[j].OK {
				newest = &st.stores[j]
			}
		}
		byName := map[string]dbiDump{}
		for _, d := range after {
			byName[d.Name] = d
		}
		keys := make([]string, 0, len(lastW))
		for k := range lastW {
			keys = append(keys, k)
		}
		sort.Strings(keys)
		for _, k := range keys {
			w := lastW[k]
			if !w.Visible {
				continue // value put back / key created and deleted again: nothing for the mirror to record
			}
			if w.Point == "boot.capture" {
				continue // committed before the start-up capture: "changed while the syncer was down" (stamped with timestamp 1 by design)
			}
			window := ""
			if w.OwnTxnEmpty {
				window = "@" + w.Point + "-after-empty-own-txn"
			} else {
				for _, w0 := range writes {
					if w0.OwnTxnEmpty && w0.Yield < w.Yield {
						window = "@downstream-of-a-write-after-empty-own-txn" // the bookkeeping is already off
					}
				}
			}
			// C09: the newest own snapshot holds a version at least as new as the write (a receive-only instance
			// publishes nothing by design)
			if recvOnly {
			} else if newest != nil {
				found := false
				seenTS := []uint64{}
				for _, d := range newest.DBIs {
					if d.Name != w.DBI {
						continue
					}
					for _, e := range d.Entries {
						if string(e.Key) == w.Key {
							seenTS = append(seenTS, e.TimestampNano)
							if e.TimestampNano >= w.Clock {
								found = true
							}
							if w.Del && e.Flags&1 == 1 {
								found = true // a deletion is reflected by any marker
							}
							if !native && !w.Del && e.Flags&1 == 0 && string(e.Value) == string(w.Val) {
								// shadow mode detects CHANGES between two captures: a value written back to what was
								// captured before keeps its earlier timestamp; the content is what is reflected
								found = true
							}
						}
					}
				}
				if w.Del && len(seenTS) == 0 {
					found = true // deleted and never published as live: nothing to reflect
				}
				if !found {
					out.Oracle = append(out.Oracle, OracleFailure{"C09", "unpublished-write" + window, fmt.Sprintf("application write to %s key %x at yield %d (%s, clock %d) is not reflected in the instance's newest snapshot at idle (entry timestamps there: %v; write del=%v val=%x)", w.DBI, w.Key, w.Yield, w.Point, w.Clock, seenTS, w.Del, w.Val), in})
				}
			} else if len(after) > 0 {
				out.Oracle = append(out.Oracle, OracleFailure{"C09", "unpublished-write" + window, "application data committed but no snapshot was ever uploaded", in})
			}
			// C03: the committed value is still there unless a version that wins against it arrived
			if remoteMax[k] >= w.Clock {
				continue // a remote version at least as new exists: it may legitimately supersede the write
			}
			d := byName[w.DBI]
			var cur []byte
			has := false
			for _, p := range d.Data {
				if string(p.K) == w.Key {
					cur, has = p.V, true
				}
			}
			ok := true
			if native {
				lv, pok := logical(cur)
				ok = has && pok && lv.TS >= w.Clock
			} else if w.Del {
				ok = !has
			} else if len(w.Val) == 0 {
				ok = true // empty values: known finding F6, reported under C11
			} else {
				ok = has && string(cur) == string(w.Val)
			}
			if !ok && w.Del && window == "" {
				// a deletion the application committed stays in force until a version with a higher timestamp arrives
				// (outside the known F8 window, which is reported under C03 / C09)
				out.Oracle = append(out.Oracle, OracleFailure{"C04", "local-deletion-resurrected", fmt.Sprintf("the application deleted %s key %x at yield %d (%s); no newer version arrived, yet the key is back: %x", w.DBI, w.Key, w.Yield, w.Point, cur), in})
			}
			if !ok {
				out.Oracle = append(out.Oracle, OracleFailure{"C03", "write-destroyed" + window, fmt.Sprintf("application write to %s key %x (value %x, delete=%v) at yield %d (%s) was reverted/lost although no newer version arrived; stored now: %x", w.DBI, w.Key, w.Val, w.Del, w.Yield, w.Point, cur), in})
			}
		}
	}
	if forcedMode {
		return "", key, false, nil
	}
	return cs, key, nApp+nInj > 0, nil
}

// applyAppFixed commits one application transaction whose native headers were pre-computed with txn id `tid`
func applyAppFixed(env *lmdb.Env, native bool, ts, tid uint64, ops []appOp) (changed []bool, err error) {
	changed = make([]bool, len(ops))
	err = env.Update(func(txn *lmdb.Txn) error { return applyAppOps(txn, native, ts, tid, ops, changed) })
	return changed, err
}

// applyAppHeld is applyAppFixed for an application whose write transaction is still OPEN when the sync loop
// moves on: the writes are made now, the commit happens when release() is called. Whatever Lightning Stream
// does meanwhile, its next write transaction can only start after that commit (LMDB has one writer), so for the
// loop the commit belongs to this yield point.
func applyAppHeld(env *lmdb.Env, native bool, ts, tid uint64, ops []appOp) (changed []bool, release func() error, err error) {
	changed = make([]bool, len(ops))
	ready := make(chan error, 1)
	rel := make(chan struct{})
	done := make(chan error, 1)
	go func() {
		runtime.LockOSThread()
		defer runtime.UnlockOSThread()
		txn, err := env.BeginTxn(nil, 0)
		if err != nil {
			ready <- err
			return
		}
		if err := applyAppOps(txn, native, ts, tid, ops, changed); err != nil {
			txn.Abort()
			ready <- err
			return
		}
		ready <- nil
		<-rel
		done <- txn.Commit()
	}()
	if err := <-ready; err != nil {
		return nil, nil, err
	}
	return changed, func() error { close(rel); return <-done }, nil
}

func applyAppOps(txn *lmdb.Txn, native bool, ts, tid uint64, ops []appOp, changed []bool) error {
	{
		for i, op := range ops {
			dbi, err := txn.OpenDBI(op.DBI, lmdb.Create|op.Flags)
			if err != nil {
				return err
			}
			if native {
				changed[i] = true // a new header timestamp is a new version
			} else {
				// shadow mode sees the DIFFERENCE between the application DBI and the live part of the shadow DBI at
				// the next capture: a write that leaves no such difference (value put back, key created and deleted
				// again) is not a change it can or needs to record
				var live []byte
				isLive := false
				if sdbi, err := txn.OpenDBI(shadowPrefix+op.DBI, 0); err == nil {
					if sv, err := txn.Get(sdbi, op.Key); err == nil {
						if lv, ok := logical(sv); ok && !lv.Del {
							live, isLive = lv.Val, true
						}
					}
				}
				if op.Del {
					changed[i] = isLive
				} else {
					changed[i] = !isLive || string(live) != string(op.Val)
				}
			}
			if native {
				fl := byte(0)
				v := op.Val
				if op.Del {
					fl, v = 1, nil
				}
				if err := txn.Put(dbi, op.Key, mkStored(ts, tid, fl, 0, v), 0); err != nil {
					return err
				}
				continue
			}
			if op.Del {
				if err := txn.Del(dbi, op.Key, nil); err != nil && !lmdb.IsNotFound(err) {
					return err
				}
				continue
			}
			if err := txn.Put(dbi, op.Key, op.Val, 0); err != nil {
				return err
			}
		}
		return nil
	}
}

func genRemoteDBIs(r *Rng, clock uint64) ([]snapDBI, uint32) {
	fmtv := uint32(3)
	if r.Chance(4) {
		fmtv = 0
	}
	var sds []snapDBI
	for _, name := range []string{"app", "ints", "rem"} {
		if !r.Chance(55) {
			continue
		}
		d := snapDBI{Name: name}
		var keys [][]byte
		if name == "ints" {
			d.Flags = strategy.LMDBIntegerKeyFlag
			for _, v := range int4Pool {
				if r.Chance(25) {
					keys = append(keys, le32(v))
				}
			}
		} else {
			for _, k := range byteKeyPool[:8] {
				if r.Chance(35) {
					keys = append(keys, k)
				}
			}
		}
		for _, k := range keys {
			e := snapshot.KV{Key: k, Value: pick(r, [][]byte{[]byte("r1"), []byte("r2"), []byte("v1")}), TimestampNano: clock - pick(r, []uint64{90000, 7000, 1500, 500})}
			if r.Chance(5) {
				e.TimestampNano = clock + 700
			}
			if r.Chance(20) {
				e.Flags, e.Value = 1, nil
			}
			d.Entries = append(d.Entries, e)
		}
		sds = append(sds, d)
	}
	return sds, fmtv
}
