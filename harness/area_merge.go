package main

import (
	"bytes"
	"encoding/binary"
	"fmt"
	"strings"

	"github.com/PowerDNS/lightningstream/lmdbenv/header"
	"github.com/PowerDNS/lightningstream/snapshot"
	"github.com/PowerDNS/lightningstream/syncer"
)

func init() { areas["merge"] = areaMerge }

type mcfg struct {
	Fmt, Compat uint32
	Def, Txn    uint64
	Pad         bool
	Cutoff      uint64
}

func (c mcfg) Coq() string {
	return fmt.Sprintf("(mkCfg %d %d %d %s %d)", c.Fmt, c.Def, c.Txn, cBool(c.Pad), c.Cutoff)
}

type mkv struct {
	Key, Val []byte
	TS       uint64
	Flags    uint32
}

func (e mkv) Coq() string {
	return fmt.Sprintf("(mkKV %s %s %d %d)", cBytes(e.Key), cBytes(e.Val), e.TS, e.Flags)
}

func mkStored(ts, txn uint64, flags byte, ext int, app []byte) []byte {
	b := make([]byte, 24, 24+8*ext+len(app))
	binary.BigEndian.PutUint64(b[0:8], ts)
	binary.BigEndian.PutUint64(b[8:16], txn)
	b[17] = flags
	binary.BigEndian.PutUint16(b[22:24], uint16(ext))
	for i := 0; i < 8*ext; i++ {
		b = append(b, byte(i+1))
	}
	return append(b, app...)
}

// realMerge runs the real NewNativeIterator + Next + Merge
func realMerge(c mcfg, old []byte, e mkv) Obs {
	return guard(func() ([]byte, error) {
		d := snapshot.NewDBI()
		d.Append(snapshot.KV{Key: e.Key, Value: e.Val, TimestampNano: e.TS, Flags: e.Flags})
		it, err := syncer.NewNativeIterator(c.Fmt, c.Compat, d, header.Timestamp(c.Def), header.TxnID(c.Txn), header.Timestamp(c.Cutoff))
		if err != nil {
			return nil, refused{err}
		}
		it.HeaderPaddingBlock = c.Pad
		if _, err := it.Next(); err != nil {
			return nil, err
		}
		return it.Merge(old)
	})
}

func realClean(c mcfg, old []byte) Obs {
	return guard(func() ([]byte, error) {
		d := snapshot.NewDBI()
		it, err := syncer.NewNativeIterator(c.Fmt, c.Compat, d, header.Timestamp(c.Def), header.TxnID(c.Txn), header.Timestamp(c.Cutoff))
		if err != nil {
			return nil, refused{err}
		}
		it.HeaderPaddingBlock = c.Pad
		return it.Clean(old)
	})
}

type refused struct{ error }

func fixRefused(o Obs, f func() bool) Obs { return o }

var mergeVals = [][]byte{nil, nil, []byte("a"), []byte("b"), []byte("ab"), []byte("a\x00"), []byte("\x00"), []byte("\xff"), bytes.Repeat([]byte("x"), 300)}
var mergeFlags = []uint32{0, 0, 0, 1, 1, 2, 3, 254, 255, 256, 257, 1<<32 - 1, 1<<32 - 2}

func genTS(r *Rng, base uint64) uint64 {
	switch r.Intn(8) {
	case 0:
		return 0
	case 1:
		return 1
	case 2:
		return base - 1
	case 3, 4, 5:
		return base
	default:
		return base + 1
	}
}

func genCfg(r *Rng, base uint64) mcfg {
	c := mcfg{Fmt: 3, Compat: 1, Txn: pick(r, []uint64{1, 7, 123, 1 << 40, 1 << 63, 1<<64 - 1})}
	if r.Chance(40) {
		c.Fmt = pick(r, []uint32{0, 1, 1, 1, 2, 2, 3, 4, 5})
	}
	if r.Chance(15) {
		c.Compat = pick(r, []uint32{0, 1, 2, 3, 4, 5})
	}
	if r.Chance(4) {
		c.Txn = 0
	}
	if r.Chance(35) {
		c.Def = pick(r, []uint64{1, base - 1, base, base + 1, base + 1000})
	}
	c.Pad = r.Chance(25)
	if r.Chance(40) {
		c.Cutoff = pick(r, []uint64{1, base - 1, base, base + 1, base + 2, 1<<64 - 1})
	}
	return c
}

func genOld(r *Rng, base, txn uint64) ([]byte, string) {
	switch k := r.Intn(20); {
	case k < 5:
		return nil, "absent"
	case k < 11:
		return mkStored(genTS(r, base), txn, 0, 0, pick(r, mergeVals)), "live"
	case k < 14:
		return mkStored(genTS(r, base), txn, 1, 0, nil), "deleted"
	case k == 14:
		return mkStored(genTS(r, base), txn, byte(r.U64()), 0, pick(r, mergeVals)), "anyflags"
	case k == 15:
		return mkStored(genTS(r, base), txn, byte(r.Intn(2)), 1+r.Intn(2), pick(r, mergeVals)), "ext"
	case k == 16:
		return r.Bytes(1 + r.Intn(23)), "tooshort"
	case k == 17:
		b := mkStored(genTS(r, base), txn, 0, 0, pick(r, mergeVals))
		b[16] = byte(1 + r.Intn(255))
		return b, "badversion"
	case k == 18:
		b := mkStored(genTS(r, base), txn, 0, 3, nil)
		return b[:24+r.Intn(24)], "truncext"
	default:
		return mkStored(genTS(r, base), txn, 1, 0, pick(r, mergeVals)), "deleted-with-value"
	}
}

type lver struct {
	TS  uint64
	Del bool
	Val []byte
}

func logical(b []byte) (lver, bool) {
	if len(b) == 0 {
		return lver{}, false
	}
	h, a, err := header.Parse(b)
	if err != nil {
		return lver{}, false
	}
	return lver{uint64(h.Timestamp), h.Flags.IsDeleted(), append([]byte{}, a...)}, true
}
func (a lver) eq(b lver) bool { return a.TS == b.TS && a.Del == b.Del && bytes.Equal(a.Val, b.Val) }

// checkWritten: the C14 clauses on a value LS produced
func checkWritten(v []byte, c mcfg) string {
	h, a, err := header.Parse(v)
	if err != nil {
		return "written value does not parse: " + err.Error()
	}
	pad := 0
	if c.Pad {
		pad = 1
	}
	switch {
	case uint64(h.TxnID) != c.Txn:
		return fmt.Sprintf("txn id %d != writing txn %d", h.TxnID, c.Txn)
	case uint8(h.Flags) > 1:
		return fmt.Sprintf("flags %d outside the synced set", h.Flags)
	case v[18] != 0 || v[19] != 0 || v[20] != 0 || v[21] != 0:
		return "reserved bytes not zero"
	case h.NumExtra != pad:
		return fmt.Sprintf("extension count %d, blocks present %d", h.NumExtra, pad)
	case h.Flags.IsDeleted() && len(a) != 0:
		return "deleted entry carries a value"
	}
	return ""
}

func areaMerge(r *Rng, n int, dir string) (*AreaOut, error) {
	out := &AreaOut{Hist: map[string]int{}, Rule: "NativeIterator gates+Merge/Clean and PlainIterator on (cfg, stored value, entry): stored in {absent, live, deleted, any flag byte, extension blocks, too short, wrong version, truncated, deleted-with-value}; timestamps from {0,1,T-1,T,T+1} for T in {5, 1.7e18, 2^63, 2^64-2}; values from a prefix-related set incl. empty and 300 B; entry flags incl. >255; format 0..5, compat 0..5, default ts on/off, padding on/off, cutoff around T. distinct = distinct (cfg, stored, entry) triples; non-trivial = stored value present or a cutoff/format gate applies"}
	var cases []string
	seen := map[string]bool{}
	nontriv := map[string]bool{}
	bases := []uint64{5, 1700000000000000000, 1 << 63, 1<<64 - 2}
	for i := 0; i < n; i++ {
		base := pick(r, bases)
		c := genCfg(r, base)
		old, okind := genOld(r, base, pick(r, []uint64{1, 99, 1 << 50}))
		switch k := r.Intn(20); {
		case k < 16:
			e := mkv{Key: []byte("k"), Val: pick(r, mergeVals), TS: genTS(r, base), Flags: pick(r, mergeFlags)}
			o := realMerge(c, old, e)
			if o.Kind == "err" && isRefused(c) {
				o.Cls = clsRefused
			}
			cs := fmt.Sprintf("MMerge %s %d %s %s %s", c.Coq(), c.Compat, cBytes(old), e.Coq(), o.Coq())
			cases = append(cases, cs)
			hist(out.Hist, "merge/"+okind+"/"+o.Kind)
			key := fmt.Sprintf("m|%v|%x|%v", c, old, e)
			seen[key] = true
			if len(old) > 0 || c.Cutoff > 0 || c.Fmt != 3 {
				nontriv[key] = true
			}
			out.CaseDescs = append(out.CaseDescs, key)
			// implementation-side oracles
			if o.Kind == "bytes" && len(o.Bytes) > 0 && !bytes.Equal(o.Bytes, old) {
				out.OracleN++
				if msg := checkWritten(o.Bytes, c); msg != "" {
					out.Oracle = append(out.Oracle, OracleFailure{"C14", "written-wf", msg, map[string]any{"cfg": c, "old": hexs(old), "entry": e, "result": hexs(o.Bytes)}})
				}
			}
			if ov, ok := logical(old); ok && o.Kind == "bytes" {
				out.OracleN++
				rv, rok := logical(o.Bytes)
				// C04: a deletion with a higher timestamp removes the key whatever older version is stored,
				// also when the marker is older than the stale-marker cutoff (the cutoff only concerns ABSENT keys)
				if e.Flags&1 == 1 && c.Fmt >= 2 && e.TS != 0 && e.TS > ov.TS && (!rok || !rv.Del) {
					out.Oracle = append(out.Oracle, OracleFailure{"C04", "deletion-propagates", fmt.Sprintf("stored version @%d, incoming deletion @%d (cutoff %d): the key is still live after the merge", ov.TS, e.TS, c.Cutoff), map[string]any{"cfg": c, "old": hexs(old), "entry": e, "result": hexs(o.Bytes)}})
				}
				switch {
				case !rok:
					out.Oracle = append(out.Oracle, OracleFailure{"C02", "never-backwards", "merge into a present key removed it or wrote an unparsable value", map[string]any{"cfg": c, "old": hexs(old), "entry": e, "result": hexs(o.Bytes)}})
				case rv.TS < ov.TS:
					out.Oracle = append(out.Oracle, OracleFailure{"C02", "never-backwards", fmt.Sprintf("timestamp moved back %d -> %d", ov.TS, rv.TS), map[string]any{"cfg": c, "old": hexs(old), "entry": e, "result": hexs(o.Bytes)}})
				case rv.eq(ov) && !bytes.Equal(o.Bytes, old):
					out.Oracle = append(out.Oracle, OracleFailure{"C02", "bytes-untouched", "logical version unchanged but stored bytes rewritten", map[string]any{"cfg": c, "old": hexs(old), "entry": e, "result": hexs(o.Bytes)}})
				}
			}
		case k < 19:
			o := realClean(c, old)
			if o.Kind == "err" && isRefused(c) {
				o.Cls = clsRefused
			}
			cases = append(cases, fmt.Sprintf("MClean %s %d %s %s", c.Coq(), c.Compat, cBytes(old), o.Coq()))
			hist(out.Hist, "clean/"+okind+"/"+o.Kind)
			key := fmt.Sprintf("c|%v|%x", c, old)
			seen[key] = true
			nontriv[key] = true
			out.CaseDescs = append(out.CaseDescs, key)
			if o.Kind == "bytes" && !bytes.Equal(o.Bytes, old) {
				out.OracleN++
				if msg := checkWritten(o.Bytes, c); msg != "" {
					out.Oracle = append(out.Oracle, OracleFailure{"C14", "written-wf(clean)", msg, map[string]any{"cfg": c, "old": hexs(old), "result": hexs(o.Bytes)}})
				}
			}
		default:
			e := mkv{Key: []byte("k"), Val: pick(r, mergeVals), TS: genTS(r, base), Flags: pick(r, mergeFlags)}
			d := snapshot.NewDBI()
			d.Append(snapshot.KV{Key: e.Key, Value: e.Val, TimestampNano: e.TS, Flags: e.Flags})
			it := &syncer.PlainIterator{DBIMsg: d}
			om := guard(func() ([]byte, error) {
				if _, err := it.Next(); err != nil {
					return nil, err
				}
				return it.Merge(old)
			})
			oc := guard(func() ([]byte, error) { return it.Clean(old) })
			cases = append(cases, fmt.Sprintf("MPlain %s %s %s %s", cBytes(old), e.Coq(), om.Coq(), oc.Coq()))
			hist(out.Hist, "plain")
			key := fmt.Sprintf("p|%x|%v", old, e)
			seen[key] = true
			out.CaseDescs = append(out.CaseDescs, key)
		}
	}
	// order oracle (C02): triples of entries folded in all six orders, from absent and from present
	mergeOrderOracle(r, n/4+10, out)

	// two iterators at work at the same time (one process may sync several LMDBs, one Syncer each): a value an
	// iterator has handed out stays what it was whatever ANOTHER iterator does meanwhile, also one that has
	// already reached the end of its input (the iterating strategy still calls its Clean afterwards)
	for rep := 0; rep < 4; rep++ {
		out.OracleN++
		mk := func(key, val string, ts uint64) *syncer.NativeIterator {
			d := snapshot.NewDBI()
			d.Append(snapshot.KV{Key: []byte(key), Value: []byte(val), TimestampNano: ts})
			it, err := syncer.NewNativeIterator(3, 1, d, header.Timestamp(5000+uint64(rep)), header.TxnID(7), 0)
			if err != nil {
				return nil
			}
			return it
		}
		a, b := mk("a", strings.Repeat("A", 10+rep), 100), mk("b", strings.Repeat("B", 30+rep), 200)
		bad := ""
		func() {
			defer func() {
				if p := recover(); p != nil {
					bad = fmt.Sprintf("panic: %v", p)
				}
			}()
			if a == nil || b == nil {
				bad = "NewNativeIterator failed"
				return
			}
			_, _ = a.Next()
			_, _ = a.Merge(nil)
			_, _ = a.Next() // end of A's input
			_, _ = b.Next()
			vb, err := b.Merge(nil)
			if err != nil {
				bad = "Merge: " + err.Error()
				return
			}
			keep := append([]byte{}, vb...)
			va, err := a.Clean(mkStored(50, 3, 0, 0, []byte("gone")))
			if err != nil {
				bad = "Clean: " + err.Error()
				return
			}
			if !bytes.Equal(vb, keep) {
				bad = fmt.Sprintf("the value iterator B built for key b (%x) became %x when iterator A (already at the end of its input) built the deletion marker %x", keep, vb, va)
				return
			}
			lv, ok := logical(va)
			if !ok || !lv.Del || len(lv.Val) != 0 {
				bad = fmt.Sprintf("Clean built %x, not a deletion marker", va)
			}
		}()
		hist(out.Hist, "interleaved-iterators")
		if bad != "" {
			out.Oracle = append(out.Oracle, OracleFailure{"C14", "iterators-share-nothing", bad, nil})
		}
	}
	out.Cases = len(cases)
	out.Distinct = len(nontriv)
	for i := 0; i < 3 && i < len(cases); i++ {
		out.Samples = append(out.Samples, cases[i*len(cases)/3])
	}
	files, err := writeCases(dir, "merge", "From LS Require Import Base.Bytes Base.Res Header.Model Merge.Model Corr.Obs Corr.Run_merge.", "mcase", cases, 150)
	out.Shards = files
	return out, err
}

func isRefused(c mcfg) bool {
	return c.Fmt == 0 || c.Compat > 3 || c.Fmt < 1 || c.Txn == 0
}

func foldReal(c mcfg, st []byte, es []mkv) ([]byte, bool) {
	for _, e := range es {
		o := realMerge(c, st, e)
		if o.Kind != "bytes" {
			return nil, false
		}
		st = o.Bytes
	}
	return st, true
}

var perms3 = [][]int{{0, 1, 2}, {0, 2, 1}, {1, 0, 2}, {1, 2, 0}, {2, 0, 1}, {2, 1, 0}}

func mergeOrderOracle(r *Rng, n int, out *AreaOut) {
	for i := 0; i < n; i++ {
		base := pick(r, []uint64{5, 1700000000000000000})
		c := mcfg{Fmt: pick(r, []uint32{1, 2, 3, 3}), Compat: 1, Txn: 9, Pad: r.Chance(20)}
		var es [3]mkv
		for j := range es {
			es[j] = mkv{Key: []byte("k"), Val: pick(r, mergeVals[:7]), TS: genTS(r, base), Flags: pick(r, []uint32{0, 0, 1})}
		}
		var st []byte
		if r.Bool() {
			st = mkStored(genTS(r, base), 3, byte(r.Intn(2)), 0, nil)
			if st[17] == 0 {
				st = append(st, pick(r, mergeVals[:7])...)
			}
		}
		var first lver
		var firstOK bool
		for pi, p := range perms3 {
			res, ok := foldReal(c, st, []mkv{es[p[0]], es[p[1]], es[p[2]]})
			if !ok {
				break
			}
			// multiplicity: merging everything once more must change nothing
			res2, _ := foldReal(c, res, []mkv{es[p[2]], es[p[0]]})
			lv, lok := logical(res)
			out.OracleN++
			if !bytes.Equal(res, res2) {
				out.Oracle = append(out.Oracle, OracleFailure{"C02", "idempotent", "re-merging already merged versions changed the stored bytes", map[string]any{"cfg": c, "start": hexs(st), "entries": es, "order": p}})
			}
			if pi == 0 {
				first, firstOK = lv, lok
				continue
			}
			if lok != firstOK || (lok && !lv.eq(first)) {
				out.Oracle = append(out.Oracle, OracleFailure{"C02", "order-independent", fmt.Sprintf("order %v gives %v, order [0 1 2] gives %v", p, lv, first), map[string]any{"cfg": c, "start": hexs(st), "entries": es}})
				break
			}
		}
	}
}
