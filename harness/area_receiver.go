package main

// area "receiver": the real syncer/receiver.Receiver (with utils/climit, snapshot.Update.Close and
// syncer.InstanceSet) over a gating fake simpleblob backend.  See Corr/Run_receiver.v for the protocol.

import (
	"context"
	"errors"
	"fmt"
	"io"
	"os"
	"runtime"
	"sort"
	"strings"
	"sync"
	"time"

	"github.com/PowerDNS/lightningstream/config"
	"github.com/PowerDNS/lightningstream/snapshot"
	"github.com/PowerDNS/lightningstream/syncer"
	"github.com/PowerDNS/lightningstream/syncer/events"
	"github.com/PowerDNS/lightningstream/syncer/hooks"
	"github.com/PowerDNS/lightningstream/syncer/receiver"
	"github.com/PowerDNS/simpleblob"
	"github.com/prometheus/client_golang/prometheus"
	"github.com/sirupsen/logrus"
)

func init() { areas["receiver"] = areaReceiver }

// ---------- gating fake backend ----------

type rcvLoadRes struct {
	data []byte
	err  error
}
type rcvLoadReq struct {
	name string
	ch   chan rcvLoadRes
}
type rcvGateStore struct {
	mu      sync.Mutex
	blobs   map[string][]byte
	listErr error
	pending []*rcvLoadReq
	loads   map[string]int // Load calls per name, ever
}

func (g *rcvGateStore) List(ctx context.Context, prefix string) (simpleblob.BlobList, error) {
	g.mu.Lock()
	defer g.mu.Unlock()
	if g.listErr != nil {
		return nil, g.listErr
	}
	var bl simpleblob.BlobList
	for n, b := range g.blobs {
		if strings.HasPrefix(n, prefix) {
			bl = append(bl, simpleblob.Blob{Name: n, Size: int64(len(b))})
		}
	}
	bl.Sort()
	return bl, nil
}
func (g *rcvGateStore) Load(ctx context.Context, name string) ([]byte, error) {
	req := &rcvLoadReq{name: name, ch: make(chan rcvLoadRes, 1)}
	g.mu.Lock()
	g.pending = append(g.pending, req)
	g.loads[name]++
	g.mu.Unlock()
	select {
	case r := <-req.ch:
		return r.data, r.err
	case <-ctx.Done():
		return nil, ctx.Err()
	}
}
func (g *rcvGateStore) Store(ctx context.Context, name string, data []byte) error {
	g.mu.Lock()
	defer g.mu.Unlock()
	g.blobs[name] = data
	return nil
}
func (g *rcvGateStore) Delete(ctx context.Context, name string) error {
	g.mu.Lock()
	defer g.mu.Unlock()
	delete(g.blobs, name)
	return nil
}

// ---------- quiescence: every downloader goroutine is blocked on the gate, on a token, or idle ----------

var rcvStackBuf = make([]byte, 1<<20)

func rcvQuiescent() bool {
	buf := rcvStackBuf
	n := runtime.Stack(buf, true)
	for _, g := range strings.Split(string(buf[:n]), "\n\n") {
		// any goroutine running code of the receiver or climit packages (the downloaders; a goroutine
		// just created by getDownloader shows that function in its entry frame / "created by" line)
		if !strings.Contains(g, "lightningstream/syncer/receiver.") && !strings.Contains(g, "lightningstream/utils/climit.") {
			continue
		}
		hdr := g
		if i := strings.IndexByte(g, '\n'); i >= 0 {
			hdr = g[:i]
		}
		lb, rb := strings.IndexByte(hdr, '['), strings.IndexByte(hdr, ']')
		if lb < 0 || rb < lb {
			return false
		}
		st := hdr[lb+1 : rb]
		blocked := strings.HasPrefix(st, "select") || strings.HasPrefix(st, "chan receive")
		if !blocked || strings.Contains(g, "SleepContext") {
			return false
		}
	}
	return true
}

func rcvWaitQuiescent() bool {
	deadline := time.Now().Add(1500 * time.Millisecond)
	ok := 0
	for time.Now().Before(deadline) {
		if rcvQuiescent() {
			ok++
			if ok >= 2 {
				return true
			}
		} else {
			ok = 0
		}
		runtime.Gosched()
		time.Sleep(30 * time.Microsecond)
	}
	return false
}

// ---------- rcvGauges ----------

type rcvGauges struct{ adl, adc, wdl, wdc int }

func rcvClimitGauges(db string) rcvGauges {
	var g rcvGauges
	mfs, err := prometheus.DefaultGatherer.Gather()
	if err != nil {
		return rcvGauges{-1, -1, -1, -1}
	}
	for _, mf := range mfs {
		name := mf.GetName()
		if name != "lightningstream_climit_active" && name != "lightningstream_climit_waiting" {
			continue
		}
		for _, m := range mf.GetMetric() {
			var l1, l2 string
			for _, lp := range m.GetLabel() {
				if lp.GetName() == "lmdb" {
					l1 = lp.GetValue()
				}
				if lp.GetName() == "limit_name" {
					l2 = lp.GetValue()
				}
			}
			if l1 != db {
				continue
			}
			v := int(m.GetGauge().GetValue())
			switch {
			case name == "lightningstream_climit_active" && l2 == "download":
				g.adl = v
			case name == "lightningstream_climit_active" && l2 == "decompress":
				g.adc = v
			case name == "lightningstream_climit_waiting" && l2 == "download":
				g.wdl = v
			case name == "lightningstream_climit_waiting" && l2 == "decompress":
				g.wdc = v
			}
		}
	}
	return g
}

// ---------- one history ----------

type rname struct {
	Inst int    `json:"inst"`
	Seq  int    `json:"seq"`
	OK   bool   `json:"ok"`
	Kind string `json:"kind"` // snap | other | bad
	Full string `json:"full"`
}

type rObs struct {
	Seen     []int
	Has      bool
	Loads    [][2]int
	ADl, ADc int
	WDl, WDc int
	Wait     []int
	Exit     bool
}

func (o rObs) Coq() string {
	ns := func(xs []int) string {
		s := make([]string, len(xs))
		for i, x := range xs {
			s[i] = fmt.Sprint(x)
		}
		return "[" + strings.Join(s, ";") + "]"
	}
	ls := make([]string, len(o.Loads))
	for i, l := range o.Loads {
		ls[i] = fmt.Sprintf("(%d,%d)", l[0], l[1])
	}
	return fmt.Sprintf("(mkObs %s %s [%s] %d %d %d %d %s %s)", ns(o.Seen), cBool(o.Has), strings.Join(ls, ";"),
		o.ADl, o.ADc, o.WDl, o.WDc, ns(o.Wait), cBool(o.Exit))
}

type rHist struct {
	db       string
	base     rcvGauges // gauge values when the history started (the label set is shared by all histories)
	own      int
	cdl, cdc int
	once     bool
	st       *rcvGateStore
	r        *receiver.Receiver
	ctx      context.Context
	cancel   context.CancelFunc
	names    map[string]*rname // by full name
	byKey    map[[2]int]*rname
	nextSeq  int
	set      *syncer.InstanceSet
	started  bool
	exited   bool
	held     *snapshot.Update
	steps    []string // Coq (action, obs) pairs
	log      []string // human-readable
	bad      string   // harness-level failure (timeout etc.)
	// oracle bookkeeping
	marked    map[string]bool // corrupt names whose Load was released with their (undecodable) bytes
	markedAt  map[string]int  // number of Load calls for that name at that moment
	listedSet map[string]bool // names that were newest non-ignored of their instance at a successful listing
	lastDeliv map[int]string  // last name returned by Next per instance
	oracle    []OracleFailure
	blocked   bool
	// the environment assumption of C16_once_exits was violated in this history
	ownDisturbed bool
	oracleN      int
	acts         map[string]int
}

var (
	rValidBlob   []byte
	rCorruptBlob = [][]byte{[]byte("this is not gzip"), nil}
	rBase        = time.Date(2024, 1, 2, 3, 4, 5, 0, time.UTC)
)

func rInitBlobs() {
	if rValidBlob != nil {
		return
	}
	msg := &snapshot.Snapshot{FormatVersion: 3, CompatVersion: 1}
	d := snapshot.NewDBI()
	d.Append(snapshot.KV{Key: []byte("k"), Value: []byte("v"), TimestampNano: 5})
	b, _, err := snapshot.DumpData(msg)
	if err != nil {
		panic(err)
	}
	if _, err := snapshot.LoadData(b); err != nil {
		panic(err)
	}
	rValidBlob = b
	rCorruptBlob = append(rCorruptBlob, b[:len(b)/2]) // truncated gzip stream
	for _, c := range rCorruptBlob {
		if _, err := snapshot.LoadData(c); err == nil {
			panic("corrupt blob decodes")
		}
	}
	snapshot.RegisterExtension("vx", "verif-other")
}

func rcvInstName(j int) string { return fmt.Sprintf("i%d", j) }

func rcvNewHist(k int, seed uint64, own, cdl, cdc int, once bool) *rHist {
	h := &rHist{db: fmt.Sprintf("dv%d", k%4), own: own, cdl: cdl, cdc: cdc, once: once,
		names: map[string]*rname{}, byKey: map[[2]int]*rname{}, set: syncer.NewInstanceSet(),
		marked: map[string]bool{}, markedAt: map[string]int{}, listedSet: map[string]bool{}, lastDeliv: map[int]string{}, acts: map[string]int{}}
	h.st = &rcvGateStore{blobs: map[string][]byte{}, loads: map[string]int{}}
	l := logrus.New()
	l.SetOutput(io.Discard)
	h.ctx, h.cancel = context.WithCancel(context.Background())
	h.base = rcvClimitGauges(h.db)
	h.r = receiver.New(h.st, config.Config{
		StoragePollInterval:         time.Hour,
		StorageRetryInterval:        time.Millisecond,
		MemoryDownloadedSnapshots:   cdl,
		MemoryDecompressedSnapshots: cdc,
	}, h.db, l, rcvInstName(own), events.New(), hooks.New())
	return h
}

func rcvEffLimit(c int) int {
	if c < 1 {
		return 1
	}
	return c
}

// call runs one call into the Receiver; a call that does not come back within 4 s (somebody keeps the receiver's
// mutex) ends the history with a C17 report instead of hanging the harness
func (h *rHist) call(what string, f func()) bool {
	if h.blocked {
		return false
	}
	ch := make(chan struct{})
	go func() { f(); close(ch) }()
	select {
	case <-ch:
		return true
	case <-time.After(4 * time.Second):
		h.blocked = true
		h.bad = "Receiver." + what + " did not return within 4 s"
		h.oracle = append(h.oracle, OracleFailure{Property: "C17", Clause: "receiver-call-blocks-forever", Desc: "Receiver." + what + " did not return within 4 s (storage calls all answered): a goroutine of the receiver keeps its mutex; the sync loop, which makes this call, would hang uncancellably",
			Input: map[string]any{"own": h.own, "limits": []int{h.cdl, h.cdc}, "only_once": h.once, "history": append([]string{}, h.log...)}})
		return false
	}
}

func (h *rHist) observe() rObs {
	var o rObs
	var seen []string
	if !h.call("SeenInstances/HasSnapshots", func() { seen = h.r.SeenInstances(); o.Has = h.r.HasSnapshots() }) {
		return o
	}
	for _, s := range seen {
		var j int
		fmt.Sscanf(s, "i%d", &j)
		o.Seen = append(o.Seen, j)
	}
	sort.Ints(o.Seen)
	h.st.mu.Lock()
	for _, p := range h.st.pending {
		if n, ok := h.names[p.name]; ok {
			o.Loads = append(o.Loads, [2]int{n.Inst, n.Seq})
		} else {
			h.bad = "Load of a name the harness never stored: " + p.name
		}
	}
	h.st.mu.Unlock()
	sort.Slice(o.Loads, func(a, b int) bool {
		if o.Loads[a][0] != o.Loads[b][0] {
			return o.Loads[a][0] < o.Loads[b][0]
		}
		return o.Loads[a][1] < o.Loads[b][1]
	})
	g := rcvClimitGauges(h.db)
	o.ADl, o.ADc, o.WDl, o.WDc = g.adl-h.base.adl, g.adc-h.base.adc, g.wdl-h.base.wdl, g.wdc-h.base.wdc
	for _, s := range h.set.List() {
		var j int
		fmt.Sscanf(s, "i%d", &j)
		o.Wait = append(o.Wait, j)
	}
	sort.Ints(o.Wait)
	o.Exit = h.exited
	return o
}

func (h *rHist) record(act, human string) rObs {
	if !rcvWaitQuiescent() {
		h.bad = "no quiescence within 1.5 s after " + human
	}
	o := h.observe()
	h.steps = append(h.steps, fmt.Sprintf("(%s, %s)", act, o.Coq()))
	h.log = append(h.log, fmt.Sprintf("%s -> seen=%v loads=%v active=%d/%d waiting=%d/%d wait=%v exit=%v", human, o.Seen, o.Loads, o.ADl, o.ADc, o.WDl, o.WDc, o.Wait, o.Exit))
	h.acts[strings.Fields(act)[0]]++
	// oracle: never more tokens out than configured
	h.oracleN++
	if o.ADl > rcvEffLimit(h.cdl) || o.ADc > rcvEffLimit(h.cdc) {
		h.fail("limits", fmt.Sprintf("active tokens download=%d (limit %d) decompress=%d (limit %d) after %s", o.ADl, rcvEffLimit(h.cdl), o.ADc, rcvEffLimit(h.cdc), human))
	}
	return o
}

func (h *rHist) fail(clause, desc string) {
	h.oracle = append(h.oracle, OracleFailure{Property: "C16", Clause: clause, Desc: desc,
		Input: map[string]any{"own": h.own, "limits": []int{h.cdl, h.cdc}, "only_once": h.once, "history": append([]string{}, h.log...)}})
	if clause == "once-exits" {
		// ... and C09's: an instance that never stops waiting for start-up snapshots never uploads
		h.oracle = append(h.oracle, OracleFailure{Property: "C09", Clause: "upload-gating-never-ends", Desc: desc,
			Input: map[string]any{"own": h.own, "limits": []int{h.cdl, h.cdc}, "only_once": h.once, "history": append([]string{}, h.log...)}})
	}
	if clause == "tokens-returned" || clause == "once-exits" {
		// the same fact is C17's: a token that is never given back leaves every later downloader blocked in Acquire
		// for ever; a loop that never stops waiting never returns
		h.oracle = append(h.oracle, OracleFailure{Property: "C17", Clause: "blocks-forever/" + clause, Desc: desc,
			Input: map[string]any{"own": h.own, "limits": []int{h.cdl, h.cdc}, "only_once": h.once, "history": append([]string{}, h.log...)}})
	}
}
func (h *rHist) fail08(clause, desc string) {
	h.oracle = append(h.oracle, OracleFailure{Property: "C08", Clause: clause, Desc: desc,
		Input: map[string]any{"own": h.own, "limits": []int{h.cdl, h.cdc}, "history": append([]string{}, h.log...)}})
}

func rcvKindCoq(k string) string {
	switch k {
	case "snap":
		return "KSnap"
	case "other":
		return "KOther"
	}
	return "KBad"
}

func (h *rHist) publish(r *Rng, j int, ok bool, kind string) {
	if j == h.own && h.started && h.set.Contains(rcvInstName(h.own)) {
		h.ownDisturbed = true
	}
	seq := h.nextSeq
	h.nextSeq++
	ts := rBase.Add(time.Duration(seq) * time.Second)
	var full string
	switch kind {
	case "snap":
		full = snapshot.Name(h.db, rcvInstName(j), "G-0000000000000000", ts)
	case "other":
		full = strings.TrimSuffix(snapshot.Name(h.db, rcvInstName(j), "G-0000000000000000", ts), ".pb.gz") + ".vx"
	default:
		if seq%2 == 0 {
			full = fmt.Sprintf("%s__%s__junk%04d", h.db, rcvInstName(j), seq) // no dot
		} else {
			full = fmt.Sprintf("%s__%s__not-a-time-%04d__G.pb.gz", h.db, rcvInstName(j), seq)
		}
	}
	n := &rname{Inst: j, Seq: seq, OK: ok, Kind: kind, Full: full}
	h.names[full] = n
	h.byKey[[2]int{j, seq}] = n
	data := rValidBlob
	if !ok {
		data = rCorruptBlob[r.Intn(len(rCorruptBlob))]
	}
	_ = h.st.Store(h.ctx, full, data)
	h.record(fmt.Sprintf("APublish %d %s %s", j, cBool(ok), rcvKindCoq(kind)), fmt.Sprintf("publish %s#%d ok=%v kind=%s", rcvInstName(j), seq, ok, kind))
}

func (h *rHist) present() []*rname {
	var res []*rname
	h.st.mu.Lock()
	for full := range h.st.blobs {
		res = append(res, h.names[full])
	}
	h.st.mu.Unlock()
	sort.Slice(res, func(a, b int) bool { return res[a].Seq < res[b].Seq })
	return res
}

func (h *rHist) delete(n *rname) {
	if n.Inst == h.own && n.Kind == "snap" && !h.marked[n.Full] && h.started && h.set.Contains(rcvInstName(h.own)) {
		h.ownDisturbed = true
	}
	_ = h.st.Delete(h.ctx, n.Full)
	h.record(fmt.Sprintf("ADelete %d %d", n.Inst, n.Seq), fmt.Sprintf("delete %s#%d", rcvInstName(n.Inst), n.Seq))
}

func (h *rHist) list(incl bool, fail bool) {
	if fail {
		h.st.mu.Lock()
		h.st.listErr = errors.New("injected list failure")
		h.st.mu.Unlock()
		var err error
		h.call("RunOnce", func() { err = h.r.RunOnce(h.ctx, incl) })
		h.st.mu.Lock()
		h.st.listErr = nil
		h.st.mu.Unlock()
		if err == nil {
			h.bad = "RunOnce returned nil although List failed"
		}
		h.record(fmt.Sprintf("AListFail %s", cBool(incl)), fmt.Sprintf("RunOnce(%v) with failing List", incl))
		return
	}
	// oracle bookkeeping: what is newest and not (yet) ignorable, per instance, in this listing
	newest := map[int]*rname{}
	for _, n := range h.present() {
		if n.Kind == "snap" && !h.marked[n.Full] {
			newest[n.Inst] = n
		}
	}
	for _, n := range newest {
		h.listedSet[n.Full] = true
	}
	var lerr error
	if !h.call("RunOnce", func() { lerr = h.r.RunOnce(h.ctx, incl) }) {
		return
	}
	if lerr != nil {
		h.bad = "RunOnce failed: " + lerr.Error()
	}
	if !h.started {
		h.started = true
		var seen []string
		h.call("SeenInstances", func() { seen = h.r.SeenInstances() })
		for _, inst := range seen { // sync.go:121-129
			h.set.Add(inst)
		}
	}
	h.record(fmt.Sprintf("AList %s", cBool(incl)), fmt.Sprintf("RunOnce(%v)", incl))
}

func (h *rHist) pendingLoads() []*rcvLoadReq {
	h.st.mu.Lock()
	defer h.st.mu.Unlock()
	return append([]*rcvLoadReq{}, h.st.pending...)
}

func (h *rHist) release(p *rcvLoadReq, wantOK bool) {
	n := h.names[p.name]
	h.st.mu.Lock()
	data, exists := h.st.blobs[p.name]
	for i, q := range h.st.pending {
		if q == p {
			h.st.pending = append(h.st.pending[:i], h.st.pending[i+1:]...)
			break
		}
	}
	h.st.mu.Unlock()
	if wantOK && exists {
		if !n.OK && !h.marked[n.Full] {
			h.marked[n.Full] = true
			h.st.mu.Lock()
			h.markedAt[n.Full] = h.st.loads[n.Full]
			h.st.mu.Unlock()
		}
		p.ch <- rcvLoadRes{data: data}
		h.record(fmt.Sprintf("ALoadOk %d %d", n.Inst, n.Seq), fmt.Sprintf("Load %s#%d returns the blob (decodable=%v)", rcvInstName(n.Inst), n.Seq, n.OK))
		return
	}
	err := errors.New("injected load failure")
	if !exists {
		err = os.ErrNotExist
	}
	p.ch <- rcvLoadRes{err: err}
	h.record(fmt.Sprintf("ALoadFail %d %d", n.Inst, n.Seq), fmt.Sprintf("Load %s#%d fails (exists=%v)", rcvInstName(n.Inst), n.Seq, exists))
}

func (h *rHist) next() bool {
	var inst string
	var upd snapshot.Update
	if !h.call("Next", func() { inst, upd = h.r.Next() }) {
		return false
	}
	if inst == "" {
		h.record("ANextNone", "Next() -> none")
		return false
	}
	var j int
	fmt.Sscanf(inst, "i%d", &j)
	n, ok := h.names[upd.NameInfo.FullName]
	if !ok || n.Inst != j {
		h.bad = "Next returned an unknown name " + upd.NameInfo.FullName
		return false
	}
	u := upd
	h.held = &u
	h.set.Remove(inst) // sync.go:213-218 (hooks.InstanceReady == nil)
	h.lastDeliv[j] = n.Full
	h.record(fmt.Sprintf("ANext %d %d", j, n.Seq), fmt.Sprintf("Next() -> %s#%d", inst, n.Seq))
	// oracles on what was delivered
	h.oracleN++
	if !n.OK {
		h.fail08("corrupt-delivered", fmt.Sprintf("Next returned %s whose blob does not decode", n.Full))
	}
	if upd.Snapshot == nil {
		h.fail("newest-only", "Next returned an Update without a snapshot")
	}
	if !h.listedSet[n.Full] {
		h.fail("newest-only", fmt.Sprintf("Next returned %s#%d, which was never the newest non-ignored name of its instance at a listing", inst, n.Seq))
	}
	return true
}

func (h *rHist) closeHeld() {
	h.held.Close()
	h.held.Close() // idempotent
	h.held = nil
	h.record("AClose", "update.Close()")
}

func (h *rHist) bottom() {
	// sync.go:255-268 and 329-339
	if !h.set.Done() {
		var seen []string
		if h.call("SeenInstances", func() { seen = h.r.SeenInstances() }) {
			h.set.CleanDisappeared(seen)
		}
	}
	if h.once && h.set.Done() {
		h.exited = true
	}
	h.record("ABottom", "bottom of syncLoop iteration")
}

// drain: stable bucket, no faults: run to the point where nothing is left to do
func (h *rHist) drain() {
	for round := 0; round < 12 && h.bad == ""; round++ {
		activity := false
		if h.held != nil {
			h.closeHeld()
			activity = true
		}
		h.list(!h.started, false)
		for inner := 0; inner < 40 && h.bad == ""; inner++ {
			moved := false
			for _, p := range h.pendingLoads() {
				h.release(p, true)
				moved = true
			}
			for h.bad == "" && h.next() {
				h.closeHeld()
				moved = true
			}
			if !moved {
				break
			}
			activity = true
		}
		if !activity {
			break
		}
	}
	h.bottom()
}

func (h *rHist) finalOracles() {
	if h.bad != "" {
		return
	}
	o := h.observe()
	h.oracleN += 3
	if o.ADl != 0 || o.ADc != 0 || o.WDl != 0 || o.WDc != 0 || len(o.Loads) != 0 {
		h.fail("tokens-returned", fmt.Sprintf("after everything was merged and closed: active download=%d decompress=%d waiting=%d/%d pending loads=%v", o.ADl, o.ADc, o.WDl, o.WDc, o.Loads))
	}
	newestOK := map[int]*rname{}
	hasCorruptNewer := map[int]bool{}
	for _, n := range h.present() {
		if n.Kind != "snap" {
			continue
		}
		if n.OK {
			newestOK[n.Inst] = n
			hasCorruptNewer[n.Inst] = false
		} else {
			hasCorruptNewer[n.Inst] = true
		}
	}
	for j, n := range newestOK {
		if j == h.own {
			continue
		}
		if h.lastDeliv[j] != n.Full {
			last := "nothing"
			if l, ok := h.names[h.lastDeliv[j]]; ok {
				last = fmt.Sprintf("#%d", l.Seq)
			}
			cl, f := "delivered", h.fail
			if hasCorruptNewer[j] {
				cl, f = "corrupt-isolated", h.fail08
			}
			f(cl, fmt.Sprintf("bucket stable, nothing pending, but the newest decodable snapshot %s#%d was not the last one handed to the merge loop (last: %s)", rcvInstName(j), n.Seq, last))
		}
	}
	// C15: a file that is not a snapshot of this database (another registered kind, an unparsable name) is never
	// taken for one: the receiver never downloads it
	for full, n := range h.names {
		if n.Kind != "snap" && h.st.loads[full] > 0 {
			desc := fmt.Sprintf("%s (kind %s) is not a snapshot file, yet the receiver downloaded it %d time(s)", full, n.Kind, h.st.loads[full])
			h.fail("not-a-snapshot-downloaded", desc)
			h.oracle = append(h.oracle, OracleFailure{Property: "C15", Clause: "not-a-snapshot-taken", Desc: desc,
				Input: map[string]any{"own": h.own, "history": append([]string{}, h.log...)}})
		}
	}
	for full := range h.marked {
		if h.st.loads[full] > h.markedAt[full] {
			h.fail08("corrupt-retried", fmt.Sprintf("%s was loaded again (%d more times) after it had been marked corrupt", full, h.st.loads[full]-h.markedAt[full]))
		}
	}
	if h.once && !h.exited {
		// C16_once_exits is claimed for histories in which, while the own instance was waited for, nobody
		// stored under the own instance's name or deleted an own snapshot that was not marked corrupt
		if len(o.Wait) == 1 && o.Wait[0] == h.own && h.ownDisturbed {
			h.acts["once-own-disturbed"]++
			// residual wedge (listed in KNOWN_FINDINGS.txt): reported with its own clause so that it is
			// announced as a known finding, and any other once-exits failure remains a violation
			h.fail("once-exits@own-snapshot-removed-during-startup", fmt.Sprintf("only_once: still waiting for the own instance %v after the own snapshot being fetched was deleted during start-up and the next one is undecodable", o.Wait))
		} else {
			h.fail("once-exits", fmt.Sprintf("only_once: bucket stable, every downloader idle, nothing ready, but still waiting for %v: syncLoop would never return", o.Wait))
		}
	}
}

func (h *rHist) finish() {
	h.cancel()
	for _, p := range h.pendingLoads() {
		select {
		case p.ch <- rcvLoadRes{err: context.Canceled}:
		default:
		}
	}
	rcvWaitQuiescent()
}

func (h *rHist) coq() string {
	return fmt.Sprintf("RCase (mkCfg %d (%d)%%Z (%d)%%Z %s) %s", h.own, h.cdl, h.cdc, cBool(h.once), cList(h.steps))
}

// ---------- generator ----------

func rcvGenHistory(r *Rng, k int, seed uint64) *rHist {
	limits := []int{1, 1, 1, 2, 2, 3, 0, -1}
	own := 0
	nInst := 2 + r.Intn(3)
	once := r.Chance(35)
	special := r.Intn(12) // 0: the own-instance corrupt-newest scenario; 1, 2: superseded snapshots
	cdl, cdc := pick(r, limits), pick(r, limits)
	if special == 1 || special == 2 {
		cdc = 2 + r.Intn(2)
	}
	h := rcvNewHist(k, seed, own, cdl, cdc, once)
	kinds := func() string {
		switch x := r.Intn(20); {
		case x < 16:
			return "snap"
		case x < 18:
			return "other"
		}
		return "bad"
	}
	pubInst := func() int {
		if r.Chance(15) {
			return own
		}
		return 1 + r.Intn(nInst-1)
	}
	// initial bucket
	if special == 0 {
		h.publish(r, own, true, "snap")
		h.publish(r, own, false, "snap")
	}
	for i, n := 0, 1+r.Intn(4); i < n; i++ {
		h.publish(r, pubInst(), !r.Chance(25), kinds())
	}
	if r.Chance(20) {
		h.list(true, true)
	}
	h.list(true, false)
	if special == 3 {
		// a new own-instance name seen by a poll (skipped), then by a listing that includes the own instance
		h.publish(r, own, true, "snap")
		h.list(false, false)
		h.list(true, false)
	}
	if special == 1 || special == 2 {
		// a decoded snapshot is superseded before the syncer takes it (needs a second decompress token)
		j := 1 + r.Intn(nInst-1)
		for rep := 0; rep < 2+r.Intn(2) && h.bad == ""; rep++ {
			for _, p := range h.pendingLoads() {
				h.release(p, true)
			}
			h.publish(r, j, rep != 1 || special == 1, "snap")
			h.list(false, false)
		}
	}
	for step := 0; step < 4+r.Intn(8) && h.bad == ""; step++ {
		pend := h.pendingLoads()
		switch x := r.Intn(100); {
		case x < 30 && len(pend) > 0:
			p := pend[r.Intn(len(pend))]
			h.release(p, !r.Chance(20))
		case x < 42:
			h.publish(r, pubInst(), !r.Chance(25), kinds())
		case x < 50:
			if ps := h.present(); len(ps) > 0 {
				h.delete(ps[r.Intn(len(ps))])
			}
		case x < 68:
			h.list(r.Chance(8), r.Chance(12))
		case x < 88:
			if h.held != nil {
				h.closeHeld()
			} else if h.next() && r.Chance(70) {
				h.closeHeld()
			}
		case x < 94 && !h.once && h.held == nil:
			h.bottom()
		default:
			if len(pend) > 0 {
				h.release(pend[0], true)
			} else {
				h.list(false, false)
			}
		}
	}
	h.drain()
	h.finalOracles()
	h.finish()
	return h
}

// rcvBusyPublisher: two other instances have a snapshot ready; every time the merge loop takes one from the
// instance whose name sorts FIRST, that instance has published again and its downloader has delivered the new
// snapshot before the loop asks again. The other instance's snapshot is still handed over eventually (the pick
// among ready snapshots does not favour a name): 48 rounds.
func rcvBusyPublisher(r *Rng, k int, seed uint64) *rHist {
	h := rcvNewHist(k, seed, 0, 3, 3, false)
	releaseAll := func() {
		for i := 0; i < 8; i++ {
			pend := h.pendingLoads()
			if len(pend) == 0 {
				return
			}
			h.release(pend[0], true)
		}
	}
	h.publish(r, 1, true, "snap")
	h.publish(r, 2, true, "snap")
	h.list(true, false) // the start-up listing includes the own instance
	releaseAll()
	delivered2 := false
	rounds := 0
	for ; rounds < 48 && !delivered2 && h.bad == ""; rounds++ {
		if !h.next() {
			break
		}
		last := h.held.NameInfo.InstanceID
		h.closeHeld()
		if last == rcvInstName(2) {
			delivered2 = true
			break
		}
		h.publish(r, 1, true, "snap")
		h.list(false, false)
		releaseAll()
	}
	if !delivered2 && h.bad == "" {
		h.oracle = append(h.oracle, OracleFailure{"C16", "not-starved-by-a-busy-publisher", fmt.Sprintf("instances i1 and i2 both have their newest snapshot downloaded and ready; i1 publishes again (and is downloaded again) every time the merge loop has taken its snapshot: in %d rounds Next() handed over i1's snapshot every time and never i2's", rounds), map[string]any{"history": strings.Join(h.log, " ; ")}})
	}
	h.oracleN++
	h.drain()
	h.finalOracles()
	h.finish()
	return h
}

func areaReceiver(r *Rng, n int, dir string) (*AreaOut, error) {
	logrus.SetOutput(io.Discard)
	rInitBlobs()
	out := &AreaOut{Hist: map[string]int{}, Rule: "histories of the real Receiver over a gating backend: 2-4 instances (one is the own instance), limits from {-1,0,1,2,3}, snapshot/other-kind/unparsable names, decodable and undecodable blobs (not gzip, empty, truncated gzip), listings that fail, Loads that fail or hit a deleted blob, deletions between listing and download, Next/Close at arbitrary points, then a drain to quiescence on a stable bucket; distinct = distinct action/observation sequences; non-trivial = at least one Load released and one snapshot delivered"}
	var cases []string
	seen := map[string]bool{}
	nontriv := 0
	nbad := 0
	for k := 0; k < n && nbad < 3; k++ {
		var h *rHist
		if k == n/2 {
			h = rcvBusyPublisher(r, k, r.s)
		} else {
			h = rcvGenHistory(r, k, r.s)
		}
		if h.bad != "" {
			nbad++
		}
		cs := h.coq()
		if h.bad != "" {
			// the implementation did something the protocol has no word for: make it a mismatch
			cs = fmt.Sprintf("RCase (mkCfg %d (%d)%%Z (%d)%%Z %s) %s", h.own, h.cdl, h.cdc, cBool(h.once),
				cList(append(append([]string{}, h.steps...), "(AClose, mkObs [] false [] 99 99 99 99 [] false)")))
			h.fail("harness", h.bad)
		}
		cases = append(cases, cs)
		key := strings.Join(h.steps, "|")
		out.CaseDescs = append(out.CaseDescs, strings.Join(h.log, " ; "))
		if !seen[key] {
			seen[key] = true
			if h.acts["ALoadOk"] > 0 && h.acts["ANext"] > 0 {
				nontriv++
			}
		}
		for a, c := range h.acts {
			out.Hist[a] += c
		}
		hist(out.Hist, fmt.Sprintf("limits/%d-%d", rcvEffLimit(h.cdl), rcvEffLimit(h.cdc)))
		out.Oracle = append(out.Oracle, h.oracle...)
		out.OracleN += h.oracleN
	}
	receiverReappear(out)
	receiverRunSurvivesListErrors(out)
	out.Cases = len(cases)
	out.Distinct = nontriv
	for i := 0; i < 3 && i < len(cases); i++ {
		out.Samples = append(out.Samples, out.CaseDescs[i*len(cases)/3])
	}
	files, err := writeCases(dir, "receiver", "From Coq Require Import ZArith List.\nImport ListNotations.\nFrom LS Require Import Receiver.Model Corr.Obs Corr.Run_receiver.", "rcase", cases, 150)
	out.Shards = files
	return out, err
}
