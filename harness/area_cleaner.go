package main

// Area `cleaner` (property C12, also used by C05): whole histories on the real cleaner.Worker over a
// fault-injecting fake bucket. Observable per event: the backend calls it caused (List prefixes in
// order; Delete calls with outcome, sorted by name). The C12 clauses are evaluated directly on the
// call log (oracles), with no model involved.

import (
	"context"
	"errors"
	"fmt"
	"io"
	"math"
	"math/big"
	"os"
	"sort"
	"strings"
	"sync"
	"time"

	"github.com/PowerDNS/lightningstream/config"
	"github.com/PowerDNS/lightningstream/lmdbenv"
	"github.com/PowerDNS/lightningstream/snapshot"
	"github.com/PowerDNS/lightningstream/syncer"
	"github.com/PowerDNS/lightningstream/syncer/cleaner"
	"github.com/PowerDNS/simpleblob"
	"github.com/sirupsen/logrus"
)

func init() { areas["cleaner"] = areaCleaner }

// ---------------- fake bucket ----------------

type clCall struct {
	Kind string `json:"kind"` // list | delete | store | load
	Arg  string `json:"arg"`
	OK   bool   `json:"ok"`
}

type clBucket struct {
	names     []string // bucket content, in the order List returns it
	listErr   bool
	delFail   map[string]bool
	storeFail bool
	log       []clCall
}

var errInjected = errors.New("injected storage error")

func (b *clBucket) List(ctx context.Context, prefix string) (simpleblob.BlobList, error) {
	if b.listErr {
		b.log = append(b.log, clCall{"list", prefix, false})
		return nil, errInjected
	}
	b.log = append(b.log, clCall{"list", prefix, true})
	var bl simpleblob.BlobList
	for _, n := range b.names {
		if strings.HasPrefix(n, prefix) {
			bl = append(bl, simpleblob.Blob{Name: n, Size: 1})
		}
	}
	return bl, nil
}
func (b *clBucket) Load(ctx context.Context, name string) ([]byte, error) {
	b.log = append(b.log, clCall{"load", name, false})
	return nil, os.ErrNotExist
}
func (b *clBucket) Store(ctx context.Context, name string, data []byte) error {
	if b.storeFail {
		b.log = append(b.log, clCall{"store", name, false})
		return errInjected
	}
	b.log = append(b.log, clCall{"store", name, true})
	b.names = append(b.names, name)
	return nil
}
func (b *clBucket) Delete(ctx context.Context, name string) error {
	if b.delFail[name] {
		b.log = append(b.log, clCall{"delete", name, false})
		return errInjected
	}
	b.log = append(b.log, clCall{"delete", name, true})
	b.names = clRemove(b.names, name)
	return nil
}

func clRemove(l []string, x string) []string {
	out := l[:0:0]
	for _, y := range l {
		if y != x {
			out = append(out, y)
		}
	}
	return out
}
func clHas(l []string, x string) bool {
	for _, y := range l {
		if y == x {
			return true
		}
	}
	return false
}

// ---------------- Coq literals ----------------

var clBillion = big.NewInt(1000000000)

// nanoseconds since the Unix epoch, exact for every time.Time
func clNano(t time.Time) *big.Int {
	z := new(big.Int).Mul(big.NewInt(t.Unix()), clBillion)
	return z.Add(z, big.NewInt(int64(t.Nanosecond())))
}
func cZ(z *big.Int) string { return "(" + z.String() + ")%Z" }
func cZi(i int64) string   { return fmt.Sprintf("(%d)%%Z", i) }
func cStr(s string) string { return cBytes([]byte(s)) }

// ---------------- scenario ----------------

type clSnap struct {
	Name     string    `json:"name"`
	Inst     string    `json:"inst"`
	TS       time.Time `json:"ts"`
	AppearAt int       `json:"appear_at"` // index of the Run before which it is uploaded
}

type clEvent struct {
	Kind     string               `json:"kind"` // run | listfails | set | probe
	Bucket   []string             `json:"bucket,omitempty"`
	Now      time.Time            `json:"now,omitempty"`
	DelFail  []string             `json:"del_fail,omitempty"`
	Set      map[string]time.Time `json:"set,omitempty"`
	Probe    map[string]time.Time `json:"probe,omitempty"`
	Lists    []string             `json:"lists,omitempty"`
	Deletes  []clCall             `json:"deletes,omitempty"`
	ListOnly bool                 `json:"-"`
}

type clCase struct {
	DB      string    `json:"db"`
	Enabled bool      `json:"enabled"`
	Keep    int64     `json:"must_keep_ns"`
	Rem     int64     `json:"remove_old_ns"`
	Flavour string    `json:"flavour"`
	Events  []clEvent `json:"events"`
}

var clKeeps = []int64{int64(10 * time.Minute), int64(10 * time.Minute), int64(10 * time.Minute), int64(time.Hour), 1000, 1, 0, -1, math.MaxInt64, math.MinInt64}
var clRems = []int64{int64(7 * 24 * time.Hour), int64(7 * 24 * time.Hour), int64(time.Hour), int64(time.Hour), 1, 0, -1, math.MaxInt64}

func clBuild(db, inst string, ts time.Time, ext string, extra ...string) string {
	ni := snapshot.NameInfo{SyncerName: db, InstanceID: inst, GenerationID: "G", Timestamp: ts, Extension: ext}
	for _, e := range extra {
		ni.Extra = append(ni.Extra, snapshot.NameExtraItem(e))
	}
	return ni.BuildName()
}

// saturating time addition helper for plans (never near the limits in practice)
func clAdd(t time.Time, d int64) time.Time { return t.Add(time.Duration(d)) }

const clOtherKind = "verif-other-kind"
const clOtherExt = "vx"

type clGen struct {
	r       *Rng
	c       clCase
	nows    []time.Time // clock of every event slot
	snaps   []clSnap
	junk    []string
	ooo     bool
	extreme bool
}

func clSmall(k int64) bool { return k > -int64(time.Hour)*24*365 && k < int64(time.Hour)*24*365 }

// plan a case: configuration, clock schedule, snapshots with their appearance slots
func clPlan(r *Rng) *clGen {
	g := &clGen{r: r}
	g.c.DB = pick(r, []string{"db", "db", "db", "db", "db", "d", "d", "db2", "db2", "zone-1", "zone-1", "a.b"})
	g.c.Enabled = !r.Chance(6)
	g.c.Keep = pick(r, clKeeps)
	g.c.Rem = pick(r, clRems)
	g.ooo = r.Chance(12)
	g.extreme = r.Chance(5)
	g.c.Flavour = "in-order"
	if g.ooo {
		g.c.Flavour = "out-of-order"
	}
	if g.extreme {
		g.c.Flavour += "+extreme-times"
	}
	nEv := 3 + r.Intn(10)
	// clock: gaps around MustKeepInterval (and halves, so that names first seen at different runs
	// reach the boundary at different runs)
	t := time.Date(2024, 3, 1, 12, 0, 0, r.Intn(1000000000), time.UTC)
	K := g.c.Keep
	if !clSmall(K) {
		K = int64(10 * time.Minute)
	}
	for i := 0; i < nEv; i++ {
		var gap int64
		switch k := r.Intn(20); {
		case k < 3:
			gap = K - 1
		case k < 7:
			gap = K
		case k < 10:
			gap = K + 1
		case k < 12:
			gap = K / 2
		case k < 13:
			gap = K - K/2
		case k < 14:
			gap = 0
		case k < 15:
			gap = 1
		case k < 16:
			gap = -int64(r.Intn(5)) * int64(time.Second) // clock steps back
		case k < 17:
			gap = 3 * K
		default:
			gap = int64(r.Intn(1200)) * int64(time.Second)
		}
		if i == 0 {
			gap = 0
		}
		t = clAdd(t, gap)
		g.nows = append(g.nows, t)
	}
	if g.extreme {
		// a jump of more than 292 years somewhere (time.Time.Sub saturates)
		i := r.Intn(nEv)
		if r.Bool() {
			g.nows[i] = time.Date(2500+r.Intn(300), 1, 1, 0, 0, 0, 0, time.UTC)
		} else {
			g.nows[i] = time.Date(1600+r.Intn(50), 1, 1, 0, 0, 0, 0, time.UTC)
		}
	}
	R := g.c.Rem
	if !clSmall(R) {
		R = int64(time.Hour)
	}
	// instances
	nInst := 2 + r.Intn(3)
	ids := []string{"a", "b", "c", "lon-1", "x.y"}
	for ii := 0; ii < nInst; ii++ {
		id := ids[ii]
		nSnap := 1 + r.Intn(4)
		kind := r.Intn(10)
		var newest time.Time
		slot := r.Intn(nEv)
		early := false // everything of the instance is in the bucket from the start
		switch {
		case kind < 4: // live: uploads shortly before the runs
			newest = clAdd(g.nows[nEv-1], -int64(r.Intn(600))*int64(time.Second)-1)
		case kind < 8: // silence exactly around RemoveOldInstancesInterval at some (late) run
			if nEv > 2 && r.Chance(70) {
				slot = nEv/2 + r.Intn(nEv-nEv/2)
			}
			newest = clAdd(g.nows[slot], -R+int64(r.Intn(3))-1)
			early = r.Chance(75)
		case kind < 9: // long dead
			newest = clAdd(g.nows[0], -R-int64(24*time.Hour)-int64(r.Intn(1000)))
		default: // same timestamps as another instance (ties between instances)
			if len(g.snaps) > 0 {
				newest = g.snaps[len(g.snaps)-1].TS
			} else {
				newest = clAdd(g.nows[0], -R)
			}
		}
		if g.extreme && ii == 0 {
			newest = pick(r, []time.Time{
				time.Date(1, 1, 1, 0, 0, 0, 5, time.UTC), time.Date(0, 6, 1, 0, 0, 0, 0, time.UTC),
				time.Date(9000, 1, 1, 0, 0, 0, 0, time.UTC), time.Date(1700, 1, 1, 0, 0, 0, 0, time.UTC)})
		}
		// older snapshots of the instance, strictly older, appearing no later than newer ones
		tss := make([]time.Time, nSnap)
		tss[nSnap-1] = newest
		for j := nSnap - 2; j >= 0; j-- {
			step := int64(1)
			if !r.Chance(20) {
				step = int64(1+r.Intn(3600)) * int64(time.Second)
			}
			tss[j] = clAdd(tss[j+1], -step)
		}
		appear := make([]int, nSnap)
		for j := range appear {
			appear[j] = r.Intn(nEv)
			if r.Chance(40) || early {
				appear[j] = 0
			}
		}
		sort.Ints(appear)
		if g.ooo && nSnap > 1 {
			r2 := r.Intn(nSnap - 1)
			appear[r2], appear[nSnap-1] = appear[nSnap-1], appear[r2]
		}
		for j := 0; j < nSnap; j++ {
			var extra []string
			if r.Chance(10) {
				extra = []string{"X" + fmt.Sprint(r.Intn(100))}
			}
			g.snaps = append(g.snaps, clSnap{Name: clBuild(g.c.DB, id, tss[j], snapshot.DefaultExtension, extra...), Inst: id, TS: tss[j], AppearAt: appear[j]})
		}
	}
	// junk: foreign files, other databases (one whose name extends ours, one that ours extends),
	// unparsable names under our prefix, a registered non-snapshot kind
	old := clAdd(g.nows[0], -R-int64(48*time.Hour))
	others := []string{g.c.DB + "2", "other"}
	if len(g.c.DB) > 1 {
		others = append(others, g.c.DB[:len(g.c.DB)-1])
	}
	for _, o := range others {
		if r.Chance(60) {
			g.junk = append(g.junk, clBuild(o, "a", old, snapshot.DefaultExtension), clBuild(o, "a", clAdd(old, 5), snapshot.DefaultExtension))
		}
	}
	cand := []string{
		"README", "", g.c.DB, g.c.DB + "__", g.c.DB + "_x.pb.gz",
		g.c.DB + "__a__20240101-000000-000000000__G",
		g.c.DB + "__a__20240101-000000-000000000__G.unknown",
		g.c.DB + "__a__2024__G.pb.gz",
		g.c.DB + "__a.pb.gz",
		g.c.DB + "__a__20240230-000000-000000000__G.pb.gz",
		g.c.DB + "__a__20240101.000000-000000000__G.pb.gz",
		g.c.DB + "____a__20240101-000000-000000000__G.pb.gz",
		clBuild(g.c.DB, "a", old, clOtherExt),
		clBuild(g.c.DB, "b", clAdd(old, 77), clOtherExt),
	}
	for _, n := range cand {
		if r.Chance(35) {
			g.junk = append(g.junk, n)
		}
	}
	return g
}

// ---------------- running a case on the real code, with the oracles ----------------

type clParsed struct {
	ok   bool
	inst string
	ts   time.Time
	snap bool
	db   string
}

func clParse(n string) clParsed {
	ni, err := snapshot.ParseName(n)
	if err != nil {
		return clParsed{}
	}
	return clParsed{ok: true, inst: ni.InstanceID, ts: ni.Timestamp, snap: ni.Kind == snapshot.KindSnapshot, db: ni.SyncerName}
}

func clLogger() logrus.FieldLogger {
	l := logrus.New()
	l.SetOutput(io.Discard)
	l.SetLevel(logrus.PanicLevel)
	return l
}

func clConf(c clCase) config.Cleanup {
	return config.Cleanup{Enabled: c.Enabled, Interval: time.Minute, MustKeepInterval: time.Duration(c.Keep), RemoveOldInstancesInterval: time.Duration(c.Rem)}
}

// runOnce with recover; returns the calls of this run
func clRunOnce(w *cleaner.Worker, b *clBucket, now time.Time) (calls []clCall, panicked string) {
	start := len(b.log)
	func() {
		defer func() {
			if r := recover(); r != nil {
				panicked = fmt.Sprint(r)
			}
		}()
		_ = w.RunOnce(context.Background(), now)
	}()
	return append([]clCall{}, b.log[start:]...), panicked
}

func clSplit(calls []clCall) (lists []string, dels []clCall) {
	for _, c := range calls {
		switch c.Kind {
		case "list":
			lists = append(lists, c.Arg)
		case "delete":
			dels = append(dels, c)
		}
	}
	sort.SliceStable(dels, func(i, j int) bool { return dels[i].Arg < dels[j].Arg })
	return
}

// clExec builds the history while running it: the bucket of each run depends on what the
// previous runs deleted. Oracle failures are appended to out.
func clExec(g *clGen, out *AreaOut) {
	r := g.r
	c := &g.c
	b := &clBucket{delFail: map[string]bool{}}
	w := cleaner.New(c.DB, b, clConf(*c), clLogger())
	prefix := c.DB + "__"

	// oracle state (independent re-statement of the property's vocabulary)
	firstSeen := map[string]time.Time{}
	committed := map[string]time.Time{}
	var gone []string // names that were in the bucket and are not any more
	fail := func(clause, desc string) {
		out.Oracle = append(out.Oracle, OracleFailure{"C12", clause, desc, map[string]any{"case": *c}})
		if clause == "only-own-snapshots" {
			// the same fact is C15's: names of other databases / non-snapshot files are never taken for snapshots of this database
			out.Oracle = append(out.Oracle, OracleFailure{"C15", "other-db-or-kind-taken", desc, map[string]any{"case": *c}})
		}
	}
	for _, j := range g.junk {
		if !clHas(b.names, j) {
			b.names = append(b.names, j)
		}
	}
	for slot, now := range g.nows {
		// uploads due before this slot
		for _, s := range g.snaps {
			if s.AppearAt == slot && !clHas(b.names, s.Name) {
				b.names = append(b.names, s.Name)
			}
		}
		// a blob vanishes / an old one comes back (replication hiccups, manual restores)
		if r.Chance(12) && len(b.names) > 0 {
			x := pick(r, b.names)
			b.names = clRemove(b.names, x)
			gone = append(gone, x)
		}
		if r.Chance(25) && len(gone) > 0 {
			x := pick(r, gone)
			if !clHas(b.names, x) {
				b.names = append(b.names, x)
			}
		}
		if r.Chance(30) {
			sort.Strings(b.names) // real backends list sorted; we also list unsorted
		} else if r.Chance(30) && len(b.names) > 1 {
			i, j := r.Intn(len(b.names)), r.Intn(len(b.names))
			b.names[i], b.names[j] = b.names[j], b.names[i]
		}
		kind := "run"
		switch k := r.Intn(100); {
		case k < 9:
			kind = "listfails"
		case k < 26:
			kind = "set"
		case k < 34:
			kind = "probe"
		}
		if slot == 0 && kind != "run" && r.Chance(70) {
			kind = "run"
		}
		switch kind {
		case "set":
			m := map[string]time.Time{}
			insts := map[string][]clSnap{}
			var instIDs []string
			for _, s := range g.snaps {
				if _, ok := insts[s.Inst]; !ok {
					instIDs = append(instIDs, s.Inst)
				}
				insts[s.Inst] = append(insts[s.Inst], s)
			}
			for _, id := range instIDs {
				ss := insts[id]
				if !r.Chance(60) {
					continue
				}
				s := pick(r, ss)
				if r.Chance(60) {
					s = ss[len(ss)-1]
				}
				m[id] = s.TS
				if r.Chance(50) {
					m[id] = clAdd(s.TS, int64(r.Intn(3))-1)
				}
				if r.Chance(5) {
					m[id] = time.Time{}
				}
			}
			if r.Chance(15) {
				m["nobody"] = now
			}
			ev := clEvent{Kind: "set", Set: map[string]time.Time{}}
			for k, v := range m {
				ev.Set[k] = v
				committed[k] = v
			}
			w.SetCommitted(m)
			// the caller keeps using its map (syncer.lastByInstance is updated by every LoadOnce)
			for k := range m {
				m[k] = m[k].Add(time.Duration(1+r.Intn(1000)) * time.Hour)
			}
			m["later"] = now
			c.Events = append(c.Events, ev)
			// the mutation must not be visible
			for k, v := range committed {
				out.OracleN++
				if got := w.GetCommitted(k); !got.Equal(v) {
					fail("set-committed-copies", fmt.Sprintf("GetCommitted(%q) = %v after the caller changed its own map; SetCommitted was given %v", k, got, v))
				}
			}
			if got := w.GetCommitted("later"); !got.IsZero() {
				out.OracleN++
				fail("set-committed-copies", fmt.Sprintf("GetCommitted(\"later\") = %v: a key added to the caller's map after SetCommitted", got))
			}
		case "probe":
			ev := clEvent{Kind: "probe", Probe: map[string]time.Time{}}
			for _, id := range []string{"a", "b", "c", "lon-1", "x.y", "nobody", "later", "never"} {
				if r.Chance(50) {
					ev.Probe[id] = w.GetCommitted(id)
					out.OracleN++
					if want := committed[id]; !ev.Probe[id].Equal(want) {
						fail("get-committed", fmt.Sprintf("GetCommitted(%q) = %v, last SetCommitted value %v", id, ev.Probe[id], want))
					}
				}
			}
			c.Events = append(c.Events, ev)
		case "listfails":
			b.listErr = true
			calls, p := clRunOnce(w, b, now)
			b.listErr = false
			lists, dels := clSplit(calls)
			c.Events = append(c.Events, clEvent{Kind: "listfails", Now: now, Lists: lists, Deletes: dels})
			out.OracleN++
			if p != "" {
				fail("panic", "RunOnce panicked: "+p)
			}
			if len(dels) > 0 {
				fail("list-error-safe", fmt.Sprintf("List failed, yet Delete was called for %v", dels))
			}
			if !c.Enabled && len(calls) > 0 {
				fail("disabled", fmt.Sprintf("cleanup disabled, calls made: %v", calls))
			}
		default:
			bucket := append([]string{}, b.names...)
			b.delFail = map[string]bool{}
			var df []string
			if r.Chance(22) {
				for _, n := range bucket {
					if r.Chance(35) {
						b.delFail[n] = true
						df = append(df, n)
					}
				}
			}
			calls, p := clRunOnce(w, b, now)
			lists, dels := clSplit(calls)
			c.Events = append(c.Events, clEvent{Kind: "run", Bucket: bucket, Now: now, DelFail: df, Lists: lists, Deletes: dels})
			out.OracleN++
			if p != "" {
				fail("panic", "RunOnce panicked: "+p)
			}
			if !c.Enabled {
				if len(calls) > 0 {
					fail("disabled", fmt.Sprintf("cleanup disabled, calls made: %v", calls))
				}
				continue
			}
			for _, cl := range calls {
				if cl.Kind != "list" && cl.Kind != "delete" {
					fail("only-list-delete", fmt.Sprintf("the cleaner called %s(%q)", cl.Kind, cl.Arg))
				}
			}
			// candidates of this listing, as the property defines them
			type cnd struct {
				name string
				p    clParsed
			}
			var cands []cnd
			for _, n := range bucket {
				if !strings.HasPrefix(n, prefix) {
					continue
				}
				if p := clParse(n); p.ok && p.snap {
					cands = append(cands, cnd{n, p})
				}
			}
			isCand := map[string]clParsed{}
			for _, cd := range cands {
				isCand[cd.name] = cd.p
			}
			deleted := map[string]bool{}
			allOK := true
			for _, d := range dels {
				if deleted[d.Arg] {
					fail("delete-once", fmt.Sprintf("%q deleted twice in one run", d.Arg))
				}
				deleted[d.Arg] = true
				allOK = allOK && d.OK
				// clause 1: only listed, well-formed snapshot files of this database
				p, ok := isCand[d.Arg]
				if !ok || p.db != c.DB {
					fail("only-own-snapshots", fmt.Sprintf("deleted %q: not a listed well-formed snapshot of database %q", d.Arg, c.DB))
					continue
				}
				// clause 2: first seen more than MustKeepInterval ago
				fs, seen := firstSeen[d.Arg]
				if !seen || !(now.Sub(fs) > time.Duration(c.Keep)) {
					fail("keep-interval", fmt.Sprintf("deleted %q at %v: first seen %v (tracked=%v), MustKeepInterval %v", d.Arg, now, fs, seen, time.Duration(c.Keep)))
				}
			}
			// what "first seen" is after this listing
			fsNow := map[string]time.Time{}
			for _, cd := range cands {
				if t, ok := firstSeen[cd.name]; ok {
					fsNow[cd.name] = t
				} else {
					fsNow[cd.name] = now
				}
			}
			// clause 3: the newest snapshot of an instance — when this run meets the hypotheses
			distinct, inOrder := true, true
			for _, x := range cands {
				for _, y := range cands {
					if x.p.inst != y.p.inst || x.name == y.name {
						continue
					}
					if x.p.ts.Equal(y.p.ts) {
						distinct = false
					}
					if x.p.ts.Before(y.p.ts) && fsNow[x.name].After(fsNow[y.name]) {
						inOrder = false
					}
				}
			}
			if distinct && inOrder {
				for _, x := range cands {
					newest := true
					for _, y := range cands {
						if y.p.inst == x.p.inst && y.p.ts.After(x.p.ts) {
							newest = false
						}
					}
					if newest && deleted[x.name] {
						stale := now.Sub(x.p.ts) > time.Duration(c.Rem)
						covered := !x.p.ts.After(committed[x.p.inst])
						if !stale || !covered {
							fail("newest-protected", fmt.Sprintf("deleted %q, the newest snapshot of instance %q, at %v: silent longer than %v: %v; covered by committed %v: %v",
								x.name, x.p.inst, now, time.Duration(c.Rem), stale, committed[x.p.inst], covered))
						}
					}
				}
			}
			// clause 4: superseded snapshots go (bounded) — when every Delete succeeded
			if allOK {
				left := map[string][]string{}
				for _, x := range cands {
					fs, seen := firstSeen[x.name]
					if clHas(b.names, x.name) && seen && now.Sub(fs) > time.Duration(c.Keep) {
						left[x.p.inst] = append(left[x.p.inst], x.name)
					}
				}
				for id, l := range left {
					if len(l) > 1 {
						fail("bounded", fmt.Sprintf("instance %q keeps %d snapshots past MustKeepInterval after a clean run: %v", id, len(l), l))
					}
				}
			}
			// successful deletes really removed only what was asked
			firstSeen = fsNow
		}
	}
	// disabled Worker.Run only waits for the context
	if !c.Enabled {
		ctx, cancel := context.WithCancel(context.Background())
		cancel()
		n0 := len(b.log)
		err := w.Run(ctx)
		out.OracleN++
		if len(b.log) != n0 || !errors.Is(err, context.Canceled) {
			fail("disabled", fmt.Sprintf("disabled Run made %d calls, returned %v", len(b.log)-n0, err))
		}
	}
}

// twin run: the same history with no failing Delete must take the same decisions
func clTwin(c clCase, out *AreaOut) {
	anyFail := false
	for _, e := range c.Events {
		if len(e.DelFail) > 0 {
			anyFail = true
		}
	}
	if !anyFail || !c.Enabled {
		return
	}
	b := &clBucket{delFail: map[string]bool{}}
	w := cleaner.New(c.DB, b, clConf(c), clLogger())
	for i, e := range c.Events {
		switch e.Kind {
		case "set":
			w.SetCommitted(e.Set)
		case "listfails":
			b.listErr = true
			clRunOnce(w, b, e.Now)
			b.listErr = false
		case "run":
			b.names = append([]string{}, e.Bucket...)
			calls, _ := clRunOnce(w, b, e.Now)
			_, dels := clSplit(calls)
			out.OracleN++
			same := len(dels) == len(e.Deletes)
			for k := 0; same && k < len(dels); k++ {
				same = dels[k].Arg == e.Deletes[k].Arg
			}
			if !same {
				out.Oracle = append(out.Oracle, OracleFailure{"C12", "delete-error-safe",
					fmt.Sprintf("event %d: with failing Deletes the run asked to delete %v, without failures %v", i, e.Deletes, dels), map[string]any{"case": c}})
				return
			}
		}
	}
}

// ---------------- Coq case ----------------

func clCoq(c clCase) string {
	// times are written relative to the first clock value of the case (shorter literals)
	var base *big.Int
	for _, e := range c.Events {
		if e.Kind == "run" || e.Kind == "listfails" {
			base = clNano(e.Now)
			break
		}
	}
	cTime := func(t time.Time) string {
		z := clNano(t)
		if base == nil {
			return cZ(z)
		}
		d := new(big.Int).Sub(z, base)
		if !d.IsInt64() {
			return cZ(z)
		}
		// B + sec*G + ns with G = 10^9: most offsets are whole seconds and a few nanoseconds
		q, m := new(big.Int).QuoRem(d, clBillion, new(big.Int))
		out := "(B"
		if q.Sign() != 0 {
			out += fmt.Sprintf("%+d*G", q.Int64())
		}
		if m.Sign() != 0 {
			out += fmt.Sprintf("%+d", m.Int64())
		}
		return out + ")%Z"
	}
	ids := map[string]string{}
	var order []string
	id := func(n string) string {
		if v, ok := ids[n]; ok {
			return v
		}
		v := fmt.Sprintf("n%d", len(order))
		ids[n] = v
		order = append(order, n)
		return v
	}
	nameList := func(l []string) string {
		xs := make([]string, len(l))
		for i, n := range l {
			xs[i] = id(n)
		}
		return "[" + strings.Join(xs, ";") + "]"
	}
	cmap := func(m map[string]time.Time) string {
		ks := make([]string, 0, len(m))
		for k := range m {
			ks = append(ks, k)
		}
		sort.Strings(ks)
		xs := make([]string, len(ks))
		for i, k := range ks {
			xs[i] = fmt.Sprintf("(%s, %s)", cStr(k), cTime(m[k]))
		}
		return "[" + strings.Join(xs, ";") + "]"
	}
	dels := func(l []clCall) string {
		xs := make([]string, len(l))
		for i, d := range l {
			xs[i] = fmt.Sprintf("(%s, %s)", id(d.Arg), cBool(d.OK))
		}
		return "[" + strings.Join(xs, ";") + "]"
	}
	lists := func(l []string) string {
		xs := make([]string, len(l))
		for i, p := range l {
			xs[i] = cStr(p)
		}
		return "[" + strings.Join(xs, ";") + "]"
	}
	var evs []string
	for _, e := range c.Events {
		switch e.Kind {
		case "run":
			evs = append(evs, fmt.Sprintf("ERun %s %s %s %s %s", nameList(e.Bucket), cTime(e.Now), nameList(e.DelFail), lists(e.Lists), dels(e.Deletes)))
		case "listfails":
			evs = append(evs, fmt.Sprintf("EListFails %s %s", lists(e.Lists), dels(e.Deletes)))
		case "set":
			evs = append(evs, "ESet "+cmap(e.Set))
		case "probe":
			evs = append(evs, "EProbe "+cmap(e.Probe))
		}
	}
	// parse table: the real ParseName on every name of the case
	var tbl []string
	for _, n := range order {
		if p := clParse(n); p.ok {
			tbl = append(tbl, fmt.Sprintf("(%s, mkP %s %s %s)", ids[n], cStr(p.inst), cTime(p.ts), cBool(p.snap)))
		}
	}
	var sb strings.Builder
	sb.WriteString("(")
	if base != nil {
		fmt.Fprintf(&sb, "let B := %s in let G := (1000000000)%%Z in ", cZ(base))
	}
	// Names are abbreviated for Coq: the model uses a name only through equality, the prefix test
	// with the database prefix, and the parse table. The abbreviation keeps the first len(db)+3
	// bytes (enough to decide any prefix test with db+"__") and appends 0xff and the index of the
	// name in the case, so it is injective and prefix-faithful; the replay keeps the real names.
	heads := map[string]string{}
	for i, n := range order {
		head := n
		if len(head) > len(c.DB)+3 {
			head = head[:len(c.DB)+3]
		}
		hv, ok := heads[head]
		if !ok {
			hv = fmt.Sprintf("h%d", len(heads))
			heads[head] = hv
			fmt.Fprintf(&sb, "let %s := %s in ", hv, cStr(head))
		}
		fmt.Fprintf(&sb, "let %s := nm %s %d in ", ids[n], hv, i)
	}
	fmt.Fprintf(&sb, "CHist %s (mkConf %s %s %s) [%s] [%s])", cStr(c.DB), cBool(c.Enabled), cZi(c.Keep), cZi(c.Rem),
		strings.Join(tbl, ";"), strings.Join(evs, ";\n    "))
	return sb.String()
}

// ---------------- syncer level: receive-only, SetCommitted only after a successful Store ----------------

func clSyncer(ro, enabled, storeOK bool, out *AreaOut) (string, error) {
	dir, err := os.MkdirTemp("", "lsverif_cleaner_")
	if err != nil {
		return "", err
	}
	defer os.RemoveAll(dir)
	env, err := lmdbenv.NewWithOptions(dir, lmdbenv.Options{Create: true, MaxDBs: 20, MapSize: 64 << 20})
	if err != nil {
		return "", err
	}
	defer env.Close()
	b := &clBucket{delFail: map[string]bool{}, storeFail: !storeOK}
	cfg := config.Config{Instance: "me", LMDBs: map[string]config.LMDB{}, StorageRetryCount: 1, StorageRetryInterval: time.Millisecond,
		LMDBPollInterval: time.Millisecond, StoragePollInterval: time.Millisecond}
	cfg.Storage.Cleanup = config.Cleanup{Enabled: enabled, Interval: time.Minute, MustKeepInterval: time.Minute, RemoveOldInstancesInterval: time.Hour}
	lc := config.LMDB{SchemaTracksChanges: true}
	cfg.LMDBs["db"] = lc
	s, err := syncer.New("db", env, b, cfg, lc, syncer.Options{ReceiveOnly: ro})
	if err != nil {
		return "", err
	}
	ctx := context.Background()
	ts := time.Date(2024, 1, 2, 3, 4, 5, 6, time.UTC)
	upd := snapshot.Update{
		Snapshot: &snapshot.Snapshot{FormatVersion: snapshot.CurrentFormatVersion, CompatVersion: snapshot.CompatFormatVersion,
			Meta: snapshot.Meta{InstanceID: "peer", GenerationID: "G", DatabaseName: "db", TimestampNano: uint64(ts.UnixNano())}},
		NameInfo: snapshot.NameInfo{SyncerName: "db", InstanceID: "peer", GenerationID: "G", Timestamp: ts, Kind: snapshot.KindSnapshot, Extension: snapshot.DefaultExtension},
	}
	if _, _, err := s.LoadOnce(ctx, env, "peer", upd, 0); err != nil {
		return "", fmt.Errorf("LoadOnce: %w", err)
	}
	cl := s.VerifCleaner()
	before := cl.GetCommitted("peer")
	_, sendErr := s.SendOnce(ctx, env)
	stores := 0
	for _, c := range b.log {
		if c.Kind == "store" && c.OK {
			stores++
		}
	}
	after := cl.GetCommitted("peer")
	n0 := len(b.log)
	_ = cl.RunOnce(ctx, time.Now())
	lists := 0
	for _, c := range b.log[n0:] {
		if c.Kind == "list" {
			lists++
		}
	}
	fail := func(clause, desc string) {
		out.Oracle = append(out.Oracle, OracleFailure{"C12", clause, desc, map[string]any{"receive_only": ro, "cleanup_enabled": enabled, "store_ok": storeOK, "calls": b.log}})
		if clause == "committed-after-store" {
			// the same fact is the guard of C05's CleanStale step: committed := lastBy only after a successful Store
			out.Oracle = append(out.Oracle, OracleFailure{"C05", "committed-only-after-store", desc + " — a stale instance's last snapshot could then be deleted although no uploaded snapshot contains its data", map[string]any{"receive_only": ro, "cleanup_enabled": enabled, "store_ok": storeOK, "calls": b.log}})
		}
	}
	out.OracleN++
	if !before.IsZero() {
		fail("committed-after-store", "the cleaner was told about a loaded snapshot before any snapshot of our own was stored")
	}
	if ro {
		for _, c := range b.log {
			if c.Kind == "store" || c.Kind == "delete" {
				fail("receive-only", fmt.Sprintf("receive-only instance called %s(%q)", c.Kind, c.Arg))
			}
		}
		if len(b.log) > n0 {
			fail("receive-only", fmt.Sprintf("receive-only instance: its cleaner made calls %v", b.log[n0:]))
		}
		if !after.IsZero() {
			fail("receive-only", "receive-only instance notified its cleaner of a committed snapshot")
		}
	} else {
		if !storeOK && !after.IsZero() {
			fail("committed-after-store", fmt.Sprintf("Store failed (SendOnce error: %v) but the cleaner was told the loaded snapshot is committed", sendErr))
		}
		if storeOK && !after.Equal(ts) {
			fail("committed-after-store", fmt.Sprintf("Store succeeded but GetCommitted(peer) = %v, loaded snapshot %v", after, ts))
		}
	}
	return fmt.Sprintf("CSyncer %s %s %s %d %s %d", cBool(ro), cBool(enabled), cBool(storeOK), stores, cBool(!after.IsZero()), lists), nil
}

// clRunLiveness: the cleaner goroutine (Worker.Run) survives storage errors of every kind — timeouts and
// cancellations of a single request included — as long as its OWN context is alive: superseded snapshots keep
// being removed afterwards
type clFlakyList struct {
	clBucket
	mu    sync.Mutex
	lists int
}

func (b *clFlakyList) List(ctx context.Context, prefix string) (simpleblob.BlobList, error) {
	b.mu.Lock()
	b.lists++
	k := b.lists
	b.mu.Unlock()
	switch k {
	case 1:
		return nil, fmt.Errorf("list %q: request timed out: %w", prefix, context.DeadlineExceeded)
	case 2:
		return nil, fmt.Errorf("list %q: request aborted: %w", prefix, context.Canceled)
	case 3:
		return nil, errInjected
	}
	return simpleblob.BlobList{}, nil
}

func clRunLiveness(out *AreaOut) {
	out.OracleN++
	b := &clFlakyList{}
	w := cleaner.New("db", b, config.Cleanup{Enabled: true, Interval: 2 * time.Millisecond, MustKeepInterval: time.Second, RemoveOldInstancesInterval: time.Hour}, clLogger())
	ctx, cancel := context.WithCancel(context.Background())
	defer cancel()
	ret := make(chan error, 1)
	go func() { ret <- w.Run(ctx) }()
	deadline := time.Now().Add(3 * time.Second)
	for time.Now().Before(deadline) {
		b.mu.Lock()
		k := b.lists
		b.mu.Unlock()
		if k >= 6 {
			break
		}
		select {
		case err := <-ret:
			out.Oracle = append(out.Oracle, OracleFailure{"C12", "cleaner-stops-on-storage-error", fmt.Sprintf("Worker.Run returned (%v) after %d List calls although its context is alive: nothing is cleaned any more for the rest of the process", err, k), map[string]any{"list_errors": "1: wraps context.DeadlineExceeded, 2: wraps context.Canceled, 3: plain error, then ok"}})
			return
		case <-time.After(2 * time.Millisecond):
		}
	}
	cancel()
	select {
	case <-ret:
	case <-time.After(3 * time.Second):
		out.Oracle = append(out.Oracle, OracleFailure{"C17", "cleaner-run-ignores-cancel", "Worker.Run did not return within 3 s of the cancellation", nil})
	}
	hist(out.Hist, "run-liveness")
}

// ---------------- area ----------------

func areaCleaner(r *Rng, n int, dir string) (*AreaOut, error) {
	snapshot.RegisterExtension(clOtherExt, clOtherKind)
	out := &AreaOut{Hist: map[string]int{}, Rule: "histories of 3-12 events (RunOnce with List ok / List failing, SetCommitted, GetCommitted) on the real cleaner.Worker over a fault-injecting fake bucket: 2-4 instances x 1-4 snapshots uploaded in timestamp order (12% out of order), names vanishing and reappearing, foreign files, snapshots of databases whose name extends / is extended by ours, unparsable names, a registered non-snapshot kind; clock gaps K-1, K, K+1, K/2, 0, 1, backwards, >292 years; newest timestamps at now-R-1, now-R, now-R+1, equal between instances; SetCommitted at ts-1, ts, ts+1 with the caller's map mutated afterwards; failing Deletes; Enabled false; plus syncer.New/LoadOnce/SendOnce in receive-only and normal mode with failing/succeeding Store. distinct = distinct histories; non-trivial = at least one Delete call or a disabled/failing run"}
	var cases []string
	seen := map[string]bool{}
	nontriv := 0
	clRunLiveness(out)
	for i := 0; i < n; i++ {
		g := clPlan(r)
		clExec(g, out)
		clTwin(g.c, out)
		cs := clCoq(g.c)
		cases = append(cases, cs)
		nd, nr := 0, 0
		for _, e := range g.c.Events {
			hist(out.Hist, "event/"+e.Kind)
			nd += len(e.Deletes)
			if e.Kind == "run" {
				nr++
			}
		}
		hist(out.Hist, "flavour/"+g.c.Flavour)
		hist(out.Hist, fmt.Sprintf("deletes/%d", min(nd, 6)))
		hist(out.Hist, fmt.Sprintf("events/%d", len(g.c.Events)))
		if !g.c.Enabled {
			hist(out.Hist, "disabled")
		}
		if !seen[cs] {
			seen[cs] = true
			if nd > 0 || !g.c.Enabled {
				nontriv++
			}
		}
		out.CaseDescs = append(out.CaseDescs, fmt.Sprintf("%+v", g.c))
	}
	// syncer level, all eight combinations
	for k := 0; k < 8; k++ {
		ro, en, ok := k&1 == 1, k&2 == 2, k&4 == 4
		cs, err := clSyncer(ro, en, ok, out)
		if err != nil {
			hist(out.Hist, "syncer-level/skipped: "+err.Error())
			continue
		}
		hist(out.Hist, "syncer-level")
		cases = append(cases, cs)
		out.CaseDescs = append(out.CaseDescs, cs)
		nontriv++
	}
	out.Cases = len(cases)
	out.Distinct = nontriv
	for i := 0; i < 3 && i < len(cases); i++ {
		s := cases[i*len(cases)/3]
		if len(s) > 1500 {
			s = s[:1500] + " ..."
		}
		out.Samples = append(out.Samples, s)
	}
	files, err := writeCases(dir, "cleaner", "From LS Require Import Base.Bytes Cleaner.Model Corr.Obs Corr.Run_cleaner.", "ccase", cases, 150)
	out.Shards = files
	return out, err
}
