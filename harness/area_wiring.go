package main

import (
	"bytes"
	"context"
	"encoding/binary"
	"errors"
	"fmt"
	"io"
	"os"
	"os/exec"
	"path/filepath"
	"sort"
	"strings"
	"sync"
	"time"

	"github.com/PowerDNS/lightningstream/config"
	"github.com/PowerDNS/lightningstream/lmdbenv"
	"github.com/PowerDNS/lightningstream/lmdbenv/header"
	"github.com/PowerDNS/lightningstream/snapshot"
	"github.com/PowerDNS/lightningstream/syncer"
	"github.com/PowerDNS/lightningstream/syncer/cleaner"
	"github.com/PowerDNS/lightningstream/syncer/events"
	"github.com/PowerDNS/lightningstream/syncer/hooks"
	"github.com/PowerDNS/lightningstream/syncer/receiver"
	"github.com/PowerDNS/lightningstream/syncer/sweeper"
	"github.com/PowerDNS/lightningstream/utils"
	"github.com/PowerDNS/lmdb-go/lmdb"
	"github.com/PowerDNS/simpleblob"
	"github.com/PowerDNS/simpleblob/backends/memory"
	"github.com/sirupsen/logrus"
)

// sweeperWiring runs the REAL Sync loop with the tomb sweeper enabled (intervals scaled down to milliseconds) on
// an LMDB that holds an expired deletion marker, a young marker and live entries, in native and in shadow mode;
// in shadow mode the application's own DBI also holds application values whose bytes look like expired markers.
// Within 2 s the expired marker must be gone (C13), and nothing else may change: live entries, young markers, and
// above all the application's DBIs in shadow mode (C13, C03).
func sweeperWiring(out *AreaOut) error {
	for _, native := range []bool{true, false} {
		out.OracleN++
		env, cleanup, err := newEnv()
		if err != nil {
			return err
		}
		now := uint64(time.Now().UnixNano())
		old := now - uint64(49*time.Hour)
		young := now - uint64(time.Hour)
		rec0 := mkStored(old, 3, 0, 0, []byte("v"))             // the application's records are binary, 24 bytes and more
		lookalike1 := mkStored(1000, 7, 1, 0, nil)              // 24 bytes: "timestamp" 1000 ns, "flags" 1
		lookalike2 := mkStored(old, 9, 1, 0, []byte("payload")) // longer record of the same shape
		dataDBI := "app"
		if !native {
			dataDBI = shadowPrefix + "app"
		}
		err = env.Update(func(txn *lmdb.Txn) error {
			d, err := txn.OpenDBI(dataDBI, lmdb.Create)
			if err != nil {
				return err
			}
			for _, kv := range []struct {
				k string
				v []byte
			}{
				{"live", mkStored(old, 1, 0, 0, rec0)},
				{"gone-old", mkStored(old, 1, 1, 0, nil)},
				{"gone-young", mkStored(young, 1, 1, 0, nil)},
				{"rec-1", mkStored(young, 1, 0, 0, lookalike1)},
				{"rec-2", mkStored(young, 1, 0, 0, lookalike2)},
			} {
				if err := txn.Put(d, []byte(kv.k), kv.v, 0); err != nil {
					return err
				}
			}
			if !native {
				a, err := txn.OpenDBI("app", lmdb.Create)
				if err != nil {
					return err
				}
				for _, kv := range []struct {
					k string
					v []byte
				}{{"live", rec0}, {"rec-1", lookalike1}, {"rec-2", lookalike2}} {
					if err := txn.Put(a, []byte(kv.k), kv.v, 0); err != nil {
						return err
					}
				}
			}
			return nil
		})
		if err != nil {
			cleanup()
			return err
		}
		sy, err := newSyncer(env, memory.New(), syncerOpts{Native: native, Mod: func(c *config.Config, lc *config.LMDB) {
			c.LMDBPollInterval = 2 * time.Millisecond
			c.StoragePollInterval = 5 * time.Millisecond
			c.Sweeper = config.Sweeper{Enabled: true, RetentionDays: 1, Interval: 5 * time.Millisecond, FirstInterval: time.Millisecond, LockDuration: 5 * time.Millisecond, ReleaseDuration: time.Millisecond}
		}})
		if err != nil {
			cleanup()
			return err
		}
		ctx, cancel := context.WithCancel(context.Background())
		done := make(chan error, 1)
		go func() { done <- sy.Sync(ctx) }()
		get := func(dbi, key string) (v []byte, ok bool) {
			_ = env.View(func(txn *lmdb.Txn) error {
				d, err := txn.OpenDBI(dbi, 0)
				if err != nil {
					return nil
				}
				b, err := txn.Get(d, []byte(key))
				if err == nil {
					v, ok = append([]byte{}, b...), true
				}
				return nil
			})
			return
		}
		swept := false
		for dl := time.Now().Add(2 * time.Second); time.Now().Before(dl); time.Sleep(10 * time.Millisecond) {
			if _, ok := get(dataDBI, "gone-old"); !ok {
				swept = true
				break
			}
		}
		time.Sleep(40 * time.Millisecond) // a few more passes
		cancel()
		select {
		case <-done:
		case <-time.After(5 * time.Second):
		}
		mode := map[bool]string{true: "native", false: "shadow"}[native]
		in := map[string]any{"native": native, "sweeper": "enabled, retention 1 day, interval 5ms", "marker_age_hours": 49}
		if !swept {
			out.Oracle = append(out.Oracle, OracleFailure{"C13", "loop-sweeper-removes-expired", fmt.Sprintf("%s mode, real Sync loop with the sweeper enabled (interval 5 ms, retention 1 day): a deletion marker 49 h old was still in %s after 2 s", mode, dataDBI), in})
		}
		for _, k := range []string{"live", "gone-young", "rec-1", "rec-2"} {
			if _, ok := get(dataDBI, k); !ok {
				out.Oracle = append(out.Oracle, OracleFailure{"C13", "loop-sweeper-removes-only-expired", fmt.Sprintf("%s mode, real Sync loop with the sweeper enabled: entry %q of %s (not an expired marker) was removed", mode, k, dataDBI), in})
			}
		}
		if !native {
			for _, kv := range []struct {
				k string
				v []byte
			}{{"live", rec0}, {"rec-1", lookalike1}, {"rec-2", lookalike2}} {
				got, ok := get("app", kv.k)
				if !ok || !bytes.Equal(got, kv.v) {
					for _, pid := range []string{"C13", "C03"} {
						out.Oracle = append(out.Oracle, OracleFailure{pid, "sweeper-touches-application-dbi", fmt.Sprintf("shadow mode, real Sync loop with the sweeper enabled: the application's own record %q (value %x, committed before Lightning Stream started, never superseded) is now %x (present=%v)", kv.k, kv.v, got, ok), in})
					}
				}
			}
		}
		cleanup()
		hist(out.Hist, "loop-sweeper-wiring/"+mode)
	}
	return nil
}

// hookReady: the extension hooks of the sync loop (an embedding application feeds additional, non-snapshot updates
// through OtherUpdateSource and decides through InstanceReady when an instance counts as loaded). A restarted
// instance whose own snapshot is in the bucket, with a hook that calls the own instance ready only once the
// update FOLLOWING the snapshot is applied, publishes what its application committed as soon as that update
// has been applied (C09): nothing else is needed.
func hookReady(out *AreaOut) error {
	for _, native := range []bool{true, false} {
		out.OracleN++
		env, cleanup, err := newEnv()
		if err != nil {
			return err
		}
		st := memory.New()
		now := uint64(time.Now().UnixNano())
		if err := applyApp(env, native, now, []appOp{{DBI: "app", Key: []byte("old"), Val: []byte("v")}}); err != nil {
			cleanup()
			return err
		}
		first, err := newSyncer(env, st, syncerOpts{Native: native, Instance: "a"})
		if err != nil {
			cleanup()
			return err
		}
		if _, err := first.SendOnce(context.Background(), env); err != nil {
			cleanup()
			return err
		}
		updCh := make(chan snapshot.Update, 2)
		hk := hooks.New()
		hk.OtherUpdateSource = func() <-chan snapshot.Update { return updCh }
		hk.InstanceReady = func(ni *snapshot.NameInfo) bool { return ni.Kind != snapshot.KindSnapshot }
		sy, err := newSyncer(env, st, syncerOpts{Native: native, Instance: "a", SyncerOpt: syncer.Options{Hooks: hk}, Mod: func(c *config.Config, lc *config.LMDB) {
			c.LMDBPollInterval = 2 * time.Millisecond
			c.StoragePollInterval = 3 * time.Millisecond
		}})
		if err != nil {
			cleanup()
			return err
		}
		ctx, cancel := context.WithCancel(context.Background())
		done := make(chan error, 1)
		go func() { done <- sy.Sync(ctx) }()
		time.Sleep(60 * time.Millisecond) // the own snapshot has been merged by now; the hook said "not ready yet"
		_ = applyApp(env, native, uint64(time.Now().UnixNano()), []appOp{{DBI: "app", Key: []byte("hook"), Val: []byte("w")}})
		time.Sleep(30 * time.Millisecond)
		before, _ := st.List(context.Background(), "")
		updCh <- snapshot.Update{
			Snapshot: &snapshot.Snapshot{FormatVersion: 3, CompatVersion: 1, Meta: snapshot.Meta{DatabaseName: dbName, InstanceID: "a"}},
			NameInfo: snapshot.NameInfo{Kind: "delta", InstanceID: "a", SyncerName: dbName, Timestamp: time.Now()},
		}
		published := false
		for dl := time.Now().Add(3 * time.Second); time.Now().Before(dl) && !published; time.Sleep(10 * time.Millisecond) {
			ls, _ := st.List(context.Background(), "")
			names := ls.Names()
			sort.Strings(names)
			if len(names) > len(before) {
				if blob, err := st.Load(context.Background(), names[len(names)-1]); err == nil {
					if sn, err := snapshot.LoadData(blob); err == nil {
						ds, _ := decodeSnapDBIs(sn)
						for _, d := range ds {
							for _, e := range d.Entries {
								if d.Name == "app" && string(e.Key) == "hook" {
									published = true
								}
							}
						}
					}
				}
			}
		}
		cancel()
		select {
		case <-done:
		case <-time.After(5 * time.Second):
		}
		cleanup()
		hist(out.Hist, fmt.Sprintf("hook-ready-by-following-update/native=%v", native))
		if !published {
			out.Oracle = append(out.Oracle, OracleFailure{"C09", "published-once-hook-says-ready", fmt.Sprintf("native=%v: restarted instance with its own snapshot in the bucket, hooks.InstanceReady accepts the own instance on the first NON-snapshot update (delivered through hooks.OtherUpdateSource and applied): the application's commit made meanwhile was in no uploaded snapshot 3 s later", native), map[string]any{"native": native}})
		}
	}
	return nil
}

// sweeperIntegerKeys: the real Sweeper on DBIs whose key order is NOT the byte order (MDB_INTEGERKEY: native
// application DBIs, and the shadow DBIs of integer-key application DBIs), large enough for several write-lock
// slices (LockDuration 1 ns: the limit trips at every 1000th record): every expired marker goes, nothing else.
func sweeperIntegerKeys(out *AreaOut) error {
	for _, native := range []bool{true, false} {
		for _, n := range []int{2500, 3500} {
			out.OracleN++
			env, cleanup, err := swNewEnv()
			if err != nil {
				return err
			}
			name := "ints"
			if !native {
				name = shadowPrefix + "ints"
			}
			now := uint64(time.Now().UnixNano())
			expired, young := now-uint64(49*time.Hour), now-uint64(time.Hour)
			kind := func(i int) int { return (i*7 + i/1000) % 3 }
			err = env.Update(func(txn *lmdb.Txn) error {
				dbi, err := txn.OpenDBI(name, lmdb.Create|lmdb.IntegerKey)
				if err != nil {
					return err
				}
				for i := 0; i < n; i++ {
					k := make([]byte, 4)
					binary.LittleEndian.PutUint32(k, uint32(i*3+1))
					var v []byte
					switch kind(i) {
					case 0:
						v = swVal(expired-uint64(i%5), 1, nil)
					case 1:
						v = swVal(young+uint64(i%5), 1, nil)
					default:
						v = swVal(expired, 0, []byte("live"))
					}
					if err := txn.Put(dbi, k, v, 0); err != nil {
						return err
					}
				}
				return nil
			})
			if err != nil {
				cleanup()
				return err
			}
			sw := sweeper.New("verif-ints", config.Sweeper{Enabled: true, RetentionDays: 1, LockDuration: 1, ReleaseDuration: time.Millisecond}, env, swLogger, native)
			ctx, cancel := context.WithTimeout(context.Background(), 30*time.Second)
			serr := sw.VerifSweepOnce(ctx)
			cancel()
			left, wrong := 0, ""
			_ = env.View(func(txn *lmdb.Txn) error {
				dbi, err := txn.OpenDBI(name, 0)
				if err != nil {
					wrong = "DBI gone"
					return nil
				}
				for i := 0; i < n; i++ {
					k := make([]byte, 4)
					binary.LittleEndian.PutUint32(k, uint32(i*3+1))
					_, err := txn.Get(dbi, k)
					switch {
					case kind(i) == 0 && err == nil:
						left++
					case kind(i) != 0 && err != nil && wrong == "":
						wrong = fmt.Sprintf("entry %d (not an expired marker) is gone", i*3+1)
					}
				}
				return nil
			})
			cleanup()
			hist(out.Hist, fmt.Sprintf("integer-key-dbi/native=%v/records=%d", native, n))
			in := map[string]any{"native": native, "records": n, "dbi": name, "flags": "MDB_INTEGERKEY", "lock_duration": "1ns"}
			if serr == nil && left > 0 {
				out.Oracle = append(out.Oracle, OracleFailure{"C13", "removes-every-expired-marker", fmt.Sprintf("integer-key DBI %s with %d records, pass of several slices ended without error: %d deletion markers 49 h old (retention 1 day) are still there", name, n, left), in})
			}
			if wrong != "" {
				out.Oracle = append(out.Oracle, OracleFailure{"C13", "removes-nothing-else", fmt.Sprintf("integer-key DBI %s with %d records: %s", name, n, wrong), in})
			}
		}
	}
	return nil
}

// ---- receiver: an instance that vanishes while its downloader is retrying, and comes back at once ----

type holdLoadStore struct {
	simpleblob.Interface
	hold    string
	started chan struct{}
	release chan struct{}
	once    sync.Once
}

func (s *holdLoadStore) Load(ctx context.Context, name string) ([]byte, error) {
	if name == s.hold {
		s.once.Do(func() { close(s.started) })
		select {
		case <-s.release:
		case <-ctx.Done():
			return nil, ctx.Err()
		}
		return nil, os.ErrNotExist // cleaned between listing and download
	}
	return s.Interface.Load(ctx, name)
}

// pauseAtLog parks the goroutine that logs a message containing substr (first time only): the log call is used
// as a scheduling point of the downloader goroutine
type pauseAtLog struct {
	substr  string
	reached chan struct{}
	release chan struct{}
	once    sync.Once
}

func (h *pauseAtLog) Levels() []logrus.Level { return logrus.AllLevels }
func (h *pauseAtLog) Fire(e *logrus.Entry) error {
	if strings.Contains(e.Message, h.substr) {
		first := false
		h.once.Do(func() { first = true })
		if first {
			close(h.reached)
			select {
			case <-h.release:
			case <-time.After(10 * time.Second):
			}
		}
	}
	return nil
}

// receiverReappear (C16): instance "o" has one snapshot S1; its download is in flight when S1 is cleaned and a
// listing finds the instance gone; the download fails, the downloader looks again and finds nothing to do — and
// exactly then the instance publishes S2 and a listing notifies the downloader on record. S2 is the newest
// snapshot of "o": it reaches the merge loop, whatever the downloader was doing at that moment.
func receiverReappear(out *AreaOut) {
	out.OracleN++
	ctx, cancel := context.WithCancel(context.Background())
	defer cancel()
	ts := time.Date(2024, 1, 2, 3, 4, 5, 0, time.UTC)
	s1 := snapshot.Name(dbName, "o", "GX", ts)
	s2 := snapshot.Name(dbName, "o", "GX", ts.Add(time.Minute))
	data, _, err := snapshot.DumpData(&snapshot.Snapshot{FormatVersion: 3, CompatVersion: 1})
	if err != nil {
		return
	}
	mem := memory.New()
	st := &holdLoadStore{Interface: mem, hold: s1, started: make(chan struct{}), release: make(chan struct{})}
	hook := &pauseAtLog{substr: "no longer has any snapshots", reached: make(chan struct{}), release: make(chan struct{})}
	l := logrus.New()
	l.SetOutput(io.Discard)
	l.AddHook(hook)
	r := receiver.New(st, config.Config{StoragePollInterval: time.Hour, StorageRetryInterval: 2 * time.Millisecond, MemoryDownloadedSnapshots: 2, MemoryDecompressedSnapshots: 2},
		dbName, l, "self", events.New(), hooks.New())
	wait := func(ch <-chan struct{}) bool {
		select {
		case <-ch:
			return true
		case <-time.After(5 * time.Second):
			return false
		}
	}
	_ = mem.Store(ctx, s1, data)
	if r.RunOnce(ctx, true) != nil || !wait(st.started) {
		hist(out.Hist, "receiver-reappear/not-reached")
		return
	}
	_ = mem.Delete(ctx, s1)
	_ = r.RunOnce(ctx, false)
	close(st.release)
	if !wait(hook.reached) {
		// the downloader did not look again (or does not say so): the schedule this scenario is about did not arise
		close(hook.release)
		hist(out.Hist, "receiver-reappear/not-reached")
		return
	}
	// from here on the downloader goroutine is parked inside its "nothing to do" branch: everybody else (the
	// polling loop's RunOnce, the sync loop's Next / SeenInstances) must still get through (C17)
	within := func(f func()) bool {
		ch := make(chan struct{})
		go func() { f(); close(ch) }()
		select {
		case <-ch:
			return true
		case <-time.After(3 * time.Second):
			return false
		}
	}
	_ = mem.Store(ctx, s2, data)
	if !within(func() { _ = r.RunOnce(ctx, false); _ = r.SeenInstances() }) {
		close(hook.release)
		out.Oracle = append(out.Oracle, OracleFailure{"C17", "receiver-blocked-by-idle-downloader", "a downloader that found its instance gone and has nothing to do keeps the receiver's mutex: RunOnce / SeenInstances (the polling loop and the sync loop) did not return within 3 s", map[string]any{"s1": s1}})
		hist(out.Hist, "receiver-reappear/blocked")
		return
	}
	close(hook.release)
	delivered := false
	for dl := time.Now().Add(3 * time.Second); time.Now().Before(dl) && !delivered; {
		var inst string
		var u snapshot.Update
		if !within(func() { inst, u = r.Next() }) {
			out.Oracle = append(out.Oracle, OracleFailure{"C17", "receiver-blocked-by-idle-downloader", "Receiver.Next did not return within 3 s after a downloader found its instance gone", map[string]any{"s1": s1}})
			hist(out.Hist, "receiver-reappear/blocked")
			return
		}
		if inst != "" {
			delivered = inst == "o" && u.NameInfo.FullName == s2
			u.Close()
			break
		}
		time.Sleep(10 * time.Millisecond)
		if !within(func() { _ = r.RunOnce(ctx, false) }) { // Receiver.Run keeps listing; the bucket does not change any more
			out.Oracle = append(out.Oracle, OracleFailure{"C17", "receiver-blocked-by-idle-downloader", "Receiver.RunOnce did not return within 3 s after a downloader found its instance gone", map[string]any{"s1": s1}})
			hist(out.Hist, "receiver-reappear/blocked")
			return
		}
	}
	hist(out.Hist, "receiver-reappear/evaluated")
	if !delivered {
		out.Oracle = append(out.Oracle, OracleFailure{"C16", "reappearing-instance-delivered", "instance o: snapshot S1 cleaned while its download was in flight, a listing finds the instance gone, the download fails and the downloader finds nothing to do; at that moment the instance publishes S2 and a listing notifies the downloader on record: S2, the newest snapshot of o, was not handed to the merge loop within 3 s of further listings", map[string]any{"s1": s1, "s2": s2}})
	}
}

// corruptBlobsOnRealLoops: undecodable blobs in the bucket while the REAL sync loop runs (real receiver, real
// downloaders, memory limits of 1).
//
//	(a) daemon mode: peer b has a valid snapshot A (merged), then a NEWER undecodable blob B (ignored; the
//	    receiver falls back to A and offers it again), then a newer valid snapshot C: C is merged (C16, C08);
//	    repeated three times, so a token lost per fallback would exhaust the limit.
//	(b) only_once: b has a valid snapshot and a newer undecodable blob, c has only an undecodable blob: the run
//	    merges b's valid snapshot and RETURNS by itself (C08: a corrupt blob does not block; C16: run-once ends).
func corruptBlobsOnRealLoops(out *AreaOut) error {
	mkSnap := func(inst string, ts time.Time, key, val string) (string, []byte) {
		d := snapshot.NewDBI()
		d.SetName("app")
		d.Append(snapshot.KV{Key: []byte(key), Value: []byte(val), TimestampNano: uint64(ts.UnixNano())})
		sn := &snapshot.Snapshot{FormatVersion: 3, CompatVersion: 1, Meta: snapshot.Meta{DatabaseName: dbName, InstanceID: inst, TimestampNano: uint64(ts.UnixNano())}, Databases: []*snapshot.DBI{d}}
		data, _, _ := snapshot.DumpData(sn)
		return snapshot.Name(dbName, inst, "GX", ts), data
	}
	hasKey := func(env *lmdb.Env, key string) bool {
		found := false
		_ = env.View(func(txn *lmdb.Txn) error {
			d, err := txn.OpenDBI("app", 0)
			if err != nil {
				return nil
			}
			_, err = txn.Get(d, []byte(key))
			found = err == nil
			return nil
		})
		return found
	}
	waitKey := func(env *lmdb.Env, key string, d time.Duration) bool {
		for dl := time.Now().Add(d); time.Now().Before(dl); time.Sleep(5 * time.Millisecond) {
			if hasKey(env, key) {
				return true
			}
		}
		return false
	}
	garbage := []byte("this is not a gzip stream")
	ctx0 := context.Background()
	base := time.Now().Add(-time.Hour)
	// (a)
	{
		out.OracleN++
		env, cleanup, err := newEnv()
		if err != nil {
			return err
		}
		st := memory.New()
		sy, err := newSyncer(env, st, syncerOpts{Native: true, Instance: "a", Mod: func(c *config.Config, lc *config.LMDB) {
			c.LMDBPollInterval = 2 * time.Millisecond
			c.StoragePollInterval = 3 * time.Millisecond
			c.StorageRetryInterval = 2 * time.Millisecond
			c.MemoryDownloadedSnapshots = 1
			c.MemoryDecompressedSnapshots = 1
		}})
		if err != nil {
			cleanup()
			return err
		}
		ctx, cancel := context.WithCancel(ctx0)
		done := make(chan error, 1)
		go func() { done <- sy.Sync(ctx) }()
		bad := ""
		{
			// a perfectly decodable snapshot whose METADATA strings are not valid UTF-8 (protobuf strings are not
			// validated by the decoder): merged like any other; nothing may choke on the strings (labels, logs)
			nD, dD := wiringSnap("d", base, "fromd", "v", "\xff\xfe-host")
			_ = st.Store(ctx0, nD, dD)
			if !waitKey(env, "fromd", 3*time.Second) {
				bad = "a decodable snapshot of instance d whose metadata strings are invalid UTF-8 was not merged within 3 s"
			}
		}
		for round := 0; round < 3 && bad == ""; round++ {
			t := base.Add(time.Duration(round) * time.Minute)
			nA, dA := mkSnap("b", t, fmt.Sprintf("a%d", round), "v")
			_ = st.Store(ctx0, nA, dA)
			if !waitKey(env, fmt.Sprintf("a%d", round), 3*time.Second) {
				bad = fmt.Sprintf("round %d: the valid snapshot %s of instance b was not merged within 3 s", round, nA)
				break
			}
			nB, _ := mkSnap("b", t.Add(10*time.Second), "x", "x")
			_ = st.Store(ctx0, nB, garbage)
			time.Sleep(40 * time.Millisecond) // the blob is downloaded, found undecodable and ignored; the receiver falls back
			nC, dC := mkSnap("b", t.Add(20*time.Second), fmt.Sprintf("c%d", round), "v")
			_ = st.Store(ctx0, nC, dC)
			if !waitKey(env, fmt.Sprintf("c%d", round), 3*time.Second) {
				bad = fmt.Sprintf("round %d: after the undecodable blob %s, the newer valid snapshot %s of instance b was not merged within 3 s (memory limits: 1 downloaded, 1 decompressed)", round, nB, nC)
			}
		}
		cancel()
		select {
		case <-done:
		case <-time.After(5 * time.Second):
		}
		cleanup()
		hist(out.Hist, "corrupt-blob/daemon")
		if bad != "" {
			for _, pid := range []string{"C16", "C08"} {
				out.Oracle = append(out.Oracle, OracleFailure{pid, "newest-decodable-merged-after-corrupt-blob", "real sync loop: " + bad, nil})
			}
		}
	}
	// (b)
	for _, native := range []bool{true, false} {
		out.OracleN++
		env, cleanup, err := newEnv()
		if err != nil {
			return err
		}
		st := memory.New()
		nA, dA := mkSnap("b", base, "fromb", "v")
		_ = st.Store(ctx0, nA, dA)
		nB, _ := mkSnap("b", base.Add(time.Minute), "x", "x")
		_ = st.Store(ctx0, nB, garbage)
		nC, _ := mkSnap("c", base, "x", "x")
		_ = st.Store(ctx0, nC, garbage)
		sy, err := newSyncer(env, st, syncerOpts{Native: native, Instance: "a", Mod: func(c *config.Config, lc *config.LMDB) {
			c.OnlyOnce = true
			c.LMDBPollInterval = 2 * time.Millisecond
			c.StoragePollInterval = 3 * time.Millisecond
			c.StorageRetryInterval = 2 * time.Millisecond
		}})
		if err != nil {
			cleanup()
			return err
		}
		ctx, cancel := context.WithCancel(ctx0)
		done := make(chan error, 1)
		go func() { done <- sy.Sync(ctx) }()
		returned := false
		select {
		case <-done:
			returned = true
		case <-time.After(6 * time.Second):
		}
		merged := hasKey(env, "fromb")
		if !native {
			merged = false
			_ = env.View(func(txn *lmdb.Txn) error {
				d, err := txn.OpenDBI(shadowPrefix+"app", 0)
				if err != nil {
					return nil
				}
				_, err = txn.Get(d, []byte("fromb"))
				merged = err == nil
				return nil
			})
		}
		cancel()
		if !returned {
			select {
			case <-done:
			case <-time.After(5 * time.Second):
			}
		}
		cleanup()
		hist(out.Hist, fmt.Sprintf("corrupt-blob/only-once/native=%v", native))
		switch {
		case !returned:
			for _, pid := range []string{"C08", "C16"} {
				out.Oracle = append(out.Oracle, OracleFailure{pid, "only-once-ends-despite-corrupt-blobs", fmt.Sprintf("native=%v: only_once run on a bucket where instance b has a valid snapshot and a newer undecodable blob and instance c has only an undecodable blob: Sync had not returned after 6 s (b's valid snapshot merged: %v)", native, merged), nil})
			}
		case !merged:
			for _, pid := range []string{"C08", "C16"} {
				out.Oracle = append(out.Oracle, OracleFailure{pid, "newest-decodable-merged-after-corrupt-blob", fmt.Sprintf("native=%v: only_once run returned, but the newest DECODABLE snapshot of instance b (an older one; the newest blob is undecodable) was not merged", native), nil})
			}
		}
	}
	return nil
}

// sweeperInsertsAhead: the application inserts records AHEAD of the sweeper's position while the sweeper pauses
// between two write-lock slices (the pause is taken through the verif yield hook of the sweeper, so the schedule
// is exact): the pass still reaches the end of the DBI, and every expired marker the application did not touch
// is gone when it ends (C13).
func sweeperInsertsAhead(out *AreaOut) error {
	for _, native := range []bool{true, false} {
		out.OracleN++
		env, cleanup, err := swNewEnv()
		if err != nil {
			return err
		}
		name := "big"
		if !native {
			name = shadowPrefix + "big"
		}
		now := uint64(time.Now().UnixNano())
		expired := swVal(now-uint64(49*time.Hour), 1, nil)
		const n0 = 1500
		err = env.Update(func(txn *lmdb.Txn) error {
			dbi, err := txn.OpenDBI(name, lmdb.Create)
			if err != nil {
				return err
			}
			for i := 0; i < n0; i++ {
				if err := txn.Put(dbi, []byte(fmt.Sprintf("k%06d", i)), expired, 0); err != nil {
					return err
				}
			}
			return nil
		})
		if err != nil {
			cleanup()
			return err
		}
		pauses := 0
		sweeper.VerifSetYield(func(point string) {
			if point != "slice" {
				return
			}
			pauses++
			if pauses == 1 {
				_ = env.Update(func(txn *lmdb.Txn) error {
					dbi, err := txn.OpenDBI(name, 0)
					if err != nil {
						return err
					}
					for j := 0; j < 600; j++ { // live records between k001000 and k001300: ahead of the scan position
						if err := txn.Put(dbi, []byte(fmt.Sprintf("k%06d+%d", 1000+j/2, j%2)), swVal(now, 0, []byte("inserted")), 0); err != nil {
							return err
						}
					}
					return nil
				})
			}
		})
		sw := sweeper.New("verif-ahead", config.Sweeper{Enabled: true, RetentionDays: 1, LockDuration: 1, ReleaseDuration: time.Millisecond}, env, swLogger, native)
		ctx, cancel := context.WithTimeout(context.Background(), 30*time.Second)
		serr := sw.VerifSweepOnce(ctx)
		cancel()
		sweeper.VerifSetYield(nil)
		left, inserted := 0, 0
		_ = env.View(func(txn *lmdb.Txn) error {
			dbi, err := txn.OpenDBI(name, 0)
			if err != nil {
				return nil
			}
			ps, _ := dumpDBI(txn, dbi)
			for _, p := range ps {
				if bytes.Equal(p.V, expired) {
					left++
				} else {
					inserted++
				}
			}
			return nil
		})
		cleanup()
		hist(out.Hist, fmt.Sprintf("inserts-ahead-of-the-sweeper/native=%v/pauses=%d", native, min(pauses, 3)))
		in := map[string]any{"native": native, "records": n0, "inserted_in_first_pause": 600}
		if serr == nil && left > 0 {
			out.Oracle = append(out.Oracle, OracleFailure{"C13", "removes-every-expired-marker", fmt.Sprintf("DBI %s: 1500 expired markers, the application inserts 600 live records ahead of the sweeper during its first pause; the pass ended without error and %d expired markers it never touched are still there", name, left), in})
		}
		if inserted != 600 && pauses >= 1 {
			out.Oracle = append(out.Oracle, OracleFailure{"C13", "removes-nothing-else", fmt.Sprintf("DBI %s: %d of the 600 live records the application inserted are left", name, inserted), in})
		}
	}
	return nil
}

// ---- a zero-length stored value at the very end of the data file (child process: the failure is a SIGBUS) ----

func init() { areas["eof-value-child"] = areaEOFValueChild }

// areaEOFValueChild (hidden): one LMDB whose only application entry has a zero-length value (the last node of the
// last page of the data file), then one SendOnce. Mode from EOF_CHILD_MODE = native | shadow. Exit code 0 = SendOnce
// returned (with or without an error); the parent looks at how the process ended.
func areaEOFValueChild(r *Rng, n int, dir string) (*AreaOut, error) {
	native := os.Getenv("EOF_CHILD_MODE") == "native"
	env, cleanup, err := newEnv()
	if err != nil {
		return nil, err
	}
	defer cleanup()
	err = env.Update(func(txn *lmdb.Txn) error {
		d, err := txn.OpenDBI("app", lmdb.Create)
		if err != nil {
			return err
		}
		return txn.Put(d, []byte("a\x00"), []byte{}, 0)
	})
	if err != nil {
		return nil, err
	}
	sy, err := newSyncer(env, memory.New(), syncerOpts{Native: native, Instance: "a"})
	if err != nil {
		return nil, err
	}
	_, serr := sy.SendOnce(context.Background(), env)
	fmt.Printf("eof-value-child native=%v SendOnce returned: %v\n", native, serr)
	return &AreaOut{Hist: map[string]int{}}, nil
}

// eofValueProbe runs the child for both modes. Shadow mode: the empty value is application data and must be dumped
// (C06, C11; defect F14, repaired). Native mode: a zero-length value has no header and must be REJECTED WITH AN
// ERROR (C14) — on the current code the process dies instead (known finding, see KNOWN_FINDINGS.txt).
func eofValueProbe(out *AreaOut, dir string) {
	exe, err := os.Executable()
	if err != nil {
		return
	}
	for _, mode := range []string{"shadow", "native"} {
		out.OracleN++
		cctx, ccancel := context.WithTimeout(context.Background(), 60*time.Second)
		cmd := exec.CommandContext(cctx, exe, "eof-value-child", "-out", filepath.Join(dir, "eof_child_"+mode))
		cmd.Env = append(os.Environ(), "EOF_CHILD_MODE="+mode)
		var buf bytes.Buffer
		cmd.Stdout, cmd.Stderr = &buf, &buf
		rerr := cmd.Run()
		ccancel()
		os.RemoveAll(filepath.Join(dir, "eof_child_"+mode))
		o := buf.String()
		died := rerr != nil && (strings.Contains(o, "SIGBUS") || strings.Contains(o, "SIGSEGV") || strings.Contains(o, "fatal error"))
		hist(out.Hist, fmt.Sprintf("zero-length-value-at-end-of-file/%s/died=%v", mode, died))
		switch {
		case mode == "shadow" && died:
			for _, pid := range []string{"C06", "C11"} {
				out.Oracle = append(out.Oracle, OracleFailure{pid, "empty-value-at-end-of-file-kills-the-process", "shadow mode, application DBI whose only entry (key 6100) has a zero-length value: SendOnce killed the process: " + firstLine(o), map[string]any{"mode": mode}})
			}
		case mode == "shadow" && !strings.Contains(o, "SendOnce returned: <nil>"):
			out.Oracle = append(out.Oracle, OracleFailure{"C06", "empty-value-dumped", "shadow mode, application DBI whose only entry has a zero-length value: SendOnce did not succeed: " + firstLine(o), map[string]any{"mode": mode}})
		case mode == "native" && died:
			out.Oracle = append(out.Oracle, OracleFailure{"C14", "zero-length-native-value-at-end-of-file", "native schema, a DBI whose only entry (key 6100) has a ZERO-LENGTH value (no header: must be rejected with an error): SendOnce killed the process instead: " + firstLine(o), map[string]any{"mode": mode}})
		case mode == "native" && strings.Contains(o, "SendOnce returned: <nil>"):
			out.Oracle = append(out.Oracle, OracleFailure{"C14", "too-short-rejected", "native schema, a stored zero-length value (no header) was dumped without an error", map[string]any{"mode": mode}})
		}
	}
}

func firstLine(s string) string {
	for _, l := range strings.Split(s, "\n") {
		if strings.Contains(l, "signal") || strings.Contains(l, "fatal") || strings.Contains(l, "returned") {
			return l
		}
	}
	if len(s) > 200 {
		return s[:200]
	}
	return s
}

// boundarySizesSend (C06, oracle only: too large for the model's literals): SendOnce on an LMDB whose values have
// lengths around the varint boundaries of the snapshot encoding (127/128, 16383/16384, with and without the 24-byte
// header counted): the uploaded snapshot decodes, and every entry carries exactly the stored value.
func boundarySizesSend(out *AreaOut) error {
	sizes := []int{0, 1, 103, 104, 127, 128, 129, 16359, 16360, 16361, 16383, 16384, 16385, 20000}
	for _, native := range []bool{true, false} {
		out.OracleN++
		env, cleanup, err := newEnv()
		if err != nil {
			return err
		}
		var ops []appOp
		for _, n := range sizes {
			if n == 0 && !native {
				continue // empty application values in shadow mode: F6 / F14 have their own probes
			}
			ops = append(ops, appOp{DBI: "app", Key: []byte(fmt.Sprintf("k%05d", n)), Val: bytes.Repeat([]byte{byte('a' + n%26)}, n)})
		}
		if err := applyApp(env, native, uint64(time.Now().UnixNano()), ops); err != nil {
			cleanup()
			return err
		}
		st := memory.New()
		sy, err := newSyncer(env, st, syncerOpts{Native: native, Instance: "a"})
		if err != nil {
			cleanup()
			return err
		}
		bad := ""
		if _, err := sy.SendOnce(context.Background(), env); err != nil {
			bad = "SendOnce failed: " + err.Error()
		} else {
			ls, _ := st.List(context.Background(), "")
			names := ls.Names()
			sort.Strings(names)
			blob, _ := st.Load(context.Background(), names[len(names)-1])
			sn, err := snapshot.LoadData(blob)
			if err != nil {
				bad = "the uploaded snapshot does not decode: " + err.Error()
			} else {
				ds, derr := decodeSnapDBIs(sn)
				got := map[string][]byte{}
				for _, d := range ds {
					if d.Name == "app" {
						for _, e := range d.Entries {
							got[string(e.Key)] = e.Value
						}
					}
				}
				if derr != nil {
					bad = "reading the entries of the uploaded snapshot failed: " + derr.Error()
				}
				for _, o := range ops {
					if v, ok := got[string(o.Key)]; bad == "" && (!ok || !bytes.Equal(v, o.Val)) {
						bad = fmt.Sprintf("entry %s: stored value of %d bytes, the snapshot has present=%v with %d bytes", o.Key, len(o.Val), ok, len(v))
					}
				}
			}
		}
		cleanup()
		hist(out.Hist, fmt.Sprintf("boundary-value-sizes/native=%v", native))
		if bad != "" {
			for _, pid := range []string{"C06", "C07"} {
				out.Oracle = append(out.Oracle, OracleFailure{pid, "value-lengths-at-varint-boundaries", fmt.Sprintf("native=%v, values of %v bytes: %s", native, sizes, bad), map[string]any{"native": native}})
			}
		}
	}
	return nil
}

// ---- more scenarios on the real receiver / real loop (round 8) ----

type flakyListStore struct {
	simpleblob.Interface
	mu        sync.Mutex
	failLists []error // errors for the next List calls (one each)
	loadDelay map[string]time.Duration
	lists     int
}

func (s *flakyListStore) List(ctx context.Context, prefix string) (simpleblob.BlobList, error) {
	s.mu.Lock()
	s.lists++
	if len(s.failLists) > 0 {
		err := s.failLists[0]
		s.failLists = s.failLists[1:]
		s.mu.Unlock()
		return nil, err
	}
	s.mu.Unlock()
	return s.Interface.List(ctx, prefix)
}

func (s *flakyListStore) Load(ctx context.Context, name string) ([]byte, error) {
	s.mu.Lock()
	var d time.Duration
	for p, v := range s.loadDelay {
		if strings.HasPrefix(name, p) {
			d = v
		}
	}
	s.mu.Unlock()
	if d > 0 {
		select {
		case <-time.After(d):
		case <-ctx.Done():
			return nil, ctx.Err()
		}
	}
	return s.Interface.Load(ctx, name)
}

func wiringSnap(inst string, ts time.Time, key, val string, metaInst string) (string, []byte) {
	d := snapshot.NewDBI()
	d.SetName("app")
	d.Append(snapshot.KV{Key: []byte(key), Value: []byte(val), TimestampNano: uint64(ts.UnixNano())})
	sn := &snapshot.Snapshot{FormatVersion: 3, CompatVersion: 1, Meta: snapshot.Meta{DatabaseName: dbName, InstanceID: metaInst, Hostname: metaInst, TimestampNano: uint64(ts.UnixNano())}, Databases: []*snapshot.DBI{d}}
	data, _, _ := snapshot.DumpData(sn)
	return snapshot.Name(dbName, inst, "GX", ts), data
}

func envHasKey(env *lmdb.Env, dbi, key string) bool {
	found := false
	_ = env.View(func(txn *lmdb.Txn) error {
		d, err := txn.OpenDBI(dbi, 0)
		if err != nil {
			return nil
		}
		_, err = txn.Get(d, []byte(key))
		found = err == nil
		return nil
	})
	return found
}

// receiverRunSurvivesListErrors (C16): the polling loop of the receiver keeps polling after a listing that failed
// with whatever error the storage client produced — also one that wraps a deadline / cancellation of the CLIENT's
// own request while the receiver's context is alive: a snapshot published afterwards is delivered.
func receiverRunSurvivesListErrors(out *AreaOut) {
	for _, lerr := range []error{errors.New("connection reset"), fmt.Errorf("list objects: %w", context.DeadlineExceeded), fmt.Errorf("request: %w", context.Canceled)} {
		out.OracleN++
		st := &flakyListStore{Interface: memory.New()}
		l := logrus.New()
		l.SetOutput(io.Discard)
		r := receiver.New(st, config.Config{StoragePollInterval: 3 * time.Millisecond, StorageRetryInterval: 2 * time.Millisecond, MemoryDownloadedSnapshots: 2, MemoryDecompressedSnapshots: 2},
			dbName, l, "self", events.New(), hooks.New())
		ctx, cancel := context.WithCancel(context.Background())
		done := make(chan error, 1)
		go func() { done <- r.Run(ctx) }()
		time.Sleep(20 * time.Millisecond)
		st.mu.Lock()
		st.failLists = []error{lerr}
		st.mu.Unlock()
		time.Sleep(30 * time.Millisecond)
		name, data := wiringSnap("b", time.Now().Add(-time.Minute), "k", "v", "b")
		_ = st.Interface.Store(context.Background(), name, data)
		delivered := false
		for dl := time.Now().Add(3 * time.Second); time.Now().Before(dl) && !delivered; time.Sleep(5 * time.Millisecond) {
			if inst, u := r.Next(); inst != "" {
				delivered = inst == "b"
				u.Close()
			}
		}
		returned := false
		select {
		case <-done:
			returned = true
		default:
		}
		cancel()
		hist(out.Hist, "receiver-run-after-list-error")
		if !delivered {
			out.Oracle = append(out.Oracle, OracleFailure{"C16", "polling-survives-listing-errors", fmt.Sprintf("Receiver.Run: one List call failed with %q (the receiver's own context alive); a snapshot published afterwards was not delivered within 3 s (Run had returned: %v)", lerr, returned), map[string]any{"error": lerr.Error()}})
		}
	}
}

// deltaBeforeSnapshot (C16): run-once, no InstanceReady hook; an embedding application feeds a NON-snapshot update
// for instance b through OtherUpdateSource while b's start-up snapshot is still being downloaded: the run does not
// end before that snapshot has been merged.
func deltaBeforeSnapshot(out *AreaOut) error {
	out.OracleN++
	env, cleanup, err := newEnv()
	if err != nil {
		return err
	}
	defer cleanup()
	base := time.Now().Add(-time.Hour)
	mem := memory.New()
	name, data := wiringSnap("b", base, "fromb", "v", "b")
	_ = mem.Store(context.Background(), name, data)
	st := &flakyListStore{Interface: mem, loadDelay: map[string]time.Duration{dbName + "__b__": 400 * time.Millisecond}}
	updCh := make(chan snapshot.Update, 2)
	hk := hooks.New()
	hk.OtherUpdateSource = func() <-chan snapshot.Update { return updCh }
	sy, err := newSyncer(env, st, syncerOpts{Native: true, Instance: "a", SyncerOpt: syncer.Options{Hooks: hk}, Mod: func(c *config.Config, lc *config.LMDB) {
		c.OnlyOnce = true
		c.LMDBPollInterval = 2 * time.Millisecond
		c.StoragePollInterval = 3 * time.Millisecond
	}})
	if err != nil {
		return err
	}
	updCh <- snapshot.Update{
		Snapshot: &snapshot.Snapshot{FormatVersion: 3, CompatVersion: 1, Meta: snapshot.Meta{DatabaseName: dbName, InstanceID: "b"}},
		NameInfo: snapshot.NameInfo{Kind: "delta", InstanceID: "b", SyncerName: dbName, Timestamp: base.Add(time.Second)},
	}
	ctx, cancel := context.WithCancel(context.Background())
	defer cancel()
	done := make(chan error, 1)
	go func() { done <- sy.Sync(ctx) }()
	select {
	case <-done:
	case <-time.After(6 * time.Second):
		hist(out.Hist, "delta-before-snapshot/not-returned")
		out.Oracle = append(out.Oracle, OracleFailure{"C16", "once-exits", "only_once with a delta update fed through OtherUpdateSource: Sync had not returned after 6 s", nil})
		return nil
	}
	hist(out.Hist, "delta-before-snapshot/returned")
	if !envHasKey(env, "app", "fromb") {
		out.Oracle = append(out.Oracle, OracleFailure{"C16", "run-once-not-earlier", "only_once, no InstanceReady hook: a non-snapshot update for instance b arrived through OtherUpdateSource while b's start-up snapshot was still downloading (400 ms); Sync returned WITHOUT having merged that snapshot", nil})
	}
	return nil
}

// ownNewestCorrupt (C05): the instance's own name has an older decodable snapshot (with key k1) and a NEWER
// undecodable one; the instance restarts with an emptied LMDB, its application writes; listings after the start-up
// one are slow (so the loop runs many passes between "marked corrupt" and the next listing). Every snapshot this
// process uploads contains k1: nothing is uploaded before the own newest DECODABLE snapshot is merged.
func ownNewestCorrupt(out *AreaOut) error {
	for _, native := range []bool{true, false} {
		out.OracleN++
		env, cleanup, err := newEnv()
		if err != nil {
			return err
		}
		base := time.Now().Add(-time.Hour)
		mem := memory.New()
		n1, d1 := wiringSnap("a", base, "k1", "v", "a")
		_ = mem.Store(context.Background(), n1, d1)
		n2, _ := wiringSnap("a", base.Add(time.Minute), "x", "x", "a")
		_ = mem.Store(context.Background(), n2, []byte("not a gzip stream"))
		st := &slowLaterLists{Interface: mem, delay: 250 * time.Millisecond}
		_ = applyApp(env, native, uint64(time.Now().UnixNano()), []appOp{{DBI: "app", Key: []byte("local"), Val: []byte("w")}})
		sy, err := newSyncer(env, st, syncerOpts{Native: native, Instance: "a", Mod: func(c *config.Config, lc *config.LMDB) {
			c.LMDBPollInterval = 2 * time.Millisecond
			c.StoragePollInterval = 3 * time.Millisecond
			c.StorageRetryInterval = 2 * time.Millisecond
		}})
		if err != nil {
			cleanup()
			return err
		}
		ctx, cancel := context.WithCancel(context.Background())
		done := make(chan error, 1)
		go func() { done <- sy.Sync(ctx) }()
		time.Sleep(1200 * time.Millisecond)
		cancel()
		select {
		case <-done:
		case <-time.After(5 * time.Second):
		}
		bad := ""
		uploads := 0
		if ls, err := mem.List(context.Background(), dbName+"__a__"); err == nil {
			for _, nm := range ls.Names() {
				if nm == n1 || nm == n2 {
					continue
				}
				uploads++
				blob, _ := mem.Load(context.Background(), nm)
				sn, err := snapshot.LoadData(blob)
				if err != nil {
					continue
				}
				has := false
				ds, _ := decodeSnapDBIs(sn)
				for _, d := range ds {
					for _, e := range d.Entries {
						if d.Name == "app" && string(e.Key) == "k1" {
							has = true
						}
					}
				}
				if !has && bad == "" {
					bad = nm
				}
			}
		}
		cleanup()
		hist(out.Hist, fmt.Sprintf("own-newest-corrupt/native=%v/uploads=%d", native, min(uploads, 2)))
		if bad != "" {
			out.Oracle = append(out.Oracle, OracleFailure{"C05", "own-first", fmt.Sprintf("native=%v: the own name has a decodable snapshot with key k1 and a newer undecodable blob; restarted with an emptied LMDB and a local write, the process uploaded %s, which does not contain k1 (uploaded before the own newest decodable snapshot was merged)", native, bad), map[string]any{"native": native}})
		}
	}
	return nil
}

// slowLaterLists answers the first List at once and every later one after a delay
type slowLaterLists struct {
	simpleblob.Interface
	mu    sync.Mutex
	n     int
	delay time.Duration
}

func (s *slowLaterLists) List(ctx context.Context, prefix string) (simpleblob.BlobList, error) {
	s.mu.Lock()
	s.n++
	first := s.n == 1
	s.mu.Unlock()
	if !first {
		select {
		case <-time.After(s.delay):
		case <-ctx.Done():
			return nil, ctx.Err()
		}
	}
	return s.Interface.List(ctx, prefix)
}

// sweeperAfterFailedPass (C13): one long-lived Sweeper on a freshly opened environment; its first pass fails on a
// value that does not parse (the write transaction in which it first opened that DBI aborts); the application then
// opens its own DBI and repairs the bad value; the second pass removes the expired markers of the shadow DBI and
// leaves the application's DBI alone (non-native mode) — whatever DBI handles the first pass left behind.
func sweeperAfterFailedPass(out *AreaOut) error {
	out.OracleN++
	dir, err := os.MkdirTemp("", "lsverif_lmdb_")
	if err != nil {
		return err
	}
	defer os.RemoveAll(dir)
	open := func() (*lmdb.Env, error) {
		return lmdbenv.NewWithOptions(dir, lmdbenv.Options{Create: true, MaxDBs: 200, MapSize: 64 << 20})
	}
	env, err := open()
	if err != nil {
		return err
	}
	now := uint64(time.Now().UnixNano())
	expired := swVal(now-uint64(49*time.Hour), 1, nil)
	look := mkStored(now-uint64(72*time.Hour), 9, 1, 0, nil) // an application record that looks like an expired marker
	err = env.Update(func(txn *lmdb.Txn) error {
		sh, err := txn.OpenDBI(shadowPrefix+"zones", lmdb.Create)
		if err != nil {
			return err
		}
		for i := 0; i < 10; i++ {
			if err := txn.Put(sh, []byte(fmt.Sprintf("gone-%02d", i)), expired, 0); err != nil {
				return err
			}
		}
		if err := txn.Put(sh, []byte("bad"), []byte("short"), 0); err != nil {
			return err
		}
		a, err := txn.OpenDBI("zones", lmdb.Create)
		if err != nil {
			return err
		}
		for i := 0; i < 10; i++ {
			if err := txn.Put(a, []byte(fmt.Sprintf("rec-%02d", i)), look, 0); err != nil {
				return err
			}
		}
		return nil
	})
	env.Close()
	if err != nil {
		return err
	}
	env, err = open() // a new process: no DBI handle is open yet
	if err != nil {
		return err
	}
	defer env.Close()
	sw := sweeper.New("verif-2pass", config.Sweeper{Enabled: true, RetentionDays: 1, LockDuration: time.Second, ReleaseDuration: time.Millisecond}, env, swLogger, false)
	ctx := context.Background()
	err1 := sw.VerifSweepOnce(ctx)
	// the application: first use of its own DBI in this process, then the repair of the bad shadow value
	_ = env.Update(func(txn *lmdb.Txn) error {
		a, err := txn.OpenDBI("zones", 0)
		if err != nil {
			return err
		}
		return txn.Put(a, []byte("rec-new"), mkStored(now, 3, 0, 0, []byte("a new record")), 0)
	})
	_ = env.Update(func(txn *lmdb.Txn) error {
		sh, err := txn.OpenDBI(shadowPrefix+"zones", 0)
		if err != nil {
			return err
		}
		return txn.Del(sh, []byte("bad"), nil)
	})
	err2 := sw.VerifSweepOnce(ctx)
	left, recs := 0, 0
	_ = env.View(func(txn *lmdb.Txn) error {
		if sh, err := txn.OpenDBI(shadowPrefix+"zones", 0); err == nil {
			ps, _ := dumpDBI(txn, sh)
			for _, p := range ps {
				if bytes.Equal(p.V, expired) {
					left++
				}
			}
		}
		if a, err := txn.OpenDBI("zones", 0); err == nil {
			ps, _ := dumpDBI(txn, a)
			for _, p := range ps {
				if bytes.Equal(p.V, look) {
					recs++
				}
			}
		}
		return nil
	})
	hist(out.Hist, fmt.Sprintf("second-pass-after-failed-pass/first-failed=%v", err1 != nil))
	if os.Getenv("LSVERIF_DEBUG") != "" {
		fmt.Fprintf(os.Stderr, "DEBUG second pass: err1=%v err2=%v left=%d recs=%d\n", err1, err2, left, recs)
	}
	in := map[string]any{"first_pass_error": fmt.Sprint(err1), "second_pass_error": fmt.Sprint(err2)}
	if recs != 10 {
		out.Oracle = append(out.Oracle, OracleFailure{"C13", "shadow-scope", fmt.Sprintf("non-native mode, second pass of a Sweeper whose first pass failed on an unparsable shadow value: %d of the application's 10 records in DBI zones are left (the sweeper must not touch application DBIs)", recs), in})
	}
	if err2 != nil {
		out.Oracle = append(out.Oracle, OracleFailure{"C13", "removes-every-expired-marker", fmt.Sprintf("second pass, after the bad value was repaired (every value of the shadow DBI parses now), failed: %v; %d of 10 expired markers are still there", err2, left), in})
	}
	if err2 == nil && left > 0 {
		out.Oracle = append(out.Oracle, OracleFailure{"C13", "removes-every-expired-marker", fmt.Sprintf("second pass (after the bad value was repaired) ended without error, %d of 10 expired markers of the shadow DBI are still there", left), in})
	}
	return nil
}

// v1DeletionScenario (C18, C04, C10; fixed inputs, no random choices): a format-version-1 snapshot, in which an
// EMPTY value denotes a deletion, merged into an LMDB that holds an older live version of one of the keys:
// the entries are stored as deletion markers (flag set, no value), the live key leaves the application's view, and
// merging the same snapshot again commits nothing (native mode).
func v1DeletionScenario(out *AreaOut) error {
	for _, native := range []bool{true, false} {
		out.OracleN++
		env, cleanup, err := newEnv()
		if err != nil {
			return err
		}
		base := uint64(1700000000000000000)
		setClock(base)
		if err := applyApp(env, native, base-5000, []appOp{{DBI: "app", Key: []byte("a"), Val: []byte("x")}, {DBI: "app", Key: []byte("keep"), Val: []byte("k")}}); err != nil {
			cleanup()
			return err
		}
		sy, err := newSyncer(env, memory.New(), syncerOpts{Native: native, Instance: "a"})
		if err != nil {
			cleanup()
			return err
		}
		ctx := context.Background()
		id0, err := sy.SendOnce(ctx, env) // shadow mode: captures the application's state
		if err != nil {
			cleanup()
			return err
		}
		sn := buildSnapshot(1, 1, "b", base+10, []snapDBI{{Name: "app", Entries: []snapshot.KV{
			{Key: []byte("a"), Value: nil, TimestampNano: base + 5},
			{Key: []byte("b"), Value: nil, TimestampNano: base + 6},
			{Key: []byte("c"), Value: []byte("v"), TimestampNano: base + 7},
		}}})
		upd := func() snapshot.Update {
			return snapshot.Update{Snapshot: sn, NameInfo: snapshot.NameInfo{Kind: snapshot.KindSnapshot, InstanceID: "b", SyncerName: dbName, Timestamp: time.Unix(0, int64(base+10))}}
		}
		setClock(base + 1000)
		id1, _, lerr := sy.LoadOnce(ctx, env, "b", upd(), id0)
		dataDBI := "app"
		if !native {
			dataDBI = shadowPrefix + "app"
		}
		bad := ""
		if lerr != nil {
			bad = "LoadOnce of a format-version-1 snapshot failed: " + lerr.Error()
		}
		read := func(dbi, key string) ([]byte, bool) {
			var v []byte
			ok := false
			_ = env.View(func(txn *lmdb.Txn) error {
				d, err := txn.OpenDBI(dbi, 0)
				if err != nil {
					return nil
				}
				b, err := txn.Get(d, []byte(key))
				if err == nil {
					v, ok = append([]byte{}, b...), true
				}
				return nil
			})
			return v, ok
		}
		for _, k := range []string{"a", "b"} {
			v, ok := read(dataDBI, k)
			lv, pok := logical(v)
			if bad == "" && (!ok || !pok || !lv.Del || len(lv.Val) != 0) {
				bad = fmt.Sprintf("key %q (empty value in a format-1 snapshot = deletion) is stored as %x (present=%v): not a deletion marker", k, v, ok)
			}
		}
		if v, ok := read(dataDBI, "c"); bad == "" {
			if lv, pok := logical(v); !ok || !pok || lv.Del || string(lv.Val) != "v" {
				bad = fmt.Sprintf("live entry c of the format-1 snapshot is stored as %x (present=%v)", v, ok)
			}
		}
		if !native && bad == "" {
			if _, ok := read("app", "a"); ok {
				bad = "key a, deleted by the format-1 snapshot at a newer timestamp, is still in the application's DBI"
			}
		}
		mode := map[bool]string{true: "native", false: "shadow"}[native]
		if bad != "" {
			for _, pid := range []string{"C18", "C04"} {
				out.Oracle = append(out.Oracle, OracleFailure{pid, "v1-empty-value-is-a-deletion", mode + " mode: " + bad, nil})
			}
		}
		// the same snapshot again, nothing changed locally
		if lerr == nil && native {
			i0, _ := env.Info()
			setClock(base + 2000)
			_, _, lerr2 := sy.LoadOnce(ctx, env, "b", upd(), id1)
			i1, _ := env.Info()
			if lerr2 == nil && i0 != nil && i1 != nil && i1.LastTxnID != i0.LastTxnID {
				out.Oracle = append(out.Oracle, OracleFailure{"C10", "noop-load", fmt.Sprintf("native mode: merging the same format-1 snapshot (two deletions, one live entry) a second time committed a transaction (LastTxnID %d -> %d)", i0.LastTxnID, i1.LastTxnID), nil})
			}
		}
		cleanup()
		hist(out.Hist, "format-1-deletions/"+mode)
	}
	syncer.VerifSetClock(nil)
	return nil
}

// ---- round 9 ----

// malformedKeyLoad (C18, oracle only: LMDB's key-size limit is outside the model's domain): a decodable snapshot in
// which ONE entry has a key LMDB cannot store (empty, or longer than 511 bytes), between well-formed entries and
// after a DBI that does not exist locally. The merge of that entry fails (MDB_BAD_VALSIZE), so the whole snapshot
// must be refused: LoadOnce returns the error and the LMDB — DBI list, every entry, LastTxnID — is as before.
func malformedKeyLoad(out *AreaOut) error {
	for _, native := range []bool{true, false} {
		for _, badKey := range [][]byte{{}, bytes.Repeat([]byte{'m'}, 512), bytes.Repeat([]byte{'m'}, 600)} {
			for _, pos := range []int{0, 1, 2} {
				out.OracleN++
				env, cleanup, err := newEnv()
				if err != nil {
					return err
				}
				now := uint64(time.Now().UnixNano())
				if err := applyApp(env, native, now-uint64(time.Hour), []appOp{{DBI: "app", Key: []byte("a1"), Val: []byte("local")}}); err != nil {
					cleanup()
					return err
				}
				sy, err := newSyncer(env, memory.New(), syncerOpts{Native: native, Instance: "a"})
				if err != nil {
					cleanup()
					return err
				}
				if !native {
					// bring the shadow DBIs up to date first, so that the load's own capture changes nothing
					if _, err := sy.SendOnce(context.Background(), env); err != nil {
						cleanup()
						return err
					}
				}
				before, last, _ := dumpEnv(env)
				good := []snapshot.KV{
					{Key: []byte("a1"), Value: []byte("remote1"), TimestampNano: now - 1000},
					{Key: []byte("n5"), Value: []byte("remote2"), TimestampNano: now - 1000},
				}
				bad := snapshot.KV{Key: badKey, Value: []byte("x"), TimestampNano: now - 1000}
				var es []snapshot.KV
				es = append(es, good[:pos]...)
				es = append(es, bad)
				es = append(es, good[pos:]...)
				sds := []snapDBI{
					{Name: "aaa", Entries: []snapshot.KV{{Key: []byte("k"), Value: []byte("v"), TimestampNano: now - 1000}}},
					{Name: "app", Entries: es},
				}
				sn := buildSnapshot(3, 1, "b", now-10, sds)
				upd := snapshot.Update{Snapshot: sn, NameInfo: snapshot.NameInfo{Kind: snapshot.KindSnapshot, InstanceID: "b", SyncerName: dbName, Timestamp: time.Unix(0, int64(now-10))}}
				var loadErr error
				var pan any
				func() {
					defer func() { pan = recover() }()
					_, _, loadErr = sy.LoadOnce(context.Background(), env, "b", upd, header.TxnID(last))
				}()
				after, last2, _ := dumpEnv(env)
				cleanup()
				hist(out.Hist, fmt.Sprintf("load/malformed-key/native=%v/keylen=%d", native, len(badKey)))
				in := map[string]any{"native": native, "bad_key_length": len(badKey), "position_in_dbi": pos, "env": cEnv(before, last), "snapshot_dbis": "aaa (new here, 1 entry); app (2 well-formed entries and the malformed one)"}
				switch {
				case pan != nil:
					out.Oracle = append(out.Oracle, OracleFailure{"C18", "no-panic", fmt.Sprint(pan), in})
				case loadErr == nil:
					out.Oracle = append(out.Oracle, OracleFailure{"C18", "malformed-entry-fails-whole-snapshot", fmt.Sprintf("a snapshot whose DBI app holds an entry with a key of %d bytes (LMDB stores 1..511) was reported as merged; LMDB before: %s after: %s", len(badKey), cEnv(before, last), cEnv(after, last2)), in})
				case cEnv(after, last2) != cEnv(before, last):
					out.Oracle = append(out.Oracle, OracleFailure{"C18", "all-or-nothing", fmt.Sprintf("LoadOnce failed (%v) on an entry with a key of %d bytes but the LMDB changed", loadErr, len(badKey)), in})
				}
			}
		}
	}
	return nil
}

// sweeperForeignHeaderBytes (C13, C14): the real Sweeper on a DBI in which another application (or a newer
// version) wrote headers whose RESERVED bytes (offsets 18..21; docs/schema-native.md: readers ignore them) are not
// zero — on live entries, on young markers and on expired markers. The pass must end without error, remove every
// expired marker (foreign bytes or not) and nothing else, in this DBI and in the DBI that sorts after it.
func sweeperForeignHeaderBytes(out *AreaOut) error {
	for _, native := range []bool{true, false} {
		out.OracleN++
		env, cleanup, err := swNewEnv()
		if err != nil {
			return err
		}
		n1, n2 := "app", "zzz"
		if !native {
			n1, n2 = shadowPrefix+"app", shadowPrefix+"zzz"
		}
		now := uint64(time.Now().UnixNano())
		expired, young := now-uint64(49*time.Hour), now-uint64(time.Hour)
		type rec struct {
			k       string
			v       []byte
			expired bool
		}
		foreign := func(v []byte, off int, b byte) []byte { v[off] = b; return v }
		var recs []rec
		for i := 0; i < 30; i++ {
			k := fmt.Sprintf("key-%04d", i)
			switch i % 3 {
			case 0:
				recs = append(recs, rec{k, swVal(expired-uint64(i), 1, nil), true})
			case 1:
				recs = append(recs, rec{k, swVal(young+uint64(i), 1, nil), false})
			default:
				recs = append(recs, rec{k, swVal(expired, 0, []byte("live")), false})
			}
		}
		recs[6].v = foreign(recs[6].v, 18, 0x80)   // expired marker
		recs[7].v = foreign(recs[7].v, 21, 1)      // young marker
		recs[17].v = foreign(recs[17].v, 19, 1)    // live entry
		recs[21].v = foreign(recs[21].v, 20, 0xff) // expired marker
		err = env.Update(func(txn *lmdb.Txn) error {
			for _, name := range []string{n1, n2} {
				dbi, err := txn.OpenDBI(name, lmdb.Create)
				if err != nil {
					return err
				}
				for _, r := range recs {
					if err := txn.Put(dbi, []byte(r.k), r.v, 0); err != nil {
						return err
					}
				}
			}
			return nil
		})
		if err != nil {
			cleanup()
			return err
		}
		sw := sweeper.New("verif-foreign", config.Sweeper{Enabled: true, RetentionDays: 1, LockDuration: time.Second, ReleaseDuration: time.Millisecond}, env, swLogger, native)
		ctx, cancel := context.WithTimeout(context.Background(), 20*time.Second)
		serr := sw.VerifSweepOnce(ctx)
		cancel()
		left, wrong := 0, ""
		_ = env.View(func(txn *lmdb.Txn) error {
			for _, name := range []string{n1, n2} {
				dbi, err := txn.OpenDBI(name, 0)
				if err != nil {
					wrong = "DBI " + name + " gone"
					return nil
				}
				for _, r := range recs {
					_, err := txn.Get(dbi, []byte(r.k))
					switch {
					case r.expired && err == nil:
						left++
					case !r.expired && err != nil && wrong == "":
						wrong = fmt.Sprintf("entry %s of %s (not an expired marker) is gone", r.k, name)
					}
				}
			}
			return nil
		})
		cleanup()
		hist(out.Hist, fmt.Sprintf("foreign-reserved-header-bytes/native=%v", native))
		in := map[string]any{"native": native, "dbis": []string{n1, n2}, "records_per_dbi": len(recs), "entries_with_non_zero_reserved_bytes": []string{"key-0006 (expired marker, byte 18)", "key-0007 (young marker, byte 21)", "key-0017 (live, byte 19)", "key-0021 (expired marker, byte 20)"}}
		for _, pid := range []string{"C13", "C14"} {
			if serr != nil || left > 0 {
				out.Oracle = append(out.Oracle, OracleFailure{pid, "removes-every-expired-marker/foreign-reserved-bytes", fmt.Sprintf("two DBIs of %d records, four of them with non-zero RESERVED header bytes (well-formed: readers must ignore those bytes): the pass returned %v and left %d of the %d deletion markers 49 h old (retention 1 day)", len(recs), serr, left, 20), in})
			}
			if wrong != "" {
				out.Oracle = append(out.Oracle, OracleFailure{pid, "removes-nothing-else/foreign-reserved-bytes", wrong, in})
			}
		}
	}
	return nil
}

// dupsortCollision (C03, C20; oracle only: 506-byte values are too large for the model's literals): shadow mode
// with the dupsort hack, an MDB_DUPSORT application DBI holding two values under one key that agree in everything
// the shadow key can hold (the first 506 - len(key) bytes) and differ after that — the hack cannot represent both.
// Whatever Lightning Stream does with such a DBI (it refuses it), its own transactions must not destroy what the
// application committed: after every LoadOnce / SendOnce, failed or not, the application DBI is exactly as committed.
func dupsortCollision(out *AreaOut) error {
	for _, viaSend := range []bool{false, true} {
		out.OracleN++
		env, cleanup, err := newEnv()
		if err != nil {
			return err
		}
		key := []byte("k01")
		pre := bytes.Repeat([]byte{'x'}, 506-len(key))
		vals := [][]byte{append(append([]byte{}, pre...), 'a'), append(append([]byte{}, pre...), 'b'), []byte("short")}
		ops := []appOp{}
		for _, v := range vals {
			ops = append(ops, appOp{DBI: "dup", Flags: lmdb.DupSort, Key: key, Val: v})
		}
		ops = append(ops, appOp{DBI: "dup", Flags: lmdb.DupSort, Key: []byte("k02"), Val: []byte("other")})
		if err := applyApp(env, false, uint64(time.Now().UnixNano()), ops); err != nil {
			cleanup()
			return err
		}
		readPairs := func() []string {
			var ps []string
			_ = env.View(func(txn *lmdb.Txn) error {
				dbi, err := txn.OpenDBI("dup", 0)
				if err != nil {
					ps = append(ps, "DBI gone: "+err.Error())
					return nil
				}
				c, err := txn.OpenCursor(dbi)
				if err != nil {
					return nil
				}
				defer c.Close()
				for k, v, err := c.Get(nil, nil, lmdb.First); err == nil; k, v, err = c.Get(nil, nil, lmdb.Next) {
					ps = append(ps, fmt.Sprintf("%s=%d:%x", k, len(v), v[len(v)-1:]))
				}
				return nil
			})
			return ps
		}
		want := readPairs()
		sy, err := newSyncer(env, memory.New(), syncerOpts{Native: false, DupHack: true, Instance: "a"})
		if err != nil {
			cleanup()
			return err
		}
		var errs []string
		var pan any
		func() {
			defer func() { pan = recover() }()
			for round := 0; round < 2; round++ {
				if viaSend {
					_, e := sy.SendOnce(context.Background(), env)
					errs = append(errs, fmt.Sprint(e))
				} else {
					now := uint64(time.Now().UnixNano())
					sn := buildSnapshot(3, 1, "b", now-10, nil)
					upd := snapshot.Update{Snapshot: sn, NameInfo: snapshot.NameInfo{Kind: snapshot.KindSnapshot, InstanceID: "b", SyncerName: dbName, Timestamp: time.Unix(0, int64(now-10))}}
					_, _, e := sy.LoadOnce(context.Background(), env, "b", upd, 0)
					errs = append(errs, fmt.Sprint(e))
				}
			}
		}()
		got := readPairs()
		cleanup()
		hist(out.Hist, fmt.Sprintf("dupsort-collision/via-send=%v", viaSend))
		in := map[string]any{"via": map[bool]string{false: "LoadOnce of an empty snapshot, twice", true: "SendOnce, twice"}[viaSend], "key": "k01", "values": "505 x 'x' + 'a', 505 x 'x' + 'b' (same shadow key), 'short'; k02=other", "results": errs}
		if pan != nil {
			for _, pid := range []string{"C03", "C20"} {
				out.Oracle = append(out.Oracle, OracleFailure{pid, "no-panic", fmt.Sprint(pan), in})
			}
		}
		if strings.Join(got, " ") != strings.Join(want, " ") {
			for _, pid := range []string{"C03", "C20"} {
				out.Oracle = append(out.Oracle, OracleFailure{pid, "committed-pairs-destroyed-by-own-transaction", fmt.Sprintf("the application committed the pairs %v to its MDB_DUPSORT DBI; after Lightning Stream's own transactions (results %v) the DBI holds %v — no other instance wrote anything", want, errs, got), in})
			}
		}
	}
	return nil
}

// zeroIntervalCancel (C17): the long-running loops configured with a ZERO interval (nothing in config.Check forbids
// it for the cleaner and the sweeper; library users may pass it for the receiver) still return when their context
// is cancelled, and utils.SleepContext itself notices a cancelled context whatever the duration.
func zeroIntervalCancel(out *AreaOut) error {
	quiet := logrus.New()
	quiet.SetOutput(io.Discard)
	run := func(what string, f func(ctx context.Context) error) {
		out.OracleN++
		ctx, cancel := context.WithCancel(context.Background())
		done := make(chan error, 1)
		go func() { done <- f(ctx) }()
		time.Sleep(40 * time.Millisecond)
		cancel()
		hist(out.Hist, "zero-interval-cancel/"+what)
		select {
		case <-done:
		case <-time.After(3 * time.Second):
			out.Oracle = append(out.Oracle, OracleFailure{"C17", "cancel-not-returned/zero-interval", what + " with a zero interval did not return within 3 s after its context was cancelled", map[string]any{"component": what}})
		}
	}
	// the primitive itself: with a cancelled context a zero sleep reports the cancellation (select picks among the two
	// ready cases at random: 2000 calls all returning nil has probability 2^-2000 on a correct implementation)
	out.OracleN++
	cctx, ccancel := context.WithCancel(context.Background())
	ccancel()
	seen := false
	for i := 0; i < 2000 && !seen; i++ {
		seen = utils.SleepContext(cctx, 0) != nil
	}
	if !seen {
		out.Oracle = append(out.Oracle, OracleFailure{"C17", "cancel-not-returned/zero-interval", "utils.SleepContext(cancelled context, 0) returned nil 2000 times in a row: a loop sleeping through it never notices the cancellation", map[string]any{"component": "utils.SleepContext"}})
	}
	run("Receiver.Run", func(ctx context.Context) error {
		r := receiver.New(memory.New(), config.Config{StoragePollInterval: 0, StorageRetryInterval: 2 * time.Millisecond, MemoryDownloadedSnapshots: 2, MemoryDecompressedSnapshots: 2},
			dbName, quiet, "self", events.New(), hooks.New())
		return r.Run(ctx)
	})
	run("cleaner.Worker.Run", func(ctx context.Context) error {
		w := cleaner.New(dbName, memory.New(), config.Cleanup{Enabled: true, Interval: 0, MustKeepInterval: time.Minute, RemoveOldInstancesInterval: time.Hour}, quiet)
		return w.Run(ctx)
	})
	env, cleanup, err := swNewEnv()
	if err != nil {
		return err
	}
	err = env.Update(func(txn *lmdb.Txn) error {
		dbi, err := txn.OpenDBI("app", lmdb.Create)
		if err != nil {
			return err
		}
		return txn.Put(dbi, []byte("k"), swVal(uint64(time.Now().UnixNano()), 0, []byte("v")), 0)
	})
	if err != nil {
		cleanup()
		return err
	}
	sw := sweeper.New("verif-zero", config.Sweeper{Enabled: true, RetentionDays: 1, FirstInterval: 0, Interval: 0, LockDuration: 10 * time.Millisecond, ReleaseDuration: 0}, env, quiet, true)
	swDone := make(chan struct{})
	run("sweeper.Run", func(ctx context.Context) error { defer close(swDone); return sw.Run(ctx) })
	select {
	case <-swDone:
		cleanup()
	case <-time.After(time.Second):
		// still spinning: leave the environment open for it (the process ends soon)
	}
	return nil
}

// headerLargeExtension (C14, oracle only: the extension areas are up to 512 kB, too large for the model's
// literals; the theorems C14_parse_sound / C14_rejects_short hold for every block count): values whose header
// announces 255 ... 65535 extension blocks followed by the application value: Parse and Skip return exactly the
// application value, NumExtra and Extra are right, and a value cut anywhere inside the announced extension area is
// rejected as too short.
func headerLargeExtension(out *AreaOut) {
	for _, n := range []int{255, 256, 257, 4095, 4096, 8191, 8192, 8193, 12345, 32767, 32768, 65535} {
		out.OracleN++
		v := make([]byte, 24+8*n, 24+8*n+3)
		binary.BigEndian.PutUint64(v[0:8], 1700000000000000000)
		binary.BigEndian.PutUint64(v[8:16], 7)
		binary.BigEndian.PutUint16(v[22:24], uint16(n))
		for i := 24; i < len(v); i++ {
			v[i] = byte(i*7 + 1)
		}
		v = append(v, "app"...)
		bad := ""
		func() {
			defer func() {
				if p := recover(); p != nil {
					bad = fmt.Sprint("panic: ", p)
				}
			}()
			h, a, err := header.Parse(v)
			s, serr := header.Skip(v)
			switch {
			case err != nil || serr != nil:
				bad = fmt.Sprintf("a well-formed value was rejected: Parse: %v, Skip: %v", err, serr)
			case string(a) != "app" || string(s) != "app":
				bad = fmt.Sprintf("application value is the 3 bytes \"app\"; Parse returned %d bytes, Skip %d bytes", len(a), len(s))
			case h.NumExtra != n || len(h.Extra) != 8*n || !bytes.Equal(h.Extra, v[24:24+8*n]):
				bad = fmt.Sprintf("Parse reports NumExtra=%d with %d extension bytes", h.NumExtra, len(h.Extra))
			}
			for _, cut := range []int{24, 24 + 8, 24 + 8*n/2, 24 + 8*n - 1} {
				if bad != "" {
					break
				}
				if _, _, err := header.Parse(v[:cut]); err == nil {
					bad = fmt.Sprintf("the value cut to %d bytes (inside the announced extension area of %d bytes) was accepted by Parse", cut, 8*n)
				} else if _, err := header.Skip(v[:cut]); err == nil {
					bad = fmt.Sprintf("the value cut to %d bytes (inside the announced extension area of %d bytes) was accepted by Skip", cut, 8*n)
				}
			}
		}()
		hist(out.Hist, "parse/large-extension-area")
		if bad != "" {
			out.Oracle = append(out.Oracle, OracleFailure{"C14", "extension-blocks-of-any-count", fmt.Sprintf("header announcing %d extension blocks (%d bytes) followed by \"app\": %s", n, 8*n, bad), map[string]any{"blocks": n}})
		}
	}
}
