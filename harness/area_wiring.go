package main

import (
	"bytes"
	"context"
	"fmt"
	"time"

	"github.com/PowerDNS/lightningstream/config"
	"github.com/PowerDNS/lmdb-go/lmdb"
	"github.com/PowerDNS/simpleblob/backends/memory"
)

// sweeperWiring runs the REAL Sync loop with the tomb sweeper enabled (intervals scaled down to milliseconds) on
// an LMDB that holds an expired deletion marker, a young marker and live entries, in native and in shadow mode;
// in shadow mode the application's own DBI also holds application values whose bytes look like expired markers.
// Within 2 s the expired marker must be gone (C13), and nothing else may change: live entries, young markers, and
// above all the application's DBIs in shadow mode (C13, C03).
func sweeperWiring(out *AreaOut) error {
	for _, native := range []bool{true, false} {
		out.OracleN++
		env, cleanup, err := newEnv()
		if err != nil {
			return err
		}
		now := uint64(time.Now().UnixNano())
		old := now - uint64(49*time.Hour)
		young := now - uint64(time.Hour)
		rec0 := mkStored(old, 3, 0, 0, []byte("v"))             // the application's records are binary, 24 bytes and more
		lookalike1 := mkStored(1000, 7, 1, 0, nil)              // 24 bytes: "timestamp" 1000 ns, "flags" 1
		lookalike2 := mkStored(old, 9, 1, 0, []byte("payload")) // longer record of the same shape
		dataDBI := "app"
		if !native {
			dataDBI = shadowPrefix + "app"
		}
		err = env.Update(func(txn *lmdb.Txn) error {
			d, err := txn.OpenDBI(dataDBI, lmdb.Create)
			if err != nil {
				return err
			}
			for _, kv := range []struct {
				k string
				v []byte
			}{
				{"live", mkStored(old, 1, 0, 0, rec0)},
				{"gone-old", mkStored(old, 1, 1, 0, nil)},
				{"gone-young", mkStored(young, 1, 1, 0, nil)},
				{"rec-1", mkStored(young, 1, 0, 0, lookalike1)},
				{"rec-2", mkStored(young, 1, 0, 0, lookalike2)},
			} {
				if err := txn.Put(d, []byte(kv.k), kv.v, 0); err != nil {
					return err
				}
			}
			if !native {
				a, err := txn.OpenDBI("app", lmdb.Create)
				if err != nil {
					return err
				}
				for _, kv := range []struct {
					k string
					v []byte
				}{{"live", rec0}, {"rec-1", lookalike1}, {"rec-2", lookalike2}} {
					if err := txn.Put(a, []byte(kv.k), kv.v, 0); err != nil {
						return err
					}
				}
			}
			return nil
		})
		if err != nil {
			cleanup()
			return err
		}
		sy, err := newSyncer(env, memory.New(), syncerOpts{Native: native, Mod: func(c *config.Config, lc *config.LMDB) {
			c.LMDBPollInterval = 2 * time.Millisecond
			c.StoragePollInterval = 5 * time.Millisecond
			c.Sweeper = config.Sweeper{Enabled: true, RetentionDays: 1, Interval: 5 * time.Millisecond, FirstInterval: time.Millisecond, LockDuration: 5 * time.Millisecond, ReleaseDuration: time.Millisecond}
		}})
		if err != nil {
			cleanup()
			return err
		}
		ctx, cancel := context.WithCancel(context.Background())
		done := make(chan error, 1)
		go func() { done <- sy.Sync(ctx) }()
		get := func(dbi, key string) (v []byte, ok bool) {
			_ = env.View(func(txn *lmdb.Txn) error {
				d, err := txn.OpenDBI(dbi, 0)
				if err != nil {
					return nil
				}
				b, err := txn.Get(d, []byte(key))
				if err == nil {
					v, ok = append([]byte{}, b...), true
				}
				return nil
			})
			return
		}
		swept := false
		for dl := time.Now().Add(2 * time.Second); time.Now().Before(dl); time.Sleep(10 * time.Millisecond) {
			if _, ok := get(dataDBI, "gone-old"); !ok {
				swept = true
				break
			}
		}
		time.Sleep(40 * time.Millisecond) // a few more passes
		cancel()
		select {
		case <-done:
		case <-time.After(5 * time.Second):
		}
		mode := map[bool]string{true: "native", false: "shadow"}[native]
		in := map[string]any{"native": native, "sweeper": "enabled, retention 1 day, interval 5ms", "marker_age_hours": 49}
		if !swept {
			out.Oracle = append(out.Oracle, OracleFailure{"C13", "loop-sweeper-removes-expired", fmt.Sprintf("%s mode, real Sync loop with the sweeper enabled (interval 5 ms, retention 1 day): a deletion marker 49 h old was still in %s after 2 s", mode, dataDBI), in})
		}
		for _, k := range []string{"live", "gone-young", "rec-1", "rec-2"} {
			if _, ok := get(dataDBI, k); !ok {
				out.Oracle = append(out.Oracle, OracleFailure{"C13", "loop-sweeper-removes-only-expired", fmt.Sprintf("%s mode, real Sync loop with the sweeper enabled: entry %q of %s (not an expired marker) was removed", mode, k, dataDBI), in})
			}
		}
		if !native {
			for _, kv := range []struct {
				k string
				v []byte
			}{{"live", rec0}, {"rec-1", lookalike1}, {"rec-2", lookalike2}} {
				got, ok := get("app", kv.k)
				if !ok || !bytes.Equal(got, kv.v) {
					for _, pid := range []string{"C13", "C03"} {
						out.Oracle = append(out.Oracle, OracleFailure{pid, "sweeper-touches-application-dbi", fmt.Sprintf("shadow mode, real Sync loop with the sweeper enabled: the application's own record %q (value %x, committed before Lightning Stream started, never superseded) is now %x (present=%v)", kv.k, kv.v, got, ok), in})
					}
				}
			}
		}
		cleanup()
		hist(out.Hist, "loop-sweeper-wiring/"+mode)
	}
	return nil
}
