//go:build race

package main

// set when the harness is built with the Go race detector (go build -race)
const concRaceEnabled = true
