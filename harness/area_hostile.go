package main

// area "hostile" (property C08, decoding half): arbitrary bytes fed to the real hand-written decoder —
// (*Snapshot).Unmarshal plus the full iteration of every DBI, directly or through snapshot.LoadData in a
// gzip container — with recover and a timeout; the Coq model Codec/Custom.v must give the same
// ok(content) / error verdict. Helpers shared with area "codec" are in area_codec.go.

import (
	"bytes"
	"fmt"
	"runtime"
	"strings"
	"time"

	"github.com/PowerDNS/lightningstream/snapshot"
	"github.com/klauspost/compress/gzip"
)

func init() { areas["hostile"] = areaHostile }

// loadDataDecode: snapshot.LoadData(gzip(b)) + full iteration
func loadDataDecode(b []byte) decObs {
	var zb bytes.Buffer
	zw, _ := gzip.NewWriterLevel(&zb, gzip.BestSpeed)
	_, _ = zw.Write(b)
	_ = zw.Close()
	blob := zb.Bytes()
	return guardDec(2*time.Second, func() (gSnap, error) {
		s, err := snapshot.LoadData(blob)
		if err != nil {
			return gSnap{}, err
		}
		return contentOf(s)
	})
}

func loadDataDecodeT(b []byte, limit time.Duration) decObs {
	var zb bytes.Buffer
	zw, _ := gzip.NewWriterLevel(&zb, gzip.BestSpeed)
	_, _ = zw.Write(b)
	_ = zw.Close()
	blob := zb.Bytes()
	return guardDec(limit, func() (gSnap, error) {
		s, err := snapshot.LoadData(blob)
		if err != nil {
			return gSnap{}, err
		}
		return contentOf(s)
	})
}

// error sites of the implementation, by message (for the coverage report)
func errSite(msg string) int {
	switch {
	case msg == "":
		return 0
	case strings.Contains(msg, "unable to read protobuf varint value"):
		return 1
	case strings.Contains(msg, "value overflow trying to read protobuf varint value"):
		return 3
	case strings.Contains(msg, "invalid tag value"):
		return 4
	case strings.Contains(msg, "field length cannot be more than"):
		return 5
	case strings.Contains(msg, "unexpected wiretype for tag"):
		return 6
	case strings.Contains(msg, "remaining data to short for indicated size"):
		return 7
	case strings.Contains(msg, "remaining data to short for fixed64"):
		return 8
	case strings.Contains(msg, "unsupported wire type"):
		return 9
	case strings.Contains(msg, "unexpected EOF"):
		return 2
	}
	return 10
}

var hostileLens = func(l uint64) []uint64 {
	return []uint64{0, l - 1, l, l + 1, 1 << 31, 1<<63 - 1, 1 << 63, 1<<64 - 1, 1<<64 - 11, 1<<64 - 10, 1<<64 - 2, 1<<32 - 1, 1 << 32, 100 << 30, 100<<30 + 1}
}
var hostileKeys = []uint64{0, 1, 2, 7, 1<<29 - 1, 1 << 29, 1<<29 + 2, 1<<32 | 0x12, 1<<35 | 0x12, 1<<63 | 0x1a, 1<<64 - 1, 0x13, 0x14, 0x16, 0x17, 0x1b, 0x1c}

// collect pointers to every field of a tree, with its nesting level
type fref struct {
	f     *wfield
	level int
}

func allFields(fs []wfield, level int, acc *[]fref) {
	for i := range fs {
		*acc = append(*acc, fref{&fs[i], level})
		if fs[i].Sub != nil {
			sub := 3
			if level == 0 && fs[i].Num == 2 {
				sub = 1
			} else if level == 0 {
				sub = 2
			}
			allFields(fs[i].Sub, sub, acc)
		}
	}
}

type cref struct {
	l     *[]wfield
	level int
}

func allContainers(fs *[]wfield, level int, acc *[]cref) {
	*acc = append(*acc, cref{fs, level})
	for i := range *fs {
		if (*fs)[i].Sub != nil {
			sub := 3
			if level == 0 && (*fs)[i].Num == 2 {
				sub = 1
			} else if level == 0 {
				sub = 2
			}
			allContainers(&(*fs)[i].Sub, sub, acc)
		}
	}
}

// encFieldsFrozen encodes a tree like encFields, but a field with LenOverride keeps the override while the
// enclosing lengths are computed from the real sizes (so exactly one length lies).
func adversarial(r *Rng, s gSnap) ([]byte, string) {
	tr := treeOf(s, r.Chance(20))
	if r.Chance(40) {
		tr = mutateTree(r, tr, 0, map[string]int{})
	}
	label := ""
	// an unknown length-delimited field with a hostile length, at a random nesting level
	if r.Chance(15) {
		var conts []cref
		allContainers(&tr, 0, &conts)
		c := conts[r.Intn(len(conts))]
		p := r.Bytes(pick(r, []int{0, 1, 3, 9, 10, 11, 20}))
		v := pick(r, hostileLens(uint64(len(p))))
		u := wfield{Num: unknownNum(r, c.level), WT: 2, P: p, LenOverride: &v}
		i := r.Intn(len(*c.l) + 1)
		*c.l = append((*c.l)[:i], append([]wfield{u}, (*c.l)[i:]...)...)
		label += fmt.Sprintf("adv-unknownlen-L%d ", c.level)
	}
	var refs []fref
	allFields(tr, 0, &refs)
	if len(refs) == 0 {
		return encFields(tr), "adv-empty"
	}
	nmut := 1
	if r.Chance(15) {
		nmut = 2
	}
	if label != "" && r.Chance(60) {
		nmut = 0
	}
	for k := 0; k < nmut; k++ {
		fr := refs[r.Intn(len(refs))]
		// prefer length-delimited fields for length attacks
		for t := 0; t < 3 && fr.f.WT != 2; t++ {
			fr = refs[r.Intn(len(refs))]
		}
		// fixed-width value cut short (the enclosing lengths stay consistent)
		if r.Chance(12) {
			var fx []fref
			for _, x := range refs {
				if x.f.WT == 1 || x.f.WT == 5 {
					fx = append(fx, x)
				}
			}
			if len(fx) > 0 {
				x := fx[r.Intn(len(fx))]
				x.f.Short = 1 + r.Intn(3)
				if r.Chance(30) {
					x.f.Short = 8
				}
				if x.f.WT == 5 && x.f.Short > 4 {
					x.f.Short = 4
				}
				label += fmt.Sprintf("adv-shortfixed-L%d ", x.level)
				continue
			}
		}
		switch {
		case fr.f.WT == 2 && r.Chance(70):
			var l uint64
			if fr.f.Sub != nil {
				l = uint64(len(encFields(fr.f.Sub)))
			} else {
				l = uint64(len(fr.f.P))
			}
			v := pick(r, hostileLens(l))
			fr.f.LenOverride = &v
			label += fmt.Sprintf("adv-len-L%d ", fr.level)
		case r.Chance(60):
			v := pick(r, hostileKeys)
			if r.Bool() { // keep the wire type, attack the number
				v = v&^7 | uint64(fr.f.WT)
			}
			fr.f.KeyOverride = &v
			label += fmt.Sprintf("adv-key-L%d ", fr.level)
		case fr.f.WT == 0:
			fr.f.V = pick(r, []uint64{0, 1<<32 - 1, 1 << 32, 1<<63 - 1, 1 << 63, 1<<64 - 1})
			fr.f.Pad = pick(r, []int{0, 0, 1, 5, 9})
			label += fmt.Sprintf("adv-varint-L%d ", fr.level)
		default:
			fr.f.WT = pick(r, []int{0, 1, 2, 3, 4, 5, 6, 7})
			label += fmt.Sprintf("adv-wt-L%d ", fr.level)
		}
	}
	return encFields(tr), strings.TrimSpace(label)
}

var tagAlphabet = []byte{0x00, 0x01, 0x02, 0x07, 0x08, 0x0a, 0x0d, 0x12, 0x1a, 0x18, 0x20, 0x22, 0x19, 0x29, 0x3a, 0x40, 0x7a, 0x7f, 0x80, 0x81, 0xff, 0xf5, 0x0b, 0x0c, 0x05, 0x09}

func areaHostile(r *Rng, n int, dir string) (*AreaOut, error) {
	out := &AreaOut{Hist: map[string]int{}, Rule: "byte strings fed to the real decoder (Unmarshal + full iteration of every DBI; one case in four through snapshot.LoadData inside a gzip container): uniformly random bytes and strings over an alphabet of tag/continuation bytes (length 0-80); truncations at every kind of position, 1-3 bit flips and byte substitutions of valid messages; a grammar of adversarial messages: a valid or re-encoded message tree in which one or two length fields at snapshot / meta / DBI / KV level are set to one of {0, len-1, len, len+1, 2^31, 2^32-1, 2^32, 2^63-1, 2^63, 2^64-1, 2^64-2, 2^64-10, 2^64-11, 100 GB, 100 GB+1}, or a key is replaced by one of {0,1,2,7, 2^29-1, 2^29, 2^29+2, >2^32, >2^63, 2^64-1, group and invalid wire types}, or a varint is padded to 10 bytes / set to a boundary value, or a wire type is changed; plus the two replays of the defects fixed in e5df985. distinct = distinct byte strings; non-trivial = longer than 2 bytes"}
	var cases []string
	seen := map[string]bool{}
	nontriv := map[string]bool{}
	timeouts := 0

	add := func(b []byte, label string) {
		if timeouts >= 4 || len(b) > 6000 {
			return
		}
		viaLoad := r.Intn(4) == 0
		var o decObs
		if viaLoad {
			o = loadDataDecode(b)
		} else {
			o = customDecode(b)
		}
		if o.Kind == "timeout" {
			timeouts++
		}
		site := 0
		if o.Kind == "err" {
			site = errSite(o.Msg)
		}
		cases = append(cases, fmt.Sprintf("HCase %s %d %s", cB(b), site, o.Coq()))
		key := hexs(b)
		out.CaseDescs = append(out.CaseDescs, label+"|"+key)
		hist(out.Hist, label+"/"+o.Kind)
		if o.Kind == "err" {
			hist(out.Hist, fmt.Sprintf("site/%d", site))
		}
		seen[key] = true
		if len(b) > 2 {
			nontriv[key] = true
		}
		out.OracleN++
		if o.Kind == "panic" || o.Kind == "timeout" {
			how := "Unmarshal+iteration"
			if viaLoad {
				how = "LoadData(gzip)+iteration"
			}
			out.Oracle = append(out.Oracle, OracleFailure{"C08", "no-crash-no-hang", how + ": " + o.Kind + " " + o.Msg, map[string]any{"bytes": key, "label": label}})
		}
	}

	// replays of the fixed defects
	add([]byte{0x1a, 0x0b, 0x7a, 0xf5, 0xff, 0xff, 0xff, 0xff, 0xff, 0xff, 0xff, 0xff, 0x01}, "replay-hang")
	add([]byte{0x1a, 0x0b, 0x0a, 0x80, 0x80, 0x80, 0x80, 0x80, 0x80, 0x80, 0x80, 0x80, 0x01}, "replay-panic-index")
	add([]byte{0x1a, 0x0d, 0x12, 0x0b, 0x0a, 0xff, 0xff, 0xff, 0xff, 0xff, 0xff, 0xff, 0xff, 0xff, 0x01}, "replay-panic-kv")
	add([]byte{0x1a, 0x04, 0x28, 0x01, 0x08, 0x01}, "replay-unknown-in-dbi")

	for i := 0; i < n; i++ {
		switch k := r.Intn(20); {
		case k < 2:
			add(r.Bytes(r.Intn(80)), "random")
		case k < 5:
			b := make([]byte, r.Intn(40))
			for j := range b {
				b[j] = pick(r, tagAlphabet)
			}
			add(b, "random-tags")
		case k < 8:
			s := genSnap(r, 400, true)
			b := gogoEncode(s)
			if r.Bool() {
				if e := customEncode(s); e.Kind == "bytes" {
					b = e.Bytes
				}
			}
			if len(b) == 0 {
				add(b, "truncated")
				break
			}
			add(b[:r.Intn(len(b))], "truncated")
		case k < 11:
			s := genSnap(r, 400, true)
			b := append([]byte{}, gogoEncode(s)...)
			if len(b) > 0 {
				for f := 1 + r.Intn(3); f > 0; f-- {
					p := r.Intn(len(b))
					if r.Chance(70) {
						b[p] ^= 1 << uint(r.Intn(8))
					} else {
						b[p] = pick(r, tagAlphabet)
					}
				}
			}
			add(b, "bitflip")
		default:
			s := genSnap(r, 300, true)
			b, label := adversarial(r, s)
			add(b, strings.Fields(label + " x")[0])
		}
	}

	// long runs of one tiny element, real code only: time, memory and STACK stay proportional to the input (a
	// decoder that recursed per element would need 100+ MB of stack here; the harness caps the stack at 64 MB)
	for _, run := range []struct {
		what string
		elem []byte
		n    int
	}{
		{"100000 empty entries in one DBI", []byte{0x12, 0x00}, 100000},
		{"100000 unknown varint fields in one DBI", []byte{0x48, 0x01}, 100000},
	} {
		out.OracleN++
		dbi := append([]byte{0x0a, 0x01, 'd'}, bytes.Repeat(run.elem, run.n)...)
		msg := append([]byte{0x1a}, putVarint(nil, uint64(len(dbi)), 0)...)
		msg = append(msg, dbi...)
		var before, after runtime.MemStats
		runtime.ReadMemStats(&before)
		t0 := time.Now()
		stopSampling := make(chan struct{})
		sampled := make(chan uint64, 1)
		go func() { // peak stack use while the decoder runs
			var peak uint64
			var m runtime.MemStats
			for {
				select {
				case <-stopSampling:
					sampled <- peak
					return
				default:
				}
				runtime.ReadMemStats(&m)
				if m.StackInuse > peak {
					peak = m.StackInuse
				}
				time.Sleep(200 * time.Microsecond)
			}
		}()
		o := loadDataDecodeT(msg, 20*time.Second)
		close(stopSampling)
		after.StackInuse = <-sampled
		hist(out.Hist, "long-run/"+o.Kind)
		switch {
		case o.Kind == "panic" || o.Kind == "timeout":
			out.Oracle = append(out.Oracle, OracleFailure{"C08", "no-crash", run.what + ": " + o.Kind + " " + o.Msg, map[string]any{"element": hexs(run.elem), "count": run.n}})
		case time.Since(t0) > 10*time.Second:
			out.Oracle = append(out.Oracle, OracleFailure{"C08", "linear-time", fmt.Sprintf("%s: decoding took %v", run.what, time.Since(t0)), map[string]any{"element": hexs(run.elem), "count": run.n}})
		case after.StackInuse > before.StackInuse+(8<<20):
			out.Oracle = append(out.Oracle, OracleFailure{"C08", "bounded-stack", fmt.Sprintf("%s: goroutine stacks grew by %d MB while decoding %d KB", run.what, (after.StackInuse-before.StackInuse)>>20, len(msg)>>10), map[string]any{"element": hexs(run.elem), "count": run.n}})
		}
	}
	// very many top-level elements: 250 000 tiny DBI messages with pairwise DISTINCT names (1.7 MB): time
	// proportional to the input means well under a second; a decoder that compares every DBI with all earlier
	// ones needs 3*10^10 comparisons
	{
		out.OracleN++
		const nd = 250000
		msg := make([]byte, 0, nd*8)
		for j := 0; j < nd; j++ {
			msg = append(msg, 0x1a, 0x06, 0x0a, 0x04, byte('a'+j%26), byte('a'+(j/26)%26), byte('a'+(j/676)%26), byte('a'+(j/17576)%26))
		}
		t0 := time.Now()
		o := loadDataDecodeT(msg, 20*time.Second)
		el := time.Since(t0)
		hist(out.Hist, "many-distinct-dbis/"+o.Kind)
		switch {
		case o.Kind == "panic":
			out.Oracle = append(out.Oracle, OracleFailure{"C08", "no-crash", "250000 distinct tiny DBIs: panic " + o.Msg, map[string]any{"count": nd}})
		case o.Kind == "timeout" || el > 5*time.Second:
			out.Oracle = append(out.Oracle, OracleFailure{"C08", "linear-time", fmt.Sprintf("250000 distinct tiny DBIs (%d KB): decoding took %v (%s); 25000 of them take a hundredth of that or less", len(msg)>>10, el, o.Kind), map[string]any{"count": nd}})
		}
	}
	out.Cases = len(cases)
	out.Distinct = len(nontriv)
	if timeouts >= 4 {
		out.Hist["aborted-after-4-timeouts"] = 1
	}
	for i := 0; i < 3 && i < len(cases); i++ {
		c := cases[i*len(cases)/3]
		if len(c) > 400 {
			c = c[:400] + "..."
		}
		out.Samples = append(out.Samples, c)
	}
	files, err := writeCases(dir, "hostile", "From Coq Require Import Init.Byte.\nFrom LS Require Import Base.Bytes Base.Res Merge.Model Codec.Wire Corr.Obs Corr.Run_codec Corr.Run_hostile.", "hcase", cases, 150)
	out.Shards = files
	return out, err
}
