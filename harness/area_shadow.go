package main

import (
	"bytes"
	"context"
	"fmt"
	"sort"

	"github.com/PowerDNS/lightningstream/lmdbenv/header"
	"github.com/PowerDNS/lightningstream/lmdbenv/strategy"
	"github.com/PowerDNS/lightningstream/snapshot"
	"github.com/PowerDNS/lightningstream/syncer"
	"github.com/PowerDNS/lmdb-go/lmdb"
	"github.com/PowerDNS/simpleblob/backends/memory"
)

func init() { areas["shadow"] = areaShadow }

const shadowPrefix = "_sync_shadow_"

var appVals = [][]byte{[]byte("v"), []byte("w"), []byte("vv"), {}, {}, []byte("x\x00y")}

func fillDBI(txn *lmdb.Txn, name string, flags uint, ps []pair) (lmdb.DBI, error) {
	dbi, err := txn.OpenDBI(name, lmdb.Create|flags)
	if err != nil {
		return 0, err
	}
	for _, p := range ps {
		if err := txn.Put(dbi, p.K, p.V, 0); err != nil {
			return 0, fmt.Errorf("fill %s key %x: %w", name, p.K, err)
		}
	}
	return dbi, nil
}

func areaShadow(r *Rng, n int, dir string) (*AreaOut, error) {
	out := &AreaOut{Hist: map[string]int{}, Rule: "mainToShadow / shadowToMain (real Syncer methods, one application DBI + its shadow DBI inside a rolled-back write transaction of a real LMDB): application contents and shadow contents over a key pool (byte keys with prefixes/0x00/0xff, 4-byte integer keys incl. 0, 2^31, 2^32-1), empty and non-empty values, shadow entries live/deleted/with padding block/corrupt, timestamps below, equal to and above 'now'; DUPSORT DBIs through dupsort_hack with a shadow produced by a previous real capture. distinct = distinct (operation, flags, main, shadow, now) tuples; non-trivial = main and shadow both non-empty and different"}
	env, closeEnv, err := newEnv()
	if err != nil {
		return nil, err
	}
	defer closeEnv()
	sy, err := newSyncer(env, memory.New(), syncerOpts{Native: false, DupHack: true})
	if err != nil {
		return nil, err
	}
	ctx := context.Background()
	var cases []string
	seen := map[string]bool{}
	nontriv := map[string]bool{}
	for i := 0; i < n; i++ {
		op := pick(r, []string{"capture", "capture", "capture", "project", "project", "capturedup", "projectdup"})
		intKey := (op == "capture" || op == "project") && r.Chance(30)
		var flags uint
		var pool [][]byte
		if intKey {
			flags = strategy.LMDBIntegerKeyFlag
			for _, v := range int4Pool {
				pool = append(pool, le32(v))
			}
		} else {
			pool = byteKeyPool
		}
		now := pick(r, []uint64{1000, 1000, 1000, 2, 1700000000000000000})
		genTSs := func() uint64 { return pick(r, []uint64{1, now - 1, now - 1, now / 2, now, now + 1}) }
		var mainPairs, shadowPairs []pair
		dup := op == "capturedup" || op == "projectdup"
		if dup {
			flags = lmdb.DupSort
			for _, k := range pool[:10] {
				if r.Chance(40) {
					nv := 1 + r.Intn(3)
					for j := 0; j < nv; j++ {
						v := pick(r, [][]byte{[]byte("v"), []byte("w"), []byte("vv"), []byte("\x00"), []byte("\x00\x00\x00\x00\x01"), bytes.Repeat([]byte("L"), 511), append(bytes.Repeat([]byte("L"), 505), byte('a'+r.Intn(2)))})
						mainPairs = append(mainPairs, pair{k, v})
					}
				}
			}
		} else {
			emptyMain := r.Chance(12) // the application deleted everything: the capture must mark every live shadow entry
			for _, k := range pool {
				if r.Chance(40) && !emptyMain {
					mainPairs = append(mainPairs, pair{k, pick(r, appVals)})
				}
				if r.Chance(45) {
					var v []byte
					switch r.Intn(12) {
					case 0, 1:
						v = mkStored(genTSs(), 7, 1, 0, nil) // deleted marker
					case 2:
						v = mkStored(genTSs(), 7, 1, 1, nil) // deleted marker with a padding block (as LoadOnce writes it with header_extra_padding_block)
					case 3:
						v = mkStored(genTSs(), 7, 0, 1, pick(r, appVals)) // padding block
					case 4:
						if r.Chance(30) {
							v = []byte("corrupt") // too short
						} else {
							v = mkStored(genTSs(), 7, 0, 0, pick(r, appVals))
						}
					default:
						v = mkStored(genTSs(), 7, 0, 0, pick(r, appVals))
					}
					shadowPairs = append(shadowPairs, pair{k, v})
				}
			}
		}
		var result []pair
		var runErr error
		var txnID uint64
		var mainCanon, shadowCanon []pair
		err := inRolledBackTxn(env, func(txn *lmdb.Txn) error {
			txnID = uint64(txn.ID())
			mainDBI, err := fillDBI(txn, "app", flags, mainPairs)
			if err != nil {
				return err
			}
			shFlags := flags & strategy.LMDBIntegerKeyFlag
			shDBI, err := fillDBI(txn, shadowPrefix+"app", shFlags, shadowPairs)
			if err != nil {
				return err
			}
			if dup {
				// a realistic shadow: capture a slightly different application state first
				_ = sy.VerifMainToShadow(ctx, txn, header.Timestamp(now/2)) // a refusal here just leaves the shadow as it is
				// then change the application DBI (sometimes: delete every pair)
				delAll := r.Chance(12)
				for _, p := range mainPairs {
					if r.Chance(25) || delAll {
						_ = txn.Del(mainDBI, p.K, p.V)
					}
				}
				if r.Chance(50) && !delAll {
					_ = txn.Put(mainDBI, pick(r, pool[:10]), []byte("new"), 0)
				}
				// replace a long value by another one sharing the prefix that fits into the shadow key
				for _, p := range mainPairs {
					if len(p.V) == 506 && r.Chance(60) {
						nv := append([]byte{}, p.V...)
						nv[505] ^= 3 // 'a' <-> 'b'
						if txn.Del(mainDBI, p.K, p.V) == nil {
							_ = txn.Put(mainDBI, p.K, nv, 0)
						}
					}
				}
			}
			if dup && r.Chance(50) {
				// a second capture after the deletions: the shadow now holds DELETION MARKERS for some pairs, in between
				// live pairs of the same key (what a mirror cycle after a delete, or a merged remote delete, leaves)
				_ = sy.VerifMainToShadow(ctx, txn, header.Timestamp(now/2+now/4))
			}
			if op == "projectdup" && r.Chance(35) {
				// pairs that arrived from DIFFERENT instances (merged into the shadow DBI by LoadOnce): a value and a
				// longer value extending it by a byte below the key length sort differently as shadow keys and as
				// LMDB duplicates — locally the encode check refuses the combination, merged remote data may hold it
				k := pick(r, [][]byte{[]byte("ab"), []byte("abcd"), []byte("k\x00k")})
				for _, v := range [][]byte{[]byte("x"), append([]byte("x"), append([]byte{byte(r.Intn(len(k)))}, []byte("tail")...)...)} {
					if e, err := syncer.VerifDupSortEncodeOne(snapshot.KV{Key: k, Value: v}); err == nil {
						_ = txn.Put(shDBI, e.Key, mkStored(now/2+1, 7, 0, 0, v), 0)
					}
				}
			}
			mainCanon, _ = dumpDBI(txn, mainDBI)
			shadowCanon, _ = dumpDBI(txn, shDBI)
			switch op {
			case "capture", "capturedup":
				runErr = sy.VerifMainToShadow(ctx, txn, header.Timestamp(now))
				if runErr == nil {
					result, err = dumpDBI(txn, shDBI)
				}
			default:
				runErr = sy.VerifShadowToMain(ctx, txn)
				if runErr == nil {
					result, err = dumpDBI(txn, mainDBI)
				}
			}
			return err
		})
		if err != nil {
			return nil, fmt.Errorf("case %d (%s): %w", i, op, err)
		}
		obs := "(SDb " + cDB(result) + ")"
		if runErr != nil {
			obs = fmt.Sprintf("(SErr %d)", shadowErrClass(runErr))
		}
		var cs string
		switch op {
		case "capture":
			cs = fmt.Sprintf("ShCapture %d %d %d 0 %s %s %s", flags, now, txnID, cDB(mainCanon), cDB(shadowCanon), obs)
		case "project":
			cs = fmt.Sprintf("ShProject %d %s %s %s", flags, cDB(mainCanon), cDB(shadowCanon), obs)
		case "capturedup":
			cs = fmt.Sprintf("ShCaptureDup %d %d 0 %s %s %s", now, txnID, cDB(mainCanon), cDB(shadowCanon), obs)
		default:
			cs = fmt.Sprintf("ShProjectDup %s %s %s", cDB(mainCanon), cDB(shadowCanon), obs)
		}
		cases = append(cases, cs)
		key := fmt.Sprintf("%s|%d|%d|%s|%s", op, flags, now, cDB(mainCanon), cDB(shadowCanon))
		seen[key] = true
		if len(mainCanon) > 0 && len(shadowCanon) > 0 {
			nontriv[key] = true
		}
		okind := "ok"
		if runErr != nil {
			okind = "err"
		}
		hist(out.Hist, fmt.Sprintf("%s/int=%v/%s", op, intKey, okind))
		out.CaseDescs = append(out.CaseDescs, key)

		// ---- implementation-side oracles: the mirror clauses of C11 / C20 on Go maps ----
		if runErr == nil {
			out.OracleN++
			for _, f := range mirrorOracle(op, now, txnID, mainCanon, shadowCanon, result) {
				f.Input = map[string]any{"op": op, "flags": flags, "now": now, "main": cDB(mainCanon), "shadow": cDB(shadowCanon), "result": cDB(result)}
				out.Oracle = append(out.Oracle, f)
			}
		}
	}
	if err := sweeperWiring(out); err != nil {
		return nil, err
	}
	out.Cases = len(cases)
	out.Distinct = len(nontriv)
	for i := 0; i < 3 && i < len(cases); i++ {
		out.Samples = append(out.Samples, cases[i*len(cases)/3])
	}
	files, err := writeCases(dir, "shadow", "From LS Require Import Base.Bytes Base.Res Strategy.Model Shadow.Model Corr.Obs Corr.Run_strategy Corr.Run_shadow.", "shcase", cases, 100)
	out.Shards = files
	return out, err
}

func shadowErrClass(err error) int {
	c := errClass(err)
	if c == clsOther {
		// dupsort_hack refusals and ErrEntry-wrapped header errors
		s := err.Error()
		if contains(s, "dupsort_hack") {
			return clsRefused
		}
	}
	return c
}

func contains(s, sub string) bool { return bytes.Contains([]byte(s), []byte(sub)) }

// mirrorOracle: clauses of C11 (and the cycle clause of C20) evaluated directly.
func mirrorOracle(op string, now, txn uint64, main, shadow, result []pair) []OracleFailure {
	var fs []OracleFailure
	add := func(prop, clause, desc string) {
		fs = append(fs, OracleFailure{Property: prop, Clause: clause, Desc: desc})
		if clause == "capture-untouched" {
			// the same fact is C10's: a capture that finds an entry unchanged rewrites nothing (no write amplification,
			// no fresh timestamps for idle snapshots to spread)
			fs = append(fs, OracleFailure{Property: "C10", Clause: "capture-rewrites-unchanged", Desc: desc})
		}
	}
	switch op {
	case "capture":
		mainM := map[string][]byte{}
		inMain := map[string]bool{}
		for _, p := range main {
			mainM[string(p.K)] = p.V
			inMain[string(p.K)] = true
		}
		oldM := map[string][]byte{}
		for _, p := range shadow {
			oldM[string(p.K)] = p.V
		}
		resM := map[string][]byte{}
		for _, p := range result {
			resM[string(p.K)] = p.V
		}
		keys := map[string]bool{}
		for k := range inMain {
			keys[k] = true
		}
		for k := range oldM {
			keys[k] = true
		}
		for k := range resM {
			keys[k] = true
		}
		ks := make([]string, 0, len(keys))
		for k := range keys {
			ks = append(ks, k)
		}
		sort.Strings(ks)
		for _, k := range ks {
			old, hadOld := logical(oldM[k])
			res, hasRes := logical(resM[k])
			if hadOld && old.TS >= now {
				continue // the generated case violates the clock assumption (stored timestamps < now): no claim for this key
			}
			if inMain[k] {
				v := mainM[k]
				switch {
				case !hasRes:
					add("C11", "capture-present", fmt.Sprintf("key %x is in the application DBI but has no parsable shadow entry after capture", k))
				case res.Del || !bytes.Equal(res.Val, v):
					add("C11", "capture-present", fmt.Sprintf("key %x: application value %x captured as del=%v value %x", k, v, res.Del, res.Val))
				case hadOld && !old.Del && bytes.Equal(old.Val, v):
					if !bytes.Equal(resM[k], oldM[k]) {
						add("C11", "capture-untouched", fmt.Sprintf("key %x unchanged by the application but its shadow entry was rewritten (timestamp %d -> %d)", k, old.TS, res.TS))
					}
				default:
					if hadOld && old.TS >= now {
						break // clock assumption violated by the generated case: no claim
					}
					if res.TS != now {
						add("C11", "capture-stamp", fmt.Sprintf("key %x changed by the application but stamped %d instead of the detection time %d", k, res.TS, now))
					}
				}
			} else {
				switch {
				case !hadOld && len(oldM[k]) == 0:
					if len(resM[k]) != 0 {
						add("C11", "capture-absent", fmt.Sprintf("key %x appeared in the shadow DBI from nowhere", k))
					}
				case hadOld && old.Del:
					if !bytes.Equal(resM[k], oldM[k]) {
						add("C11", "capture-untouched", fmt.Sprintf("deleted key %x: marker rewritten", k))
					}
				case hadOld:
					if old.TS >= now {
						break
					}
					if !hasRes || !res.Del || len(res.Val) != 0 || res.TS != now {
						add("C11", "capture-delete", fmt.Sprintf("key %x deleted by the application but shadow entry is %+v", k, res))
					}
				}
			}
		}
	case "capturedup":
		// C20: after an accepted capture every application pair is live in the shadow DBI with exactly its value
		live := map[string]bool{}
		for _, p := range result {
			if lv, ok := logical(p.V); ok && !lv.Del {
				k := p.K
				if len(k) >= 6 {
					kl := int(k[len(k)-1])
					if kl+5 <= len(k) {
						live[string(k[:kl])+"\x00|"+string(lv.Val)] = true
					}
				}
			}
		}
		for _, p := range main {
			if !live[string(p.K)+"\x00|"+string(p.V)] {
				add("C20", "capture-dup-value", fmt.Sprintf("application pair (%x, %d-byte value ..%x) is not live with that value in the shadow DBI after capture", p.K, len(p.V), p.V[max(0, len(p.V)-2):]))
			}
		}
	case "project":
		want := map[string][]byte{}
		emptyLive := map[string]bool{}
		for _, p := range shadow {
			lv, ok := logical(p.V)
			if !ok {
				return nil
			}
			if !lv.Del {
				want[string(p.K)] = lv.Val
				if len(lv.Val) == 0 {
					emptyLive[string(p.K)] = true
				}
			}
		}
		got := map[string][]byte{}
		for _, p := range result {
			got[string(p.K)] = p.V
		}
		for k, v := range want {
			g, ok := got[k]
			switch {
			case !ok && emptyLive[k]:
				add("C11", "project-empty-value", fmt.Sprintf("live entry %x with an EMPTY application value is missing from the application DBI after shadowToMain", k))
			case !ok:
				add("C11", "project-missing", fmt.Sprintf("live entry %x missing from the application DBI", k))
			case !bytes.Equal(g, v):
				add("C11", "project-value", fmt.Sprintf("key %x holds %x, merged state says %x", k, g, v))
			}
		}
		for k := range got {
			if _, ok := want[k]; !ok {
				add("C11", "project-extra", fmt.Sprintf("key %x is in the application DBI but deleted/absent in the merged state", k))
			}
		}
	case "projectdup":
		// C20: the rebuilt duplicate-keys DBI holds exactly the decoded pairs of the live shadow entries with a
		// non-empty value (whatever instance they came from)
		want := map[string]bool{}
		for _, p := range shadow {
			lv, ok := logical(p.V)
			if !ok || len(p.K) < 6 {
				return fs
			}
			kl := int(p.K[len(p.K)-1])
			if kl+5 > len(p.K) {
				return fs
			}
			if !lv.Del && len(lv.Val) > 0 {
				want[string(p.K[:kl])+"\x00|"+string(lv.Val)] = true
			}
		}
		got := map[string]bool{}
		for _, p := range result {
			got[string(p.K)+"\x00|"+string(p.V)] = true
		}
		for k := range want {
			if !got[k] {
				add("C20", "project-dup-pairs", fmt.Sprintf("pair %q is live in the shadow DBI but missing from the application's duplicate-keys DBI after shadowToMain", k))
			}
		}
		for k := range got {
			if !want[k] {
				add("C20", "project-dup-pairs", fmt.Sprintf("pair %q is in the application's duplicate-keys DBI but not live in the shadow DBI", k))
			}
		}
	}
	return fs
}
