module lsverif

go 1.25.11

require (
	github.com/CrowdStrike/csproto v0.35.0
	github.com/PowerDNS/lmdb-go v1.9.3
	github.com/PowerDNS/simpleblob v1.0.0
	github.com/c2h5oh/datasize v0.0.0-20231215233829-aa82cc1e6500
	github.com/gogo/protobuf v1.3.2
	github.com/klauspost/compress v1.18.6
	github.com/prometheus/client_golang v1.23.2
	github.com/samber/lo v1.52.0
	github.com/sirupsen/logrus v1.9.4
	github.com/spf13/cobra v1.10.2
	github.com/stretchr/testify v1.11.1
	github.com/wojas/go-healthz v0.2.0
	go.uber.org/atomic v1.11.0
	golang.org/x/sync v0.20.0
	gopkg.in/yaml.v2 v2.4.0
)

require (
	github.com/Azure/azure-sdk-for-go/sdk/azcore v1.21.1 // indirect
	github.com/Azure/azure-sdk-for-go/sdk/azidentity v1.13.1 // indirect
	github.com/Azure/azure-sdk-for-go/sdk/internal v1.12.0 // indirect
	github.com/Azure/azure-sdk-for-go/sdk/storage/azblob v1.6.3 // indirect
	github.com/AzureAD/microsoft-authentication-library-for-go v1.7.2 // indirect
	github.com/PowerDNS/go-tlsconfig v1.0.1 // indirect
	github.com/beorn7/perks v1.0.1 // indirect
	github.com/cespare/xxhash/v2 v2.3.0 // indirect
	github.com/cpuguy83/go-md2man/v2 v2.0.7 // indirect
	github.com/davecgh/go-spew v1.1.1 // indirect
	github.com/dustin/go-humanize v1.0.1 // indirect
	github.com/go-logr/logr v1.4.3 // indirect
	github.com/golang-jwt/jwt/v5 v5.3.1 // indirect
	github.com/golang/protobuf v1.5.4 // indirect
	github.com/google/uuid v1.6.0 // indirect
	github.com/inconshreveable/mousetrap v1.1.0 // indirect
	github.com/klauspost/cpuid/v2 v2.2.11 // indirect
	github.com/klauspost/crc32 v1.3.0 // indirect
	github.com/kylelemons/godebug v1.1.0 // indirect
	github.com/minio/crc64nvme v1.1.1 // indirect
	github.com/minio/md5-simd v1.1.2 // indirect
	github.com/minio/minio-go/v7 v7.2.0 // indirect
	github.com/munnerz/goautoneg v0.0.0-20191010083416-a7dc8b61c822 // indirect
	github.com/philhofer/fwd v1.2.0 // indirect
	github.com/pkg/browser v0.0.0-20240102092130-5ac0b6a4141c // indirect
	github.com/pmezard/go-difflib v1.0.0 // indirect
	github.com/prometheus/client_model v0.6.2 // indirect
	github.com/prometheus/common v0.68.0 // indirect
	github.com/prometheus/procfs v0.16.1 // indirect
	github.com/rs/xid v1.6.0 // indirect
	github.com/russross/blackfriday/v2 v2.1.0 // indirect
	github.com/spf13/pflag v1.0.10 // indirect
	github.com/tinylib/msgp v1.6.1 // indirect
	github.com/zeebo/xxh3 v1.1.0 // indirect
	go.opentelemetry.io/contrib/instrumentation/net/http/otelhttp v0.63.0 // indirect
	go.yaml.in/yaml/v3 v3.0.4 // indirect
	golang.org/x/crypto v0.51.0 // indirect
	golang.org/x/net v0.55.0 // indirect
	golang.org/x/sys v0.45.0 // indirect
	golang.org/x/text v0.37.0 // indirect
	google.golang.org/protobuf v1.36.11 // indirect
	gopkg.in/ini.v1 v1.67.2 // indirect
	gopkg.in/yaml.v3 v3.0.1 // indirect
)

// See https://github.com/PowerDNS/lightningstream/issues/112
// Can be removed once https://github.com/CrowdStrike/csproto/pull/208 is merged and released
replace github.com/CrowdStrike/csproto => github.com/wojas/csproto v0.0.0-20260107092112-0e013c7984a2
require github.com/PowerDNS/lightningstream v0.0.0
replace github.com/PowerDNS/lightningstream => /repo
