//go:build !race

package main

const concRaceEnabled = false
