package main

import (
	"bytes"
	"context"
	"fmt"
	"sort"
	"time"

	"github.com/PowerDNS/lightningstream/lmdbenv/header"
	"github.com/PowerDNS/lightningstream/snapshot"
	"github.com/PowerDNS/lightningstream/syncer"
	"github.com/PowerDNS/lmdb-go/lmdb"
	"github.com/PowerDNS/simpleblob/backends/memory"
)

func init() { areas["fleet"] = areaFleet }

type fleetInst struct {
	env    *lmdb.Env
	close  func()
	sy     *syncer.Syncer
	synced uint64
}

func cVer(v lver) string {
	return fmt.Sprintf("(mkVer %d %s %s)", v.TS, cBool(v.Del), cBytes(v.Val))
}

func fleetKey(dbi string, key []byte) []byte {
	return append(append([]byte(dbi), 0), key...)
}

func areaFleet(r *Rng, n int, dir string) (*AreaOut, error) {
	out := &AreaOut{Hist: map[string]int{}, Rule: "2-4 real Syncers (one LMDB each) sharing one in-memory bucket, driven op by op with a shared strictly increasing clock: application puts/deletes (native: explicit header timestamps incl. EQUAL timestamps on different instances and timestamp 0; shadow: plain values), SendOnce uploads, LoadOnce merges of ANY stored snapshot of any instance (not necessarily the newest; its own included), RESETS (an instance uploads, loses its LMDB and restarts under the same name with an empty one; it merges its own newest snapshot before its next upload, as the real loop does), then a forced quiescence phase (everybody uploads, everybody merges everybody's newest, twice). Native histories are replayed on the proven Fleet model and every instance's logical content is compared key by key; the oracle checks convergence to the last-writer-wins winner on the real LMDBs. distinct = distinct histories; non-trivial = at least two instances wrote the same key"}
	ctx := context.Background()
	var cases []string
	seen := map[string]bool{}
	nontriv := map[string]bool{}
	keyPool := [][]byte{[]byte("a"), []byte("ab"), []byte("b"), []byte("k\x00")}
	dbiPool := []string{"app", "b2"}
	for run := 0; run < n; run++ {
		native := r.Chance(65)
		ni := 2 + r.Intn(3)
		st := memory.New()
		insts := make([]*fleetInst, ni)
		fail := func(err error) (*AreaOut, error) {
			for _, in := range insts {
				if in != nil {
					in.close()
				}
			}
			return nil, err
		}
		for i := range insts {
			env, closeEnv, err := newEnv()
			if err != nil {
				return fail(err)
			}
			sy, err := newSyncer(env, st, syncerOpts{Native: native, DupHack: true, Instance: fmt.Sprintf("i%d", i)})
			if err != nil {
				closeEnv()
				return fail(err)
			}
			insts[i] = &fleetInst{env: env, close: closeEnv, sy: sy}
		}
		clock := uint64(1700000000000000000) + uint64(run)*1000000000
		tfix := clock + 500 // the shared "equal timestamp"
		type upl struct {
			inst int
			name string
		}
		var uploads []upl
		var ops []string
		shLast := map[string]map[int]appOp{} // shadow mode: fleet key -> instance -> its last application operation
		written := map[string][]lver{}       // fleet key -> versions written anywhere (native)
		writers := map[string]map[int]bool{}
		tick := func() { clock += 1000; setClock(clock) }
		needsOwn := make([]bool, ni) // reset since its last upload: merges its own newest snapshot before uploading (what the real loop guarantees, C05)
		nresets := 0
		var doMerge func(i, x int) error

		doUpload := func(i int) error {
			if needsOwn[i] {
				needsOwn[i] = false
				own := -1
				for x, u := range uploads {
					if u.inst == i {
						own = x
					}
				}
				if own >= 0 {
					if err := doMerge(i, own); err != nil {
						return err
					}
				}
			}
			tick()
			before, _ := st.List(ctx, "")
			id, err := insts[i].sy.SendOnce(ctx, insts[i].env)
			if err != nil {
				return fmt.Errorf("SendOnce(i%d): %w", i, err)
			}
			insts[i].synced = uint64(id)
			after, _ := st.List(ctx, "")
			if len(after) > len(before) {
				names := after.Names()
				old := map[string]bool{}
				for _, b := range before.Names() {
					old[b] = true
				}
				for _, nm := range names {
					if !old[nm] {
						uploads = append(uploads, upl{i, nm})
						ops = append(ops, fmt.Sprintf("FUpload %d", i))
					}
				}
			}
			return nil
		}
		doMerge = func(i, x int) error {
			tick()
			u := uploads[x]
			blob, err := st.Load(ctx, u.name)
			if err != nil {
				return err
			}
			sn, err := snapshot.LoadData(blob)
			if err != nil {
				return err
			}
			pn, _ := snapshot.ParseName(u.name)
			id, lc, err := insts[i].sy.LoadOnce(ctx, insts[i].env, fmt.Sprintf("i%d", u.inst), snapshot.Update{Snapshot: sn, NameInfo: pn}, header.TxnID(insts[i].synced))
			if err != nil {
				return fmt.Errorf("LoadOnce(i%d <- %s): %w", i, u.name, err)
			}
			if !lc {
				insts[i].synced = uint64(id)
			}
			ops = append(ops, fmt.Sprintf("FMerge %d %d", i, x))
			return nil
		}
		curLogical := func(i int, dbi string, key []byte) (lver, bool) {
			var res lver
			ok := false
			_ = insts[i].env.View(func(txn *lmdb.Txn) error {
				d, err := txn.OpenDBI(dbi, 0)
				if err != nil {
					return nil
				}
				v, err := txn.Get(d, key)
				if err != nil {
					return nil
				}
				res, ok = logical(v)
				return nil
			})
			return res, ok
		}
		doWrite := func(i int) error {
			tick()
			dbi := pick(r, dbiPool)
			key := pick(r, keyPool)
			del := r.Chance(25)
			val := pick(r, [][]byte{[]byte("v1"), []byte("v2"), []byte("x"), {}})
			if !native {
				if del {
					val = nil
				} else if len(val) == 0 {
					val = []byte("v3") // empty values in shadow mode: known finding F6, reported under C11
				}
				aops := []appOp{{DBI: dbi, Key: key, Val: val, Del: del}}
				if r.Chance(18) {
					// a duplicate-keys DBI under the dupsort hack: add or remove one (key, value) pair
					dv := pick(r, [][]byte{[]byte("v1"), []byte("v2"), []byte("x")})
					return applyApp(insts[i].env, false, clock, []appOp{{DBI: "dups", Flags: lmdb.DupSort, Key: pick(r, keyPool[:2]), Val: dv, Del: r.Chance(35)}})
				}
				if r.Chance(12) {
					// the application empties the whole DBI (every key deleted, the DBI itself stays)
					aops = nil
					_ = insts[i].env.View(func(txn *lmdb.Txn) error {
						d, err := txn.OpenDBI(dbi, 0)
						if err != nil {
							return nil
						}
						ps, _ := dumpDBI(txn, d)
						for _, p := range ps {
							aops = append(aops, appOp{DBI: dbi, Key: p.K, Del: true})
						}
						return nil
					})
					if len(aops) == 0 {
						aops = []appOp{{DBI: dbi, Key: key, Val: val, Del: del}}
					}
				}
				for _, o := range aops {
					if o.Del && needsOwn[i] {
						// after a reset the key may not be back yet: deleting an absent key writes nothing
						present := false
						_ = insts[i].env.View(func(txn *lmdb.Txn) error {
							d, err := txn.OpenDBI(o.DBI, 0)
							if err != nil {
								return nil
							}
							_, err = txn.Get(d, o.Key)
							present = err == nil
							return nil
						})
						if !present {
							continue
						}
					}
					fk := string(fleetKey(o.DBI, o.Key))
					if shLast[fk] == nil {
						shLast[fk] = map[int]appOp{}
					}
					shLast[fk][i] = o
				}
				return applyApp(insts[i].env, false, clock, aops)
			}
			ts := clock
			cur, has := curLogical(i, dbi, key)
			switch {
			case r.Chance(25) && (!has || cur.TS < tfix):
				ts = tfix // equal timestamps on different instances
			case r.Chance(4) && !has:
				ts = 0
			}
			v := lver{TS: ts, Del: del, Val: val}
			if del {
				v.Val = nil
			}
			err := insts[i].env.Update(func(txn *lmdb.Txn) error {
				d, err := txn.OpenDBI(dbi, lmdb.Create)
				if err != nil {
					return err
				}
				fl := byte(0)
				if del {
					fl = 1
				}
				return txn.Put(d, key, mkStored(ts, uint64(txn.ID()), fl, 0, v.Val), 0)
			})
			if err != nil {
				return err
			}
			fk := string(fleetKey(dbi, key))
			written[fk] = append(written[fk], v)
			if writers[fk] == nil {
				writers[fk] = map[int]bool{}
			}
			writers[fk][i] = true
			ops = append(ops, fmt.Sprintf("FWrite %d %s %s", i, cBytes(fleetKey(dbi, key)), cVer(v)))
			return nil
		}

		// an instance loses its LMDB right after an upload and restarts under the same name with an EMPTY one (new
		// process: new Syncer, all volatile state gone); its application may write, and others' snapshots may be
		// merged, before its own old snapshot is back
		doReset := func(i int) error {
			if err := doUpload(i); err != nil {
				return err
			}
			insts[i].close()
			env, closeEnv, err := newEnv()
			if err != nil {
				return err
			}
			sy, err := newSyncer(env, st, syncerOpts{Native: native, DupHack: true, Instance: fmt.Sprintf("i%d", i)})
			if err != nil {
				closeEnv()
				return err
			}
			insts[i] = &fleetInst{env: env, close: closeEnv, sy: sy}
			needsOwn[i] = true
			nresets++
			ops = append(ops, fmt.Sprintf("FReset %d", i))
			return nil
		}
		withResets := r.Chance(40)

		nops := 5 + r.Intn(30)
		for s := 0; s < nops; s++ {
			i := r.Intn(ni)
			var err error
			switch k := r.Intn(10); {
			case withResets && r.Chance(10):
				err = doReset(i)
			case k < 5:
				err = doWrite(i)
			case k < 7:
				err = doUpload(i)
			default:
				if len(uploads) > 0 {
					err = doMerge(i, r.Intn(len(uploads)))
				}
			}
			if err != nil {
				return fail(fmt.Errorf("run %d: %w", run, err))
			}
		}
		// forced quiescence
		for round := 0; round < 2; round++ {
			for i := 0; i < ni; i++ {
				if err := doUpload(i); err != nil {
					return fail(err)
				}
			}
			for i := 0; i < ni; i++ {
				for j := 0; j < ni; j++ {
					if i == j {
						continue
					}
					newest := -1
					for x, u := range uploads {
						if u.inst == j {
							newest = x
						}
					}
					if newest >= 0 {
						if err := doMerge(i, newest); err != nil {
							return fail(err)
						}
					}
				}
			}
		}
		// observe
		var obs []string
		conflict := false
		for _, w := range writers {
			if len(w) >= 2 {
				conflict = true
			}
		}
		final := make([]map[string]lver, ni)
		finalApp := make([]string, ni)
		for i := 0; i < ni; i++ {
			final[i] = map[string]lver{}
			dump, _, _ := dumpEnv(insts[i].env)
			var appDump []dbiDump
			for _, d := range dump {
				src := d.Name
				isShadow := len(d.Name) > len(shadowPrefix) && d.Name[:len(shadowPrefix)] == shadowPrefix
				if !native {
					if !isShadow {
						appDump = append(appDump, d)
						continue
					}
					src = d.Name[len(shadowPrefix):]
				}
				for _, p := range d.Data {
					if lv, ok := logical(p.V); ok {
						final[i][string(fleetKey(src, p.K))] = lv
					}
				}
			}
			finalApp[i] = cEnv(appDump, 0)
		}
		if native {
			for i := 0; i < ni; i++ {
				for _, dbi := range dbiPool {
					for _, key := range keyPool {
						fk := fleetKey(dbi, key)
						if lv, ok := final[i][string(fk)]; ok {
							obs = append(obs, fmt.Sprintf("(%d%%nat, %s, Some %s)", i, cBytes(fk), cVer(lv)))
						} else {
							obs = append(obs, fmt.Sprintf("(%d%%nat, %s, None)", i, cBytes(fk)))
						}
					}
				}
			}
			cs := fmt.Sprintf("mkFC %s %s", lst(ops), lst(obs))
			cases = append(cases, cs)
			key := lst(ops)
			seen[key] = true
			if conflict {
				nontriv[key] = true
			}
			out.CaseDescs = append(out.CaseDescs, key)
		}
		hist(out.Hist, fmt.Sprintf("native=%v/instances=%d/conflict=%v/resets=%d", native, ni, conflict, min(nresets, 2)))

		// ---------------- implementation-side oracle (C01, C04) ----------------
		out.OracleN++
		in := map[string]any{"native": native, "instances": ni, "ops": lst(ops)}
		keys := map[string]bool{}
		for i := range final {
			for k := range final[i] {
				keys[k] = true
			}
		}
		for k := range written {
			keys[k] = true
		}
		ks := make([]string, 0, len(keys))
		for k := range keys {
			ks = append(ks, k)
		}
		sort.Strings(ks)
	keyLoop:
		for _, k := range ks {
			for i := 1; i < ni; i++ {
				a, aok := final[0][k]
				b, bok := final[i][k]
				if aok != bok || (aok && !a.eq(b)) {
					out.Oracle = append(out.Oracle, OracleFailure{"C01", "converge", fmt.Sprintf("after quiescence key %x: instance 0 holds %+v (present=%v), instance %d holds %+v (present=%v)", k, a, aok, i, b, bok), in})
					break keyLoop
				}
			}
			if native {
				var max lver
				has := false
				for _, v := range written[k] {
					if !has || lwwWins(v, max) {
						max, has = v, true
					}
				}
				got, gok := final[0][k]
				if has != gok || (has && !got.eq(max)) {
					clause := "lww-winner"
					prop := "C01"
					if has && max.Del {
						prop, clause = "C04", "deletion-propagates"
					}
					out.Oracle = append(out.Oracle, OracleFailure{prop, clause, fmt.Sprintf("key %x: last-writer-wins winner of everything written is %+v (any=%v), the fleet converged to %+v (present=%v)", k, max, has, got, gok), in})
					break keyLoop
				}
			}
		}
		if !native {
			for i := 1; i < ni; i++ {
				if finalApp[i] != finalApp[0] {
					out.Oracle = append(out.Oracle, OracleFailure{"C01", "identical-app-dbis", fmt.Sprintf("application DBIs of instance 0 and %d differ after quiescence: %s vs %s", i, finalApp[0], finalApp[i]), in})
					break
				}
			}
			// a key only ONE instance ever wrote ends as that instance's last operation left it (its versions are
			// the only ones, the newest of them is the winner): present with that value, or absent after a delete
			appNow := map[string][]byte{}
			{
				dump, _, _ := dumpEnv(insts[0].env)
				for _, d := range dump {
					if len(d.Name) > len(shadowPrefix) && d.Name[:len(shadowPrefix)] == shadowPrefix {
						continue
					}
					for _, p := range d.Data {
						appNow[string(fleetKey(d.Name, p.K))] = p.V
					}
				}
			}
			var sks []string
			for fk := range shLast {
				sks = append(sks, fk)
			}
			sort.Strings(sks)
			for _, fk := range sks {
				if len(shLast[fk]) != 1 {
					continue
				}
				for wi, o := range shLast[fk] {
					got, present := appNow[fk]
					if o.Del && present {
						for _, pid := range []string{"C04", "C01"} { // the deletion is the last-writer-wins winner of everything written
							out.Oracle = append(out.Oracle, OracleFailure{pid, "deletion-propagates", fmt.Sprintf("shadow mode: key %x was last DELETED by its only writer (instance %d) but the fleet converged to value %x", fk, wi, got), in})
						}
					} else if !o.Del && (!present || !bytes.Equal(got, o.Val)) {
						out.Oracle = append(out.Oracle, OracleFailure{"C01", "lww-winner", fmt.Sprintf("shadow mode: key %x was last written as %x by its only writer (instance %d) but the fleet converged to %x (present=%v)", fk, o.Val, wi, got, present), in})
					}
				}
			}
			// and they are the live part of the merged state
			for i := 0; i < ni; i++ {
				dump, _, _ := dumpEnv(insts[i].env)
				for _, d := range dump {
					if len(d.Name) > len(shadowPrefix) && d.Name[:len(shadowPrefix)] == shadowPrefix {
						continue
					}
					if d.Flags&lmdb.DupSort != 0 {
						continue // shadow keys of a duplicate-keys DBI are the encoded pairs (C20); convergence is checked above
					}
					for _, p := range d.Data {
						lv, ok := final[i][string(fleetKey(d.Name, p.K))]
						if !ok || lv.Del || !bytes.Equal(lv.Val, p.V) {
							out.Oracle = append(out.Oracle, OracleFailure{"C04", "deleted-not-visible", fmt.Sprintf("instance %d application DBI %s key %x = %x but the merged state says %+v (present=%v)", i, d.Name, p.K, p.V, lv, ok), in})
						}
					}
				}
			}
		}
		for _, in := range insts {
			in.close()
		}
	}
	syncer.VerifSetClock(nil)
	_ = time.Now
	out.Cases = len(cases)
	out.Distinct = len(nontriv)
	for i := 0; i < 2 && i < len(cases); i++ {
		out.Samples = append(out.Samples, cases[i*len(cases)/2])
	}
	files, err := writeCases(dir, "fleet", "From LS Require Import Base.Bytes Base.Res Merge.Version Merge.Order Fleet.Model Corr.Obs Corr.Run_fleet.", "fcase", cases, 40)
	out.Shards = files
	return out, err
}
