package main

import (
	"bytes"
	"context"
	"fmt"
	"github.com/PowerDNS/lightningstream/lmdbenv/dbiflags"
	"sort"
	"strings"

	"github.com/PowerDNS/lightningstream/lmdbenv/header"
	"github.com/PowerDNS/lightningstream/snapshot"
	"github.com/PowerDNS/lightningstream/syncer"
	"github.com/PowerDNS/lmdb-go/lmdb"
	"github.com/PowerDNS/simpleblob/backends/memory"
)

func init() { areas["dupsort"] = areaDupsort }

func kvCoq(k snapshot.KV) string {
	return fmt.Sprintf("(mkKV %s %s %d %d)", cBytes(k.Key), cBytes(k.Value), k.TimestampNano, k.Flags)
}

func kobs(f func() (snapshot.KV, error)) (s string, ok bool, res snapshot.KV) {
	defer func() {
		if r := recover(); r != nil {
			s, ok = "KPanic", false
		}
	}()
	k, err := f()
	if err != nil {
		return fmt.Sprintf("(KErr %d)", clsRefused), false, k
	}
	return "(KOk " + kvCoq(k) + ")", true, k
}

func genDupKey(r *Rng) []byte {
	switch r.Intn(12) {
	case 0:
		return nil
	case 1:
		return r.Bytes(256 + r.Intn(3))
	case 2:
		return r.Bytes(255)
	case 3:
		return r.Bytes(254)
	case 4:
		return []byte{0}
	case 5:
		return []byte("k\x00")
	case 6:
		return []byte("k\x00\x00\x00\x00")
	default:
		return pick(r, [][]byte{[]byte("k"), []byte("key"), []byte("a"), []byte("ab"), []byte("zz")})
	}
}

func genDupVal(r *Rng, klen int) []byte {
	room := 511 - klen - 4 - 1
	switch r.Intn(10) {
	case 0:
		return nil
	case 1:
		return []byte{0}
	case 2:
		return []byte{0, 0, 0, 0, 1}
	case 3:
		if room > 0 {
			return bytes.Repeat([]byte("L"), room)
		}
		return nil
	case 4:
		return bytes.Repeat([]byte("L"), max(room+1, 1))
	case 5:
		return bytes.Repeat([]byte("L"), max(room-1, 1))
	case 6:
		return append(bytes.Repeat([]byte("L"), max(room, 1)), byte('a'+r.Intn(2)))
	default:
		return pick(r, [][]byte{[]byte("v"), []byte("val"), []byte("w"), []byte("\xff")})
	}
}

func areaDupsort(r *Rng, n int, dir string) (*AreaOut, error) {
	out := &AreaOut{Hist: map[string]int{}, Rule: "dupSortHackEncodeOne/DecodeOne/Encode on keys of length 0,1,..,254,255,256+ (incl. zero bytes and the separator inside keys), values empty / with zero bytes next to the separator / exactly filling, one short of and one over the space left in the key / sharing a prefix longer than that space; decoder on encoded keys, mutated keys and random bytes; plus full mirror cycles on real DUPSORT DBIs (oracle). distinct = distinct inputs; non-trivial = every case"}
	var cases []string
	seen := map[string]bool{}
	for i := 0; i < n; i++ {
		switch k := r.Intn(10); {
		case k < 4: // encode one
			key := genDupKey(r)
			e := snapshot.KV{Key: key, Value: genDupVal(r, len(key)), TimestampNano: pick(r, []uint64{0, 5}), Flags: pick(r, []uint32{0, 1, 7})}
			s, ok, res := kobs(func() (snapshot.KV, error) { return syncer.VerifDupSortEncodeOne(e) })
			cases = append(cases, fmt.Sprintf("DEnc %s %s", kvCoq(e), s))
			hist(out.Hist, fmt.Sprintf("enc/ok=%v", ok))
			seen["e"+kvCoq(e)] = true
			out.CaseDescs = append(out.CaseDescs, "enc "+kvCoq(e))
			if ok { // oracle C20: legal length, exact recovery
				out.OracleN++
				d, err := syncer.VerifDupSortDecodeOne(res)
				if len(res.Key) > 511 {
					out.Oracle = append(out.Oracle, OracleFailure{"C20", "legal-length", fmt.Sprintf("shadow key of %d bytes", len(res.Key)), kvCoq(e)})
				}
				if err != nil || !bytes.Equal(d.Key, e.Key) || !bytes.Equal(d.Value, e.Value) || d.Flags != e.Flags {
					out.Oracle = append(out.Oracle, OracleFailure{"C20", "decode-encode", fmt.Sprintf("decode(encode(e)) = %v, %v", kvCoq(d), err), kvCoq(e)})
				}
			}
		case k < 7: // decode one
			var e snapshot.KV
			switch r.Intn(4) {
			case 0:
				e = snapshot.KV{Key: r.Bytes(r.Intn(12)), Value: []byte("v")}
			default:
				key := genDupKey(r)
				if len(key) == 0 || len(key) > 255 {
					key = []byte("k")
				}
				enc, _ := syncer.VerifDupSortEncodeOne(snapshot.KV{Key: key, Value: genDupVal(r, len(key)), Flags: pick(r, []uint32{0, 1})})
				e = enc
				if r.Chance(40) && len(e.Key) > 0 { // mutate
					kk := append([]byte{}, e.Key...)
					switch r.Intn(3) {
					case 0:
						kk[len(kk)-1] = byte(r.U64())
					case 1:
						kk[r.Intn(len(kk))] ^= 1 << uint(r.Intn(8))
					default:
						kk = kk[:r.Intn(len(kk))]
					}
					e.Key = kk
				}
			}
			s, ok, _ := kobs(func() (snapshot.KV, error) { return syncer.VerifDupSortDecodeOne(e) })
			cases = append(cases, fmt.Sprintf("DDec %s %s", kvCoq(e), s))
			hist(out.Hist, fmt.Sprintf("dec/ok=%v", ok))
			seen["d"+kvCoq(e)] = true
			out.CaseDescs = append(out.CaseDescs, "dec "+kvCoq(e))
		default: // encode a sorted pair list (as read from a DUPSORT DBI)
			var ps []pair
			nk := 1 + r.Intn(4)
			for j := 0; j < nk; j++ {
				key := genDupKey(r)
				if len(key) == 0 && r.Chance(80) {
					key = []byte("k")
				}
				for t := 0; t < 1+r.Intn(3); t++ {
					ps = append(ps, pair{key, genDupVal(r, len(key))})
				}
			}
			sort.Slice(ps, func(a, b int) bool {
				if c := bytes.Compare(ps[a].K, ps[b].K); c != 0 {
					return c < 0
				}
				return bytes.Compare(ps[a].V, ps[b].V) < 0
			})
			// de-duplicate identical pairs (a DUPSORT DBI holds a pair once)
			var uniq []pair
			for _, p := range ps {
				if len(uniq) == 0 || !bytes.Equal(uniq[len(uniq)-1].K, p.K) || !bytes.Equal(uniq[len(uniq)-1].V, p.V) {
					uniq = append(uniq, p)
				}
			}
			d := snapshot.NewDBI()
			var in []string
			for _, p := range uniq {
				kv := snapshot.KV{Key: p.K, Value: p.V}
				if len(p.K) == 0 && len(p.V) == 0 {
					continue // Append drops an all-default entry
				}
				d.Append(kv)
				in = append(in, kvCoq(kv))
			}
			enc, err := syncer.VerifDupSortEncode(d)
			obs := "None"
			if err == nil {
				kvs, _ := enc.AsInefficientKVList()
				var os []string
				for _, k := range kvs {
					os = append(os, kvCoq(k))
				}
				obs = "(Some " + lst(os) + ")"
				// oracle C20: distinct, order-preserving, recoverable
				out.OracleN++
				for j := range kvs {
					if j > 0 && bytes.Compare(kvs[j-1].Key, kvs[j].Key) >= 0 {
						out.Oracle = append(out.Oracle, OracleFailure{"C20", "encode-checked", "accepted data maps to non-increasing shadow keys", lst(in)})
					}
				}
			}
			cases = append(cases, fmt.Sprintf("DEncList %s %s", lst(in), obs))
			hist(out.Hist, fmt.Sprintf("enclist/ok=%v", err == nil))
			seen["l"+lst(in)] = true
			out.CaseDescs = append(out.CaseDescs, "enclist "+lst(in))
		}
	}
	// mirror-cycle oracle on real DUPSORT DBIs (C20): capture then projection leaves the pair set unchanged
	if err := dupCycleOracle(r, n/6+5, out); err != nil {
		return nil, err
	}
	// dbi_options.override_create_flags is written as TEXT in the configuration ("MDB_DUPSORT|MDB_DUPFIXED", also
	// with ',', '+' or ' ' between the names): every set of flags survives the round trip through its text form —
	// a list that loses MDB_DUPSORT creates the duplicate-keys DBI as a plain DBI, silently
	for bits := 0; bits < 64; bits++ {
		f := dbiflags.Flags(bits << 1)
		txt, _ := f.MarshalText()
		for _, sep := range []string{"|", ",", "+", " ", " | "} {
			out.OracleN++
			in := strings.ReplaceAll(string(txt), "|", sep)
			var g dbiflags.Flags
			err := g.UnmarshalText([]byte(in))
			if err != nil || g != f {
				out.Oracle = append(out.Oracle, OracleFailure{"C20", "override-flags-text-round-trip", fmt.Sprintf("override_create_flags %q parses to %s (error %v), expected %s", in, g, err, f), map[string]any{"text": in}})
				break
			}
		}
	}
	hist(out.Hist, "override-flags-text-round-trip")
	out.Cases = len(cases)
	out.Distinct = len(seen)
	for i := 0; i < 3 && i < len(cases); i++ {
		out.Samples = append(out.Samples, cases[i*len(cases)/3])
	}
	files, err := writeCases(dir, "dupsort", "From LS Require Import Base.Bytes Base.Res Merge.Model DupSort.Model Corr.Obs Corr.Run_dupsort.", "dcase", cases, 150)
	out.Shards = files
	return out, err
}

func lst(xs []string) string {
	if len(xs) == 0 {
		return "[]"
	}
	return "[" + joinS(xs, "; ") + "]"
}

func dupCycleOracle(r *Rng, n int, out *AreaOut) error {
	env, closeEnv, err := newEnv()
	if err != nil {
		return err
	}
	defer closeEnv()
	sy, err := newSyncer(env, memory.New(), syncerOpts{Native: false, DupHack: true})
	if err != nil {
		return err
	}
	ctx := context.Background()
	for i := 0; i < n; i++ {
		var ps []pair
		for _, k := range [][]byte{[]byte("a"), []byte("ab"), []byte("k"), []byte("zz"), r.Bytes(255)} {
			if r.Chance(60) {
				for t := 0; t < 1+r.Intn(3); t++ {
					v := genDupVal(r, len(k))
					if len(v) == 0 || len(v) > 511 {
						v = []byte("v")
					}
					ps = append(ps, pair{k, v})
				}
			}
		}
		var before, after []pair
		var e1, e2 error
		err := inRolledBackTxn(env, func(txn *lmdb.Txn) error {
			dbi, err := fillDBI(txn, "app", lmdb.DupSort, ps)
			if err != nil {
				return err
			}
			before, _ = dumpDBI(txn, dbi)
			if e1 = sy.VerifMainToShadow(ctx, txn, header.Timestamp(1000+uint64(i))); e1 != nil {
				return nil
			}
			if e2 = sy.VerifShadowToMain(ctx, txn); e2 != nil {
				return nil
			}
			after, _ = dumpDBI(txn, dbi)
			return nil
		})
		if err != nil {
			return err
		}
		out.OracleN++
		if e1 != nil {
			continue // refused: nothing was altered (transaction would be aborted)
		}
		if e2 != nil {
			out.Oracle = append(out.Oracle, OracleFailure{"C20", "cycle", "projection failed after an accepted capture: " + e2.Error(), cDB(before)})
			continue
		}
		if cDB(before) != cDB(after) {
			out.Oracle = append(out.Oracle, OracleFailure{"C20", "cycle", "a mirror cycle without remote changes altered the application's pair set", map[string]string{"before": cDB(before), "after": cDB(after)}})
		}
	}
	return nil
}
