package main

import (
	"errors"
	"fmt"
	"os"

	"github.com/PowerDNS/lightningstream/lmdbenv"
	"github.com/PowerDNS/lmdb-go/lmdb"
)

// newEnv creates a throw-away LMDB environment; call the returned func to remove it.
func newEnv() (*lmdb.Env, func(), error) {
	dir, err := os.MkdirTemp("", "lsverif_lmdb_")
	if err != nil {
		return nil, nil, err
	}
	env, err := lmdbenv.NewWithOptions(dir, lmdbenv.Options{Create: true, MaxDBs: 200, MapSize: 256 << 20, NoSubdir: false})
	if err != nil {
		os.RemoveAll(dir)
		return nil, nil, err
	}
	return env, func() { env.Close(); os.RemoveAll(dir) }, nil
}

var errRollback = errors.New("rollback")

// inRolledBackTxn runs f in a write transaction that is always aborted.
func inRolledBackTxn(env *lmdb.Env, f func(txn *lmdb.Txn) error) error {
	err := env.Update(func(txn *lmdb.Txn) error {
		if err := f(txn); err != nil {
			return err
		}
		return errRollback
	})
	if err == errRollback {
		return nil
	}
	return err
}

type pair struct{ K, V []byte }

func dumpDBI(txn *lmdb.Txn, dbi lmdb.DBI) ([]pair, error) {
	c, err := txn.OpenCursor(dbi)
	if err != nil {
		return nil, err
	}
	defer c.Close()
	var out []pair
	flag := uint(lmdb.First)
	for {
		k, v, err := c.Get(nil, nil, flag)
		if lmdb.IsNotFound(err) {
			return out, nil
		}
		if err != nil {
			return nil, err
		}
		out = append(out, pair{append([]byte{}, k...), append([]byte{}, v...)})
		flag = lmdb.Next
	}
}

func cDB(ps []pair) string {
	if len(ps) == 0 {
		return "[]"
	}
	s := "["
	for i, p := range ps {
		if i > 0 {
			s += "; "
		}
		s += fmt.Sprintf("(%s, %s)", cBytes(p.K), cBytes(p.V))
	}
	return s + "]"
}
