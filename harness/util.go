package main

import (
	"context"
	"encoding/json"
	"errors"
	"fmt"
	"os"
	"path/filepath"
	"sort"
	"strings"
	"time"

	"github.com/PowerDNS/lightningstream/lmdbenv/header"
	"github.com/PowerDNS/lightningstream/lmdbenv/strategy"
)

// ---- deterministic PRNG (splitmix64); every random choice derives from one state ----

type Rng struct{ s uint64 }

func NewRng(seed uint64) *Rng {
	// scramble the seed so that neighbouring seeds give unrelated streams
	z := seed ^ 0xD6E8FEB86659FD93
	z = (z ^ (z >> 32)) * 0xD6E8FEB86659FD93
	z = (z ^ (z >> 32)) * 0xD6E8FEB86659FD93
	return &Rng{s: z ^ (z >> 32)}
}
func (r *Rng) U64() uint64 {
	r.s += 0x9E3779B97F4A7C15
	z := r.s
	z = (z ^ (z >> 30)) * 0xBF58476D1CE4E5B9
	z = (z ^ (z >> 27)) * 0x94D049BB133111EB
	return z ^ (z >> 31)
}
func (r *Rng) Intn(n int) int {
	if n <= 0 {
		return 0
	}
	return int(r.U64() % uint64(n))
}
func (r *Rng) Bool() bool        { return r.U64()&1 == 1 }
func (r *Rng) Chance(p int) bool { return r.Intn(100) < p }
func (r *Rng) Bytes(n int) []byte {
	b := make([]byte, n)
	for i := range b {
		b[i] = byte(r.U64())
	}
	return b
}
func pick[T any](r *Rng, xs []T) T { return xs[r.Intn(len(xs))] }

// ---- Coq literal writers ----

func cN(u uint64) string { return fmt.Sprintf("%d", u) }
func cBool(b bool) string {
	if b {
		return "true"
	}
	return "false"
}
func cBytes(b []byte) string {
	if len(b) == 0 {
		return "[]"
	}
	return fmt.Sprintf("(hex \"%x\")", b)
}
func cList(items []string) string {
	if len(items) == 0 {
		return "[]"
	}
	return "[" + strings.Join(items, ";\n  ") + "]"
}

// ---- error classes (must match Corr/Obs.v err_class) ----

const (
	clsTooShort  = 1
	clsVersion   = 2
	clsNotSorted = 3
	clsRefused   = 4
	clsMalformed = 5
	clsCancelled = 6
	clsOther     = 7
)

func errClass(err error) int {
	if err == nil {
		return 0
	}
	s := err.Error()
	switch {
	case errors.Is(err, header.ErrTooShort) || strings.Contains(s, header.ErrTooShort.Error()):
		return clsTooShort
	case errors.Is(err, header.ErrVersion) || strings.Contains(s, header.ErrVersion.Error()):
		return clsVersion
	case errors.Is(err, strategy.ErrNotSorted):
		return clsNotSorted
	case errors.Is(err, context.Canceled):
		return clsCancelled
	}
	return clsOther
}

// Obs is the canonical observation of a call returning ([]byte, error)
type Obs struct {
	Kind  string // "bytes" | "err" | "panic" | "timeout"
	Cls   int
	Bytes []byte
	Msg   string
}

func (o Obs) Coq() string {
	switch o.Kind {
	case "bytes":
		return "(OBytes " + cBytes(o.Bytes) + ")"
	case "err":
		return fmt.Sprintf("(OErr %d)", o.Cls)
	case "panic":
		return "OPanic"
	default:
		return "OTimeout"
	}
}

// guard runs f with recover and a timeout
func guard(f func() ([]byte, error)) (o Obs) {
	done := make(chan Obs, 1)
	go func() {
		defer func() {
			if r := recover(); r != nil {
				done <- Obs{Kind: "panic", Msg: fmt.Sprint(r)}
			}
		}()
		b, err := f()
		if err != nil {
			done <- Obs{Kind: "err", Cls: errClass(err), Msg: err.Error()}
			return
		}
		done <- Obs{Kind: "bytes", Bytes: append([]byte{}, b...)}
	}()
	select {
	case o = <-done:
		return o
	case <-time.After(5 * time.Second):
		return Obs{Kind: "timeout"}
	}
}

// ---- output ----

type OracleFailure struct {
	Property string `json:"property"`
	Clause   string `json:"clause"`
	Desc     string `json:"desc"`
	Input    any    `json:"input"`
}

type AreaOut struct {
	Area      string          `json:"area"`
	Seed      uint64          `json:"seed"`
	N         int             `json:"n"`
	Cases     int             `json:"cases"`
	Distinct  int             `json:"distinct_nontrivial"`
	Rule      string          `json:"rule"`
	Hist      map[string]int  `json:"histogram"`
	Samples   []any           `json:"samples"`
	Oracle    []OracleFailure `json:"oracle_failures"`
	OracleN   int             `json:"oracle_evaluations"`
	CaseDescs []string        `json:"case_descs"`
	Shards    []string        `json:"shards"`
}

func hist(m map[string]int, k string) { m[k]++ }

func sortedKeys(m map[string]int) []string {
	ks := make([]string, 0, len(m))
	for k := range m {
		ks = append(ks, k)
	}
	sort.Strings(ks)
	return ks
}

// writeCases writes cases_<area>_<k>.v files with at most shardSize cases each.
func writeCases(dir, area, imports, caseType string, cases []string, shardSize int) ([]string, error) {
	var files []string
	for k := 0; k*shardSize < len(cases) || k == 0; k++ {
		lo := k * shardSize
		hi := lo + shardSize
		if hi > len(cases) {
			hi = len(cases)
		}
		name := fmt.Sprintf("cases_%s_%d.v", strings.ReplaceAll(area, "-", "_"), k)
		var sb strings.Builder
		sb.WriteString("From Coq Require Import String.\nFrom LS Require Import Base.Hex.\n")
		sb.WriteString(imports)
		sb.WriteString("\nOpen Scope N_scope.\n")
		fmt.Fprintf(&sb, "Definition cases : list %s := %s.\n", caseType, cList(cases[lo:hi]))
		sb.WriteString("Definition M := Eval vm_compute in mismatches cases.\nPrint M.\n")
		sb.WriteString("Definition COV := Eval vm_compute in coverage cases.\nPrint COV.\n")
		if err := os.WriteFile(filepath.Join(dir, name), []byte(sb.String()), 0o644); err != nil {
			return nil, err
		}
		files = append(files, name)
		if hi >= len(cases) {
			break
		}
	}
	return files, nil
}

func writeJSON(path string, v any) error {
	b, err := json.MarshalIndent(v, "", " ")
	if err != nil {
		return err
	}
	return os.WriteFile(path, b, 0o644)
}

func hexs(b []byte) string { return fmt.Sprintf("%x", b) }
