package main

import (
	"bytes"
	"context"
	"errors"
	"fmt"
	"os"
	"sort"
	"strings"
	"sync"
	"sync/atomic"
	"time"

	"github.com/PowerDNS/lightningstream/config"
	"github.com/PowerDNS/lightningstream/snapshot"
	"github.com/PowerDNS/lightningstream/syncer"
	"github.com/PowerDNS/lmdb-go/lmdb"
	"github.com/PowerDNS/simpleblob"
	"github.com/PowerDNS/simpleblob/backends/memory"
)

func init() { areas["crash"] = areaCrash }

// crashBucket: a bucket that numbers uploads, logs every mutation and checks that the join of the newest
// snapshots never decreases (C05), with injected Load / Store failures.
type crashBucket struct {
	simpleblob.Interface
	mu           sync.Mutex
	seqOf        map[string]int // name -> sequence number
	instOf       map[string]int
	next         int
	events       *[]string
	failStore    int
	lastUp       map[int]time.Time // instance -> time of its last successful upload
	failLoad     map[string]int    // name prefix -> remaining failures
	cleaner      int               // instance whose cleaner is running (-1 = none)
	lost         []string
	wrongDeletes []string
	onUpload     func(inst int, name string) string
	instIndex    func(name string) int
}

type jver map[string]lver

func (b *crashBucket) joinNewest(ctx context.Context) jver {
	ls, err := b.Interface.List(ctx, "")
	if err != nil {
		return nil
	}
	newest := map[string]string{}
	for _, n := range ls.Names() {
		ni, err := snapshot.ParseName(n)
		if err != nil {
			continue
		}
		if cur, ok := newest[ni.InstanceID]; !ok || n > cur {
			newest[ni.InstanceID] = n
		}
	}
	j := jver{}
	for _, n := range newest {
		blob, err := b.Interface.Load(ctx, n)
		if err != nil {
			continue
		}
		sn, err := snapshot.LoadData(blob)
		if err != nil {
			continue
		}
		ds, _ := decodeSnapDBIs(sn)
		for _, d := range ds {
			for _, e := range d.Entries {
				v := lver{TS: e.TimestampNano, Del: e.Flags&1 == 1, Val: e.Value}
				k := d.Name + "\x00" + string(e.Key)
				if cur, ok := j[k]; !ok || lwwWins(v, cur) {
					j[k] = v
				}
			}
		}
	}
	return j
}

func (b *crashBucket) checkMonotone(before, after jver, what string) {
	keys := make([]string, 0, len(before))
	for k := range before {
		keys = append(keys, k)
	}
	sort.Strings(keys)
	for _, k := range keys {
		a, ok := after[k]
		if !ok || lwwWins(before[k], a) {
			b.lost = append(b.lost, fmt.Sprintf("%s: key %x was %+v in the join of the newest snapshots, afterwards %+v (present=%v)", what, k, before[k], a, ok))
			return
		}
	}
}

func (b *crashBucket) Store(ctx context.Context, name string, data []byte) error {
	b.mu.Lock()
	defer b.mu.Unlock()
	if b.failStore > 0 {
		b.failStore--
		return errors.New("injected Store failure")
	}
	before := b.joinNewest(ctx)
	if err := b.Interface.Store(ctx, name, data); err != nil {
		return err
	}
	inst := b.instIndex(name)
	b.seqOf[name] = b.next
	b.instOf[name] = inst
	b.next++
	if msg := b.onUpload(inst, name); msg != "" {
		b.lost = append(b.lost, msg)
	}
	if b.lastUp != nil {
		b.lastUp[inst] = time.Now()
	}
	*b.events = append(*b.events, fmt.Sprintf("EUpload %d", inst))
	b.checkMonotone(before, b.joinNewest(ctx), "upload of "+name)
	return nil
}

func (b *crashBucket) Delete(ctx context.Context, name string) error {
	b.mu.Lock()
	defer b.mu.Unlock()
	before := b.joinNewest(ctx)
	// C12: an instance's NEWEST snapshot goes only after the cleaner's own process merged it and uploaded a
	// snapshot of its own afterwards (never, therefore, the newest snapshot of the cleaner's own instance)
	if pn, perr := snapshot.ParseName(name); perr == nil && b.cleaner >= 0 {
		newest := true
		if ls, err := b.Interface.List(ctx, ""); err == nil {
			for _, o := range ls.Names() {
				if po, err := snapshot.ParseName(o); err == nil && po.InstanceID == pn.InstanceID && o > name {
					newest = false
				}
			}
		}
		if q, ok := b.seqOf[name]; ok && newest {
			merged, uploadedAfter := false, false
			startIdx := 0
			for i, ev := range *b.events {
				if ev == fmt.Sprintf("EStart %d", b.cleaner) {
					startIdx = i // only what the CURRENT process of that instance did counts
				}
			}
			for _, ev := range (*b.events)[startIdx:] {
				if ev == fmt.Sprintf("EMerge %d %d", b.cleaner, q) {
					merged = true
				} else if merged && ev == fmt.Sprintf("EUpload %d", b.cleaner) {
					uploadedAfter = true
				}
			}
			if !merged || !uploadedAfter {
				b.wrongDeletes = append(b.wrongDeletes, fmt.Sprintf("the cleaner of instance %d deleted %s, the NEWEST snapshot of instance %s (upload %d); its process had merged it: %v, and uploaded a snapshot of its own afterwards: %v", b.cleaner, name, pn.InstanceID, q, merged, uploadedAfter))
			}
		}
	}
	if err := b.Interface.Delete(ctx, name); err != nil {
		return err
	}
	if q, ok := b.seqOf[name]; ok {
		*b.events = append(*b.events, fmt.Sprintf("EDelete %d %d", b.cleaner, q))
	}
	b.checkMonotone(before, b.joinNewest(ctx), fmt.Sprintf("delete of %s by the cleaner of instance %d", name, b.cleaner))
	return nil
}

// instBucket is the bucket as ONE instance's process sees it: its List calls can be made to fail (the storage is
// unreachable from that host) without disturbing the other instances
type instBucket struct {
	*crashBucket
	failList *int32
}

func (b instBucket) List(ctx context.Context, prefix string) (simpleblob.BlobList, error) {
	if atomic.AddInt32(b.failList, -1) >= 0 {
		return nil, errors.New("injected List failure")
	}
	atomic.StoreInt32(b.failList, 0)
	return b.crashBucket.Interface.List(ctx, prefix)
}

func (b *crashBucket) Load(ctx context.Context, name string) ([]byte, error) {
	b.mu.Lock()
	for p, n := range b.failLoad {
		if n > 0 && strings.HasPrefix(name, p) {
			b.failLoad[p] = n - 1
			b.mu.Unlock()
			if n%3 == 0 {
				// an object store that lists a blob it cannot serve yet (read-after-list inconsistency, replication
				// lag): a transient not-found error for a snapshot that IS there
				return nil, fmt.Errorf("injected Load failure: %w", os.ErrNotExist)
			}
			return nil, errors.New("injected Load failure")
		}
	}
	b.mu.Unlock()
	return b.Interface.Load(ctx, name)
}

type crashInst struct {
	idx      int
	name     string
	env      *lmdb.Env
	closeEnv func()
	sy       *syncer.Syncer
	cancel   context.CancelFunc
	done     chan error
	running  bool
	prevBy   map[string]time.Time
	// bookkeeping for the own-first oracle
	ownAtStart      bool
	listedOwnSeq    int
	mergedOwn       bool
	uploadedThisRun bool
	maxOwnMerged    int
	lastWrite       time.Time // last application transaction that really committed
	failList        *int32    // List calls of this instance's process still to fail
}

func areaCrash(r *Rng, n int, dir string) (*AreaOut, error) {
	out := &AreaOut{Hist: map[string]int{}, Rule: "2-3 real Syncers running their real sync loops (real receiver, real cleaner objects) on one recording bucket: application writes, stops and restarts with the LMDB kept or EMPTIED under the same instance name, delayed/failed downloads of the own snapshot, failed Store calls, cleaner runs of any instance with a clock far in the future (so superseded and stale-instance deletions happen). The event log (start/stop/merge/upload/delete with upload sequence numbers) is replayed against the guards of the proven Fleet/Crash model; the oracle checks on the real bucket, at every Store/Delete, that the join of the newest snapshots never decreases, and that nobody uploads before merging its own newest snapshot. distinct = distinct event logs; non-trivial = contains a restart and a deletion"}
	syncer.VerifSetClock(nil)
	var cases []string
	seen := map[string]bool{}
	nontriv := map[string]bool{}
	for run := 0; run < n; run++ {
		native := r.Chance(60)
		ni := 2 + r.Intn(2)
		var events []string
		var evMu sync.Mutex
		insts := make([]*crashInst, ni)
		bk := &crashBucket{Interface: memory.New(), seqOf: map[string]int{}, instOf: map[string]int{}, events: &events, failLoad: map[string]int{}, lastUp: map[int]time.Time{}, cleaner: -1}
		bk.instIndex = func(name string) int {
			pn, err := snapshot.ParseName(name)
			if err != nil {
				return -1
			}
			for _, in := range insts {
				if in != nil && in.name == pn.InstanceID {
					return in.idx
				}
			}
			return -1
		}
		var ownFirst []string
		bk.onUpload = func(inst int, name string) string {
			if inst < 0 {
				return ""
			}
			in := insts[inst]
			if in.uploadedThisRun {
				return "" // every later upload of this process follows its own previous upload
			}
			in.uploadedThisRun = true
			// the FIRST upload of this process: the newest snapshot its name has in the bucket right now (it may be
			// older than the one listed at start-up when a cleaner removed that one meanwhile) must have been merged
			// by this process, or a newer one of its own
			ls, _ := bk.Interface.List(context.Background(), dbName+"__"+in.name+"__")
			newest := -1
			for _, nm := range ls.Names() {
				if q, ok := bk.seqOf[nm]; ok && nm != name && q > newest {
					newest = q
				}
			}
			if newest >= 0 && in.maxOwnMerged < newest {
				return fmt.Sprintf("own-first: instance %s uploaded %s as the first snapshot of this process before merging its own newest snapshot in the bucket (sequence %d; newest own snapshot merged by this process: %d, -1 = none; listed at start-up: %d)", in.name, name, newest, in.maxOwnMerged, in.listedOwnSeq)
			}
			return ""
		}
		_ = ownFirst

		forced := r.Chance(35)
		unsafeNames := r.Chance(50)
		onceNext := false // the next process created runs a single pass (only_once)
		newInst := func(i int, env *lmdb.Env, closeEnv func()) (*crashInst, error) {
			// configured instance names contain characters outside the safe alphabet (as host names do): LS uses the
			// sanitised form everywhere (snapshot names, the set of instances it waits for)
			in := &crashInst{idx: i, name: fmt.Sprintf("n-%d", i), env: env, closeEnv: closeEnv, failList: new(int32)}
			cfgName := fmt.Sprintf("n.%d", i)
			if unsafeNames {
				cfgName = fmt.Sprintf("n_%d", i)
			}
			sy, err := newSyncer(env, instBucket{bk, in.failList}, syncerOpts{Native: native, DupHack: true, Instance: cfgName, Mod: func(c *config.Config, lc *config.LMDB) {
				c.StorageRetryCount = 3
				c.StoragePollInterval = 3 * time.Millisecond
				c.LMDBPollInterval = 2 * time.Millisecond
				c.StorageRetryInterval = 2 * time.Millisecond
				c.Storage.Cleanup = config.Cleanup{Enabled: true, Interval: time.Hour, MustKeepInterval: time.Second, RemoveOldInstancesInterval: 30 * time.Minute}
				if forced {
					c.StorageForceSnapshotInterval = 30 * time.Millisecond // periodic forced snapshots (scaled down from hours)
				}
				c.OnlyOnce = onceNext
			}})
			if err != nil {
				return nil, err
			}
			in.sy = sy
			return in, nil
		}
		start := func(in *crashInst) {
			// what does the start-up listing see for the own name?
			bk.mu.Lock()
			ls, _ := bk.Interface.List(context.Background(), dbName+"__"+in.name+"__")
			names := ls.Names()
			sort.Strings(names)
			in.ownAtStart = len(names) > 0
			in.mergedOwn = false
			in.uploadedThisRun = false
			in.maxOwnMerged = -1
			in.listedOwnSeq = -1
			if len(names) > 0 {
				in.listedOwnSeq = bk.seqOf[names[len(names)-1]]
			}
			events = append(events, fmt.Sprintf("EStart %d", in.idx))
			bk.mu.Unlock()
			in.prevBy = map[string]time.Time{}
			ctx, cancel := context.WithCancel(context.Background())
			in.cancel = cancel
			in.done = make(chan error, 1)
			sy := in.sy
			syncer.VerifSetYield(sy, func(p string) {
				// merges completed since the previous yield show up in lastByInstance
				cur := sy.VerifLastByInstance()
				for inst, ts := range cur {
					if prev, ok := in.prevBy[inst]; !ok || !prev.Equal(ts) {
						in.prevBy[inst] = ts
						bk.mu.Lock()
						for nm, q := range bk.seqOf {
							pn, err := snapshot.ParseName(nm)
							if err == nil && pn.InstanceID == inst && pn.Timestamp.Equal(ts) {
								events = append(events, fmt.Sprintf("EMerge %d %d", in.idx, q))
								if inst == in.name && q == in.listedOwnSeq {
									in.mergedOwn = true
								}
								if inst == in.name && q > in.maxOwnMerged {
									in.maxOwnMerged = q
								}
							}
						}
						bk.mu.Unlock()
					}
				}
			})
			in.running = true
			go func() { in.done <- sy.Sync(ctx) }()
		}
		stop := func(in *crashInst) {
			if !in.running {
				return
			}
			in.cancel()
			select {
			case <-in.done:
			case <-time.After(5 * time.Second):
			}
			syncer.VerifSetYield(in.sy, nil)
			in.running = false
			bk.mu.Lock()
			events = append(events, fmt.Sprintf("EStop %d", in.idx))
			bk.mu.Unlock()
		}
		cleanup := func() {
			for _, in := range insts {
				if in != nil {
					stop(in)
					in.closeEnv()
				}
			}
		}
		fail := func(err error) (*AreaOut, error) { cleanup(); return nil, err }
		for i := range insts {
			env, closeEnv, err := newEnv()
			if err != nil {
				return fail(err)
			}
			in, err := newInst(i, env, closeEnv)
			if err != nil {
				closeEnv()
				return fail(err)
			}
			insts[i] = in
		}
		write := func(in *crashInst) {
			i0, _ := in.env.Info()
			_ = applyApp(in.env, native, uint64(time.Now().UnixNano()), genAppOps(r, native, false, 1+r.Intn(2)))
			if i1, _ := in.env.Info(); i0 != nil && i1 != nil && i1.LastTxnID != i0.LastTxnID {
				in.lastWrite = time.Now()
			}
		}
		settle := func(d time.Duration) { time.Sleep(d) }

		// phase 1: everybody starts with some data and exchanges it
		for _, in := range insts {
			write(in)
			start(in)
			settle(25 * time.Millisecond)
		}
		settle(60 * time.Millisecond)
		restarts, deletes := 0, 0
		nev := 5 + r.Intn(8)
		for e := 0; e < nev; e++ {
			in := insts[r.Intn(ni)]
			switch k := r.Intn(12); {
			case k < 3:
				write(in)
				settle(time.Duration(5+r.Intn(30)) * time.Millisecond)
			case k < 5: // restart, LMDB kept: a NEW process (new Syncer object: all volatile state is lost)
				stop(in)
				if r.Chance(50) {
					write(in) // changed while down
				}
				kin, err := newInst(in.idx, in.env, in.closeEnv)
				if err != nil {
					return fail(err)
				}
				insts[in.idx] = kin
				kin.lastWrite = in.lastWrite
				klf := r.Chance(20) // the storage is unreachable for the first listing of the new process (it retries after 1 s)
				if klf {
					atomic.StoreInt32(kin.failList, 1)
				}
				start(kin)
				if klf {
					settle(1100 * time.Millisecond)
				}
				restarts++
				settle(40 * time.Millisecond)
			case k < 8: // restart with an EMPTIED LMDB under the same name
				stop(in)
				in.closeEnv()
				env, closeEnv, err := newEnv()
				if err != nil {
					return fail(err)
				}
				nin, err := newInst(in.idx, env, closeEnv)
				if err != nil {
					closeEnv()
					return fail(err)
				}
				insts[in.idx] = nin
				if r.Chance(60) { // the own snapshot is slow to download
					bk.mu.Lock()
					bk.failLoad[dbName+"__"+nin.name+"__"] = 3 + r.Intn(25)
					bk.mu.Unlock()
				}
				if r.Chance(60) {
					write(nin) // the application writes before the old state is back
				}
				listFails := r.Chance(20)
				if listFails {
					atomic.StoreInt32(nin.failList, 1)
				}
				start(nin)
				if listFails {
					settle(1100 * time.Millisecond) // the start-up listing is retried after one second
				} else if r.Chance(40) {
					// the storage is unreachable for a few LATER polls, while the own old snapshot may still be on its way
					settle(time.Duration(4+r.Intn(8)) * time.Millisecond)
					atomic.StoreInt32(nin.failList, int32(1+r.Intn(3)))
				}
				restarts++
				settle(time.Duration(20+r.Intn(60)) * time.Millisecond)
			case k < 10: // cleaner of this instance, far in the future
				if !in.running {
					break
				}
				bk.mu.Lock()
				bk.cleaner = in.idx
				bk.mu.Unlock()
				future := time.Now().Add(time.Duration(2+e) * time.Hour)
				_ = in.sy.VerifCleaner().RunOnce(context.Background(), future)
				_ = in.sy.VerifCleaner().RunOnce(context.Background(), future.Add(10*time.Second))
				bk.mu.Lock()
				bk.cleaner = -1
				bk.mu.Unlock()
				deletes++
			case k < 11:
				bk.mu.Lock()
				bk.failStore += 1 + r.Intn(2)
				bk.mu.Unlock()
				write(in)
				settle(30 * time.Millisecond)
			default:
				settle(time.Duration(10+r.Intn(40)) * time.Millisecond)
			}
			if e == nev/2 && ni >= 2 && r.Chance(45) {
				// a restart while ANOTHER instance's snapshot cannot be downloaded (for seconds): this instance waits for
				// its own old snapshot only, and publishes what its application commits
				in = insts[in.idx] // the event above may have replaced the process (and its LMDB)
				o := insts[(in.idx+1)%ni]
				stop(in)
				bk.mu.Lock()
				bk.failLoad[dbName+"__"+o.name+"__"] = 100000
				bk.mu.Unlock()
				kin, err := newInst(in.idx, in.env, in.closeEnv)
				if err != nil {
					return fail(err)
				}
				kin.lastWrite = in.lastWrite
				insts[in.idx] = kin
				start(kin)
				restarts++
				settle(30 * time.Millisecond)
				write(kin)
				wrote := kin.lastWrite
				deadline := time.Now().Add(2500 * time.Millisecond)
				published := false
				for time.Now().Before(deadline) && !wrote.IsZero() {
					bk.mu.Lock()
					up := bk.lastUp[kin.idx]
					bk.mu.Unlock()
					if up.After(wrote) {
						published = true
						break
					}
					select {
					case err := <-kin.done:
						kin.done <- err
						published = true // Sync returned (fatal error): a dead process, judged elsewhere
					default:
					}
					time.Sleep(5 * time.Millisecond)
				}
				bk.mu.Lock()
				bk.failLoad[dbName+"__"+o.name+"__"] = 0
				bk.mu.Unlock()
				if !published && !wrote.IsZero() {
					out.Oracle = append(out.Oracle, OracleFailure{"C09", "unpublished-while-other-download-fails", fmt.Sprintf("instance %s restarted while the snapshot of instance %s could not be downloaded; its application committed, and 2.5 s later nothing had been uploaded (downloads of its OWN snapshots were healthy)", kin.name, o.name), map[string]any{"native": native, "events": lst(events)}})
				}
			}
		}
		settle(60 * time.Millisecond)
		if r.Chance(40) {
			// one instance is stopped, its application commits, and a single-pass run (only_once) follows: the run merges
			// what is in the bucket, publishes the commit, and ends by itself
			in := insts[r.Intn(ni)]
			stop(in)
			write(in)
			wrote := in.lastWrite
			onceNext = true
			oin, err := newInst(in.idx, in.env, in.closeEnv)
			onceNext = false
			if err != nil {
				return fail(err)
			}
			oin.lastWrite = wrote
			insts[in.idx] = oin
			start(oin)
			restarts++
			var onceErr error
			returned := false
			select {
			case onceErr = <-oin.done:
				oin.done <- onceErr
				returned = true
			case <-time.After(6 * time.Second):
			}
			bk.mu.Lock()
			up := bk.lastUp[oin.idx]
			bk.mu.Unlock()
			switch {
			case !returned:
				out.Oracle = append(out.Oracle, OracleFailure{"C16", "once-exits", fmt.Sprintf("instance %s: Sync with only_once did not return within 6 s (storage healthy)", oin.name), map[string]any{"native": native, "events": lst(events)}})
			case onceErr == nil && !wrote.IsZero() && !up.After(wrote):
				// (C01 too: what is never published cannot reach the other replicas, however long they keep merging)
				out.Oracle = append(out.Oracle, OracleFailure{"C01", "only-once-publishes", fmt.Sprintf("instance %s: the application committed while Lightning Stream was down; the only_once run that followed returned without error but uploaded nothing afterwards: no other replica can ever receive that commit", oin.name), map[string]any{"native": native, "events": lst(events)}})
				out.Oracle = append(out.Oracle, OracleFailure{"C09", "only-once-publishes", fmt.Sprintf("instance %s: the application committed while Lightning Stream was down; the only_once run that followed returned without error but uploaded nothing afterwards", oin.name), map[string]any{"native": native, "events": lst(events)}})
			}
			stop(oin)
			// back to a normal process for the final phase
			nin, err := newInst(in.idx, in.env, in.closeEnv)
			if err != nil {
				return fail(err)
			}
			nin.lastWrite = wrote
			insts[in.idx] = nin
			start(nin)
			settle(40 * time.Millisecond)
		}
		if !forced && r.Chance(40) {
			// an instance is restored from nothing while a peer is down: A publishes data the stopped peer B has never
			// seen, A's LMDB is lost, its application writes again before Lightning Stream starts (a NON-empty LMDB that
			// is behind its own newest snapshot), the download of that snapshot is slow; then B comes back
			a := insts[r.Intn(ni)]
			b := insts[(a.idx+1)%ni]
			stop(b)
			before := a.lastWrite
			for t := 0; t < 5 && !a.lastWrite.After(before); t++ {
				write(a)
			}
			for dl := time.Now().Add(2 * time.Second); time.Now().Before(dl) && a.running; {
				bk.mu.Lock()
				up := bk.lastUp[a.idx]
				bk.mu.Unlock()
				if up.After(a.lastWrite) {
					break
				}
				time.Sleep(5 * time.Millisecond)
			}
			stop(a)
			a.closeEnv()
			env, closeEnv, err := newEnv()
			if err != nil {
				return fail(err)
			}
			na, err := newInst(a.idx, env, closeEnv)
			if err != nil {
				closeEnv()
				return fail(err)
			}
			insts[a.idx] = na
			for t := 0; t < 5 && na.lastWrite.IsZero(); t++ {
				write(na)
			}
			bk.mu.Lock()
			bk.failLoad[dbName+"__"+na.name+"__"] = 10 + r.Intn(20)
			bk.mu.Unlock()
			start(na)
			restarts++
			settle(time.Duration(20+r.Intn(40)) * time.Millisecond)
			nb, err := newInst(b.idx, b.env, b.closeEnv)
			if err != nil {
				return fail(err)
			}
			nb.lastWrite = b.lastWrite
			insts[b.idx] = nb
			start(nb)
			restarts++
			settle(60 * time.Millisecond)
		}
		// C09: with storage healthy again and nothing else happening, every running instance publishes what its
		// application committed (bounded wait; an instance whose Sync returned, e.g. after exhausting the Store
		// retry budget, is a dead process and publishes at its next start)
		bk.mu.Lock()
		bk.failStore = 0
		for k := range bk.failLoad {
			bk.failLoad[k] = 0
		}
		bk.mu.Unlock()
		var unpublished []string
		deadline := time.Now().Add(4 * time.Second)
		for {
			unpublished = unpublished[:0]
			for _, in := range insts {
				if in == nil || !in.running || in.lastWrite.IsZero() {
					continue
				}
				select {
				case err := <-in.done:
					in.done <- err // Sync returned: not a running process any more
					continue
				default:
				}
				bk.mu.Lock()
				up := bk.lastUp[in.idx]
				bk.mu.Unlock()
				if !up.After(in.lastWrite) {
					unpublished = append(unpublished, fmt.Sprintf("instance %s: application commit at %s, last upload at %s (zero = never)", in.name, in.lastWrite.Format("15:04:05.000"), up.Format("15:04:05.000")))
				}
			}
			if len(unpublished) == 0 || time.Now().After(deadline) {
				break
			}
			time.Sleep(10 * time.Millisecond)
		}
		// C10: an idle instance uploads at the configured forced interval, not at every poll
		if forced && len(unpublished) == 0 {
			const window = 360 * time.Millisecond
			bk.mu.Lock()
			ev0 := len(events)
			bk.mu.Unlock()
			time.Sleep(window)
			bk.mu.Lock()
			per := map[string]int{}
			for _, ev := range events[ev0:] {
				if strings.HasPrefix(ev, "EUpload ") {
					per[ev]++
				}
			}
			bk.mu.Unlock()
			allowed := int(window/(30*time.Millisecond)) + 3
			for ev, c := range per {
				if c > allowed {
					out.Oracle = append(out.Oracle, OracleFailure{"C10", "idle-uploads-only-at-forced-interval", fmt.Sprintf("applications stopped, nothing left to publish, storage_force_snapshot_interval 30 ms: instance %s uploaded %d snapshots in %v (at most %d fit the interval; LMDB poll interval 2 ms)", strings.TrimPrefix(ev, "EUpload "), c, window, allowed), map[string]any{"native": native, "forced_interval": "30ms"}})
				}
			}
			hist(out.Hist, "forced-interval-rate-checked")
		}
		// C01 on the real loops: once nothing is left to publish and the fleet has gone quiet, every live instance
		// that has merged the newest snapshot of every other instance holds the same logical content
		if len(unpublished) == 0 && !forced {
			quiet := false
			bk.mu.Lock()
			lastN, lastChange := bk.next, time.Now()
			bk.mu.Unlock()
			for dl := time.Now().Add(3 * time.Second); time.Now().Before(dl); {
				time.Sleep(15 * time.Millisecond)
				bk.mu.Lock()
				nn := bk.next
				bk.mu.Unlock()
				if nn != lastN {
					lastN, lastChange = nn, time.Now()
				} else if time.Since(lastChange) > 200*time.Millisecond {
					quiet = true
					break
				}
			}
			var live []*crashInst
			for _, in := range insts {
				if in == nil || !in.running {
					continue
				}
				dead := false
				select {
				case err := <-in.done:
					in.done <- err
					dead = true
				default:
				}
				stop(in) // the loop goroutine is gone afterwards: its bookkeeping can be read
				if !dead {
					live = append(live, in)
				}
			}
			newestTS := map[string]time.Time{}
			if ls, err := bk.Interface.List(context.Background(), ""); err == nil {
				for _, nm := range ls.Names() {
					if pn, err := snapshot.ParseName(nm); err == nil && pn.Timestamp.After(newestTS[pn.InstanceID]) {
						newestTS[pn.InstanceID] = pn.Timestamp
					}
				}
			}
			allMerged := quiet && len(live) >= 2
			for _, in := range live {
				lb := in.sy.VerifLastByInstance()
				for name, ts := range newestTS {
					if name != in.name && !lb[name].Equal(ts) {
						allMerged = false
					}
				}
			}
			hist(out.Hist, fmt.Sprintf("convergence-evaluated=%v", allMerged))
			if allMerged {
				content := func(in *crashInst) map[string]string {
					m := map[string]string{}
					dump, _, _ := dumpEnv(in.env)
					for _, d := range dump {
						isShadow := strings.HasPrefix(d.Name, shadowPrefix)
						if strings.HasPrefix(d.Name, "_sync") && !isShadow {
							continue
						}
						if native || isShadow {
							for _, p := range d.Data {
								if lv, ok := logical(p.V); ok {
									m[d.Name+"\x00"+string(p.K)] = fmt.Sprintf("%+v", lv)
								} else {
									m[d.Name+"\x00"+string(p.K)] = fmt.Sprintf("unparsable %x", p.V)
								}
							}
						} else if d.Flags&lmdb.DupSort == 0 {
							for _, p := range d.Data {
								if len(p.V) > 0 { // empty application values in shadow mode: known finding F6, reported under C11
									m["app:"+d.Name+"\x00"+string(p.K)] = fmt.Sprintf("%x", p.V)
								}
							}
						}
					}
					return m
				}
				c0 := content(live[0])
			cmp:
				for _, in := range live[1:] {
					ci := content(in)
					keys := map[string]bool{}
					for k := range c0 {
						keys[k] = true
					}
					for k := range ci {
						keys[k] = true
					}
					ks := make([]string, 0, len(keys))
					for k := range keys {
						ks = append(ks, k)
					}
					sort.Strings(ks)
					for _, k := range ks {
						if c0[k] != ci[k] {
							out.Oracle = append(out.Oracle, OracleFailure{"C01", "replicas-differ-after-quiescence", fmt.Sprintf("real sync loops, applications stopped, nothing left to publish, every live instance has merged the newest snapshot of every other instance: key %x is %q on instance %s and %q on instance %s (empty = absent)", k, c0[k], live[0].name, ci[k], in.name), map[string]any{"native": native, "events": lst(events)}})
							break cmp
						}
					}
				}
			}
		}
		cleanup()
		for _, u := range unpublished {
			out.Oracle = append(out.Oracle, OracleFailure{"C09", "unpublished-after-settle", "4 s after the last event, storage healthy: " + u, map[string]any{"native": native, "events": lst(events)}})
		}

		evMu.Lock()
		cs := fmt.Sprintf("mkCC %s", lst(events))
		evMu.Unlock()
		cases = append(cases, cs)
		seen[cs] = true
		if restarts > 0 && deletes > 0 {
			nontriv[cs] = true
		}
		out.CaseDescs = append(out.CaseDescs, cs)
		hist(out.Hist, fmt.Sprintf("native=%v/instances=%d/restarts=%d/cleaner-runs=%d", native, ni, min(restarts, 3), min(deletes, 3)))
		out.OracleN++
		for _, w := range bk.wrongDeletes {
			out.Oracle = append(out.Oracle, OracleFailure{"C12", "newest-snapshot-deleted", w, map[string]any{"native": native, "events": lst(events)}})
		}
		for _, l := range bk.lost {
			clause := "join-never-decreases"
			if strings.HasPrefix(l, "own-first") {
				clause = "own-first"
			}
			out.Oracle = append(out.Oracle, OracleFailure{"C05", clause, l, map[string]any{"native": native, "events": lst(events)}})
		}
	}
	_ = bytes.Equal
	if err := hookReady(out); err != nil {
		return nil, err
	}
	if err := corruptBlobsOnRealLoops(out); err != nil {
		return nil, err
	}
	if err := deltaBeforeSnapshot(out); err != nil {
		return nil, err
	}
	if err := ownNewestCorrupt(out); err != nil {
		return nil, err
	}
	out.Cases = len(cases)
	out.Distinct = len(nontriv)
	for i := 0; i < 2 && i < len(cases); i++ {
		out.Samples = append(out.Samples, cases[i*len(cases)/2])
	}
	files, err := writeCases(dir, "crash", "From LS Require Import Base.Bytes Base.Res Corr.Obs Corr.Run_crash.", "ccase", cases, 40)
	out.Shards = files
	return out, err
}
