package main

// Area "names" (property C15): snapshot/name.go (NameTimestamp, NameTimestampFromNano, BuildName,
// ParseName) and the instance-name sanitiser of syncer/utils.go against Names/Model.v, plus the
// implementation-side oracles of C15 (round trip, order of names == order of timestamps, sanitiser
// alphabet, UTC independence, other databases / non-snapshots rejected).

import (
	"bytes"
	"fmt"
	"regexp"
	"strings"
	"time"

	"github.com/PowerDNS/lightningstream/config"
	"github.com/PowerDNS/lightningstream/lmdbenv/header"
	"github.com/PowerDNS/lightningstream/snapshot"
	"github.com/PowerDNS/lightningstream/syncer"
	"github.com/PowerDNS/lmdb-go/lmdb"
	"github.com/PowerDNS/simpleblob"
	"github.com/PowerDNS/simpleblob/backends/memory"
	"github.com/sirupsen/logrus"
)

func init() { areas["names"] = areaNames }

// The sanitiser is the unexported (*Syncer).instanceID of syncer/utils.go, reached through the build-tag
// export (*Syncer).VerifInstanceID on a Syncer made by syncer.New on a throw-away LMDB environment
// (never started). The configured name is never empty here (an empty one falls back to os.Hostname).
type nmSanitiser struct {
	env  *lmdb.Env
	st   simpleblob.Interface
	done func()
}

func nmNewSanitiser() (*nmSanitiser, error) {
	logrus.SetLevel(logrus.ErrorLevel) // syncer.New logs two Info lines per instance
	env, done, err := newEnv()
	if err != nil {
		return nil, err
	}
	return &nmSanitiser{env: env, st: memory.New(), done: done}, nil
}

func (z *nmSanitiser) instanceID(configured string) (string, error) {
	s, err := syncer.New("main", z.env, z.st, config.Config{Instance: configured}, config.LMDB{}, syncer.Options{})
	if err != nil {
		return "", err
	}
	return s.VerifInstanceID(), nil
}

const nmNsDay = int64(86400) * 1e9

func nmZ(v int64) string {
	if v < 0 {
		return fmt.Sprintf("(%d)%%Z", v)
	}
	return fmt.Sprintf("%d%%Z", v)
}

func nmBytesList(l []string) string {
	items := make([]string, len(l))
	for i, s := range l {
		items[i] = cBytes([]byte(s))
	}
	if len(items) == 0 {
		return "[]"
	}
	return "[" + strings.Join(items, "; ") + "]"
}

// ---------------- timestamps ----------------

var namesYears = []int{1970, 1971, 1972, 1999, 2000, 2001, 2023, 2024, 2025, 2038, 2096, 2099, 2100, 2101, 2104, 2199, 2200, 2201, 2261, 2262}

// nanoseconds of a civil UTC date; only for dates inside the int64 range
func nmCivilNano(y, mo, d, hh, mi, ss, ns int) int64 {
	return time.Date(y, time.Month(mo), d, hh, mi, ss, ns, time.UTC).UnixNano()
}

const nmMaxNano = int64(1<<63 - 1)

func nmClamp(v int64) int64 {
	if v < 0 {
		return 0
	}
	return v
}

// nmGenNano: stratified instants in [0, 2^63): 0, 2^63-1, second/minute/hour/day/month/year/leap-day
// boundaries (exactly on, 1 ns before, 1 ns after), field-width boundaries, "now", uniform random
func nmGenNano(r *Rng) (int64, string) {
	adj := func(v int64) int64 {
		switch r.Intn(4) {
		case 0:
			if v > 0 {
				return v - 1
			}
		case 1:
			if v < nmMaxNano {
				return v + 1
			}
		}
		return v
	}
	switch k := r.Intn(16); k {
	case 0:
		return pick(r, []int64{0, 1, 2, 999999999, 1000000000, 1000000001, 59999999999, 60000000000, 3599999999999, 3600000000000, nmNsDay - 1, nmNsDay, nmNsDay + 1}), "epoch"
	case 1:
		return pick(r, []int64{nmMaxNano, nmMaxNano - 1, nmMaxNano - 999999999, nmMaxNano - 854775807, nmMaxNano - 854775808, (nmMaxNano / nmNsDay) * nmNsDay, (nmMaxNano/nmNsDay)*nmNsDay - 1}), "max"
	case 2: // year boundary
		y := 1971 + r.Intn(2262-1971+1)
		return adj(nmCivilNano(y, 1, 1, 0, 0, 0, 0)), "year"
	case 3: // month boundary
		y := pick(r, namesYears)
		mo := 1 + r.Intn(12)
		if y == 2262 && mo > 4 {
			mo = 1 + r.Intn(4)
		}
		return adj(nmCivilNano(y, mo, 1, 0, 0, 0, 0)), "month"
	case 4: // around the end of February
		y := pick(r, []int{1972, 1999, 2000, 2001, 2023, 2024, 2096, 2100, 2104, 2200, 2204, 2260})
		d := pick(r, []int{28, 29, 30}) // time.Date normalises Feb 29/30 of a common year into March
		return adj(nmCivilNano(y, 2, d, 0, 0, 0, 0)), "feb"
	case 5: // day boundary anywhere
		d := int64(r.Intn(106752))
		return adj(d * nmNsDay), "day"
	case 6: // hour / minute / second boundary inside a random day
		d := int64(r.Intn(106751))
		unit := pick(r, []int64{1e9, 60e9, 600e9, 3600e9, 36000e9})
		k := int64(r.Intn(int(nmNsDay / unit)))
		return adj(d*nmNsDay + k*unit), "clock"
	case 7: // fraction digit boundaries
		base := int64(r.Intn(1<<31)) * 1e9
		f := pick(r, []int64{0, 1, 9, 10, 99, 100, 999, 1000, 99999999, 100000000, 123456789, 999999998, 999999999})
		return base + f, "fraction"
	case 8, 9: // the present
		return 1700000000000000000 + int64(r.U64()%(200000000*1e9)), "now"
	case 10: // the 2^31 / 2^32 second marks
		return adj(pick(r, []int64{1 << 31, 1<<31 - 1, 1 << 32, 1<<32 - 1}) * 1e9), "unix32"
	default:
		return int64(r.U64() >> 1), "uniform"
	}
}

var namesZones = []*time.Location{time.UTC, time.UTC, time.Local,
	time.FixedZone("plus0530", 5*3600+1800), time.FixedZone("minus08", -8*3600),
	time.FixedZone("plus14", 14*3600), time.FixedZone("minus1159", -(11*3600 + 59*60)), time.FixedZone("odd", 12345)}

// ---------------- names ----------------

const nmSafeAlphabet = "abcdefghijklmnopqrstuvwxyzABCDEFGHIJKLMNOPQRSTUVWXYZ0123456789-"
const nmNameAlphabet = nmSafeAlphabet + "_."

func nmRandFrom(r *Rng, alphabet string, n int) string {
	b := make([]byte, n)
	for i := range b {
		b[i] = alphabet[r.Intn(len(alphabet))]
	}
	return string(b)
}

func nmGenSafe(r *Rng, fixed []string) string {
	if r.Chance(60) {
		return pick(r, fixed)
	}
	return nmRandFrom(r, nmSafeAlphabet, 1+r.Intn(12))
}

var namesDBs = []string{"main", "db1", "a", "ab", "a-b", "A", "-", "0", "shard-07", "Zz9-", "main2"}
var namesInsts = []string{"inst1", "i", "host-1", "host-2", "HOST", "20240101-000000-000000000", "-", "a", "ab", "pdns-auth-0"}
var namesGens = []string{"GX", "GX", "GX", "G1", "G", "G-2", "Gabc"}

func nmGenExtras(r *Rng) []string {
	switch r.Intn(6) {
	case 0:
		return []string{"X123"}
	case 1:
		return []string{"X123", "Y456"}
	case 2:
		n := 1 + r.Intn(4)
		var l []string
		for i := 0; i < n; i++ {
			l = append(l, string(rune('A'+r.Intn(26)))+nmRandFrom(r, nmSafeAlphabet, r.Intn(6)))
		}
		return l
	default:
		return nil
	}
}

type nmArgs struct {
	DB, Inst, Gen, TSS string
	T                  int64
	Extras             []string
	Ext                string
}

func (a nmArgs) Coq() string {
	return fmt.Sprintf("(mkB %s %s %s %s %s %s %s)", cBytes([]byte(a.DB)), cBytes([]byte(a.Inst)), cBytes([]byte(a.Gen)),
		cBytes([]byte(a.TSS)), nmZ(a.T), nmBytesList(a.Extras), cBytes([]byte(a.Ext)))
}

func (a nmArgs) info(loc *time.Location) snapshot.NameInfo {
	ni := snapshot.NameInfo{Extension: a.Ext, SyncerName: a.DB, InstanceID: a.Inst, GenerationID: a.Gen,
		TimestampString: a.TSS, Timestamp: time.Unix(0, a.T).In(loc)}
	for _, e := range a.Extras {
		ni.Extra = append(ni.Extra, snapshot.NameExtraItem(e))
	}
	return ni
}

func nmGenSafeArgs(r *Rng) nmArgs {
	t, _ := nmGenNano(r)
	return nmArgs{DB: nmGenSafe(r, namesDBs), Inst: nmGenSafe(r, namesInsts), Gen: nmGenSafe(r, namesGens), T: t,
		Extras: nmGenExtras(r), Ext: snapshot.DefaultExtension}
}

func nmIsSafe(s string) bool {
	for i := 0; i < len(s); i++ {
		if !strings.ContainsRune(nmSafeAlphabet, rune(s[i])) || s[i] >= 0x80 {
			return false
		}
	}
	return true
}

// ---------------- ParseName observation ----------------

type nmPObs struct {
	Kind string // ok | err | panic
	NI   snapshot.NameInfo
	Msg  string
}

func nmRealParse(name string) (o nmPObs) {
	defer func() {
		if rec := recover(); rec != nil {
			o = nmPObs{Kind: "panic", Msg: fmt.Sprint(rec)}
		}
	}()
	ni, err := snapshot.ParseName(name)
	if err != nil {
		return nmPObs{Kind: "err", Msg: err.Error()}
	}
	return nmPObs{Kind: "ok", NI: ni}
}

func (o nmPObs) Coq() string {
	switch o.Kind {
	case "err":
		return "PErr"
	case "panic":
		return "PPanic"
	}
	ni := o.NI
	var ex []string
	for _, e := range ni.Extra {
		ex = append(ex, string(e))
	}
	return fmt.Sprintf("(POk %s %s %s %s %s %s %s %s %s %s %s)", cBytes([]byte(ni.FullName)), cBytes([]byte(ni.BaseName)),
		cBytes([]byte(ni.Extension)), cBytes([]byte(ni.Kind)), cBytes([]byte(ni.SyncerName)), cBytes([]byte(ni.InstanceID)),
		cBytes([]byte(ni.GenerationID)), cBytes([]byte(ni.TimestampString)), nmZ(ni.Timestamp.Unix()), nmZ(int64(ni.Timestamp.Nanosecond())),
		nmBytesList(ex))
}

func nmErrKind(msg string) string {
	for _, p := range []string{"invalid name: no dot", "unknown extension", "not enough name parts", "invalid timestamp format", "timestamp parse error"} {
		if strings.HasPrefix(msg, p) {
			return strings.ReplaceAll(p, " ", "-")
		}
	}
	return "other"
}

// ---------------- malformed names ----------------

// a timestamp field built from parts, each possibly out of range or not a digit
func nmGenTSS(r *Rng) (string, string) {
	y, mo, d, hh, mi, ss := "2024", "02", "28", "13", "45", "59"
	frac := "012345678"
	sep1, sep2 := "-", "-"
	what := "ts-valid"
	bad2 := func() string { return pick(r, []string{"0x", "x0", " 1", "1 ", "+1", "-1", "1.", "aa"}) }
	switch r.Intn(24) {
	case 0:
		y = pick(r, []string{"0000", "0001", "1969", "1970", "2262", "2263", "9999", "1677"})
		what = "ts-year"
	case 1:
		y = pick(r, []string{"+202", "-202", "20x4", "202 ", " 202", "x024", "2 24"})
		what = "ts-year-bad"
	case 2:
		mo = pick(r, []string{"00", "01", "12", "13", "99", "10", "09"})
		what = "ts-month"
	case 3:
		mo = bad2()
		what = "ts-month-bad"
	case 4: // day against the month length, leap years included
		y = pick(r, []string{"1900", "2000", "2023", "2024", "2100", "2400", "0000", "0004", "0100"})
		mo = pick(r, []string{"01", "02", "02", "02", "03", "04", "06", "09", "11", "12"})
		d = pick(r, []string{"00", "01", "28", "29", "30", "31", "32", "99"})
		what = "ts-day"
	case 5:
		d = bad2()
		what = "ts-day-bad"
	case 6:
		hh = pick(r, []string{"00", "23", "24", "25", "99", "09", "10"})
		what = "ts-hour"
	case 7:
		hh = pick(r, []string{"1x", "x1", "1 ", " 1", "+1", "-1", "1-", "1."})
		what = "ts-hour-bad"
	case 8:
		mi = pick(r, []string{"00", "59", "60", "61", "99"})
		what = "ts-min"
	case 9:
		mi = bad2()
		what = "ts-min-bad"
	case 10:
		ss = pick(r, []string{"00", "59", "60", "61", "99"})
		what = "ts-sec"
	case 11:
		ss = bad2()
		what = "ts-sec-bad"
	case 12: // a sign where the fraction starts
		frac = pick(r, []string{"+12345678", "-12345678", "-00000000", "+00000000", "-00000001", "+99999999", "+1234567x", "-x0000000", "++1234567", "+-0000000", "-+0000000", "+ 1234567"})
		what = "ts-frac-sign"
	case 13:
		frac = pick(r, []string{"00000000x", "x00000000", "0000 0000", "12345678.", "1234.5678", "12345678+", "1234-5678", " 12345678", "0x1234567", "1e2345678", "\uff112345"})
		what = "ts-frac-bad"
	case 14:
		frac = pick(r, []string{"000000000", "999999999", "000000001", "100000000"})
		what = "ts-frac"
	case 15:
		frac = pick(r, []string{"01234567", "0123456789", "", "0", "012345"})
		what = "ts-len"
	case 16:
		sep2 = pick(r, []string{".", ",", "_", "+", " ", "0"})
		what = "ts-dotindex"
	case 17:
		sep1 = pick(r, []string{".", ",", "_", "+", " ", "0", "T"})
		what = "ts-sep8"
	case 18: // right length, dash in place, everything else random over the name alphabet
		b := []byte(nmRandFrom(r, "0123456789-+.x", 25))
		b[15] = '-'
		return string(b), "ts-random25"
	case 19: // one byte of a valid timestamp replaced
		b := []byte(snapshot.NameTimestamp(time.Unix(0, int64(r.U64()>>1))))
		b[r.Intn(len(b))] = pick(r, []byte("09-+_. xX/:"))
		return string(b), "ts-onebyte"
	case 20: // a valid one
		t, _ := nmGenNano(r)
		return snapshot.NameTimestamp(time.Unix(0, t)), "ts-valid"
	case 21: // shifted fields: valid characters, wrong layout
		return pick(r, []string{"2024-0228134559-012345678", "20240228-134559012345678-", "20240228-1345590-12345678", "202402281-34559-012345678", "20240228--34559-012345678"}), "ts-layout"
	}
	return y + mo + d + sep1 + hh + mi + ss + sep2 + frac, what
}

func nmJoinName(db, inst, tss, gen string, extras []string, ext string) string {
	parts := append([]string{db, inst, tss, gen}, extras...)
	return strings.Join(parts, "__") + "." + ext
}

// nmGenMalformed: mutated names over [A-Za-z0-9-_.] and arbitrary bytes
func nmGenMalformed(r *Rng) (string, string) {
	a := nmGenSafeArgs(r)
	valid := a.info(time.UTC).BuildName()
	switch r.Intn(22) {
	case 0, 1, 2, 3, 4, 5: // the timestamp part
		tss, what := nmGenTSS(r)
		return nmJoinName(a.DB, a.Inst, tss, a.Gen, a.Extras, a.Ext), what
	case 6: // extension
		ext := pick(r, []string{"pb", "gz", "pb.gz2", "pb.invalid", "", "PB.GZ", "pb.gz.", "pb..gz", "pbgz", "pb.gz.tmp", "tmp", "pb.g", "b.gz", ".pb.gz", "pb.gz "})
		return nmJoinName(a.DB, a.Inst, snapshot.NameTimestamp(time.Unix(0, a.T)), a.Gen, a.Extras, ext), "ext"
	case 7: // no dot at all
		return strings.ReplaceAll(valid, ".", pick(r, []string{"", "_", "-"})), "nodot"
	case 8: // number of parts
		parts := []string{a.DB, a.Inst, snapshot.NameTimestamp(time.Unix(0, a.T)), a.Gen}
		n := r.Intn(4)
		keep := parts[:n]
		if r.Bool() && n >= 1 { // drop from the front instead
			keep = parts[4-n:]
		}
		return strings.Join(keep, "__") + ".pb.gz", fmt.Sprintf("parts%d", n)
	case 9: // separators damaged: "__" -> "_" or "___" or "_._"
		i := r.Intn(3)
		rep := pick(r, []string{"_", "___", "____", "_-_", "-", "_._", ""})
		idx := 0
		pos := -1
		for k := 0; k <= i; k++ {
			j := strings.Index(valid[idx:], "__")
			if j < 0 {
				break
			}
			pos = idx + j
			idx = pos + 2
		}
		if pos >= 0 {
			return valid[:pos] + rep + valid[pos+2:], "sep-damaged"
		}
		return valid, "valid"
	case 10: // a dot inside a component
		i := r.Intn(len(valid))
		return valid[:i] + "." + valid[i:], "dot-inserted"
	case 11: // one byte replaced over the name alphabet
		b := []byte(valid)
		b[r.Intn(len(b))] = nmNameAlphabet[r.Intn(len(nmNameAlphabet))]
		return string(b), "byte-replaced"
	case 12: // one byte replaced by an arbitrary byte
		b := []byte(valid)
		b[r.Intn(len(b))] = byte(r.U64())
		return string(b), "byte-arbitrary"
	case 13: // deletion
		i := r.Intn(len(valid))
		return valid[:i] + valid[i+1:], "byte-deleted"
	case 14: // insertion
		i := r.Intn(len(valid) + 1)
		return valid[:i] + string(nmNameAlphabet[r.Intn(len(nmNameAlphabet))]) + valid[i:], "byte-inserted"
	case 15: // truncation
		return valid[:r.Intn(len(valid)+1)], "truncated"
	case 16: // components outside the safe alphabet: '_' at the ends, "__" inside, dots
		db := pick(r, []string{"db_", "_db", "d_b", "d__b", "db.", ".db", "d.b", "", "_", "__", "main__x"})
		inst := pick(r, []string{"i_", "_i", "i__j", "i.j", "", "_", "host.example.org"})
		gen := pick(r, []string{"G_", "_G", "G__H", "G.", "", "GX"})
		k := r.Intn(4)
		if k != 0 {
			db = a.DB
		}
		if k != 1 {
			inst = a.Inst
		}
		if k != 2 {
			gen = a.Gen
		}
		ex := a.Extras
		if k == 3 {
			ex = pick(r, [][]string{{"A_"}, {"A_", "B1"}, {"A__B"}, {"_A"}, {"A.1"}, {""}, {"", ""}, {"A_", "_B"}})
		}
		return nmJoinName(db, inst, snapshot.NameTimestamp(time.Unix(0, a.T)), gen, ex, a.Ext), "unsafe-component"
	case 17: // random over the name alphabet
		return nmRandFrom(r, nmNameAlphabet, r.Intn(70)), "random-alphabet"
	case 18: // random over a tiny alphabet so that "__" and "." are frequent
		return nmRandFrom(r, "a_._-0", r.Intn(40)) + pick(r, []string{"", ".pb.gz", ".pb.gz", "pb.gz"}), "random-tiny"
	case 19: // arbitrary bytes
		return string(r.Bytes(r.Intn(60))), "random-bytes"
	case 20: // another database's name, incl. one whose name extends ours with "__"
		other := pick(r, []string{a.DB + "__x", a.DB + "_", a.DB + "-", a.DB + "2", "x" + a.DB})
		inst := pick(r, []string{a.Inst, "20240101-000000-000000000"})
		return nmJoinName(other, inst, snapshot.NameTimestamp(time.Unix(0, a.T)), a.Gen, a.Extras, a.Ext), "other-db"
	default:
		return valid, "valid"
	}
}

// names every run starts with: the unit-test names of snapshot/name_test.go and one witness per model path
var namesCorpus = []string{
	"db1__inst1__20220102-030405-012345678__G1.pb.gz",
	"db1__inst1__20220102-030405-012345678__G1__X123__Y456.pb.gz",
	"invalid",
	"db1__inst1__20220102-030405-012345678__G1__X123__Y456.pb.invalid",
	"db1__inst1__20220102-030405-012345678.pb.gz",
	"db1__inst1__20220102-030405-012__G1.pb.gz",
	"", ".", ".pb.gz", "______.pb.gz", "__________.pb.gz", "a.pb.gz", "a__b__c__d.pb.gz",
	"db__i__20220102-030405.012345678__G.pb.gz",                            // '.' at dotIndex: the first dot cuts there
	"db__i__20220102-030405_012345678__G.pb.gz",                            // 5: no dash at dotIndex
	"db__i__2022010-2030405-012345678__G.pb.gz",                            // layout shifted
	"db__i__x0220102-030405-012345678__G.pb.gz",                            // 13 year
	"db__i__2022x102-030405-012345678__G.pb.gz",                            // 14 month digits
	"db__i__20220002-030405-012345678__G.pb.gz",                            // 15 month 00
	"db__i__20221302-030405-012345678__G.pb.gz",                            // 15 month 13
	"db__i__202201x2-030405-012345678__G.pb.gz",                            // 16 day digits
	"db__i__20220102+030405-012345678__G.pb.gz",                            // 17 separator
	"db__i__20220102-x30405-012345678__G.pb.gz",                            // 18 hour digits
	"db__i__20220102-0x0405-012345678__G.pb.gz",                            // 18 hour second digit
	"db__i__20220102-240405-012345678__G.pb.gz",                            // 19 hour 24
	"db__i__20220102-03x405-012345678__G.pb.gz",                            // 20 minute digits
	"db__i__20220102-036005-012345678__G.pb.gz",                            // 21 minute 60
	"db__i__20220102-0304x5-012345678__G.pb.gz",                            // 22 second digits
	"db__i__20220102-030460-012345678__G.pb.gz",                            // 23 second 60
	"db__i__20220102-030405-01234567x__G.pb.gz",                            // 24 fraction digits
	"db__i__20220102-030405-+1234567x__G.pb.gz",                            // 25 signed fraction digits
	"db__i__20220102-030405--00000001__G.pb.gz",                            // 26 negative fraction
	"db__i__20220100-030405-012345678__G.pb.gz",                            // 27 day 00
	"db__i__20230229-030405-012345678__G.pb.gz",                            // 27 Feb 29 of a common year
	"db__i__20240229-030405-012345678__G.pb.gz",                            // 28 leap day
	"db__i__21000229-030405-012345678__G.pb.gz",                            // 27 2100 is not a leap year
	"db__i__20000229-030405-012345678__G.pb.gz",                            // 28 2000 is
	"db__i__20220431-030405-012345678__G.pb.gz",                            // 27 April 31
	"db__i__20220102-030405-+12345678__G.pb.gz",                            // 29 accepted: sign in the fraction
	"db__i__20220102-030405--00000000__G.pb.gz",                            // 29 accepted: minus zero
	"db__i__00000101-000000-000000000__G.pb.gz",                            // year 0
	"db__i__99991231-235959-999999999__G.pb.gz",                            // year 9999
	"db__i__19691231-235959-999999999__G.pb.gz",                            // just before the epoch
	"db__i__22620411-234716-854775807__G.pb.gz",                            // 2^63-1
	"db__i__22620411-234716-854775808__G.pb.gz",                            // 2^63: parses, but is not an int64 nanosecond instant
	"a__b__20240101-000000-000000000__20240101-000000-000000001__GX.pb.gz", // database "a__b" read as database "a"
	"db___i__20220102-030405-012345678__G.pb.gz",                           // database "db_": instance comes back as "_i"
	"db__i__20220102-030405-012345678__G__A___B1.pb.gz",                    // extra "A_" followed by "B1"
	"d.b__i__20220102-030405-012345678__G.pb.gz",
}

// ---------------- sanitiser inputs ----------------

var nmSanPieces = []string{
	"a", "Z", "0", "9", "-", "host", "pdns-01", // safe
	"_", ".", " ", "/", "\\", "@", ":", "\x00", "\x7f", "\n", "+", "~", "[", "`", "{", "^", // unsafe ASCII incl. the neighbours of the ranges
	"\u0080", "\u00e9", "\u07ff", // two bytes
	"\u0800", "\u20ac", "\ud7ff", "\ue000", "\ufffd", "\uffff", // three bytes
	"\U00010000", "\U0001f600", "\U0010ffff", // four bytes
	"\x80", "\xbf", "\xc0", "\xc1", "\xf5", "\xff", "\xc0\x80", // invalid lead bytes
	"\xc3", "\xe2\x82", "\xf0\x9f\x98", "\xe2", "\xf0", "\xf0\x9f", // truncated
	"\xc3\x41", "\xe2\x41\xac", "\xe2\x82\x41", "\xf0\x9f\x41\x80", "\xf0\x9f\x98\x41", "\xc3\xc3\xa9", // bad continuation
	"\xe0\x80\x80", "\xe0\x9f\xbf", "\xe0\xa0\x80", "\xf0\x80\x80\x80", "\xf0\x8f\xbf\xbf", "\xf0\x90\x80\x80", // overlong / first valid
	"\xed\xa0\x80", "\xed\xbf\xbf", "\xed\x9f\xbf", "\xf4\x8f\xbf\xbf", "\xf4\x90\x80\x80", // surrogates / above U+10FFFF
}

func nmGenSanInput(r *Rng) (string, string) {
	switch r.Intn(8) {
	case 0:
		return nmRandFrom(r, nmSafeAlphabet, 1+r.Intn(20)), "safe"
	case 1:
		return nmRandFrom(r, nmNameAlphabet+" /@", 1+r.Intn(20)), "ascii"
	case 2:
		b := make([]byte, 1+r.Intn(12))
		for i := range b {
			b[i] = byte(r.Intn(128))
		}
		return string(b), "ascii-any"
	case 3:
		return string(r.Bytes(1 + r.Intn(16))), "bytes"
	case 4: // bytes biased to the UTF-8 structure bytes
		b := make([]byte, 1+r.Intn(10))
		for i := range b {
			b[i] = pick(r, []byte{0x41, 0x2e, 0x5f, 0x80, 0x8f, 0x90, 0x9f, 0xa0, 0xbf, 0xc1, 0xc2, 0xdf, 0xe0, 0xe1, 0xec, 0xed, 0xee, 0xef, 0xf0, 0xf1, 0xf3, 0xf4, 0xf5})
		}
		return string(b), "utf8-structure"
	default:
		var sb strings.Builder
		n := 1 + r.Intn(5)
		for i := 0; i < n; i++ {
			sb.WriteString(pick(r, nmSanPieces))
		}
		return sb.String(), "pieces"
	}
}

// ---------------- the area ----------------

func areaNames(r *Rng, n int, dir string) (*AreaOut, error) {
	out := &AreaOut{Hist: map[string]int{}, Rule: "snapshot.NameTimestamp/NameTimestampFromNano/BuildName/ParseName and the instanceID sanitiser vs Names/Model.v. " +
		"Instants stratified over 0..2^63-1 (0, 2^63-1, every kind of second/minute/hour/day/month/year/leap-day boundary exactly on and 1 ns either side, fraction digit boundaries, uniform) in UTC and non-UTC locations, plus all int64/uint64 for the timestamp functions; " +
		"names: built from safe-alphabet components, then a malformed stream (timestamp field by field out of range / non-digit / signed fraction, extensions, part counts, damaged separators, inserted dots, byte replace/delete/insert/truncate over [A-Za-z0-9-_.] and arbitrary bytes, components with '_' '.' '__', other databases); " +
		"sanitiser inputs: safe, all ASCII, valid 2/3/4-byte runes at their boundaries, invalid lead bytes, truncated, overlong, surrogate and out-of-range sequences, random bytes. " +
		"distinct = distinct inputs; non-trivial = every case except ParseName inputs without any '.' (rejected by the first test)"}
	san, err := nmNewSanitiser()
	if err != nil {
		return nil, err
	}
	defer san.done()
	var cases []string
	seen := map[string]bool{}
	nontriv := map[string]bool{}
	add := func(cs, key, h string, nt bool) {
		cases = append(cases, cs)
		out.CaseDescs = append(out.CaseDescs, key)
		seen[key] = true
		if nt {
			nontriv[key] = true
		}
		hist(out.Hist, h)
	}
	fail := func(clause, desc string, input any) {
		out.Oracle = append(out.Oracle, OracleFailure{"C15", clause, desc, input})
	}

	doParse := func(name, what string) {
		o := nmRealParse(name)
		h := "parse/" + what + "/" + o.Kind
		if o.Kind == "err" {
			h = "parse/" + what + "/" + nmErrKind(o.Msg)
		}
		add(fmt.Sprintf("NParse %s %s", cBytes([]byte(name)), o.Coq()), "parse "+hexs([]byte(name)), h, strings.Contains(name, "."))
		// oracle: files that are not snapshots are rejected
		out.OracleN++
		base, ext, found := strings.Cut(name, ".")
		if o.Kind == "panic" {
			fail("parse-total", "ParseName panicked: "+o.Msg, name)
			return
		}
		if o.Kind != "ok" {
			return
		}
		ni := o.NI
		switch {
		case !found || ext != snapshot.DefaultExtension:
			fail("not-snapshot", fmt.Sprintf("name without the registered extension accepted: %q", name), name)
		case strings.Count(base, "__") < 3:
			fail("not-snapshot", fmt.Sprintf("name with fewer than four parts accepted: %q", name), name)
		case !namesTSShape.MatchString(ni.TimestampString):
			fail("not-snapshot", fmt.Sprintf("malformed timestamp %q accepted in %q", ni.TimestampString, name), name)
		case ni.BuildName() != name:
			fail("parse-build", fmt.Sprintf("accepted name %q rebuilds as %q", name, ni.BuildName()), name)
		case ni.Kind != snapshot.KindSnapshot || ni.FullName != name:
			fail("parse-fields", fmt.Sprintf("accepted name %q has Kind %q FullName %q", name, ni.Kind, ni.FullName), name)
		}
		// a canonical timestamp string denotes the instant that formats back to it
		if namesTSCanon.MatchString(ni.TimestampString) && ni.Timestamp.Year() >= 1970 && ni.Timestamp.Year() <= 2261 {
			out.OracleN++
			if got := snapshot.NameTimestamp(ni.Timestamp); got != ni.TimestampString {
				fail("timestamp-roundtrip", fmt.Sprintf("%q parsed to an instant that formats as %q", ni.TimestampString, got), name)
			}
		}
	}

	doBuild := func(a nmArgs, what string) string {
		loc := pick(r, namesZones)
		name := a.info(loc).BuildName()
		add(fmt.Sprintf("NBuild %s %s", a.Coq(), cBytes([]byte(name))), "build "+fmt.Sprint(a), "build/"+what, true)
		return name
	}

	// oracle: round trip on the real code for safe-alphabet components
	roundTrip := func(a nmArgs, name string) {
		out.OracleN++
		o := nmRealParse(name)
		if o.Kind != "ok" {
			fail("roundtrip", fmt.Sprintf("built name %q does not parse: %s %s", name, o.Kind, o.Msg), a)
			return
		}
		ni := o.NI
		var ex []string
		for _, e := range ni.Extra {
			ex = append(ex, string(e))
		}
		want := time.Unix(0, a.T)
		switch {
		case ni.SyncerName != a.DB || ni.InstanceID != a.Inst || ni.GenerationID != a.Gen:
			fail("roundtrip", fmt.Sprintf("%q parsed to db=%q inst=%q gen=%q", name, ni.SyncerName, ni.InstanceID, ni.GenerationID), a)
		case !ni.Timestamp.Equal(want) || ni.Timestamp.UnixNano() != a.T:
			fail("roundtrip", fmt.Sprintf("%q parsed to instant %d, built from %d", name, ni.Timestamp.UnixNano(), a.T), a)
		case ni.Timestamp.Location() != time.UTC:
			fail("roundtrip", fmt.Sprintf("%q parsed to a non-UTC time", name), a)
		case strings.Join(ex, "\x00") != strings.Join(a.Extras, "\x00") || len(ex) != len(a.Extras):
			fail("roundtrip", fmt.Sprintf("%q parsed to extras %q, built from %q", name, ex, a.Extras), a)
		case ni.FullName != name || ni.BaseName+"."+ni.Extension != name || ni.Extension != a.Ext || ni.Kind != snapshot.KindSnapshot:
			fail("roundtrip", fmt.Sprintf("%q parsed to FullName=%q BaseName=%q Extension=%q Kind=%q", name, ni.FullName, ni.BaseName, ni.Extension, ni.Kind), a)
		case ni.TimestampString != snapshot.NameTimestamp(want):
			fail("roundtrip", fmt.Sprintf("%q parsed to TimestampString=%q", name, ni.TimestampString), a)
		}
	}

	doTs := func(t int64, what string) {
		loc := pick(r, namesZones)
		s := snapshot.NameTimestamp(time.Unix(0, t).In(loc))
		add(fmt.Sprintf("NTs %s %s", nmZ(t), cBytes([]byte(s))), fmt.Sprintf("ts %d", t), "ts/"+what, true)
		// oracle: the name is the UTC one whatever the location of the time.Time
		out.OracleN++
		for _, l2 := range namesZones {
			if s2 := snapshot.NameTimestamp(time.Unix(0, t).In(l2)); s2 != s {
				fail("utc", fmt.Sprintf("instant %d: NameTimestamp gives %q in %v and %q in %v", t, s, loc, s2, l2), t)
				break
			}
		}
		if !namesTSCanon.MatchString(s) {
			fail("timestamp-shape", fmt.Sprintf("NameTimestamp(%d) = %q is not YYYYMMDD-hhmmss-nnnnnnnnn", t, s), t)
		}
	}

	doPair := func(a, b nmArgs, what string) {
		na, nb := a.info(pick(r, namesZones)).BuildName(), b.info(pick(r, namesZones)).BuildName()
		c := bytes.Compare([]byte(na), []byte(nb))
		add(fmt.Sprintf("NPair %s %s %d", a.Coq(), b.Coq(), c+1), fmt.Sprintf("pair %v %v", a, b), "pair/"+what, true)
		// oracle: for one database and instance the order of names is the order of timestamps
		if a.DB == b.DB && a.Inst == b.Inst && a.TSS == "" && b.TSS == "" && nmIsSafe(a.DB) && nmIsSafe(a.Inst) {
			out.OracleN++
			want := 0
			switch {
			case a.T < b.T:
				want = -1
			case a.T > b.T:
				want = 1
			}
			sameTail := a.Gen == b.Gen && strings.Join(a.Extras, "__") == strings.Join(b.Extras, "__") && a.Ext == b.Ext
			if (want != 0 && c != want) || (want == 0 && sameTail && c != 0) {
				fail("order", fmt.Sprintf("timestamps %d vs %d but names %q vs %q compare %d", a.T, b.T, na, nb, c), map[string]any{"a": a, "b": b})
			}
		}
		// oracle: a name of another database never carries this database's prefix
		if a.DB != b.DB && nmIsSafe(a.DB) && nmIsSafe(b.DB) {
			out.OracleN++
			if strings.HasPrefix(nb, a.DB+"__") || strings.HasPrefix(na, b.DB+"__") {
				fail("other-db", fmt.Sprintf("names %q / %q: one carries the other database's prefix", na, nb), map[string]any{"a": a, "b": b})
			}
		}
	}

	doSan := func(s, what string) {
		if s == "" {
			return
		}
		o, err := san.instanceID(s)
		if err != nil { // only "instance name could not be determined": the sanitised name is never empty for s != ""
			fail("sanitize-total", fmt.Sprintf("syncer.New refused instance name %q: %v", s, err), hexs([]byte(s)))
			return
		}
		add(fmt.Sprintf("NSan %s %s", cBytes([]byte(s)), cBytes([]byte(o))), "san "+hexs([]byte(s)), "san/"+what, true)
		// the same name taken from the HOST NAME because no instance name is configured goes through the same sanitiser
		oldHost := syncer.VerifSetHostname(s)
		viaHost, herr := san.instanceID("")
		syncer.VerifSetHostname(oldHost)
		out.OracleN++
		if herr != nil || viaHost != o {
			fail("sanitize-hostname-fallback", fmt.Sprintf("host name %q used as the instance name (none configured) gives %q (error %v); configured explicitly it is sanitised to %q", s, viaHost, herr, o), hexs([]byte(s)))
		}
		out.OracleN++
		switch {
		case !nmIsSafe(o):
			fail("sanitize-alphabet", fmt.Sprintf("instance name %q sanitised to %q, outside [A-Za-z0-9-]", s, o), hexs([]byte(s)))
		case nmIsSafe(s) && o != s:
			fail("sanitize-identity", fmt.Sprintf("safe instance name %q changed to %q", s, o), hexs([]byte(s)))
		case len(o) > len(s):
			fail("sanitize-length", fmt.Sprintf("instance name %q grew to %q", s, o), hexs([]byte(s)))
		}
		// and a name built with it round-trips with that instance
		a := nmArgs{DB: "main", Inst: o, Gen: "GX", T: 1700000000123456789, Ext: snapshot.DefaultExtension}
		roundTrip(a, a.info(time.UTC).BuildName())
	}

	// ---- fixed corpus first ----
	for _, nm := range namesCorpus {
		doParse(nm, "corpus")
	}
	for _, t := range []int64{0, 1, nmMaxNano, nmMaxNano - 1, -1, -(1 << 63), nmNsDay - 1, nmNsDay, 951782400000000000 - 1, 951782400000000000, 4107542400000000000 - 1, 4107542400000000000} {
		doTs(t, "corpus")
	}
	for _, u := range []uint64{0, 1, 1<<63 - 1, 1 << 63, 1<<63 + 1, 1<<64 - 1, 1700000000000000000} {
		s := snapshot.NameTimestampFromNano(header.Timestamp(u))
		add(fmt.Sprintf("NTsNano %d %s", u, cBytes([]byte(s))), fmt.Sprintf("tsnano %d", u), "tsnano/corpus", true)
	}
	for _, s := range nmSanPieces {
		doSan(s, "corpus")
		doSan("a"+s+"b", "corpus")
	}
	{
		a := nmArgs{DB: "db1", Inst: "inst1", Gen: "G1", T: 1641092645012345678, Ext: "pb.gz"}
		roundTrip(a, doBuild(a, "corpus"))
		b := a
		b.Extras = []string{"X123", "Y456"}
		roundTrip(b, doBuild(b, "corpus"))
		c := a
		c.TSS = "20220102-030405-012345678"
		doBuild(c, "corpus")
		d := b
		d.TSS = "anything"
		doBuild(d, "corpus")
		doPair(a, a, "corpus")
		a2 := a
		a2.T++
		doPair(a, a2, "corpus")
		doPair(a2, a, "corpus")
	}

	// ---- generated ----
	for len(cases) < n {
		switch k := r.Intn(100); {
		case k < 12: // NameTimestamp
			if r.Chance(12) { // any int64, i.e. 1677..2262
				doTs(int64(r.U64()), "int64")
			} else {
				t, what := nmGenNano(r)
				doTs(t, what)
			}
		case k < 18: // NameTimestampFromNano over all of uint64
			u := r.U64()
			what := "uniform"
			if r.Bool() {
				t, w := nmGenNano(r)
				u, what = uint64(t), w
			} else if r.Chance(30) {
				u = pick(r, []uint64{1 << 63, 1<<63 + 1, 1<<64 - 1, 1<<64 - 2, 1<<63 - 1})
				what = "wrap"
			}
			s := snapshot.NameTimestampFromNano(header.Timestamp(u))
			add(fmt.Sprintf("NTsNano %d %s", u, cBytes([]byte(s))), fmt.Sprintf("tsnano %d", u), "tsnano/"+what, true)
		case k < 30: // BuildName, then the round trip through the real ParseName
			a := nmGenSafeArgs(r)
			if r.Chance(20) { // arbitrary components: BuildName is plain concatenation
				a.DB, a.Inst, a.Gen = nmRandFrom(r, nmNameAlphabet, r.Intn(6)), string(r.Bytes(r.Intn(5))), nmRandFrom(r, nmNameAlphabet, r.Intn(4))
				a.Ext = pick(r, []string{"pb.gz", "", "x"})
				if r.Bool() {
					a.TSS = pick(r, []string{"20220102-030405-012345678", "x", "__"})
				}
				doBuild(a, "arbitrary")
			} else {
				name := doBuild(a, "safe")
				roundTrip(a, name)
				doParse(name, "built")
			}
		case k < 45: // pairs: same database and instance, timestamps related on purpose
			a := nmGenSafeArgs(r)
			b := a
			what := "random"
			switch r.Intn(8) {
			case 0:
				what = "equal"
			case 1, 2:
				if a.T < nmMaxNano {
					b.T = a.T + 1
				}
				what = "plus1ns"
			case 3:
				b.T = nmClamp(a.T - int64(r.Intn(2000)))
				what = "near"
			case 4: // same day, different time
				b.T = (a.T/nmNsDay)*nmNsDay + int64(r.U64()%uint64(nmNsDay))
				if b.T < 0 {
					b.T = a.T
				}
				what = "same-day"
			case 5: // other generation / extras: the timestamp still decides
				b.T, _ = nmGenNano(r)
				b.Gen, b.Extras = nmGenSafe(r, namesGens), nmGenExtras(r)
				what = "other-tail"
			case 6: // other database or instance (prefix oracle)
				b.DB = pick(r, []string{a.DB + "-", a.DB + "2", nmGenSafe(r, namesDBs), a.DB[:len(a.DB)-1] + "x"})
				b.T, _ = nmGenNano(r)
				what = "other-db"
			default:
				b.T, _ = nmGenNano(r)
			}
			if r.Bool() {
				a, b = b, a
			}
			doPair(a, b, what)
		case k < 57: // sanitiser
			s, what := nmGenSanInput(r)
			doSan(s, what)
		default: // ParseName on the malformed stream
			name, what := nmGenMalformed(r)
			doParse(name, what)
		}
	}

	out.Cases = len(cases)
	out.Distinct = len(nontriv)
	for i := 0; i < 3 && i < len(cases); i++ {
		out.Samples = append(out.Samples, cases[i*len(cases)/3+len(cases)/6])
	}
	files, err := writeCases(dir, "names", "From LS Require Import Base.Bytes Base.Res Names.Civil Names.Model Corr.Obs Corr.Run_names.", "ncase", cases, 150)
	out.Shards = files
	return out, err
}

// accepted timestamp strings: digits and dashes in place; the fraction may carry the sign time.Parse tolerates
var namesTSShape = regexp.MustCompile(`^[0-9]{4}(0[1-9]|1[0-2])(0[1-9]|[12][0-9]|3[01])-([01][0-9]|2[0-3])[0-5][0-9][0-5][0-9]-([0-9]{9}|[+-][0-9]{8})$`)
var namesTSCanon = regexp.MustCompile(`^[0-9]{8}-[0-9]{6}-[0-9]{9}$`)
