package main

// Area "conc" (property C17): scripted interleavings on the real utils/topics, utils/climit,
// snapshot/storage and syncer.Sync code, compared with the protocol models of coq/Conc/*.v.
//
// A case is a list of GROUPS of events.  The events of a group are issued together to worker goroutines
// (one per model thread); then the harness waits for quiescence — every worker with unfinished work is
// parked (channel operation / mutex), decided from one stop-the-world runtime.Stack snapshot, no sleeps
// used for ordering — and records which operations are still pending.  The Coq side explores every
// interleaving of the same groups and accepts iff the observation is one of the model's outcomes.
//
// Outcome classes: 0 completed, 1 deadlock (an operation still pending after the final clean-up groups),
// 2 panic, 3 returned-after-cancel, 4 not-returned.  For scripted cases the class is implied by the last
// pending mask and the panic bit, which is what the model is compared on.
//
// Areas registered here:
//   conc                 the deterministic part (Coq cases)
//   conc-race            supporting stress; meant to be run from a binary built with `go build -race`
//   conc-storage-child   hidden: one GetGlobal/SetGlobal script in a fresh process (package storage has global state)
//   conc-race-child      hidden: the stress itself (its stderr is scanned for race reports by conc-race)

import (
	"bytes"
	"context"
	"encoding/json"
	"errors"
	"fmt"
	"io"
	"os"
	"os/exec"
	"path/filepath"
	"regexp"
	"runtime"
	"sort"
	"strconv"
	"strings"
	"sync"
	"sync/atomic"
	"time"

	"github.com/PowerDNS/lightningstream/config"
	"github.com/PowerDNS/lightningstream/lmdbenv/header"
	"github.com/PowerDNS/lightningstream/snapshot"
	"github.com/PowerDNS/lightningstream/snapshot/storage"
	"github.com/PowerDNS/lightningstream/status/healthtracker"
	"github.com/PowerDNS/lightningstream/syncer"
	"github.com/PowerDNS/lightningstream/syncer/cleaner"
	"github.com/PowerDNS/lightningstream/syncer/events"
	"github.com/PowerDNS/lightningstream/syncer/hooks"
	"github.com/PowerDNS/lightningstream/syncer/receiver"
	"github.com/PowerDNS/lightningstream/utils/climit"
	"github.com/PowerDNS/lightningstream/utils/topics"
	"github.com/PowerDNS/lmdb-go/lmdb"
	"github.com/PowerDNS/simpleblob"
	"github.com/PowerDNS/simpleblob/backends/memory"
	"github.com/sirupsen/logrus"
)

func init() {
	areas["conc"] = areaConc
	areas["conc-race"] = areaConcRace
	areas["conc-storage-child"] = areaConcStorageChild
	areas["conc-race-child"] = areaConcRaceChild
}

const concRepoPath = "github.com/PowerDNS/lightningstream/"

// ---------------------------------------------------------------- goroutine inspection

type concG struct {
	ID    uint64
	State string
	Stack string
}

var concHdrRe = regexp.MustCompile(`^goroutine (\d+) \[([^\],]+)`)

func concGoroutines() []concG {
	buf := make([]byte, 1<<18)
	for {
		n := runtime.Stack(buf, true)
		if n < len(buf) {
			buf = buf[:n]
			break
		}
		buf = make([]byte, 2*len(buf))
	}
	var out []concG
	for _, blk := range strings.Split(string(buf), "\n\n") {
		m := concHdrRe.FindStringSubmatch(blk)
		if m == nil {
			continue
		}
		id, _ := strconv.ParseUint(m[1], 10, 64)
		out = append(out, concG{ID: id, State: m[2], Stack: blk})
	}
	return out
}

func concGID() uint64 {
	buf := make([]byte, 64)
	n := runtime.Stack(buf, false)
	m := concHdrRe.FindStringSubmatch(string(buf[:n]))
	if m == nil {
		return 0
	}
	id, _ := strconv.ParseUint(m[1], 10, 64)
	return id
}

// parked on a channel or a lock: cannot continue unless another goroutine acts
func concParked(state string) bool {
	switch state {
	// NOT "semacquire": since Go 1.2x mutex waits have their own wait reasons, and a goroutine that starts a
	// GC cycle while this harness holds the world stopped shows up as [semacquire] for a moment
	case "chan send", "chan receive", "select", "sync.Mutex.Lock", "sync.RWMutex.RLock", "sync.RWMutex.Lock",
		"sync.Cond.Wait", "sync.WaitGroup.Wait", "chan receive (nil chan)", "chan send (nil chan)", "select (no cases)":
		return true
	}
	return false
}

// ---------------------------------------------------------------- workers and quiescence

type concWorker struct {
	gid      atomic.Uint64
	cmd      chan func()
	issued   atomic.Int32
	done     atomic.Int32
	running  atomic.Int32
	inCb     atomic.Int32 // inside a Handle callback, waiting for the harness: counts as not pending
	panicked atomic.Value
}

func newConcWorker() *concWorker {
	w := &concWorker{cmd: make(chan func(), 64)}
	ready := make(chan struct{})
	go func() {
		w.gid.Store(concGID())
		close(ready)
		for f := range w.cmd {
			w.running.Store(1)
			func() {
				defer func() {
					if r := recover(); r != nil {
						w.panicked.Store(fmt.Sprint(r))
					}
				}()
				f()
			}()
			w.running.Store(0)
			w.done.Add(1)
		}
	}()
	<-ready
	return w
}

func (w *concWorker) do(f func())   { w.issued.Add(1); w.cmd <- f }
func (w *concWorker) pending() bool { return w.issued.Load() != w.done.Load() && w.inCb.Load() == 0 }
func (w *concWorker) panicMsg() string {
	if v := w.panicked.Load(); v != nil {
		return v.(string)
	}
	return ""
}
func (w *concWorker) stop() { close(w.cmd) } // a worker stuck in an operation stays behind (deadlock cases)

// concQuiesce waits until every worker goroutine is parked — idle workers on their command channel, busy
// ones on a channel or lock inside the code under test — judged from ONE stop-the-world goroutine dump (a
// worker that has been handed a command, or was woken by another goroutine, shows as runnable/running).
// false: not reached in time (some worker kept running — never expected).
func concQuiesce(ws []*concWorker, timeout time.Duration) bool {
	deadline := time.Now().Add(timeout)
	spins := 0
	for {
		busy := false
		for _, w := range ws {
			if w.issued.Load() != w.done.Load() {
				busy = true
			}
		}
		ok := true
		if busy {
			st := map[uint64]string{}
			for _, g := range concGoroutines() {
				st[g.ID] = g.State
			}
			for _, w := range ws {
				if !concParked(st[w.gid.Load()]) {
					ok = false
				}
			}
		}
		if ok {
			return true
		}
		if time.Now().After(deadline) {
			return false
		}
		spins++
		if spins < 50 {
			runtime.Gosched()
		} else {
			time.Sleep(50 * time.Microsecond)
		}
	}
}

func concMask(ws []*concWorker) uint64 {
	var m uint64
	for i, w := range ws {
		if w.pending() {
			m |= 1 << uint(i)
		}
	}
	return m
}

func cNat(n int) string { return fmt.Sprintf("%d%%nat", n) }
func cNList(xs []uint64) string {
	ss := make([]string, len(xs))
	for i, x := range xs {
		ss[i] = cN(x)
	}
	return "[" + strings.Join(ss, "; ") + "]"
}
func cNLists(xss [][]uint64) string {
	ss := make([]string, len(xss))
	for i, xs := range xss {
		ss[i] = cNList(xs)
	}
	return "[" + strings.Join(ss, "; ") + "]"
}

// ---------------------------------------------------------------- topics

type concTEv struct {
	Kind string // do | pub | cancel | hstart | cbok | cbfail | hcancel
	S, J int
	P, V int
	Act  string // sub0 | sub1 | next | busy | close
}

func (e concTEv) model() []string {
	act := map[string]string{"sub0": "(ASub false)", "sub1": "(ASub true)", "next": "ANext", "busy": "ABusy", "close": "AClose"}
	switch e.Kind {
	case "do":
		return []string{fmt.Sprintf("EDo %s %s %s", cNat(e.S), cNat(e.J), act[e.Act])}
	case "pub":
		return []string{fmt.Sprintf("EPub %s %d", cNat(e.P), e.V)}
	case "cancel":
		return []string{fmt.Sprintf("ECancel %s", cNat(e.S))}
	case "hstart": // Handle = Subscribe(false); loop { Next; cb }; deferred Close
		return []string{fmt.Sprintf("EDo %s 0%%nat (ASub false)", cNat(e.S)), fmt.Sprintf("EDo %s 0%%nat ANext", cNat(e.S))}
	case "cbok":
		return []string{fmt.Sprintf("EDo %s 0%%nat ANext", cNat(e.S))}
	case "cbfail":
		return []string{fmt.Sprintf("EDo %s 0%%nat AClose", cNat(e.S))}
	case "hcancel":
		return []string{fmt.Sprintf("ECancel %s", cNat(e.S)), fmt.Sprintf("EDo %s 0%%nat AClose", cNat(e.S))}
	}
	return nil
}
func (e concTEv) String() string {
	switch e.Kind {
	case "do":
		return fmt.Sprintf("%s(%d,%d)", e.Act, e.S, e.J)
	case "pub":
		return fmt.Sprintf("pub%d(%d)", e.P, e.V)
	default:
		return fmt.Sprintf("%s(%d)", e.Kind, e.S)
	}
}

type concTopicObs struct {
	Panic     bool
	PanicMsg  string
	Masks     []uint64
	Gots      [][]uint64
	NotQuiet  bool
	Published map[int]bool
}

var errConcCb = errors.New("callback failed")

type concTopicRun struct {
	np, ns, nj int
	topic      *topics.Topic[int]
	ws         []*concWorker // publishers, then (s,j) in s-major order: the model's all_tids order
	subs       []atomic.Pointer[topics.Subscription[int]]
	ctx        []context.Context
	cancel     []context.CancelFunc
	mu         sync.Mutex
	got        [][]uint64
	cbOut      []chan bool
}

func newConcTopicRun(np, ns, nj int) *concTopicRun {
	r := &concTopicRun{np: np, ns: ns, nj: nj, topic: topics.New[int]()}
	for i := 0; i < np+ns*nj; i++ {
		r.ws = append(r.ws, newConcWorker())
	}
	r.subs = make([]atomic.Pointer[topics.Subscription[int]], ns)
	r.got = make([][]uint64, ns)
	for s := 0; s < ns; s++ {
		c, cf := context.WithCancel(context.Background())
		r.ctx = append(r.ctx, c)
		r.cancel = append(r.cancel, cf)
		r.cbOut = append(r.cbOut, make(chan bool))
	}
	return r
}
func (r *concTopicRun) w(s, j int) *concWorker { return r.ws[r.np+s*r.nj+j] }
func (r *concTopicRun) rec(s int, v uint64) {
	r.mu.Lock()
	r.got[s] = append(r.got[s], v)
	r.mu.Unlock()
}
func concErrRev(err error) uint64 {
	if errors.Is(err, io.ErrClosedPipe) {
		return 1
	}
	return 2 // context error
}

func (r *concTopicRun) issue(e concTEv) {
	s, j := e.S, e.J
	switch e.Kind {
	case "pub":
		v := e.V
		r.ws[e.P].do(func() { r.topic.Publish(v) })
	case "cancel":
		r.cancel[s]()
	case "do":
		w := r.w(s, j)
		switch e.Act {
		case "sub0", "sub1":
			last := e.Act == "sub1"
			w.do(func() {
				if j == 0 && r.subs[s].Load() == nil {
					r.subs[s].Store(r.topic.Subscribe(last))
				}
			})
		case "next":
			w.do(func() {
				sub := r.subs[s].Load()
				if j != 0 || sub == nil {
					return
				}
				v, err := sub.Next(r.ctx[s])
				if err != nil {
					r.rec(s, concErrRev(err))
				} else {
					r.rec(s, 3+uint64(v))
				}
			})
		case "busy":
			w.do(func() {})
		case "close":
			w.do(func() {
				if sub := r.subs[s].Load(); sub != nil {
					sub.Close()
				}
			})
		}
	case "hstart":
		w := r.w(s, 0)
		w.do(func() {
			err := r.topic.Handle(r.ctx[s], func(v int) error {
				r.rec(s, 3+uint64(v))
				w.inCb.Store(1)
				ok := <-r.cbOut[s]
				if !ok {
					return errConcCb
				}
				return nil
			})
			if err != errConcCb {
				r.rec(s, concErrRev(err))
			}
		})
	case "cbok", "cbfail":
		w := r.w(s, 0)
		w.inCb.Store(0)
		r.cbOut[s] <- e.Kind == "cbok"
	case "hcancel":
		r.cancel[s]()
	}
}

func (r *concTopicRun) run(groups [][]concTEv) concTopicObs {
	i := 0
	o, _ := r.runGen(func() []concTEv {
		if i >= len(groups) {
			return nil
		}
		i++
		return groups[i-1]
	})
	return o
}

// runGen plays the groups produced by next (nil = end); next may look at r's workers to see what is pending
func (r *concTopicRun) runGen(next func() []concTEv) (concTopicObs, [][]concTEv) {
	o := concTopicObs{Published: map[int]bool{}}
	var groups [][]concTEv
	for {
		g := next()
		if g == nil {
			break
		}
		groups = append(groups, g)
		for _, e := range g {
			if e.Kind == "pub" {
				o.Published[e.V] = true
			}
			r.issue(e)
		}
		if !concQuiesce(r.ws, 3*time.Second) {
			o.NotQuiet = true
		}
		for _, w := range r.ws {
			if m := w.panicMsg(); m != "" {
				o.Panic, o.PanicMsg = true, m
			}
		}
		o.Masks = append(o.Masks, concMask(r.ws))
		if o.Panic {
			break
		}
	}
	r.mu.Lock()
	for s := 0; s < r.ns; s++ {
		o.Gots = append(o.Gots, append([]uint64{}, r.got[s]...))
	}
	r.mu.Unlock()
	for _, w := range r.ws {
		if !w.pending() && w.inCb.Load() == 0 {
			w.stop()
		}
	}
	return o, groups
}

func concTopicCoq(np, ns, nj int, groups [][]concTEv, o concTopicObs) string {
	var gs []string
	for _, g := range groups {
		var es []string
		for _, e := range g {
			es = append(es, e.model()...)
		}
		gs = append(gs, "["+strings.Join(es, "; ")+"]")
	}
	return fmt.Sprintf("CTopic %s %s %s [%s] (mkTObs %s %s %s)", cNat(np), cNat(ns), cNat(nj), strings.Join(gs, "; "),
		cBool(o.Panic), cNList(o.Masks), cNLists(o.Gots))
}

func tdo(s, j int, act string) concTEv { return concTEv{Kind: "do", S: s, J: j, Act: act} }
func tpub(p, v int) concTEv            { return concTEv{Kind: "pub", P: p, V: v} }
func tk(kind string, s int) concTEv    { return concTEv{Kind: kind, S: s} }

type concTopicScript struct {
	Name       string
	NP, NS, NJ int
	G          [][]concTEv
}

// the scripted schedules; every one ends with every subscription closed, so "completed" is the only
// acceptable final class on a correct implementation
func concTopicScripts() []concTopicScript {
	g := func(es ...concTEv) []concTEv { return es }
	return []concTopicScript{
		{"close-mid-delivery-own-goroutine", 1, 1, 2, [][]concTEv{g(tdo(0, 0, "sub0")), g(tpub(0, 5)), g(tdo(0, 0, "close"))}},
		{"close-mid-delivery-other-goroutine", 1, 1, 2, [][]concTEv{g(tdo(0, 0, "sub0")), g(tpub(0, 5)), g(tdo(0, 1, "close"))}},
		{"double-close-sequential", 1, 1, 2, [][]concTEv{g(tdo(0, 0, "sub0")), g(tdo(0, 0, "close")), g(tdo(0, 0, "close")), g(tdo(0, 1, "close")), g(tpub(0, 1))}},
		{"double-close-concurrent-mid-delivery", 1, 1, 2, [][]concTEv{g(tdo(0, 0, "sub0")), g(tpub(0, 5)), g(tdo(0, 0, "close"), tdo(0, 1, "close")), g(tdo(0, 1, "close"))}},
		{"sendlast-buffered", 1, 1, 2, [][]concTEv{g(tpub(0, 1)), g(tdo(0, 0, "sub1")), g(tdo(0, 0, "next")), g(tpub(0, 2)), g(tpub(0, 3)),
			g(tdo(0, 0, "next")), g(tdo(0, 0, "next")), g(tdo(0, 0, "close"))}},
		{"sendlast-no-last-value", 1, 1, 2, [][]concTEv{g(tdo(0, 0, "sub1")), g(tpub(0, 2)), g(tpub(0, 3)), g(tdo(0, 1, "close")), g(tdo(0, 0, "next")), g(tk("cancel", 0)), g(tdo(0, 0, "next"))}},
		{"handle-callback-fails-publish-in-flight", 1, 1, 1, [][]concTEv{g(tk("hstart", 0)), g(tpub(0, 1)), g(tpub(0, 2)), g(tk("cbfail", 0)), g(tpub(0, 3))}},
		{"handle-ok-ok-fail", 1, 1, 1, [][]concTEv{g(tk("hstart", 0)), g(tpub(0, 1)), g(tk("cbok", 0)), g(tpub(0, 2)), g(tk("cbok", 0)), g(tpub(0, 3)), g(tk("cbfail", 0))}},
		{"handle-context-cancelled", 1, 1, 1, [][]concTEv{g(tk("hstart", 0)), g(tk("hcancel", 0)), g(tpub(0, 1))}},
		{"three-subscribers-middle-closes", 1, 3, 1, [][]concTEv{g(tdo(0, 0, "sub0"), tdo(1, 0, "sub0"), tdo(2, 0, "sub0")), g(tdo(0, 0, "next")), g(tdo(2, 0, "next")),
			g(tpub(0, 7)), g(tdo(1, 0, "close")), g(tpub(0, 8)), g(tdo(0, 0, "next"), tdo(2, 0, "next")), g(tdo(0, 0, "close"), tdo(2, 0, "close"))}},
		{"closed-by-other-while-in-next", 1, 1, 2, [][]concTEv{g(tdo(0, 0, "sub0")), g(tdo(0, 0, "next")), g(tdo(0, 1, "close")), g(tpub(0, 4))}},
		{"select-race-send-or-done", 1, 2, 2, [][]concTEv{g(tdo(0, 0, "sub0"), tdo(1, 0, "sub0")), g(tdo(0, 0, "next")), g(tpub(0, 5)), g(tdo(0, 1, "close")),
			g(tdo(1, 0, "next")), g(tdo(1, 0, "close")), g(tdo(0, 0, "close"))}},
		{"next-after-close-then-cancel", 1, 1, 2, [][]concTEv{g(tdo(0, 0, "sub0")), g(tdo(0, 0, "close")), g(tdo(0, 0, "next")), g(tk("cancel", 0))}},
		{"two-publishers-one-closer", 2, 1, 2, [][]concTEv{g(tdo(0, 0, "sub0")), g(tpub(0, 1)), g(tpub(1, 2)), g(tdo(0, 1, "close"))}},
		{"subscribe-while-publisher-blocked", 1, 2, 1, [][]concTEv{g(tdo(0, 0, "sub0")), g(tpub(0, 1)), g(tdo(1, 0, "sub1")), g(tdo(0, 0, "close")), g(tdo(1, 0, "next")), g(tdo(1, 0, "close"))}},
		{"publisher-blocked-until-received", 1, 2, 1, [][]concTEv{g(tdo(0, 0, "sub0"), tdo(1, 0, "sub0")), g(tpub(0, 9)), g(tdo(0, 0, "next")), g(tdo(1, 0, "next")),
			g(tdo(0, 0, "close"), tdo(1, 0, "close"))}},
	}
}

// random schedule, generated while it is played: no new work for a goroutine whose previous operation is
// still blocked (keeps the model's state space small), at most two blocked publishers
func concRandomTopic(r *Rng) (int, int, int, [][]concTEv, concTopicObs) {
	np, ns, nj := 1+r.Intn(2), 1+r.Intn(2), 2
	run := newConcTopicRun(np, ns, nj)
	subscribed := make([]bool, ns) // ASub issued in an EARLIER group
	val := 1
	ngroups := 3 + r.Intn(5)
	gi := 0
	cancelled, closed := make([]bool, ns), make([]bool, ns)
	o, groups := run.runGen(func() []concTEv {
		if gi < ngroups {
			gi++
			var g []concTEv
			used := map[*concWorker]bool{}
			free := func(w *concWorker) bool { return !w.pending() && !used[w] }
			newSub := map[int]bool{}
			for k := 0; k < 1+r.Intn(2); k++ {
				s := r.Intn(ns)
				c := r.Intn(10)
				if !subscribed[s] && !newSub[s] && c >= 3 {
					if w := run.w(s, 0); free(w) {
						g = append(g, tdo(s, 0, pick(r, []string{"sub0", "sub0", "sub1"})))
						newSub[s], used[w] = true, true
					}
					continue
				}
				switch {
				case c < 3 || !subscribed[s]:
					if p := r.Intn(np); free(run.ws[p]) {
						g = append(g, tpub(p, val))
						val++
						used[run.ws[p]] = true
					}
				case c < 6:
					if w := run.w(s, 0); free(w) {
						g = append(g, tdo(s, 0, "next"))
						used[w] = true
					}
				case c < 8:
					j := r.Intn(nj)
					if w := run.w(s, j); free(w) {
						g = append(g, tdo(s, j, "close"))
						used[w] = true
					}
				case c < 9:
					g = append(g, tk("cancel", s))
				default:
					j := r.Intn(nj)
					if w := run.w(s, j); free(w) {
						g = append(g, tdo(s, j, "busy"))
						used[w] = true
					}
				}
			}
			for s := range newSub {
				subscribed[s] = true
			}
			if len(g) == 0 {
				g = []concTEv{tk("cancel", r.Intn(ns))}
			}
			return g
		}
		// clean-up, also generated while it is played: cancel every context, then close every subscription
		// that exists by now (a Subscribe that was blocked may only complete during the clean-up) from its
		// second goroutine, one group each, until none is left open
		for s := 0; s < ns; s++ {
			if !cancelled[s] {
				cancelled[s] = true
				return []concTEv{tk("cancel", s)}
			}
		}
		for s := 0; s < ns; s++ {
			if run.subs[s].Load() != nil && !closed[s] && !run.w(s, 1).pending() {
				closed[s] = true
				return []concTEv{tdo(s, 1, "close")}
			}
		}
		return nil
	})
	return np, ns, nj, groups, o
}

func concTopicOracle(out *AreaOut, name string, groups [][]concTEv, o concTopicObs) {
	out.OracleN++
	desc := func() string {
		var gs []string
		for _, g := range groups {
			var es []string
			for _, e := range g {
				es = append(es, e.String())
			}
			gs = append(gs, strings.Join(es, ","))
		}
		return name + ": " + strings.Join(gs, " | ")
	}
	if o.Panic {
		out.Oracle = append(out.Oracle, OracleFailure{"C17", "topic-panic", "panic in utils/topics: " + o.PanicMsg + " in " + desc(), desc()})
		return
	}
	if o.NotQuiet {
		out.Oracle = append(out.Oracle, OracleFailure{"C17", "topic-livelock", "goroutines kept running without reaching quiescence in " + desc(), desc()})
	}
	if n := len(o.Masks); n > 0 && o.Masks[n-1] != 0 {
		out.Oracle = append(out.Oracle, OracleFailure{"C17", "topic-wedge",
			fmt.Sprintf("operations still blocked (mask %b) after every subscription was closed and every context cancelled: %s", o.Masks[n-1], desc()), desc()})
	}
	for s, g := range o.Gots {
		seen := map[uint64]bool{}
		for _, v := range g {
			if v >= 3 {
				if !o.Published[int(v-3)] || seen[v] {
					out.Oracle = append(out.Oracle, OracleFailure{"C17", "topic-delivery",
						fmt.Sprintf("subscription %d received %d which was not published exactly once: %s", s, v-3, desc()), desc()})
				}
				seen[v] = true
			}
		}
	}
}

// ---------------------------------------------------------------- climit

var concClimitSeq atomic.Int64

type concCEv struct {
	Acq bool
	I   int // acquirer / releaser thread
}

func concClimitRun(lim, na, nr int, rtoks []int, groups [][]concCEv) (masks []uint64, over bool, maxOut int, panicMsg string) {
	cl := climit.New("conc", fmt.Sprintf("c%d", concClimitSeq.Add(1)), lim, nil)
	var ws []*concWorker
	for i := 0; i < na+nr; i++ {
		ws = append(ws, newConcWorker())
	}
	var mu sync.Mutex
	var toks []*climit.Token
	released := map[int]bool{}
	for _, g := range groups {
		for _, e := range g {
			e := e
			if e.Acq {
				ws[e.I].do(func() {
					t := cl.Acquire()
					mu.Lock()
					toks = append(toks, t)
					mu.Unlock()
				})
			} else {
				k := rtoks[e.I]
				mu.Lock()
				var t *climit.Token
				if k < len(toks) {
					t = toks[k]
				}
				mu.Unlock()
				ws[na+e.I].do(func() {
					if t != nil {
						t.Release()
						mu.Lock()
						released[k] = true
						mu.Unlock()
					}
				})
			}
		}
		concQuiesce(ws, 3*time.Second)
		masks = append(masks, concMask(ws))
		for _, w := range ws {
			if m := w.panicMsg(); m != "" && panicMsg == "" {
				panicMsg = m
				masks = append(masks, 1<<40) // no model outcome has this mask: a panic is never an accepted outcome
			}
		}
		mu.Lock()
		if out := len(toks) - len(released); out > maxOut {
			maxOut = out
		}
		mu.Unlock()
	}
	over = maxOut > lim
	for _, w := range ws {
		if !w.pending() {
			w.stop()
		}
	}
	return
}

type concClimitScript struct {
	Name        string
	Lim, NA, NR int
	RToks       []int
	G           [][]concCEv
}

func cacq(a int) concCEv { return concCEv{Acq: true, I: a} }
func crel(r int) concCEv { return concCEv{Acq: false, I: r} }

// probes: [lim+1] acquires one at a time on acquirers base.. ; the masks show how many tokens the pool held
func concProbe(base, n int) [][]concCEv {
	var g [][]concCEv
	for i := 0; i < n; i++ {
		g = append(g, []concCEv{cacq(base + i)})
	}
	return g
}

func concClimitScripts() []concClimitScript {
	g := func(es ...concCEv) []concCEv { return es }
	cat := func(a [][]concCEv, b [][]concCEv) [][]concCEv { return append(append([][]concCEv{}, a...), b...) }
	return []concClimitScript{
		{"release-x3-concurrently", 2, 6, 3, []int{0, 0, 0}, cat([][]concCEv{g(cacq(0)), g(cacq(1)), g(cacq(2)), g(crel(0), crel(1), crel(2))}, concProbe(3, 3))},
		{"release-twice-same-goroutine", 1, 4, 2, []int{0, 0}, cat([][]concCEv{g(cacq(0)), g(crel(0)), g(crel(0)), g(crel(0), crel(1))}, concProbe(1, 3))},
		{"release-x4-then-all", 3, 8, 5, []int{1, 1, 1, 0, 2}, cat([][]concCEv{g(cacq(0)), g(cacq(1)), g(cacq(2)), g(crel(0), crel(1)), g(crel(2), crel(0)), g(crel(3)), g(crel(4), crel(1))}, concProbe(3, 4))},
		{"blocked-acquirers-released-one-by-one", 1, 5, 3, []int{0, 1, 2}, [][]concCEv{g(cacq(0)), g(cacq(1)), g(cacq(2)), g(crel(0)), g(crel(0)), g(crel(1), crel(1)), g(crel(2)), g(cacq(3)), g(cacq(4))}},
	}
}

func concRandomClimit(r *Rng) concClimitScript {
	lim := 1 + r.Intn(3)
	na, nr := lim+4, 4
	sc := concClimitScript{Name: "random", Lim: lim, NA: na, NR: nr}
	nacq := 0 // acquires issued so far (each on its own acquirer thread)
	for i := 0; i < nr; i++ {
		sc.RToks = append(sc.RToks, r.Intn(lim))
	}
	for ; nacq < lim; nacq++ { // take every token, so that token k exists for k < lim
		sc.G = append(sc.G, []concCEv{cacq(nacq)})
	}
	for gi := 0; gi < 2+r.Intn(4); gi++ {
		var g []concCEv
		for k := 0; k < 1+r.Intn(3); k++ {
			g = append(g, crel(r.Intn(nr)))
		}
		sc.G = append(sc.G, g)
		if r.Chance(40) && nacq < na-1 {
			sc.G = append(sc.G, []concCEv{cacq(nacq)})
			nacq++
		}
	}
	for ; nacq < na; nacq++ {
		sc.G = append(sc.G, []concCEv{cacq(nacq)})
	}
	return sc
}

func concClimitCoq(sc concClimitScript, masks []uint64) string {
	var gs []string
	for _, g := range sc.G {
		var es []string
		for _, e := range g {
			if e.Acq {
				es = append(es, "CEAcq "+cNat(e.I))
			} else {
				es = append(es, "CERel "+cNat(e.I))
			}
		}
		gs = append(gs, "["+strings.Join(es, "; ")+"]")
	}
	var rt []string
	for _, k := range sc.RToks {
		rt = append(rt, cNat(k))
	}
	return fmt.Sprintf("CClimit %s %s %s [%s] [%s] %s", cNat(sc.Lim), cNat(sc.NA), cNat(sc.NR), strings.Join(rt, "; "), strings.Join(gs, "; "), cNList(masks))
}

// ---------------------------------------------------------------- global storage (child process per script)

type concStore struct{ id int }

func (concStore) List(ctx context.Context, prefix string) (simpleblob.BlobList, error) {
	return nil, nil
}
func (concStore) Load(ctx context.Context, name string) ([]byte, error)     { return nil, os.ErrNotExist }
func (concStore) Store(ctx context.Context, name string, data []byte) error { return nil }
func (concStore) Delete(ctx context.Context, name string) error             { return nil }

type concStorageResult struct {
	Panic    bool       `json:"panic"`
	PanicMsg string     `json:"panic_msg"`
	Masks    []uint64   `json:"masks"`
	Results  [][]uint64 `json:"results"`
	NW       int        `json:"nw"`
	NG       int        `json:"ng"`
}

// script: groups separated by ';', events by ',': "G<g>" = GetGlobal in getter g, "S<w>:<h>" = SetGlobal(handle h) in setter w
func concParseStorage(script string) (groups [][][3]int, nw, ng int) {
	for _, gs := range strings.Split(script, ";") {
		var g [][3]int
		for _, es := range strings.Split(gs, ",") {
			es = strings.TrimSpace(es)
			if es == "" {
				continue
			}
			if es[0] == 'G' {
				i, _ := strconv.Atoi(es[1:])
				g = append(g, [3]int{0, i, 0})
				if i+1 > ng {
					ng = i + 1
				}
			} else {
				parts := strings.Split(es[1:], ":")
				w, _ := strconv.Atoi(parts[0])
				h, _ := strconv.Atoi(parts[1])
				g = append(g, [3]int{1, w, h})
				if w+1 > nw {
					nw = w + 1
				}
			}
		}
		groups = append(groups, g)
	}
	return
}

func areaConcStorageChild(r *Rng, n int, dir string) (*AreaOut, error) {
	script := os.Getenv("CONC_STORAGE_SCRIPT")
	groups, nw, ng := concParseStorage(script)
	var ws []*concWorker
	for i := 0; i < nw+ng; i++ {
		ws = append(ws, newConcWorker())
	}
	res := concStorageResult{NW: nw, NG: ng, Results: make([][]uint64, ng)}
	var mu sync.Mutex
	for _, g := range groups {
		for _, e := range g {
			e := e
			if e[0] == 1 {
				ws[e[1]].do(func() { storage.SetGlobal(&concStore{id: e[2]}) })
			} else {
				ws[nw+e[1]].do(func() {
					st := storage.GetGlobal()
					v := uint64(0) // nil interface
					if cs, ok := st.(*concStore); ok && cs != nil {
						v = 1 + uint64(cs.id)
					}
					mu.Lock()
					res.Results[e[1]] = append(res.Results[e[1]], v)
					mu.Unlock()
				})
			}
		}
		concQuiesce(ws, 3*time.Second)
		for _, w := range ws {
			if m := w.panicMsg(); m != "" {
				res.Panic, res.PanicMsg = true, m
			}
		}
		res.Masks = append(res.Masks, concMask(ws))
		if res.Panic {
			break
		}
	}
	if err := writeJSON(filepath.Join(dir, "storage_child.json"), res); err != nil {
		return nil, err
	}
	return &AreaOut{Hist: map[string]int{}}, nil
}

func concRunStorageChild(script, dir string, idx int) (concStorageResult, error) {
	var res concStorageResult
	exe, err := os.Executable()
	if err != nil {
		return res, err
	}
	d := filepath.Join(dir, fmt.Sprintf("storage_child_%d", idx))
	cctx, ccancel := context.WithTimeout(context.Background(), 60*time.Second)
	defer ccancel()
	cmd := exec.CommandContext(cctx, exe, "conc-storage-child", "-out", d)
	cmd.Env = append(os.Environ(), "CONC_STORAGE_SCRIPT="+script)
	var buf bytes.Buffer
	cmd.Stdout, cmd.Stderr = &buf, &buf
	if err := cmd.Run(); err != nil {
		return res, fmt.Errorf("storage child %q: %v: %s", script, err, buf.String())
	}
	b, err := os.ReadFile(filepath.Join(d, "storage_child.json"))
	if err != nil {
		return res, err
	}
	err = json.Unmarshal(b, &res)
	os.RemoveAll(d)
	return res, err
}

func concStorageCoq(script string, res concStorageResult) string {
	groups, nw, ng := concParseStorage(script)
	var gs []string
	for _, g := range groups {
		var es []string
		for _, e := range g {
			if e[0] == 1 {
				es = append(es, fmt.Sprintf("GESet %s %d", cNat(e[1]), e[2]))
			} else {
				es = append(es, "GEGet "+cNat(e[1]))
			}
		}
		gs = append(gs, "["+strings.Join(es, "; ")+"]")
	}
	for len(res.Results) < ng {
		res.Results = append(res.Results, nil)
	}
	return fmt.Sprintf("CStorage %s %s [%s] %s %s %s", cNat(nw), cNat(ng), strings.Join(gs, "; "), cBool(res.Panic), cNList(res.Masks), cNLists(res.Results))
}

func concStorageScripts(r *Rng, extra int) []string {
	s := []string{
		"G0;S0:7", // get before set: must return 7 once set
		"S0:7;G0", // set before get
		"G0,S0:7", // concurrently
		"G0,G1;S0:7;S0:8;G0",
		"S0:7,S1:8;G0;G1",
		"G0;G1;S0:3,S1:4;G2",
		"G0;S0:5,G1;G0,G1,S1:6",
		"S0:1;S0:2;G0;S1:3;G0",
		"G0,G1,G2;S0:9",
	}
	for i := 0; i < extra; i++ {
		var gs []string
		h := 1
		for g := 0; g < 2+r.Intn(3); g++ {
			var es []string
			used := map[string]bool{}
			for k := 0; k < 1+r.Intn(2); k++ {
				var e string
				if r.Chance(35) {
					w := r.Intn(2)
					e = fmt.Sprintf("S%d:%d", w, h)
					if used[fmt.Sprintf("S%d", w)] {
						continue
					}
					used[fmt.Sprintf("S%d", w)] = true
					h++
				} else {
					e = fmt.Sprintf("G%d", r.Intn(2))
					if used[e] {
						continue
					}
					used[e] = true
				}
				es = append(es, e)
			}
			if len(es) > 0 {
				gs = append(gs, strings.Join(es, ","))
			}
		}
		// make sure something is set at the end so that no getter stays parked
		gs = append(gs, fmt.Sprintf("S0:%d", h))
		s = append(s, strings.Join(gs, ";"))
	}
	return s
}

// ---------------------------------------------------------------- cancellation of syncer.Sync

type concFakeStore struct {
	simpleblob.Interface
	listFail, listBlock, storeFail, storeBlock bool
	lists, stores                              atomic.Int32
	entered                                    chan string // "list" / "store" when a blocking call is entered
}

var errConcStorage = errors.New("conc: injected storage failure")

func (f *concFakeStore) note(what string) {
	select {
	case f.entered <- what:
	default:
	}
}
func (f *concFakeStore) List(ctx context.Context, prefix string) (simpleblob.BlobList, error) {
	f.lists.Add(1)
	if f.listBlock {
		f.note("list")
		<-ctx.Done()
		return nil, ctx.Err()
	}
	if f.listFail {
		return nil, errConcStorage
	}
	return f.Interface.List(ctx, prefix)
}
func (f *concFakeStore) Store(ctx context.Context, name string, data []byte) error {
	f.stores.Add(1)
	if f.storeBlock {
		f.note("store")
		<-ctx.Done()
		return ctx.Err()
	}
	if f.storeFail {
		return errConcStorage
	}
	return f.Interface.Store(ctx, name, data)
}

// the goroutine running syncLoop, if it is parked (in a timer select, time.Sleep, or a channel operation)
func concSyncLoopParked() (parked bool, where string) {
	for _, g := range concGoroutines() {
		if !strings.Contains(g.Stack, "syncer.(*Syncer).syncLoop") {
			continue
		}
		if concParked(g.State) || g.State == "sleep" {
			w := "other"
			switch {
			case strings.Contains(g.Stack, "utils.SleepContext"):
				w = "SleepContext"
			case strings.Contains(g.Stack, "time.Sleep"):
				w = "time.Sleep"
			}
			return true, w
		}
	}
	return false, ""
}

func concRepoGoroutines(baseline map[uint64]bool) []concG {
	var out []concG
	for _, g := range concGoroutines() {
		if baseline[g.ID] || !strings.Contains(g.Stack, concRepoPath) {
			continue
		}
		// the package-level metrics/health goroutines are not tied to a Sync call
		out = append(out, g)
	}
	return out
}

func concPutData(env *lmdb.Env, native bool) error {
	return env.Update(func(txn *lmdb.Txn) error {
		dbi, err := txn.OpenDBI("data", lmdb.Create)
		if err != nil {
			return err
		}
		val := []byte("v")
		if native {
			hv := make([]byte, header.MinHeaderSize, header.MinHeaderSize+1)
			header.PutBasic(hv, header.TimestampFromTime(time.Now()), header.TxnID(txn.ID()), header.NoFlags)
			val = append(hv, 'v')
		}
		return txn.Put(dbi, []byte("k"), val, 0)
	})
}

// returns the observed class (3 returned after cancel, 4 not returned within 2 s, 0 returned before the
// cancellation, 9 the blocking point was not reached) and goroutines left in repository code afterwards
func concCancelRun(scn int, shadow bool) (cls int, note string, left []concG, err error) {
	env, cleanup, err := newEnv()
	if err != nil {
		return 0, "", nil, err
	}
	defer cleanup()
	data := scn >= 4
	if data {
		if err := concPutData(env, !shadow); err != nil {
			return 0, "", nil, err
		}
	}
	st := &concFakeStore{Interface: memory.New(), entered: make(chan string, 4)}
	switch scn {
	case 1:
		st.listFail = true
	case 2:
		st.listBlock = true
	case 4, 7:
		st.storeFail = true
	case 5:
		st.storeBlock = true
	}
	sy, err := newSyncer(env, st, syncerOpts{Native: !shadow, Mod: func(c *config.Config, lc *config.LMDB) {
		c.LMDBPollInterval = 30 * time.Second
		c.StoragePollInterval = 30 * time.Second
		c.StorageRetryInterval = 30 * time.Second
		c.StorageRetryForever = true
		c.StorageRetryCount = 3
		if scn == 7 { // an outage that outlasts storage_retry_count attempts, with storage_retry_forever: still retrying, still cancellable
			c.StorageRetryInterval = time.Millisecond
		}
	}})
	if err != nil {
		return 0, "", nil, err
	}
	baseline := map[uint64]bool{}
	for _, g := range concGoroutines() {
		baseline[g.ID] = true
	}
	ctx, cancel := context.WithCancel(context.Background())
	defer cancel()
	ret := make(chan error, 1)
	go func() { ret <- sy.Sync(ctx) }()

	// wait for the blocking point
	reached := false
	deadline := time.Now().Add(5 * time.Second)
wait:
	for time.Now().Before(deadline) {
		select {
		case e := <-ret:
			return 0, fmt.Sprintf("Sync returned before the cancellation: %v", e), nil, nil
		default:
		}
		switch scn {
		case 1:
			if p, w := concSyncLoopParked(); p && st.lists.Load() >= 1 {
				reached, note = true, w
				break wait
			}
		case 2, 5:
			select {
			case <-st.entered:
				reached = true
				break wait
			default:
			}
		case 3:
			if p, w := concSyncLoopParked(); p && st.lists.Load() >= 1 {
				reached, note = true, w
				break wait
			}
		case 4:
			if p, w := concSyncLoopParked(); p && st.stores.Load() >= 1 {
				reached, note = true, w
				break wait
			}
		case 6:
			if p, w := concSyncLoopParked(); p && st.stores.Load() >= 1 {
				reached, note = true, w
				break wait
			}
		case 7:
			if st.stores.Load() >= 8 {
				reached, note = true, "store retry loop, past storage_retry_count attempts"
				break wait
			}
		}
		time.Sleep(200 * time.Microsecond)
	}
	if !reached {
		return 9, "blocking point not reached", nil, nil
	}
	cancel()
	select {
	case <-ret:
		cls = 3
	case <-time.After(2 * time.Second):
		return 4, note, nil, nil
	}
	// every goroutine started by Sync must leave repository code
	deadline = time.Now().Add(2 * time.Second)
	for {
		left = concRepoGoroutines(baseline)
		if len(left) == 0 || time.Now().After(deadline) {
			break
		}
		time.Sleep(time.Millisecond)
	}
	return cls, note, left, nil
}

var concScnNames = map[int]string{7: "store-retry-forever-past-count", 1: "boot-listing-fails", 2: "boot-listing-blocks", 3: "idle-sleep-empty-lmdb", 4: "store-retry-sleep", 5: "store-blocks", 6: "idle-sleep-after-store"}

// ---------------------------------------------------------------- the area

func areaConc(r *Rng, n int, dir string) (*AreaOut, error) {
	out := &AreaOut{Hist: map[string]int{}, Rule: "scripted and random schedules on the real code, each group of events run to quiescence (every unfinished operation parked on a channel or lock, judged from a stop-the-world goroutine dump), compared with ALL outcomes the protocol model allows: utils/topics (publish with the subscriber closing mid-delivery, double and concurrent Close, Close from another goroutine, sendLast buffered subscriptions, Handle whose callback fails or whose context is cancelled with a publish in flight, several subscribers, subscribe while a publisher is blocked, random event sequences), utils/climit (Release any number of times from several goroutines, blocked acquirers, pool size probed by further acquires), snapshot/storage (every order of GetGlobal/SetGlobal, each script in a fresh process), syncer.Sync cancelled at each blocking point (boot listing failing / blocking, idle sleep, store retry sleep, blocking Store; native and shadow mode; must return within 2 s and leave no goroutine in repository code). distinct = distinct schedules; non-trivial = every case (each has at least two goroutines touching shared state)"}
	var cases []string
	seen := map[string]bool{}
	add := func(c, desc, kind string) {
		cases = append(cases, c)
		out.CaseDescs = append(out.CaseDescs, desc)
		hist(out.Hist, kind)
		seen[c] = true
	}

	// --- cancellation: 6 scenarios x {native, shadow}
	for scn := 1; scn <= 6; scn++ {
		for _, shadow := range []bool{false, true} {
			cls, note, left, err := concCancelRun(scn, shadow)
			if err != nil {
				return nil, fmt.Errorf("cancel scenario %d: %w", scn, err)
			}
			desc := fmt.Sprintf("cancel %s shadow=%v -> class %d (%s)", concScnNames[scn], shadow, cls, note)
			add(fmt.Sprintf("CCancel %d %s %d", scn, cBool(shadow), cls), desc, fmt.Sprintf("cancel/%s", concScnNames[scn]))
			out.OracleN++
			if cls == 4 {
				out.Oracle = append(out.Oracle, OracleFailure{"C17", "cancel-not-returned",
					fmt.Sprintf("Sync did not return within 2 s of the cancellation at blocking point %s (parked in %s), shadow=%v", concScnNames[scn], note, shadow), desc})
			}
			if len(left) > 0 {
				out.Oracle = append(out.Oracle, OracleFailure{"C17", "goroutine-left-after-cancel",
					fmt.Sprintf("%d goroutine(s) still in repository code 2 s after Sync returned (%s): %s", len(left), concScnNames[scn], left[0].Stack), desc})
			}
		}
	}

	// --- cancellation during an endless Store outage (oracle only: not one of the model's six blocking points)
	for _, shadow := range []bool{false, true} {
		cls, note, left, err := concCancelRun(7, shadow)
		if err != nil {
			return nil, fmt.Errorf("cancel scenario 7: %w", err)
		}
		out.OracleN++
		hist(out.Hist, "cancel/"+concScnNames[7])
		desc := fmt.Sprintf("cancel %s shadow=%v -> class %d (%s)", concScnNames[7], shadow, cls, note)
		if cls == 4 {
			out.Oracle = append(out.Oracle, OracleFailure{"C17", "cancel-not-returned",
				fmt.Sprintf("storage_retry_forever, every Store failing, cancelled after more than storage_retry_count attempts: Sync did not return within 2 s (shadow=%v)", shadow), desc})
		}
		if len(left) > 0 {
			out.Oracle = append(out.Oracle, OracleFailure{"C17", "goroutine-left-after-cancel",
				fmt.Sprintf("%d goroutine(s) still in repository code 2 s after Sync returned (%s): %s", len(left), concScnNames[7], left[0].Stack), desc})
		}
	}

	// --- zero intervals (oracle only)
	if err := zeroIntervalCancel(out); err != nil {
		return nil, err
	}

	// --- the receiver stays usable while an event it publishes waits for a slow subscriber
	{
		out.OracleN++
		st := memory.New()
		sn := buildSnapshot(3, 1, "peer", 1700000000000000000, []snapDBI{{Name: "data", Entries: []snapshot.KV{{Key: []byte("k"), Value: []byte("v"), TimestampNano: 5}}}})
		if blob, _, err := snapshot.DumpData(sn); err == nil {
			_ = st.Store(context.Background(), snapshot.Name(dbName, "peer", "G", time.Unix(1700000000, 0)), blob)
		}
		ev := events.New()
		c := config.Config{StoragePollInterval: time.Hour, MemoryDownloadedSnapshots: 2, MemoryDecompressedSnapshots: 2}
		rc := receiver.New(st, c, dbName, logrus.StandardLogger(), "self", ev, hooks.New())
		sub := ev.LastSeenSnapshotByInstance.Subscribe(false) // a subscriber that is slow to take the event
		ctx, cancel := context.WithCancel(context.Background())
		ran := make(chan error, 1)
		go func() { ran <- rc.RunOnce(ctx, true) }()
		time.Sleep(50 * time.Millisecond) // RunOnce is now (legitimately) waiting for the subscriber
		polled := make(chan struct{})
		go func() {
			_ = rc.SeenInstances()
			_ = rc.HasSnapshots()
			close(polled)
		}()
		select {
		case <-polled:
		case <-time.After(3 * time.Second):
			out.Oracle = append(out.Oracle, OracleFailure{"C17", "receiver-blocked-by-subscriber", "Receiver.SeenInstances/HasSnapshots blocked for 3 s while RunOnce was delivering LastSeenSnapshotByInstance to a subscriber that had not taken it yet: the sync loop (which calls them, and Next) would hang uncancellably", nil})
		}
		go func() { // now take the event
			c2, cf := context.WithTimeout(context.Background(), 3*time.Second)
			defer cf()
			_, _ = sub.Next(c2)
			sub.Close()
		}()
		select {
		case <-ran:
		case <-time.After(4 * time.Second):
		}
		cancel()
		hist(out.Hist, "receiver-slow-subscriber")
	}
	// --- when Sync returns by itself (only_once) its cleaner and sweeper stop too, although the caller's context lives on
	for _, shadow := range []bool{false, true} {
		out.OracleN++
		env, cleanup, err := newEnv()
		if err != nil {
			return nil, err
		}
		_ = concPutData(env, !shadow)
		fs := &concFakeStore{Interface: memory.New(), entered: make(chan string, 4)}
		sy, err := newSyncer(env, fs, syncerOpts{Native: !shadow, Mod: func(c *config.Config, lc *config.LMDB) {
			c.OnlyOnce = true
			c.LMDBPollInterval = time.Millisecond
			c.StoragePollInterval = time.Millisecond
			c.Storage.Cleanup = config.Cleanup{Enabled: true, Interval: 3 * time.Millisecond, MustKeepInterval: time.Second, RemoveOldInstancesInterval: time.Hour}
			c.Sweeper = config.Sweeper{Enabled: true, RetentionDays: 1, Interval: 3 * time.Millisecond, FirstInterval: time.Millisecond, LockDuration: time.Millisecond, ReleaseDuration: time.Millisecond}
		}})
		if err != nil {
			cleanup()
			return nil, err
		}
		parent, cancelParent := context.WithCancel(context.Background())
		ret := make(chan error, 1)
		go func() { ret <- sy.Sync(parent) }()
		select {
		case <-ret:
			time.Sleep(150 * time.Millisecond) // let everything that is going to stop, stop
			l1 := fs.lists.Load()
			time.Sleep(300 * time.Millisecond)
			if l2 := fs.lists.Load(); l2 != l1 {
				out.Oracle = append(out.Oracle, OracleFailure{"C17", "workers-outlive-sync", fmt.Sprintf("Sync (only_once, shadow=%v) had returned, its caller's context was still alive, and the bucket was listed %d more times in 300 ms: the cleaner (and sweeper) goroutines were not stopped", shadow, l2-l1), nil})
			}
		case <-time.After(5 * time.Second):
			out.Oracle = append(out.Oracle, OracleFailure{"C17", "only-once-not-returned", fmt.Sprintf("Sync with only_once on an empty bucket did not return within 5 s (shadow=%v)", shadow), nil})
		}
		cancelParent()
		time.Sleep(20 * time.Millisecond)
		cleanup()
		hist(out.Hist, "only-once-workers-stop")
	}
	// --- a storage fault that lasts: the health tracker's periodic evaluation runs while a failure streak is past
	// its thresholds; the storage calls that report to the tracker afterwards (every List / Load / Store of the
	// receiver and the sync loop does) must not block
	{
		out.OracleN++
		ht := healthtracker.New(healthtracker.HealthConfig{EvaluationInterval: time.Second, WarnDuration: 0, ErrorDuration: 0}, "verif_probe", "probe the tracker")
		ht.AddFailure(errors.New("storage down"))
		time.Sleep(1300 * time.Millisecond) // one evaluation tick (minimum interval: 1 s) sees the streak past both thresholds
		doneCh := make(chan struct{})
		go func() {
			ht.AddFailure(errors.New("storage still down"))
			ht.AddSuccess()
			ht.AddFailure(errors.New("down again"))
			close(doneCh)
		}()
		select {
		case <-doneCh:
		case <-time.After(3 * time.Second):
			out.Oracle = append(out.Oracle, OracleFailure{"C17", "health-tracker-blocks-storage-calls", "after one health evaluation during a failure streak past the warn/error thresholds, HealthTracker.AddFailure / AddSuccess (called by every storage operation of the receiver and the sync loop) did not return within 3 s", nil})
		}
		hist(out.Hist, "health-tracker-after-evaluation")
	}

	// --- storage: child processes
	nst := 6
	if n > 200 {
		nst = 16
	}
	for i, script := range concStorageScripts(r, nst) {
		res, err := concRunStorageChild(script, dir, i)
		if err != nil {
			return nil, err
		}
		add(concStorageCoq(script, res), "storage "+script, "storage")
		out.OracleN++
		if res.Panic {
			out.Oracle = append(out.Oracle, OracleFailure{"C17", "storage-panic", "GetGlobal/SetGlobal panicked (" + res.PanicMsg + ") in script " + script, script})
			continue
		}
		if len(res.Masks) > 0 && res.Masks[len(res.Masks)-1] != 0 && strings.Contains(script, "S") {
			out.Oracle = append(out.Oracle, OracleFailure{"C17", "storage-blocked", fmt.Sprintf("calls still blocked (mask %b) after SetGlobal completed in script %s", res.Masks[len(res.Masks)-1], script), script})
		}
		set := map[uint64]bool{}
		for _, m := range regexp.MustCompile(`:(\d+)`).FindAllStringSubmatch(script, -1) {
			v, _ := strconv.ParseUint(m[1], 10, 64)
			set[1+v] = true
		}
		for g, rs := range res.Results {
			for _, v := range rs {
				if !set[v] {
					out.Oracle = append(out.Oracle, OracleFailure{"C17", "storage-wrong-handle", fmt.Sprintf("getter %d received handle code %d that was never set, script %s", g, v, script), script})
				}
			}
		}
	}

	// --- climit
	csc := concClimitScripts()
	ncl := n / 6
	for i := 0; i < ncl; i++ {
		csc = append(csc, concRandomClimit(r))
	}
	for _, sc := range csc {
		masks, over, maxOut, pmsg := concClimitRun(sc.Lim, sc.NA, sc.NR, sc.RToks, sc.G)
		c := concClimitCoq(sc, masks)
		add(c, "climit "+sc.Name+" "+c, "climit/"+sc.Name)
		out.OracleN++
		if pmsg != "" {
			out.Oracle = append(out.Oracle, OracleFailure{"C17", "climit-panic", "panic in utils/climit: " + pmsg + " in " + c, c})
		}
		if over {
			out.Oracle = append(out.Oracle, OracleFailure{"C17", "climit-overcommit", fmt.Sprintf("%d tokens out at once with limit %d: %s", maxOut, sc.Lim, c), c})
		}
	}

	// --- topics
	for _, sc := range concTopicScripts() {
		o := newConcTopicRun(sc.NP, sc.NS, sc.NJ).run(sc.G)
		add(concTopicCoq(sc.NP, sc.NS, sc.NJ, sc.G, o), "topic "+sc.Name, "topic/"+sc.Name)
		concTopicOracle(out, sc.Name, sc.G, o)
	}
	for len(cases) < n {
		np, ns, nj, g, o := concRandomTopic(r)
		c := concTopicCoq(np, ns, nj, g, o)
		add(c, "topic random "+c, "topic/random")
		concTopicOracle(out, "random", g, o)
	}

	out.Cases = len(cases)
	out.Distinct = len(seen)
	for i := 0; i < 3 && i < len(cases); i++ {
		out.Samples = append(out.Samples, cases[i*len(cases)/3])
	}
	files, err := writeCases(dir, "conc", "From LS Require Import Conc.Climit Conc.GlobalStorage Conc.Cancel Conc.Topics Corr.Obs Corr.Run_conc.", "ccase", cases, 150)
	out.Shards = files
	return out, err
}

// ---------------------------------------------------------------- supporting stress (race detector)

type concRaceResult struct {
	RaceDetector bool           `json:"race_detector"`
	Blocked      []string       `json:"blocked"`
	Errors       []string       `json:"errors"`
	Counts       map[string]int `json:"counts"`
}

func areaConcRaceChild(r *Rng, n int, dir string) (*AreaOut, error) {
	res := concRaceResult{RaceDetector: concRaceEnabled, Counts: map[string]int{}}
	baseline := map[uint64]bool{}
	for _, g := range concGoroutines() {
		baseline[g.ID] = true
	}
	var cmu sync.Mutex
	// watchdog: a stress that does not come to an end is itself a finding (goroutines wedged in repository code)
	watchdog := time.AfterFunc(40*time.Second, func() {
		cmu.Lock()
		res.Errors = append(res.Errors, "the stress did not finish within 40 s")
		for _, g := range concRepoGoroutines(baseline) {
			if concParked(g.State) && len(res.Blocked) < 8 {
				res.Blocked = append(res.Blocked, g.Stack)
			}
		}
		_ = writeJSON(filepath.Join(dir, "race_child.json"), res)
		os.Exit(0)
	})
	defer watchdog.Stop()
	count := func(k string, d int) { cmu.Lock(); res.Counts[k] += d; cmu.Unlock() }
	fail := func(s string) { cmu.Lock(); res.Errors = append(res.Errors, s); cmu.Unlock() }
	dur := 600 * time.Millisecond
	var wg sync.WaitGroup

	// (a) topics: publishers, subscribers that receive / close at random moments / double close, Handle users
	{
		tp := topics.New[int]()
		ctx, cancel := context.WithTimeout(context.Background(), dur)
		for p := 0; p < 3; p++ {
			wg.Add(1)
			go func(p int) {
				defer wg.Done()
				for i := 0; ctx.Err() == nil; i++ {
					tp.Publish(p*1000000 + i)
					tp.Last()
					count("topic.publish", 1)
				}
			}(p)
		}
		for s := 0; s < 4; s++ {
			wg.Add(1)
			go func(s int) {
				defer wg.Done()
				rr := NewRng(uint64(1000 + s))
				for ctx.Err() == nil {
					sub := tp.Subscribe(rr.Bool())
					for k := rr.Intn(6); k > 0; k-- {
						if _, err := sub.Next(ctx); err != nil {
							break
						}
					}
					if rr.Bool() {
						go sub.Close() // Close from another goroutine, concurrently with ours
					}
					sub.Close()
					sub.Close()
					count("topic.subscription", 1)
				}
			}(s)
		}
		wg.Add(1)
		go func() {
			defer wg.Done()
			rr := NewRng(77)
			for ctx.Err() == nil {
				_ = tp.Handle(ctx, func(v int) error {
					if rr.Chance(20) {
						return errConcCb
					}
					return nil
				})
				count("topic.handle", 1)
			}
		}()
		wg.Wait()
		cancel()
	}

	// (b) climit: every token released three times from three goroutines
	{
		cl := climit.New("conc", "race", 3, nil)
		ctx, cancel := context.WithTimeout(context.Background(), dur/2)
		var out atomic.Int32
		for g := 0; g < 8; g++ {
			wg.Add(1)
			go func() {
				defer wg.Done()
				for ctx.Err() == nil {
					t := cl.Acquire()
					if v := out.Add(1); v > 3 {
						fail(fmt.Sprintf("climit: %d tokens out with limit 3", v))
					}
					var w2 sync.WaitGroup
					out.Add(-1)
					for k := 0; k < 3; k++ {
						w2.Add(1)
						go func() { defer w2.Done(); t.Release() }()
					}
					w2.Wait()
					count("climit.cycle", 1)
				}
			}()
		}
		wg.Wait()
		cancel()
	}

	// (c) health tracker shared by several goroutines, (d) cleaner SetCommitted / GetCommitted / RunOnce
	{
		ctx, cancel := context.WithTimeout(context.Background(), dur/3)
		ht := healthtracker.New(healthtracker.HealthConfig{}, "conc_race", "stress")
		for g := 0; g < 4; g++ {
			wg.Add(1)
			go func(g int) {
				defer wg.Done()
				for i := 0; ctx.Err() == nil; i++ {
					if (i+g)%3 == 0 {
						ht.AddSuccess()
					} else {
						ht.AddFailure(errConcStorage)
					}
				}
			}(g)
		}
		cw := cleaner.New("db", memory.New(), config.Cleanup{Enabled: true, Interval: time.Millisecond, MustKeepInterval: time.Hour, RemoveOldInstancesInterval: time.Hour}, logrus.StandardLogger())
		wg.Add(3)
		go func() {
			defer wg.Done()
			for ctx.Err() == nil {
				_ = cw.RunOnce(ctx, time.Now())
			}
		}()
		go func() {
			defer wg.Done()
			for i := 0; ctx.Err() == nil; i++ {
				cw.SetCommitted(map[string]time.Time{fmt.Sprintf("i%d", i%5): time.Now()})
			}
		}()
		go func() {
			defer wg.Done()
			for i := 0; ctx.Err() == nil; i++ {
				cw.GetCommitted(fmt.Sprintf("i%d", i%5))
			}
		}()
		wg.Wait()
		cancel()
	}

	// (e) everything together: two instances syncing through one bucket, an application writing into each
	// LMDB, cleaner and sweeper enabled, event subscribers that come and go
	var bucket simpleblob.Interface = memory.New()
	{
		ctx, cancel := context.WithCancel(context.Background())
		rets := make(chan error, 2)
		var cleanups []func()
		for _, inst := range []string{"a", "b"} {
			env, cleanup, err := newEnv()
			if err != nil {
				cancel()
				return nil, err
			}
			cleanups = append(cleanups, cleanup)
			ev := events.New()
			sy, err := newSyncer(env, bucket, syncerOpts{Native: false, Instance: inst, SyncerOpt: syncer.Options{Events: ev}, Mod: func(c *config.Config, lc *config.LMDB) {
				c.LMDBPollInterval = time.Millisecond
				c.StoragePollInterval = time.Millisecond
				c.Storage.Cleanup = config.Cleanup{Enabled: true, Interval: 5 * time.Millisecond, MustKeepInterval: 20 * time.Millisecond, RemoveOldInstancesInterval: 30 * time.Minute}
				c.Sweeper = config.Sweeper{Enabled: true, RetentionDays: 1, Interval: 5 * time.Millisecond, FirstInterval: time.Millisecond, LockDuration: 5 * time.Millisecond, ReleaseDuration: time.Millisecond}
			}})
			if err != nil {
				cancel()
				return nil, err
			}
			go func() { rets <- sy.Sync(ctx) }()
			wg.Add(2)
			go func(env *lmdb.Env, inst string) { // the application
				defer wg.Done()
				for i := 0; ctx.Err() == nil; i++ {
					_ = env.Update(func(txn *lmdb.Txn) error {
						dbi, err := txn.OpenDBI("data", lmdb.Create)
						if err != nil {
							return err
						}
						if i%7 == 3 {
							_ = txn.Del(dbi, []byte(fmt.Sprintf("%s%d", inst, (i-3)%10)), nil)
							return nil
						}
						return txn.Put(dbi, []byte(fmt.Sprintf("%s%d", inst, i%10)), []byte(fmt.Sprintf("v%d", i)), 0)
					})
					time.Sleep(500 * time.Microsecond)
				}
			}(env, inst)
			go func(ev *events.Events) { // event subscribers coming and going
				defer wg.Done()
				rr := NewRng(5)
				for ctx.Err() == nil {
					c2, cf := context.WithTimeout(ctx, time.Duration(1+rr.Intn(5))*time.Millisecond)
					k := 0
					_ = ev.UpdateLoaded.Handle(c2, func(events.UpdateInfo) error {
						k++
						if k > 2 {
							return errConcCb
						}
						return nil
					})
					sub := ev.UpdateStored.Subscribe(true)
					_, _ = sub.Next(c2)
					sub.Close()
					cf()
					count("sync.subscriber", 1)
				}
			}(ev)
		}
		// a third instance that went silent an hour ago keeps (re)appearing with old snapshots: both live instances
		// merge them (the sync loop records them) while their cleaners judge the stale instance (and ask what has
		// been committed) and delete its superseded snapshots
		wg.Add(1)
		go func() {
			defer wg.Done()
			old := time.Now().Add(-time.Hour)
			for i := 0; ctx.Err() == nil; i++ {
				ts := old.Add(time.Duration(i) * time.Millisecond)
				sn := buildSnapshot(3, 1, "z", uint64(ts.UnixNano()), []snapDBI{{Name: "data", Entries: []snapshot.KV{{Key: []byte(fmt.Sprintf("z%d", i%5)), Value: []byte("zv"), TimestampNano: uint64(ts.UnixNano())}}}})
				if blob, _, err := snapshot.DumpData(sn); err == nil {
					_ = bucket.Store(ctx, snapshot.Name(dbName, "z", "G-stale", ts), blob)
					count("sync.stale-snapshot", 1)
				}
				time.Sleep(3 * time.Millisecond)
			}
		}()
		time.Sleep(dur)
		cancel()
		for i := 0; i < 2; i++ {
			select {
			case <-rets:
			case <-time.After(3 * time.Second):
				fail("Sync did not return within 3 s of the cancellation in the two-instance stress")
			}
		}
		wg.Wait()
		defer func() {
			for _, c := range cleanups {
				c()
			}
		}()
	}

	// (f) receiver used the way the sync loop uses it, on the bucket the two instances filled
	{
		ctx, cancel := context.WithTimeout(context.Background(), dur/2)
		c := config.Config{StoragePollInterval: time.Millisecond, StorageRetryInterval: time.Millisecond, MemoryDownloadedSnapshots: 2, MemoryDecompressedSnapshots: 2}
		rc := receiver.New(bucket, c, dbName, logrus.StandardLogger(), "self", events.New(), hooks.New())
		if err := rc.RunOnce(ctx, true); err != nil {
			fail("receiver RunOnce: " + err.Error())
		}
		wg.Add(3)
		go func() { defer wg.Done(); _ = rc.Run(ctx) }()
		go func() {
			defer wg.Done()
			for ctx.Err() == nil {
				if inst, u := rc.Next(); inst != "" {
					u.Close()
					u.Close()
					count("receiver.update", 1)
				}
				rc.SeenInstances()
				rc.HasSnapshots()
			}
		}()
		go func() {
			defer wg.Done()
			for i := 0; ctx.Err() == nil; i++ {
				ls, _ := bucket.List(ctx, "")
				if len(ls) > 0 {
					b, err := bucket.Load(ctx, ls[i%len(ls)].Name)
					if err == nil { // re-upload under a newer name so that the downloaders keep working
						ni, perr := concNewerName(ls[i%len(ls)].Name, i)
						if perr == nil {
							_ = bucket.Store(ctx, ni, b)
						}
					}
				}
				if i%5 == 0 {
					rc.MarkCorrupt(fmt.Sprintf("nonexistent-%d", i), errConcStorage)
				}
				time.Sleep(300 * time.Microsecond)
			}
		}()
		wg.Wait()
		cancel()
	}

	// quiescence: nothing may be left in repository code
	deadline := time.Now().Add(3 * time.Second)
	var left []concG
	for {
		left = concRepoGoroutines(baseline)
		if len(left) == 0 || time.Now().After(deadline) {
			break
		}
		time.Sleep(2 * time.Millisecond)
	}
	for _, g := range left {
		res.Blocked = append(res.Blocked, g.Stack)
	}
	if err := writeJSON(filepath.Join(dir, "race_child.json"), res); err != nil {
		return nil, err
	}
	return &AreaOut{Hist: map[string]int{}}, nil
}

var concNameTsRe = regexp.MustCompile(`(\d{8}-\d{6}-\d{9})`)

// a copy of a snapshot name with a later timestamp (same instance)
func concNewerName(name string, i int) (string, error) {
	loc := concNameTsRe.FindStringIndex(name)
	if loc == nil {
		return "", errors.New("no timestamp in name")
	}
	ts := time.Now().Add(time.Duration(i) * time.Microsecond).UTC().Format("20060102-150405.000000000")
	ts = strings.Replace(ts, ".", "-", 1)
	return name[:loc[0]] + ts + name[loc[1]:], nil
}

func areaConcRace(r *Rng, n int, dir string) (*AreaOut, error) {
	out := &AreaOut{Hist: map[string]int{}, Rule: "SUPPORTING evidence for the atomicity assumptions of the C17 models, not a proof: a stress of topics (publish / subscribe / Next / Close from several goroutines / Handle with failing callbacks), climit (every token released three times concurrently), health tracker, cleaner SetCommitted/GetCommitted/RunOnce, two complete instances syncing through one bucket with application writers, cleaner, sweeper and transient event subscribers, and a receiver with downloaders — run in a child process whose stderr is scanned for race-detector reports, followed by a goroutine dump after quiescence. Only meaningful from a binary built with -race (histogram key race_detector)"}
	exe, err := os.Executable()
	if err != nil {
		return nil, err
	}
	rounds := 1 + n/300
	for round := 0; round < rounds; round++ {
		d := filepath.Join(dir, fmt.Sprintf("race_child_%d", round))
		cctx, ccancel := context.WithTimeout(context.Background(), 120*time.Second)
		cmd := exec.CommandContext(cctx, exe, "conc-race-child", "-seed", fmt.Sprint(r.U64()%1000), "-out", d)
		cmd.Env = append(os.Environ(), "GORACE=halt_on_error=0 exitcode=0")
		var so, se bytes.Buffer
		cmd.Stdout, cmd.Stderr = &so, &se
		runErr := cmd.Run()
		ccancel()
		out.OracleN++
		var res concRaceResult
		if b, err := os.ReadFile(filepath.Join(d, "race_child.json")); err == nil {
			_ = json.Unmarshal(b, &res)
		} else if runErr != nil {
			// the stress process died before writing its report: a panic or crash in the code under stress
			clause := "stress-failure"
			if strings.Contains(se.String(), "DATA RACE") {
				clause = "data-race"
			}
			txt := se.String()
			if len(txt) > 6000 {
				txt = txt[:6000]
			}
			out.Oracle = append(out.Oracle, OracleFailure{"C17", clause, fmt.Sprintf("the concurrent stress of topics/climit/cleaner/receiver crashed (%v)", runErr), txt})
			continue
		}
		if res.RaceDetector {
			hist(out.Hist, "race_detector=on")
		} else {
			hist(out.Hist, "race_detector=off")
		}
		ks := make([]string, 0, len(res.Counts))
		for k := range res.Counts {
			ks = append(ks, k)
		}
		sort.Strings(ks)
		for _, k := range ks {
			out.Hist[k] += res.Counts[k]
		}
		reports := strings.Split(se.String(), "WARNING: DATA RACE")
		for i, rep := range reports[1:] {
			if i >= 3 {
				break
			}
			if len(rep) > 3000 {
				rep = rep[:3000]
			}
			out.Oracle = append(out.Oracle, OracleFailure{"C17", "data-race", "race detector report: " + strings.TrimSpace(rep), "conc-race-child round " + fmt.Sprint(round)})
		}
		for _, b := range res.Blocked {
			out.Oracle = append(out.Oracle, OracleFailure{"C17", "goroutine-left-after-quiescence", "goroutine still in repository code after the stress was cancelled: " + b, "conc-race-child"})
		}
		for _, e := range res.Errors {
			out.Oracle = append(out.Oracle, OracleFailure{"C17", "stress-failure", e, "conc-race-child"})
		}
		out.CaseDescs = append(out.CaseDescs, fmt.Sprintf("race stress round %d", round))
		os.RemoveAll(d)
	}
	// one trivial Coq case so that the driver has a shard to evaluate
	cases := []string{"CCancel 3 false 3"}
	out.Cases = rounds
	out.Distinct = rounds
	out.Samples = append(out.Samples, "stress round (see histogram)")
	files, err := writeCases(dir, "conc-race", "From LS Require Import Conc.Climit Conc.GlobalStorage Conc.Cancel Conc.Topics Corr.Obs Corr.Run_conc.", "ccase", cases, 150)
	out.Shards = files
	return out, err
}
