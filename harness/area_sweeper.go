package main

// area "sweeper": the tomb sweeper (syncer/sweeper) and the LimitScanner resume rule
// (lmdbenv/limitscanner) on a real LMDB.
//
// Four streams:
//  A  SSlice: one write transaction with the real limitscanner.LimitScanner (LimitRecords = 0..5, an
//     arbitrary Last cursor) and a copy of the sweeper's loop body, small DBIs      -> model comparison
//  B  SPass tag 1: a copy of the sweep loop (same LimitScanner) over 1-4 small DBIs with application
//     transactions between the slices aimed at the resume key                         -> model comparison + oracle
//  C  SPass tag 2: the REAL Sweeper (VerifSweepOnce), quiescent application, LockDuration 0 or 1ns,
//     small DBIs and a few of > 1000 records (limit at every 1000th record)           -> model comparison + oracle
//  D  the REAL Sweeper on 2-5 DBIs of up to 5,000 records with LockDuration 1ns, ReleaseDuration 25ms
//     and a concurrent application goroutine writing around the slice boundaries      -> oracle only

import (
	"bytes"
	"context"
	"encoding/binary"
	"fmt"
	"io"
	"os"
	"reflect"
	"sort"
	"strings"
	"sync"
	"time"
	"unsafe"

	"github.com/PowerDNS/lightningstream/config"
	"github.com/PowerDNS/lightningstream/lmdbenv"
	"github.com/PowerDNS/lightningstream/lmdbenv/header"
	"github.com/PowerDNS/lightningstream/lmdbenv/limitscanner"
	"github.com/PowerDNS/lightningstream/syncer/sweeper"
	"github.com/PowerDNS/lmdb-go/lmdb"
	"github.com/sirupsen/logrus"
)

func init() { areas["sweeper"] = areaSweeper }

// ---------- data ----------

type swRec struct{ K, V []byte }
type swDBI struct {
	Name string
	Recs []swRec
}
type swEnv []swDBI // sorted by name, records sorted by key

type swOp struct {
	D    string
	K, V []byte
	Del  bool
}
type swSlot struct {
	Lim int
	Ops []swOp
}

func swVal(ts uint64, flags byte, app []byte) []byte {
	b := make([]byte, 24, 24+len(app))
	binary.BigEndian.PutUint64(b[0:8], ts)
	binary.BigEndian.PutUint64(b[8:16], 7)
	b[17] = flags
	return append(b, app...)
}

// large DBIs with keys "k%06d" are written as (big_dbi table [(index, table index); ...])
func (d swDBI) coqCompact() (string, bool) {
	if len(d.Recs) < 100 {
		return "", false
	}
	var tbl []string
	idx := map[string]int{}
	it := make([]string, len(d.Recs))
	for i, p := range d.Recs {
		var n int
		if len(p.K) != 7 || p.K[0] != 'k' {
			return "", false
		}
		if _, err := fmt.Sscanf(string(p.K[1:]), "%06d", &n); err != nil || fmt.Sprintf("k%06d", n) != string(p.K) {
			return "", false
		}
		j, ok := idx[string(p.V)]
		if !ok {
			j = len(tbl)
			idx[string(p.V)] = j
			tbl = append(tbl, cBytes(p.V))
		}
		it[i] = fmt.Sprintf("(%d,%d)", n, j)
	}
	return fmt.Sprintf("(big_dbi [%s] [%s])", strings.Join(tbl, "; "), strings.Join(it, ";")), true
}

func (d swDBI) coq() string {
	if s, ok := d.coqCompact(); ok {
		return s
	}
	it := make([]string, len(d.Recs))
	for i, p := range d.Recs {
		it[i] = fmt.Sprintf("(%s, %s)", cBytes(p.K), cBytes(p.V))
	}
	return "[" + strings.Join(it, "; ") + "]"
}
func (e swEnv) coq() string {
	it := make([]string, len(e))
	for i, d := range e {
		it[i] = fmt.Sprintf("(%s, %s)", cBytes([]byte(d.Name)), d.coq())
	}
	return "[" + strings.Join(it, ";\n    ") + "]"
}
func swCur(k, v []byte) string {
	if k == nil && v == nil {
		return "None"
	}
	return fmt.Sprintf("(Some (%s, %s))", cBytes(k), cBytes(v))
}
func (o swOp) coq() string {
	if o.Del {
		return fmt.Sprintf("ODel %s %s", cBytes([]byte(o.D)), cBytes(o.K))
	}
	return fmt.Sprintf("OPut %s %s %s", cBytes([]byte(o.D)), cBytes(o.K), cBytes(o.V))
}
func swSched(sc []swSlot) string {
	it := make([]string, len(sc))
	for i, s := range sc {
		ops := make([]string, len(s.Ops))
		for j, o := range s.Ops {
			ops[j] = o.coq()
		}
		it[i] = fmt.Sprintf("(%d%%nat, [%s])", s.Lim, strings.Join(ops, "; "))
	}
	return "[" + strings.Join(it, "; ") + "]"
}

func (e swEnv) clone() swEnv {
	out := make(swEnv, len(e))
	for i, d := range e {
		out[i] = swDBI{d.Name, append([]swRec{}, d.Recs...)}
	}
	return out
}
func (e swEnv) get(name string) *swDBI {
	for i := range e {
		if e[i].Name == name {
			return &e[i]
		}
	}
	return nil
}
func (d *swDBI) lookup(k []byte) ([]byte, bool) {
	i := sort.Search(len(d.Recs), func(i int) bool { return bytes.Compare(d.Recs[i].K, k) >= 0 })
	if i < len(d.Recs) && bytes.Equal(d.Recs[i].K, k) {
		return d.Recs[i].V, true
	}
	return nil, false
}

// ---------- real LMDB plumbing ----------

func swNewEnv() (*lmdb.Env, func(), error) {
	dir, err := os.MkdirTemp("", "lsverif_sw_")
	if err != nil {
		return nil, nil, err
	}
	env, err := lmdbenv.NewWithOptions(dir, lmdbenv.Options{Create: true, MaxDBs: 64, MapSize: 128 << 20})
	if err != nil {
		os.RemoveAll(dir)
		return nil, nil, err
	}
	return env, func() { env.Close(); os.RemoveAll(dir) }, nil
}

func swLoad(env *lmdb.Env, e swEnv) error {
	return env.Update(func(txn *lmdb.Txn) error {
		for _, d := range e {
			dbi, err := txn.OpenDBI(d.Name, lmdb.Create)
			if err != nil {
				return err
			}
			for _, p := range d.Recs {
				if err := txn.Put(dbi, p.K, p.V, 0); err != nil {
					return err
				}
			}
		}
		return nil
	})
}

func swDump(env *lmdb.Env, names []string) (swEnv, error) {
	var out swEnv
	err := env.View(func(txn *lmdb.Txn) error {
		for _, n := range names {
			dbi, err := txn.OpenDBI(n, 0)
			if err != nil {
				return err
			}
			c, err := txn.OpenCursor(dbi)
			if err != nil {
				return err
			}
			d := swDBI{Name: n}
			flag := uint(lmdb.First)
			for {
				k, v, err := c.Get(nil, nil, flag)
				if lmdb.IsNotFound(err) {
					break
				}
				if err != nil {
					c.Close()
					return err
				}
				d.Recs = append(d.Recs, swRec{append([]byte{}, k...), append([]byte{}, v...)})
				flag = lmdb.Next
			}
			c.Close()
			out = append(out, d)
		}
		return nil
	})
	return out, err
}

func swApply(env *lmdb.Env, ops []swOp) error {
	if len(ops) == 0 {
		return nil
	}
	return env.Update(func(txn *lmdb.Txn) error {
		for _, o := range ops {
			dbi, err := txn.OpenDBI(o.D, 0)
			if err != nil {
				return err
			}
			if o.Del {
				if err := txn.Del(dbi, o.K, nil); err != nil && !lmdb.IsNotFound(err) {
					return err
				}
			} else if err := txn.Put(dbi, o.K, o.V, 0); err != nil {
				return err
			}
		}
		return nil
	})
}

// LimitCursor has unexported fields; an arbitrary cursor is built through an identical layout.
type swCursorMirror struct{ key, val []byte }

func swMakeCursor(k, v []byte) limitscanner.LimitCursor {
	var c limitscanner.LimitCursor
	*(*swCursorMirror)(unsafe.Pointer(&c)) = swCursorMirror{k, v}
	return c
}
func swCursorLayoutOK() bool {
	t := reflect.TypeOf(limitscanner.LimitCursor{})
	bs := reflect.TypeOf([]byte(nil))
	return t.NumField() == 2 && t.Field(0).Name == "key" && t.Field(1).Name == "val" &&
		t.Field(0).Type == bs && t.Field(1).Type == bs && t.Size() == reflect.TypeOf(swCursorMirror{}).Size()
}

// swSliceBody is a copy of the transaction body of sweeper.sweep (everything between
// `dbi, err := txn.OpenDBI(dbiName, 0)` and `return ls.Err()`), with LimitRecords instead of
// LimitDuration. assigned tells whether `last, limitReached = ls.Cursor()` was reached.
func swSliceBody(txn *lmdb.Txn, dbiName string, cutoffTS header.Timestamp, lim int, last limitscanner.LimitCursor) (nl limitscanner.LimitCursor, k, v []byte, lr bool, assigned bool, err error) {
	dbi, err := txn.OpenDBI(dbiName, 0)
	if err != nil {
		return nl, nil, nil, false, false, err
	}
	ls, err := limitscanner.NewLimitScanner(limitscanner.Options{
		Txn:                     txn,
		DBI:                     dbi,
		LimitRecords:            lim,
		LimitDurationCheckEvery: limitscanner.LimitDurationCheckEveryDefault,
		Last:                    last,
	})
	if err != nil {
		return nl, nil, nil, false, false, err
	}
	defer ls.Close()
	for ls.Scan() {
		h, _, err := header.Parse(ls.Val())
		if err != nil {
			return nl, nil, nil, false, false, fmt.Errorf("failed to parse header: %w", err)
		}
		if !h.Flags.IsDeleted() {
			continue
		}
		if h.Timestamp >= cutoffTS {
			continue
		}
		if err := txn.Del(dbi, ls.Key(), ls.Val()); err != nil {
			return nl, nil, nil, false, false, err
		}
	}
	k = append([]byte(nil), ls.Key()...)
	v = append([]byte(nil), ls.Val()...)
	if ls.Key() == nil {
		k = nil
	}
	if ls.Val() == nil {
		v = nil
	}
	nl, lr = ls.Cursor()
	return nl, k, v, lr, true, ls.Err()
}

// ---------- generators ----------

var swKeys = [][]byte{[]byte("a"), []byte("a\x00"), []byte("ab"), []byte("b"), []byte("b\xff"), []byte("c"), []byte("d"),
	[]byte("e"), []byte("f"), []byte("g"), []byte("h"), []byte("\x00"), []byte("\xff"), []byte("c\x00"), []byte("dd")}

// a stored value relative to the cutoff. kind: live, young, expired, bad
func swGenVal(r *Rng, cutoff uint64, exact bool, margin uint64) ([]byte, string) {
	k := r.Intn(20)
	switch {
	case k < 5:
		ts := pick(r, []uint64{1, cutoff - 1, cutoff, cutoff + 1, cutoff + margin + 5})
		if !exact {
			ts = pick(r, []uint64{1, cutoff - margin - 7, cutoff + margin + 5})
		}
		return swVal(ts, 0, pick(r, [][]byte{nil, []byte("v"), []byte("vv")})), "live"
	case k < 10: // young marker
		if cutoff == 0 {
			return swVal(pick(r, []uint64{0, 0, 1, 1 << 60}), 1, nil), "young"
		}
		if exact {
			return swVal(pick(r, []uint64{cutoff, cutoff, cutoff + 1, 1<<64 - 1}), 1, nil), "young"
		}
		return swVal(cutoff+margin+uint64(r.Intn(1000)), 1, nil), "young"
	case k < 18: // expired marker; a small set of timestamps so that byte-identical values are frequent
		if cutoff == 0 {
			return swVal(pick(r, []uint64{0, 1}), 1, nil), "young"
		}
		if r.Chance(15) {
			// a marker written with header extension blocks (header_extra_padding_block, or another writer): 32 or 40
			// bytes, still a marker
			ts := cutoff - margin - 2
			if exact {
				ts = cutoff - 1
			}
			return mkStored(ts, 7, 1, 1+r.Intn(2), nil), "expired"
		}
		if exact {
			return swVal(pick(r, []uint64{cutoff - 1, cutoff - 1, cutoff - 1, 0, 1}), 1, nil), "expired"
		}
		return swVal(cutoff-margin-uint64(r.Intn(2)), 1, nil), "expired"
	case k == 18:
		if exact {
			return swVal(cutoff-1, byte(1+2*r.Intn(100)), []byte("x")), "expired" // odd flag byte with a value
		}
		return swVal(cutoff-margin-3, byte(1+2*r.Intn(100)), pick(r, [][]byte{[]byte("x"), nil})), "expired" // other (local) flag bits set
	default:
		switch r.Intn(3) {
		case 0:
			return r.Bytes(r.Intn(24)), "bad"
		case 1:
			b := swVal(cutoff-1, 1, nil)
			b[16] = 1
			return b, "bad"
		default:
			b := swVal(5, 1, nil)
			b[23] = 2 // two extension blocks announced, none present
			return b, "bad"
		}
	}
}

func swGenDBI(r *Rng, name string, maxN int, cutoff uint64, exact bool, margin uint64, headerless bool, badPct int) swDBI {
	n := r.Intn(maxN + 1)
	perm := make([]int, len(swKeys))
	for i := range perm {
		perm[i] = i
	}
	for i := len(perm) - 1; i > 0; i-- {
		j := r.Intn(i + 1)
		perm[i], perm[j] = perm[j], perm[i]
	}
	if n > len(perm) {
		n = len(perm)
	}
	d := swDBI{Name: name}
	for _, i := range perm[:n] {
		var v []byte
		if headerless {
			v = pick(r, [][]byte{[]byte("plain"), []byte(""), []byte("0123456789012345678901234567"), r.Bytes(30)})
		} else {
			var kind string
			for {
				v, kind = swGenVal(r, cutoff, exact, margin)
				if kind != "bad" || r.Chance(badPct) {
					break
				}
			}
		}
		d.Recs = append(d.Recs, swRec{swKeys[i], v})
	}
	sort.Slice(d.Recs, func(a, b int) bool { return bytes.Compare(d.Recs[a].K, d.Recs[b].K) < 0 })
	return d
}

var swNamesPrefixed = []string{"_sync", "_sync_shadow_a", "_syncx", "_sync_meta"}
var swNamesPlain = []string{"app", "data", "_syn", "x_sync", "_Sync_a", "_sync"[:4] + "C"}

// ---------- the property oracle (implementation side only) ----------

type swOracleIn struct {
	S0, S1   swEnv
	Ops      []swOp // application writes in commit order
	Native   bool
	CutLo    uint64 // every marker below CutLo is expired for the pass, every marker >= CutHi is not
	CutHi    uint64
	EndedOK  bool
	Describe any
}

func swIsMarkerBelow(v []byte, cut uint64) (marker bool, below bool) {
	h, _, err := header.Parse(v)
	if err != nil || !h.Flags.IsDeleted() {
		return false, false
	}
	return true, uint64(h.Timestamp) < cut
}

func swSelected(native bool, name string) bool { return native || strings.HasPrefix(name, "_sync") }

func swOracle(in swOracleIn, out *AreaOut) {
	type lastOp struct {
		v   []byte
		del bool
	}
	touched := map[string]lastOp{}
	for _, o := range in.Ops {
		touched[o.D+"\x00"+string(o.K)] = lastOp{o.V, o.Del}
	}
	fail := func(clause, desc string) {
		out.Oracle = append(out.Oracle, OracleFailure{"C13", clause, desc, in.Describe})
		if clause == "only-expired" {
			// C04: a deletion marker younger than the retention period that the sweeper removes is a lost deletion
			// (older versions arriving later resurrect the key)
			out.Oracle = append(out.Oracle, OracleFailure{"C04", "young-marker-swept", desc, in.Describe})
		}
	}
	for _, d0 := range in.S0 {
		out.OracleN++
		sel := swSelected(in.Native, d0.Name)
		d1 := in.S1.get(d0.Name)
		if d1 == nil {
			fail("only-expired", "DBI "+d0.Name+" disappeared")
			continue
		}
		seen := map[string]bool{}
		for _, p := range d0.Recs {
			seen[string(p.K)] = true
			id := d0.Name + "\x00" + string(p.K)
			v1, present := d1.lookup(p.K)
			if lo, ok := touched[id]; ok {
				swCheckTouched(d0.Name, p.K, lo.v, lo.del, v1, present, sel, in, fail)
				continue
			}
			marker, below := swIsMarkerBelow(p.V, in.CutLo)
			_, belowHi := swIsMarkerBelow(p.V, in.CutHi)
			switch {
			case present && !bytes.Equal(v1, p.V):
				fail("only-expired", fmt.Sprintf("dbi %q key %x: value altered %x -> %x", d0.Name, p.K, p.V, v1))
			case !present && !sel:
				fail("shadow-scope", fmt.Sprintf("dbi %q (not selected in this mode) lost key %x", d0.Name, p.K))
			case !present && !(marker && belowHi):
				fail("only-expired", fmt.Sprintf("dbi %q key %x removed but it was not an expired marker (value %x, cutoff in [%d,%d])", d0.Name, p.K, p.V, in.CutLo, in.CutHi))
			case present && sel && marker && below && in.EndedOK:
				fail("complete", fmt.Sprintf("dbi %q key %x: expired marker (value %x, cutoff >= %d) untouched by the application survived a pass that ended normally", d0.Name, p.K, p.V, in.CutLo))
				if len(p.V) > 24 {
					// C14: a value with header extension blocks (or with a value after the header) is read by its header
					out.Oracle = append(out.Oracle, OracleFailure{"C14", "extension-blocks-read", fmt.Sprintf("dbi %q key %x: the stored value %x (%d bytes: header with %d extension block(s)) is a deletion marker older than the cutoff; the sweeper did not take it for one", d0.Name, p.K, p.V, len(p.V), int(p.V[22])<<8|int(p.V[23])), in.Describe})
				}
			}
		}
		for _, p := range d1.Recs {
			if seen[string(p.K)] {
				continue
			}
			lo, ok := touched[d0.Name+"\x00"+string(p.K)]
			if !ok {
				fail("only-expired", fmt.Sprintf("dbi %q key %x appeared", d0.Name, p.K))
				continue
			}
			swCheckTouched(d0.Name, p.K, lo.v, lo.del, p.V, true, sel, in, fail)
		}
	}
	if len(in.S1) != len(in.S0) {
		fail("only-expired", "set of DBIs changed")
	}
}

func swCheckTouched(d string, k, lastV []byte, lastDel bool, v1 []byte, present bool, sel bool, in swOracleIn, fail func(string, string)) {
	switch {
	case lastDel && present:
		fail("only-expired", fmt.Sprintf("dbi %q key %x: deleted by the application, present afterwards", d, k))
	case !lastDel && present && !bytes.Equal(v1, lastV):
		fail("only-expired", fmt.Sprintf("dbi %q key %x: application wrote %x, found %x", d, k, lastV, v1))
	case !lastDel && !present:
		marker, _ := swIsMarkerBelow(lastV, in.CutHi)
		_, belowHi := swIsMarkerBelow(lastV, in.CutHi)
		if !sel {
			fail("shadow-scope", fmt.Sprintf("dbi %q (not selected) lost the application's key %x", d, k))
		} else if !(marker && belowHi) {
			fail("only-expired", fmt.Sprintf("dbi %q key %x: the application's value %x (not an expired marker) was removed", d, k, lastV))
		}
	}
}

// ---------- stream A: single slices ----------

func swStreamA(r *Rng, n int, out *AreaOut, add func(cs, desc, histKey string, nontriv bool)) error {
	env, done, err := swNewEnv()
	if err != nil {
		return err
	}
	defer done()
	if err := env.Update(func(txn *lmdb.Txn) error { _, err := txn.OpenDBI("s", lmdb.Create); return err }); err != nil {
		return err
	}
	for i := 0; i < n; i++ {
		cutoff := pick(r, []uint64{1000, 1000, 1700000000000000000, 1 << 63, 0, 1<<64 - 1})
		d := swGenDBI(r, "s", 8, cutoff, true, 10, false, 60)
		// the Last cursor
		var lk, lv []byte
		if len(d.Recs) > 0 && r.Chance(85) {
			j := r.Intn(len(d.Recs))
			p := d.Recs[j]
			switch r.Intn(8) {
			case 0, 1, 2: // unchanged last record
				lk, lv = p.K, p.V
			case 3: // same key, other value
				lk = p.K
				lv, _ = swGenVal(r, cutoff, true, 10)
			case 4: // key just after an existing one (deleted last key)
				lk, lv = append(append([]byte{}, p.K...), 0), p.V
			case 5: // deleted last key whose successor carries the byte-identical value
				if j > 0 {
					lk, lv = append(append([]byte{}, d.Recs[j-1].K...), 1), p.V
				} else {
					lk, lv = []byte{0}, p.V
				}
			case 6: // beyond everything
				lk, lv = []byte("\xff\xff"), p.V
			default: // key with an empty value cursor
				lk, lv = p.K, []byte{}
			}
		} else if r.Chance(50) {
			lk, lv = pick(r, swKeys), swVal(cutoff-1, 1, nil)
		}
		lim := r.Intn(6)
		if r.Chance(25) {
			lim = len(d.Recs) + r.Intn(3) - 1
			if lim < 0 {
				lim = 0
			}
		}
		// real run
		var last limitscanner.LimitCursor
		if lk != nil || lv != nil {
			last = swMakeCursor(lk, lv)
		}
		var ok, ov []byte
		var lr bool
		err := env.Update(func(txn *lmdb.Txn) error {
			dbi, err := txn.OpenDBI("s", 0)
			if err != nil {
				return err
			}
			if err := txn.Drop(dbi, false); err != nil {
				return err
			}
			for _, p := range d.Recs {
				if err := txn.Put(dbi, p.K, p.V, 0); err != nil {
					return err
				}
			}
			return nil
		})
		if err != nil {
			return err
		}
		serr := env.Update(func(txn *lmdb.Txn) error {
			var e error
			_, ok, ov, lr, _, e = swSliceBody(txn, "s", header.Timestamp(cutoff), lim, last)
			return e
		})
		var obs string
		if serr != nil {
			obs = fmt.Sprintf("(SErr %d)", errClass(serr))
		} else {
			after, err := swDump(env, []string{"s"})
			if err != nil {
				return err
			}
			obs = fmt.Sprintf("(SOk %s %s %s)", after[0].coq(), swCur(ok, ov), cBool(lr))
		}
		cs := fmt.Sprintf("SSlice %d %s %d %s %s", cutoff, swCur(lk, lv), lim, d.coq(), obs)
		hk := "slice/first"
		if lk != nil || lv != nil {
			hk = "slice/resumed"
		}
		if serr != nil {
			hk += "/err"
		}
		add(cs, fmt.Sprintf("A|%d|%x|%x|%d|%s", cutoff, lk, lv, lim, d.coq()), hk, len(d.Recs) > 0)
	}
	return nil
}

// ---------- stream B: replayed sweep loop with application transactions between slices ----------

func swGenEnv(r *Rng, native bool, cutoff uint64, exact bool, margin uint64, maxRecs int, badPct int) swEnv {
	var e swEnv
	nd := 1 + r.Intn(4)
	used := map[string]bool{}
	for len(e) < nd {
		var name string
		if r.Chance(55) {
			name = pick(r, swNamesPrefixed)
		} else {
			name = pick(r, swNamesPlain)
		}
		if used[name] {
			continue
		}
		used[name] = true
		headerless := !native && !strings.HasPrefix(name, "_sync") && r.Chance(70)
		e = append(e, swGenDBI(r, name, maxRecs, cutoff, exact, margin, headerless, badPct))
	}
	sort.Slice(e, func(a, b int) bool { return e[a].Name < e[b].Name })
	return e
}

func swGenOps(r *Rng, e swEnv, cur string, lk, lv []byte, cutoff uint64) []swOp {
	if r.Chance(35) {
		return nil
	}
	var ops []swOp
	nops := 1 + r.Intn(2)
	for i := 0; i < nops; i++ {
		d := cur
		if r.Chance(20) {
			d = e[r.Intn(len(e))].Name
		}
		k := pick(r, swKeys)
		if lk != nil && r.Chance(70) {
			switch r.Intn(4) {
			case 0, 1:
				k = lk
			case 2:
				k = append(append([]byte{}, lk...), 0)
			default:
				if len(lk) > 1 {
					k = lk[:len(lk)-1]
				}
			}
		}
		switch r.Intn(6) {
		case 0, 1:
			ops = append(ops, swOp{D: d, K: k, Del: true})
		case 2:
			if lv != nil { // re-create / rewrite with the byte-identical value
				ops = append(ops, swOp{D: d, K: k, V: lv})
				break
			}
			fallthrough
		default:
			v, _ := swGenVal(r, cutoff, true, 10)
			ops = append(ops, swOp{D: d, K: k, V: v})
		}
	}
	return ops
}

// swReplay mirrors the structure of sweeper.sweep with swSliceBody as the transaction body.
// cls: 0 nil, 100 schedule used up, else the error class.
func swReplay(r *Rng, env *lmdb.Env, e swEnv, native bool, cutoff uint64, maxSlots int) (sc []swSlot, cls int, err error) {
	for _, d := range e { // ReadDBINames order = name order
		if !native && !strings.HasPrefix(d.Name, sweeper.SyncDBIPrefix) {
			continue
		}
		var last limitscanner.LimitCursor
		var limitReached bool
		for {
			if len(sc) >= maxSlots {
				return sc, 100, nil
			}
			lim := 1 + r.Intn(3)
			if r.Chance(10) {
				lim = 0
			}
			var lk, lv []byte
			uerr := env.Update(func(txn *lmdb.Txn) error {
				nl, k, v, lr, assigned, e := swSliceBody(txn, d.Name, header.Timestamp(cutoff), lim, last)
				if assigned {
					last, limitReached = nl, lr
					lk, lv = k, v
				}
				return e
			})
			ops := swGenOps(r, e, d.Name, lk, lv, cutoff)
			sc = append(sc, swSlot{lim, ops})
			if limitReached {
				if err := swApply(env, ops); err != nil {
					return sc, 0, err
				}
				continue
			}
			if uerr != nil {
				sc[len(sc)-1].Ops = nil
				return sc, errClass(uerr), nil
			}
			if err := swApply(env, ops); err != nil {
				return sc, 0, err
			}
			break
		}
	}
	return sc, 0, nil
}

func swNames(e swEnv) []string {
	n := make([]string, len(e))
	for i, d := range e {
		n[i] = d.Name
	}
	return n
}

func swFlatOps(sc []swSlot) []swOp {
	var o []swOp
	for _, s := range sc {
		o = append(o, s.Ops...)
	}
	return o
}

func swStreamB(r *Rng, n int, out *AreaOut, add func(cs, desc, histKey string, nontriv bool)) error {
	for i := 0; i < n; i++ {
		cutoff := pick(r, []uint64{1000, 1000, 1700000000000000000, 0})
		native := r.Chance(60)
		badPct := 0
		if r.Chance(25) {
			badPct = 30
		}
		e := swGenEnv(r, native, cutoff, true, 10, 7, badPct)
		env, done, err := swNewEnv()
		if err != nil {
			return err
		}
		if err := swLoad(env, e); err != nil {
			done()
			return err
		}
		sc, cls, err := swReplay(r, env, e, native, cutoff, 24)
		if err != nil {
			done()
			return err
		}
		after, err := swDump(env, swNames(e))
		done()
		if err != nil {
			return err
		}
		cs := fmt.Sprintf("SPass 1 %d %s %s\n    %s\n    (EObs %d %s)", cutoff, cBool(native), swSched(sc), e.coq(), cls, after.coq())
		hk := fmt.Sprintf("replay/native=%v/cls=%d", native, cls)
		add(cs, fmt.Sprintf("B|%d|%v|%s|%s", cutoff, native, swSched(sc), e.coq()), hk, len(sc) > 1)
		swOracle(swOracleIn{S0: e, S1: after, Ops: swFlatOps(sc), Native: native, CutLo: cutoff, CutHi: cutoff, EndedOK: cls == 0,
			Describe: map[string]any{"stream": "B(replayed loop)", "cutoff": cutoff, "native": native, "env": e.coq(), "sched": swSched(sc), "after": after.coq()}}, out)
	}
	return nil
}

// ---------- stream C: the real Sweeper, quiescent application ----------

// swCutoff is the harness's own statement of the cutoff of a pass started at t with retention R:
// max(0, t - R) in nanoseconds since the epoch (deliberately NOT header.TimestampFromTime).
func swCutoff(t time.Time, R time.Duration) uint64 {
	ns := t.Add(-R).UnixNano()
	if ns < 0 {
		return 0
	}
	return uint64(ns)
}

var swLogger = func() logrus.FieldLogger { l := logrus.New(); l.SetOutput(io.Discard); return l }()

func swBigDBI(r *Rng, name string, n int, cutLo, cutHi uint64, margin uint64) swDBI {
	d := swDBI{Name: name}
	expired := swVal(cutLo-margin-1, 1, nil) // byte-identical on many consecutive keys
	for i := 0; i < n; i++ {
		k := []byte(fmt.Sprintf("k%06d", i))
		var v []byte
		m := i % 1000
		switch {
		case m >= 994 || m <= 5: // around every slice boundary: runs of identical expired markers, sometimes broken
			if r.Chance(85) {
				v = expired
			} else {
				v = swVal(cutHi+margin+uint64(i%7), 0, []byte("l"))
			}
		case i%3 == 0:
			v = swVal(cutLo-margin-1-uint64(r.Intn(3)), 1, nil)
		case i%3 == 1:
			v = swVal(cutHi+margin+uint64(r.Intn(50)), 1, nil)
		default:
			v = swVal(uint64(1+r.Intn(20)), 0, []byte("live"))
		}
		d.Recs = append(d.Recs, swRec{k, v})
	}
	return d
}

func swStreamC(r *Rng, n int, nBig int, out *AreaOut, add func(cs, desc, histKey string, nontriv bool)) error {
	for i := 0; i < n+nBig; i++ {
		big := i >= n
		native := r.Chance(55)
		days := pick(r, []float32{1, 1, 1.5, 0.5, 2.25}) // retention_days is a float: fractions of a day count
		if r.Chance(30) && !big {
			days = 21000 // retention reaching before the epoch: the clamp gives cutoff 0
		}
		conf := config.Sweeper{Enabled: true, RetentionDays: days, LockDuration: 0, ReleaseDuration: 0}
		lim := 0
		if big || r.Chance(50) {
			conf.LockDuration = 1 // 1ns: the deadline check trips at every 1000th record
			lim = 1000
		}
		R := conf.RetentionDuration()
		margin := uint64(20 * time.Second)
		guess := swCutoff(time.Now(), R)
		// most runs substitute the sweeper's clock (hook, build tag verif): the cutoff is then known exactly, so the
		// boundary timestamps cutoff-1 / cutoff / cutoff+1 are decided by the real comparison; the clock jumps ten
		// minutes at every further reading, so a pass that read it again in a later slice would show
		fixedClock := days != 21000 && r.Chance(80)
		if fixedClock {
			T0 := time.Unix(1700000000, 0).Add(time.Duration(i) * time.Second)
			reads := 0
			sweeper.VerifSetClock(func(time.Time) time.Time {
				t := T0.Add(time.Duration(reads) * 10 * time.Minute)
				reads++
				return t
			})
			guess = swCutoff(T0, R)
			margin = 0
		}
		var e swEnv
		if days == 21000 {
			e = swGenEnv(r, native, 0, true, margin, 7, 0)
		} else {
			e = swGenEnv(r, native, guess, fixedClock, margin, 7, map[bool]int{true: 25, false: 0}[r.Chance(20)])
		}
		if big {
			sz := 1000 + r.Intn(1400)
			if r.Chance(30) {
				sz = pick(r, []int{1000, 1001, 2000})
			}
			name := "_sync_shadow_big"
			if native {
				name = "big"
			}
			e = append(e, swBigDBI(r, name, sz, guess, guess, margin))
			sort.Slice(e, func(a, b int) bool { return e[a].Name < e[b].Name })
		}
		env, done, err := swNewEnv()
		if err != nil {
			return err
		}
		if err := swLoad(env, e); err != nil {
			done()
			return err
		}
		sw := sweeper.New("verif", conf, env, swLogger, native)
		ctx, cancel := context.WithTimeout(context.Background(), 20*time.Second)
		t0 := time.Now()
		serr := sw.VerifSweepOnce(ctx)
		t1 := time.Now()
		cancel()
		sweeper.VerifSetClock(nil)
		after, err := swDump(env, swNames(e))
		// a SECOND pass of the same Sweeper object after the application replaced one DBI by another (same number of
		// DBIs): every pass works on the DBIs that exist when it starts
		if err == nil && serr == nil && fixedClock && len(e) > 0 && r.Chance(20) {
			// a SECOND pass of the same Sweeper an hour later with NOTHING written in between: markers expire by
			// time alone, so those that crossed the retention period meanwhile go now
			cut2 := guess + uint64(time.Hour)
			sweeper.VerifSetClock(func(time.Time) time.Time {
				return time.Unix(1700000000, 0).Add(time.Duration(i)*time.Second + time.Hour)
			})
			ctx2, cancel2 := context.WithTimeout(context.Background(), 20*time.Second)
			serr2 := sw.VerifSweepOnce(ctx2)
			cancel2()
			sweeper.VerifSetClock(nil)
			if s1, e1 := swDump(env, swNames(e)); e1 == nil {
				hist(out.Hist, "real/second-pass-quiet-lmdb")
				swOracle(swOracleIn{S0: after, S1: s1, Native: native, CutLo: cut2, CutHi: cut2, EndedOK: serr2 == nil,
					Describe: map[string]any{"stream": "C(real Sweeper, second pass of the same Sweeper one hour later, nothing written in between)", "native": native, "cutoff": cut2, "error": fmt.Sprint(serr2), "before": after.coq(), "after": s1.coq()}}, out)
			}
		} else if err == nil && serr == nil && fixedClock && r.Chance(30) && len(e) > 0 {
			victim := e[r.Intn(len(e))].Name
			newName := "zz_renamed"
			if strings.HasPrefix(victim, "_sync") || !native {
				newName = "_sync_shadow_renamed"
			}
			repl := swDBI{Name: newName}
			for j, k := range [][]byte{[]byte("a"), []byte("b"), []byte("c"), []byte("d")} {
				v := swVal(guess-1-uint64(j), 1, nil) // expired markers
				if j == 1 {
					v = swVal(guess+5, 1, nil) // a young one
				}
				if j == 3 {
					v = swVal(7, 0, []byte("live"))
				}
				repl.Recs = append(repl.Recs, swRec{k, v})
			}
			uerr := env.Update(func(txn *lmdb.Txn) error {
				dbi, err := txn.OpenDBI(victim, 0)
				if err != nil {
					return err
				}
				if err := txn.Drop(dbi, true); err != nil {
					return err
				}
				nd, err := txn.OpenDBI(newName, lmdb.Create)
				if err != nil {
					return err
				}
				for _, p := range repl.Recs {
					if err := txn.Put(nd, p.K, p.V, 0); err != nil {
						return err
					}
				}
				return nil
			})
			if uerr == nil {
				var names2 []string
				for _, d := range e {
					if d.Name != victim {
						names2 = append(names2, d.Name)
					}
				}
				names2 = append(names2, newName)
				sort.Strings(names2)
				s0, e0 := swDump(env, names2)
				sweeper.VerifSetClock(func(time.Time) time.Time { return time.Unix(1700000000, 0).Add(time.Duration(i) * time.Second) })
				ctx2, cancel2 := context.WithTimeout(context.Background(), 20*time.Second)
				serr2 := sw.VerifSweepOnce(ctx2)
				cancel2()
				sweeper.VerifSetClock(nil)
				s1, e1 := swDump(env, names2)
				if e0 == nil && e1 == nil {
					hist(out.Hist, "real/second-pass-after-dbi-replaced")
					swOracle(swOracleIn{S0: s0, S1: s1, Native: native, CutLo: guess, CutHi: guess, EndedOK: serr2 == nil,
						Describe: map[string]any{"stream": "C(real Sweeper, second pass of the same Sweeper after a DBI was dropped and another created)", "dropped": victim, "created": newName, "native": native, "cutoff": guess, "error": fmt.Sprint(serr2), "before": s0.coq(), "after": s1.coq()}}, out)
				}
			}
		}
		done()
		if err != nil {
			return err
		}
		cutLo := swCutoff(t0, R)
		cutHi := swCutoff(t1, R)
		if fixedClock {
			cutLo, cutHi = guess, guess
		} else if cutHi-cutLo > margin/2 || cutLo-guess > margin/2 {
			hist(out.Hist, "real/skipped-slow")
			continue // the machine stalled: the classification margin is not guaranteed
		}
		cls := errClass(serr)
		nslots := len(e)
		for _, d := range e {
			nslots += len(d.Recs)/1000 + 1
		}
		sc := make([]swSlot, nslots)
		for j := range sc {
			sc[j].Lim = lim
		}
		cs := fmt.Sprintf("SPass 2 %d %s %s\n    %s\n    (EObs %d %s)", cutLo, cBool(native), swSched(sc), e.coq(), cls, after.coq())
		hk := fmt.Sprintf("real/native=%v/days=%v/lock=%d/fixedclock=%v/cls=%d", native, days, conf.LockDuration, fixedClock, cls)
		if big {
			hk += "/big"
		}
		add(cs, fmt.Sprintf("C|%v|%v|%d|%s", native, days, lim, e.coq()), hk, true)
		desc := map[string]any{"stream": "C(real Sweeper, quiescent)", "retention_days": days, "lock_duration_ns": conf.LockDuration, "native": native, "cutoff_lo": cutLo, "cutoff_hi": cutHi, "error": fmt.Sprint(serr)}
		if !big {
			desc["env"] = e.coq()
			desc["after"] = after.coq()
		}
		swOracle(swOracleIn{S0: e, S1: after, Native: native, CutLo: cutLo, CutHi: cutHi, EndedOK: serr == nil, Describe: desc}, out)
	}
	return nil
}

// ---------- stream D: the real Sweeper with a concurrent application (oracle only) ----------

func swStreamD(r *Rng, runs int, out *AreaOut) error {
	var mu sync.Mutex
	var wg sync.WaitGroup
	var firstErr error
	for i := 0; i < runs; i++ {
		rr := NewRng(r.U64())
		wg.Add(1)
		go func(rr *Rng, idx int) {
			defer wg.Done()
			local := &AreaOut{Hist: map[string]int{}}
			err := swConcurrentRun(rr, idx, local)
			mu.Lock()
			defer mu.Unlock()
			if err != nil && firstErr == nil {
				firstErr = err
			}
			out.Oracle = append(out.Oracle, local.Oracle...)
			out.OracleN += local.OracleN
			for k, v := range local.Hist {
				out.Hist[k] += v
			}
		}(rr, i)
	}
	wg.Wait()
	return firstErr
}

func swConcurrentRun(r *Rng, idx int, out *AreaOut) error {
	native := r.Chance(50)
	conf := config.Sweeper{Enabled: true, RetentionDays: 1, LockDuration: 1, ReleaseDuration: 25 * time.Millisecond}
	R := conf.RetentionDuration()
	margin := uint64(60 * time.Second)
	guess := swCutoff(time.Now(), R)
	nd := 2 + r.Intn(4)
	var e swEnv
	for j := 0; j < nd; j++ {
		name := fmt.Sprintf("_sync_shadow_%d", j)
		if j%2 == 1 {
			name = fmt.Sprintf("app%d", j)
		}
		sz := pick(r, []int{0, 1, 999, 1000, 1001, 2500, 3500, 5000})
		if j == 0 {
			sz = 2000 + r.Intn(3000)
		}
		if !native && !strings.HasPrefix(name, "_sync") {
			d := swDBI{Name: name}
			for k := 0; k < sz%1200; k++ {
				d.Recs = append(d.Recs, swRec{[]byte(fmt.Sprintf("k%06d", k)), []byte("plain application data")})
			}
			e = append(e, d)
			continue
		}
		e = append(e, swBigDBI(r, name, sz, guess, guess, margin))
	}
	sort.Slice(e, func(a, b int) bool { return e[a].Name < e[b].Name })
	env, done, err := swNewEnv()
	if err != nil {
		return err
	}
	defer done()
	if err := swLoad(env, e); err != nil {
		return err
	}
	expiredV := swVal(guess-margin-1, 1, nil)
	// the application: in every gap it looks for the first initial expired marker still present
	// (the sweeper's scan front), and writes around it: the record before it is the resume key
	var ops []swOp
	stop := make(chan struct{})
	appDone := make(chan error, 1)
	go func() {
		touched := map[string]bool{}
		front := map[string]int{}
		for {
			select {
			case <-stop:
				appDone <- nil
				return
			default:
			}
			var batch []swOp
			err := env.Update(func(txn *lmdb.Txn) error {
				batch = batch[:0]
				for _, d := range e {
					if len(d.Recs) == 0 {
						continue
					}
					dbi, err := txn.OpenDBI(d.Name, 0)
					if err != nil {
						return err
					}
					sel := swSelected(native, d.Name)
					i := front[d.Name]
					if sel {
						for ; i < len(d.Recs); i++ {
							m, below := swIsMarkerBelow(d.Recs[i].V, guess-margin/2)
							if !(m && below) || touched[d.Name+"\x00"+string(d.Recs[i].K)] {
								continue
							}
							if _, err := txn.Get(dbi, d.Recs[i].K); err == nil {
								break
							}
						}
						front[d.Name] = i
					} else {
						i = r.Intn(len(d.Recs))
					}
					for c := 0; c < 1+r.Intn(2); c++ {
						// mostly the record just before the scan front: the sweeper's resume key
						j := i - 1
						switch x := r.Intn(100); {
						case x < 60:
						case x < 70:
							j = i - 2
						case x < 80:
							j = i + 1
						case x < 85:
							j = i
						default:
							j = r.Intn(len(d.Recs))
						}
						if j < 0 || j >= len(d.Recs) {
							continue
						}
						k := d.Recs[j].K
						if r.Chance(15) {
							k = append(append([]byte{}, k...), 'x') // a new key right after
						}
						var o swOp
						switch r.Intn(5) {
						case 0:
							o = swOp{D: d.Name, K: k, Del: true}
						case 1:
							o = swOp{D: d.Name, K: k, V: expiredV} // (re-)create a byte-identical expired marker
						case 2:
							o = swOp{D: d.Name, K: k, V: swVal(guess+margin+uint64(r.Intn(100)), 1, nil)}
						default:
							o = swOp{D: d.Name, K: k, V: swVal(guess+margin+uint64(r.Intn(100)), 0, []byte("new"))}
						}
						if !sel && !o.Del {
							o.V = []byte("plain rewritten")
						}
						if o.Del {
							if err := txn.Del(dbi, o.K, nil); err != nil && !lmdb.IsNotFound(err) {
								return err
							}
						} else if err := txn.Put(dbi, o.K, o.V, 0); err != nil {
							return err
						}
						batch = append(batch, o)
					}
				}
				return nil
			})
			if err != nil {
				appDone <- err
				return
			}
			for _, o := range batch {
				touched[o.D+"\x00"+string(o.K)] = true
			}
			ops = append(ops, batch...)
			time.Sleep(12 * time.Millisecond)
		}
	}()
	sw := sweeper.New(fmt.Sprintf("verif-conc-%d", idx), conf, env, swLogger, native)
	ctx, cancel := context.WithTimeout(context.Background(), 60*time.Second)
	t0 := time.Now()
	serr := sw.VerifSweepOnce(ctx)
	t1 := time.Now()
	cancel()
	close(stop)
	if err := <-appDone; err != nil {
		return err
	}
	after, err := swDump(env, swNames(e))
	if err != nil {
		return err
	}
	cutLo := swCutoff(t0, R)
	cutHi := swCutoff(t1, R)
	if cutHi-guess > margin/2 {
		hist(out.Hist, "concurrent/skipped-slow")
		return nil
	}
	total := 0
	for _, d := range e {
		total += len(d.Recs)
	}
	hist(out.Hist, fmt.Sprintf("concurrent/native=%v/err=%v", native, serr != nil))
	out.Hist["concurrent/records"] += total
	out.Hist["concurrent/app-writes"] += len(ops)
	swOracle(swOracleIn{S0: e, S1: after, Ops: ops, Native: native, CutLo: cutLo, CutHi: cutHi, EndedOK: serr == nil,
		Describe: map[string]any{"stream": "D(real Sweeper, concurrent application)", "native": native, "dbis": swNames(e), "records": total,
			"app_writes": len(ops), "cutoff_lo": cutLo, "cutoff_hi": cutHi, "error": fmt.Sprint(serr), "rng_note": "re-run the area with the same seed"}}, out)
	return nil
}

// the recorded observation: stale limitReached -> the pass never returns (not a property failure)
func swObserveLivelock(out *AreaOut) {
	env, done, err := swNewEnv()
	if err != nil {
		return
	}
	defer done()
	d := swDBI{Name: "d"}
	for i := 0; i < 1500; i++ {
		v := swVal(1, 0, nil)
		if i == 1200 {
			v = []byte("short")
		}
		d.Recs = append(d.Recs, swRec{[]byte(fmt.Sprintf("k%06d", i)), v})
	}
	if swLoad(env, swEnv{d}) != nil {
		return
	}
	sw := sweeper.New("verif-obs", config.Sweeper{Enabled: true, RetentionDays: 1, LockDuration: 1, ReleaseDuration: time.Millisecond}, env, swLogger, true)
	ctx, cancel := context.WithTimeout(context.Background(), 150*time.Millisecond)
	defer cancel()
	err = sw.VerifSweepOnce(ctx)
	if err != nil && ctx.Err() != nil {
		hist(out.Hist, "observation/stale-limitReached-retries-until-cancelled")
	} else {
		hist(out.Hist, "observation/stale-limitReached-NOT-reproduced")
	}
}

func areaSweeper(r *Rng, n int, dir string) (*AreaOut, error) {
	out := &AreaOut{Hist: map[string]int{}, Rule: "sweeper, four streams. MODEL COMPARISON on small contents: (A) one write transaction with the real limitscanner.LimitScanner (LimitRecords 0..5, arbitrary Last cursor: unchanged / value changed / key gone / successor with byte-identical value / beyond the end) and a copy of the sweeper's loop body on DBIs of 0-8 records (live, markers with timestamp cutoff-1/cutoff/cutoff+1/0/1/2^64-1, unparsable values); (B) a copy of the sweep loop over 1-4 DBIs with application puts/deletes between slices aimed at the resume key (delete it, rewrite it, re-create it byte-identically, put next to it), native and non-native mode, header-less application DBIs; (C) the REAL Sweeper via VerifSweepOnce, quiescent application, LockDuration 0 or 1ns, retention 1 day (marker timestamps >= 20 s away from the cutoff computed inside sweep from time.Now()) or 21000 days (cutoff clamps to exactly 0: markers with timestamp 0 and 1 are the exact-boundary cases on the real comparison), plus DBIs of 1000-2400 records swept in 1000-record slices. ORACLE ONLY on large contents: (D) the real Sweeper on 2-5 DBIs of up to 5,000 records, LockDuration 1ns, ReleaseDuration 25ms, with a concurrent application goroutine writing at the scan front (resume key, its neighbours, byte-identical re-creations); checked: nothing but expired markers removed, no value altered, every expired marker not written by the application gone after a normal end, unselected DBIs untouched. The oracle also runs on (B) and (C). 80% of the (C) runs substitute the sweeper's clock through the verif hook (retention 0.5 / 1 / 1.5 / 2.25 days): the cutoff is then known exactly, markers sit at cutoff-1 / cutoff / cutoff+1 and the real comparison decides them; the substitute clock jumps ten minutes at every further reading; 30% of those runs add a second pass of the same Sweeper after one DBI was dropped and another created. distinct = distinct inputs; non-trivial = non-empty DBI (A), more than one slice (B), all of (C)"}
	if !swCursorLayoutOK() {
		return nil, fmt.Errorf("limitscanner.LimitCursor layout changed: cannot build cursors")
	}
	var cases []string
	seen := map[string]bool{}
	nontriv := map[string]bool{}
	add := func(cs, desc, hk string, nt bool) {
		cases = append(cases, cs)
		if len(desc) > 300 {
			desc = desc[:300]
		}
		out.CaseDescs = append(out.CaseDescs, desc)
		hist(out.Hist, hk)
		if !seen[cs] {
			seen[cs] = true
			if nt {
				nontriv[cs] = true
			}
		}
	}
	nA := n * 55 / 100
	nB := n * 25 / 100
	nC := n - nA - nB
	nBig := 2 + n/300
	nD := 3 + n/200
	if err := swStreamA(r, nA, out, add); err != nil {
		return nil, err
	}
	if err := swStreamB(r, nB, out, add); err != nil {
		return nil, err
	}
	if err := swStreamC(r, nC, nBig, out, add); err != nil {
		return nil, err
	}
	if err := swStreamD(r, nD, out); err != nil {
		return nil, err
	}
	swObserveLivelock(out)
	if err := sweeperWiring(out); err != nil {
		return nil, err
	}
	if err := sweeperIntegerKeys(out); err != nil {
		return nil, err
	}
	if err := sweeperInsertsAhead(out); err != nil {
		return nil, err
	}
	if err := sweeperAfterFailedPass(out); err != nil {
		return nil, err
	}
	if err := sweeperForeignHeaderBytes(out); err != nil {
		return nil, err
	}
	out.Cases = len(cases)
	out.Distinct = len(nontriv)
	for i := 0; i < 3 && i < len(cases); i++ {
		s := cases[i*len(cases)/3]
		if len(s) > 600 {
			s = s[:600] + "..."
		}
		out.Samples = append(out.Samples, s)
	}
	files, err := writeCases(dir, "sweeper", "From LS Require Import Base.Bytes Base.Res Sweeper.Model Corr.Obs Corr.Run_sweeper.", "scase", cases, 60)
	out.Shards = files
	return out, err
}
