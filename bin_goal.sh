#!/bin/sh
# usage: bin_goal.sh File.v LINE  — show goal state before LINE (1-based), run from /verif/coq
f=$1; n=$2
head -n $((n-1)) "$f" > /tmp/_goal.v
echo "Show." >> /tmp/_goal.v
coqtop -R /verif/coq LS -batch -l /tmp/_goal.v 2>&1 | tail -${3:-40}
