#!/usr/bin/env python3
"""bin/seeded_matrix.py [DIR...] — run the registered quick check of each seeded change's property with the
change applied to /repo (git apply; always undone with git checkout), record what the check reported in
seeded/<dir>/meta.json ("detection") and rewrite seeded/MATRIX.md.

Evidence files are saved and restored: evidence committed in /verif comes from the unchanged tree only.
Optional: CONFIRM=/path/to/confirm_mutants.out adds the scratch-worktree confirmation line to meta.json.
"""
import sys, os, re, json, glob, shutil, subprocess, time

V = os.environ.get("VERIF_ROOT", "/verif")
REPO = os.environ.get("VERIF_REPO", "/repo")


def sh(cmd, **kw):
    p = subprocess.run(cmd, shell=True, stdout=subprocess.PIPE, stderr=subprocess.STDOUT, text=True, **kw)
    return p.returncode, p.stdout


def main():
    dirs = [os.path.abspath(x) for x in sys.argv[1:]] or sorted(glob.glob(V + "/seeded/C*-*"))
    confirm = {}
    cpath = os.environ.get("CONFIRM")
    if cpath and os.path.exists(cpath):
        for line in open(cpath):
            m = re.match(r"(C\d+)/(\S+)\s+(.*)", line.strip())
            if m:
                confirm["%s-%s" % (m.group(1), m.group(2))] = m.group(3)
    if os.environ.get("CONFIRM_ONLY"):
        for d in dirs:
            name = os.path.basename(d.rstrip("/"))
            mp = d.rstrip("/") + "/meta.json"
            if name in confirm and os.path.exists(mp):
                meta = json.load(open(mp))
                meta["confirmed_in_scratch_worktree"] = {
                    "how": "scratch worktree of /repo HEAD: demonstration passes without the change; git apply patch.diff; "
                           "go build ./...; the repository's test suite (BASELINE command) passes; demonstration fails with the change",
                    "result": confirm[name]}
                json.dump(meta, open(mp, "w"), indent=1)
        write_matrix()
        return 0
    rc, out = sh("git -C %s status --porcelain" % REPO + "")
    if out.strip():
        print("/repo not clean"); return 2
    bak = V + "/work/evidence.bak"
    shutil.rmtree(bak, ignore_errors=True)
    shutil.copytree(V + "/evidence", bak)
    try:
        for d in dirs:
            d = d.rstrip("/")
            name = os.path.basename(d)
            pid = name.split("-")[0]
            extra = os.environ.get("ALSO", "").split()
            meta_p = d + "/meta.json"
            meta = json.load(open(meta_p)) if os.path.exists(meta_p) else {}
            if not meta:
                a = json.load(open(d + "/agent_meta.json"))
                meta = {"property": a.get("property", pid), "change": a.get("summary", ""),
                        "needs_to_manifest": a.get("needs", ""), "files": a.get("files", []),
                        "demonstration": {"file": "demo_test.go.txt", "copy_to": a.get("demo_dir", ""),
                                          "run": a.get("demo_run", "")}}
            if name in confirm:
                meta["confirmed_in_scratch_worktree"] = {
                    "how": "scratch worktree of /repo HEAD: demonstration passes without the change; git apply patch.diff; "
                           "go build ./...; the repository's test suite (BASELINE command) passes; demonstration fails with the change",
                    "result": confirm[name]}
            rc, out = sh("git -C %s apply %s/patch.diff" % (REPO, d))
            if rc != 0:
                meta["detection"] = {"error": "patch does not apply: " + out[-300:]}
                json.dump(meta, open(meta_p, "w"), indent=1)
                print(name, "DOES NOT APPLY"); continue
            det = {}
            try:
                for p in [pid] + extra:
                    t0 = time.time()
                    rc, out = sh("%s/bin/check %s" % (V, p), cwd=V)
                    vl = [l for l in out.splitlines() if l.startswith("VIOLATION")]
                    r = {"cmd": "git -C /repo apply seeded/%s/patch.diff && bin/check %s ; git -C /repo checkout -- ." % (name, p),
                         "exit": rc, "violation_lines": vl, "wall_s": round(time.time() - t0)}
                    if vl:
                        m = re.search(r"replay=(\S+)", vl[0])
                        if m and os.path.exists(m.group(1)):
                            rp = json.load(open(m.group(1)))
                            r["replay_kind"] = rp.get("kind")
                            fl = rp.get("failures") or rp.get("unchecked") or []
                            r["first_reports"] = [(f.get("what") or "")[:300] for f in fl[:3]]
                            keep = "%s/replay_%s.json" % (d, p)
                            shutil.copy(m.group(1), keep)
                    det[p] = r
                    print(name, p, "exit", rc, (vl[0] if vl else "NOT DETECTED"), flush=True)
            finally:
                sh("git -C %s checkout -- . ; git -C %s clean -fdq" % (REPO, REPO))
            meta["detection"] = det
            json.dump(meta, open(meta_p, "w"), indent=1)
    finally:
        sh("git -C %s checkout -- . ; git -C %s clean -fdq" % (REPO, REPO))
        shutil.rmtree(V + "/evidence", ignore_errors=True)
        shutil.move(bak, V + "/evidence")
    write_matrix()
    return 0


def write_matrix():
    rows = []
    for d in sorted(glob.glob(V + "/seeded/C*-*")):
        mp = d + "/meta.json"
        if not os.path.exists(mp):
            continue
        m = json.load(open(mp))
        name = os.path.basename(d)
        for p, r in (m.get("detection") or {}).items():
            if not isinstance(r, dict):
                continue
            how = "MISSED"
            if r.get("violation_lines"):
                how = "failing input" if r.get("replay_kind") == "input" else "no-failing-input-found"
            first = (r.get("first_reports") or [""])[0].replace("|", "/").replace("\n", " ")[:140]
            rows.append("| %s | %s | %s | %s | %s |" % (name, p, how, first, (m.get("change") or "").replace("|", "/").replace("\n", " ")[:150]))
    with open(V + "/seeded/MATRIX.md", "w") as f:
        f.write("# Seeded changes and what the registered checks report on them\n\n"
                "Written by bin/seeded_matrix.py (each row: the change applied to /repo, `bin/check <property>` run, change undone).\n\n"
                "| change | check | result | first report | what was changed |\n|---|---|---|---|---|\n")
        f.write("\n".join(rows) + "\n")


if __name__ == "__main__":
    sys.exit(main())
