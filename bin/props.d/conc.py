# Areas "conc" and "conc-race" (property C17) — utils/topics, utils/climit, snapshot/storage, cancellation of
# syncer.Sync, against the protocol models coq/Conc/*.v (runner: Corr/Run_conc.v).
#
# "conc-race" is SUPPORTING evidence only (data races cannot be exhibited by a Gallina model): it must be run
# from a harness binary built with the race detector,
#     cd /verif/harness && GOFLAGS=-mod=mod GOPROXY=off go build -race -tags verif -o lsverif_race .
#     /verif/harness/lsverif_race conc-race -seed S -n N -out DIR
# (key "binary": "race" below).  Run from the ordinary binary it still performs the stress and the
# goroutine-leak check, but reports race_detector=off in its histogram and can find no race.
# A race report, a goroutine left in repository code after quiescence, or a stress that does not terminate
# is an OracleFailure for C17 (clauses data-race / goroutine-left-after-quiescence / stress-failure).

_TOPIC = [1, 2, 3, 4, 5, 6, 7, 10, 11, 12, 13, 14, 15, 16, 17, 18, 19, 20, 21, 22, 23, 25, 26, 28, 30, 31, 32]
_CLIMIT = [101, 102, 103, 104, 105, 106, 107]
_STORAGE = [201, 202, 203, 204, 205, 210, 211, 212, 213, 214, 215, 216, 217, 218, 220]
# the branches of Conc/Cancel.v that the six cancellation scenarios (x native/shadow) go through; the other
# branches of that machine (LoadOnce paths, give-up after retry_count, hook failures, only_once) are covered
# by the theorem C17_cancel_returns for every pc but have no harness scenario
_CANCEL = [301, 302, 303, 307, 308, 309, 318, 322, 323, 324, 327, 330, 332, 333]

AREAS_ADD = {
    "conc": {"branches": _TOPIC + _CLIMIT + _STORAGE + _CANCEL, "shard": 150,
             "explain": "cexplain", "default_case": "(CCancel 3 false 3)"},
    "conc-race": {"branches": [], "shard": 150, "binary": "race",
                  "build": "go build -race -tags verif -o lsverif_race .",
                  "explain": "cexplain", "default_case": "(CCancel 3 false 3)"},
}

PROPS_ADD = {
    "C17": {
        "seed": 17, "areas": [("conc", 300), ("conc-race", 100), ("receiver", 120), ("cleaner", 60)], "thorough_mult": 8,
        "assumptions": [
            "PARTIAL: absence of data races is NOT proved (no executable Gallina model exhibits the Go memory model); the models take one atomic step per access to shared state, and that those accesses are synchronised as listed in the lock table of Props/C17.v is an assumption supported only by the race-detector stress (area conc-race)",
            "Go runtime: sync.Mutex / sync.RWMutex give mutual exclusion, an unbuffered send completes only together with a receive, select takes any ready case, close of a closed channel and send on a closed channel panic, map iteration under the lock visits each entry once in arbitrary order",
            "topics: C17_topic_deadlock_only_leak — the only global deadlock is a publisher waiting for a Subscription abandoned without Close() (documented contract: 'Subscription MUST always be closed'); Publish blocking until live subscribers receive is the documented behaviour, not a wedge; mutex fairness (a Close waiting for Topic.mu gets it eventually) is the Go runtime's starvation mode, not proved",
            "cancellation (C17_cancel_returns) assumes every blocking library call returns: A1 st.List/Load/Store with ctx; A2 env.Update/env.View obtain their transaction (env.Update takes no context: it blocks while the application holds the LMDB write lock); A3 Topic.Publish returns (no context: blocks until subscribers receive or close); A4 the receiver makes no further snapshot ready after cancellation than those counted in the bound; A5 a SleepContext started after cancellation returns Canceled (positive duration), one already sleeping may lose the select race once; A6 hooks return",
            "storage: GetGlobal handles are non-nil (SetGlobal panics on nil before taking the lock); Go's writer preference in RWMutex is not modelled (it only removes schedules; no reader blocks while holding RLock)",
        ],
        "trusted_base": [
            "modelled: utils/topics/topic.go Publish, Subscribe, unsubscribeID, Handle (as Subscribe; loop Next+callback; Close), subscription.go Channel, Next, Close; Topic.Last is not modelled (lock, read, unlock)",
            "modelled: utils/climit/climit.go New (pool), Acquire, Token.Release; Prometheus gauges not modelled",
            "modelled: snapshot/storage/storage.go SetGlobal, GetGlobal, wait (without its warning ticker); IsReady not modelled",
            "modelled: control-flow skeleton of syncer/sync.go syncLoop / LoadOnce and syncer/send.go SendOnce between blocking points, utils.SleepContext, utils.IsCanceled; per-DBI loops that test IsCanceled are one step each",
            "harness quiescence detection: one stop-the-world runtime.Stack dump; a goroutine counts as parked iff its wait reason is a channel operation, select, sync.Mutex.Lock, sync.RWMutex.(R)Lock, sync.Cond.Wait or sync.WaitGroup.Wait",
            "snapshot/storage has process-global state: each GetGlobal/SetGlobal script runs in a fresh child process (lsverif conc-storage-child)",
            "race detector (Go toolchain) for area conc-race; the stress is probabilistic",
        ],
    },
}
