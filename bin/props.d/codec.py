# Areas "codec" (C07) and "hostile" (C08, decoding half) — snapshot/*.go against Codec/Custom.v, and the
# generated reference codec snapshot/gogosnapshot against Codec/Wire.v.
_CODEC_BRANCHES = (
    [1010, 1022, 1032, 1040, 1900, 1901, 1902, 1905,
     2012, 2022, 2032, 2040, 2051, 2072, 2080, 2900, 2901, 2902, 2905,
     3012, 3022, 3030, 3042, 3900, 3901, 3902, 3905,
     4012, 4022, 4031, 4040, 4900, 4901, 4902, 4905]
    + list(range(5000, 5030))
    + [5101, 5102, 5103, 5104, 5105, 5110, 6000, 6010, 6011, 6020, 6021, 6030, 6041, 6050])

AREAS_ADD = {
    "codec": {"branches": _CODEC_BRANCHES, "shard": 150,
              "explain": "cexplain", "default_case": "(CCus [] DErr)"},
    "hostile": {"branches": [101, 102, 103, 110, 111, 112, 120, 121, 122,
                             201, 202, 203, 204, 205, 206, 207, 208, 209], "shard": 150,
                "explain": "hexplain", "default_case": "(HCase [] 0 DErr)"},
}

PROPS_ADD = {
    "C07": {"seed": 7, "areas": [("codec", 150)], "thorough_mult": 10,
            "assumptions": [
                "round trip (C07_roundtrip, C07_valid_wire) is claimed for `valid` snapshots (Codec/Custom.v): keys non-empty, DBI names 1..511 bytes, transform names <= 472 bytes (doFlushFields' 1000-byte scratch buffer), LmdbTxnID/FromLmdbTxnID >= 0 (negative ids are not written), values inside their Go types, every DBI message <= 100 GB (snapshot.MaxFieldLength) and Meta strings <= 2 GB (csproto default), blob shorter than 2^63 bytes",
                "forward compatibility (C07_forward_compat) is claimed for every message of the wire grammar whose nested Meta/DBI/KV payloads are grammatical, EXCEPT: field numbers >= 2^26 at Snapshot/Meta level (csproto compares the whole key with MaxTagValue=2^29-1; the reference accepts up to 2^29-1), formatVersion/compatVersion varints >= 2^32 (csproto reports overflow, the reference truncates), top-level length-delimited fields > 100 GB, Meta-level ones > 2^31-1 bytes, `entries` whose KV message is empty (KV.Unmarshal rejects `12 00`); group wire types 3/4 are outside the grammar; a known field with a wrong wire type is an error on both sides (as in the generated gogo code)",
                "strings are byte strings: neither decoder validates UTF-8"],
            "trusted_base": [
                "modelled: snapshot/dbi.go (NewDBI, Set*, flushFields, doFlushFields, Marshal, Append, Next, indexData, NewDBIFromData, Map), kv.go, meta.go, snapshot.go, utils.go and csproto EncodeVarint/EncodeTag/SizeOfVarint/DecodeVarint/Decoder.{DecodeTag,DecodeBytes,DecodeString,DecodeUInt32,DecodeInt64,DecodeFixed64,Skip,More}; slice capacity growth in Append is not modelled (it does not influence the bytes; checked on the real code only with a 10.9 MB DBI)",
                "the specification Codec/Wire.v (wire grammar + schema interpretation) is hand-written from snapshot.proto; it is compared with the generated reference codec snapshot/gogosnapshot on every generated message of the correspondence run",
                "gogo/protobuf generated code as the reference 'standard protobuf implementation' (Go side only)"]},
    "C08": {"seed": 8, "areas": [("hostile", 1500)], "thorough_mult": 10,
            "assumptions": [
                "decoding half only in Codec/Hostile.v: for every byte string shorter than 2^63 bytes, Unmarshal + full iteration of every DBI returns a snapshot or an error, in at most 4*len+1 loop rounds, creating at most len/2 DBI objects that alias the input",
                "gzip decompression (io.Copy of an arbitrary ratio) is outside the model: the memory claim covers the protobuf layer only"],
            "trusted_base": [
                "modelled: every slice expression, uint64->int conversion and loop of snapshot/{snapshot,meta,dbi,kv,utils}.go decoding paths and the csproto Decoder functions they call; klauspost gzip and snapshot.LoadData's buffer handling are exercised on the real code only (one case in four goes through LoadData)"]},
}
