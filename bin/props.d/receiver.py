# fragment for area `receiver` (syncer/receiver + utils/climit + Update.Close + InstanceSet)
# properties: C16 (all of it except the syncloop part run elsewhere) and the receiver half of C08.

AREAS_ADD = {
    "receiver": {
        # branch ids of Corr/Run_receiver.v lbranch (rbranches_all):
        # 1/2 listing (later / first), 3 listing fails, 4-7 per name in the listing (ignored / unparsable /
        # other kind / snapshot), 10-13 notification loop (no change / own skipped / existing / new downloader),
        # 14 own instance notified by a poll because the own snapshot last notified about has been ignored,
        # 20 wake, 21-23 check (no entry / already processed / download), 24 download token, 25 load ok,
        # 26 load of a vanished blob, 27 transient load failure, 28 decompress token, 29 decode ok,
        # 30 decode ok over a not yet taken snapshot, 31 decode failure, 32 retry after sleep, 33 Next,
        # 34 Next with nothing ready, 35 Close, 36 publish, 37 delete, 38/39 loop bottom (done / waiting),
        # 40/41 climit.New with limit < 1 / >= 1
        "branches": [1, 2, 3, 4, 5, 6, 7, 10, 11, 12, 13, 14, 20, 21, 22, 23, 24, 25, 26, 27, 28, 29, 30, 31, 32,
                     33, 34, 35, 36, 37, 38, 39, 40, 41],
        "shard": 150,
        # (index of the first action after which no model state matches, what the model could have observed)
        "explain": "(fun r => explain r)",
        "default_case": "(RCase (mkCfg 0 1%Z 1%Z false) [])",
    },
}

_RECV_TRUST = [
    "modelled: syncer/receiver/receiver.go RunOnce/getDownloader/Next/SeenInstances/HasSnapshots/MarkCorrupt, "
    "downloader.go NotifyNewSnapshot/Run/LoadOnce, utils/climit New/Acquire/Token.Release, snapshot/update.go Close, "
    "syncer/instanceset.go and the waitingForInstances logic of syncLoop (sync.go:121-129, 213-218, 255-268, 329-339); "
    "not modelled: metrics, health trackers, events, hooks.OtherUpdateSource, context cancellation",
    "granularity of the model: one transition per critical section of Receiver.mu / blocking call; merged actions are "
    "argued to commute in the header of Receiver/Model.v (corruptSnapshots is read only by the first critical section "
    "of RunOnce; d.last and lastNotifiedByInstance are goroutine-local; token releases only enable)",
    "Go runtime: goroutine scheduling and fairness, channel and mutex semantics, map iteration order (modelled as any "
    "order); simpleblob backend: List returns names sorted, a name once deleted does not come back with the same "
    "name (names carry a nanosecond timestamp), blobs are immutable",
    "correspondence harness: quiescence is read off runtime.Stack (every goroutine in receiver/climit code blocked in "
    "select / chan receive and not in SleepContext); token counts are the lightningstream_climit_active/_waiting gauges; "
    "the waiting set is a real syncer.InstanceSet driven by the three-line glue of sync.go re-typed in the harness; "
    "token races are resolved on the model side by keeping every state the model allows (Corr/Run_receiver.v settle)",
]

PROPS_ADD = {
    "C16": {
        "seed": 16,
        "areas": [("receiver", 240), ("crash", 30)],
        "thorough_mult": 8,
        "assumptions": [
            "PARTIAL: 'eventually' is proved as (explicit measure: finitely many useful steps) + (no useful step "
            "enabled => delivered); that enabled steps are eventually taken — weak fairness of every downloader "
            "goroutine and of Receiver.Run's polling loop, and the environment assumption that the syncer keeps "
            "calling Next and Close (with a limit of 1 an un-taken snapshot holds the only decompress token) — is "
            "the Go runtime's / syncLoop's and is assumed",
            "progress is claimed from the first successful listing after the bucket stopped changing, with no "
            "further List failures and no Load failures of blobs that exist (loads of vanished blobs are covered)",
            "delivery is claimed for every instance other than the own one; for the own instance only as long as "
            "no poll (includingOwn=false) has skipped a not yet notified own name",
            "run-once: C16_once_exits is proved for histories in which, while the own instance is still waited "
            "for, nobody stores a blob under the own instance's name and nobody deletes the own snapshot the receiver "
            "is after (Receiver/Own.v calm); without that assumption C16_once_exits_unconditional_refuted (newest own "
            "snapshot cleaned during start-up and the next-newest undecodable). The harness oracle once-exits is "
            "evaluated on histories satisfying the assumption only",
            "limits: any configured integers (values < 1 count as 1); any number of instances",
        ],
        "trusted_base": _RECV_TRUST,
    },
    "C08": {
        "seed": 8,
        "areas": [("receiver", 150), ("crash", 6)],
        "assumptions": [
            "receiver half (C08_corrupt_isolated): 'undecodable' is a property of the blob (n_ok), fixed when it is "
            "stored; the harness uses not-gzip, empty and truncated-gzip blobs — blobs that make the decoder "
            "panic or hang are the codec half of C08 and would take the harness process down with them",
        ],
        "trusted_base": _RECV_TRUST,
    },
}
