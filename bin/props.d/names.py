# Area "names" and property C15 (snapshot names round-trip and sort chronologically).
AREAS_ADD = {
    "names": {
        # Corr/Run_names.v nbranches_all: ParseName paths 1-5 and 13-29 (10 + time.Parse path),
        # NameTimestamp 40/41, FromNano 42/43, BuildName 44-47, sanitiser rune classes 50-56, name pairs 60-62
        "branches": [1, 2, 3, 4, 5, 13, 14, 15, 16, 17, 18, 19, 20, 21, 22, 23, 24, 25, 26, 27, 28, 29,
                     40, 41, 42, 43, 44, 45, 46, 47, 50, 51, 52, 53, 54, 55, 56, 60, 61, 62],
        "shard": 150,
        "explain": "model_out",
        "default_case": "(NSan [] [])",
    },
}

PROPS_ADD = {
    "C15": {
        "seed": 15, "areas": [("names", 1500), ("cleaner", 150), ("receiver", 120), ("instance", 120)], "thorough_mult": 8,
        "assumptions": [
            "database, instance, generation names over [A-Za-z0-9-], extra items = capital letter + that alphabet (C15_roundtrip); the exact condition proved is weaker: no '.', no '__' inside a component, only the last component may end in '_' (C15_roundtrip_exact); each excluded case has a _refuted witness",
            "instants 0 <= t < 2^63 ns (1970-01-01 .. 2262-04-11T23:47:16.854775807Z), i.e. every non-negative int64 UnixNano; NameTimestampFromNano of a uint64 >= 2^63 wraps to 1677.. and is outside the claim (C15_from_nano_wrap_refuted)",
            "C15_newest_is_last: the storage backend returns the listing sorted byte-wise, and every parsable name in it was written by BuildName from an in-range instant (time.Parse also accepts a sign in the fraction, '+dddddddd' / '-00000000'; such hand-made names are accepted and sort out of order: C15_signed_fraction_order_refuted)",
            "C15_other_db / C15_prefix_decides_db: database names without '_' and '.'; receiver and cleaner never compare the parsed database name, and for a database name containing '__' a foreign snapshot is accepted (C15_other_db_unsafe_refuted); config.Check does not validate database names",
            "the sanitiser claim holds for every byte string (valid UTF-8 or not); it is not injective (C15_sanitize_collision)",
        ],
        "trusted_base": [
            "modelled: snapshot/name.go NameTimestamp, NameTimestampFromNano, Name, BuildName, ParseName, registeredExtensions; syncer/utils.go instanceID (regexp [^a-zA-Z0-9-] as a per-rune map over Go's UTF-8 decoding, bytes level); prefix = name + \"__\" and the last-wins scan of receiver.RunOnce",
            "time.Time.Format / time.Parse for the layout 20060102-150405.000000000 are trusted library code, modelled by Names/Civil.v (days-from-civil arithmetic, element-wise parse incl. the signed fraction) and compared with package time by the correspondence run over 1677..2262 (Format) and years 0000..9999 (Parse), in UTC and non-UTC locations",
            "regexp engine and utf8.DecodeRuneInString (modelled by utf8_width_br); os.Hostname fallback for an empty configured instance name is not exercised",
            "simpleblob List(prefix) returns exactly the names with that prefix, sorted",
        ],
    },
}
