# areas `sweeper`, `retention`; property C13 (both areas) and the retention part of C04.
AREAS_ADD = {
    "sweeper": {
        # Corr/Run_sweeper.v sbranches_all
        "branches": [1, 2, 3, 4, 5, 11, 12, 13, 14, 15, 16, 21, 22, 23, 31, 32, 33, 41, 42, 43, 44, 51, 52],
        "shard": 60,
        "explain": "(fun c => match c with SSlice cu la li db _ => inl (model_slice cu la li db) | SPass _ cu na sc e _ => inr (model_pass cu na sc e) end)",
        "default_case": "(SSlice 0 None 0 [] (SErr 0))",
    },
    "retention": {
        # Corr/Run_retention.v rbranches_all
        "branches": [1, 2, 3, 11, 12, 21, 22, 31, 32, 41, 42, 43],
        "shard": 150,
        "explain": "rmodel",
        "default_case": "(RCase 0 0 0 false 0 0 0)",
    },
}

_RET_ASSUME = [
    "retention theorems: 0 <= RetentionDuration() < 2^63 ns and clock values 0 <= now < 2^63 ns (1970..2262); "
    "RetentionDuration() itself (a float32 product converted to int64) is an input computed by Go. retention_days < 0 or "
    ">= 106752 (R negative / overflowed; the configuration is not validated by /repo) is outside the claim: the model still "
    "corresponds there, the theorems do not apply",
]
_RET_TRUST = [
    "modelled: config.Sweeper.RetentionDurationMinusCutoff, syncer.deletedCutoff, the cutoff expression of sweeper.sweep, "
    "header.TimestampFromTime with every int64/uint64 conversion explicit; time.Time.Add/UnixNano assumed exact modulo 2^64",
]

PROPS_ADD = {
    "C13": {
        "seed": 13, "areas": [("sweeper", 400), ("retention", 60)], "thorough_mult": 8,
        "assumptions": [
            "DBIs are not MDB_DUPSORT (the syncer refuses DUPSORT DBIs in native mode; shadow DBIs never are); keys ordered by "
            "bytes.Compare (the proofs are parametric in the key order: MDB_INTEGERKEY is the same argument)",
            "the application is any sequence of puts/deletes committed between two sweeper transactions; it does not drop DBIs during a pass",
            "C13_complete speaks about passes that end normally and keys the application neither puts nor deletes during the pass "
            "(the property's `stayed unchanged`); C13_terminates assumes parseable values and a quiescent application "
            "(recorded observation C13_obs_stale_limit_livelock: after a slice hit its limit a failing transaction is retried for ever)",
            "slice limits: any record count n >= 1 per slice (LimitRecords, or any multiple of LimitDurationCheckEvery at which the deadline has passed)",
        ] + _RET_ASSUME,
        "trusted_base": [
            "modelled: syncer/sweeper/sweeper.go sweep (incl. the stale limitReached), lmdbenv/limitscanner/scanner.go Scan/Cursor with lmdbscan.Scanner Set/Scan; "
            "metrics, logging and Run's timer loop are not modelled",
            LMDB_TRUST + "; deleting the record under a cursor with txn.Del does not disturb the iteration; MDB_SET_RANGE = first key >= the given key",
            "model comparison runs on small contents (single LimitScanner transactions, a copy of the sweep loop with application writes between slices, "
            "the real Sweeper with a quiescent application incl. DBIs of 1000-2400 records); the real Sweeper under a CONCURRENT application "
            "(up to 5,000 records per DBI, writes at the scan front) is checked by the implementation-side oracle only",
            "the exact comparison timestamp >= cutoff of the real sweeper is observable only at cutoff 0 (time.Now() is read inside sweep); "
            "at other cutoffs markers are placed >= 20 s away from the cutoff and the exact boundary is covered by the model and the copied loop body",
        ] + _RET_TRUST,
    },
    "C04": {
        "seed": 4, "areas": [("retention", 60)], "thorough_mult": 8,
        "assumptions": _RET_ASSUME,
        "trusted_base": _RET_TRUST,
    },
}
