# area `cleaner` (syncer/cleaner/cleaner.go on a fault-injecting fake bucket) and property C12
AREAS_ADD = {
    "cleaner": {
        # scan 1-4, prefix filter 5, first-seen pruning 6-7, first filter 10-14, second filter 15-19,
        # stale list 20-24 and 35, Delete ok/failed 25-26, equal timestamps 27, Sub saturation 28-29,
        # List error 30, disabled 31, SetCommitted new/overwrite 32-33, GetCommitted 34, syncer level 40-43
        "branches": [1, 2, 3, 4, 5, 6, 7, 10, 11, 12, 13, 14, 15, 16, 17, 18, 19, 20, 21, 22, 23, 24, 25, 26,
                     27, 28, 29, 30, 31, 32, 33, 34, 35, 40, 41, 42, 43],
        "shard": 150,
        "explain": "model_out",
        "default_case": "(CSyncer false false false 0 false 0)",
    },
}

PROPS_ADD = {
    "C12": {
        "seed": 12, "areas": [("cleaner", 300), ("syncloop", 60), ("crash", 30)], "thorough_mult": 8,
        "assumptions": [
            "a listing names each blob once (NoDup) and List(prefix) returns exactly the names starting with the prefix (simpleblob backend contract)",
            "C12_newest_protected: per instance the snapshot timestamps are distinct and names appear in timestamp order (in_order_at: an older snapshot of an instance has been tracked at least as long as a newer one); without it the statement is false (C12_out_of_order_refuted, replayed on the real cleaner)",
            "MustKeepInterval and RemoveOldInstancesInterval are int64 durations; C12_bounded needs MustKeepInterval < MaxInt64 (with MaxInt64 nothing is ever past the keep interval)",
            "one clock: the model gives RunOnce a single time value; in production time.Now() carries a monotonic reading, so first-seen ages are monotonic-clock differences and snapshot ages wall-clock differences",
            "C12_bounded and first_seen describe an enabled cleaner (Enabled=false is C12_disabled)",
        ],
        "trusted_base": [
            "modelled: syncer/cleaner/cleaner.go New (prefix), SetCommitted, GetCommitted, Run (disabled), RunOnce; syncer/syncer.go New (receive-only => zero Cleanup config); syncer/send.go SendOnce tail (receive-only return, Store, SetCommitted only after a successful Store)",
            "snapshot.ParseName is an argument of the model (any function name -> option (instance, timestamp, kind==snapshot)); the correspondence passes the real ParseName results as a table; name syntax itself is property C15",
            "slices.SortFunc: any permutation sorted newest-first (C12_any_sort: the Delete set does not depend on the algorithm when timestamps are distinct per instance); correspondence cases never contain equal timestamps within one instance, ties between instances are generated on purpose",
            "time.Time as unbounded nanosecond count, time.Time.Sub saturating at int64 (exercised with >292-year gaps), zero time.Time for missing GetCommitted entries; Prometheus metrics and logging not modelled",
            "names are abbreviated in the Coq case files (first len(db)+3 bytes + 0xff + index: injective and faithful for the prefix test with db+\"__\"); the List prefix argument itself is compared in full",
        ],
    },
}
