# Property -> areas / case counts; area -> coverage targets and explain functions.
LMDB_TRUST = "LMDB (lmdb-go/cgo): write transactions atomic and isolated, cursor semantics, key order"

AREAS = {
    "header": {"branches": [1, 2, 3, 4, 5, 11, 12, 13, 14, 15, 20], "shard": 150,
               "explain": "(fun c => match c with HParse v _ => model_parse v | HSkip v _ => model_parse v | HPut t x f _ => HOk t x f 0 (put_basic t x f) [] end)",
               "default_case": "(HPut 0 0 0 [])"},
    "merge": {"branches": [1, 2, 3, 4, 5, 6, 7, 8, 9, 10, 11, 20, 21, 22, 23, 30], "shard": 150,
              "explain": "(fun m => match m with MMerge c k old e _ => model_merge c k old e | MClean c k old _ => model_clean c k old | MPlain old e _ _ => obs_of_res (plain_merge e) end)",
              "default_case": "(MPlain [] (mkKV [] [] 0 0) OPanic OPanic)"},
    "strategy": {"branches": [1, 2, 4, 6, 7, 11, 12, 13, 14, 16, 17, 18, 19, 22, 27], "shard": 150,
                 "explain": "sexplain", "default_case": "(mkS SUpdate 0 [] [] DKeep SPanic)"},
    "shadow": {"branches": [1, 2, 11, 21, 22, 31, 41, 42, 51], "shard": 100,
               "explain": "sh_model", "default_case": "(ShProjectDup [] [] SPanic)"},
    "dupsort": {"branches": [1, 2, 3, 4, 10, 11, 12, 13, 20, 21], "shard": 150,
                "explain": "(fun c => match c with DEnc e _ => kobs_of (enc_one e) | DDec e _ => kobs_of (dec_one e) | DEncList l _ => match hack_encode l with Ok (e :: _) => KOk e | _ => KErr 4 end end)",
                "default_case": "(DEncList [] None)"},
    "instance": {"branches": [2, 4, 5, 6, 12, 13, 14, 15, 16, 31, 33, 41, 42], "shard": 60,
                 "explain": "imodel", "default_case": "(ISendCase (mkICfg true true false false false []) (mkEnv [] 0) 0 0 IPanic)"},
    "syncloop": {"branches": [2, 3, 7, 102, 103, 107], "shard": 12,
                 "explain": "lexplain", "default_case": "(mkLC (mkICfg true true false false false []) (mkEnv [] 0) [] 0 [] (mkEnv [] 0) 0 0)"},
    "fleet": {"branches": [3], "shard": 40,
              "explain": "fexplain", "default_case": "(mkFC [] [])"},
    "crash": {"branches": [3], "shard": 40,
              "explain": "cexplain", "default_case": "(mkCC [])"},
}

PROPS = {
    "C14": {"seed": 14, "areas": [("header", 600), ("merge", 450), ("instance", 200), ("sweeper", 100), ("syncloop", 96)], "thorough_mult": 8,
            "assumptions": ["timestamps, transaction ids < 2^64 and flag bytes < 256 (Go types uint64/uint8)",
                            "values are byte strings (every element < 256)"],
            "trusted_base": ["modelled: lmdbenv/header/header.go PutBasic/Parse/Skip/getNumExtra/Flags, syncer/iterators.go Merge/Clean/addHeader; Header.Bytes/doBytes (not used by the sync path) is not modelled"]},
    "C02": {"seed": 2, "areas": [("merge", 900), ("strategy", 300), ("instance", 200)], "thorough_mult": 10,
            "assumptions": ["timestamps and transaction ids < 2^64",
                            "order-independence from an ABSENT key is claimed for cutoff 0 (sweeper disabled); with a cutoff the exact rule is C02_cutoff_fold and C02_cutoff_order_refuted shows the limit (required by C04)"],
            "trusted_base": ["modelled: syncer/iterators.go NewNativeIterator gates, Merge, Clean, addHeader, PlainIterator; snapshot/flags.go MaskedFlags; header.Parse"]},
    "C19": {"seed": 19, "areas": [("strategy", 900)], "thorough_mult": 8,
            "assumptions": ["LMDB cursor semantics (trusted): a cursor iterating a DBI is not disturbed by puts at/below its position nor by deleting its current item; MDB_APPEND at the end",
                            "integer-key DBIs hold keys of one width (2, 4 or 8 bytes), as LMDB requires",
                            "the legacy strategies Put, Append, IterPut, Pick are out of scope (nothing calls them)"],
            "trusted_base": [LMDB_TRUST, "modelled: lmdbenv/strategy update.go, iterupdate.go, utils.go (iterBoth, setNewVal, cmpIntegerLittleEndian, bytesToInt), emptyput.go + doPut"]},
    "C11": {"seed": 11, "areas": [("shadow", 500), ("strategy", 300), ("syncloop", 60), ("instance", 200)], "thorough_mult": 8,
            "assumptions": ["steady state: stored shadow timestamps are below the time of detection (monotone clock, the documented operating assumption)",
                            "one DBI at a time; composition over DBIs and with the merge step is in the Instance model (C01/C03)",
                            "known finding F6: live entries with an EMPTY application value are not projected (C11_empty_value_refuted)"],
            "trusted_base": [LMDB_TRUST, "modelled: syncer/shadow.go mainToShadow/shadowToMain, readDBI (syncer/utils.go), strategy.IterUpdate, NativeIterator/PlainIterator"]},
    "C20": {"seed": 20, "areas": [("dupsort", 600), ("shadow", 300), ("instance", 240)], "thorough_mult": 8,
            "assumptions": ["DUPSORT values are at most 511 bytes (LMDB limit)",
                            "C20_mirror_cycle assumes the clock assumption of C11 (stored shadow timestamps below now) and shadow DBIs as LS writes them (deleted => empty value, C14); pairs with an EMPTY value are dropped (finding F6 of C11)"],
            "trusted_base": [LMDB_TRUST, "modelled: syncer/dupsorthack.go, the DUPSORT paths of syncer/shadow.go, strategy.EmptyPut"]},
    "C18": {"seed": 18, "areas": [("instance", 360)], "thorough_mult": 8,
            "assumptions": ["rollback of an aborted write transaction and isolation from concurrent readers are LMDB's (trusted); a full map (MDB_MAP_FULL) surfaces as an error from a put like any other error",
                            "dbi_options.override_create_flags unset"],
            "trusted_base": [LMDB_TRUST, "modelled: syncer/sync.go LoadOnce transaction body, snapshot/transforms.go ValidateTransform, NewNativeIterator gates, strategy.Update, mainToShadow/shadowToMain over all DBIs"]},
    "C06": {"seed": 6, "areas": [("instance", 360), ("syncloop", 60)], "thorough_mult": 8,
            "assumptions": ["'as of one single LMDB transaction' rests on LMDB snapshot isolation (trusted): the dump is a function of one environment value",
                            "values up to a few hundred bytes in the correspondence; megabyte values are not exercised"],
            "trusted_base": [LMDB_TRUST, "modelled: syncer/send.go SendOnce transaction body, readDBI, ReadDBINames order; names/metadata compared by the oracle, name format is C15"]},
    "C10": {"seed": 10, "areas": [("instance", 300), ("syncloop", 96), ("shadow", 300), ("retention", 60), ("crash", 30)], "thorough_mult": 6,
            "assumptions": ["tomb sweeper disabled (a sweeper transaction is a local writer and triggers a snapshot by design, config.go:254-256)",
                            "fleet-level bound follows from the per-instance statements: after the last application write each instance uploads at most once more per load that found a local change"],
            "trusted_base": [LMDB_TRUST, "Instance/Ids.v abstracts the loop's id bookkeeping; it is evaluated next to the executable machine (Instance/SyncLoop.v), which is compared with the real syncLoop through the verif yield hooks"]},
    "C03": {"seed": 3, "areas": [("syncloop", 120), ("shadow", 300), ("merge", 300), ("instance", 360)], "thorough_mult": 6,
            "assumptions": ["known finding F8: an application commit between an empty own write transaction and the following env.Info() (C03_refuted)",
                            "shadow mode records CHANGES between two captures: writing a value back, or creating and deleting a key between two captures, leaves nothing to record",
                            "empty application values: known finding F6 (reported under C11)"],
            "trusted_base": [LMDB_TRUST, "Instance/Ids.v (abstract id bookkeeping, all interleavings) + Instance/SyncLoop.v (executable loop) compared with the real syncLoop via yield hooks"]},
    "C09": {"seed": 9, "areas": [("syncloop", 144), ("crash", 40), ("receiver", 120), ("shadow", 200)], "thorough_mult": 6,
            "assumptions": ["known finding F8 (C09_refuted)", "Store failures below the retry budget (StorageRetryCount) are retried; exhausting it makes the loop return (the process restarts and uploads at start-up)"],
            "trusted_base": [LMDB_TRUST, "Instance/Ids.v + Instance/SyncLoop.v as for C03"]},
    "C01": {"seed": 1, "areas": [("fleet", 160), ("merge", 300), ("syncloop", 120), ("shadow", 200), ("retention", 60), ("crash", 30)], "thorough_mult": 6,
            "assumptions": ["tomb sweeper disabled (cutoff 0), as the property states",
                            "applications are monotone per key per instance (a write is at least as new as what the instance holds); in shadow mode instances share one monotone clock (documented operating assumption)",
                            "quiescent = every instance uploaded after its last write and merged such a snapshot of every instance; C09 supplies the first half on the real loop",
                            "the refinement from LoadOnce/SendOnce to the Fleet steps is proved per DBI (C01_refine_load / C01_refine_send) and validated end to end on real fleets by the correspondence (native mode) and the convergence oracle (both modes)"],
            "trusted_base": [LMDB_TRUST, "modelled: Fleet (logical stores), the per-DBI refinement of strategy.Update + NativeIterator.Merge, dump entries"]},
    "C04": {"seed": 4, "areas": [("fleet", 120), ("merge", 300), ("retention", 60), ("instance", 300), ("sweeper", 150), ("syncloop", 100)], "thorough_mult": 6,
            "assumptions": ["retention part (C04_retention.v): 0 <= RetentionDuration() < 2^63 ns, clock values in 1970..2262; RetentionDuration() (a float32 product) is an input computed by Go; negative / overflowing retention_days is outside the claim (the configuration is not validated by /repo)"],
            "trusted_base": [LMDB_TRUST, "modelled: NativeIterator.Merge stale-marker rule, Retention arithmetic, Fleet joins, capture/dump theorems of C11/C06"]},
    "C05": {"seed": 5, "areas": [("crash", 60), ("cleaner", 150), ("names", 300), ("instance", 160)], "thorough_mult": 5,
            "assumptions": ["tomb sweeper disabled (the property excepts markers past retention)",
                            "snapshots are decodable (corrupt blobs: C08/C16); sequence numbers = global upload order (names sort chronologically: C15; clocks of different instances are assumed not to run backwards relative to each other by more than the cleaner's intervals, as the cleaner itself assumes)",
                            "the model's guards are those of the code: Upload only when the own instance is not waited for (syncLoop), cleaner rules (C12 theorems + cleaner correspondence area); the real event logs are replayed against an executable transcription of the guards (Corr/Run_crash.v)"],
            "trusted_base": [LMDB_TRUST, "modelled: Fleet/Crash.v (content-level bucket/process model); the executable guard transcription in Corr/Run_crash.v is hand-written next to it"]},
}

# fragments: bin/props.d/*.py may define AREAS_ADD / PROPS_ADD
import glob as _glob, os as _os
for _f in sorted(_glob.glob(_os.path.join(_os.path.dirname(__file__), "props.d", "*.py"))):
    _ns = {"LMDB_TRUST": LMDB_TRUST}
    exec(compile(open(_f).read(), _f, "exec"), _ns)
    AREAS.update(_ns.get("AREAS_ADD", {}))
    for _k, _v in _ns.get("PROPS_ADD", {}).items():
        if _k in PROPS:
            PROPS[_k]["areas"] = PROPS[_k]["areas"] + [a for a in _v.get("areas", []) if a not in PROPS[_k]["areas"]]
            for _kk in ("assumptions", "trusted_base"):
                PROPS[_k][_kk] = PROPS[_k].get(_kk, []) + _v.get(_kk, [])
        else:
            PROPS[_k] = _v
