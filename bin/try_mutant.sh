#!/bin/sh
# usage: try_mutant.sh PATCH ID [ID...] — apply PATCH to /repo, run the quick checks, always undo.
patch=$1; shift
cd /repo || exit 2
git diff --quiet || { echo "/repo not clean"; exit 2; }
git apply "$patch" || { echo "patch does not apply"; exit 2; }
for id in "$@"; do
  (cd /verif && ./bin/check "$id"; echo "   [$id rc=$?]")
done
git -C /repo checkout -- .
git -C /repo status --short
