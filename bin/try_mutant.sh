#!/bin/sh
# usage: try_mutant.sh PATCH ID [ID...] — apply PATCH to /repo, run the quick checks, always undo.
# Evidence files are saved and restored: evidence committed in /verif must come from the unchanged tree.
patch=$1; shift
cd /repo || exit 2
git diff --quiet || { echo "/repo not clean"; exit 2; }
git apply "$patch" || { echo "patch does not apply"; exit 2; }
rm -rf /tmp/evidence.bak; cp -r /verif/evidence /tmp/evidence.bak
for id in "$@"; do
  (cd /verif && ./bin/check "$id"; echo "   [$id rc=$?]")
done
git -C /repo checkout -- .
git -C /repo status --short
rm -rf /verif/evidence; mv /tmp/evidence.bak /verif/evidence
