#!/bin/sh
# Rebuild the correspondence harness against /repo's CURRENT working tree (build tag: verif).
# go.mod is regenerated from /repo/go.mod so dependency versions and replace directives follow it.
set -e
REPO=${VERIF_REPO:-/repo}
cd "${VERIF_ROOT:-/verif}/harness"
export GOFLAGS=-mod=mod GOPROXY=off
unset GOTOOLCHAIN GOSUMDB
{
  echo "module lsverif"
  sed -e '/^module /d' "$REPO/go.mod"
  echo "require github.com/PowerDNS/lightningstream v0.0.0"
  echo "replace github.com/PowerDNS/lightningstream => $REPO"
} > go.mod
cp "$REPO/go.sum" go.sum
go build -tags verif -o lsverif .
# the race-detector build is only needed by the supporting stress of C17 (area conc-race)
if [ "$VERIF_BUILD_RACE" = "1" ]; then
  go build -race -tags verif -o lsverif_race .
fi
