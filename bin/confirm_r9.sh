#!/bin/sh
# usage: confirm_r9.sh ID N — confirm the change left by a sub-agent in the scratch worktree /tmp/wt/r9-ID and
# store it as /verif/seeded/ID-N (patch.diff, demo_test.go.txt, confirm.txt). Prints the confirmation line.
id=$1; n=$2; wt=/tmp/wt/r9-$id; out=/verif/seeded/$id-$n
export GOFLAGS=-mod=mod GOPROXY=off
cd $wt || exit 2
demo=$(git ls-files --others --exclude-standard | grep "zz_demo_${id}_test.go" | head -1)
[ -n "$demo" ] || { echo "no demo file"; exit 2; }
pkg=./$(dirname $demo)/
[ -e $out ] && { echo "$out exists"; exit 2; }
mkdir -p $out
git diff > $out/patch.diff
cp $demo $out/demo_test.go.txt
git apply -R $out/patch.diff
go test -vet=off -count=1 -run "TestDemoR9$id" $pkg >/tmp/wt/c-$id.1 2>&1 && dw=pass || dw=fail
git apply $out/patch.diff
go build ./... >/tmp/wt/c-$id.2 2>&1 && b=ok || b=fail
mv $demo /tmp/wt/demo-$id.go.hold
go test -vet=off -count=1 ./... >/tmp/wt/c-$id.3 2>&1 && su=pass || su=fail
mv /tmp/wt/demo-$id.go.hold $demo
go test -vet=off -count=1 -run "TestDemoR9$id" $pkg >/tmp/wt/c-$id.4 2>&1 && dc=pass || dc=fail
line="demo_without=$dw apply=ok build=$b suite=$su demo_with=$dc"
echo "$line" > $out/confirm.txt
echo "$(dirname $demo)" > $out/demo_dir.txt
echo "$id-$n $line"
