package topics

import (
	"testing"
	"time"
)

func TestXCloseDuringPublish(t *testing.T) {
	top := New[int]()
	sub := top.Subscribe(false)
	pubDone := make(chan struct{})
	go func() { top.Publish(1); close(pubDone) }()
	time.Sleep(50 * time.Millisecond) // publisher now blocked in send, holding the topic lock
	closeDone := make(chan struct{})
	go func() { sub.Close(); close(closeDone) }()
	select {
	case <-closeDone:
	case <-time.After(time.Second):
		t.Fatal("Close blocked while an event is being delivered")
	}
	select {
	case <-pubDone:
	case <-time.After(time.Second):
		t.Fatal("Publish wedged")
	}
}
