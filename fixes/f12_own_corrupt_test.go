package syncer

import (
	"context"
	"testing"
	"time"

	"github.com/PowerDNS/lightningstream/snapshot"
	"github.com/PowerDNS/simpleblob/backends/memory"
)

// The own instance's newest snapshot is undecodable, an older decodable one exists:
// run-once must still end (after loading the older one).
func TestXOwnNewestCorrupt(t *testing.T) {
	st := memory.New()
	s1, env1 := createInstance(t, "a", st, true)
	setKey(t, env1, "foo", "v1", true)
	if _, err := s1.SendOnce(context.Background(), env1); err != nil {
		t.Fatal(err)
	}
	// a newer, corrupt snapshot under the same instance name
	name := snapshot.Name("default", "a", "GX", time.Now().Add(time.Second))
	if err := st.Store(context.Background(), name, []byte("this is not gzip")); err != nil {
		t.Fatal(err)
	}
	// restart with an empty LMDB, run-once
	s2, _ := createInstance(t, "a", st, true)
	s2.c.OnlyOnce = true
	s2.c.StoragePollInterval = 300 * time.Millisecond
	s2.c.StorageRetryInterval = 10 * time.Millisecond
	ctx, cancel := context.WithTimeout(context.Background(), 3*time.Second)
	defer cancel()
	done := make(chan error, 1)
	go func() { done <- s2.Sync(ctx) }()
	select {
	case err := <-done:
		if err != nil {
			t.Fatalf("Sync returned %v", err)
		}
	case <-time.After(4 * time.Second):
		t.Fatal("hang")
	}
}
