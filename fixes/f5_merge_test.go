package syncer

import (
	"bytes"
	"testing"

	"github.com/PowerDNS/lightningstream/lmdbenv/header"
	"github.com/PowerDNS/lightningstream/snapshot"
)

func xmerge(t *testing.T, def uint64, old []byte, kv snapshot.KV) []byte {
	it := &NativeIterator{DefaultTimestampNano: header.Timestamp(def), TxnID: 123, FormatVersion: 3}
	kv.Key = []byte("k")
	it.curKV = kv
	res, err := it.Merge(old)
	if err != nil {
		t.Fatal(err)
	}
	return append([]byte{}, res...)
}

func TestXTieDeleted(t *testing.T) {
	for _, ts := range []uint64{5, 0} {
		del := snapshot.KV{TimestampNano: ts, Flags: 1}
		live := snapshot.KV{TimestampNano: ts, Flags: 0, Value: []byte{}}
		a := xmerge(t, 0, xmerge(t, 0, nil, del), live)
		b := xmerge(t, 0, xmerge(t, 0, nil, live), del)
		if !bytes.Equal(a, b) {
			t.Errorf("ts=%d order dependent: %x vs %x", ts, a, b)
		}
	}
	// non-conforming incoming: deleted flag with a value
	delv := snapshot.KV{TimestampNano: 5, Flags: 1, Value: []byte("abc")}
	livev := snapshot.KV{TimestampNano: 5, Flags: 0, Value: []byte("abc")}
	a := xmerge(t, 0, xmerge(t, 0, nil, delv), livev)
	b := xmerge(t, 0, xmerge(t, 0, nil, livev), delv)
	if !bytes.Equal(a, b) {
		t.Errorf("nonconforming order dependent: %x vs %x", a, b)
	}
}
