package syncer

import (
	"context"
	"errors"
	"testing"
	"time"

	"github.com/PowerDNS/simpleblob"
	"github.com/PowerDNS/simpleblob/backends/memory"
)

type failList struct{ simpleblob.Interface }

func (f failList) List(ctx context.Context, prefix string) (simpleblob.BlobList, error) {
	return nil, errors.New("list fails")
}

func TestXCancelDuringInitialListing(t *testing.T) {
	s, _ := createInstance(t, "a", failList{memory.New()}, true)
	ctx, cancel := context.WithCancel(context.Background())
	done := make(chan error, 1)
	go func() { done <- s.Sync(ctx) }()
	time.Sleep(100 * time.Millisecond)
	cancel()
	select {
	case <-done:
	case <-time.After(2500 * time.Millisecond):
		t.Fatal("Sync did not return 2.5s after cancel")
	}
}
