package strategy

import (
	"io"
	"testing"

	"github.com/PowerDNS/lightningstream/lmdbenv"
	"github.com/PowerDNS/lmdb-go/lmdb"
)

type xIt struct {
	keys [][]byte
	i    int
}

func (it *xIt) Next() ([]byte, error) {
	if it.i >= len(it.keys) {
		return nil, io.EOF
	}
	it.i++
	return it.keys[it.i-1], nil
}
func (it *xIt) Merge(old []byte) ([]byte, error) { return []byte("v"), nil }
func (it *xIt) Clean(old []byte) ([]byte, error) { return nil, nil }

func TestXIntKeyZero(t *testing.T) {
	err := lmdbenv.TestEnv(func(env *lmdb.Env) error {
		return env.Update(func(txn *lmdb.Txn) error {
			dbi, err := txn.OpenDBI("ints", lmdb.Create|LMDBIntegerKeyFlag)
			if err != nil {
				return err
			}
			it := &xIt{keys: [][]byte{{0, 0, 0, 0}, {1, 0, 0, 0}, {0, 1, 0, 0}}}
			return IterUpdate(txn, dbi, it)
		})
	})
	if err != nil {
		t.Fatal(err)
	}
}
