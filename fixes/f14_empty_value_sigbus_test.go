package syncer

// Regression test for fix F14 (copy into /repo/syncer/ to run):
// shadow mode, an application DBI whose only entry has a ZERO-LENGTH value (the last node of the last page of the
// data file): SendOnce read it with txn.RawRead, lmdb-go's raw read touches the byte at the value's address, which
// lies just past the end of the mapped file: the process died with SIGBUS. With the fix the entry is dumped.

import (
	"context"
	"testing"

	"github.com/PowerDNS/lmdb-go/lmdb"
	"github.com/PowerDNS/simpleblob/backends/memory"
)

func TestF14EmptyValueAtEndOfFile(t *testing.T) {
	env, tmp, err := createLMDB(t)
	if err != nil {
		t.Fatal(err)
	}
	c := createConfig("a", tmp, false)
	s, err := New(testLMDBName, env, memory.New(), c, c.LMDBs[testLMDBName], Options{})
	if err != nil {
		t.Fatal(err)
	}
	err = env.Update(func(txn *lmdb.Txn) error {
		d, err := txn.OpenDBI("app", lmdb.Create)
		if err != nil {
			return err
		}
		return txn.Put(d, []byte("a\x00"), []byte{}, 0)
	})
	if err != nil {
		t.Fatal(err)
	}
	if _, err := s.SendOnce(context.Background(), env); err != nil {
		t.Fatal(err)
	}
}
