package storage

import (
	"testing"
	"time"

	"github.com/PowerDNS/simpleblob/backends/memory"
)

func TestXGetBeforeSet(t *testing.T) {
	done := make(chan any, 1)
	go func() {
		defer func() { done <- recover() }()
		st := GetGlobal()
		if st == nil {
			done <- "nil"
		}
	}()
	time.Sleep(50 * time.Millisecond)
	SetGlobal(memory.New())
	select {
	case r := <-done:
		if r != nil {
			t.Fatalf("GetGlobal: %v", r)
		}
	case <-time.After(2 * time.Second):
		t.Fatal("hang")
	}
}
