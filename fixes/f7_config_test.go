package config

import (
	"testing"
	"time"

	"github.com/PowerDNS/lightningstream/lmdbenv/header"
)

func TestXRetentionWrap(t *testing.T) {
	now := time.Now()
	sw := Sweeper{Enabled: true, RetentionDays: 21000}
	cutoff := header.TimestampFromTime(now.Add(-sw.RetentionDuration()))
	young := header.TimestampFromTime(now.Add(-time.Hour))
	if young < cutoff {
		t.Errorf("1h old marker is before the sweep cutoff for retention_days=21000 (cutoff %d)", cutoff)
	}
	sw = Sweeper{Enabled: true, RetentionDays: 40000, RetentionLoadCutoffDuration: time.Hour}
	if sw.RetentionDurationMinusCutoff() > sw.RetentionDuration() {
		t.Errorf("RMC %v > R %v", sw.RetentionDurationMinusCutoff(), sw.RetentionDuration())
	}
}
