package syncer

import (
	"context"
	"testing"
	"time"

	"github.com/PowerDNS/lightningstream/snapshot"
	"github.com/PowerDNS/simpleblob/backends/memory"
)

func TestXCompatGateWithoutDBIs(t *testing.T) {
	for _, native := range []bool{true, false} {
		s, env := createInstance(t, "a", memory.New(), native)
		priv := snapshot.NewDBI()
		priv.SetName("_sync_meta")
		priv.Append(snapshot.KV{Key: []byte("k"), Value: []byte("v"), TimestampNano: 5})
		for _, sn := range []*snapshot.Snapshot{
			{FormatVersion: 4, CompatVersion: 4},
			{FormatVersion: 4, CompatVersion: 4, Databases: []*snapshot.DBI{priv}},
			{FormatVersion: 0, CompatVersion: 0},
		} {
			u := snapshot.Update{Snapshot: sn, NameInfo: snapshot.NameInfo{Kind: snapshot.KindSnapshot, InstanceID: "b", Timestamp: time.Now()}}
			_, _, err := s.LoadOnce(context.Background(), env, "b", u, 0)
			if err == nil {
				t.Errorf("native=%v: snapshot format %d compat %d was accepted", native, sn.FormatVersion, sn.CompatVersion)
			}
			if _, ok := s.lastByInstance["b"]; ok {
				t.Errorf("native=%v: snapshot recorded as merged", native)
			}
		}
	}
}
