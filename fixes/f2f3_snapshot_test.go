package snapshot

import (
	"testing"
	"time"
)

// F2: unknown field inside a DBI message
func TestXUnknownFieldInDBI(t *testing.T) {
	// name="a"(0a 01 61), unknown varint field 9 (48 05), entry key "k" (12 03 0a 01 6b)
	data := []byte{0x0a, 0x01, 0x61, 0x48, 0x05, 0x12, 0x03, 0x0a, 0x01, 0x6b}
	d, err := NewDBIFromData(data)
	if err != nil {
		t.Fatalf("decode: %v", err)
	}
	if d.Name() != "a" {
		t.Fatalf("name %q", d.Name())
	}
	kv, err := d.Next()
	if err != nil || string(kv.Key) != "k" {
		t.Fatalf("next: %v %v", kv, err)
	}
	// unknown length-delimited field 9 with 3 bytes followed by flags=7
	data = []byte{0x4a, 0x03, 0x01, 0x02, 0x03, 0x18, 0x07}
	d, err = NewDBIFromData(data)
	if err != nil || d.Flags() != 7 {
		t.Fatalf("decode2: %v %v", d, err)
	}
}

func runGuard(t *testing.T, name string, f func()) {
	done := make(chan any, 1)
	go func() {
		defer func() { done <- recover() }()
		f()
	}()
	select {
	case r := <-done:
		if r != nil {
			t.Errorf("%s: panic %v", name, r)
		}
	case <-time.After(2 * time.Second):
		t.Errorf("%s: hang", name)
	}
}

// F3: hostile lengths
func TestXHostileLengths(t *testing.T) {
	huge := []byte{0xff, 0xff, 0xff, 0xff, 0xff, 0xff, 0xff, 0xff, 0xff, 0x01} // 2^64-1
	neg11 := []byte{0xf5, 0xff, 0xff, 0xff, 0xff, 0xff, 0xff, 0xff, 0xff, 0x01} // -11 as int
	runGuard(t, "indexData entries len", func() {
		_, _ = NewDBIFromData(append([]byte{0x12}, huge...))
	})
	runGuard(t, "indexData name len", func() {
		_, _ = NewDBIFromData(append([]byte{0x0a}, huge...))
	})
	runGuard(t, "kv key len", func() {
		var kv KV
		_ = kv.Unmarshal(append([]byte{0x0a}, huge...))
	})
	runGuard(t, "kv skip backwards", func() {
		var kv KV
		_ = kv.Unmarshal(append([]byte{0x7a}, neg11...))
	})
	runGuard(t, "next skip backwards", func() {
		d := &DBI{data: append([]byte{0x7a}, neg11...)}
		_, _ = d.Next()
	})
	runGuard(t, "next len", func() {
		d := &DBI{data: append([]byte{0x12}, huge...)}
		_, _ = d.Next()
	})
	runGuard(t, "indexData skip backwards", func() {
		_, _ = NewDBIFromData(append(append([]byte{0x7a}, neg11...), 0, 0, 0))
	})
}
