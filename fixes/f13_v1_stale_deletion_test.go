package syncer

// Replay for the defect fixed by "fix: stale format-version-1 deletions were re-created after a sweep"
// (copy into /repo/syncer and run `go test -run TestXV1StaleDeletion ./syncer/`).
// C04: with the tomb sweeper configured, a deletion older than the load cutoff is not re-created on an instance
// that has no entry for the key. In format version 1 a deletion is an entry with an EMPTY value (no flag).

import (
	"testing"

	"github.com/PowerDNS/lightningstream/lmdbenv/header"
	"github.com/PowerDNS/lightningstream/snapshot"
)

func TestXV1StaleDeletion(t *testing.T) {
	const cutoff = 1000
	for _, c := range []struct {
		name string
		fmtv uint32
		kv   snapshot.KV
		want bool // stored?
	}{
		{"v3 flagged stale", 3, snapshot.KV{TimestampNano: cutoff - 1, Flags: 1}, false},
		{"v1 empty stale", 1, snapshot.KV{TimestampNano: cutoff - 1}, false},
		{"v1 empty stale ts0", 1, snapshot.KV{TimestampNano: 0}, false},
		{"v1 empty young", 1, snapshot.KV{TimestampNano: cutoff}, true},
		{"v3 empty live old", 3, snapshot.KV{TimestampNano: cutoff - 1}, true}, // from v2 on an empty value is a live value
		{"v1 live old", 1, snapshot.KV{TimestampNano: cutoff - 1, Value: []byte("x")}, true},
	} {
		it := &NativeIterator{TxnID: 7, FormatVersion: c.fmtv, DeletedCutoff: header.Timestamp(cutoff)}
		kv := c.kv
		kv.Key = []byte("k")
		it.curKV = kv
		res, err := it.Merge(nil) // the instance has no entry for the key
		if err != nil {
			t.Fatal(err)
		}
		if (len(res) > 0) != c.want {
			t.Errorf("%s: stored=%v (% x), want stored=%v", c.name, len(res) > 0, res, c.want)
		}
	}
}
