(* Strategy/Proofs.v — the update strategies apply exactly the iterator's decisions, in key order. *)
From LS Require Import Base.Bytes Base.BytesProofs Base.Res Strategy.Model Strategy.Order.
From Coq Require Import ZifyN ZifyNat ZifyBool Sorted.
Open Scope N_scope.

Section Proofs.
  Variable cmp : bytes -> bytes -> comparison.
  Variable dom : bytes -> Prop.
  Hypothesis ORD : ord_ok cmp dom.
  Variable E : Type.
  Variable key_of : E -> bytes.
  Variable merge : E -> bytes -> res bytes.
  Variable clean : bytes -> res bytes.

  Definition lt (a b : bytes) : Prop := cmp a b = Lt.
  Definition keys (d : db) : list bytes := map fst d.
  Definition ekeys (l : list E) : list bytes := map key_of l.
  Definition sorted (ks : list bytes) : Prop := StronglySorted lt ks /\ Forall dom ks.

  Notation dget := (dget cmp).
  Notation dmem := (dmem cmp).
  Notation dput := (dput cmp).
  Notation ddel := (ddel cmp).
  Notation iu := (iu cmp E key_of merge clean).
  Notation iu_inner := (iu_inner cmp E key_of merge clean).
  Notation iu_eof := (iu_eof clean).
  Notation next_ok := (next_ok cmp E key_of).

  Lemma cmp_refl a : dom a -> cmp a a = Eq.
  Proof. intros Ha. apply (o_eq _ _ ORD); auto. Qed.

  Lemma lt_gt a b : lt a b -> cmp b a = Gt.
  Proof. unfold lt. intros H. rewrite (o_antisym _ _ ORD a b), H. reflexivity. Qed.

  Lemma gt_lt a b : cmp a b = Gt -> lt b a.
  Proof. unfold lt. intros H. rewrite (o_antisym _ _ ORD a b), H. reflexivity. Qed.

  Lemma lt_trans a b c : lt a b -> lt b c -> lt a c.
  Proof. apply (o_trans _ _ ORD). Qed.

  Lemma neq_cmp a b : dom a -> dom b -> a <> b -> is_eq (cmp a b) = false.
  Proof.
    intros Ha Hb Hn. destruct (cmp a b) eqn:C; try reflexivity.
    exfalso. apply Hn. apply (o_eq _ _ ORD); auto.
  Qed.

  Lemma sorted_cons_inv k ks : sorted (k :: ks) -> dom k /\ Forall (lt k) ks /\ sorted ks.
  Proof.
    intros [Hs Hd]. inversion Hs; subst. inversion Hd; subst. repeat split; auto.
  Qed.

  Lemma sorted_cons k ks : dom k -> Forall (lt k) ks -> sorted ks -> sorted (k :: ks).
  Proof. intros Hk Hf [Hs Hd]. split; constructor; auto. Qed.

  Lemma sorted_nil : sorted []. Proof. split; constructor. Qed.

  (* lookups below the first key find nothing *)
  Lemma dget_lb d k : Forall (lt k) (keys d) -> dget d k = [] /\ dmem d k = false.
  Proof.
    induction d as [|[dk dv] d IH]; intros H; [split; reflexivity|].
    inversion H as [|? ? Hk Hr]; subst. cbn [Model.dget Model.dmem].
    rewrite (lt_gt _ _ Hk). cbn [is_eq orb]. apply IH, Hr.
  Qed.

  Fixpoint find_e (l : list E) (k : bytes) : option E :=
    match l with
    | [] => None
    | e :: l' => if is_eq (cmp (key_of e) k) then Some e else find_e l' k
    end.

  Lemma find_e_lb l k : Forall (lt k) (ekeys l) -> find_e l k = None.
  Proof.
    induction l as [|e l IH]; intros H; [reflexivity|].
    inversion H as [|? ? Hk Hr]; subst. cbn [find_e]. rewrite (lt_gt _ _ Hk). cbn [is_eq]. apply IH, Hr.
  Qed.

  (* what the strategy must leave for key k *)
  Definition spec_at (l : list E) (d r : db) (k : bytes) : Prop :=
    match find_e l k with
    | Some e => exists v, merge e (dget d k) = Ok v /\ dget r k = v
    | None => if dmem d k then exists v, clean (dget d k) = Ok v /\ dget r k = v
              else dget r k = []
    end.

  Definition sound (l : list E) (d r : db) : Prop :=
    sorted (keys r) /\
    (forall x, In x (keys r) -> In x (ekeys l) \/ In x (keys d)) /\
    (forall k, dom k -> spec_at l d r k).

  Lemma keep_keys k v r x : In x (keys (keep k v r)) -> x = k \/ In x (keys r).
  Proof. unfold keep. destruct v; cbn; intros H; firstorder. Qed.

  Lemma keep_sorted k v r : dom k -> Forall (lt k) (keys r) -> sorted (keys r) -> sorted (keys (keep k v r)).
  Proof. intros Hk Hf Hs. unfold keep. destruct v; [exact Hs|]. cbn [keys map fst]. apply sorted_cons; auto. Qed.

  Lemma keep_get_same k v r : dom k -> Forall (lt k) (keys r) -> dget (keep k v r) k = v.
  Proof.
    intros Hk Hf. unfold keep. destruct v as [|x v].
    - apply dget_lb, Hf.
    - cbn [Model.dget]. rewrite cmp_refl by exact Hk. reflexivity.
  Qed.

  Lemma keep_get_other k v r k' : dom k -> dom k' -> k <> k' -> dget (keep k v r) k' = dget r k'.
  Proof.
    intros Hk Hk' Hn. unfold keep. destruct v; [reflexivity|]. cbn [Model.dget].
    rewrite neq_cmp by auto. reflexivity.
  Qed.

  Lemma Forall_lt_trans a b ks : lt a b -> Forall (lt b) ks -> Forall (lt a) ks.
  Proof. intros H. apply Forall_impl. intros x. apply lt_trans, H. Qed.

  Lemma bound_of_subset k (r : db) (A B : list bytes) :
    (forall x, In x (keys r) -> In x A \/ In x B) -> Forall (lt k) A -> Forall (lt k) B ->
    Forall (lt k) (keys r).
  Proof.
    intros Hsub HA HB. apply Forall_forall. intros x Hx.
    destruct (Hsub x Hx) as [H|H]; [apply (proj1 (Forall_forall _ _) HA)|apply (proj1 (Forall_forall _ _) HB)]; exact H.
  Qed.

  (* ---- end of input: every remaining stored key is cleaned ---- *)
  Lemma iu_eof_sound d r : sorted (keys d) -> iu_eof d = Ok r -> sound [] d r.
  Proof.
    revert r. induction d as [|[dk dv] d IH]; intros r Hs H.
    - cbn in H. injection H as <-. split; [apply sorted_nil|]. split; [intros x []|].
      intros k _. unfold spec_at. cbn. reflexivity.
    - cbn [Model.iu_eof] in H. destruct (clean dv) as [v| | |] eqn:Ec; try discriminate.
      destruct (iu_eof d) as [r'| | |] eqn:Er; try discriminate. injection H as <-.
      cbn [keys map fst] in Hs. apply sorted_cons_inv in Hs. destruct Hs as (Hdk & Hlb & Hs').
      destruct (IH r' Hs' eq_refl) as (Hsr & Hsub & Hspec).
      assert (Hlbr : Forall (lt dk) (keys r')).
      { apply (bound_of_subset dk r' [] (keys d)); auto. }
      split; [apply keep_sorted; auto|]. split.
      + intros x Hx. apply keep_keys in Hx. right. cbn [keys map fst]. destruct Hx as [->|Hx]; [left; reflexivity|].
        right. destruct (Hsub x Hx) as [[]|]; auto.
      + intros k Hk. unfold spec_at. cbn [find_e Model.dmem Model.dget].
        destruct (is_eq (cmp dk k)) eqn:Ek.
        * assert (dk = k) as <- by (apply (o_eq _ _ ORD); auto; destruct (cmp dk k); cbn in Ek; congruence).
          cbn [orb]. exists v. split; [exact Ec|]. apply keep_get_same; auto.
        * cbn [orb]. assert (Hn : dk <> k) by (intros ->; rewrite cmp_refl in Ek by auto; discriminate).
          rewrite keep_get_other by auto. specialize (Hspec k Hk). unfold spec_at in Hspec. cbn [find_e] in Hspec.
          exact Hspec.
  Qed.

  (* ---- the inner loop for one input entry ---- *)
  Lemma iu_inner_sound e l' nok rec :
    (forall d r, sorted (keys d) -> rec d = Ok r -> sound l' d r) ->
    dom (key_of e) -> Forall (lt (key_of e)) (ekeys l') ->
    forall d r, sorted (keys d) -> iu_inner e nok rec d = Ok r -> sound (e :: l') d r.
  Proof.
    intros Hrec Hke Hlb. set (ke := key_of e) in *.
    assert (Hcont : forall v outk d0 d r, outk = ke -> sorted (keys d0) ->
              Forall (lt ke) (keys d0) ->
              iu_continue nok rec v outk d0 = Ok r ->
              merge e (dget d ke) = Ok v ->
              (forall k, dom k -> k <> ke -> dget d k = dget d0 k /\ dmem d k = dmem d0 k) ->
              (forall x, In x (keys d0) -> In x (keys d)) ->
              sound (e :: l') d r).
    { intros v outk d0 d r -> Hs0 Hlb0 Hc Hm Hsame Hsubd.
      unfold iu_continue in Hc. destruct nok; [|discriminate].
      destruct (rec d0) as [r'| | |] eqn:Er; try discriminate. injection Hc as <-.
      destruct (Hrec d0 r' Hs0 Er) as (Hsr & Hsub & Hspec).
      assert (Hlbr : Forall (lt ke) (keys r')) by (apply (bound_of_subset ke r' (ekeys l') (keys d0)); auto).
      split; [apply keep_sorted; auto|]. split.
      - intros x Hx. apply keep_keys in Hx. destruct Hx as [->|Hx]; [left; left; reflexivity|].
        destruct (Hsub x Hx) as [H|H]; [left; right; exact H|right; apply Hsubd, H].
      - intros k Hk. unfold spec_at. cbn [find_e]. fold ke.
        destruct (is_eq (cmp ke k)) eqn:Ek.
        + assert (ke = k) as <- by (apply (o_eq _ _ ORD); auto; destruct (cmp ke k); cbn in Ek; congruence).
          exists v. split; [exact Hm|]. apply keep_get_same; auto.
        + assert (Hn : ke <> k) by (intros <-; rewrite cmp_refl in Ek by auto; discriminate).
          rewrite keep_get_other by auto.
          specialize (Hspec k Hk). unfold spec_at in Hspec.
          destruct (Hsame k Hk (not_eq_sym Hn)) as [-> ->]. exact Hspec. }
    induction d as [|[dk dv] d IH]; intros r Hs H.
    - cbn [Model.iu_inner] in H. fold ke in H. destruct (merge e []) as [v| | |] eqn:Em; try discriminate.
      apply (Hcont v ke [] [] r eq_refl); auto; try constructor; try (intros k _ _; split; reflexivity).
    - cbn [Model.iu_inner] in H. fold ke in H.
      cbn [keys map fst] in Hs. pose proof Hs as Hs0. apply sorted_cons_inv in Hs. destruct Hs as (Hdk & Hlbd & Hs').
      destruct (cmp dk ke) eqn:C.
      + (* same key *)
        assert (dk = ke) as -> by (apply (o_eq _ _ ORD); auto).
        destruct (merge e []) as [v0| | |] eqn:Em0; try discriminate.
        destruct (merge e dv) as [v| | |] eqn:Em; try discriminate.
        apply (Hcont v ke d ((ke, dv) :: d) r eq_refl); auto.
        * cbn [Model.dget]. rewrite cmp_refl by auto. exact Em.
        * intros k Hk Hn. cbn [Model.dget Model.dmem]. rewrite neq_cmp by auto. split; reflexivity.
        * intros x Hx. right. exact Hx.
      + (* stored key below the input key: clean it *)
        destruct (clean dv) as [v| | |] eqn:Ec; try discriminate.
        destruct (iu_inner e nok rec d) as [r'| | |] eqn:Er; try discriminate. injection H as <-.
        destruct (IH r' Hs' eq_refl) as (Hsr & Hsub & Hspec).
        assert (Hlbr : Forall (lt dk) (keys r')).
        { apply (bound_of_subset dk r' (ekeys (e :: l')) (keys d)); auto.
          cbn [ekeys map]. constructor; [exact C|]. apply (Forall_lt_trans dk ke); auto. }
        split; [apply keep_sorted; auto|]. split.
        * intros x Hx. apply keep_keys in Hx. destruct Hx as [->|Hx]; [right; left; reflexivity|].
          destruct (Hsub x Hx) as [H|H]; [left; exact H|right; right; exact H].
        * intros k Hk. unfold spec_at. cbn [Model.dget Model.dmem].
          destruct (is_eq (cmp dk k)) eqn:Ek.
          -- assert (dk = k) as <- by (apply (o_eq _ _ ORD); auto; destruct (cmp dk k); cbn in Ek; congruence).
             rewrite find_e_lb.
             2:{ cbn [ekeys map]. constructor; [exact C|]. apply (Forall_lt_trans dk ke); auto. }
             cbn [orb]. exists v. split; [exact Ec|]. apply keep_get_same; auto.
          -- assert (Hn : dk <> k) by (intros ->; rewrite cmp_refl in Ek by auto; discriminate).
             cbn [orb]. rewrite keep_get_other by auto.
             specialize (Hspec k Hk). exact Hspec.
      + (* input key below the stored key: insert *)
        destruct (merge e []) as [v| | |] eqn:Em; try discriminate.
        assert (Hlt : lt ke dk) by (apply gt_lt; exact C).
        assert (Hall : Forall (lt ke) (keys ((dk, dv) :: d))).
        { cbn [keys map fst]. constructor; [exact Hlt|]. apply (Forall_lt_trans ke dk); auto. }
        apply (Hcont v ke ((dk, dv) :: d) ((dk, dv) :: d) r eq_refl); auto.
        rewrite (proj1 (dget_lb ((dk, dv) :: d) ke Hall)). exact Em.
  Qed.

  Lemma next_ok_true e l' : sorted (ekeys (e :: l')) -> next_ok e l' = true.
  Proof.
    intros Hs. cbn [ekeys map] in Hs. apply sorted_cons_inv in Hs. destruct Hs as (_ & Hlb & _).
    destruct l' as [|e' l'']; [reflexivity|]. cbn [Model.next_ok]. inversion Hlb as [|? ? H _]; subst.
    unfold lt in H. rewrite H. reflexivity.
  Qed.

  (* ---- IterUpdate: soundness ---- *)
  Theorem iu_sound l : forall d r,
    sorted (ekeys l) -> sorted (keys d) -> iu l d = Ok r -> sound l d r.
  Proof.
    induction l as [|e l' IH]; intros d r Hl Hd H.
    - cbn [Model.iu] in H. apply iu_eof_sound; auto.
    - cbn [Model.iu] in H. cbn [ekeys map] in Hl. pose proof Hl as Hl0.
      apply sorted_cons_inv in Hl. destruct Hl as (Hke & Hlb & Hl').
      eapply iu_inner_sound; eauto.
  Qed.

  (* ---- IterUpdate: input that violates the order is rejected (never Ok with some content) ---- *)
  Definition strictly_sorted_b (ks : list bytes) : bool :=
    (fix go (ks : list bytes) : bool :=
       match ks with
       | a :: ((b :: _) as t) => is_lt (cmp a b) && go t
       | _ => true
       end) ks.

  Lemma iu_inner_nok_false e rec d r : iu_inner e false rec d = Ok r -> False.
  Proof.
    revert r. induction d as [|[dk dv] d IH]; intros r H; cbn [Model.iu_inner] in H.
    - destruct (merge e []); try discriminate. all: try (cbn in H; discriminate).
    - destruct (cmp dk (key_of e)).
      + destruct (merge e []); try discriminate. destruct (merge e dv); try discriminate. all: try (cbn in H; discriminate).
      + destruct (clean dv); try discriminate. destruct (iu_inner e false rec d) eqn:Er; try discriminate.
        eapply IH; reflexivity.
      + destruct (merge e []); try discriminate. all: try (cbn in H; discriminate).
  Qed.

  Lemma iu_inner_ok_rec e nok rec d r : iu_inner e nok rec d = Ok r -> exists d' r', rec d' = Ok r'.
  Proof.
    revert r. induction d as [|[dk dv] d IH]; intros r H; cbn [Model.iu_inner] in H.
    - destruct (merge e []); try discriminate. unfold iu_continue in H. destruct nok; [|discriminate].
      destruct (rec []) eqn:Er; try discriminate. eauto.
    - destruct (cmp dk (key_of e)).
      + destruct (merge e []); try discriminate. destruct (merge e dv); try discriminate.
        unfold iu_continue in H. destruct nok; [|discriminate]. destruct (rec d) eqn:Er; try discriminate. eauto.
      + destruct (clean dv); try discriminate. destruct (iu_inner e nok rec d) eqn:Er; try discriminate.
        eapply IH; reflexivity.
      + destruct (merge e []); try discriminate.
        unfold iu_continue in H. destruct nok; [|discriminate]. destruct (rec ((dk, dv) :: d)) eqn:Er; try discriminate. eauto.
  Qed.

  Theorem iu_unsorted_rejected l : forall d r,
    iu l d = Ok r -> strictly_sorted_b (ekeys l) = true.
  Proof.
    induction l as [|e l' IH]; intros d r H; [reflexivity|].
    cbn [Model.iu] in H. cbn [ekeys map strictly_sorted_b].
    destruct l' as [|e' l'']; [reflexivity|].
    cbn [ekeys map]. 
    destruct (next_ok e (e' :: l'')) eqn:En.
    - cbn [Model.next_ok] in En. rewrite En. cbn [andb].
      destruct (iu_inner_ok_rec _ _ _ _ _ H) as (d' & r' & Hr). apply (IH d' r' Hr).
    - exfalso. eapply iu_inner_nok_false. exact H.
  Qed.

  (* ---- IterUpdate: valid input whose decisions all succeed is never rejected ---- *)
  Lemma iu_eof_total d :
    (forall dv, In dv (map snd d) -> exists v, clean dv = Ok v) -> exists r, iu_eof d = Ok r.
  Proof.
    induction d as [|[dk dv] d IH]; intros Hc; [eexists; reflexivity|].
    cbn [Model.iu_eof]. destruct (Hc dv) as [v ->]; [left; reflexivity|].
    destruct IH as [r ->]; [intros x Hx; apply Hc; right; exact Hx|]. eexists; reflexivity.
  Qed.

  Lemma iu_inner_total e rec d :
    (forall old, exists v, merge e old = Ok v) ->
    (forall dv, In dv (map snd d) -> exists v, clean dv = Ok v) ->
    (forall d', (forall dv, In dv (map snd d') -> In dv (map snd d)) -> exists r, rec d' = Ok r) ->
    exists r, iu_inner e true rec d = Ok r.
  Proof.
    intros Hm. induction d as [|[dk dv] d IH]; intros Hc Hrec; cbn [Model.iu_inner].
    - destruct (Hm []) as [v ->]. unfold iu_continue. destruct (Hrec []) as [r ->]; [intros ? []|]. eexists; reflexivity.
    - destruct (cmp dk (key_of e)).
      + destruct (Hm []) as [v0 ->]. destruct (Hm dv) as [v ->]. unfold iu_continue.
        destruct (Hrec d) as [r ->]; [intros x Hx; right; exact Hx|]. eexists; reflexivity.
      + destruct (Hc dv) as [v ->]; [left; reflexivity|].
        destruct IH as [r ->].
        * intros x Hx. apply Hc. right. exact Hx.
        * intros d' Hd'. apply Hrec. intros x Hx. right. apply Hd', Hx.
        * eexists; reflexivity.
      + destruct (Hm []) as [v ->]. unfold iu_continue.
        destruct (Hrec ((dk, dv) :: d)) as [r ->]; [intros x Hx; exact Hx|]. eexists; reflexivity.
  Qed.

  Theorem iu_valid_never_rejected l : forall d,
    sorted (ekeys l) ->
    (forall e old, In e l -> exists v, merge e old = Ok v) ->
    (forall dv, In dv (map snd d) -> exists v, clean dv = Ok v) ->
    exists r, iu l d = Ok r.
  Proof.
    induction l as [|e l' IH]; intros d Hl Hm Hc.
    - cbn [Model.iu]. apply iu_eof_total, Hc.
    - cbn [Model.iu]. rewrite (next_ok_true e l' Hl).
      cbn [ekeys map] in Hl. apply sorted_cons_inv in Hl. destruct Hl as (_ & _ & Hl').
      apply iu_inner_total.
      + intros old. apply Hm. left; reflexivity.
      + exact Hc.
      + intros d' Hd'. apply IH; [exact Hl'| |].
        * intros e0 old He0. apply Hm. right; exact He0.
        * intros dv Hdv. apply Hc, Hd', Hdv.
  Qed.

  (* ---- point operations on a sorted DBI ---- *)
  Lemma dput_keys d k v x : In x (keys (dput d k v)) -> x = k \/ In x (keys d).
  Proof.
    induction d as [|[dk dv] d IH]; cbn [Model.dput keys map fst].
    - cbn. intros [H|[]]; auto.
    - destruct (cmp dk k); cbn [map fst In]; intros H; firstorder.
  Qed.

  Lemma dput_sorted d k v : dom k -> sorted (keys d) -> sorted (keys (dput d k v)).
  Proof.
    intros Hk. induction d as [|[dk dv] d IH]; intros Hs.
    - cbn. apply sorted_cons; auto; try apply sorted_nil.
    - cbn [Model.dput]. cbn [keys map fst] in Hs. pose proof Hs as Hs0. apply sorted_cons_inv in Hs. destruct Hs as (Hdk & Hlb & Hs').
      destruct (cmp dk k) eqn:C.
      + exact Hs0.
      + cbn [keys map fst]. apply sorted_cons; auto.
        apply Forall_forall. intros x Hx. apply dput_keys in Hx. destruct Hx as [->|Hx]; [exact C|].
        apply (proj1 (Forall_forall _ _) Hlb), Hx.
      + cbn [keys map fst]. apply sorted_cons; auto. constructor; [apply gt_lt, C|].
        apply (Forall_lt_trans k dk); auto. apply gt_lt, C.
  Qed.

  Lemma dget_dput d k v k' : dom k -> dom k' -> sorted (keys d) ->
    dget (dput d k v) k' = if is_eq (cmp k k') then v else dget d k'.
  Proof.
    intros Hk Hk'. induction d as [|[dk dv] d IH]; intros Hs.
    - cbn. destruct (is_eq (cmp k k')); reflexivity.
    - cbn [Model.dput]. cbn [keys map fst] in Hs. apply sorted_cons_inv in Hs. destruct Hs as (Hdk & Hlb & Hs').
      destruct (cmp dk k) eqn:C; cbn [Model.dget].
      + assert (dk = k) as -> by (apply (o_eq _ _ ORD); auto). destruct (is_eq (cmp k k')); reflexivity.
      + rewrite IH by auto. destruct (is_eq (cmp dk k')) eqn:E1; [|reflexivity].
        assert (dk = k') as <- by (apply (o_eq _ _ ORD); auto; destruct (cmp dk k'); cbn in E1; congruence).
        rewrite (lt_gt _ _ C). reflexivity.
      + destruct (is_eq (cmp k k')); reflexivity.
  Qed.

  Lemma ddel_keys d k x : In x (keys (ddel d k)) -> In x (keys d).
  Proof.
    induction d as [|[dk dv] d IH]; cbn [Model.ddel keys map fst].
    - cbn. intros [].
    - destruct (is_eq (cmp dk k)); cbn [map fst In]; intros H; firstorder.
  Qed.

  Lemma ddel_sorted d k : sorted (keys d) -> sorted (keys (ddel d k)).
  Proof.
    induction d as [|[dk dv] d IH]; intros Hs; [exact Hs|].
    cbn [Model.ddel]. cbn [keys map fst] in Hs. apply sorted_cons_inv in Hs. destruct Hs as (Hdk & Hlb & Hs').
    destruct (is_eq (cmp dk k)); [exact Hs'|]. cbn [keys map fst]. apply sorted_cons; auto.
    apply Forall_forall. intros x Hx. apply ddel_keys in Hx. apply (proj1 (Forall_forall _ _) Hlb), Hx.
  Qed.

  Lemma dget_ddel d k k' : dom k -> dom k' -> sorted (keys d) ->
    dget (ddel d k) k' = if is_eq (cmp k k') then [] else dget d k'.
  Proof.
    intros Hk Hk'. induction d as [|[dk dv] d IH]; intros Hs.
    - cbn. destruct (is_eq (cmp k k')); reflexivity.
    - cbn [Model.ddel]. cbn [keys map fst] in Hs. apply sorted_cons_inv in Hs. destruct Hs as (Hdk & Hlb & Hs').
      destruct (is_eq (cmp dk k)) eqn:C.
      + assert (dk = k) as -> by (apply (o_eq _ _ ORD); auto; destruct (cmp dk k); cbn in C; congruence).
        cbn [Model.dget]. destruct (is_eq (cmp k k')) eqn:E1; [|reflexivity].
        assert (k = k') as <- by (apply (o_eq _ _ ORD); auto; destruct (cmp k k'); cbn in E1; congruence).
        apply dget_lb, Hlb.
      + cbn [Model.dget]. rewrite IH by auto.
        destruct (is_eq (cmp dk k')) eqn:E1; [|reflexivity].
        assert (dk = k') as <- by (apply (o_eq _ _ ORD); auto; destruct (cmp dk k'); cbn in E1; congruence).
        assert (k <> dk) by (intros ->; rewrite cmp_refl in C by auto; discriminate).
        rewrite neq_cmp by auto. reflexivity.
  Qed.

  (* Go: setNewVal — the stored value for k becomes [new] (absent when empty), nothing else changes *)
  Lemma set_new_val_spec d k new k' : dom k -> dom k' -> sorted (keys d) ->
    sorted (keys (set_new_val cmp d k (dget d k) new)) /\
    dget (set_new_val cmp d k (dget d k) new) k' = if is_eq (cmp k k') then new else dget d k'.
  Proof.
    intros Hk Hk' Hs. unfold set_new_val. destruct new as [|x new].
    - split; [apply ddel_sorted, Hs|]. apply dget_ddel; auto.
    - destruct (beqb (x :: new) (dget d k)) eqn:Eb.
      + split; [exact Hs|]. apply beqb_eq in Eb.
        destruct (is_eq (cmp k k')) eqn:E1; [|reflexivity].
        assert (k = k') as <- by (apply (o_eq _ _ ORD); auto; destruct (cmp k k'); cbn in E1; congruence).
        symmetry. exact Eb.
      + split; [apply dput_sorted; auto|]. apply dget_dput; auto.
  Qed.

  (* ---- Update: the decisions applied in sequence, key by key ---- *)
  Fixpoint decide (l : list E) (k : bytes) (cur : bytes) : res bytes :=
    match l with
    | [] => Ok cur
    | e :: l' => if is_eq (cmp (key_of e) k)
                 then match merge e cur with Ok v => decide l' k v | r => r end
                 else decide l' k cur
    end.

  Theorem update_spec l : forall d r,
    sorted (keys d) -> Forall dom (ekeys l) ->
    update cmp E key_of merge d l = Ok r ->
    sorted (keys r) /\ forall k, dom k -> decide l k (dget d k) = Ok (dget r k).
  Proof.
    induction l as [|e l IH]; intros d r Hs Hl H.
    - cbn in H. injection H as <-. split; [exact Hs|]. intros k _. reflexivity.
    - cbn [update] in H. inversion Hl as [|? ? Hke Hl']; subst.
      destruct (merge e (dget d (key_of e))) as [v| | |] eqn:Em; try discriminate.
      destruct (set_new_val_spec d (key_of e) v (key_of e) Hke Hke Hs) as [Hs1 _].
      destruct (IH _ _ Hs1 Hl' H) as [Hsr Hdec]. split; [exact Hsr|].
      intros k Hk. cbn [decide]. specialize (Hdec k Hk).
      destruct (set_new_val_spec d (key_of e) v k Hke Hk Hs) as [_ Hg]. rewrite Hg in Hdec.
      destruct (is_eq (cmp (key_of e) k)) eqn:E1.
      + assert (key_of e = k) as <- by (apply (o_eq _ _ ORD); auto; destruct (cmp (key_of e) k); cbn in E1; congruence).
        rewrite Em. exact Hdec.
      + exact Hdec.
  Qed.
End Proofs.
