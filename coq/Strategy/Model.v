(* Strategy/Model.v — mirrors lmdbenv/strategy: Update (update.go), IterUpdate (iterupdate.go),
   iterBoth / setNewVal / cmpIntegerLittleEndian / bytesToInt (utils.go), EmptyPut + doPut (emptyput.go,
   put.go). A DBI is an association list kept in the DBI's key order; a Go []byte that is nil or empty is [].
   LMDB cursor behaviour assumed (trusted, exercised by the correspondence): a cursor iterating a DBI
   is not disturbed by puts of keys below/at its position nor by deleting its current item.
   No proofs here. *)
From LS Require Import Base.Bytes Base.Res.
Open Scope N_scope.

Definition db := list (bytes * bytes).

(* Go: bytesToInt *)
Definition bytes_to_int (b : bytes) : N :=
  match length b with
  | 4%nat | 8%nat | 2%nat => of_le b
  | _ => 0
  end.
(* Go: cmpIntegerLittleEndian *)
Definition int_cmp (a b : bytes) : comparison := N.compare (bytes_to_int a) (bytes_to_int b).

Section Strategy.
  Variable cmp : bytes -> bytes -> comparison.   (* bcmp, or int_cmp for MDB_INTEGERKEY DBIs *)
  Variable E : Type.                               (* the iterator's entries *)
  Variable key_of : E -> bytes.
  Variable merge : E -> bytes -> res bytes.        (* Iterator.Merge(oldval) for the current entry *)
  Variable clean : bytes -> res bytes.             (* Iterator.Clean(oldval) *)

  (* LMDB point operations on a DBI in key order *)
  Fixpoint dget (d : db) (k : bytes) : bytes :=
    match d with
    | [] => []
    | (dk, dv) :: d' => if is_eq (cmp dk k) then dv else dget d' k
    end.
  Fixpoint dmem (d : db) (k : bytes) : bool :=
    match d with
    | [] => false
    | (dk, _) :: d' => is_eq (cmp dk k) || dmem d' k
    end.
  Fixpoint dput (d : db) (k v : bytes) : db :=
    match d with
    | [] => [(k, v)]
    | (dk, dv) :: d' =>
        match cmp dk k with
        | Lt => (dk, dv) :: dput d' k v
        | Eq => (dk, v) :: d'
        | Gt => (k, v) :: d
        end
    end.
  Fixpoint ddel (d : db) (k : bytes) : db :=
    match d with
    | [] => []
    | (dk, dv) :: d' => if is_eq (cmp dk k) then d' else (dk, dv) :: ddel d' k
    end.

  (* Go: setNewVal(txn, dbi, key, oldVal, newVal) *)
  Definition set_new_val (d : db) (k old new : bytes) : db :=
    match new with
    | [] => ddel d k
    | _ => if beqb new old then d else dput d k new
    end.

  (* Go: Update(txn, dbi, it) — sorted input not required *)
  Fixpoint update (d : db) (l : list E) : res db :=
    match l with
    | [] => Ok d
    | e :: l' =>
        let k := key_of e in
        let dbv := dget d k in
        match merge e dbv with
        | Ok v => update (set_new_val d k dbv v) l'
        | Err x => Err x | Panic => Panic | OutOfFuel => OutOfFuel
        end
    end.

  (* keep an entry unless the decision was the empty value (= delete / do not add) *)
  Definition keep (k v : bytes) (r : db) : db := match v with [] => r | _ => (k, v) :: r end.

  (* Go: IterUpdate after the iterator is exhausted: Clean every remaining stored key *)
  Fixpoint iu_eof (d : db) : res db :=
    match d with
    | [] => Ok []
    | (dk, dv) :: d' =>
        match clean dv with
        | Ok v => match iu_eof d' with
                  | Ok r => Ok (keep dk v r)
                  | Err x => Err x | Panic => Panic | OutOfFuel => OutOfFuel
                  end
        | Err x => Err x | Panic => Panic | OutOfFuel => OutOfFuel
        end
    end.

  (* the order check iterBoth performs when it fetches the key after [e]:
     cmpFunc(prevKey, itKey) >= 0 => ErrNotSorted (no check for the first key) *)
  Definition next_ok (e : E) (l' : list E) : bool :=
    match l' with
    | [] => true
    | e' :: _ => is_lt (cmp (key_of e) (key_of e'))
    end.

  (* Go: IterUpdate = iterBoth + callback. Outer recursion on the input ([iu]), inner on the stored
     keys ([iu_inner], for the current entry [e]; [nok] = the order check of the key after [e] passed;
     [rec] = the run on the remaining input).
     Order of effects as in the code: the callback for the current entry runs (its error wins), then the
     next input key is fetched and order-checked, before stored keys in between are cleaned. *)
  Definition iu_continue (nok : bool) (rec : db -> res db) (v outk : bytes) (d : db) : res db :=
    if nok then
      match rec d with
      | Ok r => Ok (keep outk v r)
      | Err x => Err x | Panic => Panic | OutOfFuel => OutOfFuel
      end
    else Err ENotSorted.

  Fixpoint iu_inner (e : E) (nok : bool) (rec : db -> res db) (d : db) : res db :=
    let k := key_of e in
    match d with
    | [] => (* dbEOF: Merge(nil), append *)
        match merge e [] with
        | Ok v => iu_continue nok rec v k []
        | Err x => Err x | Panic => Panic | OutOfFuel => OutOfFuel
        end
    | (dk, dv) :: d' =>
        match cmp dk k with
        | Lt => (* stored key absent from the input: Clean *)
            match clean dv with
            | Ok v => match iu_inner e nok rec d' with
                      | Ok r => Ok (keep dk v r)
                      | Err x => Err x | Panic => Panic | OutOfFuel => OutOfFuel
                      end
            | Err x => Err x | Panic => Panic | OutOfFuel => OutOfFuel
            end
        | Eq => (* same key: the discarded Merge(nil) first, then Merge(dbVal) *)
            match merge e [] with
            | Ok _ => match merge e dv with
                      | Ok v => iu_continue nok rec v dk d'
                      | Err x => Err x | Panic => Panic | OutOfFuel => OutOfFuel
                      end
            | Err x => Err x | Panic => Panic | OutOfFuel => OutOfFuel
            end
        | Gt => (* input key not stored: Merge(nil), insert *)
            match merge e [] with
            | Ok v => iu_continue nok rec v k d
            | Err x => Err x | Panic => Panic | OutOfFuel => OutOfFuel
            end
        end
    end.

  Fixpoint iu (l : list E) : db -> res db :=
    match l with
    | [] => iu_eof
    | e :: l' => iu_inner e (next_ok e l') (iu l')
    end.

  Definition iter_update (d : db) (l : list E) : res db := iu l d.
End Strategy.

(* Go: EmptyPut (Drop, then doPut with isEmpty = true) on a DUPSORT DBI: the DBI is a set of (key, value)
   pairs in (key, value) order; Put adds the pair (a duplicate pair is a no-op in LMDB) *)
Definition pair_cmp (a b : bytes * bytes) : comparison :=
  match bcmp (fst a) (fst b) with Eq => bcmp (snd a) (snd b) | c => c end.
Fixpoint pins (p : bytes * bytes) (d : db) : db :=
  match d with
  | [] => [p]
  | q :: d' => match pair_cmp q p with
               | Lt => q :: pins p d'
               | Eq => d
               | Gt => p :: d
               end
  end.
Section EmptyPut.
  Variable E : Type.
  Variable key_of : E -> bytes.
  Variable merge : E -> bytes -> res bytes.
  Fixpoint do_put_empty (acc : db) (l : list E) : res db :=
    match l with
    | [] => Ok acc
    | e :: l' =>
        match merge e [] with
        | Ok [] => do_put_empty acc l'
        | Ok v => do_put_empty (pins (key_of e, v) acc) l'
        | Err x => Err x | Panic => Panic | OutOfFuel => OutOfFuel
        end
    end.
  Definition empty_put (d : db) (l : list E) : res db := do_put_empty [] l.
End EmptyPut.

(* EmptyPut on a DBI WITHOUT duplicate keys: Put overwrites *)
Section EmptyPutPlain.
  Variable cmp : bytes -> bytes -> comparison.
  Variable E : Type.
  Variable key_of : E -> bytes.
  Variable merge : E -> bytes -> res bytes.
  Fixpoint do_put_plain (acc : db) (l : list E) : res db :=
    match l with
    | [] => Ok acc
    | e :: l' =>
        match merge e [] with
        | Ok [] => do_put_plain acc l'
        | Ok v => do_put_plain (dput cmp acc (key_of e) v) l'
        | Err x => Err x | Panic => Panic | OutOfFuel => OutOfFuel
        end
    end.
  Definition empty_put_plain (d : db) (l : list E) : res db := do_put_plain [] l.
End EmptyPutPlain.
