(* Strategy/Order.v — the key orders of a DBI: byte order and native little-endian integer order. *)
From LS Require Import Base.Bytes Base.BytesProofs Base.Res Strategy.Model.
From Coq Require Import ZifyN ZifyNat ZifyBool Sorted.
Open Scope N_scope.

Record ord_ok (cmp : bytes -> bytes -> comparison) (dom : bytes -> Prop) : Prop := {
  o_eq : forall a b, dom a -> dom b -> (cmp a b = Eq <-> a = b);
  o_antisym : forall a b, cmp b a = CompOpp (cmp a b);
  o_trans : forall a b c, cmp a b = Lt -> cmp b c = Lt -> cmp a c = Lt
}.

Lemma bcmp_ord : ord_ok bcmp (fun _ => True).
Proof.
  constructor.
  - intros a b _ _. apply bcmp_eq_iff.
  - intros a b. apply bcmp_antisym.
  - apply bcmp_lt_trans.
Qed.

(* integer keys of one fixed width *)
Definition int_dom (n : nat) (k : bytes) : Prop := length k = n /\ wfb k.

Lemma le_of_le l : wfb l -> le (length l) (of_le l) = l.
Proof.
  induction l as [|x l IH]; intros Hw; [reflexivity|].
  inversion Hw as [|? ? Hx Hl]; subst. cbn [length le of_le].
  replace ((x + 256 * of_le l) mod 256) with x by divmod_lia.
  replace ((x + 256 * of_le l) / 256) with (of_le l) by divmod_lia.
  rewrite IH by exact Hl. reflexivity.
Qed.

Lemma of_le_inj a b : wfb a -> wfb b -> length a = length b -> of_le a = of_le b -> a = b.
Proof.
  intros Ha Hb Hl He. rewrite <- (le_of_le a Ha), <- (le_of_le b Hb), Hl, He. reflexivity.
Qed.

Lemma int_cmp_ord n : (n = 2 \/ n = 4 \/ n = 8)%nat -> ord_ok int_cmp (int_dom n).
Proof.
  intros Hn. constructor.
  - intros a b [La Wa] [Lb Wb]. unfold int_cmp, bytes_to_int. rewrite La, Lb.
    assert (E : forall x : bytes, match n with 4%nat | 8%nat | 2%nat => of_le x | _ => 0 end = of_le x)
      by (intros x; destruct Hn as [->|[->| ->]]; reflexivity).
    rewrite !E. rewrite N.compare_eq_iff. split; [|intros ->; reflexivity].
    apply of_le_inj; auto. congruence.
  - intros a b. unfold int_cmp. apply N.compare_antisym.
  - intros a b c. unfold int_cmp. rewrite !N.compare_lt_iff. lia.
Qed.
