(* Strategy/EmptyPutProofs.v — EmptyPut on a DUPSORT DBI: the resulting pair set. *)
From LS Require Import Base.Bytes Base.BytesProofs Base.Res Strategy.Model.
Open Scope N_scope.

Lemma pair_cmp_eq q p : pair_cmp q p = Eq -> q = p.
Proof.
  destruct q as [a b], p as [c d]. unfold pair_cmp. cbn [fst snd].
  destruct (bcmp a c) eqn:C; try discriminate. intros H. apply bcmp_eq in C, H. congruence.
Qed.

Lemma pins_in p d x : In x (pins p d) <-> x = p \/ In x d.
Proof.
  induction d as [|q d IH]; cbn [pins].
  - cbn. split; intros [H|H]; auto.
  - destruct (pair_cmp q p) eqn:C.
    + apply pair_cmp_eq in C. subst. cbn. split; [auto|]. intros [->|H]; auto.
    + cbn [In]. rewrite IH. split; intros H; firstorder.
    + cbn [In]. split; intros H; firstorder.
Qed.

Section EP.
  Variable E : Type.
  Variable key_of : E -> bytes.
  Variable merge : E -> bytes -> res bytes.

  Theorem do_put_empty_spec l : forall acc r,
    do_put_empty E key_of merge acc l = Ok r ->
    forall p, In p r <-> (In p acc \/ exists e, In e l /\ merge e [] = Ok (snd p) /\ snd p <> [] /\ fst p = key_of e).
  Proof.
    induction l as [|e l IH]; intros acc r H p.
    - cbn in H. injection H as <-. split; [auto|]. intros [H|(e & [] & _)]; exact H.
    - cbn [do_put_empty] in H. destruct (merge e []) as [v| | |] eqn:Em; try discriminate.
      destruct v as [|x v].
      + rewrite (IH _ _ H p). split.
        * intros [Hp|(e0 & He0 & Hm)]; [left; exact Hp|]. right. exists e0. split; [right; exact He0|exact Hm].
        * intros [Hp|(e0 & [<-|He0] & Hm & Hne & Hk)]; [left; exact Hp| |].
          -- rewrite Em in Hm. exfalso. apply Hne. congruence.
          -- right. exists e0. auto.
      + rewrite (IH _ _ H p). rewrite pins_in. split.
        * intros [[->|Hp]|(e0 & He0 & Hm)].
          -- right. exists e. cbn [fst snd]. split; [left; reflexivity|]. split; [exact Em|]. split; [discriminate|reflexivity].
          -- left. exact Hp.
          -- right. exists e0. split; [right; exact He0|exact Hm].
        * intros [Hp|(e0 & [<-|He0] & Hm & Hne & Hk)].
          -- left. right. exact Hp.
          -- left. left. destruct p as [pk pv]. cbn [fst snd] in *. rewrite Em in Hm. injection Hm as <-. subst. reflexivity.
          -- right. exists e0. auto.
  Qed.

  (* an error of any decision aborts (the transaction rolls back) *)
  Theorem do_put_empty_err l : forall acc x,
    do_put_empty E key_of merge acc l = Err x -> exists e, In e l /\ merge e [] = Err x.
  Proof.
    induction l as [|e l IH]; intros acc x H; [discriminate|].
    cbn [do_put_empty] in H. destruct (merge e []) as [v| | |] eqn:Em; try discriminate.
    - destruct v; destruct (IH _ _ H) as (e0 & He0 & Hm); exists e0; split; auto; right; exact He0.
    - injection H as <-. exists e. split; [left; reflexivity|exact Em].
  Qed.
End EP.
