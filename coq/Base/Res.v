(* Base/Res.v — results with error classes. [Panic] and [OutOfFuel] are never normal values:
   theorems exclude them explicitly. *)
Inductive err :=
| ETooShort      (* header.ErrTooShort *)
| EVersion       (* header.ErrVersion *)
| ENotSorted     (* strategy.ErrNotSorted *)
| ERefused       (* a gate refused the input (format/compat/transform/dupsort rules) *)
| EMalformed     (* protobuf decoding error *)
| ECancelled
| EOther.

Inductive res (A : Type) :=
| Ok (a : A)
| Err (e : err)
| Panic
| OutOfFuel.
Arguments Ok {A} a.
Arguments Err {A} e.
Arguments Panic {A}.
Arguments OutOfFuel {A}.

Definition bind {A B} (r : res A) (f : A -> res B) : res B :=
  match r with
  | Ok a => f a
  | Err e => Err e
  | Panic => Panic
  | OutOfFuel => OutOfFuel
  end.
Notation "'do' x <- r ; k" := (bind r (fun x => k)) (at level 200, x pattern, r at level 100, k at level 200).

Definition is_ok {A} (r : res A) : bool := match r with Ok _ => true | _ => false end.
