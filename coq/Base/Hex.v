(* Base/Hex.v — hex literals for the correspondence case files (lower-case hex, two digits per byte) *)
From Coq Require Import String Ascii NArith List.
From LS Require Import Base.Bytes.
Open Scope N_scope.
Definition hexv (c : ascii) : N := let n := N_of_ascii c in if n <? 58 then n - 48 else n - 87.
Fixpoint hex (s : string) : bytes :=
  match s with
  | String a (String b r) => (hexv a * 16 + hexv b) :: hex r
  | _ => nil
  end.
Arguments hex s%string.
