From LS Require Import Base.Bytes.
From Coq Require Import ZifyN ZifyNat ZifyBool.
Open Scope N_scope.

Ltac divmod_lia := Z.div_mod_to_equations; lia.
Ltac Zify.zify_post_hook ::= Z.div_mod_to_equations.
Ltac divmod_lia ::= lia.

Lemma bcmp_refl a : bcmp a a = Eq.
Proof. induction a as [|x a IH]; simpl; [reflexivity|]. rewrite N.compare_refl. exact IH. Qed.

Lemma bcmp_eq a b : bcmp a b = Eq -> a = b.
Proof.
  revert b; induction a as [|x a IH]; intros [|y b]; simpl; try discriminate; [reflexivity|].
  destruct (N.compare_spec x y) as [E|L|G]; try discriminate.
  intros H. subst. f_equal. apply IH, H.
Qed.

Lemma bcmp_eq_iff a b : bcmp a b = Eq <-> a = b.
Proof. split; [apply bcmp_eq|intros ->; apply bcmp_refl]. Qed.

Lemma bcmp_antisym a b : bcmp b a = CompOpp (bcmp a b).
Proof.
  revert b; induction a as [|x a IH]; intros [|y b]; simpl; try reflexivity.
  rewrite (N.compare_antisym x y).
  destruct (N.compare x y); simpl; auto.
Qed.

Lemma bcmp_lt_trans a b c : bcmp a b = Lt -> bcmp b c = Lt -> bcmp a c = Lt.
Proof.
  revert b c; induction a as [|x a IH]; intros [|y b] [|z c]; simpl; try discriminate; auto.
  destruct (N.compare_spec x y) as [E|L|G]; try discriminate.
  - subst y. destruct (N.compare_spec x z) as [E|L|G]; try discriminate; auto.
    intros; eapply IH; eauto.
  - intros _. destruct (N.compare_spec y z) as [E|L'|G]; try discriminate.
    + subst z. intros _. destruct (N.compare_spec x y); try lia; reflexivity.
    + intros _. destruct (N.compare_spec x z); try lia; reflexivity.
Qed.

Lemma bcmp_gt_lt a b : bcmp a b = Gt <-> bcmp b a = Lt.
Proof. rewrite (bcmp_antisym a b). destruct (bcmp a b); simpl; split; congruence. Qed.

Lemma beqb_bcmp a b : beqb a b = is_eq (bcmp a b).
Proof.
  revert b; induction a as [|x a IH]; intros [|y b]; simpl; try reflexivity.
  destruct (N.compare_spec x y) as [E|L|G].
  - subst. rewrite N.eqb_refl. simpl. apply IH.
  - assert (x =? y = false) as -> by lia. reflexivity.
  - assert (x =? y = false) as -> by lia. reflexivity.
Qed.

Lemma beqb_eq a b : beqb a b = true <-> a = b.
Proof. rewrite beqb_bcmp. rewrite <- bcmp_eq_iff. destruct (bcmp a b); simpl; split; congruence. Qed.

Lemma beqb_refl a : beqb a a = true.
Proof. apply beqb_eq; reflexivity. Qed.

Lemma beqb_false a b : beqb a b = false <-> a <> b.
Proof. rewrite <- beqb_eq. destruct (beqb a b); split; congruence. Qed.

Lemma wfbb_wfb b : wfbb b = true <-> wfb b.
Proof.
  unfold wfbb, wfb. rewrite forallb_forall, Forall_forall.
  split; intros H x Hx; specialize (H x Hx); lia.
Qed.

Lemma wfb_app a b : wfb (a ++ b) <-> wfb a /\ wfb b.
Proof. unfold wfb. apply Forall_app. Qed.

Lemma be_length k n : length (be k n) = k.
Proof. revert n; induction k as [|k IH]; intros n; simpl; [reflexivity|]. rewrite app_length, IH. simpl. lia. Qed.

Lemma le_length k n : length (le k n) = k.
Proof. revert n; induction k as [|k IH]; intros n; simpl; [reflexivity|]. rewrite IH. reflexivity. Qed.

Lemma be_wfb k n : wfb (be k n).
Proof.
  revert n; induction k as [|k IH]; intros n; simpl; [constructor|].
  apply wfb_app. split; [apply IH|]. repeat constructor. apply N.mod_lt. lia.
Qed.

Lemma le_wfb k n : wfb (le k n).
Proof.
  revert n; induction k as [|k IH]; intros n; simpl; constructor; [apply N.mod_lt; lia|apply IH].
Qed.

Lemma of_be_app l x : of_be (l ++ [x]) = of_be l * 256 + x.
Proof. unfold of_be. rewrite fold_left_app. reflexivity. Qed.

Lemma of_be_be k n : of_be (be k n) = n mod (256 ^ N.of_nat k).
Proof.
  revert n; induction k as [|k IH]; intros n.
  - simpl. rewrite N.mod_1_r. reflexivity.
  - cbn [be]. rewrite of_be_app, IH.
    replace (N.of_nat (S k)) with (N.succ (N.of_nat k)) by lia.
    rewrite N.pow_succ_r'.
    set (m := 256 ^ N.of_nat k).
    assert (Hm : m <> 0) by (apply N.pow_nonzero; lia).
    rewrite N.mod_mul_r by lia.
    lia.
Qed.

Lemma of_be_be_small k n : n < 256 ^ N.of_nat k -> of_be (be k n) = n.
Proof. intros H. rewrite of_be_be. apply N.mod_small, H. Qed.

Lemma of_le_le k n : of_le (le k n) = n mod (256 ^ N.of_nat k).
Proof.
  revert n; induction k as [|k IH]; intros n.
  - simpl. rewrite N.mod_1_r. reflexivity.
  - cbn [le of_le]. rewrite IH.
    replace (N.of_nat (S k)) with (N.succ (N.of_nat k)) by lia.
    rewrite N.pow_succ_r'.
    set (m := 256 ^ N.of_nat k).
    assert (Hm : m <> 0) by (apply N.pow_nonzero; lia).
    rewrite N.mod_mul_r by lia. lia.
Qed.

(* be is injective on lists of the right length: be k (of_be l) = l for wf l of length k *)
Lemma be_of_be l : wfb l -> be (length l) (of_be l) = l.
Proof.
  induction l as [|x l IH] using rev_ind; intros Hw; [reflexivity|].
  apply wfb_app in Hw. destruct Hw as [Hl Hx]. inversion Hx as [|? ? Hx256 _]; subst.
  rewrite app_length. simpl. replace (length l + 1)%nat with (S (length l)) by lia.
  cbn [be]. rewrite of_be_app.
  replace ((of_be l * 256 + x) / 256) with (of_be l) by divmod_lia.
  replace ((of_be l * 256 + x) mod 256) with x by divmod_lia.
  rewrite IH by assumption. reflexivity.
Qed.

Lemma of_be_bound l : wfb l -> of_be l < 256 ^ N.of_nat (length l).
Proof.
  induction l as [|x l IH] using rev_ind; intros Hw; [reflexivity|].
  apply wfb_app in Hw. destruct Hw as [Hl Hx]. inversion Hx as [|? ? Hx256 _]; subst.
  rewrite of_be_app, app_length. cbn [length].
  replace (N.of_nat (length l + 1)) with (N.succ (N.of_nat (length l))) by lia.
  rewrite N.pow_succ_r'. specialize (IH Hl).
  set (m := 256 ^ N.of_nat (length l)) in *. clearbody m. lia.
Qed.

Lemma wfb_firstn n l : wfb l -> wfb (firstn n l).
Proof. intros H. rewrite <- (firstn_skipn n l) in H. apply wfb_app in H. tauto. Qed.
Lemma wfb_skipn n l : wfb l -> wfb (skipn n l).
Proof. intros H. rewrite <- (firstn_skipn n l) in H. apply wfb_app in H. tauto. Qed.

Lemma be_of_be_len k l : wfb l -> length l = k -> be k (of_be l) = l.
Proof. intros Hw <-. apply be_of_be, Hw. Qed.

Lemma skipn_skipn {A} (a b : nat) (l : list A) : skipn a (skipn b l) = skipn (a + b) l.
Proof.
  revert l; induction b as [|b IH]; intros l.
  - rewrite Nat.add_0_r. reflexivity.
  - destruct l as [|x l]; [rewrite !skipn_nil; reflexivity|].
    replace (a + S b)%nat with (S (a + b)) by lia. cbn [skipn]. apply IH.
Qed.

Lemma nth_skipn' {A} (k n : nat) (l : list A) d : nth k (skipn n l) d = nth (n + k) l d.
Proof.
  revert l; induction n as [|n IH]; intros l; [reflexivity|].
  destruct l as [|x l]; [destruct k; reflexivity|]. cbn [skipn plus nth]. apply IH.
Qed.
