(* Base/Bytes.v — byte strings as lists of N, Go's bytes.Compare, fixed-width integers.
   A byte string is well formed ([wfb]) when every element is < 256. *)
From Coq Require Export List NArith ZArith Bool Lia.
From Coq Require Import ZifyN ZifyNat ZifyBool.
Export ListNotations.
Open Scope N_scope.

Definition bytes := list N.

Definition wfb (b : bytes) : Prop := Forall (fun x => x < 256) b.
Definition wfbb (b : bytes) : bool := forallb (fun x => x <? 256) b.

(* Go: bytes.Compare *)
Fixpoint bcmp (a b : bytes) : comparison :=
  match a, b with
  | [], [] => Eq
  | [], _ :: _ => Lt
  | _ :: _, [] => Gt
  | x :: a', y :: b' =>
      match N.compare x y with
      | Eq => bcmp a' b'
      | c => c
      end
  end.

(* Go: bytes.Equal *)
Fixpoint beqb (a b : bytes) : bool :=
  match a, b with
  | [], [] => true
  | x :: a', y :: b' => (x =? y) && beqb a' b'
  | _, _ => false
  end.

Definition lenN (b : bytes) : N := N.of_nat (length b).

(* big-endian, k bytes *)
Fixpoint be (k : nat) (n : N) : bytes :=
  match k with
  | O => []
  | S k' => be k' (n / 256) ++ [n mod 256]
  end.
Definition of_be (l : bytes) : N := fold_left (fun acc b => acc * 256 + b) l 0.

(* little-endian, k bytes *)
Fixpoint le (k : nat) (n : N) : bytes :=
  match k with
  | O => []
  | S k' => (n mod 256) :: le k' (n / 256)
  end.
Fixpoint of_le (l : bytes) : N :=
  match l with
  | [] => 0
  | b :: l' => b + 256 * of_le l'
  end.

Definition be64 := be 8.
Definition be16 := be 2.
Definition le64 := le 8.

(* Go integer conversions *)
Definition two64 : N := 18446744073709551616.
Definition two63 : N := 9223372036854775808.
Definition to_int64 (v : N) : Z := if v <? two63 then Z.of_N v else (Z.of_N v - Z.of_N two64)%Z.
Definition to_uint64 (z : Z) : N := Z.to_N (z mod (Z.of_N two64))%Z.

Definition is_lt (c : comparison) : bool := match c with Lt => true | _ => false end.
Definition is_eq (c : comparison) : bool := match c with Eq => true | _ => false end.
Definition is_gt (c : comparison) : bool := match c with Gt => true | _ => false end.

