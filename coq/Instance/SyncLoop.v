(* Instance/SyncLoop.v — the sync loop of one instance as an executable, schedule-driven machine.
   Mirrors syncer/sync.go syncLoop (start-up, the load loop, the upload check), LoadOnce/SendOnce around their
   transactions (the txn-id adjustment after env.Info(), the Store retry loop, lastByInstance / SetCommitted).
   The environment acts at the YIELD POINTS, which are exactly the boundaries between the loop's own atomic
   steps (LMDB transactions, env.Info() calls, Store calls): the hooks s.verifYield("<point>") in /repo
   (build tag verif) mark the same places, so a schedule of this model can be replayed on the real loop.
   Scope of this machine: bucket empty at start-up (remote snapshots arrive through the update source),
   cleaner/sweeper/forced snapshots disabled, cancellation at the idle sleep.  No proofs here. *)
From LS Require Import Base.Bytes Base.Res Merge.Model Strategy.Model Shadow.Model Instance.Model.
Open Scope N_scope.

(* yield points *)
Definition P_boot_capture : N := 1.  Definition P_boot_send : N := 2.   Definition P_loop_top : N := 3.
Definition P_load_begin : N := 4.    Definition P_load_after_txn : N := 5. Definition P_load_end : N := 6.
Definition P_check_info : N := 7.    Definition P_send_begin : N := 8.  Definition P_send_after_txn : N := 9.
Definition P_send_before_store : N := 10. Definition P_send_end : N := 11. Definition P_loop_sleep : N := 12.

(* one application write: DBI name, DBI flags (used when the DBI is created), key, value (None = delete) *)
Record appop := mkOp { o_dbi : bytes; o_flags : N; o_key : bytes; o_val : option bytes }.

Record update := mkUpd { u_inst : bytes; u_ts : N; u_snap : snapshot }.

Inductive action :=
| AApp (ops : list appop)      (* the application commits one transaction *)
| AInject (u : update)         (* a remote snapshot becomes available to r.Next() *)
| AFailStores (k : N)          (* the next k Store calls fail *)
| ACancel.                     (* the context is cancelled *)

Inductive titem :=
| TYield (point last : N)                              (* a yield point was reached; LastTxnID there *)
| TStore (ok : bool) (ts id : N) (ds : list sdbi)      (* a Store call: name timestamp, meta txn id, content *)
| TExit (cls : N).                                     (* the loop returned: 0 = stopped by the schedule, else error class *)

Record lstate := mkL {
  l_env : env;
  l_acts : list (list action);   (* actions to perform at the 1st, 2nd, ... yield *)
  l_yi : N;                      (* yields so far *)
  l_clock0 : N;                  (* clock = l_clock0 + 1000 * yields so far *)
  l_pending : list update;
  l_fail : N;                    (* Store calls still to fail *)
  l_cancel : bool;
  l_synced : N;                  (* lastSyncedTxnID *)
  l_last_by : list (bytes * N);  (* lastByInstance *)
  l_committed : list (bytes * N);(* what the cleaner was told (SetCommitted) *)
  l_stores : list (N * N * list sdbi);  (* successful uploads, newest first *)
  l_trace : list titem           (* newest first *)
}.

Definition now_of (s : lstate) : N := l_clock0 s + 1000 * l_yi s.

(* the application's transaction on the environment: puts/deletes, DBIs created on demand; always recorded
   (the harness only commits transactions that write something) *)
Definition apply_op (ds : dbis) (o : appop) : dbis :=
  let d := match find_dbi ds (o_dbi o) with Some d => d | None => mkDbi (o_flags o) [] end in
  let cmp := dbi_cmp (d_flags d) in
  let data := match o_val o with
              | Some v => if has_flag (d_flags d) DupSortFlag then pins (o_key o, v) (d_data d) else dput cmp (d_data d) (o_key o) v
              | None => ddel cmp (d_data d) (o_key o)
              end in
  set_dbi ds (o_dbi o) (mkDbi (d_flags d) data).
Definition app_commit (e : env) (ops : list appop) : env :=
  mkEnv (fold_left apply_op ops (e_dbis e)) (e_last e + 1).

Definition do_action (s : lstate) (a : action) : lstate :=
  match a with
  | AApp ops => mkL (app_commit (l_env s) ops) (l_acts s) (l_yi s) (l_clock0 s) (l_pending s) (l_fail s) (l_cancel s)
                    (l_synced s) (l_last_by s) (l_committed s) (l_stores s) (l_trace s)
  | AInject u => mkL (l_env s) (l_acts s) (l_yi s) (l_clock0 s) (l_pending s ++ [u]) (l_fail s) (l_cancel s)
                    (l_synced s) (l_last_by s) (l_committed s) (l_stores s) (l_trace s)
  | AFailStores k => mkL (l_env s) (l_acts s) (l_yi s) (l_clock0 s) (l_pending s) (l_fail s + k) (l_cancel s)
                    (l_synced s) (l_last_by s) (l_committed s) (l_stores s) (l_trace s)
  | ACancel => mkL (l_env s) (l_acts s) (l_yi s) (l_clock0 s) (l_pending s) (l_fail s) true
                    (l_synced s) (l_last_by s) (l_committed s) (l_stores s) (l_trace s)
  end.

(* reach a yield point: log it, advance the clock, let the environment act *)
Definition yield (p : N) (s : lstate) : lstate :=
  let tr := TYield p (e_last (l_env s)) :: l_trace s in
  let '(acts_now, rest) := match l_acts s with [] => ([], []) | a :: r => (a, r) end in
  let s1 := mkL (l_env s) rest (l_yi s + 1) (l_clock0 s) (l_pending s) (l_fail s) (l_cancel s)
                (l_synced s) (l_last_by s) (l_committed s) (l_stores s) tr in
  fold_left do_action acts_now s1.

Definition set_env (s : lstate) (e : env) : lstate :=
  mkL e (l_acts s) (l_yi s) (l_clock0 s) (l_pending s) (l_fail s) (l_cancel s) (l_synced s) (l_last_by s) (l_committed s) (l_stores s) (l_trace s).
Definition set_synced (s : lstate) (n : N) : lstate :=
  mkL (l_env s) (l_acts s) (l_yi s) (l_clock0 s) (l_pending s) (l_fail s) (l_cancel s) n (l_last_by s) (l_committed s) (l_stores s) (l_trace s).
Definition log (s : lstate) (t : titem) : lstate :=
  mkL (l_env s) (l_acts s) (l_yi s) (l_clock0 s) (l_pending s) (l_fail s) (l_cancel s) (l_synced s) (l_last_by s) (l_committed s) (l_stores s) (t :: l_trace s).

Fixpoint assoc_set (l : list (bytes * N)) (k : bytes) (v : N) : list (bytes * N) :=
  match l with
  | [] => [(k, v)]
  | (k0, v0) :: l' => if beqb k0 k then (k, v) :: l' else (k0, v0) :: assoc_set l' k v
  end.

Definition StorageRetryCount : nat := 3.

(* Go: the Store retry loop of SendOnce *)
Fixpoint store_loop (tries : nat) (s : lstate) (ts id : N) (ds : list sdbi) : lstate * bool :=
  match tries with
  | O => (s, false)
  | S t =>
      if 0 <? l_fail s then
        let s1 := mkL (l_env s) (l_acts s) (l_yi s) (l_clock0 s) (l_pending s) (l_fail s - 1) (l_cancel s)
                      (l_synced s) (l_last_by s) (l_committed s) (l_stores s) (TStore false ts id ds :: l_trace s) in
        store_loop t s1 ts id ds
      else
        (mkL (l_env s) (l_acts s) (l_yi s) (l_clock0 s) (l_pending s) (l_fail s) (l_cancel s)
             (l_synced s) (l_last_by s) (l_committed s) ((ts, id, ds) :: l_stores s) (TStore true ts id ds :: l_trace s), true)
  end.

(* Go: SendOnce. Returns the state and Some id, or None after logging the exit *)
Definition send_once (c : icfg) (s : lstate) : lstate * option N :=
  let s := yield P_send_begin s in
  let now := now_of s in
  match send_txn c (l_env s) now 0 with
  | Ok (e', T, ds) =>
      let s := set_env s e' in
      let s := yield P_send_after_txn s in
      let id := adjust_id T (e_last (l_env s)) in
      if i_receive_only c then (s, Some id)
      else
        let s := yield P_send_before_store s in
        let '(s, ok) := store_loop StorageRetryCount s now id ds in
        if ok then
          let s := yield P_send_end s in
          (mkL (l_env s) (l_acts s) (l_yi s) (l_clock0 s) (l_pending s) (l_fail s) (l_cancel s)
               (l_synced s) (l_last_by s) (l_last_by s) (l_stores s) (l_trace s), Some id)
        else (log s (TExit 7), None)
  | Err x => (log s (TExit (match x with ETooShort => 1 | EVersion => 2 | ENotSorted => 3 | ERefused => 4 | EMalformed => 5 | ECancelled => 6 | EOther => 7 end)), None)
  | _ => (log s (TExit 99), None)
  end.

(* Go: LoadOnce. Returns the state and Some (id, localChanged), or None after logging the exit *)
Definition load_once (c : icfg) (s : lstate) (u : update) : lstate * option (N * bool) :=
  let s := yield P_load_begin s in
  let now := now_of s in
  match load_txn c (l_env s) (u_snap u) (l_synced s) now 0 with
  | Ok (e', T, lc) =>
      let s := set_env s e' in
      let s := yield P_load_after_txn s in
      let id := adjust_id T (e_last (l_env s)) in
      let s := yield P_load_end s in
      (mkL (l_env s) (l_acts s) (l_yi s) (l_clock0 s) (l_pending s) (l_fail s) (l_cancel s)
           (l_synced s) (assoc_set (l_last_by s) (u_inst u) (u_ts u)) (l_committed s) (l_stores s) (l_trace s),
       Some (id, lc))
  | Err x => (log s (TExit (match x with ETooShort => 1 | EVersion => 2 | ENotSorted => 3 | ERefused => 4 | EMalformed => 5 | ECancelled => 6 | EOther => 7 end)), None)
  | _ => (log s (TExit 99), None)
  end.

Definition MaxConsecutiveSnapshotLoads : nat := 10.

(* Go: loadReadySnapshotsLoop *)
Fixpoint load_loop (fuel : nat) (c : icfg) (s : lstate) (nloads : nat) : lstate * bool (* false = loop exited *) :=
  match fuel with
  | O => (log s (TExit 98), false)
  | S f =>
      match l_pending s with
      | [] => (s, true)
      | u :: rest =>
          let s := mkL (l_env s) (l_acts s) (l_yi s) (l_clock0 s) rest (l_fail s) (l_cancel s)
                       (l_synced s) (l_last_by s) (l_committed s) (l_stores s) (l_trace s) in
          let nloads := S nloads in
          match load_once c s u with
          | (s, Some (id, lc)) =>
              let s := if lc then s else set_synced s id in
              if lc && Nat.ltb MaxConsecutiveSnapshotLoads nloads then (s, true)
              else load_loop f c s nloads
          | (s, None) => (s, false)
          end
      end
  end.

(* Go: the body of the outer loop, one iteration; false = the loop returned *)
Definition loop_iter (fuel : nat) (c : icfg) (has_data : bool) (s : lstate) : lstate * bool :=
  let s := yield P_loop_top s in
  match load_loop fuel c s 0 with
  | (s, false) => (s, false)
  | (s, true) =>
      let s := yield P_check_info s in
      let L := e_last (l_env s) in
      let '(s, alive) :=
        if l_synced s <? L then
          let s := set_synced s L in
          if has_data || (0 <? L) then
            match send_once c s with
            | (s, Some id) => (set_synced s id, true)
            | (s, None) => (s, false)
            end
          else (s, true)
        else (s, true) in
      if alive then
        let stop := match l_acts s with [] => true | _ => false end in
        let s := yield P_loop_sleep s in
        if l_cancel s || stop then (log s (TExit 0), false)   (* the context is cancelled: SleepContext returns *)
        else (s, true)
      else (s, false)
  end.

Fixpoint outer_loop (fuel : nat) (c : icfg) (has_data : bool) (s : lstate) : lstate :=
  match fuel with
  | O => log s (TExit 98)
  | S f => match loop_iter (S f) c has_data s with
           | (s, true) => outer_loop f c has_data s
           | (s, false) => s
           end
  end.

(* Go: syncLoop from the top (bucket empty: no snapshots, nobody to wait for) *)
Definition sync_loop (fuel : nat) (c : icfg) (s : lstate) : lstate :=
  let has_data := 0 <? e_last (l_env s) in
  (* start-up capture in shadow mode, timestamp 1 *)
  let r1 : lstate * bool :=
    if has_data && negb (i_native c) then
      let s := yield P_boot_capture s in
      let T := e_last (l_env s) + 1 in
      match main_to_shadow_all c 1 T 0 (e_dbis (l_env s), false) with
      | Ok st => (set_env s (mkEnv (fst st) (if snd st then T else e_last (l_env s))), true)
      | _ => (log s (TExit 7), false)
      end
    else (s, true) in
  match r1 with
  | (s, false) => s
  | (s, true) =>
      let r2 : lstate * bool :=
        if has_data then
          let s := yield P_boot_send s in
          match send_once c s with
          | (s, Some id) => (set_synced s id, true)
          | (s, None) => (s, false)
          end
        else (s, true) in
      match r2 with
      | (s, false) => s
      | (s, true) => outer_loop fuel c has_data s
      end
  end.

Definition init_state (e : env) (acts : list (list action)) (clock0 : N) : lstate :=
  mkL e acts 0 clock0 [] 0 false 0 [] [] [] [].

Definition run (c : icfg) (e : env) (acts : list (list action)) (clock0 : N) : lstate :=
  sync_loop (4 * length acts + 20) c (init_state e acts clock0).
