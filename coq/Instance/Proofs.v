(* Instance/Proofs.v — properties of Lightning Stream's two transactions (LoadOnce, SendOnce). *)
From LS Require Import Base.Bytes Base.BytesProofs Base.Res Header.Model Merge.Model Merge.Version Merge.Proofs
  Strategy.Model Strategy.Order Strategy.Proofs DupSort.Model Shadow.Model Instance.Model.
From Coq Require Import ZifyN ZifyNat ZifyBool.
Open Scope N_scope.

(* ---------- all-or-nothing: errors propagate, nothing continues after a failure ---------- *)

Lemma load_dbis_app c fmt compat T cutoff ds1 ds2 st :
  load_dbis c fmt compat T cutoff (ds1 ++ ds2) st =
  match load_dbis c fmt compat T cutoff ds1 st with
  | Ok st1 => load_dbis c fmt compat T cutoff ds2 st1
  | Err x => Err x | Panic => Panic | OutOfFuel => OutOfFuel
  end.
Proof.
  revert st. induction ds1 as [|d ds1 IH]; intros st; [reflexivity|].
  cbn [app load_dbis]. destruct (load_one c fmt compat T cutoff d st); try reflexivity. apply IH.
Qed.

(* a failure in ANY DBI of the snapshot, at any position, makes the whole per-DBI loop fail *)
Theorem load_dbis_fails c fmt compat T cutoff ds1 d ds2 st st1 x :
  load_dbis c fmt compat T cutoff ds1 st = Ok st1 ->
  load_one c fmt compat T cutoff d st1 = Err x ->
  load_dbis c fmt compat T cutoff (ds1 ++ d :: ds2) st = Err x.
Proof.
  intros H1 H2. rewrite load_dbis_app, H1. cbn [load_dbis]. rewrite H2. reflexivity.
Qed.

(* ... and so does the transaction: load_txn is Err, and the caller keeps the old environment *)
Theorem load_txn_fails_in_dbis c e s ls now cutoff st0 x :
  new_native_iterator (sn_fmt s) (sn_compat s) (e_last e + 1) = Ok tt ->
  (if negb (i_native c) && (ls <? e_last e + 1 - 1)
   then main_to_shadow_all c now (e_last e + 1) cutoff (e_dbis e, false) else Ok (e_dbis e, false)) = Ok st0 ->
  load_dbis c (sn_fmt s) (sn_compat s) (e_last e + 1) cutoff (sn_dbis s) st0 = Err x ->
  load_txn c e s ls now cutoff = Err x.
Proof.
  intros Hg H0 H1. unfold load_txn. rewrite Hg, H0, H1. reflexivity.
Qed.

(* ---------- version gates ---------- *)

Theorem version_gate c e s ls now cutoff :
  sn_fmt s = 0 \/ 3 < sn_compat s -> load_txn c e s ls now cutoff = Err ERefused.
Proof.
  intros H. unfold load_txn, new_native_iterator.
  destruct H as [H|H].
  - rewrite H. reflexivity.
  - destruct (sn_fmt s =? 0); [reflexivity|].
    replace (CurrentFormatVersion <? sn_compat s) with true by (unfold CurrentFormatVersion; lia). reflexivity.
Qed.

(* every still-supported version passes the gate *)
Theorem version_gate_ok fmt compat T :
  1 <= fmt -> compat <= 3 -> T <> 0 -> new_native_iterator fmt compat T = Ok tt.
Proof.
  intros H1 H2 H3. unfold new_native_iterator, CurrentFormatVersion, CompatFormatVersion.
  replace (fmt =? 0) with false by lia. replace (3 <? compat) with false by lia.
  replace (fmt <? 1) with false by lia. replace (T =? 0) with false by lia. reflexivity.
Qed.

(* ---------- private DBIs in a snapshot are ignored ---------- *)
Theorem private_skipped c fmt compat T cutoff d st :
  has_prefix sync_prefix (sd_name d) = true -> load_one c fmt compat T cutoff d st = Ok st.
Proof. intros H. unfold load_one. rewrite H. reflexivity. Qed.

(* ---------- transforms ---------- *)
Theorem transform_rules fmt native d :
  validate_transform fmt native d = Ok tt <->
  ((sd_transform d = [] \/ sd_transform d = transform_dupsort) /\
   (native = true -> sd_transform d = []) /\
   (3 <= fmt -> (has_flag (sd_flags d) DupSortFlag = true <-> sd_transform d = transform_dupsort))).
Proof.
  unfold validate_transform.
  destruct (beqb (sd_transform d) []) eqn:E1; destruct (beqb (sd_transform d) transform_dupsort) eqn:E2.
  - apply beqb_eq in E1, E2. rewrite E1 in E2. discriminate.
  - apply beqb_eq in E1. apply beqb_false in E2. cbn [orb negb andb].
    destruct native; cbn [andb negb].
    + destruct (3 <=? fmt) eqn:E3.
      * destruct (has_flag (sd_flags d) DupSortFlag) eqn:E4; cbn [andb negb].
        -- split; [discriminate|]. intros (_ & _ & H). exfalso. apply E2. apply H; [lia|reflexivity].
        -- split; [|reflexivity]. intros _. split; [left; exact E1|]. split; [auto|].
           intros _. split; [discriminate|]. intros H. contradiction.
      * split; [|reflexivity]. intros _. split; [left; exact E1|]. split; [auto|]. intros H. lia.
    + destruct (3 <=? fmt) eqn:E3.
      * destruct (has_flag (sd_flags d) DupSortFlag) eqn:E4; cbn [andb negb].
        -- split; [discriminate|]. intros (_ & _ & H). exfalso. apply E2. apply H; [lia|reflexivity].
        -- split; [|reflexivity]. intros _. split; [left; exact E1|]. split; [discriminate|].
           intros _. split; [discriminate|]. intros H. contradiction.
      * split; [|reflexivity]. intros _. split; [left; exact E1|]. split; [discriminate|]. intros H. lia.
  - apply beqb_eq in E2. apply beqb_false in E1. cbn [orb negb andb].
    destruct native; cbn [andb negb].
    + split; [discriminate|]. intros (_ & H & _). exfalso. apply E1. apply H. reflexivity.
    + destruct (3 <=? fmt) eqn:E3.
      * destruct (has_flag (sd_flags d) DupSortFlag) eqn:E4; cbn [andb negb].
        -- split; [|reflexivity]. intros _. split; [right; exact E2|]. split; [discriminate|].
           intros _. split; auto.
        -- split; [discriminate|]. intros (_ & _ & H). assert (false = true) by (apply H; [lia|exact E2]). discriminate.
      * split; [|reflexivity]. intros _. split; [right; exact E2|]. split; [discriminate|]. intros H. lia.
  - apply beqb_false in E1, E2. cbn [orb negb]. split; [discriminate|]. intros ([H|H] & _); contradiction.
Qed.

(* ---------- version 1: an empty value denotes a deletion ---------- *)
Theorem v1_empty_is_delete c e : c_fmt c = 1 -> k_val e = [] -> del (norm c e) = true.
Proof.
  intros Hf Hv. cbn [norm del]. unfold new_deleted. rewrite Hf, Hv. cbn. apply orb_true_r.
Qed.
Theorem v2_flags c e : 2 <= c_fmt c -> del (norm c e) = is_deleted (masked_flags e).
Proof.
  intros Hf. cbn [norm del]. unfold new_deleted. replace (c_fmt c <? 2) with false by lia.
  rewrite andb_false_r, orb_false_r. reflexivity.
Qed.

(* ---------- the dump (C06) ---------- *)

(* read_hdr: one entry per stored pair, in order, with exactly key / application value / timestamp / synced flags *)
Lemma read_hdr_spec d l :
  read_hdr d = Ok l ->
  Forall2 (fun p e => exists h, parse (snd p) = Ok (h, k_val e) /\ k_key e = fst p /\
                               k_ts e = h_ts h /\ k_flags e = masked (h_flags h)) d l.
Proof.
  revert l. induction d as [|[k v] d IH]; intros l H; cbn [read_hdr] in H.
  - injection H as <-. constructor.
  - destruct (parse v) as [[h app]| | |] eqn:Ep; try discriminate.
    destruct (read_hdr d) as [r| | |] eqn:Er; try discriminate. injection H as <-.
    constructor; [|apply IH; reflexivity]. exists h. cbn. auto.
Qed.

(* the names that are dumped: every DBI that is not private, in name order *)
Definition public_names (ds : dbis) : list bytes :=
  filter (fun n => negb (has_prefix sync_prefix n)) (dbi_names ds).

Lemma dump_loop_names c ds names r :
  dump_loop c ds names = Ok r ->
  map sd_name r = filter (fun n => negb (has_prefix sync_prefix n)) names.
Proof.
  revert r. induction names as [|n names IH]; intros r H; cbn [dump_loop] in H.
  - injection H as <-. reflexivity.
  - cbn [filter]. destruct (has_prefix sync_prefix n) eqn:Ep; cbn [negb].
    + apply IH, H.
    + destruct (find_dbi ds n) as [m|]; try discriminate.
      destruct (if i_native c then Some m else find_dbi ds (shadow_prefix ++ n)) as [s|]; try discriminate.
      destruct (dump_dbi c n (d_flags m) (d_data s)) as [sd| | |] eqn:Ed; try discriminate.
      destruct (i_cancelled c); try discriminate.
      destruct (dump_loop c ds names) as [r'| | |] eqn:Er; try discriminate. injection H as <-.
      cbn [map]. f_equal; [|apply IH; reflexivity].
      unfold dump_dbi in Ed. destruct (_ && _); try discriminate.
      destruct (read_hdr (d_data s)); try discriminate. injection Ed as <-. reflexivity.
Qed.

(* every dumped DBI: name, the flags of the APPLICATION DBI, the transform iff DUPSORT, and the entries of
   the source DBI (the DBI itself in native mode, its shadow otherwise) *)
Lemma dump_loop_content c ds names r :
  dump_loop c ds names = Ok r ->
  Forall (fun sd => exists m s,
            find_dbi ds (sd_name sd) = Some m /\
            (if i_native c then Some m else find_dbi ds (shadow_prefix ++ sd_name sd)) = Some s /\
            sd_flags sd = d_flags m /\
            sd_transform sd = (if has_flag (d_flags m) DupSortFlag then transform_dupsort else []) /\
            read_hdr (d_data s) = Ok (sd_entries sd)) r.
Proof.
  revert r. induction names as [|n names IH]; intros r H; cbn [dump_loop] in H.
  - injection H as <-. constructor.
  - destruct (has_prefix sync_prefix n); [apply IH, H|].
    destruct (find_dbi ds n) as [m|] eqn:Em; try discriminate.
    destruct (if i_native c then Some m else find_dbi ds (shadow_prefix ++ n)) as [s|] eqn:Es; try discriminate.
    destruct (dump_dbi c n (d_flags m) (d_data s)) as [sd| | |] eqn:Ed; try discriminate.
    destruct (i_cancelled c); try discriminate.
    destruct (dump_loop c ds names) as [r'| | |] eqn:Er; try discriminate. injection H as <-.
    constructor; [|apply IH; reflexivity].
    unfold dump_dbi in Ed. destruct (_ && _); try discriminate.
    destruct (read_hdr (d_data s)) as [l| | |] eqn:Eh; try discriminate. injection Ed as <-.
    cbn [sd_name sd_flags sd_transform sd_entries]. exists m, s. auto.
Qed.

(* native mode: the dump is taken in a read transaction — the environment is unchanged and the id is last *)
Theorem send_native_readonly c e now cutoff e' T ds :
  i_native c = true -> send_txn c e now cutoff = Ok (e', T, ds) -> e' = e /\ T = e_last e.
Proof.
  intros Hn H. unfold send_txn in H. rewrite Hn in H.
  destruct (if i_receive_only c then Ok [] else dump_loop c (e_dbis e) (dbi_names (e_dbis e))); try discriminate.
  injection H as <- <- _. auto.
Qed.

(* receive-only: nothing is dumped *)
Theorem send_receive_only c e now cutoff e' T ds :
  i_receive_only c = true -> send_txn c e now cutoff = Ok (e', T, ds) -> ds = [].
Proof.
  intros Hr H. unfold send_txn in H. rewrite Hr in H.
  destruct (i_native c).
  - injection H as _ _ <-. reflexivity.
  - destruct (main_to_shadow_all c now (e_last e + 1) cutoff (e_dbis e, false)); try discriminate.
    injection H as _ _ <-. reflexivity.
Qed.

(* ---------- quiescence: merging nothing newer commits nothing (C10) ---------- *)

Lemma update_noop cmp (E : Type) (key_of : E -> bytes) (merge : E -> bytes -> res bytes) d l :
  (forall e, In e l -> dget cmp d (key_of e) <> [] /\ merge e (dget cmp d (key_of e)) = Ok (dget cmp d (key_of e))) ->
  update cmp E key_of merge d l = Ok d.
Proof.
  induction l as [|e l IH]; intros H; [reflexivity|].
  cbn [update]. destruct (H e (or_introl eq_refl)) as [Hne Hm]. rewrite Hm.
  unfold set_new_val. destruct (dget cmp d (key_of e)) as [|x v] eqn:Eg; [congruence|].
  rewrite beqb_refl. apply IH. intros e0 He0. apply H. right; exact He0.
Qed.

Lemma db_eqb_refl d : db_eqb d d = true.
Proof. induction d as [|[k v] d IH]; [reflexivity|]. cbn. rewrite !beqb_refl, IH. reflexivity. Qed.

Definition dbis_sorted (ds : dbis) : Prop := Sorted.StronglySorted (fun a b => bcmp a b = Lt) (map fst ds).

Lemma set_dbi_same ds name t : dbis_sorted ds -> find_dbi ds name = Some t -> set_dbi ds name t = ds.
Proof.
  unfold dbis_sorted. induction ds as [|[n d0] ds IH]; intros Hs Hf; [discriminate|].
  cbn [find_dbi] in Hf. cbn [set_dbi]. cbn [map fst] in Hs. inversion Hs as [|? ? Hs' Hall]; subst.
  destruct (beqb n name) eqn:En.
  - apply beqb_eq in En. subst. injection Hf as <-. rewrite bcmp_refl. reflexivity.
  - (* name occurs later, so n < name *)
    assert (Hin : In name (map fst ds)).
    { clear -Hf. induction ds as [|[n1 d1] ds IH]; [discriminate|]. cbn [find_dbi] in Hf.
      destruct (beqb n1 name) eqn:E; [apply beqb_eq in E; left; exact E|right; apply IH, Hf]. }
    rewrite (proj1 (Forall_forall _ _) Hall name Hin). rewrite IH; auto.
Qed.

(* an entry that does not win against what is stored *)
Definition loses (c : iter_cfg) (d : db) (cmp : bytes -> bytes -> comparison) (e : kv) : Prop :=
  exists h app, dget cmp d (k_key e) <> [] /\ parse (dget cmp d (k_key e)) = Ok (h, app) /\
    wins (norm c e) (mkVer (h_ts h) (is_deleted (h_flags h)) app) = false.

(* native mode: a snapshot DBI whose entries all lose leaves the transaction state untouched *)
Theorem load_one_noop_native c fmt compat T cutoff d st t :
  i_native c = true -> i_cancelled c = false -> dbis_sorted (fst st) ->
  has_prefix sync_prefix (sd_name d) = false ->
  validate_transform fmt true d = Ok tt ->
  new_native_iterator fmt compat T = Ok tt ->
  find_dbi (fst st) (sd_name d) = Some t ->
  (forall e, In e (sd_entries d) -> loses (mkCfg fmt 0 T (i_padding c) cutoff) (d_data t) (dbi_cmp (d_flags t)) e) ->
  load_one c fmt compat T cutoff d st = Ok st.
Proof.
  intros Hn Hnc Hs Hp Hv Hg Hf Hl. unfold load_one. rewrite Hp, Hn, Hv, Hf, Hg.
  rewrite (update_noop (dbi_cmp (d_flags t)) kv k_key _ (d_data t) (sd_entries d)).
  - rewrite Hnc, db_eqb_refl. cbn [negb]. rewrite !orb_false_r.
    destruct t as [tf td]. cbn [d_flags d_data]. rewrite (set_dbi_same (fst st) (sd_name d) (mkDbi tf td) Hs Hf).
    destruct st; reflexivity.
  - intros e He. destruct (Hl e He) as (h & app & Hne & Hp' & Hw). split; [exact Hne|].
    apply (merge_bytes_untouched _ _ h app); auto.
Qed.

Theorem load_dbis_noop_native c fmt compat T cutoff ds st :
  i_native c = true -> i_cancelled c = false -> dbis_sorted (fst st) ->
  new_native_iterator fmt compat T = Ok tt ->
  (forall d, In d ds ->
     has_prefix sync_prefix (sd_name d) = true \/
     (has_prefix sync_prefix (sd_name d) = false /\ validate_transform fmt true d = Ok tt /\
      exists t, find_dbi (fst st) (sd_name d) = Some t /\
        forall e, In e (sd_entries d) -> loses (mkCfg fmt 0 T (i_padding c) cutoff) (d_data t) (dbi_cmp (d_flags t)) e)) ->
  load_dbis c fmt compat T cutoff ds st = Ok st.
Proof.
  intros Hn Hnc Hs Hg. induction ds as [|d ds IH]; intros H; [reflexivity|].
  cbn [load_dbis]. destruct (H d (or_introl eq_refl)) as [Hp|(Hp & Hv & t & Hf & Hl)].
  - rewrite private_skipped by exact Hp. apply IH. intros d0 Hd0. apply H. right; exact Hd0.
  - rewrite (load_one_noop_native c fmt compat T cutoff d st t); auto.
    apply IH. intros d0 Hd0. apply H. right; exact Hd0.
Qed.

(* the whole transaction: no commit (LastTxnID unchanged), and the id handed back to the loop is LastTxnID,
   so the following upload check finds nothing to do *)
Theorem load_txn_noop_native c e s ls now cutoff :
  i_native c = true -> i_cancelled c = false -> dbis_sorted (e_dbis e) ->
  new_native_iterator (sn_fmt s) (sn_compat s) (e_last e + 1) = Ok tt ->
  (forall d, In d (sn_dbis s) ->
     has_prefix sync_prefix (sd_name d) = true \/
     (has_prefix sync_prefix (sd_name d) = false /\ validate_transform (sn_fmt s) true d = Ok tt /\
      exists t, find_dbi (e_dbis e) (sd_name d) = Some t /\
        forall x, In x (sd_entries d) ->
          loses (mkCfg (sn_fmt s) 0 (e_last e + 1) (i_padding c) cutoff) (d_data t) (dbi_cmp (d_flags t)) x)) ->
  load_txn c e s ls now cutoff = Ok (e, e_last e + 1, ls <? e_last e + 1 - 1)
  /\ adjust_id (e_last e + 1) (e_last e) = e_last e.
Proof.
  intros Hn Hnc Hs Hg H. split.
  - unfold load_txn. rewrite Hg, Hn. cbn [negb andb].
    rewrite (load_dbis_noop_native c _ _ _ cutoff (sn_dbis s) (e_dbis e, false)); auto.
    cbn [fst snd]. destruct e; reflexivity.
  - unfold adjust_id. replace (e_last e <? e_last e + 1) with true by lia. reflexivity.
Qed.

(* ---------- cancellation: a cancelled merge never reaches the commit with a partially applied snapshot ---------- *)
Theorem load_one_cancelled c fmt compat T cutoff d st st' :
  i_cancelled c = true -> has_prefix sync_prefix (sd_name d) = false ->
  load_one c fmt compat T cutoff d st <> Ok st'.
Proof.
  intros Hc Hp H. unfold load_one in H. rewrite Hp, Hc in H.
  destruct (validate_transform fmt (i_native c) d); try discriminate.
  destruct (if i_native c then Ok st else _) as [st1| | |]; try discriminate.
  destruct (find_dbi (fst st1) _) as [t|]; destruct (new_native_iterator fmt compat T); try discriminate.
  - destruct (update _ _ _ _ _ _); discriminate.
  - destruct (update _ _ _ _ _ _); discriminate.
Qed.

(* ---------- creating a missing data DBI (shadow mode) ---------- *)
(* a snapshot older than format 3 does not say what flags the application DBI had: without an explicit
   override_create_flags FOR THAT DBI the load is refused as a whole (the first failing DBI aborts, load_dbis_fails) *)
Theorem load_one_refuses_old_format c fmt compat T cutoff d st :
  i_native c = false -> has_prefix sync_prefix (sd_name d) = false ->
  validate_transform fmt false d = Ok tt ->
  find_dbi (fst st) (sd_name d) = None ->
  override_of (i_override c) (sd_name d) = None -> fmt < 3 ->
  load_one c fmt compat T cutoff d st = Err ERefused.
Proof.
  intros Hn Hp Hv Hf Ho Hlt. unfold load_one. rewrite Hp, Hn, Hv, Hf, Ho.
  replace (fmt <? 3) with true by lia. reflexivity.
Qed.

(* the options of one DBI never influence another: load_one looks at the override of ITS OWN name only *)
Theorem load_one_override_local c c' fmt compat T cutoff d st :
  i_native c' = i_native c -> i_padding c' = i_padding c -> i_cancelled c' = i_cancelled c ->
  override_of (i_override c') (sd_name d) = override_of (i_override c) (sd_name d) ->
  load_one c' fmt compat T cutoff d st = load_one c fmt compat T cutoff d st.
Proof.
  intros Hn Hp Hc Ho. unfold load_one. rewrite Hn, Hp, Hc, Ho. reflexivity.
Qed.
