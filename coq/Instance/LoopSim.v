(* Instance/LoopSim.v — the executable loop machine (Instance/SyncLoop.v, the one replayed against the real
   syncLoop) REFINES the abstract transaction-id system (Instance/Ids.v, the one the C03/C09/C10 theorems are
   about): every complete pass of the loop — any number of loads, the upload check, SendOnce with failing and
   succeeding Store calls, with the schedule's application commits at every yield point — is a sequence of
   Ids steps between two Top states whose (LastTxnID, lastSyncedTxnID) are those of the machine.
   What is related: last = LastTxnID of the environment, synced = lastSyncedTxnID. The ghost fields of Ids
   (apps, cap, pub) are carried by the abstract path itself. Not receive-only (Ids has no such mode). *)
From LS Require Import Base.Bytes Base.Res Merge.Model Strategy.Model Shadow.Model Instance.Model Instance.SyncLoop
  Instance.Ids Instance.StepShapes.
From Coq Require Import ZifyN ZifyNat ZifyBool Lia.
Open Scope N_scope.

Section Sim.
  Variable c : icfg.
  Hypothesis NRO : i_receive_only c = false.
  Notation shadow := (negb (i_native c)).

  Inductive steps : st -> st -> Prop :=
  | ss_refl a : steps a a
  | ss_step a a' a'' : steps a a' -> step shadow a' a'' -> steps a a''.

  Lemma steps_trans a b d : steps a b -> steps b d -> steps a d.
  Proof. intros H1 H2. induction H2 as [|x y z H2 IH H3]; [exact H1|]. eapply ss_step; [apply IH, H1|exact H3]. Qed.

  Lemma steps_reach s0 a a' : reach (step shadow) s0 a -> steps a a' -> reach (step shadow) s0 a'.
  Proof. intros Hr H. induction H; [exact Hr|]. eapply r_step; [apply IHsteps, Hr|eassumption]. Qed.

  Definition R (s : lstate) (a : st) : Prop := last a = e_last (l_env s) /\ synced a = l_synced s.

  (* k application commits at one program point *)
  Lemma apps_steps (k : nat) : forall a, at_ a <> Exited ->
    exists a', steps a a' /\ last a' = last a + N.of_nat k /\ synced a' = synced a /\ at_ a' = at_ a.
  Proof.
    induction k as [|k IH]; intros a Hne.
    - exists a. split; [apply ss_refl|]. split; [lia|auto].
    - destruct (IH a Hne) as (a1 & S1 & L1 & Y1 & P1).
      eexists. split; [eapply ss_step; [exact S1|apply s_app; congruence]|].
      cbn [last synced at_]. split; [lia|auto].
  Qed.

  (* a yield point of the machine = the application commits scheduled there *)
  Lemma yield_sim p s a : last a = e_last (l_env s) -> at_ a <> Exited ->
    exists a', steps a a' /\ last a' = e_last (l_env (yield p s)) /\ synced a' = synced a /\ at_ a' = at_ a.
  Proof.
    intros HL Hne. destruct (yield_shape p s) as [_ (k & Hk & Ek)].
    destruct (apps_steps (length (filter is_app (match l_acts s with [] => [] | x :: _ => x end))) a Hne) as (a' & S & L & Y & P).
    exists a'. split; [exact S|]. split; [rewrite L, Hk, HL, Ek; reflexivity|auto].
  Qed.

  Lemma yield_synced p s : l_synced (yield p s) = l_synced s.
  Proof. destruct (yield_shape p s) as [B _]. unfold book in B. congruence. Qed.

  (* ---- one LoadOnce and the loop's bookkeeping after it ---- *)
  Lemma load_iter_sim s a u s1 id lc :
    R s a -> at_ a = Top -> load_once c s u = (s1, Some (id, lc)) ->
    exists a', steps a a' /\ at_ a' = Top /\ R (if lc then s1 else set_synced s1 id) a'.
  Proof.
    intros [RL RS] HT H.
    destruct (load_once_shape c s u s1 id lc H) as (e' & T & Htxn & Hid & Hsyn & Henv). cbv zeta in *.
    set (s0 := yield P_load_begin s) in *.
    destruct (yield_sim P_load_begin s a RL ltac:(congruence)) as (a1 & S1 & L1 & Y1 & P1). fold s0 in L1.
    destruct (load_txn_shape _ _ _ _ _ _ _ _ _ Htxn) as (ET & Elc & Elast).
    assert (Hs0 : l_synced s0 = l_synced s) by apply yield_synced.
    (* the transaction *)
    set (dirty := e_last e' =? T).
    assert (Hstep : step shadow a1 (mkSt (if dirty then last a1 + 1 else last a1) (synced a1)
                                        (if shadow && (synced a1 <? last a1 + 1 - 1) then last a1 else cap a1)
                                        (pub a1) (apps a1)
                                        (LoadInfo (last a1 + 1) (synced a1 <? last a1 + 1 - 1) (if dirty then last a1 + 1 else last a1)))).
    { apply (s_load_txn shadow a1 dirty). congruence. }
    set (a2 := mkSt _ _ _ _ _ _) in Hstep.
    assert (L2 : last a2 = e_last e').
    { unfold a2; cbn [last]. unfold dirty. destruct (N.eqb_spec (e_last e') T) as [E|E]; [lia|].
      destruct Elast as [E2|E2]; [lia|contradiction]. }
    assert (HT2 : last a1 + 1 = T) by lia.
    assert (Hlc2 : (synced a1 <? last a1 + 1 - 1) = lc) by (rewrite Elc, Y1, RS, Hs0, <- HT2; reflexivity).
    (* the yield after the transaction *)
    destruct (yield_sim P_load_after_txn (set_env s0 e') a2 L2 ltac:(unfold a2; cbn; discriminate)) as (a3 & S3 & L3 & Y3 & P3).
    (* env.Info() and the bookkeeping *)
    assert (Hinfo : step shadow a3 (mkSt (last a3) (if lc then synced a3 else adjust T (last a3)) (cap a3) (pub a3) (apps a3) Top)).
    { eapply (s_load_info shadow a3 T lc). rewrite P3. unfold a2; cbn [at_]. rewrite Hlc2, HT2. reflexivity. }
    set (a4 := mkSt _ _ _ _ _ Top) in Hinfo.
    destruct (yield_sim P_load_end (yield P_load_after_txn (set_env s0 e')) a4 L3 ltac:(unfold a4; cbn; discriminate)) as (a5 & S5 & L5 & Y5 & P5).
    exists a5. split.
    { eapply steps_trans; [|exact S5]. eapply ss_step; [|exact Hinfo].
      eapply steps_trans; [|exact S3]. eapply ss_step; [exact S1|exact Hstep]. }
    split; [rewrite P5; reflexivity|].
    assert (E5 : last a5 = e_last (l_env s1)) by (rewrite L5, Henv; reflexivity).
    assert (Y2 : synced a3 = l_synced s) by (rewrite Y3; unfold a2; cbn [synced]; congruence).
    destruct lc; split; cbn [set_synced l_env l_synced]; try exact E5.
    - rewrite Y5. unfold a4; cbn [synced]. congruence.
    - rewrite Y5. unfold a4; cbn [synced]. rewrite L3, Hid. reflexivity.
  Qed.

  Lemma load_loop_sim fuel : forall s a n s',
    R s a -> at_ a = Top -> load_loop fuel c s n = (s', true) ->
    exists a', steps a a' /\ at_ a' = Top /\ R s' a'.
  Proof.
    induction fuel as [|f IH]; intros s a n s' HR HT H; cbn [load_loop] in H; [discriminate|].
    destruct (l_pending s) as [|u rest] eqn:EP.
    - injection H as <-. exists a. split; [apply ss_refl|auto].
    - match type of H with context [load_once c ?sx u] => set (s0 := sx) in H end.
      assert (HR0 : R s0 a) by (destruct HR; split; assumption).
      destruct (load_once c s0 u) as [s1 [[id lc]|]] eqn:EL; [|discriminate].
      destruct (load_iter_sim s0 a u s1 id lc HR0 HT EL) as (a1 & S1 & T1 & R1).
      destruct (lc && Nat.ltb MaxConsecutiveSnapshotLoads (S n)).
      + injection H as <-. exists a1. auto.
      + destruct (IH _ a1 _ _ R1 T1 H) as (a2 & S2 & T2 & R2).
        exists a2. split; [eapply steps_trans; eassumption|auto].
  Qed.

  (* ---- the Store retry loop never touches the environment, the schedule or lastSynced ---- *)
  Lemma store_loop_keeps tries : forall s ts id ds s' ok,
    store_loop tries s ts id ds = (s', ok) ->
    l_env s' = l_env s /\ l_acts s' = l_acts s /\ l_synced s' = l_synced s.
  Proof.
    induction tries as [|t IH]; intros s ts id ds s' ok H; cbn [store_loop] in H.
    - injection H as <- _. auto.
    - destruct (0 <? l_fail s).
      + apply IH in H. cbn [l_env l_acts l_synced] in H. exact H.
      + injection H as <- _. auto.
  Qed.

  (* ---- the upload check and a successful SendOnce ---- *)
  Lemma send_sim s a s1 id :
    R s a -> at_ a = Top -> l_synced s < e_last (l_env s) ->
    send_once c (set_synced s (e_last (l_env s))) = (s1, Some id) ->
    exists a', steps a a' /\ at_ a' = Top /\ R (set_synced s1 id) a'.
  Proof.
    intros [RL RS] HT Hlt H.
    set (sx := set_synced s (e_last (l_env s))) in *.
    assert (RLx : last a = e_last (l_env sx)) by exact RL.
    (* the check *)
    assert (Hck : step shadow a (mkSt (last a) (synced a) (cap a) (pub a) (apps a) SendBegin)).
    { apply s_check_send; [exact HT|lia]. }
    set (b0 := mkSt _ _ _ _ _ SendBegin) in Hck.
    destruct (yield_sim P_send_begin sx b0 RLx ltac:(unfold b0; cbn; discriminate)) as (b1 & S1 & L1 & Y1 & P1).
    (* unfold SendOnce *)
    unfold send_once in H. set (s0 := yield P_send_begin sx) in *.
    destruct (send_txn c (l_env s0) (now_of s0) 0) as [[[e' T] ds]|x| |] eqn:Etxn;
      [|destruct x; discriminate|discriminate|discriminate].
    rewrite NRO in H.
    set (s2 := yield P_send_after_txn (set_env s0 e')) in *.
    set (idv := adjust_id T (e_last (l_env s2))) in *.
    set (s3 := yield P_send_before_store s2) in *.
    destruct (store_loop StorageRetryCount s3 (now_of s0) idv ds) as [s4 ok] eqn:Est.
    destruct ok; [|discriminate].
    injection H as <- <-.
    destruct (store_loop_keeps _ _ _ _ _ _ _ Est) as (K1 & K2 & K3).
    (* the transaction *)
    pose proof (send_txn_shape _ _ _ _ _ _ _ Etxn) as Shape.
    set (dirty := e_last e' =? T).
    assert (HP : at_ b1 = SendBegin) by (rewrite P1; reflexivity).
    pose proof (s_send_txn shadow b1 dirty HP) as Hstep. cbv zeta in Hstep.
    match type of Hstep with step _ _ ?x => set (b2 := x) in Hstep end.
    assert (HTL : T = (if shadow then last b1 + 1 else last b1) /\ last b2 = e_last e').
    { unfold b2; cbn [last]. unfold dirty. destruct (i_native c) eqn:En; cbn [negb].
      - destruct Shape as [-> ->]. split; lia.
      - destruct Shape as [ET [E|E]]; (destruct (N.eqb_spec (e_last e') T); split; lia). }
    destruct HTL as [ET L2].
    destruct (yield_sim P_send_after_txn (set_env s0 e') b2 L2 ltac:(unfold b2; cbn; discriminate)) as (b3 & S3 & L3 & Y3 & P3).
    fold s2 in L3.
    assert (Hinfo : step shadow b3 (mkSt (last b3) (synced b3) (cap b3) (pub b3) (apps b3) (Storing (adjust T (last b3)) (last b1)))).
    { eapply (s_send_info shadow b3 T (last b1)). rewrite P3. unfold b2; cbn [at_]. rewrite <- ET. reflexivity. }
    set (b4 := mkSt _ _ _ _ _ (Storing _ _)) in Hinfo.
    assert (L4 : last b4 = e_last (l_env s2)) by exact L3.
    destruct (yield_sim P_send_before_store s2 b4 L4 ltac:(unfold b4; cbn; discriminate)) as (b5 & S5 & L5 & Y5 & P5).
    fold s3 in L5.
    assert (Hok : step shadow b5 (mkSt (last b5) (adjust T (last b3)) (cap b5) (last b1) (apps b5) Top)).
    { eapply (s_store_ok shadow b5). rewrite P5. reflexivity. }
    set (b6 := mkSt _ _ _ _ _ Top) in Hok.
    assert (L6 : last b6 = e_last (l_env s4)) by (unfold b6; cbn [last]; rewrite L5, K1; reflexivity).
    destruct (yield_sim P_send_end s4 b6 L6 ltac:(unfold b6; cbn; discriminate)) as (b7 & S7 & L7 & Y7 & P7).
    exists b7. split.
    { eapply steps_trans; [|exact S7]. eapply ss_step; [|exact Hok].
      eapply steps_trans; [|exact S5]. eapply ss_step; [|exact Hinfo].
      eapply steps_trans; [|exact S3]. eapply ss_step; [|exact Hstep].
      eapply steps_trans; [|exact S1]. eapply ss_step; [apply ss_refl|exact Hck]. }
    split; [rewrite P7; reflexivity|].
    split; cbn [set_synced l_env l_synced].
    - exact L7.
    - rewrite Y7. unfold b6; cbn [synced]. rewrite L3. reflexivity.
  Qed.

  (* ---- one complete pass of the outer loop that goes on ---- *)
  Theorem loop_iter_sim fuel has_data s a s' :
    R s a -> at_ a = Top -> loop_iter fuel c has_data s = (s', true) ->
    exists a', steps a a' /\ at_ a' = Top /\ R s' a'.
  Proof.
    intros [RL RS] HT H. unfold loop_iter in H.
    destruct (yield_sim P_loop_top s a RL ltac:(congruence)) as (a1 & S1 & L1 & Y1 & P1).
    set (s0 := yield P_loop_top s) in *.
    assert (R0 : R s0 a1) by (split; [exact L1|rewrite Y1, RS; symmetry; apply yield_synced]).
    destruct (load_loop fuel c s0 0) as [s1 [|]] eqn:ELL; [|discriminate].
    destruct (load_loop_sim fuel s0 a1 0 s1 R0 ltac:(congruence) ELL) as (a2 & S2 & T2 & [RL2 RS2]).
    destruct (yield_sim P_check_info s1 a2 RL2 ltac:(congruence)) as (a3 & S3 & L3 & Y3 & P3).
    set (s2 := yield P_check_info s1) in *.
    assert (R3 : R s2 a3) by (split; [exact L3|rewrite Y3, RS2; symmetry; apply yield_synced]).
    assert (T3 : at_ a3 = Top) by congruence.
    assert (Hpre : steps a a3).
    { eapply steps_trans; [|exact S3]. eapply steps_trans; [|exact S2]. exact S1. }
    (* the upload check *)
    assert (Hsend : exists s3 a4, steps a3 a4 /\ at_ a4 = Top /\ R s3 a4 /\
              (let stop := match l_acts s3 with [] => true | _ => false end in
               let s4 := yield P_loop_sleep s3 in
               (if l_cancel s4 || stop then (log s4 (TExit 0), false) else (s4, true)) = (s', true))).
    { destruct (l_synced s2 <? e_last (l_env s2)) eqn:Elt.
      - assert (Hd : (has_data || (0 <? e_last (l_env s2))) = true).
        { apply Bool.orb_true_iff. right. apply N.ltb_lt. apply N.ltb_lt in Elt. lia. }
        rewrite Hd in H.
        destruct (send_once c (set_synced s2 (e_last (l_env s2)))) as [s3 [id|]] eqn:ES; [|discriminate].
        apply N.ltb_lt in Elt.
        destruct (send_sim s2 a3 s3 id R3 T3 Elt ES) as (a4 & S4 & T4 & R4).
        exists (set_synced s3 id), a4. split; [exact S4|]. split; [exact T4|]. split; [exact R4|]. exact H.
      - exists s2, a3. split; [apply ss_refl|]. split; [exact T3|]. split; [exact R3|]. exact H. }
    destruct Hsend as (s3 & a4 & S4 & T4 & [RL4 RS4] & Hend).
    cbv zeta in Hend.
    destruct (l_cancel (yield P_loop_sleep s3) || match l_acts s3 with [] => true | _ => false end); [discriminate|].
    injection Hend as <-.
    destruct (yield_sim P_loop_sleep s3 a4 RL4 ltac:(congruence)) as (a5 & S5 & L5 & Y5 & P5).
    exists a5. split; [eapply steps_trans; [|exact S5]; eapply steps_trans; [exact Hpre|exact S4]|].
    split; [congruence|]. split; [exact L5|rewrite Y5, RS4; symmetry; apply yield_synced].
  Qed.

  (* any number of complete passes *)
  Inductive passes (has_data : bool) : lstate -> lstate -> Prop :=
  | ps_refl s : passes has_data s s
  | ps_step s s' s'' fuel : passes has_data s s' -> loop_iter fuel c has_data s' = (s'', true) -> passes has_data s s''.

  Theorem passes_sim has_data s s' a :
    R s a -> at_ a = Top -> passes has_data s s' ->
    exists a', steps a a' /\ at_ a' = Top /\ R s' a'.
  Proof.
    intros HR HT H. induction H as [s|s s1 s2 fuel H IH Hit].
    - exists a. split; [apply ss_refl|auto].
    - destruct (IH HR) as (a1 & S1 & T1 & R1).
      destruct (loop_iter_sim fuel has_data s1 a1 s2 R1 T1 Hit) as (a2 & S2 & T2 & R2).
      exists a2. split; [eapply steps_trans; eassumption|auto].
  Qed.

  (* from a fresh start (nothing synced yet): every state the machine is in between two passes corresponds to a
     REACHABLE state of the abstract system, at Top, with the machine's LastTxnID and lastSyncedTxnID *)
  Corollary machine_states_are_reachable has_data s s' :
    l_synced s = 0 -> passes has_data s s' ->
    exists a', reach (step shadow) (init (e_last (l_env s))) a' /\ at_ a' = Top /\
               last a' = e_last (l_env s') /\ synced a' = l_synced s'.
  Proof.
    intros H0 Hp.
    destruct (passes_sim has_data s s' (init (e_last (l_env s))) ltac:(split; cbn; congruence) eq_refl Hp)
      as (a' & S & T & [RL RS]).
    exists a'. split; [eapply steps_reach; [apply r_init|exact S]|auto].
  Qed.
End Sim.
