(* Instance/FleetQuiet.v — the fleet-level form of the C10 bound: n instances, each running the id bookkeeping
   of Instance/Ids.v in its own mode, interleaved in ANY order. The loads an instance performs are the [step]s
   of Ids (any snapshot, dirty or not), so the uploads of one instance reaching the others are already part of
   every instance's own steps: an interleaving of per-instance runs is the whole fleet. Without application
   commits the fleet completes at most 2n further uploads, and none at all once every instance is idle. *)
From Coq Require Import List NArith Lia Bool.
From Coq Require Import ZifyN ZifyNat ZifyBool.
From LS Require Import Instance.Ids Instance.IdsQuiesce.
Import ListNotations.
Open Scope N_scope.

Section FQ.
  Variable mode : nat -> bool.            (* instance index -> shadow mode? *)

  Fixpoint upd_nth (f : list st) (i : nat) (x : st) : list st :=
    match f, i with
    | [], _ => []
    | _ :: t, O => x :: t
    | h :: t, S j => h :: upd_nth t j x
    end.

  (* a fleet run without application commits; k = number of successful uploads by all instances together *)
  Inductive fquiet : list st -> nat -> list st -> Prop :=
  | fq_nil f : fquiet f 0 f
  | fq_step f i s s' k f'' :
      nth_error f i = Some s -> step (mode i) s s' -> apps s' = apps s ->
      fquiet (upd_nth f i s') k f'' ->
      fquiet f (is_upload s s' + k) f''.

  Definition total_owed (f : list st) : nat := fold_right (fun s a => (owed s + a)%nat) 0%nat f.

  Lemma total_owed_le f : (total_owed f <= 2 * length f)%nat.
  Proof.
    induction f as [|h t IH]; cbn [total_owed fold_right length]; [lia|].
    pose proof (owed_le_2 h). unfold total_owed in IH. lia.
  Qed.

  Lemma total_owed_upd f : forall i s x, nth_error f i = Some s ->
    (total_owed (upd_nth f i x) + owed s = total_owed f + owed x)%nat.
  Proof.
    induction f as [|h t IH]; intros i s x H.
    - destruct i; discriminate.
    - destruct i as [|j]; cbn [nth_error] in H.
      + injection H as ->. cbn [upd_nth total_owed fold_right]. lia.
      + cbn [upd_nth total_owed fold_right]. specialize (IH j s x H). unfold total_owed in IH. lia.
  Qed.

  Lemma length_upd_nth f : forall i x, length (upd_nth f i x) = length f.
  Proof. induction f as [|h t IH]; intros [|j] x; cbn [upd_nth length]; auto. Qed.

  Lemma fquiet_uploads f k f' : fquiet f k f' -> (k + total_owed f' <= total_owed f)%nat.
  Proof.
    induction 1 as [f|f i s s' k f'' Hn Hst Ha _ IH]; [lia|].
    pose proof (owed_step (mode i) s s' Hst Ha).
    pose proof (total_owed_upd f i s s' Hn). lia.
  Qed.

  Theorem fleet_quiet_bounded f k f' : fquiet f k f' -> (k <= 2 * length f)%nat.
  Proof. intros H. pose proof (fquiet_uploads f k f' H). pose proof (total_owed_le f). lia. Qed.

  (* every instance idle (top of the loop, lastSynced = LastTxnID): the fleet never uploads again *)
  Definition all_idle (f : list st) : Prop := Forall (fun s => at_ s = Top /\ ~ (synced s < last s)) f.

  Lemma idle_owes_nothing f : all_idle f -> total_owed f = 0%nat.
  Proof.
    induction 1 as [|s t [Hp Hn] _ IH]; [reflexivity|].
    cbn [total_owed fold_right]. unfold total_owed in IH. rewrite IH.
    unfold owed. rewrite Hp. unfold b2n. destruct (synced s <? last s) eqn:E; [|reflexivity].
    apply N.ltb_lt in E. contradiction.
  Qed.

  Theorem fleet_idle_forever f k f' : all_idle f -> fquiet f k f' -> k = 0%nat.
  Proof. intros Hi H. pose proof (fquiet_uploads f k f' H). rewrite (idle_owes_nothing f Hi) in *. lia. Qed.

  (* a fleet run projects onto a quiet run of every single instance: the per-instance theorems apply to it *)
  Lemma fquiet_length f k f' : fquiet f k f' -> length f' = length f.
  Proof. induction 1 as [f|f i s s' k f'' _ _ _ _ IH]; [reflexivity|]. rewrite IH. apply length_upd_nth. Qed.
End FQ.
