(* Instance/IdsQuiesce.v — quiescence of the id bookkeeping (C10): once the application stops committing, an
   instance uploads at most twice more (once if no upload is in flight), however many remote snapshots it
   loads and whatever those loads change; an idle instance never uploads again. *)
From Coq Require Import List NArith Lia Bool.
From Coq Require Import ZifyN ZifyNat ZifyBool.
From LS Require Import Instance.Ids.
Import ListNotations.
Open Scope N_scope.

Section Q.
  Variable shadow : bool.

  (* a successful Store: Storing -> Top *)
  Definition is_upload (s s' : st) : nat :=
    match at_ s, at_ s' with Storing _ _, Top => 1%nat | _, _ => 0%nat end.

  (* a run without application commits; k = number of successful uploads in it *)
  Inductive quiet : st -> nat -> st -> Prop :=
  | q_nil s : quiet s 0 s
  | q_step s s' s'' k : step shadow s s' -> apps s' = apps s -> quiet s' k s'' ->
      quiet s (is_upload s s' + k) s''.

  Definition b2n (b : bool) : nat := if b then 1%nat else 0%nat.

  (* uploads still owed *)
  Definition owed (s : st) : nat :=
    match at_ s with
    | Top => b2n (synced s <? last s)
    | LoadInfo T lc la => if lc then b2n (synced s <? last s) else b2n (adjust T (last s) <? last s)
    | SendBegin => 1
    | SendInfo T dumped la => 1 + b2n (adjust T (last s) <? last s)
    | Storing id dumped => 1 + b2n (id <? last s)
    | Exited => 0
    end.

  Lemma owed_le_2 s : (owed s <= 2)%nat.
  Proof. unfold owed, b2n. destruct (at_ s) as [|T lc la| |T d la|id d|]; repeat match goal with |- context [if ?b then _ else _] => destruct b end; lia. Qed.

  Lemma not_app s : apps (mkSt (last s + 1) (synced s) (cap s) (pub s) (last s + 1 :: apps s) (at_ s)) = apps s -> False.
  Proof. cbn [apps]. intros H. assert (L : length (last s + 1 :: apps s) = length (apps s)) by congruence. cbn in L. lia. Qed.

  Lemma owed_step s s' : step shadow s s' -> apps s' = apps s -> (is_upload s s' + owed s' <= owed s)%nat.
  Proof.
    intros Hst Happs.
    inversion Hst as [s1 Hne|s1 dirty Hp T lc la|s1 T lc la Hp|s1 Hp Hlt|s1 dirty Hp T la|s1 T d la Hp|s1 id d Hp|s1 id d Hp];
      subst; try (exfalso; exact (not_app s Happs));
      unfold is_upload, owed; cbn [at_ last synced]; rewrite Hp.
    - (* load transaction *)
      subst T lc la. unfold adjust, b2n. destruct dirty, (synced s <? last s + 1 - 1) eqn:E1;
        repeat match goal with |- context [?a <? ?b] => destruct (a <? b) eqn:? end;
        repeat match goal with H : context [if ?a <? ?b then _ else _] |- _ => destruct (a <? b) eqn:? end; lia.
    - (* env.Info after a load *)
      unfold b2n. destruct lc; lia.
    - (* upload check *)
      unfold b2n. replace (synced s <? last s) with true by lia. lia.
    - (* SendOnce transaction *)
      subst T la. unfold adjust, b2n. destruct shadow, dirty;
        repeat match goal with |- context [?a <? ?b] => destruct (a <? b) eqn:? end;
        repeat match goal with H : context [if ?a <? ?b then _ else _] |- _ => destruct (a <? b) eqn:? end; lia.
    - (* env.Info after the dump *)
      lia.
    - (* Store succeeded *)
      lia.
    - (* Store failed for good *)
      lia.
  Qed.

  Theorem quiet_uploads s k s' : quiet s k s' -> (k + owed s' <= owed s)%nat.
  Proof.
    induction 1 as [s|s s1 s2 k Hst Happs _ IH]; [lia|].
    pose proof (owed_step s s1 Hst Happs). lia.
  Qed.

  (* at most two more uploads, from ANY state (no invariant needed), through any number of loads *)
  Theorem quiet_bounded s k s' : quiet s k s' -> (k <= 2)%nat.
  Proof. intros H. pose proof (quiet_uploads s k s' H). pose proof (owed_le_2 s). lia. Qed.

  (* an idle instance (at the top of the loop, nothing to send) never uploads again, and stays idle at every
     later visit of the top of the loop *)
  Theorem quiet_idle s k s' : at_ s = Top -> ~ (synced s < last s) -> quiet s k s' ->
    k = 0%nat /\ (at_ s' = Top -> ~ (synced s' < last s')).
  Proof.
    intros Hp Hn H. pose proof (quiet_uploads s k s' H) as B.
    assert (O : owed s = 0%nat) by (unfold owed, b2n; rewrite Hp; replace (synced s <? last s) with false by lia; reflexivity).
    rewrite O in B. split; [lia|]. intros Hp' Hlt. unfold owed, b2n in B. rewrite Hp' in B.
    replace (synced s' <? last s') with true in B by lia. lia.
  Qed.

  (* one pending local change costs exactly one upload *)
  Theorem quiet_pending s k s' : at_ s = Top -> quiet s k s' -> (k <= 1)%nat.
  Proof.
    intros Hp H. pose proof (quiet_uploads s k s' H) as B.
    assert (O : (owed s <= 1)%nat) by (unfold owed, b2n; rewrite Hp; destruct (synced s <? last s); lia).
    lia.
  Qed.
End Q.
