(* Instance/Committed.v — what the cleaner is told (SetCommitted) on the executable loop machine: only after a
   SUCCESSFUL Store of an own snapshot, and then exactly the snapshots merged so far (lastByInstance). This is the
   wiring C12 ("... and uploaded a snapshot of its own afterwards") and C05's stale-instance rule rest on. *)
From LS Require Import Base.Bytes Base.Res Merge.Model Strategy.Model Shadow.Model Instance.Model Instance.SyncLoop
  Instance.StepShapes.
From Coq Require Import ZifyN ZifyNat ZifyBool.
Open Scope N_scope.

Lemma store_loop_shape n : forall s ts id ds s' ok,
  store_loop n s ts id ds = (s', ok) ->
  l_synced s' = l_synced s /\ l_last_by s' = l_last_by s /\ l_committed s' = l_committed s /\ l_env s' = l_env s /\
  (if ok then l_stores s' = (ts, id, ds) :: l_stores s else l_stores s' = l_stores s).
Proof.
  induction n as [|n IH]; intros s ts id ds s' ok H; cbn [store_loop] in H.
  - injection H as <- <-. repeat split; reflexivity.
  - destruct (0 <? l_fail s).
    + apply IH in H. cbn [l_synced l_last_by l_committed l_env l_stores] in H. exact H.
    + injection H as <- <-. cbn. repeat split; reflexivity.
Qed.

Lemma yield_book p s : l_synced (yield p s) = l_synced s /\ l_last_by (yield p s) = l_last_by s /\
  l_committed (yield p s) = l_committed s /\ l_stores (yield p s) = l_stores s.
Proof.
  destruct (yield_shape p s) as [B _]. unfold book in B. injection B as B1 B2 B3 B4. auto.
Qed.

Theorem send_once_committed c s s' r :
  send_once c s = (s', r) ->
  l_last_by s' = l_last_by s /\
  match r with
  | Some _ =>
      if i_receive_only c then l_committed s' = l_committed s /\ l_stores s' = l_stores s
      else l_committed s' = l_last_by s /\ exists x, l_stores s' = x :: l_stores s
  | None => l_committed s' = l_committed s /\ l_stores s' = l_stores s
  end.
Proof.
  unfold send_once. intros H.
  set (s1 := yield P_send_begin s) in *.
  destruct (yield_book P_send_begin s) as (A1 & A2 & A3 & A4). fold s1 in A1, A2, A3, A4.
  destruct (send_txn c (l_env s1) (now_of s1) 0) as [[[e' T] ds]|x| |].
  - set (s2 := yield P_send_after_txn (set_env s1 e')) in *.
    destruct (yield_book P_send_after_txn (set_env s1 e')) as (B1 & B2 & B3 & B4). fold s2 in B1, B2, B3, B4.
    cbn [set_env l_synced l_last_by l_committed l_stores] in B1, B2, B3, B4.
    destruct (i_receive_only c).
    + injection H as <- <-. split; [congruence|]. split; congruence.
    + set (s3 := yield P_send_before_store s2) in *.
      destruct (yield_book P_send_before_store s2) as (C1 & C2 & C3 & C4). fold s3 in C1, C2, C3, C4.
      destruct (store_loop StorageRetryCount s3 (now_of s1) (adjust_id T (e_last (l_env s2))) ds) as [s4 ok] eqn:ES.
      destruct (store_loop_shape _ _ _ _ _ _ _ ES) as (D1 & D2 & D3 & D4 & D5).
      destruct ok.
      * destruct (yield_book P_send_end s4) as (E1 & E2 & E3 & E4).
        injection H as <- <-. cbn [l_last_by l_committed l_stores].
        split; [congruence|]. split; [congruence|]. eexists. rewrite E4, D5. f_equal. congruence.
      * injection H as <- <-. cbn [log l_last_by l_committed l_stores].
        split; [congruence|]. split; congruence.
  - injection H as <- <-. cbn [log l_last_by l_committed l_stores]. split; [congruence|]. split; congruence.
  - injection H as <- <-. cbn [log l_last_by l_committed l_stores]. split; [congruence|]. split; congruence.
  - injection H as <- <-. cbn [log l_last_by l_committed l_stores]. split; [congruence|]. split; congruence.
Qed.

(* LoadOnce never tells the cleaner anything: it only records the merged snapshot in lastByInstance *)
Theorem load_once_committed c s u s' r :
  load_once c s u = (s', r) ->
  l_committed s' = l_committed s /\ l_stores s' = l_stores s /\
  match r with
  | Some _ => l_last_by s' = assoc_set (l_last_by s) (u_inst u) (u_ts u)
  | None => l_last_by s' = l_last_by s
  end.
Proof.
  unfold load_once. intros H.
  set (s1 := yield P_load_begin s) in *.
  destruct (yield_book P_load_begin s) as (A1 & A2 & A3 & A4). fold s1 in A1, A2, A3, A4.
  destruct (load_txn c (l_env s1) (u_snap u) (l_synced s1) (now_of s1) 0) as [[[e' T] lc]|x| |].
  - set (s2 := yield P_load_after_txn (set_env s1 e')) in *.
    destruct (yield_book P_load_after_txn (set_env s1 e')) as (B1 & B2 & B3 & B4). fold s2 in B1, B2, B3, B4.
    cbn [set_env l_synced l_last_by l_committed l_stores] in B1, B2, B3, B4.
    destruct (yield_book P_load_end s2) as (C1 & C2 & C3 & C4).
    injection H as <- <-. cbn [l_last_by l_committed l_stores].
    split; [congruence|]. split; [congruence|]. congruence.
  - injection H as <- <-. cbn [log l_last_by l_committed l_stores]. repeat split; congruence.
  - injection H as <- <-. cbn [log l_last_by l_committed l_stores]. repeat split; congruence.
  - injection H as <- <-. cbn [log l_last_by l_committed l_stores]. repeat split; congruence.
Qed.
