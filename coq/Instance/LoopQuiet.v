(* Instance/LoopQuiet.v — quiescence on the EXECUTABLE loop machine (the one replayed against the real syncLoop):
   an idle instance (lastSynced = LastTxnID) whose application has stopped committing never uploads again and
   stays idle, whatever remote snapshots it loads — with the real LoadOnce transaction (load_txn), not the
   abstract step.  This is C10_idle_forever one level down. *)
From LS Require Import Base.Bytes Base.Res Merge.Model Strategy.Model Shadow.Model Instance.Model Instance.SyncLoop
  Instance.Ids Instance.StepShapes Instance.Committed.
From Coq Require Import ZifyN ZifyNat ZifyBool.
Open Scope N_scope.

(* no application commit left in the schedule *)
Definition quiet_acts (s : lstate) : Prop := Forall (fun a => filter is_app a = []) (l_acts s).
Definition idle (s : lstate) : Prop := l_synced s = e_last (l_env s) /\ quiet_acts s.

Lemma fold_actions_acts acts : forall s, l_acts (fold_left do_action acts s) = l_acts s.
Proof. induction acts as [|a acts IH]; intros s; [reflexivity|]. cbn [fold_left]. rewrite IH. destruct a; reflexivity. Qed.

Lemma yield_quiet p s : quiet_acts s ->
  quiet_acts (yield p s) /\ e_last (l_env (yield p s)) = e_last (l_env s).
Proof.
  unfold quiet_acts, yield. intros Q. destruct (l_acts s) as [|a r] eqn:E.
  - cbn. split; [constructor|reflexivity].
  - inversion Q as [|? ? Ha Hr]; subst.
    match goal with |- context [fold_left do_action a ?s1] =>
      pose proof (fold_actions_acts a s1) as A; destruct (fold_actions_shape a s1) as [_ L] end.
    cbn [l_acts] in A. split; [rewrite A; exact Hr|]. rewrite L, Ha. cbn [l_env length]. lia.
Qed.

Lemma yield_idle p s : idle s -> idle (yield p s) /\ l_stores (yield p s) = l_stores s.
Proof.
  intros [Hs Q]. destruct (yield_quiet p s Q) as [Q' L]. destruct (yield_book p s) as (B1 & _ & _ & B4).
  split; [split; [congruence|exact Q']|exact B4].
Qed.

(* LoadOnce on an idle, quiet instance: no local change is reported, and the id it hands back is the LastTxnID
   it leaves behind — so "synced := id" keeps the instance idle *)
Lemma load_once_idle c s u s' r :
  idle s -> load_once c s u = (s', r) ->
  l_stores s' = l_stores s /\ quiet_acts s' /\
  match r with
  | Some (id, lc) => lc = false /\ id = e_last (l_env s') /\ l_synced s' = l_synced s
  | None => True
  end.
Proof.
  intros I H. destruct (load_once_committed c s u s' r H) as (_ & HS & _).
  split; [exact HS|]. unfold load_once in H.
  destruct (yield_idle P_load_begin s I) as [[I1s I1q] _]. set (s1 := yield P_load_begin s) in *.
  destruct (load_txn c (l_env s1) (u_snap u) (l_synced s1) (now_of s1) 0) as [[[e' T] lc]|x| |] eqn:E.
  - destruct (load_txn_shape _ _ _ _ _ _ _ _ _ E) as (HT & Hlc & He').
    assert (Q2 : quiet_acts (set_env s1 e')) by exact I1q.
    destruct (yield_quiet P_load_after_txn (set_env s1 e') Q2) as [Q3 L3]. set (s2 := yield P_load_after_txn (set_env s1 e')) in *.
    destruct (yield_quiet P_load_end s2 Q3) as [Q4 L4].
    destruct (yield_book P_load_after_txn (set_env s1 e')) as (B1 & _). fold s2 in B1.
    destruct (yield_book P_load_end s2) as (C1 & _).
    destruct (yield_book P_load_begin s) as (A1 & _). fold s1 in A1.
    injection H as <- <-. cbn [l_acts l_env l_synced quiet_acts] in *.
    split; [exact Q4|]. cbn [set_env l_env l_synced] in *.
    split; [subst lc; rewrite I1s, HT; lia|].
    split; [|congruence].
    rewrite L4. unfold adjust_id. rewrite L3. cbn [set_env l_env].
    destruct He' as [He'|He']; rewrite He'; [replace (e_last (l_env s1) <? T) with true by lia|replace (T <? T) with false by lia]; reflexivity.
  - injection H as <- <-. cbn [log l_acts quiet_acts]. split; [exact I1q|exact Logic.I].
  - injection H as <- <-. cbn [log l_acts quiet_acts]. split; [exact I1q|exact Logic.I].
  - injection H as <- <-. cbn [log l_acts quiet_acts]. split; [exact I1q|exact Logic.I].
Qed.

Lemma load_loop_idle c : forall fuel s n s' alive,
  idle s -> load_loop fuel c s n = (s', alive) ->
  l_stores s' = l_stores s /\ (alive = true -> idle s').
Proof.
  induction fuel as [|f IH]; intros s n s' alive I H; cbn [load_loop] in H.
  - injection H as <- <-. split; [reflexivity|discriminate].
  - destruct (l_pending s) as [|u rest] eqn:Ep.
    + injection H as <- <-. split; [reflexivity|intros _; exact I].
    + set (s0 := mkL (l_env s) (l_acts s) (l_yi s) (l_clock0 s) rest (l_fail s) (l_cancel s)
                     (l_synced s) (l_last_by s) (l_committed s) (l_stores s) (l_trace s)) in *.
      assert (I0 : idle s0) by exact I.
      destruct (load_once c s0 u) as [s1 r] eqn:EL.
      destruct (load_once_idle c s0 u s1 r I0 EL) as (HS & Q1 & Hr).
      destruct r as [[id lc]|].
      * destruct Hr as (-> & Hid & Hsy). cbn [andb] in H.
        assert (I1 : idle (set_synced s1 id)) by (split; [cbn [set_synced l_synced l_env]; exact Hid|exact Q1]).
        destruct (IH _ _ _ _ I1 H) as [HS2 HI2]. split; [|exact HI2].
        rewrite HS2. cbn [set_synced l_stores]. rewrite HS. reflexivity.
      * injection H as <- <-. split; [rewrite HS; reflexivity|discriminate].
Qed.

(* one pass of the loop *)
Theorem loop_iter_idle fuel c has_data s s' alive :
  idle s -> loop_iter fuel c has_data s = (s', alive) ->
  l_stores s' = l_stores s /\ (alive = true -> idle s').
Proof.
  intros I H. unfold loop_iter in H.
  destruct (yield_idle P_loop_top s I) as [I1 S1].
  destruct (load_loop fuel c (yield P_loop_top s) 0) as [s2 a2] eqn:EL.
  destruct (load_loop_idle c fuel _ 0 s2 a2 I1 EL) as [S2 I2].
  destruct a2.
  - specialize (I2 eq_refl). destruct (yield_idle P_check_info s2 I2) as [[I3s I3q] S3].
    set (s3 := yield P_check_info s2) in *.
    replace (l_synced s3 <? e_last (l_env s3)) with false in H by lia.
    destruct (yield_idle P_loop_sleep s3 (conj I3s I3q)) as [I4 S4].
    destruct (l_cancel (yield P_loop_sleep s3) || match l_acts s3 with [] => true | _ :: _ => false end).
    + injection H as <- <-. split; [cbn [log l_stores]; congruence|discriminate].
    + injection H as <- <-. split; [congruence|intros _; exact I4].
  - injection H as <- <-. split; [congruence|discriminate].
Qed.

(* every later pass: an idle, quiet instance never uploads again *)
Theorem outer_loop_idle c has_data : forall fuel s,
  idle s -> l_stores (outer_loop fuel c has_data s) = l_stores s.
Proof.
  induction fuel as [|f IH]; intros s I; cbn [outer_loop]; [reflexivity|].
  destruct (loop_iter (S f) c has_data s) as [s' alive] eqn:E.
  destruct (loop_iter_idle _ _ _ _ _ _ I E) as [HS HI].
  destruct alive; [rewrite (IH s' (HI eq_refl)); exact HS|exact HS].
Qed.
