(* Instance/LoopPublish.v — publication on the EXECUTABLE loop machine (C09 one level down): with a pending local
   change (lastSynced < LastTxnID), nothing else happening and the storage healthy, ONE pass of the loop uploads
   a snapshot — exactly what SendOnce's transaction dumped from the environment of that moment — records it as
   synced and leaves the instance idle (after which LoopQuiet shows it never uploads again). *)
From LS Require Import Base.Bytes Base.Res Merge.Model Strategy.Model Shadow.Model Instance.Model Instance.SyncLoop
  Instance.Ids Instance.StepShapes Instance.Committed Instance.LoopQuiet.
From Coq Require Import ZifyN ZifyNat ZifyBool.
Open Scope N_scope.

(* nothing at all is scheduled: no application commit, no injected snapshot, no storage fault, no cancel *)
Definition still (s : lstate) : Prop :=
  Forall (fun a => a = []) (l_acts s) /\ l_pending s = [] /\ l_fail s = 0 /\ l_cancel s = false.

Lemma yield_still p s : still s ->
  still (yield p s) /\ l_env (yield p s) = l_env s /\ l_synced (yield p s) = l_synced s /\
  l_stores (yield p s) = l_stores s /\ l_last_by (yield p s) = l_last_by s /\ l_clock0 (yield p s) = l_clock0 s.
Proof.
  intros (A & P & F & C). unfold yield, still. destruct (l_acts s) as [|a r] eqn:E.
  - cbn. repeat split; auto.
  - inversion A as [|? ? Ha Hr]; subst. cbn [fold_left]. cbn. repeat split; auto.
Qed.

Lemma set_env_still s e : still s -> still (set_env s e).
Proof. intros H; exact H. Qed.

(* SendOnce with nothing else happening and the storage healthy *)
Lemma send_once_still c s e' T ds :
  still s -> i_receive_only c = false ->
  send_txn c (l_env s) (now_of (yield P_send_begin s)) 0 = Ok (e', T, ds) ->
  exists s', send_once c s = (s', Some (e_last e')) /\ still s' /\ l_env s' = e' /\
    l_stores s' = (now_of (yield P_send_begin s), e_last e', ds) :: l_stores s /\
    l_synced s' = l_synced s /\ l_committed s' = l_last_by s /\ l_last_by s' = l_last_by s.
Proof.
  intros St Hro Hs.
  destruct (yield_still P_send_begin s St) as (St1 & E1 & Sy1 & So1 & Lb1 & _).
  remember (yield P_send_begin s) as s1 eqn:R1.
  destruct (yield_still P_send_after_txn (set_env s1 e') St1) as (St2 & E2 & Sy2 & So2 & Lb2 & _).
  remember (yield P_send_after_txn (set_env s1 e')) as s2 eqn:R2.
  destruct (yield_still P_send_before_store s2 St2) as (St3 & E3 & Sy3 & So3 & Lb3 & _).
  remember (yield P_send_before_store s2) as s3 eqn:R3.
  assert (Hid : adjust_id T (e_last (l_env s2)) = e_last e').
  { rewrite E2. cbn [set_env l_env]. pose proof (send_txn_shape _ _ _ _ _ _ _ Hs) as Hshape.
    unfold adjust_id. destruct (i_native c).
    - destruct Hshape as [-> ->]. replace (e_last (l_env s) <? e_last (l_env s)) with false by lia. reflexivity.
    - destruct Hshape as [HT [He|He]]; rewrite He; [replace (e_last (l_env s) <? T) with true by lia|replace (T <? T) with false by lia]; reflexivity. }
  destruct St3 as (A3 & P3 & F3 & C3).
  set (s4 := mkL (l_env s3) (l_acts s3) (l_yi s3) (l_clock0 s3) (l_pending s3) (l_fail s3) (l_cancel s3)
               (l_synced s3) (l_last_by s3) (l_committed s3) ((now_of s1, e_last e', ds) :: l_stores s3)
               (TStore true (now_of s1) (e_last e') ds :: l_trace s3)).
  assert (St4 : still s4) by (repeat split; assumption).
  destruct (yield_still P_send_end s4 St4) as (St5 & E5 & Sy5 & So5 & Lb5 & _).
  remember (yield P_send_end s4) as s5 eqn:R5.
  eexists. split.
  - unfold send_once. rewrite <- R1, E1, Hs, <- R2, Hro, <- R3, Hid.
    cbn [StorageRetryCount store_loop]. replace (0 <? l_fail s3) with false by (rewrite F3; reflexivity).
    fold s4. rewrite <- R5. reflexivity.
  - cbn [l_acts l_pending l_fail l_cancel l_env l_stores l_synced l_committed l_last_by still].
    split; [exact St5|]. split; [rewrite E5; cbn [s4 l_env]; rewrite E3, E2; reflexivity|].
    split; [rewrite So5; cbn [s4 l_stores]; rewrite So3, So2; cbn [set_env l_stores]; rewrite So1; reflexivity|].
    split; [rewrite Sy5; cbn [s4 l_synced]; rewrite Sy3, Sy2; cbn [set_env l_synced]; exact Sy1|].
    split; [|]; rewrite Lb5; cbn [s4 l_last_by]; rewrite Lb3, Lb2; cbn [set_env l_last_by]; exact Lb1.
Qed.

Theorem loop_iter_publishes fuel c has_data s s' alive :
  still s -> i_receive_only c = false -> (0 < fuel)%nat ->
  l_synced s < e_last (l_env s) ->
  (forall now, exists r, send_txn c (l_env s) now 0 = Ok r) ->
  loop_iter fuel c has_data s = (s', alive) ->
  exists now e' T ds,
    send_txn c (l_env s) now 0 = Ok (e', T, ds) /\
    l_stores s' = (now, e_last e', ds) :: l_stores s /\
    l_env s' = e' /\ l_synced s' = e_last e' /\ l_committed s' = l_last_by s /\ still s'.
Proof.
  intros St Hro Hf Hlt Hsend H. unfold loop_iter in H.
  destruct (yield_still P_loop_top s St) as (St1 & E1 & Sy1 & So1 & Lb1 & _).
  remember (yield P_loop_top s) as s1 eqn:R1.
  destruct fuel as [|f]; [lia|]. cbn [load_loop] in H.
  pose proof St1 as (A1 & P1 & F1 & C1). rewrite P1 in H.
  destruct (yield_still P_check_info s1 St1) as (St2 & E2 & Sy2 & So2 & Lb2 & _).
  remember (yield P_check_info s1) as s2 eqn:R2.
  replace (l_synced s2 <? e_last (l_env s2)) with true in H by (rewrite Sy2, Sy1, E2, E1; lia).
  replace (has_data || (0 <? e_last (l_env s2))) with true in H
    by (rewrite E2, E1; replace (0 <? e_last (l_env s)) with true by lia; rewrite orb_true_r; reflexivity).
  remember (set_synced s2 (e_last (l_env s2))) as s3 eqn:R3.
  assert (St3 : still s3) by (rewrite R3; exact St2).
  assert (E3 : l_env s3 = l_env s) by (rewrite R3; cbn [set_synced l_env]; rewrite E2, E1; reflexivity).
  destruct (Hsend (now_of (yield P_send_begin s3))) as [[[e' T] ds] Hs].
  rewrite <- E3 in Hs.
  destruct (send_once_still c s3 e' T ds St3 Hro Hs) as (s4 & HS & St4 & E4 & So4 & Sy4 & Co4 & Lb4).
  rewrite HS in H. rewrite E3 in Hs.
  exists (now_of (yield P_send_begin s3)), e', T, ds. split; [exact Hs|].
  remember (set_synced s4 (e_last e')) as s5 eqn:R5.
  assert (St5 : still s5) by (rewrite R5; exact St4).
  destruct (yield_still P_loop_sleep s5 St5) as (StZ & EZ & SZ & SoZ & _).
  destruct (yield_book P_loop_sleep s5) as (_ & _ & BC & _).
  assert (R : l_stores s5 = (now_of (yield P_send_begin s3), e_last e', ds) :: l_stores s /\ l_env s5 = e' /\
              l_synced s5 = e_last e' /\ l_committed s5 = l_last_by s).
  { rewrite R5. cbn [set_synced l_stores l_env l_synced l_committed]. rewrite So4, Co4, R3.
    cbn [set_synced l_stores l_last_by]. rewrite So2, So1, Lb2, Lb1. auto. }
  destruct (l_cancel (yield P_loop_sleep s5) || match l_acts s5 with [] => true | _ :: _ => false end);
    injection H as <- <-; cbn [log l_stores l_env l_synced l_committed];
    rewrite ?SoZ, ?EZ, ?SZ, ?BC; (split; [apply R|]); (split; [apply R|]); (split; [apply R|]); (split; [apply R|]); exact StZ.
Qed.

Lemma still_idle s : still s -> l_synced s = e_last (l_env s) -> idle s.
Proof.
  intros (A & _) H. split; [exact H|]. unfold quiet_acts. eapply Forall_impl; [|exact A].
  intros a ->. reflexivity.
Qed.

(* ... and that is the last upload: whatever the loop does afterwards (any number of further passes), the
   uploads stay exactly these *)
Theorem publishes_exactly_once fuel fuel' c has_data s s' :
  still s -> i_receive_only c = false -> (0 < fuel)%nat ->
  l_synced s < e_last (l_env s) ->
  (forall now, exists r, send_txn c (l_env s) now 0 = Ok r) ->
  loop_iter fuel c has_data s = (s', true) ->
  exists now e' T ds,
    send_txn c (l_env s) now 0 = Ok (e', T, ds) /\
    l_stores (outer_loop fuel' c has_data s') = (now, e_last e', ds) :: l_stores s.
Proof.
  intros St Hro Hf Hlt Hsend H.
  destruct (loop_iter_publishes fuel c has_data s s' true St Hro Hf Hlt Hsend H) as (now & e' & T & ds & Hs & So & E & Sy & _ & St').
  exists now, e', T, ds. split; [exact Hs|].
  rewrite (outer_loop_idle c has_data fuel' s'); [exact So|].
  apply still_idle; [exact St'|]. rewrite Sy, E. reflexivity.
Qed.
