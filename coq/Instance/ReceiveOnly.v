(* Instance/ReceiveOnly.v — a receive-only instance captures application changes exactly like any other
   instance (shadow mode): the option only suppresses the dump. *)
From LS Require Import Base.Bytes Base.Res Merge.Model Strategy.Model Shadow.Model Instance.Model.
Open Scope N_scope.

(* the capture over all DBIs never looks at the receive-only option *)
Lemma m2s_loop_ro c1 c2 now T cutoff names : forall st,
  i_duphack c1 = i_duphack c2 -> i_cancelled c1 = i_cancelled c2 ->
  m2s_loop c1 now T cutoff names st = m2s_loop c2 now T cutoff names st.
Proof.
  induction names as [|name names IH]; intros st Hd Hc; [reflexivity|].
  cbn [m2s_loop]. destruct (has_prefix sync_prefix name); [apply IH; auto|].
  destruct (find_dbi (fst st) name) as [m|]; [|reflexivity].
  rewrite Hd, Hc.
  destruct (has_flag (d_flags m) DupSortFlag && negb (i_duphack c2)); [reflexivity|].
  destruct (find_dbi (fst st) (shadow_prefix ++ name)) as [sh|].
  - match goal with |- match ?r with _ => _ end = _ => destruct r; try reflexivity end. apply IH; auto.
  - match goal with |- match ?r with _ => _ end = _ => destruct r; try reflexivity end. apply IH; auto.
Qed.

(* SendOnce of a receive-only instance leaves the SAME environment (same captured versions, same LastTxnID) and
   returns the same transaction id as it would without the option; only the dump is empty *)
Theorem send_receive_only_captures c c2 e now cutoff e' T ds :
  i_receive_only c = true ->
  i_native c2 = i_native c -> i_duphack c2 = i_duphack c -> i_padding c2 = i_padding c ->
  i_cancelled c2 = i_cancelled c -> i_receive_only c2 = false ->
  send_txn c2 e now cutoff = Ok (e', T, ds) ->
  send_txn c e now cutoff = Ok (e', T, []).
Proof.
  intros Hr Hn Hd Hp Hc Hr2 H. unfold send_txn in *. rewrite Hr. rewrite Hr2, Hn in H.
  destruct (i_native c).
  - destruct (dump_loop c2 (e_dbis e) (dbi_names (e_dbis e))); try discriminate.
    injection H as <- <- _. reflexivity.
  - unfold main_to_shadow_all in *.
    rewrite (m2s_loop_ro c c2 now (e_last e + 1) cutoff (dbi_names (fst (e_dbis e, false))) (e_dbis e, false)) by auto.
    destruct (m2s_loop c2 now (e_last e + 1) cutoff (dbi_names (fst (e_dbis e, false))) (e_dbis e, false)) as [st| | |]; try discriminate.
    destruct (dump_loop c2 (fst st) (dbi_names (fst st))); try discriminate.
    injection H as <- <- _. reflexivity.
Qed.
