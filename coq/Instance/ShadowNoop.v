(* Instance/ShadowNoop.v — shadow mode: the projection onto the application DBI is a function of the
   shadow DBI alone, and a LoadOnce that finds nothing newer and no local change commits nothing (C10). *)
From LS Require Import Base.Bytes Base.BytesProofs Base.Res Header.Model Merge.Model Merge.Version Merge.Proofs
  Strategy.Model Strategy.Order Strategy.Proofs DupSort.Model Shadow.Model Shadow.Proofs Instance.Model Instance.Proofs.
From Coq Require Import ZifyN ZifyNat ZifyBool.
Open Scope N_scope.

(* what shadowToMain leaves in a non-DUPSORT application DBI: the entries with a non-empty application
   value, in the order of the shadow DBI *)
Fixpoint proj (l : list kv) : db :=
  match l with
  | [] => []
  | e :: l' => keep (k_key e) (k_val e) (proj l')
  end.

Section Proj.
  Variable cmp : bytes -> bytes -> comparison.
  Variable dom : bytes -> Prop.
  Hypothesis ORD : ord_ok cmp dom.

  Notation iu := (iu cmp kv k_key plain_m plain_clean).
  Notation iu_inner := (iu_inner cmp kv k_key plain_m plain_clean).

  Lemma iu_eof_plain d : iu_eof plain_clean d = Ok [].
  Proof.
    induction d as [|[dk dv] d IH]; [reflexivity|]. cbn [iu_eof]. unfold plain_clean at 1. rewrite IH. reflexivity.
  Qed.

  Lemma iu_inner_plain e rec r d :
    dom (k_key e) -> Forall dom (keys d) ->
    (forall d', Forall dom (keys d') -> rec d' = Ok r) ->
    iu_inner e true rec d = Ok (keep (k_key e) (k_val e) r).
  Proof.
    intros Hk Hd Hrec. induction d as [|[dk dv] d IH].
    - cbn [Model.iu_inner]. unfold plain_m, plain_merge, iu_continue. rewrite Hrec by constructor. reflexivity.
    - cbn [keys map fst] in Hd. inversion Hd as [|? ? Hdk Hd']; subst.
      cbn [Model.iu_inner]. destruct (cmp dk (k_key e)) eqn:C.
      + unfold plain_m, plain_merge, iu_continue. rewrite Hrec by exact Hd'.
        assert (dk = k_key e) as -> by (apply (o_eq _ _ ORD); auto). reflexivity.
      + unfold plain_clean at 1. rewrite (IH Hd'). reflexivity.
      + unfold plain_m, plain_merge, iu_continue. rewrite Hrec by exact Hd. reflexivity.
  Qed.

  (* IterUpdate with the PlainIterator: the result does not depend on what the application DBI held *)
  Theorem iu_plain l : forall d,
    sorted cmp dom (ekeys kv k_key l) -> Forall dom (keys d) -> iu l d = Ok (proj l).
  Proof.
    induction l as [|e l IH]; intros d Hl Hd.
    - cbn [Model.iu proj]. apply iu_eof_plain.
    - cbn [Model.iu proj]. rewrite (next_ok_true cmp dom kv k_key e l Hl).
      cbn [ekeys map] in Hl. apply (sorted_cons_inv cmp dom) in Hl. destruct Hl as (Hk & _ & Hl').
      apply iu_inner_plain; auto.
  Qed.
End Proj.

(* shadowToMain of one non-DUPSORT DBI: exactly [proj] of the shadow DBI's entries, whatever the application
   DBI held before (so local garbage is overwritten and a second run changes nothing) *)
Theorem shadow_to_main_exact flags dom main shadow l :
  ord_ok (dbi_cmp flags) dom ->
  sorted (dbi_cmp flags) dom (keys shadow) -> Forall dom (keys main) ->
  read_hdr shadow = Ok l ->
  shadow_to_main flags main shadow = Ok (proj l).
Proof.
  intros ORD Hs Hm Hr. unfold shadow_to_main. rewrite Hr. unfold iter_update.
  apply (iu_plain (dbi_cmp flags) dom ORD); [|exact Hm].
  rewrite (read_hdr_keys shadow l Hr). exact Hs.
Qed.

(* ---------- the whole LoadOnce transaction in shadow mode ---------- *)

(* the mirror invariant of one public DBI: not DUPSORT, its shadow DBI exists, parses, is in key order, and
   the application DBI is exactly the projection of the shadow DBI *)
Definition mirrored (ds : dbis) (name : bytes) : Prop :=
  exists m sh l dom,
    find_dbi ds name = Some m /\ has_flag (d_flags m) DupSortFlag = false /\
    find_dbi ds (shadow_prefix ++ name) = Some sh /\
    ord_ok (dbi_cmp (d_flags m)) dom /\
    sorted (dbi_cmp (d_flags m)) dom (keys (d_data sh)) /\ Forall dom (keys (d_data m)) /\
    read_hdr (d_data sh) = Ok l /\ d_data m = proj l.

Lemma s2m_loop_noop c names ds dirty :
  i_cancelled c = false -> dbis_sorted ds ->
  (forall name, In name names -> has_prefix sync_prefix name = false -> mirrored ds name) ->
  s2m_loop c names (ds, dirty) = Ok (ds, dirty).
Proof.
  intros Hnc Hs. induction names as [|name names IH]; intros H; [reflexivity|].
  cbn [s2m_loop]. destruct (has_prefix sync_prefix name) eqn:Ep.
  - apply IH. intros n Hn. apply H. right; exact Hn.
  - destruct (H name (or_introl eq_refl) Ep) as (m & sh & l & dom & Hm & Hdup & Hsh & ORD & Hss & Hmd & Hr & Hproj).
    cbn [fst snd]. rewrite Hm, Hdup. cbn [andb]. rewrite Hsh, Hnc.
    rewrite (shadow_to_main_exact (d_flags m) dom (d_data m) (d_data sh) l ORD Hss Hmd Hr).
    rewrite <- Hproj. rewrite db_eqb_refl. cbn [negb orb]. rewrite !orb_false_r.
    destruct m as [mf md]. cbn [d_flags d_data]. rewrite (set_dbi_same ds name (mkDbi mf md) Hs Hm).
    apply IH. intros n Hn. apply H. right; exact Hn.
Qed.

(* one snapshot DBI whose entries all lose against the shadow DBI leaves the transaction state untouched *)
Theorem load_one_noop_shadow c fmt compat T cutoff d st m t :
  i_native c = false -> i_cancelled c = false -> dbis_sorted (fst st) ->
  has_prefix sync_prefix (sd_name d) = false ->
  validate_transform fmt false d = Ok tt ->
  new_native_iterator fmt compat T = Ok tt ->
  find_dbi (fst st) (sd_name d) = Some m ->
  find_dbi (fst st) (shadow_prefix ++ sd_name d) = Some t ->
  (forall e, In e (sd_entries d) -> loses (mkCfg fmt 0 T (i_padding c) cutoff) (d_data t) (dbi_cmp (d_flags t)) e) ->
  load_one c fmt compat T cutoff d st = Ok st.
Proof.
  intros Hn Hnc Hs Hp Hv Hg Hm Hf Hl. unfold load_one. rewrite Hp, Hn, Hv, Hm, Hf, Hg.
  rewrite (update_noop (dbi_cmp (d_flags t)) kv k_key _ (d_data t) (sd_entries d)).
  - rewrite Hnc, db_eqb_refl. cbn [negb]. rewrite !orb_false_r.
    destruct t as [tf td]. cbn [d_flags d_data].
    rewrite (set_dbi_same (fst st) (shadow_prefix ++ sd_name d) (mkDbi tf td) Hs Hf).
    destruct st; reflexivity.
  - intros e He. destruct (Hl e He) as (h & app & Hne & Hp' & Hw). split; [exact Hne|].
    apply (merge_bytes_untouched _ _ h app); auto.
Qed.

Definition nothing_newer (c : icfg) (fmt T cutoff : N) (ds : dbis) (d : sdbi) : Prop :=
  has_prefix sync_prefix (sd_name d) = true \/
  (has_prefix sync_prefix (sd_name d) = false /\ validate_transform fmt false d = Ok tt /\
   exists m t, find_dbi ds (sd_name d) = Some m /\ find_dbi ds (shadow_prefix ++ sd_name d) = Some t /\
     forall x, In x (sd_entries d) -> loses (mkCfg fmt 0 T (i_padding c) cutoff) (d_data t) (dbi_cmp (d_flags t)) x).

Theorem load_dbis_noop_shadow c fmt compat T cutoff ds st :
  i_native c = false -> i_cancelled c = false -> dbis_sorted (fst st) ->
  new_native_iterator fmt compat T = Ok tt ->
  (forall d, In d ds -> nothing_newer c fmt T cutoff (fst st) d) ->
  load_dbis c fmt compat T cutoff ds st = Ok st.
Proof.
  intros Hn Hnc Hs Hg. induction ds as [|d ds IH]; intros H; [reflexivity|].
  cbn [load_dbis]. destruct (H d (or_introl eq_refl)) as [Hp|(Hp & Hv & m & t & Hm & Hf & Hl)].
  - rewrite private_skipped by exact Hp. apply IH. intros d0 Hd0. apply H. right; exact Hd0.
  - rewrite (load_one_noop_shadow c fmt compat T cutoff d st m t); auto.
    apply IH. intros d0 Hd0. apply H. right; exact Hd0.
Qed.

(* LoadOnce in shadow mode, no local change since the last sync (lastSynced >= LastTxnID), a snapshot with
   nothing newer, every public DBI mirrored and none of them DUPSORT: NO LMDB transaction is committed
   (environment and LastTxnID unchanged), localChanged is false, and the id handed back to the loop is
   LastTxnID — so the upload check that follows finds nothing to send *)
Theorem load_txn_noop_shadow c e s ls now cutoff :
  i_native c = false -> i_cancelled c = false -> dbis_sorted (e_dbis e) ->
  e_last e <= ls ->
  new_native_iterator (sn_fmt s) (sn_compat s) (e_last e + 1) = Ok tt ->
  (forall d, In d (sn_dbis s) -> nothing_newer c (sn_fmt s) (e_last e + 1) cutoff (e_dbis e) d) ->
  (forall name, In name (dbi_names (e_dbis e)) -> has_prefix sync_prefix name = false -> mirrored (e_dbis e) name) ->
  load_txn c e s ls now cutoff = Ok (e, e_last e + 1, false)
  /\ adjust_id (e_last e + 1) (e_last e) = e_last e.
Proof.
  intros Hn Hnc Hs Hls Hg Hnew Hmir. split.
  - unfold load_txn. rewrite Hg, Hn.
    replace (ls <? e_last e + 1 - 1) with false by lia. cbn [negb andb].
    rewrite (load_dbis_noop_shadow c _ _ _ cutoff (sn_dbis s) (e_dbis e, false)); auto.
    unfold shadow_to_main_all. cbn [fst]. rewrite (s2m_loop_noop c _ (e_dbis e) false Hnc Hs Hmir).
    cbn [fst snd]. destruct e; reflexivity.
  - unfold adjust_id. replace (e_last e <? e_last e + 1) with true by lia. reflexivity.
Qed.

(* the invariant is what LoadOnce itself establishes: right after a projection the application DBI is
   [proj] of the shadow DBI (shadow_to_main_exact), whatever it held before *)
