(* Instance/IdsProofs.v — invariants of the id bookkeeping for every interleaving without a window commit,
   and the refutation when a window commit is allowed (finding F8). *)
From Coq Require Import List NArith Lia Bool.
From Coq Require Import ZifyN ZifyBool.
From LS Require Import Instance.Ids.
Import ListNotations.
Open Scope N_scope.

Section P.
  Variable shadow : bool.

  Lemma adjust_le T l : adjust T l <= l.
  Proof. unfold adjust. destruct (l <? T) eqn:E; lia. Qed.

  Lemma inv_init l : inv shadow (init l).
  Proof. unfold inv, init; cbn. repeat split; intros; try contradiction; try lia. Qed.

  Lemma inv_step_nw s s' : inv shadow s -> step_nw shadow s s' -> inv shadow s'.
  Proof.
    intros (I1 & I2 & I3 & I4 & I5) H. inversion H as [s0 Hne Hnw|s0 s0' Hst Happs]; subst.
    - (* application commit outside the window *)
      unfold inv; cbn [last synced cap pub apps at_].
      split; [lia|]. split; [intros a [<-|Ha]; [lia|specialize (I2 a Ha); lia]|].
      split; [intros a [<-|Ha] Hle; [lia|apply I3; auto]|].
      split; [intros Hs a [<-|Ha] Hle; [lia|apply I4; auto]|].
      unfold in_window in Hnw.
      destruct (at_ s) as [|T lc la| |T dumped la|id dumped|] eqn:Ep; auto.
      + destruct I5 as (J1 & J2 & J3 & J4 & J5 & J6 & J7).
        assert (la = T) by lia. subst la.
        repeat split; try lia; auto.
        * intros a [<-|Ha]; [right; lia|apply J5, Ha].
        * intros Hs a [<-|Ha] Hle; [lia|apply J7; auto].
      + destruct I5 as (J1 & J2 & J3 & J4 & J5 & J6 & J7 & J8 & J9).
        assert (la = T) by lia. subst la.
        repeat split; try lia; auto.
        * intros a [<-|Ha]; [right; lia|apply J8, Ha].
        * intros Hs a [<-|Ha] Hle; [lia|apply J9; auto].
      + destruct I5 as (J1 & J2 & J3).
        repeat split; try lia.
        * intros a [<-|Ha] Hle; [lia|apply J2; auto].
        * intros Hs a [<-|Ha] Hle; [lia|apply J3; auto].
    - (* Lightning Stream's own steps *)
      inversion Hst as [s1 Hne|s1 dirty Hp T lc la|s1 T lc la Hp|s1 Hp Hlt|s1 dirty Hp T la|s1 T dumped la Hp|s1 id dumped Hp|s1 id dumped Hp]; subst; cbn [apps] in Happs.
      + (* s_app cannot keep apps unchanged *)
        exfalso. clear -Happs. induction (apps s) as [|x l IH]; [discriminate|]. injection Happs as E1 E2.
        assert (Hlen : length (last s + 1 :: x :: l) = length (x :: l)) by (f_equal; congruence). cbn in Hlen. lia.
      + (* load transaction *)
        rewrite Hp in I5. unfold inv; cbn [last synced cap pub apps at_].
        assert (Hla : la = T \/ la = last s) by (unfold la; destruct dirty; auto).
        assert (HT : T = last s + 1) by reflexivity.
        split; [destruct Hla; lia|]. split; [intros a Ha; specialize (I2 a Ha); destruct Hla; lia|].
        split; [exact I3|].
        split.
        { intros Hs a Ha Hle. rewrite Hs. cbn [andb]. destruct lc eqn:Elc; [|apply I4; auto].
          specialize (I2 a Ha). lia. }
        split; [destruct Hla; lia|]. split; [destruct Hla; lia|]. split; [lia|].
        split; [intros Hlt; destruct Hla; lia|].
        split; [intros a Ha; left; specialize (I2 a Ha); lia|].
        split; [intros Hlc; unfold lc in Hlc; lia|].
        intros Hs a Ha Hle. rewrite Hs. cbn [andb]. destruct lc eqn:Elc.
        * specialize (I2 a Ha). lia.
        * unfold lc in Elc. apply I4; auto. lia.
      + (* env.Info() after a load *)
        rewrite Hp in I5. destruct I5 as (J1 & J2 & J3 & J4 & J5 & J6 & J7).
        unfold inv; cbn [last synced cap pub apps at_].
        pose proof (adjust_le T (last s)) as Hadj.
        destruct lc.
        * repeat split; auto.
        * specialize (J6 eq_refl).
          assert (Hid : forall a, In a (apps s) -> a <= adjust T (last s) -> a <= T - 1).
          { intros a Ha Hle. destruct (J5 a Ha) as [|Hgt]; [assumption|].
            unfold adjust in Hle. destruct (last s <? T) eqn:E; lia. }
          split; [exact Hadj|]. split; [exact I2|].
          split; [intros a Ha Hle; apply I3; auto; specialize (Hid a Ha Hle); lia|].
          split; [intros Hs a Ha Hle; apply J7; auto|exact I].
      + (* upload check *)
        unfold inv; cbn [last synced cap pub apps at_]. repeat split; auto.
      + (* send transaction *)
        unfold inv; cbn [last synced cap pub apps at_].
        assert (Hla : la = T \/ la = last s) by (unfold la; destruct shadow, dirty; auto).
        assert (HT : T = (if shadow then last s + 1 else last s)) by reflexivity.
        split; [destruct Hla, shadow; lia|]. split; [intros a Ha; specialize (I2 a Ha); destruct Hla, shadow; lia|].
        split; [exact I3|].
        split.
        { intros Hs a Ha Hle. rewrite Hs. specialize (I2 a Ha). lia. }
        split; [unfold la, T; destruct shadow; [destruct dirty|]; lia|].
        split; [lia|].
        split; [intros Hlt; destruct Hla; lia|].
        split; [unfold la, T; destruct shadow; [destruct dirty|]; lia|].
        split; [unfold la, T; intros Hlt; destruct shadow; [destruct dirty|]; lia|].
        split; [intros Hs; rewrite Hs in HT; exact HT|].
        split; [intros Hs; rewrite Hs in HT; exact HT|].
        split; [intros a Ha; left; apply I2, Ha|].
        intros Hs a Ha Hle. rewrite Hs. exact Hle.
      + (* env.Info() after the dump *)
        rewrite Hp in I5. destruct I5 as (J1 & J2 & J3 & J4 & J5 & J6 & J7 & J8 & J9).
        unfold inv; cbn [last synced cap pub apps at_].
        pose proof (adjust_le T (last s)) as Hadj.
        assert (Hid : forall a, In a (apps s) -> a <= adjust T (last s) -> a <= dumped).
        { intros a Ha Hle. destruct (J8 a Ha) as [|Hgt]; [assumption|].
          unfold adjust in Hle.
          destruct shadow; [specialize (J7 eq_refl)|specialize (J6 eq_refl)];
            destruct (last s <? T) eqn:E; lia. }
        split; [exact I1|]. split; [exact I2|]. split; [exact I3|]. split; [exact I4|].
        split; [exact Hadj|]. split; [exact Hid|].
        intros Hs a Ha Hle. apply J9; auto.
      + (* Store succeeded *)
        rewrite Hp in I5. destruct I5 as (J1 & J2 & J3).
        unfold inv; cbn [last synced cap pub apps at_]. repeat split; auto.
      + (* Store failed for good *)
        unfold inv; cbn [last synced cap pub apps at_]. repeat split; auto.
  Qed.

  Theorem inv_reach l s : reach (step_nw shadow) (init l) s -> inv shadow s.
  Proof. induction 1 as [|s s' _ IH Hs]; [apply inv_init|eapply inv_step_nw; eauto]. Qed.

  (* the same invariant with forced periodic snapshots at any idle point *)
  Lemma inv_step_nw_f s s' : inv shadow s -> step_nw_f shadow s s' -> inv shadow s'.
  Proof.
    intros I H. inversion H as [s0 s0' Hnw|s0 Hp]; subst; [eapply inv_step_nw; eauto|].
    destruct I as (I1 & I2 & I3 & I4 & _).
    unfold inv; cbn [last synced cap pub apps at_]. repeat split; auto.
  Qed.
  Theorem inv_reach_f l s : reach (step_nw_f shadow) (init l) s -> inv shadow s.
  Proof. induction 1 as [|s s' _ IH Hs]; [apply inv_init|eapply inv_step_nw_f; eauto]. Qed.

  Theorem published_at_idle_f l s :
    reach (step_nw_f shadow) (init l) s -> at_ s = Top -> ~ (synced s < last s) ->
    forall a, In a (apps s) -> a <= pub s.
  Proof.
    intros Hr Hp Hn a Ha. destruct (inv_reach_f l s Hr) as (I1 & I2 & I3 & _).
    apply I3; auto. specialize (I2 a Ha). lia.
  Qed.

  (* C09 at idle: when the loop is at Top with nothing to send, every application commit of this run is in the
     newest successful upload *)
  Theorem published_at_idle l s :
    reach (step_nw shadow) (init l) s -> at_ s = Top -> ~ (synced s < last s) ->
    forall a, In a (apps s) -> a <= pub s.
  Proof.
    intros Hr Hp Hn a Ha. destruct (inv_reach l s Hr) as (I1 & I2 & I3 & _).
    apply I3; auto. specialize (I2 a Ha). lia.
  Qed.

  (* C03 (shadow mode): whenever a load transaction projects the shadow state onto the application DBIs,
     every application commit has been captured first: nothing uncaptured can be overwritten *)
  Theorem captured_before_projection l s :
    shadow = true -> reach (step_nw shadow) (init l) s -> at_ s = Top ->
    let T := last s + 1 in
    let lc := synced s <? T - 1 in
    forall a, In a (apps s) -> a <= (if lc then last s else cap s).
  Proof.
    intros Hs Hr Hp T lc a Ha. destruct (inv_reach l s Hr) as (I1 & I2 & I3 & I4 & _).
    destruct lc eqn:E; [apply I2, Ha|].
    apply (I4 Hs a Ha). unfold lc in E. specialize (I2 a Ha). lia.
  Qed.

  Theorem captured_before_projection_f l s :
    shadow = true -> reach (step_nw_f shadow) (init l) s -> at_ s = Top ->
    let T := last s + 1 in
    let lc := synced s <? T - 1 in
    forall a, In a (apps s) -> a <= (if lc then last s else cap s).
  Proof.
    intros Hs Hr Hp T lc a Ha. destruct (inv_reach_f l s Hr) as (I1 & I2 & I3 & I4 & _).
    destruct lc eqn:E; [apply I2, Ha|].
    apply (I4 Hs a Ha). unfold lc in E. specialize (I2 a Ha). lia.
  Qed.

  (* C10: a load that found no local change and is not followed by an application commit leaves nothing to
     send: no echo upload *)
  Theorem no_echo s T la :
    inv shadow s -> at_ s = LoadInfo T false la -> last s = la ->
    forall s', step shadow s s' -> apps s' = apps s -> synced s' = last s'.
  Proof.
    intros (I1 & I2 & I3 & I4 & I5) Hp Hl s' Hst Happs. rewrite Hp in I5.
    destruct I5 as (J1 & J2 & J3 & J4 & J5 & J6 & J7).
    inversion Hst as [s1 Hne|s1 dirty Hp' T0 lc0 la0|s1 T' lc' la' Hp'|s1 Hp' Hlt|s1 dirty Hp' T0 la0|s1 T' d' la' Hp'|s1 id d' Hp'|s1 id d' Hp'];
      subst; cbn [apps last synced] in *; try (rewrite Hp in Hp'; discriminate).
    - exfalso. clear -Happs. assert (Hlen : length (last s + 1 :: apps s) = length (apps s)) by congruence. cbn in Hlen. lia.
    - rewrite Hp in Hp'. injection Hp' as <- <- <-. unfold adjust. destruct (last s <? T) eqn:E; lia.
  Qed.

  (* C10: an upload is only ever started because an application commit lies above lastSynced
     (restarts aside: the model starts with synced = 0) *)
  Definition gap_has_cause (s : st) : Prop :=
    match at_ s with
    | LoadInfo _ false _ => True
    | _ => synced s < last s -> synced s = 0 \/ exists a, In a (apps s) /\ synced s < a
    end.
End P.

(* ---------- the window is real (finding F8): with an application commit inside it, a commit counts as synced
   although it is neither captured nor published ---------- *)
Theorem window_breaks_C09_C03 :
  exists s, reach (step true) (init 5) s /\ at_ s = Top /\ ~ (synced s < last s) /\
            exists a, In a (apps s) /\ pub s < a /\ cap s < a.
Proof.
  eexists. split.
  - eapply r_step. eapply r_step. eapply r_step. eapply r_step. eapply r_step. apply r_init.
    + apply s_check_send; [reflexivity|cbn; lia].
    + apply (s_send_txn true _ false). reflexivity.
    + apply s_app. cbn. discriminate.
    + eapply s_send_info. reflexivity.
    + eapply s_store_ok. reflexivity.
  - cbn. split; [reflexivity|]. split; [lia|]. exists 6. split; [left; reflexivity|]. lia.
Qed.

(* ---------- C10: every upload has a cause — for EVERY interleaving, window commits included ---------- *)
Section Cause.
  Variable shadow : bool.

  (* if there is anything above lastSynced, then an application commit lies above it (or nothing was ever synced) *)
  Definition cause (s : st) : Prop :=
    synced s < last s -> synced s = 0 \/ exists a, In a (apps s) /\ synced s < a <= last s.

  Definition fresh_are_apps (s : st) (b : N) : Prop := forall i, b < i <= last s -> In i (apps s).

  Definition hinv (s : st) : Prop :=
    synced s <= last s /\
    match at_ s with
    | Top | SendBegin => cause s
    | Exited => True
    | LoadInfo T lc la =>
        fresh_are_apps s la /\ la <= last s /\ la <= T /\
        (lc = true -> cause s) /\ (lc = false -> synced s + 1 = T)
    | SendInfo T d la => fresh_are_apps s la /\ la <= last s /\ la <= T /\ T <= la + 1
    | Storing id d => fresh_are_apps s id /\ id <= last s
    end.

  Lemma hinv_init l : hinv (init l).
  Proof. unfold hinv, init, cause; cbn. split; [lia|]. intros _. left; reflexivity. Qed.

  Lemma cause_app s :
    cause s -> cause (mkSt (last s + 1) (synced s) (cap s) (pub s) (last s + 1 :: apps s) (at_ s)).
  Proof.
    intros Hc Hgap. unfold cause in *. cbn [last synced apps] in *.
    destruct (N.eq_dec (synced s) 0) as [E0|E0]; [left; exact E0|]. right.
    destruct (N.ltb_spec (synced s) (last s)) as [Hlt|Hge].
    - destruct (Hc Hlt) as [E|(a & Hin & Hr)]; [contradiction|]. exists a. split; [right; exact Hin|lia].
    - exists (last s + 1). split; [left; reflexivity|lia].
  Qed.

  Lemma fresh_app s b : b <= last s -> fresh_are_apps s b ->
    fresh_are_apps (mkSt (last s + 1) (synced s) (cap s) (pub s) (last s + 1 :: apps s) (at_ s)) b.
  Proof.
    intros Hb Hf i Hi. cbn [last apps] in *. destruct (N.eq_dec i (last s + 1)) as [->|Hn]; [left; reflexivity|].
    right. apply Hf. lia.
  Qed.

  Lemma hinv_step s s' : hinv s -> step shadow s s' -> hinv s'.
  Proof.
    intros (H1 & H2) Hst.
    inversion Hst as [s1 Hne|s1 dirty Hp T lc la|s1 T lc la Hp|s1 Hp Hlt|s1 dirty Hp T la|s1 T d la Hp|s1 id d Hp|s1 id d Hp]; subst.
    - (* application commit *)
      unfold hinv; cbn [last synced apps at_]. split; [lia|].
      destruct (at_ s) as [|T lc la| |T d la|id d|] eqn:Ep.
      + apply cause_app. exact H2.
      + destruct H2 as (J1 & J2 & J3 & J4 & J5).
        split; [apply fresh_app; auto|]. split; [lia|]. split; [exact J3|].
        split; [intros E; apply cause_app, J4, E|exact J5].
      + apply cause_app. exact H2.
      + destruct H2 as (J1 & J2 & J3 & J4).
        split; [apply fresh_app; auto|]. split; [lia|]. split; assumption.
      + destruct H2 as (J1 & J2). split; [apply fresh_app; auto|lia].
      + exact I.
    - (* load transaction *)
      rewrite Hp in H2. unfold hinv; cbn [last synced apps at_].
      assert (Hla : la = T \/ la = last s) by (unfold la; destruct dirty; auto).
      assert (HT : T = last s + 1) by reflexivity.
      split; [destruct Hla; lia|]. split; [intros i Hi; cbn [last] in Hi; lia|]. split; [lia|]. split; [destruct Hla; lia|].
      split.
      + intros Elc Hgap. cbn [last synced apps] in *. unfold lc in Elc.
        assert (Hlt : synced s < last s) by lia.
        destruct (H2 Hlt) as [E0|(a & Hin & Hr)]; [left; exact E0|]. right. exists a. split; [exact Hin|destruct Hla; lia].
      + intros Elc. unfold lc in Elc. lia.
    - (* env.Info() after a load *)
      rewrite Hp in H2. destruct H2 as (J1 & J2 & J3 & J4 & J5).
      unfold hinv; cbn [last synced apps at_].
      assert (Hadj : adjust T (last s) <= last s) by (unfold adjust; destruct (last s <? T) eqn:Eadj; lia).
      destruct lc.
      + split; [exact H1|]. apply J4. reflexivity.
      + split; [exact Hadj|]. specialize (J5 eq_refl).
        intros Hgap. cbn [last synced apps] in *. right.
        unfold adjust in *. destruct (last s <? T) eqn:E; [lia|].
        exists (T + 1). split; [apply J1; lia|lia].
    - (* upload check *)
      unfold hinv; cbn [last synced apps at_]. split; [exact H1|]. rewrite Hp in H2. exact H2.
    - (* send transaction *)
      unfold hinv; cbn [last synced apps at_].
      split; [unfold la, T; destruct shadow; [destruct dirty|]; lia|].
      split; [intros i Hi; cbn [last] in Hi; lia|]. split; [lia|].
      unfold la, T; destruct shadow; [destruct dirty|]; split; lia.
    - (* env.Info() after the dump *)
      rewrite Hp in H2. destruct H2 as (J1 & J2 & J3 & J4).
      unfold hinv; cbn [last synced apps at_]. split; [exact H1|].
      unfold adjust. destruct (last s <? T) eqn:E.
      + split; [intros i Hi; cbn [last] in Hi; lia|lia].
      + split; [intros i Hi; cbn [last] in Hi; apply J1; lia|lia].
    - (* Store succeeded *)
      rewrite Hp in H2. destruct H2 as (J1 & J2).
      unfold hinv; cbn [last synced apps at_]. split; [exact J2|].
      intros Hgap. cbn [last synced apps] in *. right. exists (id + 1). split; [apply J1; lia|lia].
    - (* Store failed for good: the loop has returned *)
      unfold hinv; cbn [last synced apps at_]. split; [exact H1|exact I].
  Qed.

  Theorem hinv_reach l s : reach (step shadow) (init l) s -> hinv s.
  Proof. induction 1 as [|s s' _ IH Hs]; [apply hinv_init|eapply hinv_step; eauto]. Qed.

  (* an upload starts (s_check_send) only when an application commit lies above lastSynced, or nothing was
     ever synced in this run (start-up) *)
  Theorem upload_has_cause l s s' :
    reach (step shadow) (init l) s -> step shadow s s' -> at_ s' = SendBegin -> apps s' = apps s ->
    synced s = 0 \/ exists a, In a (apps s) /\ synced s < a <= last s.
  Proof.
    intros Hr Hst Hp' Happs. destruct (hinv_reach l s Hr) as (H1 & H2).
    inversion Hst as [s1 Hne|s1 dirty Hp T lc la|s1 T lc la Hp|s1 Hp Hlt|s1 dirty Hp T la|s1 T d la Hp|s1 id d Hp|s1 id d Hp];
      subst; cbn [at_ apps] in *; try discriminate.
    - exfalso. clear -Happs. assert (Hlen : length (last s + 1 :: apps s) = length (apps s)) by congruence. cbn in Hlen. lia.
    - rewrite Hp in H2. apply H2, Hlt.
  Qed.
End Cause.
