(* Instance/Ids.v — the transaction-id bookkeeping of the sync loop as a small transition system, with
   EVERY interleaving of application commits.  It abstracts Instance/SyncLoop.v to numbers:
     last    LMDB LastTxnID                       synced  lastSyncedTxnID
     cap     highest application commit captured into the shadow DBIs (shadow mode)
     pub     highest application commit contained in the newest successful upload
     apps    ghost: the ids of all application commits
   One step = one atomic action of the loop (an LMDB transaction, an env.Info() read, a Store call) or one
   application commit, which may happen between any two of them.  LMDB rule: a write transaction gets id
   last+1 and is recorded only if it dirtied something; a read transaction has id last.
   The correspondence files evaluate this system next to the executable machine on every replayed schedule. *)
From Coq Require Import List NArith Lia Bool.
From Coq Require Import ZifyN ZifyBool.
Import ListNotations.
Open Scope N_scope.

Inductive pc :=
| Top                                   (* between loads / before the upload check *)
| LoadInfo (T : N) (lc : bool) (la : N) (* LoadOnce: transaction done, before env.Info(); la = LastTxnID right after it *)
| SendBegin                             (* the check found last > synced; SendOnce not yet in its transaction *)
| SendInfo (T dumped la : N)            (* SendOnce: transaction done, before env.Info() *)
| Storing (id dumped : N)               (* before / between Store calls *)
| Exited.

Record st := mkSt { last : N; synced : N; cap : N; pub : N; apps : list N; at_ : pc }.

Section Ids.
  Variable shadow : bool.

  Definition adjust (T l : N) : N := if l <? T then l else T.

  Inductive step : st -> st -> Prop :=
  | s_app s :                                             (* the application commits, at ANY point *)
      at_ s <> Exited ->
      step s (mkSt (last s + 1) (synced s) (cap s) (pub s) (last s + 1 :: apps s) (at_ s))
  | s_load_txn s (dirty : bool) :                         (* LoadOnce's write transaction *)
      at_ s = Top ->
      let T := last s + 1 in
      let lc := synced s <? T - 1 in
      let la := if dirty then T else last s in
      step s (mkSt la (synced s) (if shadow && lc then last s else cap s) (pub s) (apps s) (LoadInfo T lc la))
  | s_load_info s T lc la :                               (* env.Info() + the bookkeeping after a load *)
      at_ s = LoadInfo T lc la ->
      step s (mkSt (last s) (if lc then synced s else adjust T (last s)) (cap s) (pub s) (apps s) Top)
  | s_check_send s :                                      (* the upload check: something to send *)
      at_ s = Top -> synced s < last s ->
      step s (mkSt (last s) (synced s) (cap s) (pub s) (apps s) SendBegin)
  | s_send_txn s (dirty : bool) :                         (* SendOnce's transaction: read txn (native) / write txn (shadow) *)
      at_ s = SendBegin ->
      let T := if shadow then last s + 1 else last s in
      let la := if shadow then (if dirty then T else last s) else last s in
      step s (mkSt la (synced s) (if shadow then last s else cap s) (pub s) (apps s) (SendInfo T (last s) la))
  | s_send_info s T dumped la :                           (* env.Info() after the dump *)
      at_ s = SendInfo T dumped la ->
      step s (mkSt (last s) (synced s) (cap s) (pub s) (apps s) (Storing (adjust T (last s)) dumped))
  | s_store_ok s id dumped :
      at_ s = Storing id dumped ->
      step s (mkSt (last s) id (cap s) dumped (apps s) Top)
  | s_store_fail s id dumped :                            (* retries exhausted: the loop returns *)
      at_ s = Storing id dumped ->
      step s (mkSt (last s) (synced s) (cap s) (pub s) (apps s) Exited).

  (* THE WINDOW (finding F8): an application commit between one of LS's own write transactions that recorded
     nothing (la < T) and the following env.Info() *)
  Definition in_window (s : st) : Prop :=
    match at_ s with
    | LoadInfo T _ la => la < T
    | SendInfo T _ la => la < T
    | _ => False
    end.

  (* steps that are not an application commit inside the window *)
  Inductive step_nw : st -> st -> Prop :=
  | nw_app s : at_ s <> Exited -> ~ in_window s ->
      step_nw s (mkSt (last s + 1) (synced s) (cap s) (pub s) (last s + 1 :: apps s) (at_ s))
  | nw_other s s' : step s s' -> apps s' = apps s -> step_nw s s'.

  (* ... plus FORCED periodic snapshots (storage_force_snapshot_interval): at the upload check the loop may go on
     to SendOnce although it saw no local change (snapshotOverdue) *)
  Inductive step_nw_f : st -> st -> Prop :=
  | nwf_nw s s' : step_nw s s' -> step_nw_f s s'
  | nwf_forced s : at_ s = Top ->
      step_nw_f s (mkSt (last s) (synced s) (cap s) (pub s) (apps s) SendBegin).

  Inductive reach (R : st -> st -> Prop) (s0 : st) : st -> Prop :=
  | r_init : reach R s0 s0
  | r_step s s' : reach R s0 s -> R s s' -> reach R s0 s'.

  Definition init (l : N) : st := mkSt l 0 0 0 [] Top.
  (* start: whatever is in the LMDB at start-up (ids <= l) is not an application commit of this run *)

  (* ---------- the invariant ---------- *)
  Definition apps_le (s : st) (b : N) : Prop := forall a, In a (apps s) -> a <= b.

  Definition inv (s : st) : Prop :=
    synced s <= last s /\
    (forall a, In a (apps s) -> a <= last s) /\
    (* C09: what counts as synced has been published *)
    (forall a, In a (apps s) -> a <= synced s -> a <= pub s) /\
    (* C03 (shadow): what counts as synced has been captured *)
    (shadow = true -> forall a, In a (apps s) -> a <= synced s -> a <= cap s) /\
    match at_ s with
    | LoadInfo T lc la =>
        T <= la + 1 /\ la <= T /\ la <= last s /\ (la < T -> last s = la) /\
        (* commits since the transaction are above la; everything up to la was there before it *)
        (forall a, In a (apps s) -> a <= T - 1 \/ la < a) /\
        (lc = false -> synced s = T - 1) /\
        (shadow = true -> forall a, In a (apps s) -> a <= T - 1 -> a <= cap s)
    | SendInfo T dumped la =>
        la <= T /\ la <= last s /\ (la < T -> last s = la) /\ dumped <= la /\ (la < T -> dumped = la) /\
        (shadow = false -> T = dumped) /\ (shadow = true -> T = dumped + 1) /\
        (forall a, In a (apps s) -> a <= dumped \/ la < a) /\
        (shadow = true -> forall a, In a (apps s) -> a <= dumped -> a <= cap s)
    | Storing id dumped =>
        id <= last s /\ (forall a, In a (apps s) -> a <= id -> a <= dumped) /\
        (shadow = true -> forall a, In a (apps s) -> a <= id -> a <= cap s)
    | _ => True
    end.
End Ids.
