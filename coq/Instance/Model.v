(* Instance/Model.v — one instance: the LMDB environment and Lightning Stream's two transactions.
   Mirrors syncer/sync.go LoadOnce (transaction body), syncer/send.go SendOnce (transaction body),
   syncer/shadow.go mainToShadow/shadowToMain over ALL DBIs, snapshot/transforms.go ValidateTransform,
   lmdbenv ReadDBINames order. LMDB assumptions (trusted): a write transaction is atomic and isolated; it
   gets id last+1; it is recorded (LastTxnID advances) only if it dirtied something; a read transaction
   has id last. Dirty = a DBI was created, Drop was called, or some DBI content changed
   (approximation: a put followed by a delete of the same key inside one transaction also dirties in LMDB;
   it needs duplicate keys in one snapshot DBI and is not generated).
   No proofs here. *)
From LS Require Import Base.Bytes Base.Res Header.Model Merge.Model Strategy.Model DupSort.Model Shadow.Model.
Open Scope N_scope.

Record dbi_rec := mkDbi { d_flags : N; d_data : db }.
Definition dbis := list (bytes * dbi_rec).      (* by DBI name, byte order (root DB order) *)
Record env := mkEnv { e_dbis : dbis; e_last : N }.

(* a decoded snapshot *)
Record sdbi := mkSDbi { sd_name : bytes; sd_flags : N; sd_transform : bytes; sd_entries : list kv }.
Record snapshot := mkSnap { sn_fmt : N; sn_compat : N; sn_dbis : list sdbi }.

Record icfg := mkICfg { i_native : bool; i_duphack : bool; i_padding : bool; i_receive_only : bool;
                        i_cancelled : bool; (* the context is already cancelled when the transaction starts *)
                        i_override : list (bytes * N) (* dbi_options: DBI name -> override_create_flags *) }.

(* Go: s.lc.DBIOptions[dbiName].OverrideCreateFlags — looked up afresh for every DBI of a snapshot *)
Fixpoint override_of (l : list (bytes * N)) (name : bytes) : option N :=
  match l with
  | [] => None
  | (n, f) :: l' => if beqb n name then Some f else override_of l' name
  end.

Definition sync_prefix : bytes := [95;115;121;110;99].                                  (* "_sync" *)
Definition shadow_prefix : bytes := [95;115;121;110;99;95;115;104;97;100;111;119;95].  (* "_sync_shadow_" *)
Definition transform_dupsort : bytes := [100;117;112;115;111;114;116;95;104;97;99;107;95;118;49]. (* "dupsort_hack_v1" *)

Fixpoint has_prefix (p s : bytes) : bool :=
  match p, s with
  | [], _ => true
  | x :: p', y :: s' => (x =? y) && has_prefix p' s'
  | _, [] => false
  end.

Fixpoint find_dbi (ds : dbis) (name : bytes) : option dbi_rec :=
  match ds with
  | [] => None
  | (n, d) :: ds' => if beqb n name then Some d else find_dbi ds' name
  end.
Fixpoint set_dbi (ds : dbis) (name : bytes) (d : dbi_rec) : dbis :=
  match ds with
  | [] => [(name, d)]
  | (n, d0) :: ds' =>
      match bcmp n name with
      | Lt => (n, d0) :: set_dbi ds' name d
      | Eq => (n, d) :: ds'
      | Gt => (name, d) :: ds
      end
  end.
Definition dbi_names (ds : dbis) : list bytes := map fst ds.

Fixpoint db_eqb (a b : db) : bool :=
  match a, b with
  | [], [] => true
  | (k1, v1) :: a', (k2, v2) :: b' => beqb k1 k2 && beqb v1 v2 && db_eqb a' b'
  | _, _ => false
  end.

(* transaction state: the DBIs and whether anything was dirtied *)
Definition tstate := (dbis * bool)%type.

(* Go: mainToShadow over all DBIs *)
Fixpoint m2s_loop (c : icfg) (now T cutoff : N) (names : list bytes) (st : tstate) : res tstate :=
  match names with
  | [] => Ok st
  | name :: names' =>
      if has_prefix sync_prefix name then m2s_loop c now T cutoff names' st
      else
        match find_dbi (fst st) name with
        | None => Err EOther
        | Some m =>
            let isdup := has_flag (d_flags m) DupSortFlag in
            if isdup && negb (i_duphack c) then Err ERefused
            else
              let target := shadow_prefix ++ name in
              let '(sh, created) := match find_dbi (fst st) target with
                                    | Some sh => (sh, false)
                                    | None => (mkDbi (N.land (d_flags m) IntegerKeyFlag) [], true)
                                    end in
              let r := if isdup then main_to_shadow_dup now T cutoff (d_data m) (d_data sh)
                       else main_to_shadow (d_flags sh) now T cutoff (d_data m) (d_data sh) in
              (* utils.IsCanceled(ctx) is tested after the (possible) dupsort encoding, before the target DBI is opened *)
              let r := if i_cancelled c
                       then match (if isdup then hack_encode (read_raw (d_data m)) else Ok []) with
                            | Ok _ => Err ECancelled
                            | Err x => Err x | Panic => Panic | OutOfFuel => OutOfFuel
                            end
                       else r in
              match r with
              | Ok sh' =>
                  m2s_loop c now T cutoff names'
                    (set_dbi (fst st) target (mkDbi (d_flags sh) sh'),
                     snd st || created || negb (db_eqb sh' (d_data sh)))
              | Err x => Err x | Panic => Panic | OutOfFuel => OutOfFuel
              end
        end
  end.
Definition main_to_shadow_all (c : icfg) (now T cutoff : N) (st : tstate) : res tstate :=
  m2s_loop c now T cutoff (dbi_names (fst st)) st.

(* Go: shadowToMain over all DBIs *)
Fixpoint s2m_loop (c : icfg) (names : list bytes) (st : tstate) : res tstate :=
  match names with
  | [] => Ok st
  | name :: names' =>
      if has_prefix sync_prefix name then s2m_loop c names' st
      else
        match find_dbi (fst st) name with
        | None => Err EOther
        | Some m =>
            let isdup := has_flag (d_flags m) DupSortFlag in
            if isdup && negb (i_duphack c) then Err ERefused
            else
              match find_dbi (fst st) (shadow_prefix ++ name) with
              | None => Err EOther      (* shadow DBI does not exist: OpenDBI fails *)
              | Some sh =>
                  let r := if isdup then shadow_to_main_dup (d_data m) (d_data sh)
                           else shadow_to_main (d_flags m) (d_data m) (d_data sh) in
                  (* utils.IsCanceled(ctx) is tested after the shadow DBI was read (and decoded), before the strategy runs *)
                  let r := if i_cancelled c
                           then match read_hdr (d_data sh) with
                                | Ok l => match (if isdup then hack_decode l else Ok []) with
                                          | Ok _ => Err ECancelled
                                          | Err x => Err x | Panic => Panic | OutOfFuel => OutOfFuel
                                          end
                                | Err x => Err x | Panic => Panic | OutOfFuel => OutOfFuel
                                end
                           else r in
                  match r with
                  | Ok m' =>
                      s2m_loop c names'
                        (set_dbi (fst st) name (mkDbi (d_flags m) m'),
                         snd st || isdup || negb (db_eqb m' (d_data m)))
                  | Err x => Err x | Panic => Panic | OutOfFuel => OutOfFuel
                  end
              end
        end
  end.
Definition shadow_to_main_all (c : icfg) (st : tstate) : res tstate :=
  s2m_loop c (dbi_names (fst st)) st.

(* Go: DBI.ValidateTransform(formatVersion, nativeSchema) *)
Definition validate_transform (fmt : N) (native : bool) (d : sdbi) : res unit :=
  let tr := sd_transform d in
  let is_none := beqb tr [] in
  let is_dup := beqb tr transform_dupsort in
  if negb (is_none || is_dup) then Err ERefused
  else if native && negb is_none then Err ERefused
  else if 3 <=? fmt then
    let fdup := has_flag (sd_flags d) DupSortFlag in
    if fdup && negb is_dup then Err ERefused
    else if negb fdup && is_dup then Err ERefused
    else Ok tt
  else Ok tt.

(* Go: the body of the per-DBI loop of LoadOnce, for one snapshot DBI *)
Definition load_one (c : icfg) (fmt compat T cutoff : N) (d : sdbi) (st : tstate) : res tstate :=
  let name := sd_name d in
  if has_prefix sync_prefix name then Ok st      (* private DBI in a snapshot: ignored *)
  else
    match validate_transform fmt (i_native c) d with
    | Ok _ =>
        (* non-native: make sure the application DBI exists *)
        let r1 : res tstate :=
          if i_native c then Ok st
          else match find_dbi (fst st) name with
               | Some _ => Ok st
               | None =>
                   match override_of (i_override c) name with
                   | Some f => Ok (set_dbi (fst st) name (mkDbi f []), true)
                   | None => if fmt <? 3 then Err ERefused
                             else Ok (set_dbi (fst st) name (mkDbi (sd_flags d) []), true)
                   end
               end in
        match r1 with
        | Ok st1 =>
            let target := if i_native c then name else shadow_prefix ++ name in
            let cflags := match override_of (i_override c) name with Some f => f | None => sd_flags d end in
            let tflags := if i_native c then cflags else N.land cflags IntegerKeyFlag in
            let '(t, created) := match find_dbi (fst st1) target with
                                 | Some t => (t, false)
                                 | None => (mkDbi tflags [], true)
                                 end in
            match new_native_iterator fmt compat T with
            | Ok _ =>
                let mc := mkCfg fmt 0 T (i_padding c) cutoff in
                match update (dbi_cmp (d_flags t)) kv k_key (fun e old => native_merge mc old e) (d_data t) (sd_entries d) with
                | Ok data' =>
                    if i_cancelled c then Err ECancelled    (* utils.IsCanceled(ctx) after each merged DBI *)
                    else
                    Ok (set_dbi (fst st1) target (mkDbi (d_flags t) data'),
                        snd st1 || created || negb (db_eqb data' (d_data t)))
                | Err x => Err x | Panic => Panic | OutOfFuel => OutOfFuel
                end
            | Err x => Err x | Panic => Panic | OutOfFuel => OutOfFuel
            end
        | Err x => Err x | Panic => Panic | OutOfFuel => OutOfFuel
        end
    | Err x => Err x | Panic => Panic | OutOfFuel => OutOfFuel
    end.

(* Go: the per-DBI loop of LoadOnce: the first failure aborts the whole transaction *)
Fixpoint load_dbis (c : icfg) (fmt compat T cutoff : N) (ds : list sdbi) (st : tstate) : res tstate :=
  match ds with
  | [] => Ok st
  | d :: ds' =>
      match load_one c fmt compat T cutoff d st with
      | Ok st' => load_dbis c fmt compat T cutoff ds' st'
      | Err x => Err x | Panic => Panic | OutOfFuel => OutOfFuel
      end
  end.

(* Go: LoadOnce — the write transaction. Returns the new environment, the transaction id T and
   localChanged. On Err the caller keeps the old environment (the transaction aborts). *)
Definition load_txn (c : icfg) (e : env) (s : snapshot) (last_synced now cutoff : N) : res (env * N * bool) :=
  let T := e_last e + 1 in
  let lc := last_synced <? T - 1 in
  let r0 : res tstate :=
    match new_native_iterator (sn_fmt s) (sn_compat s) T with   (* version gate, once per snapshot *)
    | Ok _ =>
        if negb (i_native c) && lc then main_to_shadow_all c now T cutoff (e_dbis e, false)
        else Ok (e_dbis e, false)
    | Err x => Err x | Panic => Panic | OutOfFuel => OutOfFuel
    end in
  match r0 with
  | Ok st0 =>
      match load_dbis c (sn_fmt s) (sn_compat s) T cutoff (sn_dbis s) st0 with
      | Ok st1 =>
          let r2 := if i_native c then Ok st1 else shadow_to_main_all c st1 in
          match r2 with
          | Ok st2 => Ok (mkEnv (fst st2) (if snd st2 then T else e_last e), T, lc)
          | Err x => Err x | Panic => Panic | OutOfFuel => OutOfFuel
          end
      | Err x => Err x | Panic => Panic | OutOfFuel => OutOfFuel
      end
  | Err x => Err x | Panic => Panic | OutOfFuel => OutOfFuel
  end.

(* Go: the id adjustment after LoadOnce / SendOnce: if info.LastTxnID < txnID then txnID = info.LastTxnID *)
Definition adjust_id (T last_now : N) : N := if last_now <? T then last_now else T.

(* Go: readDBI(.., rawValues=false) for the dump: one snapshot DBI *)
Definition dump_dbi (c : icfg) (name : bytes) (orig_flags : N) (data : db) : res sdbi :=
  let isdup := has_flag orig_flags DupSortFlag in
  if isdup && negb (i_duphack c) then Err ERefused
  else match read_hdr data with
       | Ok l => Ok (mkSDbi name orig_flags (if isdup then transform_dupsort else []) l)
       | Err x => Err x | Panic => Panic | OutOfFuel => OutOfFuel
       end.

Fixpoint dump_loop (c : icfg) (ds : dbis) (names : list bytes) : res (list sdbi) :=
  match names with
  | [] => Ok []
  | name :: names' =>
      if has_prefix sync_prefix name then dump_loop c ds names'
      else
        match find_dbi ds name with
        | None => Err EOther
        | Some m =>
            let src := if i_native c then Some m else find_dbi ds (shadow_prefix ++ name) in
            match src with
            | None => Err EOther
            | Some s =>
                match dump_dbi c name (d_flags m) (d_data s) with
                | Ok sd => if i_cancelled c then Err ECancelled else
                           match dump_loop c ds names' with
                           | Ok r => Ok (sd :: r)
                           | Err x => Err x | Panic => Panic | OutOfFuel => OutOfFuel
                           end
                | Err x => Err x | Panic => Panic | OutOfFuel => OutOfFuel
                end
            end
        end
  end.

(* Go: SendOnce — the transaction (read-only in native mode, a write transaction in shadow mode).
   Returns the new environment, the transaction id and the dumped DBIs (none in receive-only mode). *)
Definition send_txn (c : icfg) (e : env) (now cutoff : N) : res (env * N * list sdbi) :=
  if i_native c then
    match (if i_receive_only c then Ok [] else dump_loop c (e_dbis e) (dbi_names (e_dbis e))) with
    | Ok ds => Ok (e, e_last e, ds)
    | Err x => Err x | Panic => Panic | OutOfFuel => OutOfFuel
    end
  else
    let T := e_last e + 1 in
    match main_to_shadow_all c now T cutoff (e_dbis e, false) with
    | Ok st =>
        match (if i_receive_only c then Ok [] else dump_loop c (fst st) (dbi_names (fst st))) with
        | Ok ds => Ok (mkEnv (fst st) (if snd st then T else e_last e), T, ds)
        | Err x => Err x | Panic => Panic | OutOfFuel => OutOfFuel
        end
    | Err x => Err x | Panic => Panic | OutOfFuel => OutOfFuel
    end.
