(* Instance/StepShapes.v — the atomic steps of the executable machine (Instance/Model.v, Instance/SyncLoop.v) have
   exactly the shape the abstract id bookkeeping (Instance/Ids.v) assumes of them:
     load transaction   T = last+1, localChanged = (synced < T-1), LastTxnID afterwards is last or T   (s_load_txn)
     send transaction   native: T = last, environment untouched; shadow: T = last+1, LastTxnID afterwards last or T (s_send_txn)
     id adjustment      adjust_id = Ids.adjust                                                          (s_load_info / s_send_info)
     application commit LastTxnID + 1                                                                   (s_app)
     a yield point      LastTxnID grows by the number of application commits performed there, nothing else of the
                        bookkeeping changes                                                             (s_app, repeated)  *)
From LS Require Import Base.Bytes Base.Res Merge.Model Strategy.Model Shadow.Model Instance.Model Instance.SyncLoop Instance.Ids.
From Coq Require Import ZifyN ZifyNat ZifyBool.
Open Scope N_scope.

Theorem load_txn_shape c e s ls now cutoff e' T lc :
  load_txn c e s ls now cutoff = Ok (e', T, lc) ->
  T = e_last e + 1 /\ lc = (ls <? T - 1) /\ (e_last e' = e_last e \/ e_last e' = T).
Proof.
  unfold load_txn. intros H.
  destruct (new_native_iterator (sn_fmt s) (sn_compat s) (e_last e + 1)); try discriminate.
  destruct (if negb (i_native c) && (ls <? e_last e + 1 - 1)
            then main_to_shadow_all c now (e_last e + 1) cutoff (e_dbis e, false) else Ok (e_dbis e, false)) as [st0| | |]; try discriminate.
  destruct (load_dbis c (sn_fmt s) (sn_compat s) (e_last e + 1) cutoff (sn_dbis s) st0) as [st1| | |]; try discriminate.
  destruct (if i_native c then Ok st1 else shadow_to_main_all c st1) as [st2| | |]; try discriminate.
  injection H as <- <- <-. cbn [e_last]. split; [reflexivity|]. split; [reflexivity|].
  destruct (snd st2); auto.
Qed.

Theorem send_txn_shape c e now cutoff e' T ds :
  send_txn c e now cutoff = Ok (e', T, ds) ->
  if i_native c then T = e_last e /\ e' = e
  else T = e_last e + 1 /\ (e_last e' = e_last e \/ e_last e' = T).
Proof.
  unfold send_txn. intros H. destruct (i_native c).
  - destruct (if i_receive_only c then Ok [] else dump_loop c (e_dbis e) (dbi_names (e_dbis e))); try discriminate.
    injection H as <- <- _. auto.
  - destruct (main_to_shadow_all c now (e_last e + 1) cutoff (e_dbis e, false)) as [st| | |]; try discriminate.
    destruct (if i_receive_only c then Ok [] else dump_loop c (fst st) (dbi_names (fst st))); try discriminate.
    injection H as <- <- _. cbn [e_last]. split; [reflexivity|]. destruct (snd st); auto.
Qed.

Theorem adjust_id_is_adjust T l : adjust_id T l = adjust T l.
Proof. reflexivity. Qed.

Theorem app_commit_shape e ops : e_last (app_commit e ops) = e_last e + 1.
Proof. reflexivity. Qed.

(* the bookkeeping fields a yield cannot touch *)
Definition book (s : lstate) := (l_synced s, l_last_by s, l_committed s, l_stores s).

Definition is_app (a : action) : bool := match a with AApp _ => true | _ => false end.

Lemma do_action_shape s a :
  book (do_action s a) = book s /\
  e_last (l_env (do_action s a)) = e_last (l_env s) + (if is_app a then 1 else 0).
Proof. destruct a; cbn; split; try reflexivity; lia. Qed.

Lemma fold_actions_shape acts : forall s,
  book (fold_left do_action acts s) = book s /\
  e_last (l_env (fold_left do_action acts s)) = e_last (l_env s) + N.of_nat (length (filter is_app acts)).
Proof.
  induction acts as [|a acts IH]; intros s; [cbn; split; [reflexivity|lia]|].
  cbn [fold_left]. destruct (IH (do_action s a)) as [B L]. destruct (do_action_shape s a) as [B1 L1].
  split; [congruence|]. rewrite L, L1. cbn [filter]. destruct (is_app a); cbn [length]; lia.
Qed.

(* a yield point: the only thing that can happen to LastTxnID is application commits, one id each; lastSynced,
   lastByInstance, the cleaner's committed table and the uploads are untouched *)
Theorem yield_shape p s :
  book (yield p s) = book s /\
  exists k, e_last (l_env (yield p s)) = e_last (l_env s) + k /\
            k = N.of_nat (length (filter is_app (match l_acts s with [] => [] | a :: _ => a end))).
Proof.
  unfold yield. destruct (l_acts s) as [|a r].
  - cbn. split; [reflexivity|]. exists 0. split; [lia|reflexivity].
  - match goal with |- context [fold_left do_action a ?s1] => destruct (fold_actions_shape a s1) as [B L] end.
    split; [rewrite B; reflexivity|]. eexists. split; [rewrite L; cbn [l_env]; reflexivity|reflexivity].
Qed.

(* LoadOnce as the loop runs it: a yield, the transaction on the environment found there, a yield, the id
   adjustment against the LastTxnID found THERE (the window of finding F8 is this second yield), a yield; lastSynced
   is not touched by LoadOnce itself (the loop applies  synced := if localChanged then synced else id) *)
Theorem load_once_shape c s u s' id lc :
  load_once c s u = (s', Some (id, lc)) ->
  let s1 := yield P_load_begin s in
  exists e' T,
    load_txn c (l_env s1) (u_snap u) (l_synced s1) (now_of s1) 0 = Ok (e', T, lc) /\
    let s2 := yield P_load_after_txn (set_env s1 e') in
    id = adjust T (e_last (l_env s2)) /\
    l_synced s' = l_synced s /\
    l_env s' = l_env (yield P_load_end s2).
Proof.
  intros H. cbv zeta. unfold load_once in H. set (s1 := yield P_load_begin s) in *.
  destruct (load_txn c (l_env s1) (u_snap u) (l_synced s1) (now_of s1) 0) as [[[e' T] lc0]|x| |] eqn:E.
  - injection H as <- <- <-. exists e', T. split; [reflexivity|]. split; [reflexivity|].
    cbn [l_synced l_env]. split; [|reflexivity].
    destruct (yield_shape P_load_end (yield P_load_after_txn (set_env s1 e'))) as [B1 _].
    destruct (yield_shape P_load_after_txn (set_env s1 e')) as [B2 _].
    destruct (yield_shape P_load_begin s) as [B3 _]. fold s1 in B3.
    unfold book in *. cbn [set_env l_synced] in *. congruence.
  - destruct x; discriminate.
  - discriminate.
  - discriminate.
Qed.

(* SendOnce: a yield, the transaction, a yield, the id adjustment there; then (unless receive-only) the Store
   retries; the returned id is that adjusted id, and the content stored is what the transaction dumped *)
Theorem send_once_shape c s s' id :
  send_once c s = (s', Some id) ->
  let s1 := yield P_send_begin s in
  exists e' T ds,
    send_txn c (l_env s1) (now_of s1) 0 = Ok (e', T, ds) /\
    let s2 := yield P_send_after_txn (set_env s1 e') in
    id = adjust T (e_last (l_env s2)).
Proof.
  intros H. cbv zeta. unfold send_once in H. set (s1 := yield P_send_begin s) in *.
  destruct (send_txn c (l_env s1) (now_of s1) 0) as [[[e' T] ds]|x| |] eqn:E.
  - exists e', T, ds. split; [reflexivity|].
    destruct (i_receive_only c).
    + injection H as _ <-. reflexivity.
    + destruct (store_loop StorageRetryCount (yield P_send_before_store (yield P_send_after_txn (set_env s1 e'))) (now_of s1)
                  (adjust_id T (e_last (l_env (yield P_send_after_txn (set_env s1 e'))))) ds) as [s3 ok].
      destruct ok; [|discriminate]. injection H as _ <-. reflexivity.
  - destruct x; discriminate.
  - discriminate.
  - discriminate.
Qed.
