(* Shadow/DupCycle.v — the mirror cycle of a DUPSORT application DBI under dupsort_hack:
   mainToShadow (encode pairs to unique shadow keys, capture) followed by shadowToMain (decode, EmptyPut)
   leaves exactly the application's pairs; and, in general, shadowToMain yields exactly the decoded pairs
   of the shadow entries with a non-empty application value. *)
From LS Require Import Base.Bytes Base.BytesProofs Base.Res Header.Model Header.Proofs
  Merge.Model Merge.Version Merge.Order Merge.Proofs Merge.Fold Strategy.Model Strategy.Order Strategy.Proofs
  Strategy.EmptyPutProofs DupSort.Model DupSort.Proofs Shadow.Model Shadow.Proofs.
From Coq Require Import ZifyN ZifyNat ZifyBool Sorted.
Open Scope N_scope.

Notation bdom := (fun _ : bytes => True).
Notation bsorted := (sorted bcmp bdom).
Notation bget := (dget bcmp).
Notation bmem := (dmem bcmp).

(* the application value the projection takes from a shadow DBI for a shadow key *)
Definition pv (d : db) (K : bytes) : bytes :=
  match ver_of (bget d K) with Some o => val o | None => [] end.

Lemma is_eq_bcmp a b : is_eq (bcmp a b) = true <-> a = b.
Proof.
  destruct (bcmp a b) eqn:C; cbn [is_eq]; split; intros H; try discriminate; auto.
  - apply bcmp_eq_iff. exact C.
  - apply bcmp_eq_iff in H. congruence.
  - apply bcmp_eq_iff in H. congruence.
Qed.

Lemma bsorted_of l : StronglySorted (fun a b => bcmp a b = Lt) l -> bsorted l.
Proof. intros H. split; [exact H|]. apply Forall_forall. auto. Qed.

(* lookups in a DBI with strictly sorted keys *)
Lemma bget_in d K v : bsorted (keys d) -> In (K, v) d -> bmem d K = true /\ bget d K = v.
Proof.
  induction d as [|[dk dv] d IH]; intros Hs Hin; [destruct Hin|].
  cbn [keys map fst] in Hs. apply (sorted_cons_inv bcmp bdom) in Hs. destruct Hs as (_ & Hlb & Hs').
  cbn [Model.dmem Model.dget]. destruct Hin as [E|Hin].
  - injection E as -> ->. replace (is_eq (bcmp K K)) with true by (symmetry; apply is_eq_bcmp; reflexivity).
    split; reflexivity.
  - destruct (is_eq (bcmp dk K)) eqn:E.
    + apply is_eq_bcmp in E. subst dk. exfalso.
      rewrite Forall_forall in Hlb. specialize (Hlb K).
      assert (In K (keys d)) as HK by (unfold keys; apply (in_map fst d (K, v)); exact Hin).
      specialize (Hlb HK). cbv beta in Hlb.
      assert (bcmp K K = Eq) by (apply bcmp_eq_iff; reflexivity). congruence.
    + cbn [orb]. apply IH; auto.
Qed.

Lemma bmem_in d K : bmem d K = true -> In (K, bget d K) d.
Proof.
  induction d as [|[dk dv] d IH]; intros H; [discriminate|].
  cbn [Model.dmem Model.dget] in *. destruct (is_eq (bcmp dk K)) eqn:E.
  - apply is_eq_bcmp in E. subst. left. reflexivity.
  - right. apply IH. exact H.
Qed.

Lemma bget_ne_in d K : bget d K <> [] -> In K (keys d).
Proof.
  induction d as [|[dk dv] d IH]; intros H; [exfalso; apply H; reflexivity|].
  cbn [Model.dget] in H. cbn [keys map fst]. destruct (is_eq (bcmp dk K)) eqn:E.
  - apply is_eq_bcmp in E. left. exact E.
  - right. apply IH, H.
Qed.

Lemma pv_ne_in d K : pv d K <> [] -> In K (keys d).
Proof.
  intros H. apply bget_ne_in. intros E. apply H. unfold pv. rewrite E. reflexivity.
Qed.

(* what readDBI (header mode) returns, entry by entry *)
Lemma read_hdr_in d : forall l, read_hdr d = Ok l -> bsorted (keys d) ->
  forall e, In e l -> In (k_key e) (keys d) /\ k_val e = pv d (k_key e).
Proof.
  induction d as [|[dk dv] d IH]; intros l H Hs e He; cbn [read_hdr] in H.
  - injection H as <-. destruct He.
  - destruct (parse dv) as [[h app]| | |] eqn:Ep; try discriminate.
    destruct (read_hdr d) as [r| | |] eqn:Er; try discriminate. injection H as <-.
    cbn [keys map fst] in Hs. pose proof Hs as Hs0.
    apply (sorted_cons_inv bcmp bdom) in Hs. destruct Hs as (_ & Hlb & Hs').
    destruct He as [<-|He].
    + cbn [k_key k_val keys map fst]. split; [left; reflexivity|].
      unfold pv. cbn [Model.dget]. replace (is_eq (bcmp dk dk)) with true by (symmetry; apply is_eq_bcmp; reflexivity).
      unfold ver_of. rewrite Ep. reflexivity.
    + destruct (IH r eq_refl Hs' e He) as [Hk Hv]. split; [right; exact Hk|].
      rewrite Hv. unfold pv. cbn [Model.dget].
      destruct (is_eq (bcmp dk (k_key e))) eqn:E; [|reflexivity].
      apply is_eq_bcmp in E. exfalso. rewrite Forall_forall in Hlb. specialize (Hlb _ Hk). cbv beta in Hlb.
      rewrite E in Hlb. assert (bcmp (k_key e) (k_key e) = Eq) by (apply bcmp_eq_iff; reflexivity). congruence.
Qed.

Lemma read_hdr_has d : forall l, read_hdr d = Ok l -> bsorted (keys d) ->
  forall K, In K (keys d) -> exists e, In e l /\ k_key e = K /\ k_val e = pv d K.
Proof.
  intros l H Hs K HK.
  assert (Hkeys : ekeys kv k_key l = keys d) by (apply (read_hdr_keys d l H)).
  rewrite <- Hkeys in HK. unfold ekeys in HK. apply in_map_iff in HK. destruct HK as (e & <- & He).
  exists e. split; [exact He|]. split; [reflexivity|]. apply (read_hdr_in d l H Hs e He).
Qed.

(* dupSortHackDecode, entry by entry *)
Lemma hack_decode_spec l : forall dl, hack_decode l = Ok dl -> Forall2 (fun e e' => dec_one e = Ok e') l dl.
Proof.
  induction l as [|e l IH]; intros dl H; cbn [hack_decode] in H.
  - injection H as <-. constructor.
  - destruct (dec_one e) as [e'| | |] eqn:Ed; try discriminate.
    destruct (hack_decode l) as [r| | |] eqn:Er; try discriminate. injection H as <-.
    constructor; [exact Ed|apply IH; reflexivity].
Qed.

(* decoding looks at the shadow KEY only *)
Lemma dec_one_key e1 e2 r1 : dec_one e1 = Ok r1 -> k_key e2 = k_key e1 ->
  dec_one e2 = Ok (mkKV (k_key r1) (k_val e2) 0 (k_flags e2)).
Proof.
  unfold dec_one. intros H E. rewrite E.
  destruct (Nat.ltb (length (k_key e1)) 6); [discriminate|].
  destruct (Nat.ltb (length (k_key e1)) (N.to_nat (last (k_key e1) 0) + 5)); [discriminate|].
  destruct (negb _); [discriminate|]. injection H as <-. reflexivity.
Qed.

Lemma dec_one_val e r : dec_one e = Ok r -> k_val r = k_val e.
Proof.
  unfold dec_one. intros H.
  destruct (Nat.ltb (length (k_key e)) 6); [discriminate|].
  destruct (Nat.ltb (length (k_key e)) (N.to_nat (last (k_key e) 0) + 5)); [discriminate|].
  destruct (negb _); [discriminate|]. injection H as <-. reflexivity.
Qed.

Lemma Forall2_in_l {A B} (R : A -> B -> Prop) l1 l2 a : Forall2 R l1 l2 -> In a l1 -> exists b, In b l2 /\ R a b.
Proof.
  induction 1 as [|x y l1 l2 Hxy _ IH]; intros Hin; [destruct Hin|].
  destruct Hin as [<-|Hin]; [exists y; split; [left; reflexivity|exact Hxy]|].
  destruct (IH Hin) as (b & Hb & Hr). exists b. split; [right; exact Hb|exact Hr].
Qed.
Lemma Forall2_in_r {A B} (R : A -> B -> Prop) l1 l2 b : Forall2 R l1 l2 -> In b l2 -> exists a, In a l1 /\ R a b.
Proof.
  induction 1 as [|x y l1 l2 Hxy _ IH]; intros Hin; [destruct Hin|].
  destruct Hin as [<-|Hin]; [exists x; split; [left; reflexivity|exact Hxy]|].
  destruct (IH Hin) as (a & Ha & Hr). exists a. split; [right; exact Ha|exact Hr].
Qed.

(* ---------- shadow -> application for a DUPSORT DBI: exactly the decoded pairs ---------- *)
(* [p] is a pair of the rebuilt application DBI iff some shadow key K decodes to the key of [p] and the
   shadow entry at K carries the (non-empty) application value of [p] *)
Theorem dup_project_spec main shadow main' :
  bsorted (keys shadow) ->
  shadow_to_main_dup main shadow = Ok main' ->
  forall p, In p main' <->
    (snd p <> [] /\ exists K r, In K (keys shadow) /\ pv shadow K = snd p /\
                               dec_one (mkKV K [] 0 0) = Ok r /\ k_key r = fst p).
Proof.
  intros Hs H p. unfold shadow_to_main_dup in H.
  destruct (read_hdr shadow) as [l| | |] eqn:Er; try discriminate.
  destruct (hack_decode l) as [dl| | |] eqn:Ed; try discriminate.
  unfold empty_put in H. rewrite (do_put_empty_spec kv k_key plain_m dl [] main' H p).
  pose proof (hack_decode_spec l dl Ed) as F2. split.
  - intros [[]|(e' & He' & Hm & Hne & Hk)]. unfold plain_m, plain_merge in Hm. injection Hm as Hm.
    split; [exact Hne|].
    destruct (Forall2_in_r _ _ _ e' F2 He') as (e & He & Hdec).
    destruct (read_hdr_in shadow l Er Hs e He) as [HK Hv].
    exists (k_key e). exists (mkKV (k_key e') [] 0 0). split; [exact HK|]. split.
    + rewrite <- Hv, <- Hm. symmetry. apply (dec_one_val e e' Hdec).
    + split; [|cbn [k_key]; symmetry; exact Hk].
      apply (dec_one_key e (mkKV (k_key e) [] 0 0) e' Hdec). reflexivity.
  - intros (Hne & K & r & HK & Hv & Hdec & Hk). right.
    destruct (read_hdr_has shadow l Er Hs K HK) as (e & He & Hke & Hve).
    destruct (Forall2_in_l _ _ _ e F2 He) as (e' & He' & Hdec').
    exists e'. split; [exact He'|].
    pose proof (dec_one_key (mkKV K [] 0 0) e r Hdec) as D. cbn [k_key] in D. specialize (D Hke).
    rewrite Hdec' in D. injection D as ->. cbn [k_key k_val]. unfold plain_m, plain_merge. cbn [k_val].
    split; [rewrite Hve, Hv; reflexivity|]. split; [exact Hne|]. symmetry. exact Hk.
Qed.

(* ---------- application -> shadow for a DUPSORT DBI ---------- *)
(* the "virtual" DBI whose keys are the encoded shadow keys *)
Definition vmain (enc : list kv) : db := map (fun e => (k_key e, k_val e)) enc.

Lemma enc_one_shape e e' : enc_one e = Ok e' -> k_val e' = k_val e /\ k_ts e' = 0 /\ k_flags e' = k_flags e.
Proof.
  unfold enc_one. intros H.
  destruct (Nat.eqb (length (k_key e)) 0); [discriminate|].
  destruct (Nat.ltb DupSortHackMaxKeySize (length (k_key e))); [discriminate|].
  injection H as <-. cbn. auto.
Qed.

Lemma read_raw_vmain main enc :
  Forall2 (fun e e' => enc_one e = Ok e') (read_raw main) enc -> read_raw (vmain enc) = enc.
Proof.
  intros F. unfold vmain, read_raw. rewrite map_map. cbn [fst snd].
  remember (read_raw main) as rm eqn:Erm.
  assert (Hz : Forall (fun e => k_flags e = 0) rm).
  { subst rm. unfold read_raw. apply Forall_forall. intros x Hx. apply in_map_iff in Hx.
    destruct Hx as (q & <- & _). reflexivity. }
  clear Erm. induction F as [|e e' l r He _ IH]; [reflexivity|].
  inversion Hz as [|? ? Hz1 Hz2]; subst. cbn [map]. rewrite (IH Hz2). f_equal.
  destruct (enc_one_shape e e' He) as (_ & Ht & Hf). destruct e' as [a b c d]. cbn in *. congruence.
Qed.

Lemma vmain_keys enc : keys (vmain enc) = map k_key enc.
Proof. unfold keys, vmain. rewrite map_map. reflexivity. Qed.

(* per shadow key: what the projection will see after the capture, under the clock assumption
   (stored timestamps below now) for shadow DBIs as LS writes them (deleted => empty value, C14) *)
Lemma capture_pv now mv old new :
  capture_at now mv old new ->
  (forall o, ver_of old = Some o -> ts o < now /\ (del o = true -> val o = [])) ->
  (match ver_of new with Some o => val o | None => [] end) = match mv with Some v => v | None => [] end.
Proof.
  unfold capture_at. intros H Hold. destruct mv as [v|].
  - destruct old as [|x old].
    + rewrite H. reflexivity.
    + destruct (ver_of (x :: old)) as [o|] eqn:Eo; [|destruct H].
      destruct (Hold o eq_refl) as [Hts _].
      destruct (beqb (val o) v && Bool.eqb (del o) false) eqn:Eb.
      * subst new. rewrite Eo. apply andb_true_iff in Eb. destruct Eb as [Eb _].
        apply beqb_eq in Eb. exact Eb.
      * rewrite H. rewrite (join_newer o now v false Hts). reflexivity.
  - destruct old as [|x old].
    + subst new. reflexivity.
    + destruct (ver_of (x :: old)) as [o|] eqn:Eo; [|destruct H].
      destruct (Hold o eq_refl) as [_ Hd].
      destruct (del o) eqn:Ed.
      * subst new. rewrite Eo. apply Hd. reflexivity.
      * rewrite H. reflexivity.
Qed.

(* ---------- the full mirror cycle ---------- *)
(* mainToShadow at time [now] followed at once by shadowToMain (no remote change merged in between) leaves
   exactly the application's pairs — for EVERY content of the DUPSORT application DBI that the mapping
   accepts (hack_encode refuses the rest, C20_refuses) and every well-formed shadow DBI older than [now].
   Pairs with an EMPTY value are the exception (known finding F6: empty means deleted). *)
Theorem dup_mirror_cycle now txn cutoff main shadow shadow' main' :
  now < two64 -> txn < two64 ->
  bsorted (keys shadow) ->
  (forall K o, ver_of (bget shadow K) = Some o -> ts o < now /\ (del o = true -> val o = [])) ->
  main_to_shadow_dup now txn cutoff main shadow = Ok shadow' ->
  shadow_to_main_dup main shadow' = Ok main' ->
  forall p, In p main' <-> (In p main /\ snd p <> []).
Proof.
  intros Hnow Htxn Hs Hold Hc Hp p. unfold main_to_shadow_dup in Hc.
  destruct (hack_encode (read_raw main)) as [enc| | |] eqn:Ee; try discriminate.
  destruct (new_native_iterator CurrentFormatVersion CompatFormatVersion txn); try discriminate.
  destruct (hack_encode_spec _ _ Ee) as [F2 Hsorted].
  pose proof (read_raw_vmain main enc F2) as Hrv.
  assert (Hvs : bsorted (keys (vmain enc))) by (rewrite vmain_keys; apply bsorted_of; exact Hsorted).
  rewrite <- Hrv in Hc.
  destruct (capture_spec bcmp bdom bcmp_ord now txn cutoff (vmain enc) shadow shadow' Hnow Htxn Hvs Hs Hc)
    as [Hs' Hcap].
  assert (Hpv : forall K, pv shadow' K = if bmem (vmain enc) K then bget (vmain enc) K else []).
  { intros K. unfold pv. rewrite (capture_pv now _ _ _ (Hcap K I) (Hold K)).
    destruct (bmem (vmain enc) K); reflexivity. }
  rewrite (dup_project_spec main shadow' main' Hs' Hp p). split.
  - intros (Hne & K & r & HK & Hv & Hdec & Hk). rewrite Hpv in Hv.
    destruct (bmem (vmain enc) K) eqn:Em; [|exfalso; apply Hne; symmetry; exact Hv].
    apply bmem_in in Em. rewrite Hv in Em. unfold vmain in Em. apply in_map_iff in Em.
    destruct Em as (e' & Ee' & He'). injection Ee' as EK EV.
    destruct (Forall2_in_r _ _ _ e' F2 He') as (e & He & Henc).
    unfold read_raw in He. apply in_map_iff in He. destruct He as ([k v] & <- & Hkv). cbn [fst snd] in *.
    pose proof (dec_enc_one _ _ Henc) as D. cbn [k_key k_val k_flags] in D.
    pose proof (dec_one_key e' (mkKV K [] 0 0) _ D) as D2. cbn [k_key] in D2. specialize (D2 (eq_sym EK)).
    rewrite Hdec in D2. injection D2 as ->. cbn [k_key] in Hk.
    destruct (enc_one_shape _ _ Henc) as (Hval & _ & _). cbn [k_val] in Hval.
    split; [|exact Hne].
    assert (Epair : p = (k, v)) by (destruct p as [pk pvl]; cbn [fst snd] in *; congruence).
    rewrite Epair. exact Hkv.
  - intros [Hin Hne]. split; [exact Hne|]. destruct p as [k v]. cbn [fst snd] in *.
    assert (Hraw : In (mkKV k v 0 0) (read_raw main))
      by (unfold read_raw; apply in_map_iff; exists (k, v); split; [reflexivity|exact Hin]).
    destruct (Forall2_in_l _ _ _ _ F2 Hraw) as (e' & He' & Henc).
    destruct (enc_one_shape _ _ Henc) as (Hval & _ & _). cbn [k_val] in Hval.
    assert (Hvm : In (k_key e', v) (vmain enc))
      by (unfold vmain; apply in_map_iff; exists e'; split; [rewrite Hval; reflexivity|exact He']).
    destruct (bget_in _ _ _ Hvs Hvm) as [Hm Hg].
    assert (Hpk : pv shadow' (k_key e') = v) by (rewrite Hpv, Hm, Hg; reflexivity).
    pose proof (dec_enc_one _ _ Henc) as D. cbn [k_key k_val k_flags] in D.
    exists (k_key e'). exists (mkKV k [] 0 0). split; [apply pv_ne_in; rewrite Hpk; exact Hne|].
    split; [exact Hpk|]. split; [|reflexivity].
    apply (dec_one_key e' (mkKV (k_key e') [] 0 0) _ D). reflexivity.
Qed.
