(* Shadow/Proofs.v — shadow mode mirrors application data faithfully in both directions (one DBI). *)
From LS Require Import Base.Bytes Base.BytesProofs Base.Res Header.Model Header.Proofs
  Merge.Model Merge.Version Merge.Order Merge.Proofs Merge.Fold Strategy.Model Strategy.Order Strategy.Proofs
  DupSort.Model Shadow.Model.
From Coq Require Import ZifyN ZifyNat ZifyBool Sorted.
Open Scope N_scope.

Section Mirror.
  Variable cmp : bytes -> bytes -> comparison.
  Variable dom : bytes -> Prop.
  Hypothesis ORD : ord_ok cmp dom.

  Notation dget := (dget cmp).
  Notation dmem := (dmem cmp).
  Notation sorted := (sorted cmp dom).
  Notation find_kv := (find_e cmp kv k_key).

  (* the entries readDBI produces, looked up by key *)
  Lemma read_raw_keys d : ekeys kv k_key (read_raw d) = keys d.
  Proof. unfold ekeys, keys, read_raw. rewrite map_map. reflexivity. Qed.

  Lemma find_read_raw d k : sorted (keys d) -> dom k ->
    find_kv (read_raw d) k = if dmem d k then Some (mkKV k (dget d k) 0 0) else None.
  Proof.
    induction d as [|[dk dv] d IH]; intros Hs Hk; [reflexivity|].
    cbn [read_raw map find_e fst snd k_key Model.dmem Model.dget].
    cbn [keys map fst] in Hs. apply (sorted_cons_inv cmp dom) in Hs. destruct Hs as (Hdk & _ & Hs').
    destruct (is_eq (cmp dk k)) eqn:E.
    - assert (dk = k) as -> by (apply (o_eq _ _ ORD); auto; destruct (cmp dk k); cbn in E; congruence). reflexivity.
    - cbn [orb]. apply IH; auto.
  Qed.

  Lemma read_hdr_keys d l : read_hdr d = Ok l -> ekeys kv k_key l = keys d.
  Proof.
    revert l. induction d as [|[dk dv] d IH]; intros l H; cbn [read_hdr] in H.
    - injection H as <-. reflexivity.
    - destruct (parse dv) as [[h app]| | |]; try discriminate.
      destruct (read_hdr d) as [r| | |]; try discriminate. injection H as <-.
      cbn [ekeys keys map k_key fst]. f_equal. apply IH. reflexivity.
  Qed.

  Lemma find_read_hdr d l k : read_hdr d = Ok l -> sorted (keys d) -> dom k ->
    match find_kv l k with
    | Some e => dmem d k = true /\ exists h, parse (dget d k) = Ok (h, k_val e)
    | None => dmem d k = false
    end.
  Proof.
    revert l. induction d as [|[dk dv] d IH]; intros l H Hs Hk; cbn [read_hdr] in H.
    - injection H as <-. reflexivity.
    - destruct (parse dv) as [[h app]| | |] eqn:Ep; try discriminate.
      destruct (read_hdr d) as [r| | |] eqn:Er; try discriminate. injection H as <-.
      cbn [keys map fst] in Hs. apply (sorted_cons_inv cmp dom) in Hs. destruct Hs as (Hdk & _ & Hs').
      cbn [find_e k_key Model.dmem Model.dget].
      destruct (is_eq (cmp dk k)) eqn:E.
      + cbn [orb k_val]. split; [reflexivity|]. eauto.
      + cbn [orb]. apply IH; auto.
  Qed.

  Lemma dget_notmem d k : dmem d k = false -> dget d k = [] /\ True.
  Proof.
    induction d as [|[dk dv] d IH]; intros H; [split; reflexivity|].
    cbn [Model.dmem Model.dget] in *. destruct (is_eq (cmp dk k)); [discriminate|]. apply IH, H.
  Qed.

  Definition shadow_to_main_gen (main shadow : db) : res db :=
    match read_hdr shadow with
    | Ok l => iter_update cmp kv k_key plain_m plain_clean main l
    | Err x => Err x | Panic => Panic | OutOfFuel => OutOfFuel
    end.

  (* ---------- application -> shadow (capture) ---------- *)

  (* what capture must leave in the shadow DBI for one key: [mainv] = the application's value (if the key
     is in the application DBI), [oldsh]/[newsh] = the shadow bytes before/after *)
  Definition capture_at (now : N) (mainv : option bytes) (oldsh newsh : bytes) : Prop :=
    match mainv with
    | Some v =>
        match oldsh with
        | [] => ver_of newsh = Some (mkVer now false v)
        | _ => match ver_of oldsh with
               | Some o => if beqb (val o) v && Bool.eqb (del o) false then newsh = oldsh
                           else ver_of newsh = Some (join o (mkVer now false v))
               | None => False
               end
        end
    | None =>
        match oldsh with
        | [] => newsh = []
        | _ => match ver_of oldsh with
               | Some o => if del o then newsh = oldsh else ver_of newsh = Some (mkVer now true [])
               | None => False
               end
        end
    end.

  Lemma raw_norm now txn cutoff k v :
    norm (capture_cfg now txn cutoff) (mkKV k v 0 0) = mkVer now false v.
  Proof.
    unfold norm, new_deleted, capture_cfg, masked_flags. cbn [k_ts k_flags k_val c_fmt c_default_ts].
    change (CurrentFormatVersion <? 2) with false. rewrite andb_false_r. reflexivity.
  Qed.

  Theorem capture_spec now txn cutoff main shadow shadow' :
    now < two64 -> txn < two64 ->
    sorted (keys main) -> sorted (keys shadow) ->
    iter_update cmp kv k_key (fun e old => native_merge (capture_cfg now txn cutoff) old e)
                (native_clean (capture_cfg now txn cutoff)) shadow (read_raw main) = Ok shadow' ->
    sorted (keys shadow') /\
    forall k, dom k ->
      capture_at now (if dmem main k then Some (dget main k) else None) (dget shadow k) (dget shadow' k).
  Proof.
    intros Hnow Htxn Hm Hs H. unfold iter_update in H.
    set (c := capture_cfg now txn cutoff) in *.
    assert (Hc : cfg_ok c) by (split; assumption).
    apply (iu_sound cmp dom ORD) in H; [|rewrite read_raw_keys; exact Hm|exact Hs].
    destruct H as (Hs' & _ & Hspec). split; [exact Hs'|].
    intros k Hk. specialize (Hspec k Hk). unfold spec_at in Hspec.
    rewrite (find_read_raw main k Hm Hk) in Hspec.
    destruct (dmem main k) eqn:Em.
    - (* key in the application DBI *)
      destruct Hspec as (v & Hmg & Hget). rewrite Hget. unfold capture_at.
      set (e := mkKV k (dget main k) 0 0) in *.
      assert (He : kv_ok e) by (unfold kv_ok, two64; cbn; lia).
      destruct (dget shadow k) as [|x old'] eqn:Eo.
      + rewrite merge_absent in Hmg by auto.
        assert (Hnd : new_deleted c e = false).
        { unfold new_deleted, c, e, capture_cfg, masked_flags. cbn [k_flags k_val c_fmt].
          change (CurrentFormatVersion <? 2) with false. rewrite andb_false_r. reflexivity. }
        rewrite Hnd in Hmg. cbn [andb] in Hmg. injection Hmg as <-.
        change (add_header c (dget main k) 0 (masked_flags e)) with (add_header c (k_val e) (k_ts e) (masked_flags e)).
        rewrite merge_absent_ver by auto. unfold c, e. rewrite raw_norm. reflexivity.
      + destruct (ver_of (x :: old')) as [o|] eqn:Ev.
        * apply ver_of_some_inv in Ev. destruct Ev as (Hne & h & app & Hp & ->).
          pose proof (merge_capture_rule c (x :: old') h app e Hc He Hne Hp eq_refl) as R.
          assert (En : norm c e = mkVer now false (dget main k)) by (unfold c, e; apply raw_norm).
          cbv zeta in R. rewrite En in R. cbn [val del] in R |- *.
          destruct (beqb app (dget main k) && Bool.eqb (is_deleted (h_flags h)) false).
          -- rewrite R in Hmg. injection Hmg as <-. reflexivity.
          -- destruct R as (v' & Hv' & Hver). rewrite Hv' in Hmg. injection Hmg as <-. exact Hver.
        * (* unparsable stored value: Merge fails, so the run cannot have been Ok *)
          unfold ver_of in Ev. destruct (parse (x :: old')) as [[h app]|x0| |] eqn:Ep; try discriminate.
          -- rewrite (merge_bad_old c (x :: old') e x0) in Hmg by (auto; discriminate). discriminate.
          -- unfold native_merge in Hmg. rewrite Ep in Hmg. discriminate.
          -- unfold native_merge in Hmg. rewrite Ep in Hmg. discriminate.
    - (* key not in the application DBI *)
      unfold capture_at. destruct (dmem shadow k) eqn:Es.
      + destruct Hspec as (v & Hcl & Hget). rewrite Hget.
        destruct (dget shadow k) as [|x old'] eqn:Eo.
        * (* a stored EMPTY value cannot be parsed: Clean fails *)
          unfold native_clean in Hcl. cbn in Hcl. discriminate.
        * destruct (ver_of (x :: old')) as [o|] eqn:Ev.
          -- apply ver_of_some_inv in Ev. destruct Ev as (Hne & h & app & Hp & ->).
             pose proof (clean_spec c (x :: old') h app Hc Hp) as R. cbn [del].
             destruct (is_deleted (h_flags h)).
             ++ rewrite R in Hcl. injection Hcl as <-. reflexivity.
             ++ destruct R as (v' & Hv' & Hver). rewrite Hv' in Hcl. injection Hcl as <-. exact Hver.
          -- unfold ver_of in Ev. unfold native_clean in Hcl.
             destruct (parse (x :: old')) as [[h app]|x0| |]; try discriminate.
      + rewrite (proj1 (dget_notmem shadow k Es)). exact Hspec.
  Qed.

  (* ---------- shadow -> application (projection) ---------- *)
  Theorem project_spec main shadow main' l :
    read_hdr shadow = Ok l -> sorted (keys main) -> sorted (keys shadow) ->
    iter_update cmp kv k_key plain_m plain_clean main l = Ok main' ->
    sorted (keys main') /\
    forall k, dom k ->
      dget main' k = match ver_of (dget shadow k) with Some o => val o | None => [] end.
  Proof.
    intros Hr Hm Hs H. unfold iter_update in H.
    apply (iu_sound cmp dom ORD) in H; [|rewrite (read_hdr_keys shadow l Hr); exact Hs|exact Hm].
    destruct H as (Hs' & _ & Hspec). split; [exact Hs'|].
    intros k Hk. specialize (Hspec k Hk). unfold spec_at in Hspec.
    pose proof (find_read_hdr shadow l k Hr Hs Hk) as F.
    destruct (find_kv l k) as [e|].
    - destruct F as (_ & h & Hp). destruct Hspec as (v & Hv & Hget). unfold plain_m, plain_merge in Hv.
      injection Hv as <-. rewrite Hget. unfold ver_of. rewrite Hp. reflexivity.
    - rewrite (proj1 (dget_notmem shadow k F)). unfold ver_of. cbn [parse length MinHeaderSize Nat.ltb Nat.leb].
      destruct (dmem main k).
      + destruct Hspec as (v & Hv & Hget). unfold plain_clean in Hv. injection Hv as <-. exact Hget.
      + exact Hspec.
  Qed.

  (* an unparsable shadow value aborts the projection (nothing is written) *)
  Theorem project_bad_shadow main shadow x :
    read_hdr shadow = Err x -> shadow_to_main_gen main shadow = Err x.
  Proof. intros H. unfold shadow_to_main_gen. rewrite H. reflexivity. Qed.
End Mirror.

(* ---- instantiation at the DBI's own order ---- *)
Lemma dbi_cmp_bytes flags : has_flag flags IntegerKeyFlag = false -> dbi_cmp flags = bcmp.
Proof. intros H. unfold dbi_cmp. rewrite H. reflexivity. Qed.
Lemma dbi_cmp_int flags : has_flag flags IntegerKeyFlag = true -> dbi_cmp flags = int_cmp.
Proof. intros H. unfold dbi_cmp. rewrite H. reflexivity. Qed.

Theorem main_to_shadow_spec flags dom now txn cutoff main shadow shadow' :
  ord_ok (dbi_cmp flags) dom ->
  now < two64 -> txn < two64 ->
  sorted (dbi_cmp flags) dom (keys main) -> sorted (dbi_cmp flags) dom (keys shadow) ->
  main_to_shadow flags now txn cutoff main shadow = Ok shadow' ->
  sorted (dbi_cmp flags) dom (keys shadow') /\
  forall k, dom k ->
    capture_at now (if dmem (dbi_cmp flags) main k then Some (dget (dbi_cmp flags) main k) else None)
               (dget (dbi_cmp flags) shadow k) (dget (dbi_cmp flags) shadow' k).
Proof.
  intros ORD Hnow Htxn Hm Hs H. unfold main_to_shadow in H.
  destruct (new_native_iterator CurrentFormatVersion CompatFormatVersion txn); try discriminate.
  exact (capture_spec (dbi_cmp flags) dom ORD now txn cutoff main shadow shadow' Hnow Htxn Hm Hs H).
Qed.

(* under the clock assumption (every stored timestamp is below "now") a changed key is stamped "now" *)
Lemma join_newer o now v d : ts o < now -> join o (mkVer now d v) = mkVer now d v.
Proof.
  intros H. unfold join, wins. cbn [ts]. replace (ts o <? now) with true by lia. reflexivity.
Qed.

Theorem shadow_to_main_spec flags dom main shadow main' :
  ord_ok (dbi_cmp flags) dom ->
  sorted (dbi_cmp flags) dom (keys main) -> sorted (dbi_cmp flags) dom (keys shadow) ->
  shadow_to_main flags main shadow = Ok main' ->
  sorted (dbi_cmp flags) dom (keys main') /\
  forall k, dom k ->
    dget (dbi_cmp flags) main' k = match ver_of (dget (dbi_cmp flags) shadow k) with Some o => val o | None => [] end.
Proof.
  intros ORD Hm Hs H. unfold shadow_to_main in H.
  destruct (read_hdr shadow) as [l| | |] eqn:Er; try discriminate.
  exact (project_spec (dbi_cmp flags) dom ORD main shadow main' l Er Hm Hs H).
Qed.

(* the known finding F6: a LIVE entry with an EMPTY application value is not projected *)
Lemma empty_value_not_projected :
  exists shadow main', shadow_to_main 0 [] shadow = Ok main' /\
    ver_of (dget bcmp shadow [107]) = Some (mkVer 5 false []) /\ dmem bcmp main' [107] = false.
Proof.
  exists [([107], be64 5 ++ be64 7 ++ [0;0;0;0;0;0;0;0])], [].
  split; [vm_compute; reflexivity|]. split; vm_compute; reflexivity.
Qed.
