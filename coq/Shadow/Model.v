(* Shadow/Model.v — mirrors syncer/shadow.go (mainToShadow, shadowToMain) and readDBI in
   syncer/utils.go, for ONE application DBI and its "_sync_shadow_" DBI.
   No proofs here. *)
From LS Require Import Base.Bytes Base.Res Header.Model Merge.Model Strategy.Model DupSort.Model.
Open Scope N_scope.

Definition IntegerKeyFlag : N := 8.   (* MDB_INTEGERKEY *)
Definition DupSortFlag : N := 4.      (* MDB_DUPSORT *)

Definition has_flag (flags f : N) : bool := negb (N.land flags f =? 0).

(* the comparator of a DBI: byte order, or native integer order with MDB_INTEGERKEY
   (the shadow DBI is created with the same flag: AllowedShadowDBIFlagsMask) *)
Definition dbi_cmp (flags : N) : bytes -> bytes -> comparison :=
  if has_flag flags IntegerKeyFlag then int_cmp else bcmp.

(* Go: readDBI(txn, dbi, _, rawValues=true): every entry as is, no timestamp, no flags *)
Definition read_raw (d : db) : list kv := map (fun p => mkKV (fst p) (snd p) 0 0) d.

(* Go: readDBI(txn, dbi, _, rawValues=false): header split off; ErrEntry on an unparsable value.
   A non-DUPSORT DBI with a repeated key is refused (cannot happen for a real LMDB). *)
Fixpoint read_hdr (d : db) : res (list kv) :=
  match d with
  | [] => Ok []
  | (k, v) :: d' =>
      match parse v with
      | Ok (h, app) =>
          match read_hdr d' with
          | Ok r => Ok (mkKV k app (h_ts h) (masked (h_flags h)) :: r)
          | Err x => Err x | Panic => Panic | OutOfFuel => OutOfFuel
          end
      | Err x => Err x | Panic => Panic | OutOfFuel => OutOfFuel
      end
  end.

(* the NativeIterator mainToShadow builds: current format, default timestamp = now, no padding *)
Definition capture_cfg (now txn cutoff : N) : iter_cfg := mkCfg CurrentFormatVersion now txn false cutoff.

(* Go: mainToShadow for one DBI (not DUPSORT) *)
Definition main_to_shadow (flags now txn cutoff : N) (main shadow : db) : res db :=
  match new_native_iterator CurrentFormatVersion CompatFormatVersion txn with
  | Ok _ =>
      let c := capture_cfg now txn cutoff in
      iter_update (dbi_cmp flags) kv k_key (fun e old => native_merge c old e) (native_clean c) shadow (read_raw main)
  | Err x => Err x | Panic => Panic | OutOfFuel => OutOfFuel
  end.

(* Go: mainToShadow for a DUPSORT DBI with dupsort_hack: the pairs are encoded to unique keys first;
   the shadow DBI is in byte order *)
Definition main_to_shadow_dup (now txn cutoff : N) (main shadow : db) : res db :=
  match hack_encode (read_raw main) with
  | Ok enc =>
      match new_native_iterator CurrentFormatVersion CompatFormatVersion txn with
      | Ok _ =>
          let c := capture_cfg now txn cutoff in
          iter_update bcmp kv k_key (fun e old => native_merge c old e) (native_clean c) shadow enc
      | Err x => Err x | Panic => Panic | OutOfFuel => OutOfFuel
      end
  | Err x => Err x | Panic => Panic | OutOfFuel => OutOfFuel
  end.

(* Go: PlainIterator as an iterator over snapshot entries *)
Definition plain_m (e : kv) (old : bytes) : res bytes := plain_merge e.

(* Go: shadowToMain for one DBI (not DUPSORT): IterUpdate with the PlainIterator *)
Definition shadow_to_main (flags : N) (main shadow : db) : res db :=
  match read_hdr shadow with
  | Ok l => iter_update (dbi_cmp flags) kv k_key plain_m plain_clean main l
  | Err x => Err x | Panic => Panic | OutOfFuel => OutOfFuel
  end.

(* Go: shadowToMain for a DUPSORT DBI: decode, then EmptyPut *)
Definition shadow_to_main_dup (main shadow : db) : res db :=
  match read_hdr shadow with
  | Ok l => match hack_decode l with
            | Ok dl => empty_put kv k_key plain_m main dl
            | Err x => Err x | Panic => Panic | OutOfFuel => OutOfFuel
            end
  | Err x => Err x | Panic => Panic | OutOfFuel => OutOfFuel
  end.
