(* Merge/Version.v — logical versions, the last-writer-wins order and join. *)
From LS Require Import Base.Bytes Base.Res Header.Model Merge.Model.
Open Scope N_scope.

Record ver := mkVer { ts : N; del : bool; val : bytes }.

(* [wins n o]: version n beats version o.  Higher timestamp; on equal timestamps the
   lexicographically lower value; on equal values a deleted entry beats a live one. *)
Definition wins (n o : ver) : bool :=
  (ts o <? ts n)
  || ((ts n =? ts o)
      && (is_lt (bcmp (val n) (val o))
          || (is_eq (bcmp (val n) (val o)) && del n && negb (del o)))).

Definition join (o n : ver) : ver := if wins n o then n else o.

(* o ⊑ n *)
Definition vle (o n : ver) : Prop := o = n \/ wins n o = true.

Definition ver_eqb (a b : ver) : bool :=
  (ts a =? ts b) && Bool.eqb (del a) (del b) && beqb (val a) (val b).

(* the logical version stored in a headered value *)
Definition ver_of (b : bytes) : option ver :=
  match parse b with
  | Ok (h, app) => Some (mkVer (h_ts h) (is_deleted (h_flags h)) app)
  | _ => None
  end.

(* the logical version a snapshot entry denotes under an iterator configuration *)
Definition new_deleted (c : iter_cfg) (e : kv) : bool :=
  is_deleted (masked_flags e) || (Nat.eqb (length (k_val e)) 0 && (c_fmt c <? 2)).
Definition norm (c : iter_cfg) (e : kv) : ver :=
  mkVer (if k_ts e =? 0 then c_default_ts c else k_ts e)
        (new_deleted c e)
        (if new_deleted c e then [] else k_val e).

(* optional versions: absent is lowest *)
Definition ojoin (o : option ver) (n : ver) : ver :=
  match o with None => n | Some o => join o n end.
