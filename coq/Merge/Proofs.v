(* Merge/Proofs.v — the byte-level merge refines the logical join. *)
From LS Require Import Base.Bytes Base.BytesProofs Base.Res Header.Model Header.Proofs
  Merge.Model Merge.Version Merge.Order.
From Coq Require Import ZifyN ZifyNat ZifyBool.
Open Scope N_scope.

Definition cfg_ok (c : iter_cfg) : Prop := c_txn c < two64 /\ c_default_ts c < two64.
Definition kv_ok (e : kv) : Prop := k_ts e < two64.

(* what addHeader writes, parsed back *)
Definition ah_ts (c : iter_cfg) (ts : N) : N := if ts =? 0 then c_default_ts c else ts.
Definition ah_flags (c : iter_cfg) (ev : bytes) (f : N) : N :=
  if (Nat.eqb (length ev) 0) && (c_fmt c <? 2) then N.lor f FlagDeleted else f.
Definition ah_val (c : iter_cfg) (ev : bytes) (f : N) : bytes :=
  if is_deleted (ah_flags c ev f) then [] else ev.

Lemma ah_flags_small c ev f : f < 2 -> ah_flags c ev f < 2.
Proof.
  intros Hf. unfold ah_flags. destruct (_ && _); [|exact Hf].
  assert (f = 0 \/ f = 1) as [->| ->] by lia; reflexivity.
Qed.

Lemma add_header_parse c ev ts f :
  cfg_ok c -> ts < two64 -> f < 2 ->
  parse (add_header c ev ts f)
  = Ok (mkHdr (ah_ts c ts) (c_txn c) (ah_flags c ev f) [0;0;0;0]
              (if c_pad c then 1 else 0) (if c_pad c then [0;0;0;0;0;0;0;0] else []),
        ah_val c ev f).
Proof.
  intros [Htxn Hdef] Hts Hf. unfold add_header.
  fold (ah_ts c ts). fold (ah_flags c ev f). fold (ah_val c ev f).
  pose proof (ah_flags_small c ev f Hf) as Hf'.
  rewrite (N.mod_small (ah_flags c ev f) 256) by lia.
  assert (Hts' : ah_ts c ts < two64) by (unfold ah_ts; destruct (ts =? 0); assumption).
  destruct (c_pad c).
  - exact (parse_layout (ah_ts c ts) (c_txn c) (ah_flags c ev f) [0;0;0;0] 1 [0;0;0;0;0;0;0;0]
             (ah_val c ev f) Hts' Htxn eq_refl eq_refl eq_refl).
  - exact (parse_layout (ah_ts c ts) (c_txn c) (ah_flags c ev f) [0;0;0;0] 0 []
             (ah_val c ev f) Hts' Htxn eq_refl eq_refl eq_refl).
Qed.

Lemma masked_small e : masked_flags e < 2.
Proof. unfold masked_flags. apply N.mod_lt. lia. Qed.

Lemma is_deleted_lor1 f : is_deleted (N.lor f FlagDeleted) = true.
Proof. unfold is_deleted, FlagDeleted. rewrite <- N.bit0_odd, N.lor_spec. rewrite (N.bit0_odd 1). cbn. apply orb_true_r. Qed.

(* the flags/value addHeader derives from a normalised entry are those of [norm] *)
Lemma ah_norm_del c e :
  is_deleted (ah_flags c (if new_deleted c e then [] else k_val e) (masked_flags e)) = new_deleted c e.
Proof.
  unfold ah_flags, new_deleted.
  destruct (is_deleted (masked_flags e)) eqn:Ed; cbn [orb].
  - cbn [length Nat.eqb andb]. destruct (c_fmt c <? 2); [apply is_deleted_lor1|exact Ed].
  - destruct (Nat.eqb (length (k_val e)) 0) eqn:El; cbn [andb].
    + destruct (c_fmt c <? 2) eqn:Ef.
      * cbn [length Nat.eqb andb]. apply is_deleted_lor1.
      * rewrite El. cbn [andb]. exact Ed.
    + rewrite El. cbn [andb]. exact Ed.
Qed.

Lemma ah_norm_del_raw c e :
  is_deleted (ah_flags c (k_val e) (masked_flags e)) = new_deleted c e.
Proof.
  unfold ah_flags, new_deleted.
  destruct (Nat.eqb (length (k_val e)) 0 && (c_fmt c <? 2)) eqn:E.
  - rewrite is_deleted_lor1, orb_true_r. reflexivity.
  - rewrite orb_false_r. reflexivity.
Qed.

Lemma ah_norm_val c e :
  ah_val c (if new_deleted c e then [] else k_val e) (masked_flags e)
  = (if new_deleted c e then [] else k_val e).
Proof. unfold ah_val. rewrite ah_norm_del. destruct (new_deleted c e); reflexivity. Qed.

Lemma ah_norm_val_raw c e :
  ah_val c (k_val e) (masked_flags e) = (if new_deleted c e then [] else k_val e).
Proof. unfold ah_val. rewrite ah_norm_del_raw. reflexivity. Qed.

(* ---- absent key ---- *)

Lemma merge_absent c e :
  cfg_ok c -> kv_ok e ->
  native_merge c [] e =
    if new_deleted c e && (k_ts e <? c_cutoff c) then Ok []
    else Ok (add_header c (k_val e) (k_ts e) (masked_flags e)).
Proof. reflexivity. Qed.

Lemma merge_absent_ver c e :
  cfg_ok c -> kv_ok e ->
  ver_of (add_header c (k_val e) (k_ts e) (masked_flags e)) = Some (norm c e).
Proof.
  intros Hc He. unfold ver_of. rewrite add_header_parse by (auto using masked_small).
  cbn [h_ts h_flags]. rewrite ah_norm_del_raw, ah_norm_val_raw. reflexivity.
Qed.

(* ---- present key ---- *)

(* keep = the incoming version does not win *)
Lemma merge_present_general c old h app e :
  old <> [] -> parse old = Ok (h, app) ->
  let o := mkVer (h_ts h) (is_deleted (h_flags h)) app in
  let n := norm c e in
  native_merge c old e =
    if (k_ts e =? 0) && beqb app (val n) && Bool.eqb (del o) (del n) then Ok old
    else if wins n o then Ok (add_header c (val n) (ts n) (masked_flags e)) else Ok old.
Proof.
  intros Hne Hp o n. unfold native_merge. destruct old as [|x old']; [congruence|].
  rewrite Hp. fold (new_deleted c e).
  change (if new_deleted c e then [] else k_val e) with (val n).
  change (if k_ts e =? 0 then c_default_ts c else k_ts e) with (ts n).
  change (is_deleted (h_flags h)) with (del o).
  change (del n) with (new_deleted c e).
  destruct ((k_ts e =? 0) && beqb app (val n) && Bool.eqb (del o) (new_deleted c e)); [reflexivity|].
  unfold wins. cbn [ts del val o].
  change (del n) with (new_deleted c e).
  rewrite (bcmp_antisym app (val n)).
  destruct (N.compare_spec (ts n) (h_ts h)) as [E|L|G].
  - rewrite E, N.ltb_irrefl, N.eqb_refl. cbn [orb andb].
    destruct (bcmp app (val n)); cbn [CompOpp is_lt is_eq orb andb]; try reflexivity.
    destruct (is_deleted (h_flags h)), (new_deleted c e); reflexivity.
  - assert (ts n <? h_ts h = true) as -> by lia. assert (h_ts h <? ts n = false) as -> by lia.
    assert (ts n =? h_ts h = false) as -> by lia. reflexivity.
  - assert (ts n <? h_ts h = false) as -> by lia. assert (h_ts h <? ts n = true) as -> by lia.
    assert (ts n =? h_ts h = false) as -> by lia. reflexivity.
Qed.

Lemma norm_ts_small c e : cfg_ok c -> kv_ok e -> ts (norm c e) < two64.
Proof. intros [_ Hd] He. cbn [norm ts]. destruct (k_ts e =? 0); assumption. Qed.

Lemma ver_of_written c e :
  cfg_ok c -> kv_ok e ->
  ver_of (add_header c (val (norm c e)) (ts (norm c e)) (masked_flags e))
  = Some (mkVer (ah_ts c (ts (norm c e))) (del (norm c e)) (val (norm c e))).
Proof.
  intros Hc He. unfold ver_of.
  rewrite add_header_parse by (auto using masked_small, norm_ts_small).
  cbn [h_ts h_flags]. cbn [norm val del]. rewrite ah_norm_del, ah_norm_val. reflexivity.
Qed.

Lemma ah_ts_norm c e : ah_ts c (ts (norm c e)) = ts (norm c e).
Proof.
  unfold ah_ts. cbn [norm ts]. destruct (k_ts e =? 0) eqn:E; [|rewrite E; reflexivity].
  destruct (c_default_ts c =? 0) eqn:E2; [|reflexivity]. lia.
Qed.

(* Snapshot merging (no default timestamp, or the entry has its own timestamp):
   the stored logical version becomes the join *)
Theorem merge_refines_join c old h app e :
  cfg_ok c -> kv_ok e -> old <> [] -> parse old = Ok (h, app) ->
  (c_default_ts c = 0 \/ k_ts e <> 0) ->
  exists v, native_merge c old e = Ok v /\
    ver_of v = Some (join (mkVer (h_ts h) (is_deleted (h_flags h)) app) (norm c e)).
Proof.
  intros Hc He Hne Hp Hd.
  set (o := mkVer (h_ts h) (is_deleted (h_flags h)) app).
  assert (Hvo : ver_of old = Some o) by (unfold ver_of; rewrite Hp; reflexivity).
  rewrite (merge_present_general c old h app e Hne Hp). fold o.
  destruct ((k_ts e =? 0) && beqb app (val (norm c e)) && Bool.eqb (del o) (del (norm c e))) eqn:Esc.
  - (* shortcut: timestamp 0, same value, same flag *)
    exists old. split; [reflexivity|]. rewrite Hvo. f_equal.
    apply andb_prop in Esc. destruct Esc as [Esc Edel]. apply andb_prop in Esc. destruct Esc as [Ets Eval].
    destruct Hd as [Hd|Hd]; [|lia].
    unfold join. destruct (wins (norm c e) o) eqn:W; [|reflexivity].
    exfalso. unfold wins in W. cbn [norm ts] in W. rewrite Ets, Hd in W.
    apply beqb_eq in Eval. apply Bool.eqb_prop in Edel.
    cbn [o ts val del] in W, Edel. rewrite <- Eval, bcmp_refl in W. cbn [is_lt is_eq orb andb] in W.
    rewrite Edel in W. destruct (del (norm c e)); cbn in W.
    all: destruct (h_ts h); cbn in W; discriminate.
  - unfold join. destruct (wins (norm c e) o) eqn:W.
    + eexists. split; [reflexivity|]. rewrite ver_of_written by assumption.
      rewrite ah_ts_norm. destruct (norm c e); reflexivity.
    + exists old. split; [reflexivity|exact Hvo].
Qed.

(* a merge never moves a key backwards *)
Theorem merge_never_backwards c old h app e :
  cfg_ok c -> kv_ok e -> old <> [] -> parse old = Ok (h, app) ->
  exists v r, native_merge c old e = Ok v /\ ver_of v = Some r /\
    vle (mkVer (h_ts h) (is_deleted (h_flags h)) app) r.
Proof.
  intros Hc He Hne Hp.
  set (o := mkVer (h_ts h) (is_deleted (h_flags h)) app).
  assert (Hvo : ver_of old = Some o) by (unfold ver_of; rewrite Hp; reflexivity).
  rewrite (merge_present_general c old h app e Hne Hp). fold o.
  destruct (_ && _ && _).
  - exists old, o. repeat split; auto. apply vle_refl.
  - destruct (wins (norm c e) o) eqn:W.
    + eexists. eexists. split; [reflexivity|]. split.
      * rewrite ver_of_written by assumption. rewrite ah_ts_norm. reflexivity.
      * right. destruct (norm c e); exact W.
    + exists old, o. repeat split; auto. apply vle_refl.
Qed.

(* when the incoming version does not win, the stored BYTES are returned unchanged *)
Theorem merge_bytes_untouched c old h app e :
  old <> [] -> parse old = Ok (h, app) ->
  wins (norm c e) (mkVer (h_ts h) (is_deleted (h_flags h)) app) = false ->
  native_merge c old e = Ok old.
Proof.
  intros Hne Hp W. rewrite (merge_present_general c old h app e Hne Hp).
  rewrite W. destruct (_ && _ && _); reflexivity.
Qed.

(* the shadow-capture use: default timestamp d, entries without timestamp *)
Theorem merge_capture_rule c old h app e :
  cfg_ok c -> kv_ok e -> old <> [] -> parse old = Ok (h, app) -> k_ts e = 0 ->
  let o := mkVer (h_ts h) (is_deleted (h_flags h)) app in
  let n := norm c e in
  if beqb app (val n) && Bool.eqb (del o) (del n)
  then native_merge c old e = Ok old
  else exists v, native_merge c old e = Ok v /\ ver_of v = Some (join o n).
Proof.
  intros Hc He Hne Hp Hts o n.
  assert (Hvo : ver_of old = Some o) by (unfold ver_of; rewrite Hp; reflexivity).
  rewrite (merge_present_general c old h app e Hne Hp). fold o. fold n.
  rewrite Hts. cbn [N.eqb andb].
  destruct (beqb app (val n) && Bool.eqb (del o) (del n)); [reflexivity|].
  unfold join. destruct (wins n o) eqn:W.
  - eexists. split; [reflexivity|]. unfold n. rewrite ver_of_written by assumption.
    rewrite ah_ts_norm. destruct (norm c e); reflexivity.
  - exists old. split; [reflexivity|exact Hvo].
Qed.

(* an unparsable stored value is an error, never a silent overwrite *)
Theorem merge_bad_old c old e x :
  old <> [] -> parse old = Err x -> native_merge c old e = Err x.
Proof. intros Hne Hp. unfold native_merge. destruct old; [congruence|]. rewrite Hp. reflexivity. Qed.

(* ---- Clean ---- *)
Theorem clean_spec c old h app :
  cfg_ok c -> parse old = Ok (h, app) ->
  if is_deleted (h_flags h) then native_clean c old = Ok old
  else exists v, native_clean c old = Ok v /\
       ver_of v = Some (mkVer (c_default_ts c) true []).
Proof.
  intros Hc Hp. unfold native_clean. rewrite Hp.
  destruct (is_deleted (h_flags h)); [reflexivity|].
  eexists. split; [reflexivity|]. unfold ver_of.
  rewrite add_header_parse by (auto; unfold two64, FlagDeleted; lia).
  cbn [h_ts h_flags]. unfold ah_ts, ah_val, ah_flags. cbn [N.eqb length Nat.eqb andb].
  destruct (c_fmt c <? 2); reflexivity.
Qed.

(* ---- C14: everything the merge routines write is a well-formed LS header ---- *)
Lemma add_header_written c ev ts f :
  f < 2 ->
  ls_written (add_header c ev ts f) (ah_ts c ts) (c_txn c) (ah_flags c ev f) (c_pad c) (ah_val c ev f)
  /\ ah_flags c ev f < 2
  /\ (is_deleted (ah_flags c ev f) = true -> ah_val c ev f = [])
  /\ (is_deleted (ah_flags c ev f) = false -> ah_val c ev f = ev).
Proof.
  intros Hf. pose proof (ah_flags_small c ev f Hf) as Hf'.
  unfold ls_written, add_header. fold (ah_ts c ts). fold (ah_flags c ev f). fold (ah_val c ev f).
  rewrite (N.mod_small (ah_flags c ev f) 256) by lia.
  repeat split; auto; unfold ah_val; intros ->; reflexivity.
Qed.

Theorem merge_written_wf c old e v :
  native_merge c old e = Ok v ->
  v = [] \/ v = old \/
  exists ts f app, ls_written v ts (c_txn c) f (c_pad c) app /\ f < 2 /\
     (is_deleted f = true -> app = []) /\ (app = [] \/ app = k_val e).
Proof.
  unfold native_merge. destruct old as [|x old'].
  - destruct (_ && _); intros H; injection H as <-; [left; reflexivity|].
    right; right.
    destruct (add_header_written c (k_val e) (k_ts e) (masked_flags e) (masked_small e)) as (H1 & H2 & H3 & H4).
    exists (ah_ts c (k_ts e)), (ah_flags c (k_val e) (masked_flags e)), (ah_val c (k_val e) (masked_flags e)).
    split; [exact H1|]. split; [exact H2|]. split; [exact H3|].
    destruct (is_deleted (ah_flags c (k_val e) (masked_flags e))); auto.
  - destruct (parse (x :: old')) as [[h app]| | |]; try discriminate.
    destruct (_ && _ && _); [intros H; injection H as <-; auto|].
    destruct (_ <? _); [intros H; injection H as <-; auto|].
    destruct (_ && _); [intros H; injection H as <-; auto|].
    intros H; injection H as <-. right; right.
    match goal with |- context [add_header c ?ev ?t ?f] =>
      destruct (add_header_written c ev t f (masked_small e)) as (H1 & H2 & H3 & H4);
      exists (ah_ts c t), (ah_flags c ev f), (ah_val c ev f) end.
    split; [exact H1|]. split; [exact H2|]. split; [exact H3|].
    match type of H3 with is_deleted ?fl = true -> _ => destruct (is_deleted fl) end.
    + left; auto.
    + rewrite H4 by reflexivity. destruct (_ || _); auto.
Qed.

Theorem clean_written_wf c old v :
  native_clean c old = Ok v ->
  v = old \/ ls_written v (c_default_ts c) (c_txn c) 1 (c_pad c) [].
Proof.
  unfold native_clean. destruct (parse old) as [[h app]| | |]; try discriminate.
  destruct (is_deleted (h_flags h)); intros H; injection H as <-; [left; reflexivity|right].
  unfold ls_written, add_header. cbn [N.eqb length Nat.eqb andb].
  destruct (c_fmt c <? 2); reflexivity.
Qed.
