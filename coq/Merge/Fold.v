(* Merge/Fold.v — merging a sequence of entries for one key: order and multiplicity do not matter. *)
From LS Require Import Base.Bytes Base.BytesProofs Base.Res Header.Model Header.Proofs
  Merge.Model Merge.Version Merge.Order Merge.Proofs.
From Coq Require Import ZifyN ZifyNat ZifyBool Permutation.
Open Scope N_scope.

(* what strategy.Update does for one key over a sequence of snapshot entries:
   feed the stored bytes (or nothing) and the entry to Merge, store the result *)
Fixpoint merge_fold (c : iter_cfg) (st : bytes) (l : list kv) : res bytes :=
  match l with
  | [] => Ok st
  | e :: l' => match native_merge c st e with
               | Ok v => merge_fold c v l'
               | Err x => Err x | Panic => Panic | OutOfFuel => OutOfFuel
               end
  end.

Lemma ver_of_some_inv b o : ver_of b = Some o ->
  b <> [] /\ exists h app, parse b = Ok (h, app) /\ o = mkVer (h_ts h) (is_deleted (h_flags h)) app.
Proof.
  unfold ver_of. destruct b as [|x b]; [discriminate|].
  destruct (parse (x :: b)) as [[h app]| | |] eqn:E; try discriminate.
  intros H. injection H as <-. split; [discriminate|]. eauto.
Qed.

(* snapshot-merge configuration: no default timestamp *)
Definition snap_cfg (c : iter_cfg) : Prop := cfg_ok c /\ c_default_ts c = 0.

Lemma merge_step_join c st o e :
  snap_cfg c -> kv_ok e -> ver_of st = Some o ->
  exists v, native_merge c st e = Ok v /\ ver_of v = Some (join o (norm c e)).
Proof.
  intros [Hc Hd] He Hv. apply ver_of_some_inv in Hv. destruct Hv as (Hne & h & app & Hp & ->).
  apply merge_refines_join; auto.
Qed.

(* key present: any cutoff, any order *)
Theorem fold_present c st o l :
  snap_cfg c -> Forall kv_ok l -> ver_of st = Some o ->
  exists v, merge_fold c st l = Ok v /\ ver_of v = Some (joinl o (map (norm c) l)).
Proof.
  intros Hc Hl. revert st o. induction Hl as [|e l He Hl IH]; intros st o Hv.
  - exists st. split; [reflexivity|exact Hv].
  - cbn [merge_fold map]. destruct (merge_step_join c st o e Hc He Hv) as (v & -> & Hv').
    destruct (IH v _ Hv') as (w & Hw & Hvw). exists w. split; [exact Hw|].
    rewrite Hvw. reflexivity.
Qed.

(* key absent, sweeper disabled (cutoff 0): the first entry is stored, the rest joined *)
Theorem fold_absent_nocutoff c e l :
  snap_cfg c -> c_cutoff c = 0 -> kv_ok e -> Forall kv_ok l ->
  exists v, merge_fold c [] (e :: l) = Ok v /\
            ver_of v = Some (joinl (norm c e) (map (norm c) l)).
Proof.
  intros Hc Hcut He Hl. cbn [merge_fold]. rewrite merge_absent by (destruct Hc; auto).
  rewrite Hcut. replace (k_ts e <? 0) with false by lia. rewrite andb_false_r.
  apply fold_present; auto. apply merge_absent_ver; destruct Hc; auto.
Qed.

(* a stale marker for an absent key is dropped: the key stays absent *)
Definition stale (c : iter_cfg) (e : kv) : bool :=
  new_deleted c e && (k_ts e <? c_cutoff c).

Fixpoint drop_stale (c : iter_cfg) (l : list kv) : list kv :=
  match l with
  | e :: l' => if stale c e then drop_stale c l' else l
  | [] => []
  end.

Theorem fold_absent_cutoff c l :
  snap_cfg c -> Forall kv_ok l ->
  match drop_stale c l with
  | [] => merge_fold c [] l = Ok []
  | e :: l' => exists v, merge_fold c [] l = Ok v /\
                 ver_of v = Some (joinl (norm c e) (map (norm c) l'))
  end.
Proof.
  intros Hc Hl. induction Hl as [|e l He Hl IH]; [reflexivity|].
  cbn [drop_stale]. destruct (stale c e) eqn:Es.
  - cbn [merge_fold]. rewrite merge_absent by (destruct Hc; auto).
    unfold stale in Es. rewrite Es. exact IH.
  - cbn [merge_fold]. rewrite merge_absent by (destruct Hc; auto).
    unfold stale in Es. rewrite Es.
    apply fold_present; auto. apply merge_absent_ver; destruct Hc; auto.
Qed.

(* ORDER: the logical result for a present key depends only on the SET of incoming versions *)
Theorem fold_present_order c st o l l' :
  snap_cfg c -> Forall kv_ok l -> Forall kv_ok l' -> ver_of st = Some o ->
  (forall x, In x (map (norm c) l) <-> In x (map (norm c) l')) ->
  exists v v', merge_fold c st l = Ok v /\ merge_fold c st l' = Ok v' /\
     ver_of v = ver_of v' /\ ver_of v = Some (joinl o (map (norm c) l)).
Proof.
  intros Hc Hl Hl' Hv Hset.
  destruct (fold_present c st o l Hc Hl Hv) as (v & Hm & Hvv).
  destruct (fold_present c st o l' Hc Hl' Hv) as (v' & Hm' & Hvv').
  exists v, v'. repeat split; auto. rewrite Hvv, Hvv'. f_equal. apply joinl_same_set, Hset.
Qed.

(* ORDER from an absent key with the sweeper disabled *)
Theorem fold_absent_order c l l' :
  snap_cfg c -> c_cutoff c = 0 -> Forall kv_ok l -> Forall kv_ok l' -> l <> [] ->
  (forall x, In x (map (norm c) l) <-> In x (map (norm c) l')) ->
  exists v v', merge_fold c [] l = Ok v /\ merge_fold c [] l' = Ok v' /\ ver_of v = ver_of v' /\ v <> [].
Proof.
  intros Hc Hcut Hl Hl' Hne Hset.
  destruct l as [|e l]; [congruence|]. destruct l' as [|e' l'].
  { exfalso. apply (Hset (norm c e)). left; reflexivity. }
  inversion Hl as [|? ? He Hl1]; inversion Hl' as [|? ? He' Hl1']; subst.
  destruct (fold_absent_nocutoff c e l Hc Hcut He Hl1) as (v & Hm & Hv).
  destruct (fold_absent_nocutoff c e' l' Hc Hcut He' Hl1') as (v' & Hm' & Hv').
  exists v, v'. repeat split; auto.
  - rewrite Hv, Hv'. f_equal.
    change (joinl (norm c e) (map (norm c) l)) with (fold_left join (map (norm c) l) (norm c e)).
    (* joinl x l = joinl x (x :: l) *)
    assert (Hx : forall x l0, joinl x l0 = joinl x (x :: l0)).
    { intros x l0. unfold joinl. cbn [fold_left]. rewrite join_idem. reflexivity. }
    fold (joinl (norm c e) (map (norm c) l)).
    rewrite (Hx (norm c e)), (Hx (norm c e')).
    change (norm c e :: map (norm c) l) with (map (norm c) (e :: l)).
    change (norm c e' :: map (norm c) l') with (map (norm c) (e' :: l')).
    (* the starting point may differ: absorb it *)
    assert (Hs : forall a b l0, In a l0 -> In b l0 -> joinl a l0 = joinl b l0).
    { intros a b l0 Ha Hb.
      rewrite <- (joinl_absorb l0 a b Hb). rewrite <- (joinl_absorb l0 b a Ha).
      rewrite join_comm. reflexivity. }
    rewrite (joinl_same_set _ _ (norm c e) Hset).
    apply Hs; [apply Hset|]; left; reflexivity.
  - intros ->. unfold ver_of in Hv. cbn in Hv. discriminate.
Qed.

(* the documented exception: with a stale cutoff, an absent key and a stale marker, order matters
   (C04 requires the marker not to be re-created) *)
Lemma cutoff_order_matters :
  exists c e1 e2 v1 v2, snap_cfg c /\ kv_ok e1 /\ kv_ok e2 /\
    merge_fold c [] [e1; e2] = Ok v1 /\ merge_fold c [] [e2; e1] = Ok v2 /\ ver_of v1 <> ver_of v2.
Proof.
  exists (mkCfg 3 0 7 false 10), (mkKV [1] [] 5 1), (mkKV [1] [9] 3 0).
  eexists. eexists. repeat split; try (vm_compute; reflexivity); try (unfold kv_ok, two64; cbn; lia).
  vm_compute. discriminate.
Qed.
