(* Merge/Model.v — mirrors syncer/iterators.go (NewNativeIterator gates, NativeIterator.Merge,
   Clean, addHeader, PlainIterator) and snapshot/flags.go (MaskedFlags). Byte level.
   Conventions: a Go []byte that is nil or empty is the empty list (the code only ever tests
   len(x) == 0 on these paths). No proofs here. *)
From LS Require Import Base.Bytes Base.Res Header.Model.
Open Scope N_scope.

(* snapshot.KV *)
Record kv := mkKV { k_key : bytes; k_val : bytes; k_ts : N; k_flags : N }.

(* NativeIterator configuration *)
Record iter_cfg := mkCfg {
  c_fmt : N;          (* FormatVersion *)
  c_default_ts : N;   (* DefaultTimestampNano *)
  c_txn : N;          (* TxnID *)
  c_pad : bool;       (* HeaderPaddingBlock *)
  c_cutoff : N        (* DeletedCutoff *)
}.

Definition CurrentFormatVersion : N := 3.
Definition CompatFormatVersion : N := 1.

(* Go: NewNativeIterator gates *)
Definition new_native_iterator (fmt compat txn : N) : res unit :=
  if fmt =? 0 then Err ERefused
  else if CurrentFormatVersion <? compat then Err ERefused
  else if fmt <? CompatFormatVersion then Err ERefused
  else if txn =? 0 then Err ERefused
  else Ok tt.

(* Go: KV.MaskedFlags — header.Flags(uint8(kv.Flags)).Masked() *)
Definition masked_flags (e : kv) : N := (k_flags e) mod 2.

(* Go: addHeader(entryVal, ts, flags, _) *)
Definition add_header (c : iter_cfg) (entryVal : bytes) (ts flags : N) : bytes :=
  let ts := if ts =? 0 then c_default_ts c else ts in
  let flags := if (Nat.eqb (length entryVal) 0) && (c_fmt c <? 2) then N.lor flags FlagDeleted else flags in
  let entryVal := if is_deleted flags then [] else entryVal in
  be64 ts ++ be64 (c_txn c) ++ [0; flags mod 256; 0; 0; 0; 0; 0; (if c_pad c then 1 else 0)]
    ++ (if c_pad c then [0;0;0;0;0;0;0;0] else []) ++ entryVal.

(* Go: NativeIterator.Merge(oldval) with it.curKV = e *)
Definition native_merge (c : iter_cfg) (old : bytes) (e : kv) : res bytes :=
  match old with
  | [] =>
      (* in format version 1 an empty value denotes a deletion (fix 03ae323: the stale check honours it) *)
      let newDeleted := is_deleted (masked_flags e)
                        || (Nat.eqb (length (k_val e)) 0 && (c_fmt c <? 2)) in
      if newDeleted && (k_ts e <? c_cutoff c) then Ok []
      else Ok (add_header c (k_val e) (k_ts e) (masked_flags e))
  | _ :: _ =>
      match parse old with
      | Ok (h, app) =>
          let oldDeleted := is_deleted (h_flags h) in
          let newDeleted := is_deleted (masked_flags e)
                            || (Nat.eqb (length (k_val e)) 0 && (c_fmt c <? 2)) in
          let ev := if newDeleted then [] else k_val e in
          if (k_ts e =? 0) && beqb app ev && Bool.eqb oldDeleted newDeleted then Ok old
          else
            let newTS := if k_ts e =? 0 then c_default_ts c else k_ts e in
            if newTS <? h_ts h then Ok old
            else if (newTS =? h_ts h)
                    && (is_lt (bcmp app ev) || (is_eq (bcmp app ev) && (oldDeleted || negb newDeleted)))
            then Ok old
            else Ok (add_header c ev newTS (masked_flags e))
      | Err x => Err x
      | Panic => Panic
      | OutOfFuel => OutOfFuel
      end
  end.

(* Go: NativeIterator.Clean(oldval) *)
Definition native_clean (c : iter_cfg) (old : bytes) : res bytes :=
  match parse old with
  | Ok (h, _) =>
      if is_deleted (h_flags h) then Ok old
      else Ok (add_header c [] 0 FlagDeleted)
  | Err x => Err x
  | Panic => Panic
  | OutOfFuel => OutOfFuel
  end.

(* Go: PlainIterator.Merge / Clean *)
Definition plain_merge (e : kv) : res bytes := Ok (k_val e).
Definition plain_clean (old : bytes) : res bytes := Ok [].
