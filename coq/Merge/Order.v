(* Merge/Order.v — order theory of [wins]/[join]: strict total order on versions, ACI of join,
   order-independence of folds. *)
From LS Require Import Base.Bytes Base.BytesProofs Base.Res Header.Model Merge.Model Merge.Version.
From Coq Require Import ZifyN ZifyNat ZifyBool Permutation.
Open Scope N_scope.

Lemma wins_irrefl a : wins a a = false.
Proof.
  unfold wins. rewrite bcmp_refl. cbn [is_lt is_eq].
  rewrite N.ltb_irrefl, N.eqb_refl. destruct (del a); reflexivity.
Qed.

Lemma wins_asym a b : wins a b = true -> wins b a = false.
Proof.
  unfold wins. rewrite (bcmp_antisym (val a) (val b)).
  destruct (N.compare_spec (ts a) (ts b)) as [E|L|G].
  - rewrite E, N.ltb_irrefl, N.eqb_refl. cbn [orb andb].
    destruct (bcmp (val a) (val b)); cbn [CompOpp is_lt is_eq orb andb]; try congruence.
    destruct (del a), (del b); cbn; congruence.
  - assert (ts b <? ts a = false) as -> by lia. assert (ts a =? ts b = false) as -> by lia.
    cbn. congruence.
  - assert (ts a <? ts b = false) as -> by lia. assert (ts b =? ts a = false) as -> by lia.
    cbn. congruence.
Qed.

(* totality: if neither wins the versions are equal *)
Lemma wins_total a b : wins a b = false -> wins b a = false -> a = b.
Proof.
  unfold wins. rewrite (bcmp_antisym (val a) (val b)).
  destruct a as [ta da va], b as [tb db vb]; cbn [ts del val].
  destruct (N.compare_spec ta tb) as [E|L|G].
  - subst tb. rewrite N.ltb_irrefl, N.eqb_refl. cbn [orb andb].
    destruct (bcmp va vb) eqn:C; cbn [CompOpp is_lt is_eq orb andb]; try congruence.
    apply bcmp_eq in C. subst vb.
    destruct da, db; cbn; congruence.
  - assert (ta <? tb = true) as -> by lia. cbn. congruence.
  - assert (tb <? ta = true) as -> by lia. cbn. congruence.
Qed.

Lemma bcmp_eq_lt_trans a b c : bcmp a b = Eq -> bcmp b c = Lt -> bcmp a c = Lt.
Proof. intros H. apply bcmp_eq in H. subst. auto. Qed.
Lemma bcmp_lt_eq_trans a b c : bcmp a b = Lt -> bcmp b c = Eq -> bcmp a c = Lt.
Proof. intros H1 H. apply bcmp_eq in H. subst. auto. Qed.

Lemma wins_trans a b c : wins a b = true -> wins b c = true -> wins a c = true.
Proof.
  unfold wins.
  destruct (N.compare_spec (ts b) (ts a)) as [E1|L1|G1];
  destruct (N.compare_spec (ts c) (ts b)) as [E2|L2|G2].
  all: try (assert (ts b <? ts a = false) as -> by lia);
       try (assert (ts b <? ts a = true) as -> by lia);
       try (assert (ts c <? ts b = false) as -> by lia);
       try (assert (ts c <? ts b = true) as -> by lia);
       try (assert (ts a =? ts b = false) as -> by lia);
       try (assert (ts a =? ts b = true) as -> by lia);
       try (assert (ts b =? ts c = false) as -> by lia);
       try (assert (ts b =? ts c = true) as -> by lia);
       cbn [orb andb]; try congruence.
  all: try (assert (ts c <? ts a = true) as -> by lia; reflexivity).
  (* all three timestamps equal *)
  assert (ts c <? ts a = false) as -> by lia. assert (ts a =? ts c = true) as -> by lia.
  cbn [orb andb].
  destruct (bcmp (val a) (val b)) eqn:C1; destruct (bcmp (val b) (val c)) eqn:C2;
    cbn [is_lt is_eq orb andb]; try congruence.
  - apply bcmp_eq in C1, C2. rewrite C1, C2, bcmp_refl. cbn.
    destruct (del a), (del b), (del c); cbn; congruence.
  - rewrite (bcmp_eq_lt_trans _ _ _ C1 C2). reflexivity.
  - rewrite (bcmp_lt_eq_trans _ _ _ C1 C2). reflexivity.
  - rewrite (bcmp_lt_trans _ _ _ C1 C2). reflexivity.
Qed.

Lemma not_wins_trans a b c : wins c b = false -> wins b a = false -> wins c a = false.
Proof.
  intros H1 H2.
  destruct (wins c a) eqn:E; [|reflexivity].
  (* c > a. b >= c?  either b = c or b wins c *)
  destruct (wins b c) eqn:Ebc.
  - rewrite (wins_trans _ _ _ Ebc E) in H2. discriminate.
  - assert (c = b) by (apply wins_total; assumption). subst. congruence.
Qed.

Lemma join_idem a : join a a = a.
Proof. unfold join. rewrite wins_irrefl. reflexivity. Qed.

Lemma join_comm a b : join a b = join b a.
Proof.
  unfold join. destruct (wins b a) eqn:E1; destruct (wins a b) eqn:E2; try reflexivity.
  - rewrite (wins_asym _ _ E1) in E2. discriminate.
  - apply wins_total; assumption.
Qed.

Lemma join_assoc a b c : join (join a b) c = join a (join b c).
Proof.
  unfold join.
  destruct (wins b a) eqn:Eba; destruct (wins c b) eqn:Ecb; rewrite ?Eba, ?Ecb.
  - rewrite (wins_trans _ _ _ Ecb Eba). reflexivity.
  - reflexivity.
  - destruct (wins c a); reflexivity.
  - rewrite (not_wins_trans _ _ _ Ecb Eba). reflexivity.
Qed.

Lemma join_right_comm s a b : join (join s a) b = join (join s b) a.
Proof. rewrite !join_assoc. f_equal. apply join_comm. Qed.

Lemma join_absorb s a : join (join s a) a = join s a.
Proof. rewrite join_assoc, join_idem. reflexivity. Qed.

Lemma vle_refl a : vle a a. Proof. left; reflexivity. Qed.
Lemma vle_join_l o n : vle o (join o n).
Proof. unfold vle, join. destruct (wins n o) eqn:E; auto. Qed.
Lemma vle_join_r o n : vle n (join o n).
Proof.
  unfold vle, join. destruct (wins n o) eqn:E; auto.
  destruct (wins o n) eqn:E2; auto. left. apply wins_total; assumption.
Qed.
Lemma vle_trans a b c : vle a b -> vle b c -> vle a c.
Proof.
  unfold vle. intros [->|H1] [->|H2]; auto. right. eapply wins_trans; eauto.
Qed.
Lemma vle_antisym a b : vle a b -> vle b a -> a = b.
Proof.
  unfold vle. intros [->|H1] [E|H2]; auto. rewrite (wins_asym _ _ H1) in H2. discriminate.
Qed.
Lemma join_lub o n x : vle o x -> vle n x -> vle (join o n) x.
Proof. unfold join. destruct (wins n o); auto. Qed.

(* folds *)
Definition joinl (s : ver) (l : list ver) : ver := fold_left join l s.

Lemma joinl_perm l l' : Permutation l l' -> forall s, joinl s l = joinl s l'.
Proof.
  unfold joinl. induction 1 as [|x l l' _ IH|x y l|l l' l'' _ IH1 _ IH2]; intros s; cbn [fold_left].
  - reflexivity.
  - apply IH.
  - rewrite join_right_comm. reflexivity.
  - rewrite IH1. apply IH2.
Qed.

Lemma joinl_absorb l : forall s a, In a l -> joinl (join s a) l = joinl s l.
Proof.
  unfold joinl. induction l as [|x l IH]; intros s a Hin; [destruct Hin|].
  cbn [fold_left]. destruct Hin as [->|Hin].
  - rewrite join_absorb. reflexivity.
  - rewrite join_right_comm. apply IH, Hin.
Qed.

Lemma joinl_cons_dup l s a : In a l -> joinl s (a :: l) = joinl s l.
Proof. intros H. unfold joinl. cbn [fold_left]. apply joinl_absorb, H. Qed.

(* multiplicity does not matter: only the set of versions *)
Definition ver_eq_dec (x y : ver) : {x = y} + {x <> y}.
Proof. decide equality; [apply (list_eq_dec N.eq_dec)|apply Bool.bool_dec|apply N.eq_dec]. Defined.

Lemma joinl_nodup l : forall s, joinl s l = joinl s (nodup ver_eq_dec l).
Proof.
  induction l as [|a l IH]; intros s; [reflexivity|].
  cbn [nodup]. destruct (in_dec ver_eq_dec a l) as [Hin|Hnin].
  - rewrite joinl_cons_dup by exact Hin. apply IH.
  - unfold joinl. cbn [fold_left]. apply IH.
Qed.

Lemma joinl_same_set l l' s :
  (forall x, In x l <-> In x l') -> joinl s l = joinl s l'.
Proof.
  intros Hset. rewrite (joinl_nodup l), (joinl_nodup l').
  apply joinl_perm. apply NoDup_Permutation; try apply NoDup_nodup.
  intros x. rewrite !nodup_In. apply Hset.
Qed.
