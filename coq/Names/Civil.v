(* Names/Civil.v — the part of Go's time package that snapshot/name.go relies on, as a civil-date
   model: time.Time.UTC().Format("20060102-150405.000000000") and
   time.Parse("20060102-150405.000000000", s).

   time.Time values are modelled as instants: Z = nanoseconds since 1970-01-01T00:00:00Z (what
   Time.UnixNano returns while it fits). The location of a time.Time is not part of the model:
   NameTimestamp calls .UTC() first, so only the instant matters (the harness oracle checks that).

   time.Format / time.Parse themselves are TRUSTED library code; this file is the model of them that
   the correspondence run compares with `time` over 1677..2262 (Format) and years 0000..9999 (Parse).
   The calendar arithmetic is the usual days-from-civil / civil-from-days pair (proleptic Gregorian,
   floor division, so it is also right before 1970).
   No proofs here (Names/CivilProofs.v). *)
From LS Require Import Base.Bytes.
Open Scope Z_scope.

Definition NS_SEC : Z := 1000000000.
Definition NS_DAY : Z := 86400000000000.
Definition two63z : Z := 9223372036854775808.

(* ---------- calendar ---------- *)

(* Go: time.isLeap *)
Definition leap (y : Z) : bool :=
  (y mod 4 =? 0) && (negb (y mod 100 =? 0) || (y mod 400 =? 0)).

(* Go: time.daysIn(m, year) *)
Definition days_in (m y : Z) : Z :=
  if m =? 2 then (if leap y then 29 else 28)
  else if (m =? 4) || (m =? 6) || (m =? 9) || (m =? 11) then 30
  else 31.

(* days since 1970-01-01 -> (year, month, day) *)
Definition civil_from_days (z : Z) : Z * Z * Z :=
  let z := z + 719468 in
  let era := z / 146097 in
  let doe := z - era * 146097 in
  let yoe := (doe - doe / 1460 + doe / 36524 - doe / 146096) / 365 in
  let y := yoe + era * 400 in
  let doy := doe - (365 * yoe + yoe / 4 - yoe / 100) in
  let mp := (5 * doy + 2) / 153 in
  let d := doy - (153 * mp + 2) / 5 + 1 in
  let m := if mp <? 10 then mp + 3 else mp - 9 in
  ((if m <=? 2 then y + 1 else y), m, d).

(* (year, month, day) -> days since 1970-01-01 *)
Definition days_from_civil (y m d : Z) : Z :=
  let y := if m <=? 2 then y - 1 else y in
  let era := y / 400 in
  let yoe := y - era * 400 in
  let doy := (153 * (if 2 <? m then m - 3 else m + 9) + 2) / 5 + d - 1 in
  let doe := yoe * 365 + yoe / 4 - yoe / 100 + doy in
  era * 146097 + doe - 719468.

(* ---------- fixed-width decimal fields ---------- *)

(* Go: time.appendInt(b, x, width) for 0 <= x < 10^width: exactly [k] digits, most significant first *)
Fixpoint dec (k : nat) (n : Z) : bytes :=
  match k with
  | O => []
  | S k' => let p := 10 ^ Z.of_nat k' in Z.to_N (48 + (n / p) mod 10) :: dec k' (n mod p)
  end.

Definition is_digit (c : N) : bool := ((48 <=? c) && (c <=? 57))%N.

(* Go: time.getnum(s, fixed=true) / the 4-digit year / the digits of parseNanoseconds:
   exactly [k] decimal digits at the front of [s]; value and rest *)
Fixpoint take_dec (k : nat) (s : bytes) : option (Z * bytes) :=
  match k with
  | O => Some (0, s)
  | S k' =>
      match s with
      | [] => None
      | c :: r =>
          if is_digit c then
            match take_dec k' r with
            | Some (v, rest) => Some ((Z.of_N c - 48) * 10 ^ Z.of_nat k' + v, rest)
            | None => None
            end
          else None
      end
  end.

(* ---------- Format ---------- *)

(* Go: strings.Replace(ts.UTC().Format("20060102-150405.000000000"), ".", "-", 1)  (snapshot.NameTimestamp)
   for the instant [t]; 25 bytes "YYYYMMDD-hhmmss-nnnnnnnnn". The only '.' Format produces is the one
   before the fraction, so the Replace is folded in. Valid while the year has four digits
   (every int64 nanosecond instant: 1677..2262). *)
Definition format_ts (t : Z) : bytes :=
  let days := t / NS_DAY in
  let rem := t mod NS_DAY in
  let '(y, m, d) := civil_from_days days in
  let secs := rem / NS_SEC in
  let ns := rem mod NS_SEC in
  let mins := secs / 60 in
  let ss := secs mod 60 in
  let hh := mins / 60 in
  let mm := mins mod 60 in
  dec 4 y ++ dec 2 m ++ dec 2 d ++ [45%N] ++ dec 2 hh ++ dec 2 mm ++ dec 2 ss ++ [45%N] ++ dec 9 ns.

(* ---------- Parse ---------- *)

(* Go: time.atoi as called by parseNanoseconds on the bytes after the '.': an optional sign, then digits.
   (signed?, negative?, number of digits expected, the digits) *)
Definition frac_split (s8 : bytes) : bool * bool * nat * bytes :=
  match s8 with
  | c :: r => if ((c =? 43) || (c =? 45))%N then (true, (c =? 45)%N, 8%nat, r) else (false, false, 9%nat, s8)
  | [] => (false, false, 9%nat, s8)
  end.

(* Go: time.Parse("20060102-150405.000000000", s) for a 25-byte [s] whose byte 15 ParseName has just
   overwritten with '.', element by element in the order of time.parse:
     2006  four digits                      01  two digits, 1..12        02  two digits (range checked last)
     '-'   literal                          15  getnum(not fixed) followed by a fixed minute = two digits, < 24
     04    two digits, < 60                 05  two digits, < 60 (no leap second)
     .000000000  parseNanoseconds: atoi of the nine bytes, which ACCEPTS A LEADING SIGN:
                 "+dddddddd" is that number, "-dddddddd" is a range error unless all digits are 0
   finally day in 1..daysIn(month, year). Result: the instant, or None for any error.
   Second component: which path (for coverage). *)
Definition time_parse_br (s : bytes) : option Z * N :=
  match take_dec 4 s with None => (None, 3%N) | Some (y, s1) =>
  match take_dec 2 s1 with None => (None, 4%N) | Some (mo, s2) =>
  if (mo <? 1) || (12 <? mo) then (None, 5%N) else
  match take_dec 2 s2 with None => (None, 6%N) | Some (d, s3) =>
  match s3 with [] => (None, 7%N) | c8 :: s4 =>
  if negb (c8 =? 45)%N then (None, 7%N) else
  match take_dec 2 s4 with None => (None, 8%N) | Some (hh, s5) =>
  if 24 <=? hh then (None, 9%N) else
  match take_dec 2 s5 with None => (None, 10%N) | Some (mi, s6) =>
  if 60 <=? mi then (None, 11%N) else
  match take_dec 2 s6 with None => (None, 12%N) | Some (ss, s7) =>
  if 60 <=? ss then (None, 13%N) else
  match s7 with [] => (None, 14%N) | _ :: s8 =>      (* the '.' written by ParseName *)
  let '(signed, neg, k, digs) := frac_split s8 in
  match take_dec k digs with None => (None, if signed then 15%N else 14%N) | Some (ns, rest) =>
  match rest with _ :: _ => (None, 14%N) | [] =>
  if neg && (0 <? ns) then (None, 16%N) else
  if (d <? 1) || (days_in mo y <? d) then (None, 17%N) else
  (Some ((days_from_civil y mo d * 86400 + hh * 3600 + mi * 60 + ss) * NS_SEC + ns),
   if signed then 19%N else 18%N)
  end end end end end end end end end end.

Definition time_parse (s : bytes) : option Z := fst (time_parse_br s).

(* ---------- the finite check behind C15_chronological / C15_roundtrip ---------- *)

Definition ymdnum (c : Z * Z * Z) : Z := let '(y, m, d) := c in y * 10000 + m * 100 + d.

(* everything the theorems need to know about one day number [z]: the civil date is a real date of
   1970..2262, days_from_civil inverts it, and the next day's YYYYMMDD number is larger *)
Definition day_ok (z : Z) : bool :=
  let '(y, m, d) := civil_from_days z in
  (1970 <=? y) && (y <=? 2262) && (1 <=? m) && (m <=? 12) && (1 <=? d) && (d <=? days_in m y)
  && (days_from_civil y m d =? z)
  && (ymdnum (y, m, d) <? ymdnum (civil_from_days (z + 1))).

(* day_ok on the 2^k days from [start]: structural recursion on the exponent *)
Fixpoint sweep (k : nat) (start : Z) : bool :=
  match k with
  | O => day_ok start
  | S k' => sweep k' start && sweep k' (start + 2 ^ Z.of_nat k')
  end.

(* the 106,752 day numbers an instant 0 <= t < 2^63 ns can fall on (0 .. 106751); Names/CivilSweep.v
   evaluates [sweep] on the four blocks 65536 + 32768 + 8192 + 256 that cover them *)
Definition NDAYS : Z := 106752.
