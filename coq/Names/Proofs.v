(* Names/Proofs.v — proofs about Names/Model.v (property C15). *)
From LS Require Import Base.Bytes Base.BytesProofs Base.Res Names.Civil Names.CivilProofs Names.Model.
From Coq Require Import Sorted ZifyN ZifyNat ZifyBool.
Open Scope N_scope.

(* ================= alphabets ================= *)

Definition nous (s : bytes) : bool := forallb (fun c => negb (c =? US)) s.   (* no '_' at all *)

Lemma is_safe_chars c : is_safe c = true -> c <> US /\ c <> DOT.
Proof. unfold is_safe, US, DOT, DASH. lia. Qed.

Lemma safe_nous s : safe s = true -> nous s = true.
Proof.
  unfold safe, nous. rewrite !forallb_forall. intros H c Hc.
  destruct (is_safe_chars c (H c Hc)) as [H1 _]. unfold US in *. lia.
Qed.

Lemma safe_no_dot s : safe s = true -> no_dot s = true.
Proof.
  unfold safe, no_dot. rewrite !forallb_forall. intros H c Hc.
  destruct (is_safe_chars c (H c Hc)) as [_ H1]. unfold DOT in *. lia.
Qed.

Lemma nous_no_sep s : nous s = true -> no_sep s = true.
Proof.
  induction s as [|c s IH]; [reflexivity|]. intros H. cbn [nous forallb] in H.
  apply andb_true_iff in H. destruct H as [Hc Hs]. cbn [no_sep].
  destruct s as [|d s']; [reflexivity|]. rewrite (IH Hs). rewrite andb_true_r.
  destruct (c =? US); [discriminate|reflexivity].
Qed.

Lemma nous_not_end_us s : nous s = true -> not_end_us s = true.
Proof.
  unfold not_end_us. induction s as [|c s IH]; [reflexivity|]. intros H. cbn [nous forallb] in H.
  apply andb_true_iff in H. destruct H as [Hc Hs].
  destruct s as [|d s']; [exact Hc|]. exact (IH Hs).
Qed.

Lemma extra_safe_safe e : extra_safe e = true -> safe e = true.
Proof.
  destruct e as [|c r]; [discriminate|]. cbn [extra_safe]. intros H.
  apply andb_true_iff in H. destruct H as [Hc Hr]. unfold safe in *. cbn [forallb]. rewrite Hr, andb_true_r.
  unfold is_safe. lia.
Qed.

Lemma all_safe_comps l : forallb safe l = true -> comps_ok l = true.
Proof.
  induction l as [|x l IH]; [reflexivity|]. cbn [forallb]. intros H.
  apply andb_true_iff in H. destruct H as [Hx Hl]. cbn [comps_ok].
  rewrite (safe_no_dot x Hx), (nous_no_sep x (safe_nous x Hx)), (IH Hl).
  rewrite (nous_not_end_us x (safe_nous x Hx)). destruct l; reflexivity.
Qed.

Lemma digits_dash_safe s :
  forallb (fun c => is_digit c || (c =? 45)) s = true -> safe s = true.
Proof.
  unfold safe. rewrite !forallb_forall. intros H c Hc. specialize (H c Hc).
  unfold is_digit, is_safe, DASH in *. lia.
Qed.

Lemma format_ts_safe t : (0 <= t < two63z)%Z -> safe (format_ts t) = true.
Proof. intros H. apply digits_dash_safe, format_ts_chars, H. Qed.

(* ================= strings.Cut ================= *)

Lemma cut_app a b : no_dot a = true -> cut DOT (a ++ DOT :: b) = Some (a, b).
Proof.
  induction a as [|c a IH]; intros H.
  - cbn [app cut]. rewrite N.eqb_refl. reflexivity.
  - cbn [no_dot forallb] in H. apply andb_true_iff in H. destruct H as [Hc Ha].
    cbn [app cut]. destruct (c =? DOT); [discriminate|]. rewrite (IH Ha). reflexivity.
Qed.

Lemma cut_inv s : forall a b, cut DOT s = Some (a, b) -> s = a ++ DOT :: b /\ no_dot a = true.
Proof.
  induction s as [|c s IH]; intros a b H; [discriminate|].
  cbn [cut] in H. destruct (c =? DOT) eqn:Hc.
  - inversion H; subst. apply N.eqb_eq in Hc. subst c. split; reflexivity.
  - destruct (cut DOT s) as [[a' b']|]; [|discriminate]. inversion H; subst.
    destruct (IH a' b eq_refl) as [E Hn]. subst s. split; [reflexivity|].
    cbn [no_dot forallb]. rewrite Hc. exact Hn.
Qed.

Lemma cut_none s : no_dot s = true -> cut DOT s = None.
Proof.
  induction s as [|c s IH]; [reflexivity|]. cbn [no_dot forallb]. intros H.
  apply andb_true_iff in H. destruct H as [Hc Hs]. cbn [cut].
  destruct (c =? DOT); [discriminate|]. rewrite (IH Hs). reflexivity.
Qed.

Lemma no_dot_app a b : no_dot (a ++ b) = no_dot a && no_dot b.
Proof. apply forallb_app. Qed.

(* ================= strings.Split on "__" ================= *)

Lemma split_us_cons2 c d r :
  split_us (c :: d :: r) = if (c =? US) && (d =? US) then [] :: split_us r else cons_hd c (split_us (d :: r)).
Proof. reflexivity. Qed.

Lemma split_us_nonempty s : split_us s <> [].
Proof.
  induction s as [|c s IH]; [discriminate|]. cbn [split_us].
  destruct s as [|d r]; [discriminate|]. destruct ((c =? US) && (d =? US)); [discriminate|].
  destruct (split_us (d :: r)); [contradiction|discriminate].
Qed.

Lemma split_us_nosep x : no_sep x = true -> split_us x = [x].
Proof.
  induction x as [|c x IH]; [reflexivity|]. intros H. cbn [no_sep] in H. cbn [split_us].
  destruct x as [|d x']; [reflexivity|].
  apply andb_true_iff in H. destruct H as [H1 H2].
  destruct ((c =? US) && (d =? US)); [discriminate|]. rewrite (IH H2). reflexivity.
Qed.

(* a component that contains no "__" and does not end in '_', followed by the separator *)
Lemma split_us_app x rest : no_sep x = true -> not_end_us x = true ->
  split_us (x ++ SEP ++ rest) = x :: split_us rest.
Proof.
  induction x as [|c x IH]; intros Hs He.
  - reflexivity.
  - destruct x as [|d x'].
    + unfold not_end_us in He. cbn [last] in He.
      cbn [app SEP split_us]. change (95 =? US) with true.
      destruct (c =? US); [discriminate|]. cbn [andb cons_hd]. reflexivity.
    + cbn [no_sep] in Hs. apply andb_true_iff in Hs. destruct Hs as [H1 H2].
      assert (He' : not_end_us (d :: x') = true) by exact He.
      change ((c :: d :: x') ++ SEP ++ rest) with (c :: d :: (x' ++ SEP ++ rest)).
      rewrite split_us_cons2. destruct ((c =? US) && (d =? US)); [discriminate|].
      change (d :: x' ++ SEP ++ rest) with ((d :: x') ++ SEP ++ rest).
      rewrite (IH H2 He'). reflexivity.
Qed.

Definition tail_of (gen : bytes) (extras : list bytes) : bytes :=
  gen ++ concat (map (fun e => SEP ++ e) extras).

Lemma split_tail extras : forall gen, comps_ok (gen :: extras) = true ->
  split_us (tail_of gen extras) = gen :: extras.
Proof.
  unfold tail_of. induction extras as [|e ex IH]; intros gen H.
  - cbn [map concat]. rewrite app_nil_r. cbn [comps_ok] in H.
    apply split_us_nosep. destruct (no_sep gen); [reflexivity|]. rewrite andb_false_r in H. discriminate.
  - cbn [comps_ok] in H. fold comps_ok in H.
    apply andb_true_iff in H. destruct H as [H Hr].
    apply andb_true_iff in H. destruct H as [H He].
    apply andb_true_iff in H. destruct H as [_ Hs].
    cbn [map concat]. rewrite <- app_assoc.
    rewrite (split_us_app gen _ Hs He). rewrite (IH e Hr). reflexivity.
Qed.

Lemma comps_no_dot l : comps_ok l = true -> forallb no_dot l = true.
Proof.
  induction l as [|x l IH]; [reflexivity|]. cbn [comps_ok]. fold comps_ok. intros H.
  apply andb_true_iff in H. destruct H as [H Hr].
  apply andb_true_iff in H. destruct H as [H _].
  apply andb_true_iff in H. destruct H as [Hd _].
  cbn [forallb]. rewrite Hd, (IH Hr). reflexivity.
Qed.

Lemma no_dot_tail extras : forall gen, forallb no_dot (gen :: extras) = true -> no_dot (tail_of gen extras) = true.
Proof.
  unfold tail_of. induction extras as [|e ex IH]; intros gen H.
  - cbn [map concat]. rewrite app_nil_r. cbn [forallb] in H. rewrite andb_true_r in H. exact H.
  - cbn [forallb] in H. apply andb_true_iff in H. destruct H as [Hg Hr].
    cbn [map concat]. rewrite !no_dot_app, Hg. cbn [andb].
    change (no_dot SEP) with true. cbn [andb].
    rewrite <- no_dot_app. apply IH. exact Hr.
Qed.

(* ================= round trip: ParseName (BuildName x) ================= *)

Definition eff_tss (x : name_info) : bytes :=
  match ni_tss x with [] => name_timestamp (ni_ts x) | _ :: _ => ni_tss x end.

Lemma build_base_form x :
  build_base x = ni_syncer x ++ SEP ++ ni_inst x ++ SEP ++ eff_tss x ++ SEP ++ tail_of (ni_gen x) (ni_extra x).
Proof. unfold build_base, eff_tss, tail_of. rewrite <- ?app_assoc. reflexivity. Qed.

Lemma parse_name_intro n base p0 p1 p2 p3 ex t :
  cut DOT n = Some (base, ext_pbgz) -> split_us base = p0 :: p1 :: p2 :: p3 :: ex ->
  length p2 = 25%nat -> nth 15 p2 0 = DASH -> time_parse p2 = Some t ->
  parse_name n = Ok (mkNI n base ext_pbgz kind_snapshot p0 p1 p3 p2 t ex).
Proof.
  intros Hc Hs Hl Hd Ht. unfold parse_name, parse_name_br. rewrite Hc.
  change (ext_kind ext_pbgz) with (Some kind_snapshot). cbv iota beta. rewrite Hs, Hl, Hd.
  change (negb (Nat.eqb 25 25)) with false. rewrite N.eqb_refl. cbn [negb].
  unfold time_parse in Ht. destruct (time_parse_br p2) as [o b]. cbn [fst] in Ht. subst o. reflexivity.
Qed.

(* the exact condition under which a built name parses back *)
Lemma roundtrip_general x :
  ni_ext x = ext_pbgz ->
  comps_ok ([ni_syncer x; ni_inst x; eff_tss x; ni_gen x] ++ ni_extra x) = true ->
  length (eff_tss x) = 25%nat -> nth 15 (eff_tss x) 0 = DASH -> time_parse (eff_tss x) = Some (ni_ts x) ->
  parse_name (build_name x) = Ok (complete x).
Proof.
  intros Hext Hc Hl Hd Ht.
  pose proof (comps_no_dot _ Hc) as Hnd.
  cbn [app comps_ok] in Hc. fold comps_ok in Hc.
  apply andb_true_iff in Hc. destruct Hc as [H0 Hc].
  apply andb_true_iff in H0. destruct H0 as [H0 He0]. apply andb_true_iff in H0. destruct H0 as [_ Hs0].
  apply andb_true_iff in Hc. destruct Hc as [H1 Hc].
  apply andb_true_iff in H1. destruct H1 as [H1 He1]. apply andb_true_iff in H1. destruct H1 as [_ Hs1].
  apply andb_true_iff in Hc. destruct Hc as [H2 Hc].
  apply andb_true_iff in H2. destruct H2 as [H2 He2]. apply andb_true_iff in H2. destruct H2 as [_ Hs2].
  cbn [app forallb] in Hnd.
  apply andb_true_iff in Hnd. destruct Hnd as [Hd0 Hnd].
  apply andb_true_iff in Hnd. destruct Hnd as [Hd1 Hnd].
  apply andb_true_iff in Hnd. destruct Hnd as [Hd2 Hnd].
  assert (Hsplit : split_us (build_base x) = ni_syncer x :: ni_inst x :: eff_tss x :: ni_gen x :: ni_extra x).
  { rewrite build_base_form. rewrite (split_us_app _ _ Hs0 He0), (split_us_app _ _ Hs1 He1), (split_us_app _ _ Hs2 He2).
    rewrite (split_tail _ _ Hc). reflexivity. }
  assert (Hnodot : no_dot (build_base x) = true).
  { rewrite build_base_form. rewrite !no_dot_app. rewrite Hd0, Hd1, Hd2. change (no_dot SEP) with true.
    cbn [andb]. apply no_dot_tail. exact Hnd. }
  assert (Hcut : cut DOT (build_name x) = Some (build_base x, ext_pbgz)).
  { unfold build_name. rewrite Hext. cbn [app]. apply cut_app, Hnodot. }
  rewrite (parse_name_intro _ _ _ _ _ _ _ _ Hcut Hsplit Hl Hd Ht).
  unfold complete. rewrite Hext. reflexivity.
Qed.

(* BuildName from a Timestamp (no TimestampString), any in-range instant *)
Lemma roundtrip_ts x :
  ni_ext x = ext_pbgz -> ni_tss x = [] -> (0 <= ni_ts x < two63z)%Z ->
  comps_ok ([ni_syncer x; ni_inst x; ni_gen x] ++ ni_extra x) = true ->
  parse_name (build_name x) = Ok (complete x).
Proof.
  intros Hext Htss Ht Hc.
  assert (E : eff_tss x = format_ts (ni_ts x)) by (unfold eff_tss; rewrite Htss; reflexivity).
  apply roundtrip_general; try exact Hext; rewrite ?E.
  - pose proof (format_ts_safe _ Ht) as Hs.
    cbn [app comps_ok] in *. fold comps_ok in *.
    apply andb_true_iff in Hc. destruct Hc as [H0 Hc].
    apply andb_true_iff in Hc. destruct Hc as [H1 Hc].
    rewrite H0, H1, Hc.
    rewrite (safe_no_dot _ Hs), (nous_no_sep _ (safe_nous _ Hs)), (nous_not_end_us _ (safe_nous _ Hs)).
    reflexivity.
  - apply format_ts_length.
  - apply format_ts_dash.
  - apply time_parse_format, Ht.
Qed.

(* ... in particular for the documented safe alphabet *)
Lemma roundtrip_safe db inst gen extras t :
  safe db = true -> safe inst = true -> safe gen = true -> forallb extra_safe extras = true ->
  (0 <= t < two63z)%Z ->
  parse_name (name_of db inst gen t extras)
  = Ok (mkNI (name_of db inst gen t extras) (build_base (basic_info db inst gen t extras))
             ext_pbgz kind_snapshot db inst gen (format_ts t) t extras).
Proof.
  intros Hdb Hi Hg He Ht. unfold name_of.
  rewrite roundtrip_ts; [reflexivity|reflexivity|reflexivity|exact Ht|].
  apply all_safe_comps. cbn [basic_info ni_syncer ni_inst ni_gen ni_extra app forallb].
  rewrite Hdb, Hi, Hg. cbn [andb].
  rewrite forallb_forall in *. intros e Hin. apply extra_safe_safe, He, Hin.
Qed.

(* BuildName with the TimestampString already filled in (the value ParseName returns) *)
Lemma roundtrip_complete x :
  ni_ext x = ext_pbgz -> ni_tss x = [] -> (0 <= ni_ts x < two63z)%Z ->
  comps_ok ([ni_syncer x; ni_inst x; ni_gen x] ++ ni_extra x) = true ->
  parse_name (build_name (complete x)) = Ok (complete x).
Proof.
  intros Hext Htss Ht Hc.
  assert (E : build_name (complete x) = build_name x).
  { unfold build_name, build_base, complete. cbn [ni_syncer ni_inst ni_tss ni_ts ni_gen ni_extra ni_ext].
    rewrite Htss. unfold name_timestamp.
    pose proof (format_ts_length (ni_ts x)) as Hl. destruct (format_ts (ni_ts x)); [discriminate|reflexivity]. }
  rewrite E. apply roundtrip_ts; assumption.
Qed.

(* ================= what ParseName accepts ================= *)

Lemma parse_name_inv n x : parse_name n = Ok x ->
  exists base p0 p1 p2 p3 ex t,
    cut DOT n = Some (base, ext_pbgz) /\ split_us base = p0 :: p1 :: p2 :: p3 :: ex /\
    length p2 = 25%nat /\ nth 15 p2 0 = DASH /\ time_parse p2 = Some t /\
    x = mkNI n base ext_pbgz kind_snapshot p0 p1 p3 p2 t ex.
Proof.
  unfold parse_name, parse_name_br.
  destruct (cut DOT n) as [[base ext]|] eqn:Hc; [|discriminate].
  unfold ext_kind. destruct (beqb ext ext_pbgz) eqn:Hext; [|discriminate].
  apply beqb_eq in Hext. subst ext.
  destruct (split_us base) as [|p0 [|p1 [|p2 [|p3 ex]]]] eqn:Hs; try discriminate.
  destruct (Nat.eqb (length p2) 25) eqn:Hl; [|discriminate]. cbn [negb].
  destruct (nth 15 p2 0 =? DASH) eqn:Hd; [|discriminate]. cbn [negb].
  destruct (time_parse_br p2) as [[t|] b] eqn:Ht; [|discriminate].
  cbn [fst]. intros H. inversion H; subst.
  exists base, p0, p1, p2, p3, ex, t.
  apply Nat.eqb_eq in Hl. apply N.eqb_eq in Hd.
  assert (Ht' : time_parse p2 = Some t) by (unfold time_parse; rewrite Ht; reflexivity).
  repeat split; assumption.
Qed.

(* ParseName never panics or loops: accepted, or an error *)
Lemma parse_name_total n : (exists x, parse_name n = Ok x) \/ parse_name n = Err EOther.
Proof.
  unfold parse_name, parse_name_br.
  destruct (cut DOT n) as [[base ext]|]; [|right; reflexivity].
  destruct (ext_kind ext); [|right; reflexivity].
  destruct (split_us base) as [|p0 [|p1 [|p2 [|p3 ex]]]]; try (right; reflexivity).
  destruct (negb (Nat.eqb (length p2) 25)); [right; reflexivity|].
  destruct (negb (nth 15 p2 0 =? DASH)); [right; reflexivity|].
  destruct (time_parse_br p2) as [[t|] br]; [left; eexists; reflexivity|right; reflexivity].
Qed.

Lemma rejects_no_dot n : no_dot n = true -> parse_name n = Err EOther.
Proof. intros H. unfold parse_name, parse_name_br. rewrite (cut_none n H). reflexivity. Qed.

Lemma rejects_extension n base ext : cut DOT n = Some (base, ext) -> ext <> ext_pbgz -> parse_name n = Err EOther.
Proof.
  intros Hc He. unfold parse_name, parse_name_br. rewrite Hc. unfold ext_kind.
  apply beqb_false in He. rewrite He. reflexivity.
Qed.

Lemma rejects_few_parts n base ext : cut DOT n = Some (base, ext) -> (length (split_us base) < 4)%nat ->
  parse_name n = Err EOther.
Proof.
  intros Hc Hl. unfold parse_name, parse_name_br. rewrite Hc.
  destruct (ext_kind ext); [|reflexivity].
  destruct (split_us base) as [|p0 [|p1 [|p2 [|p3 ex]]]]; try reflexivity. cbn [length] in Hl. lia.
Qed.

Lemma rejects_timestamp n base ext p0 p1 p2 p3 ex :
  cut DOT n = Some (base, ext) -> split_us base = p0 :: p1 :: p2 :: p3 :: ex ->
  length p2 <> 25%nat \/ nth 15 p2 0 <> DASH \/ time_parse p2 = None ->
  parse_name n = Err EOther.
Proof.
  intros Hc Hs H. unfold parse_name, parse_name_br. rewrite Hc.
  destruct (ext_kind ext); [|reflexivity]. rewrite Hs.
  destruct (Nat.eqb (length p2) 25) eqn:Hl; [|reflexivity]. cbn [negb].
  destruct (nth 15 p2 0 =? DASH) eqn:Hd; [|reflexivity]. cbn [negb].
  apply Nat.eqb_eq in Hl. apply N.eqb_eq in Hd.
  destruct H as [H|[H|H]]; try contradiction.
  unfold time_parse in H. destruct (time_parse_br p2) as [o br]. cbn [fst] in H. subst o. reflexivity.
Qed.

(* what time.Parse accepts has a date/time part that is a real calendar date and clock time in
   fixed-width digits; the fraction is nine digits, or a sign and eight digits *)
Lemma time_parse_shape s t : time_parse s = Some t ->
  exists y mo d hh mi ss c15 fr,
    s = dec 4 y ++ dec 2 mo ++ dec 2 d ++ [45] ++ dec 2 hh ++ dec 2 mi ++ dec 2 ss ++ [c15] ++ fr /\
    (0 <= y < 10000 /\ 1 <= mo <= 12 /\ 1 <= d <= days_in mo y /\ 0 <= hh < 24 /\ 0 <= mi < 60 /\ 0 <= ss < 60)%Z /\
    ((exists ns, fr = dec 9 ns /\ (0 <= ns < 1000000000)%Z /\
                 t = ((days_from_civil y mo d * 86400 + hh * 3600 + mi * 60 + ss) * NS_SEC + ns)%Z)
     \/ (exists sg ns, fr = sg :: dec 8 ns /\ (sg = 43 \/ sg = 45 /\ ns = 0%Z) /\ (0 <= ns < 100000000)%Z /\
                 t = ((days_from_civil y mo d * 86400 + hh * 3600 + mi * 60 + ss) * NS_SEC + ns)%Z)).
Proof.
  unfold time_parse, time_parse_br.
  destruct (take_dec 4 s) as [[y s1]|] eqn:T1; [|discriminate].
  destruct (take_dec 2 s1) as [[mo s2]|] eqn:T2; [|discriminate].
  destruct ((mo <? 1)%Z || (12 <? mo)%Z) eqn:Rm; [discriminate|].
  destruct (take_dec 2 s2) as [[d s3]|] eqn:T3; [|discriminate].
  destruct s3 as [|c8 s4]; [discriminate|].
  destruct (c8 =? 45) eqn:C8; [|discriminate]. cbn [negb].
  destruct (take_dec 2 s4) as [[hh s5]|] eqn:T4; [|discriminate].
  destruct (24 <=? hh)%Z eqn:Rh; [discriminate|].
  destruct (take_dec 2 s5) as [[mi s6]|] eqn:T5; [|discriminate].
  destruct (60 <=? mi)%Z eqn:Rmi; [discriminate|].
  destruct (take_dec 2 s6) as [[ss s7]|] eqn:T6; [|discriminate].
  destruct (60 <=? ss)%Z eqn:Rs; [discriminate|].
  destruct s7 as [|c15 s8]; [discriminate|].
  destruct (frac_split s8) as [[[signed neg] k] digs] eqn:F.
  destruct (take_dec k digs) as [[ns rest]|] eqn:T7; [|destruct signed; discriminate].
  destruct rest as [|? ?]; [|discriminate].
  destruct (neg && (0 <? ns)%Z) eqn:Rn; [discriminate|].
  destruct ((d <? 1)%Z || (days_in mo y <? d)%Z) eqn:Rd; [discriminate|].
  cbn [fst]. intros H. inversion H; subst t; clear H.
  apply take_dec_inv in T1, T2, T3, T4, T5, T6, T7.
  destruct T1 as [E1 B1], T2 as [E2 B2], T3 as [E3 B3], T4 as [E4 B4], T5 as [E5 B5], T6 as [E6 B6], T7 as [E7 B7].
  apply N.eqb_eq in C8. subst c8.
  exists y, mo, d, hh, mi, ss, c15, s8.
  split; [subst; reflexivity|].
  pow10. split; [lia|].
  rewrite app_nil_r in E7.
  unfold frac_split in F. destruct s8 as [|c r].
  - injection F as <- <- <- <-. left. exists ns. pow10. repeat split; try lia. exact E7.
  - destruct ((c =? 43) || (c =? 45)) eqn:Sg; injection F as <- <- <- <-.
    + right. exists c, ns. pow10. rewrite E7.
      repeat split; try lia.
    + left. exists ns. pow10. repeat split; try lia. exact E7.
Qed.

(* ================= BuildName (ParseName n) = n ================= *)

Definition join_us (l : list bytes) : bytes :=
  match l with
  | [] => []
  | h :: t => h ++ concat (map (fun e => SEP ++ e) t)
  end.

Lemma join_cons_hd c l : l <> [] -> join_us (cons_hd c l) = c :: join_us l.
Proof. destruct l as [|h t]; [contradiction|reflexivity]. Qed.

Lemma join_split_len (k : nat) : forall s, (length s <= k)%nat -> join_us (split_us s) = s.
Proof.
  induction k as [|k IH]; intros s Hl.
  - destruct s; [reflexivity|cbn [length] in Hl; lia].
  - destruct s as [|c r]; [reflexivity|]. cbn [length] in Hl.
    cbn [split_us]. destruct r as [|d r']; [reflexivity|].
    destruct ((c =? US) && (d =? US)) eqn:E.
    + apply andb_true_iff in E. destruct E as [Ec Ed]. apply N.eqb_eq in Ec, Ed. subst c d.
      cbn [join_us app]. pose proof (split_us_nonempty r') as Hne.
      destruct (split_us r') as [|h t] eqn:Es; [contradiction|].
      cbn [map concat]. rewrite <- app_assoc.
      change (h ++ concat (map (fun e => SEP ++ e) t)) with (join_us (h :: t)).
      rewrite <- Es. rewrite IH by (cbn [length] in Hl; lia). reflexivity.
    + rewrite join_cons_hd by apply split_us_nonempty. rewrite IH by lia. reflexivity.
Qed.

Lemma join_split s : join_us (split_us s) = s.
Proof. apply (join_split_len (length s)). lia. Qed.

(* every accepted name is exactly what BuildName makes of the parsed fields: parsing is injective *)
Lemma parse_build n x : parse_name n = Ok x -> build_name x = n.
Proof.
  intros H. destruct (parse_name_inv n x H) as (base & p0 & p1 & p2 & p3 & ex & t & Hc & Hs & Hl & _ & _ & ->).
  destruct (cut_inv n _ _ Hc) as [En _].
  unfold build_name, build_base. cbn [ni_syncer ni_inst ni_tss ni_gen ni_extra ni_ext ni_ts].
  destruct p2 as [|c p2']; [discriminate|].
  pose proof (join_split base) as J. rewrite Hs in J. cbn [join_us map concat] in J.
  rewrite En. change ([DOT] ++ ext_pbgz) with (DOT :: ext_pbgz). f_equal.
  rewrite <- J. rewrite <- ?app_assoc. reflexivity.
Qed.

Lemma parse_injective n1 n2 x : parse_name n1 = Ok x -> parse_name n2 = Ok x -> n1 = n2.
Proof. intros H1 H2. rewrite <- (parse_build n1 x H1). apply parse_build, H2. Qed.

(* ================= prefixes and other databases ================= *)

Lemma has_prefix_app p r : has_prefix p (p ++ r) = true.
Proof. induction p as [|c p IH]; [reflexivity|]. cbn [app has_prefix]. rewrite N.eqb_refl. exact IH. Qed.

Lemma has_prefix_inv p : forall s, has_prefix p s = true -> exists r, s = p ++ r.
Proof.
  induction p as [|c p IH]; intros s H; [exists s; reflexivity|].
  destruct s as [|y s]; [discriminate|]. cbn [has_prefix] in H.
  apply andb_true_iff in H. destruct H as [Hc Hp]. apply N.eqb_eq in Hc. subst y.
  destruct (IH s Hp) as [r ->]. exists r. reflexivity.
Qed.

(* two database names without '_': the prefix of one never fits a name that starts with the other *)
Lemma other_db_prefix d : forall d' rest, nous d = true -> nous d' = true -> d <> d' ->
  has_prefix (d ++ SEP) (d' ++ SEP ++ rest) = false.
Proof.
  induction d as [|c d IH]; intros d' rest Hd Hd' Hne.
  - destruct d' as [|c' d']; [contradiction|].
    cbn [nous forallb] in Hd'. apply andb_true_iff in Hd'. destruct Hd' as [Hc' _].
    cbn [app SEP has_prefix]. change US with 95 in Hc'. rewrite N.eqb_sym.
    destruct (c' =? 95); [discriminate|reflexivity].
  - cbn [nous forallb] in Hd. apply andb_true_iff in Hd. destruct Hd as [Hc Hd].
    destruct d' as [|c' d'].
    + cbn [app SEP has_prefix]. change US with 95 in Hc. destruct (c =? 95); [discriminate|reflexivity].
    + cbn [nous forallb] in Hd'. apply andb_true_iff in Hd'. destruct Hd' as [Hc' Hd'].
      cbn [app has_prefix]. destruct (c =? c') eqn:E; [|reflexivity]. cbn [andb].
      apply N.eqb_eq in E. subst c'. apply IH; try assumption. congruence.
Qed.

Lemma build_name_form x :
  build_name x = ni_syncer x ++ SEP ++ (ni_inst x ++ SEP ++ eff_tss x ++ SEP ++ tail_of (ni_gen x) (ni_extra x) ++ [DOT] ++ ni_ext x).
Proof. unfold build_name. rewrite build_base_form. rewrite <- !app_assoc. reflexivity. Qed.

Lemma other_db d x : safe d = true -> safe (ni_syncer x) = true -> d <> ni_syncer x ->
  has_prefix (db_prefix d) (build_name x) = false.
Proof.
  intros Hd Hx Hne. unfold db_prefix. rewrite build_name_form.
  apply other_db_prefix; [apply safe_nous, Hd|apply safe_nous, Hx|exact Hne].
Qed.

Lemma prefix_before_dot p : forall r a b, no_dot p = true -> p ++ r = a ++ DOT :: b -> no_dot a = true ->
  exists a', a = p ++ a'.
Proof.
  induction p as [|c p IH]; intros r a b Hp E Ha; [exists a; reflexivity|].
  cbn [no_dot forallb] in Hp. apply andb_true_iff in Hp. destruct Hp as [Hc Hp].
  destruct a as [|c' a].
  - cbn [app] in E. inversion E; subst. rewrite N.eqb_refl in Hc. discriminate.
  - cbn [app] in E. inversion E; subst.
    cbn [no_dot forallb] in Ha. apply andb_true_iff in Ha. destruct Ha as [_ Ha].
    destruct (IH r a b Hp H1 Ha) as [a' ->]. exists a'. reflexivity.
Qed.

(* the listing prefix decides the parsed database name — when the database name has no '_' and no '.' *)
Lemma prefix_syncer d n x : nous d = true -> no_dot d = true ->
  has_prefix (db_prefix d) n = true -> parse_name n = Ok x -> ni_syncer x = d.
Proof.
  intros Hu Hd Hp Hx.
  destruct (parse_name_inv n x Hx) as (base & p0 & p1 & p2 & p3 & ex & t & Hc & Hs & _ & _ & _ & ->).
  cbn [ni_syncer].
  destruct (cut_inv n _ _ Hc) as [En Hnb].
  destruct (has_prefix_inv _ _ Hp) as [r Er]. unfold db_prefix in Er.
  assert (Hpd : no_dot (d ++ SEP) = true) by (rewrite no_dot_app, Hd; reflexivity).
  rewrite En in Er. symmetry in Er.
  destruct (prefix_before_dot _ _ _ _ Hpd Er Hnb) as [a' Ea].
  rewrite Ea, <- app_assoc in Hs.
  rewrite (split_us_app d a' (nous_no_sep d Hu) (nous_not_end_us d Hu)) in Hs.
  inversion Hs. reflexivity.
Qed.

(* ================= chronological order ================= *)

Lemma bcmp_app_same p a b : bcmp (p ++ a) (p ++ b) = bcmp a b.
Proof. induction p as [|c p IH]; [reflexivity|]. cbn [app]. rewrite bcmp_cons_same. exact IH. Qed.

Lemma name_of_form db inst gen t extras :
  name_of db inst gen t extras
  = db ++ SEP ++ inst ++ SEP ++ format_ts t ++ (SEP ++ tail_of gen extras ++ [DOT] ++ ext_pbgz).
Proof. unfold name_of. rewrite build_name_form. reflexivity. Qed.

(* names of one database and instance: the timestamps decide, whatever generation/extras follow *)
Lemma chrono_cmp db inst g1 e1 g2 e2 t1 t2 :
  (0 <= t1 < two63z)%Z -> (0 <= t2 < two63z)%Z ->
  bcmp (name_of db inst g1 t1 e1) (name_of db inst g2 t2 e2)
  = lexc (t1 ?= t2)%Z (bcmp (tail_of g1 e1 ++ [DOT] ++ ext_pbgz) (tail_of g2 e2 ++ [DOT] ++ ext_pbgz)).
Proof.
  intros H1 H2. rewrite !name_of_form.
  rewrite (bcmp_app_same db), (bcmp_app_same SEP), (bcmp_app_same inst), (bcmp_app_same SEP).
  rewrite format_ts_cmp by assumption. rewrite (bcmp_app_same SEP). reflexivity.
Qed.

Lemma chrono_same_tail db inst gen extras t1 t2 :
  (0 <= t1 < two63z)%Z -> (0 <= t2 < two63z)%Z ->
  bcmp (name_of db inst gen t1 extras) (name_of db inst gen t2 extras) = (t1 ?= t2)%Z.
Proof. intros H1 H2. rewrite chrono_cmp by assumption. rewrite bcmp_refl. apply lexc_eq_r. Qed.

Lemma chronological db inst gen extras t1 t2 :
  (0 <= t1 < two63z)%Z -> (0 <= t2 < two63z)%Z ->
  ((t1 < t2)%Z <-> bcmp (name_of db inst gen t1 extras) (name_of db inst gen t2 extras) = Lt).
Proof. intros H1 H2. rewrite chrono_same_tail by assumption. symmetry. apply Z.compare_lt_iff. Qed.

Lemma chrono_any_tail db inst g1 e1 g2 e2 t1 t2 :
  (0 <= t1 < two63z)%Z -> (0 <= t2 < two63z)%Z -> (t1 < t2)%Z ->
  bcmp (name_of db inst g1 t1 e1) (name_of db inst g2 t2 e2) = Lt.
Proof.
  intros H1 H2 L. rewrite chrono_cmp by assumption.
  apply Z.compare_lt_iff in L. rewrite L. reflexivity.
Qed.

(* ================= the newest snapshot is the last one of a sorted listing ================= *)

(* a parsed name written by BuildName from an in-range instant *)
Definition canonical (x : name_info) : Prop :=
  ni_tss x = format_ts (ni_ts x) /\ (0 <= ni_ts x < two63z)%Z.

Definition ble (a b : bytes) : Prop := bcmp a b <> Gt.

Lemma canonical_cmp x y : canonical x -> canonical y ->
  ni_syncer x = ni_syncer y -> ni_inst x = ni_inst y ->
  (ni_ts y < ni_ts x)%Z -> bcmp (build_name x) (build_name y) = Gt.
Proof.
  intros [Ex Rx] [Ey Ry] Hs Hi L.
  assert (Tx : eff_tss x = format_ts (ni_ts x)).
  { unfold eff_tss. rewrite Ex. pose proof (format_ts_length (ni_ts x)). destruct (format_ts (ni_ts x)); [discriminate|reflexivity]. }
  assert (Ty : eff_tss y = format_ts (ni_ts y)).
  { unfold eff_tss. rewrite Ey. pose proof (format_ts_length (ni_ts y)). destruct (format_ts (ni_ts y)); [discriminate|reflexivity]. }
  rewrite !build_name_form, Tx, Ty, Hs, Hi.
  rewrite (bcmp_app_same (ni_syncer y)), (bcmp_app_same SEP), (bcmp_app_same (ni_inst y)), (bcmp_app_same SEP).
  rewrite format_ts_cmp by assumption.
  apply Z.compare_gt_iff in L. rewrite L. reflexivity.
Qed.

Lemma last_seen_snoc l a i :
  last_seen (l ++ [a]) i =
  match parse_name a with
  | Ok ni => if beqb (ni_inst ni) i then Some ni else last_seen l i
  | _ => last_seen l i
  end.
Proof. unfold last_seen. rewrite fold_left_app. reflexivity. Qed.

Lemma last_seen_spec names i x : last_seen names i = Some x ->
  exists l1 n l2, names = l1 ++ n :: l2 /\ parse_name n = Ok x /\ ni_inst x = i /\
    forall m y, In m l2 -> parse_name m = Ok y -> ni_inst y <> i.
Proof.
  induction names as [|a l IH] using rev_ind; [discriminate|].
  rewrite last_seen_snoc. intros H.
  assert (Hold : last_seen l i = Some x -> (forall y, parse_name a = Ok y -> ni_inst y <> i) ->
          exists l1 n l2, l ++ [a] = l1 ++ n :: l2 /\ parse_name n = Ok x /\ ni_inst x = i /\
            forall m y, In m l2 -> parse_name m = Ok y -> ni_inst y <> i).
  { intros Hl Ha. destruct (IH Hl) as (l1 & n & l2 & -> & Hn & Hi & Hrest).
    exists l1, n, (l2 ++ [a]). rewrite <- app_assoc. split; [reflexivity|]. split; [exact Hn|]. split; [exact Hi|].
    intros m y Hm Hy. apply in_app_or in Hm. destruct Hm as [Hm|[<-|[]]]; [eapply Hrest; eassumption|apply Ha, Hy]. }
  destruct (parse_name a) as [y| | |] eqn:Pa; try (apply Hold; [exact H|intros; discriminate]).
  destruct (beqb (ni_inst y) i) eqn:Bi.
  - inversion H; subst y. exists l, a, []. split; [reflexivity|]. split; [exact Pa|]. split; [apply beqb_eq, Bi|].
    intros m y' [].
  - apply Hold; [exact H|]. intros y' Hy'. inversion Hy'; subst y'. apply beqb_false, Bi.
Qed.

Lemma sorted_before {A} (R : A -> A -> Prop) l1 n l2 : StronglySorted R (l1 ++ n :: l2) ->
  forall a, In a l1 -> R a n.
Proof.
  induction l1 as [|c l1 IH]; intros H a Ha; [contradiction|].
  cbn [app] in H. inversion H as [|? ? Hs Hf]; subst.
  destruct Ha as [<-|Ha]; [|apply IH; assumption].
  rewrite Forall_forall in Hf. apply Hf. apply in_or_app. right. left. reflexivity.
Qed.

(* receiver: in a sorted listing under the prefix of a database, the entry kept for an instance carries
   the largest timestamp of all snapshots of that instance in the listing *)
Lemma newest_is_last d names i x :
  nous d = true -> no_dot d = true ->
  StronglySorted ble names ->
  (forall n, In n names -> has_prefix (db_prefix d) n = true) ->
  (forall n y, In n names -> parse_name n = Ok y -> canonical y) ->
  last_seen names i = Some x ->
  In (ni_full x) names /\ ni_inst x = i /\ ni_syncer x = d /\
  forall n y, In n names -> parse_name n = Ok y -> ni_inst y = i -> (ni_ts y <= ni_ts x)%Z.
Proof.
  intros Hu Hd Hsort Hpre Hcan Hlast.
  destruct (last_seen_spec names i x Hlast) as (l1 & nx & l2 & -> & Hnx & Hi & Hrest).
  assert (Hin : In nx (l1 ++ nx :: l2)) by (apply in_or_app; right; left; reflexivity).
  assert (Hfull : ni_full x = nx).
  { destruct (parse_name_inv nx x Hnx) as (? & ? & ? & ? & ? & ? & ? & _ & _ & _ & _ & _ & ->). reflexivity. }
  split; [rewrite Hfull; exact Hin|]. split; [exact Hi|].
  pose proof (prefix_syncer d nx x Hu Hd (Hpre nx Hin) Hnx) as Hsx.
  split; [exact Hsx|].
  intros n y Hn Hy Hiy.
  destruct (Z_le_gt_dec (ni_ts y) (ni_ts x)) as [L|G]; [exact L|exfalso].
  apply in_app_or in Hn. destruct Hn as [Hn|[<-|Hn]].
  - (* an earlier entry with a larger timestamp would sort after nx *)
    pose proof (sorted_before ble l1 nx l2 Hsort n Hn) as Hle.
    pose proof (prefix_syncer d n y Hu Hd (Hpre n (in_or_app _ _ _ (or_introl Hn))) Hy) as Hsy.
    apply Hle. rewrite <- (parse_build n y Hy), <- (parse_build nx x Hnx).
    apply canonical_cmp.
    + apply (Hcan n y (in_or_app _ _ _ (or_introl Hn)) Hy).
    + apply (Hcan nx x Hin Hnx).
    + congruence.
    + congruence.
    + lia.
  - rewrite Hnx in Hy. inversion Hy; subst. lia.
  - apply (Hrest n y Hn Hy Hiy).
Qed.

(* ================= the sanitiser ================= *)

Lemma sanitize_aux_safe s : forall skip, safe (sanitize_aux skip s) = true.
Proof.
  induction s as [|c s IH]; intros skip; [reflexivity|].
  cbn [sanitize_aux]. destruct skip as [|k]; [|apply IH].
  destruct (is_safe c) eqn:Hc; cbn [safe forallb]; [rewrite Hc|change (is_safe DASH) with true]; apply IH.
Qed.

Lemma sanitize_safe s : safe (sanitize s) = true.
Proof. apply sanitize_aux_safe. Qed.

Lemma sanitize_id s : safe s = true -> sanitize s = s.
Proof.
  unfold sanitize. induction s as [|c s IH]; [reflexivity|]. cbn [safe forallb]. intros H.
  apply andb_true_iff in H. destruct H as [Hc Hs]. cbn [sanitize_aux]. rewrite Hc. f_equal. apply IH, Hs.
Qed.

Lemma sanitize_aux_length s : forall skip, (length (sanitize_aux skip s) <= length s)%nat.
Proof.
  induction s as [|c s IH]; intros skip; [apply Nat.le_refl|].
  cbn [sanitize_aux]. destruct skip as [|k].
  - destruct (is_safe c); cbn [length]; apply le_n_S, IH.
  - cbn [length]. apply Nat.le_trans with (length s); [apply IH|apply Nat.le_succ_diag_r].
Qed.

Lemma sanitize_no_separators s : ~ In US (sanitize s) /\ ~ In DOT (sanitize s).
Proof.
  pose proof (sanitize_safe s) as H. unfold safe in H. rewrite forallb_forall in H.
  split; intros Hin; apply H in Hin; destruct (is_safe_chars _ Hin) as [H1 H2]; congruence.
Qed.

Lemma sanitize_idempotent s : sanitize (sanitize s) = sanitize s.
Proof. apply sanitize_id, sanitize_safe. Qed.

(* a sanitised instance id is a valid name component: names built with it round-trip *)
Lemma roundtrip_sanitized db raw host gen extras t :
  safe db = true -> safe gen = true -> forallb extra_safe extras = true -> (0 <= t < two63z)%Z ->
  exists x, parse_name (name_of db (instance_id raw host) gen t extras) = Ok x /\
            ni_inst x = instance_id raw host /\ ni_syncer x = db /\ ni_ts x = t.
Proof.
  intros Hdb Hg He Ht. eexists. split.
  - apply roundtrip_safe; try assumption. unfold instance_id. apply sanitize_safe.
  - repeat split.
Qed.

(* ================= collected statements for Props/C15.v ================= *)

Lemma not_snapshot n :
  (no_dot n = true -> parse_name n = Err EOther) /\
  (forall base ext, cut DOT n = Some (base, ext) -> ext <> ext_pbgz -> parse_name n = Err EOther) /\
  (forall base ext, cut DOT n = Some (base, ext) -> (length (split_us base) < 4)%nat -> parse_name n = Err EOther) /\
  (forall base ext p0 p1 p2 p3 ex, cut DOT n = Some (base, ext) -> split_us base = p0 :: p1 :: p2 :: p3 :: ex ->
      length p2 <> 25%nat \/ nth 15 p2 0 <> DASH \/ time_parse p2 = None -> parse_name n = Err EOther) /\
  ((exists x, parse_name n = Ok x) \/ parse_name n = Err EOther).
Proof.
  split; [apply rejects_no_dot|]. split; [apply rejects_extension|]. split; [apply rejects_few_parts|].
  split; [apply rejects_timestamp|apply parse_name_total].
Qed.

Lemma accepts_iff n x :
  parse_name n = Ok x <->
  exists base p0 p1 p2 p3 ex t,
    cut DOT n = Some (base, ext_pbgz) /\ split_us base = p0 :: p1 :: p2 :: p3 :: ex /\
    length p2 = 25%nat /\ nth 15 p2 0 = DASH /\ time_parse p2 = Some t /\
    x = mkNI n base ext_pbgz kind_snapshot p0 p1 p3 p2 t ex.
Proof.
  split; [apply parse_name_inv|].
  intros (base & p0 & p1 & p2 & p3 & ex & t & Hc & Hs & Hl & Hd & Ht & ->).
  apply parse_name_intro; assumption.
Qed.

Lemma sanitize_props s :
  safe (sanitize s) = true /\ (safe s = true -> sanitize s = s) /\
  ~ In US (sanitize s) /\ ~ In DOT (sanitize s) /\ (length (sanitize s) <= length s)%nat.
Proof.
  split; [apply sanitize_safe|]. split; [apply sanitize_id|].
  destruct (sanitize_no_separators s) as [H1 H2]. split; [exact H1|]. split; [exact H2|].
  apply sanitize_aux_length.
Qed.

(* ================= limits of the claims: counterexamples, each checked by computation ================= *)

Module Limits.
Import String.
Definition b (s : string) : bytes := List.map Ascii.N_of_ascii (list_ascii_of_string s).
Local Open Scope string_scope.
Definition T0 : Z := 1641092645012345678%Z.   (* 2022-01-02 03:04:05.012345678 UTC *)
Ltac fin := vm_compute; first [reflexivity | discriminate | (intros; discriminate)
                               | (split; [intros; discriminate|reflexivity])].

(* an extra item may not END in '_' unless it is the last component: "A_" then "B1" comes back as "A", "_B1"
   (the item satisfies every rule of the NameExtraItem comment) *)
Example roundtrip_extra_trailing_us_refuted :
  exists db inst gen t extras,
    safe db = true /\ safe inst = true /\ safe gen = true /\ (0 <= t < two63z)%Z /\
    no_sep (List.nth 0 extras nil) = true /\
    exists x, parse_name (name_of db inst gen t extras) = Ok x /\ ni_extra x <> extras.
Proof.
  exists (b "db"), (b "i"), (b "GX"), T0, (b "A_" :: b "B1" :: nil).
  repeat (split; [fin|]).
  eexists. split; [vm_compute; reflexivity|]. vm_compute. discriminate.
Qed.

(* the same for a database name ending in '_': the name is accepted, with the wrong database and instance *)
Example roundtrip_db_trailing_us_refuted :
  exists x, parse_name (name_of (b "db_") (b "i") (b "GX") T0 nil) = Ok x /\
            ni_syncer x = b "db" /\ ni_inst x = b "_i".
Proof. eexists. split; [vm_compute; reflexivity|]. vm_compute. split; reflexivity. Qed.

(* "__" inside a component shifts every later field; here the name is then rejected *)
Example roundtrip_sep_inside_refuted :
  parse_name (name_of (b "db") (b "a__b") (b "GX") T0 nil) = Err EOther.
Proof. vm_compute. reflexivity. Qed.

(* a '.' anywhere before the extension: the first dot starts the "extension" *)
Example roundtrip_dot_refuted :
  parse_name (name_of (b "d.b") (b "i") (b "GX") T0 nil) = Err EOther /\
  parse_name (name_of (b "db") (b "host.example.org") (b "GX") T0 nil) = Err EOther.
Proof. vm_compute. split; reflexivity. Qed.

(* database names outside the safe alphabet: a snapshot of database "a__b", written by an instance
   whose (sanitised, safe-alphabet) id looks like a timestamp, carries the listing prefix of database
   "a" AND parses — as a snapshot of "a" from instance "b". The parsed database name is never compared. *)
Example other_db_unsafe_refuted :
  exists d d' inst t,
    d <> d' /\ safe d = true /\ safe inst = true /\ (0 <= t < two63z)%Z /\
    has_prefix (db_prefix d) (name_of d' inst (b "GX") t nil) = true /\
    exists x, parse_name (name_of d' inst (b "GX") t nil) = Ok x /\ ni_syncer x = d /\ ni_inst x = b "b".
Proof.
  exists (b "a"), (b "a__b"), (b "20240101-000000-000000000"), T0.
  repeat (split; [fin|]).
  eexists. split; [vm_compute; reflexivity|]. vm_compute. split; reflexivity.
Qed.

(* time.Parse tolerates a sign where the fraction starts: such names are accepted although BuildName
   never writes them, and they sort BEFORE names with an earlier timestamp ('+' < '0') *)
Example signed_fraction_accepted :
  exists x, parse_name (b "db__i__20220102-030405-+12345678__GX.pb.gz") = Ok x /\
            ni_ts x = 1641092645012345678%Z /\ ni_tss x <> format_ts (ni_ts x).
Proof. eexists. split; [vm_compute; reflexivity|]. vm_compute. split; [reflexivity|discriminate]. Qed.

Example signed_fraction_order_refuted :
  exists n1 n2 x1 x2, parse_name n1 = Ok x1 /\ parse_name n2 = Ok x2 /\
    ni_syncer x1 = ni_syncer x2 /\ ni_inst x1 = ni_inst x2 /\
    bcmp n1 n2 = Lt /\ (ni_ts x2 < ni_ts x1)%Z.
Proof.
  exists (b "db__i__20220102-030405-+99999999__GX.pb.gz"), (b "db__i__20220102-030405-000000000__GX.pb.gz").
  eexists. eexists. split; [vm_compute; reflexivity|]. split; [vm_compute; reflexivity|].
  vm_compute. repeat split.
Qed.

(* ParseName accepts instants that are not int64 nanoseconds (any year 0000..9999) *)
Example parse_beyond_int64 :
  exists x, parse_name (b "db__i__22620411-234716-854775808__GX.pb.gz") = Ok x /\ ni_ts x = two63z.
Proof. eexists. split; [vm_compute; reflexivity|]. vm_compute. reflexivity. Qed.

(* NameTimestampFromNano reinterprets the uint64 as int64: 2^63 is named 1677-09-21 and sorts first *)
Example from_nano_wrap_refuted :
  exists u1 u2, u1 < u2 /\ u2 < two64 /\
    bcmp (name_timestamp_from_nano u1) (name_timestamp_from_nano u2) = Gt.
Proof. exists (two63 - 1), two63. vm_compute. repeat split. Qed.

(* the sanitiser is not injective: distinct configured names can share one instance id *)
Example sanitize_collision :
  b "host.1" <> b "host_1" /\ sanitize (b "host.1") = sanitize (b "host_1") /\ sanitize (b "host.1") = b "host-1".
Proof. vm_compute. repeat split. discriminate. Qed.

(* one "-" per rune, not per byte; every invalid byte is a rune of its own *)
Example sanitize_runes :
  sanitize (97 :: 195 :: 169 :: 226 :: 130 :: 172 :: 240 :: 159 :: 152 :: 128 :: 255 :: 195 :: 98 :: nil)%N
  = b "a-----b".
Proof. vm_compute. reflexivity. Qed.
End Limits.
