(* Names/Model.v — mirrors snapshot/name.go (NameTimestamp, NameTimestampFromNano, Name, BuildName,
   ParseName, registeredExtensions), the instance-name sanitiser of syncer/utils.go (instanceID) and
   the way syncer/receiver/receiver.go and syncer/cleaner/cleaner.go select names (prefix listing,
   "later name overwrites earlier").

   Go strings are byte strings: [bytes] = list N, every element < 256. No proofs here. *)
From LS Require Import Base.Bytes Base.Res Names.Civil.
Open Scope N_scope.

(* ---------- characters and constants ---------- *)
Definition US : N := 95.    (* '_' *)
Definition DOT : N := 46.   (* '.' *)
Definition DASH : N := 45.  (* '-' *)
Definition SEP : bytes := [95; 95].                          (* "__" *)
Definition ext_pbgz : bytes := [112; 98; 46; 103; 122].       (* Go: DefaultExtension = "pb.gz" *)
Definition kind_snapshot : bytes := [115; 110; 97; 112; 115; 104; 111; 116].  (* Go: KindSnapshot = "snapshot" *)

(* Go: snapshot.NameInfo. ni_ts is the instant of the time.Time (ns since the epoch). *)
Record name_info := mkNI {
  ni_full : bytes;         (* FullName *)
  ni_base : bytes;         (* BaseName *)
  ni_ext : bytes;          (* Extension *)
  ni_kind : bytes;         (* Kind *)
  ni_syncer : bytes;       (* SyncerName: the database *)
  ni_inst : bytes;         (* InstanceID *)
  ni_gen : bytes;          (* GenerationID *)
  ni_tss : bytes;          (* TimestampString *)
  ni_ts : Z;               (* Timestamp *)
  ni_extra : list bytes    (* Extra (nil and empty are both []) *)
}.

(* ---------- building ---------- *)

(* Go: NameTimestamp(ts) *)
Definition name_timestamp (t : Z) : bytes := format_ts t.

(* Go: NameTimestampFromNano(tsNano) = NameTimestamp(time.Unix(0, int64(tsNano))) — the uint64 header
   timestamp is reinterpreted as int64: values >= 2^63 name an instant BEFORE 1970 *)
Definition name_timestamp_from_nano (u : N) : bytes := name_timestamp (to_int64 u).

(* the base name: everything BuildName writes before the "." *)
Definition build_base (ni : name_info) : bytes :=
  ni_syncer ni ++ SEP ++ ni_inst ni ++ SEP
  ++ (match ni_tss ni with [] => name_timestamp (ni_ts ni) | _ :: _ => ni_tss ni end)
  ++ SEP ++ ni_gen ni ++ concat (map (fun e => SEP ++ e) (ni_extra ni)).

(* Go: NameInfo.BuildName *)
Definition build_name (ni : name_info) : bytes := build_base ni ++ [DOT] ++ ni_ext ni.

(* Go: Name(syncerName, instanceID, generationID, ts), plus Extra (the LSE field) *)
Definition basic_info (db inst gen : bytes) (t : Z) (extras : list bytes) : name_info :=
  mkNI [] [] ext_pbgz [] db inst gen [] t extras.
Definition name_of (db inst gen : bytes) (t : Z) (extras : list bytes) : bytes :=
  build_name (basic_info db inst gen t extras).

(* ---------- parsing ---------- *)

(* Go: strings.Cut(s, string(sep)) for a one-byte separator *)
Fixpoint cut (sep : N) (s : bytes) : option (bytes * bytes) :=
  match s with
  | [] => None
  | c :: r =>
      if c =? sep then Some ([], r)
      else match cut sep r with
           | Some (a, b) => Some (c :: a, b)
           | None => None
           end
  end.

(* Go: registeredExtensions[ext] — only init() registers, "pb.gz" -> "snapshot" *)
Definition ext_kind (ext : bytes) : option bytes :=
  if beqb ext ext_pbgz then Some kind_snapshot else None.

Definition cons_hd (c : N) (l : list bytes) : list bytes :=
  match l with
  | h :: t => (c :: h) :: t
  | [] => [[c]]
  end.

(* Go: strings.Split(s, "__") — leftmost, non-overlapping occurrences; always at least one part *)
Fixpoint split_us (s : bytes) : list bytes :=
  match s with
  | [] => [[]]
  | c :: r =>
      match r with
      | d :: r' => if (c =? US) && (d =? US) then [] :: split_us r' else cons_hd c (split_us r)
      | [] => [[c]]
      end
  end.

(* Go: ParseName(name). Second component: path taken (coverage):
   1 no dot · 2 unknown extension · 3 fewer than four parts · 4 timestamp part not 25 bytes ·
   5 no '-' at dotIndex · 10+b time.Parse path b (Civil.time_parse_br; 28/29 = accepted) *)
Definition parse_name_br (name : bytes) : res name_info * N :=
  match cut DOT name with
  | None => (Err EOther, 1)
  | Some (base, ext) =>
      match ext_kind ext with
      | None => (Err EOther, 2)
      | Some kind =>
          match split_us base with
          | p0 :: p1 :: p2 :: p3 :: extras =>
              if negb (Nat.eqb (length p2) 25) then (Err EOther, 4)
              else if negb (nth 15 p2 0 =? DASH) then (Err EOther, 5)
              else
                match time_parse_br p2 with
                | (Some t, b) => (Ok (mkNI name base ext kind p0 p1 p3 p2 t extras), 10 + b)
                | (None, b) => (Err EOther, 10 + b)
                end
          | _ => (Err EOther, 3)
          end
      end
  end.
Definition parse_name (name : bytes) : res name_info := fst (parse_name_br name).

(* what ParseName returns for a name built from [x]: the derived fields filled in *)
Definition complete (x : name_info) : name_info :=
  mkNI (build_name x) (build_base x) (ni_ext x) kind_snapshot (ni_syncer x) (ni_inst x) (ni_gen x)
       (match ni_tss x with [] => name_timestamp (ni_ts x) | _ :: _ => ni_tss x end)
       (ni_ts x) (ni_extra x).

(* ---------- name alphabets ---------- *)

(* the documented safe alphabet [A-Za-z0-9-] *)
Definition is_safe (c : N) : bool :=
  ((48 <=? c) && (c <=? 57)) || ((65 <=? c) && (c <=? 90)) || ((97 <=? c) && (c <=? 122)) || (c =? DASH).
Definition safe (s : bytes) : bool := forallb is_safe s.

(* NameExtraItem as documented: a capital letter, then the value; here value over the safe alphabet *)
Definition extra_safe (e : bytes) : bool :=
  match e with
  | c :: r => (65 <=? c) && (c <=? 90) && safe r
  | [] => false
  end.

(* the exact conditions BuildName/ParseName need of a component *)
Definition no_dot (s : bytes) : bool := forallb (fun c => negb (c =? DOT)) s.
Fixpoint no_sep (s : bytes) : bool :=            (* "__" does not occur *)
  match s with
  | [] => true
  | c :: r => match r with
              | d :: _ => negb ((c =? US) && (d =? US)) && no_sep r
              | [] => true
              end
  end.
Definition not_end_us (s : bytes) : bool := negb (last s 0 =? US).
(* components in name order: no '.', no "__" inside, and only the LAST one may end in '_' *)
Fixpoint comps_ok (l : list bytes) : bool :=
  match l with
  | [] => true
  | x :: r => no_dot x && no_sep x && (match r with [] => true | _ :: _ => not_end_us x end) && comps_ok r
  end.

(* ---------- the instance-name sanitiser ---------- *)

(* Go: utf8.DecodeRuneInString(s) width, as used by regexp's inputString.step: 1 for ASCII and for every
   byte that does not start a well-formed sequence (RuneError, width 1), else 2..4.
   Second component (coverage): 0 ASCII · 1 two bytes · 2 three · 3 four · 4 invalid lead byte ·
   5 truncated or bad continuation *)
Definition cont (c : N) : bool := (128 <=? c) && (c <=? 191).
Definition utf8_width_br (s : bytes) : nat * N :=
  match s with
  | [] => (1%nat, 0)
  | b0 :: r =>
      if b0 <? 128 then (1%nat, 0)
      else if (b0 <? 194) || (244 <? b0) then (1%nat, 4)
      else if b0 <? 224 then
        match r with b1 :: _ => if cont b1 then (2%nat, 1) else (1%nat, 5) | _ => (1%nat, 5) end
      else if b0 <? 240 then
        match r with
        | b1 :: b2 :: _ =>
            let lo := if b0 =? 224 then 160 else 128 in
            let hi := if b0 =? 237 then 159 else 191 in
            if (lo <=? b1) && (b1 <=? hi) && cont b2 then (3%nat, 2) else (1%nat, 5)
        | _ => (1%nat, 5)
        end
      else
        match r with
        | b1 :: b2 :: b3 :: _ =>
            let lo := if b0 =? 240 then 144 else 128 in
            let hi := if b0 =? 244 then 143 else 191 in
            if (lo <=? b1) && (b1 <=? hi) && cont b2 && cont b3 then (4%nat, 3) else (1%nat, 5)
        | _ => (1%nat, 5)
        end
  end.
Definition utf8_width (s : bytes) : nat := fst (utf8_width_br s).

(* Go: reUnsafe.ReplaceAllString(n, "-") with reUnsafe = `[^a-zA-Z0-9-]`: the input is scanned rune by
   rune; a rune of the class (every non-ASCII rune and every invalid byte included) becomes ONE "-",
   the others (single safe bytes) are copied. [skip] = bytes of the current rune still to drop. *)
Fixpoint sanitize_aux (skip : nat) (s : bytes) : bytes :=
  match s with
  | [] => []
  | c :: r =>
      match skip with
      | S k => sanitize_aux k r
      | O => if is_safe c then c :: sanitize_aux 0 r
             else DASH :: sanitize_aux (utf8_width s - 1) r
      end
  end.
Definition sanitize (s : bytes) : bytes := sanitize_aux 0 s.

(* Go: Syncer.instanceID (method) — configured name, or the host name when that is empty *)
Definition instance_id (configured hostname : bytes) : bytes :=
  sanitize (match configured with [] => hostname | _ :: _ => configured end).

(* ---------- how names are selected ---------- *)

(* Go: strings.HasPrefix — what simpleblob List(ctx, prefix) filters by *)
Fixpoint has_prefix (p s : bytes) : bool :=
  match p, s with
  | [], _ => true
  | x :: p', y :: s' => (x =? y) && has_prefix p' s'
  | _ :: _, [] => false
  end.

(* Go: receiver.New / cleaner.New: prefix = dbname + "__" *)
Definition db_prefix (db : bytes) : bytes := db ++ SEP.

(* Go: storage List(prefix) as used by receiver.RunOnce and cleaner.RunOnce: the names carrying the
   prefix (that the backend returns them sorted is an assumption on simpleblob, stated in theorems) *)
Definition list_prefix (db : bytes) (bucket : list bytes) : list bytes :=
  filter (has_prefix (db_prefix db)) bucket.

(* Go: receiver.RunOnce, the loop over the sorted listing: unparsable names are skipped, the parsed
   SyncerName is never looked at, lastSeenByInstance[ni.InstanceID] = ni, later overwrites earlier *)
Definition last_seen (names : list bytes) (inst : bytes) : option name_info :=
  fold_left (fun acc n =>
               match parse_name n with
               | Ok ni => if beqb (ni_inst ni) inst then Some ni else acc
               | _ => acc
               end) names None.
