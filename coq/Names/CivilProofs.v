(* Names/CivilProofs.v — facts about the time model of Names/Civil.v:
   the sweep lifted to "forall day in 0..106751", fixed-width decimals (order, parsing back),
   format_ts/time_parse round trip and  byte order of format_ts = order of instants. *)
From LS Require Import Base.Bytes Base.BytesProofs Names.Civil Names.CivilSweep.
From Coq Require Import ZifyN ZifyNat ZifyBool.
Open Scope Z_scope.

(* ---------- lexicographic combination of comparisons ---------- *)
Definition lexc (c1 c2 : comparison) : comparison := match c1 with Eq => c2 | _ => c1 end.

Lemma lexc_assoc a b c : lexc (lexc a b) c = lexc a (lexc b c).
Proof. destruct a; reflexivity. Qed.
Lemma lexc_eq_r a : lexc a Eq = a.
Proof. destruct a; reflexivity. Qed.

(* comparing two numbers = comparing quotients, then remainders *)
Lemma cmp_divmod p a b : 0 < p ->
  (a ?= b) = lexc (a / p ?= b / p) (a mod p ?= b mod p).
Proof.
  intros Hp.
  pose proof (Z.div_mod a p ltac:(lia)) as Ea. pose proof (Z.div_mod b p ltac:(lia)) as Eb.
  pose proof (Z.mod_pos_bound a p Hp) as Ba. pose proof (Z.mod_pos_bound b p Hp) as Bb.
  set (qa := a / p) in *. set (qb := b / p) in *. set (ra := a mod p) in *. set (rb := b mod p) in *.
  clearbody qa qb ra rb.
  destruct (Z.compare_spec qa qb) as [E|L|G]; cbn [lexc].
  - subst qb. destruct (Z.compare_spec ra rb) as [E'|L'|G']; [apply Z.compare_eq_iff|apply Z.compare_lt_iff|apply Z.compare_gt_iff]; lia.
  - apply Z.compare_lt_iff. assert (p * (qa + 1) <= p * qb) by (apply Z.mul_le_mono_nonneg_l; lia). lia.
  - apply Z.compare_gt_iff. assert (p * (qb + 1) <= p * qa) by (apply Z.mul_le_mono_nonneg_l; lia). lia.
Qed.

(* ---------- the sweep, lifted ---------- *)

Lemma sweep_sound k : forall s d, sweep k s = true -> s <= d < s + 2 ^ Z.of_nat k -> day_ok d = true.
Proof.
  induction k as [|k IH]; intros s d Hs Hd.
  - cbn [sweep] in Hs. change (2 ^ Z.of_nat 0) with 1 in Hd. replace d with s by lia. exact Hs.
  - cbn [sweep] in Hs. apply andb_true_iff in Hs. destruct Hs as [H1 H2].
    assert (E : 2 ^ Z.of_nat (S k) = 2 * 2 ^ Z.of_nat k).
    { rewrite Nat2Z.inj_succ, Z.pow_succ_r by lia. reflexivity. }
    rewrite E in Hd.
    assert (Hpos : 0 < 2 ^ Z.of_nat k) by (apply Z.pow_pos_nonneg; lia).
    destruct (Z_lt_le_dec d (s + 2 ^ Z.of_nat k)) as [L|G].
    + apply (IH s d H1). lia.
    + apply (IH (s + 2 ^ Z.of_nat k) d H2). lia.
Qed.

Lemma all_days_ok d : 0 <= d < NDAYS -> day_ok d = true.
Proof.
  intros Hd. pose proof sweep_all_true as H. unfold sweep_all in H.
  apply andb_true_iff in H. destruct H as [H H4].
  apply andb_true_iff in H. destruct H as [H H3].
  apply andb_true_iff in H. destruct H as [H1 H2].
  unfold NDAYS in Hd.
  destruct (Z_lt_le_dec d 65536); [apply (sweep_sound 16 0 d H1); change (2 ^ Z.of_nat 16) with 65536; lia|].
  destruct (Z_lt_le_dec d 98304); [apply (sweep_sound 15 65536 d H2); change (2 ^ Z.of_nat 15) with 32768; lia|].
  destruct (Z_lt_le_dec d 106496); [apply (sweep_sound 13 98304 d H3); change (2 ^ Z.of_nat 13) with 8192; lia|].
  apply (sweep_sound 8 106496 d H4). change (2 ^ Z.of_nat 8) with 256. lia.
Qed.

(* what day_ok says, as propositions *)
Lemma day_facts z y m d : 0 <= z < NDAYS -> civil_from_days z = (y, m, d) ->
  1970 <= y <= 2262 /\ 1 <= m <= 12 /\ 1 <= d <= days_in m y /\ days_from_civil y m d = z
  /\ ymdnum (y, m, d) < ymdnum (civil_from_days (z + 1)).
Proof.
  intros Hz E. pose proof (all_days_ok z Hz) as H. unfold day_ok in H. rewrite E in H.
  repeat (apply andb_true_iff in H; destruct H as [H ?]).
  repeat split; lia.
Qed.

Lemma days_in_le31 m y : days_in m y <= 31.
Proof. unfold days_in. destruct (m =? 2); [destruct (leap y); lia|]. destruct (_ || _); lia. Qed.

Lemma ymd_step z : 0 <= z < NDAYS -> ymdnum (civil_from_days z) < ymdnum (civil_from_days (z + 1)).
Proof.
  intros Hz. destruct (civil_from_days z) as [[y m] d] eqn:E.
  pose proof (day_facts z y m d Hz E). tauto.
Qed.

Lemma ymd_mono_nat (n : nat) : forall z, 0 <= z -> z + Z.of_nat (S n) <= NDAYS ->
  ymdnum (civil_from_days z) < ymdnum (civil_from_days (z + Z.of_nat (S n))).
Proof.
  induction n as [|n IH]; intros z Hz Hn.
  - change (Z.of_nat 1) with 1. apply ymd_step. lia.
  - replace (z + Z.of_nat (S (S n))) with ((z + Z.of_nat (S n)) + 1) by lia.
    eapply Z.lt_trans; [apply IH; lia|]. apply ymd_step. lia.
Qed.

Lemma ymd_mono z1 z2 : 0 <= z1 -> z1 < z2 -> z2 <= NDAYS ->
  ymdnum (civil_from_days z1) < ymdnum (civil_from_days z2).
Proof.
  intros H0 H12 H2.
  replace z2 with (z1 + Z.of_nat (S (Z.to_nat (z2 - z1 - 1)))) by lia.
  apply ymd_mono_nat; lia.
Qed.

Lemma ymd_cmp z1 z2 : 0 <= z1 < NDAYS -> 0 <= z2 < NDAYS ->
  (z1 ?= z2) = (ymdnum (civil_from_days z1) ?= ymdnum (civil_from_days z2)).
Proof.
  intros H1 H2. destruct (Z.compare_spec z1 z2) as [E|L|G]; symmetry.
  - subst. apply Z.compare_refl.
  - apply Z.compare_lt_iff. apply ymd_mono; lia.
  - apply Z.compare_gt_iff. apply ymd_mono; lia.
Qed.

(* the order of (y, m, d) triples of real dates is the order of their YYYYMMDD numbers *)
Lemma ymdnum_cmp y1 m1 d1 y2 m2 d2 :
  1 <= m1 <= 12 -> 1 <= d1 <= 31 -> 1 <= m2 <= 12 -> 1 <= d2 <= 31 ->
  (ymdnum (y1, m1, d1) ?= ymdnum (y2, m2, d2)) = lexc (y1 ?= y2) (lexc (m1 ?= m2) (d1 ?= d2)).
Proof.
  intros. unfold ymdnum.
  destruct (Z.compare_spec y1 y2); cbn [lexc];
    [destruct (Z.compare_spec m1 m2); cbn [lexc]; [destruct (Z.compare_spec d1 d2)| |] | |];
    first [apply Z.compare_eq_iff | apply Z.compare_lt_iff | apply Z.compare_gt_iff]; lia.
Qed.

(* ---------- fixed-width decimals ---------- *)

Lemma dec_S k n : dec (S k) n = Z.to_N (48 + (n / 10 ^ Z.of_nat k) mod 10) :: dec k (n mod 10 ^ Z.of_nat k).
Proof. reflexivity. Qed.

Lemma pow10_pos k : 0 < 10 ^ Z.of_nat k.
Proof. apply Z.pow_pos_nonneg; lia. Qed.

Lemma pow10_S k : 10 ^ Z.of_nat (S k) = 10 * 10 ^ Z.of_nat k.
Proof. rewrite Nat2Z.inj_succ, Z.pow_succ_r by lia. reflexivity. Qed.

Lemma dec_length k : forall n, length (dec k n) = k.
Proof. induction k as [|k IH]; intros n; [reflexivity|]. rewrite dec_S. cbn [length]. rewrite IH. reflexivity. Qed.

(* leading digit and rest of a number below 10^(k+1) *)
Lemma lead_digit k n : 0 <= n < 10 ^ Z.of_nat (S k) ->
  0 <= n / 10 ^ Z.of_nat k < 10 /\ (n / 10 ^ Z.of_nat k) mod 10 = n / 10 ^ Z.of_nat k
  /\ 0 <= n mod 10 ^ Z.of_nat k < 10 ^ Z.of_nat k.
Proof.
  intros Hn. rewrite pow10_S in Hn. pose proof (pow10_pos k) as Hp.
  set (p := 10 ^ Z.of_nat k) in *. clearbody p.
  assert (H1 : 0 <= n / p < 10).
  { split; [apply Z.div_pos; lia|]. apply Z.div_lt_upper_bound; lia. }
  split; [exact H1|]. split; [apply Z.mod_small; exact H1|]. apply Z.mod_pos_bound. exact Hp.
Qed.

Lemma dec_digits k : forall n, 0 <= n < 10 ^ Z.of_nat k -> forallb is_digit (dec k n) = true.
Proof.
  induction k as [|k IH]; intros n Hn; [reflexivity|].
  destruct (lead_digit k n Hn) as (Hq & Hm & Hr).
  rewrite dec_S, Hm. cbn [forallb]. rewrite IH by exact Hr.
  set (q := n / 10 ^ Z.of_nat k) in *. clearbody q.
  unfold is_digit. rewrite andb_true_r. apply andb_true_iff. split; lia.
Qed.

(* byte order of fixed-width decimals (followed by anything) = numeric order, then the rest *)
Lemma bcmp_dec k : forall a b r1 r2,
  0 <= a < 10 ^ Z.of_nat k -> 0 <= b < 10 ^ Z.of_nat k ->
  bcmp (dec k a ++ r1) (dec k b ++ r2) = lexc (a ?= b) (bcmp r1 r2).
Proof.
  induction k as [|k IH]; intros a b r1 r2 Ha Hb.
  - change (10 ^ Z.of_nat 0) with 1 in *. replace a with 0 by lia. replace b with 0 by lia. reflexivity.
  - destruct (lead_digit k a Ha) as (Hqa & Hma & Hra). destruct (lead_digit k b Hb) as (Hqb & Hmb & Hrb).
    rewrite !dec_S, Hma, Hmb. cbn [app bcmp].
    rewrite (cmp_divmod (10 ^ Z.of_nat k) a b (pow10_pos k)).
    rewrite IH by assumption.
    set (qa := a / 10 ^ Z.of_nat k) in *. set (qb := b / 10 ^ Z.of_nat k) in *.
    clearbody qa qb.
    replace (N.compare (Z.to_N (48 + qa)) (Z.to_N (48 + qb))) with (qa ?= qb).
    + rewrite lexc_assoc. destruct (qa ?= qb); reflexivity.
    + rewrite <- Z2N.inj_compare by lia. symmetry. apply Z.add_compare_mono_l.
Qed.

Lemma bcmp_cons_same c r1 r2 : bcmp (c :: r1) (c :: r2) = bcmp r1 r2.
Proof. cbn [bcmp]. rewrite N.compare_refl. reflexivity. Qed.

(* parsing a fixed-width decimal back *)
Lemma take_dec_dec k : forall n r, 0 <= n < 10 ^ Z.of_nat k -> take_dec k (dec k n ++ r) = Some (n, r).
Proof.
  induction k as [|k IH]; intros n r Hn.
  - change (10 ^ Z.of_nat 0) with 1 in Hn. replace n with 0 by lia. reflexivity.
  - destruct (lead_digit k n Hn) as (Hq & Hm & Hr).
    rewrite dec_S, Hm. cbn [app take_dec].
    rewrite IH by exact Hr.
    pose proof (Z.div_mod n (10 ^ Z.of_nat k) ltac:(pose proof (pow10_pos k); lia)) as E.
    set (q := n / 10 ^ Z.of_nat k) in *. set (m := n mod 10 ^ Z.of_nat k) in *.
    set (p := 10 ^ Z.of_nat k) in *. clearbody q m p.
    replace (is_digit (Z.to_N (48 + q))) with true by (unfold is_digit; lia).
    f_equal. f_equal. rewrite Z2N.id by lia. lia.
Qed.

(* ... and conversely: what take_dec accepts is a fixed-width decimal *)
Lemma take_dec_inv k : forall s v r, take_dec k s = Some (v, r) ->
  s = dec k v ++ r /\ 0 <= v < 10 ^ Z.of_nat k.
Proof.
  induction k as [|k IH]; intros s v r H.
  - cbn [take_dec] in H. inversion H; subst. split; [reflexivity|]. change (10 ^ Z.of_nat 0) with 1. lia.
  - cbn [take_dec] in H. destruct s as [|c s']; [discriminate|].
    destruct (is_digit c) eqn:Hc; [|discriminate].
    destruct (take_dec k s') as [[v' r']|] eqn:Ht; [|discriminate].
    inversion H; subst; clear H.
    destruct (IH s' v' r Ht) as [Es Hv]. subst s'.
    pose proof (pow10_pos k) as Hp. rewrite pow10_S.
    unfold is_digit in Hc.
    set (p := 10 ^ Z.of_nat k) in *.
    assert (Hq : ((Z.of_N c - 48) * p + v') / p = Z.of_N c - 48).
    { rewrite Z.div_add_l by lia. rewrite Z.div_small by lia. lia. }
    assert (Hm : ((Z.of_N c - 48) * p + v') mod p = v').
    { rewrite Z.add_comm, Z.mod_add by lia. apply Z.mod_small. lia. }
    split.
    + rewrite dec_S. fold p. rewrite Hq, Hm. cbn [app]. f_equal.
      rewrite Z.mod_small by lia. lia.
    + clearbody p. nia.
Qed.
