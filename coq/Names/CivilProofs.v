(* Names/CivilProofs.v — facts about the time model of Names/Civil.v:
   the sweep lifted to "forall day in 0..106751", fixed-width decimals (order, parsing back),
   format_ts/time_parse round trip and  byte order of format_ts = order of instants. *)
From LS Require Import Base.Bytes Base.BytesProofs Names.Civil Names.CivilSweep.
From Coq Require Import ZifyN ZifyNat ZifyBool.
Open Scope Z_scope.

(* ---------- lexicographic combination of comparisons ---------- *)
Definition lexc (c1 c2 : comparison) : comparison := match c1 with Eq => c2 | _ => c1 end.

Lemma lexc_assoc a b c : lexc (lexc a b) c = lexc a (lexc b c).
Proof. destruct a; reflexivity. Qed.
Lemma lexc_eq_r a : lexc a Eq = a.
Proof. destruct a; reflexivity. Qed.

(* comparing two numbers = comparing quotients, then remainders *)
Lemma cmp_divmod p a b : 0 < p ->
  (a ?= b) = lexc (a / p ?= b / p) (a mod p ?= b mod p).
Proof.
  intros Hp.
  pose proof (Z.div_mod a p ltac:(lia)) as Ea. pose proof (Z.div_mod b p ltac:(lia)) as Eb.
  pose proof (Z.mod_pos_bound a p Hp) as Ba. pose proof (Z.mod_pos_bound b p Hp) as Bb.
  set (qa := a / p) in *. set (qb := b / p) in *. set (ra := a mod p) in *. set (rb := b mod p) in *.
  clearbody qa qb ra rb.
  destruct (Z.compare_spec qa qb) as [E|L|G]; cbn [lexc].
  - subst qb. destruct (Z.compare_spec ra rb) as [E'|L'|G']; [apply Z.compare_eq_iff|apply Z.compare_lt_iff|apply Z.compare_gt_iff]; lia.
  - apply Z.compare_lt_iff. assert (p * (qa + 1) <= p * qb) by (apply Z.mul_le_mono_nonneg_l; lia). lia.
  - apply Z.compare_gt_iff. assert (p * (qb + 1) <= p * qa) by (apply Z.mul_le_mono_nonneg_l; lia). lia.
Qed.

(* ---------- the sweep, lifted ---------- *)

Lemma sweep_sound k : forall s d, sweep k s = true -> s <= d < s + 2 ^ Z.of_nat k -> day_ok d = true.
Proof.
  induction k as [|k IH]; intros s d Hs Hd.
  - cbn [sweep] in Hs. change (2 ^ Z.of_nat 0) with 1 in Hd. replace d with s by lia. exact Hs.
  - cbn [sweep] in Hs. apply andb_true_iff in Hs. destruct Hs as [H1 H2].
    assert (E : 2 ^ Z.of_nat (S k) = 2 * 2 ^ Z.of_nat k).
    { rewrite Nat2Z.inj_succ, Z.pow_succ_r by lia. reflexivity. }
    rewrite E in Hd.
    assert (Hpos : 0 < 2 ^ Z.of_nat k) by (apply Z.pow_pos_nonneg; lia).
    destruct (Z_lt_le_dec d (s + 2 ^ Z.of_nat k)) as [L|G].
    + apply (IH s d H1). lia.
    + apply (IH (s + 2 ^ Z.of_nat k) d H2). lia.
Qed.

Lemma all_days_ok d : 0 <= d < NDAYS -> day_ok d = true.
Proof.
  intros Hd.
  pose proof sweep_block1 as H1. pose proof sweep_block2 as H2.
  pose proof sweep_block3 as H3. pose proof sweep_block4 as H4.
  unfold NDAYS in Hd.
  destruct (Z_lt_le_dec d 65536); [apply (sweep_sound 16 0 d H1); change (2 ^ Z.of_nat 16) with 65536; lia|].
  destruct (Z_lt_le_dec d 98304); [apply (sweep_sound 15 65536 d H2); change (2 ^ Z.of_nat 15) with 32768; lia|].
  destruct (Z_lt_le_dec d 106496); [apply (sweep_sound 13 98304 d H3); change (2 ^ Z.of_nat 13) with 8192; lia|].
  apply (sweep_sound 8 106496 d H4). change (2 ^ Z.of_nat 8) with 256. lia.
Qed.

(* what day_ok says, as propositions *)
Lemma day_facts z y m d : 0 <= z < NDAYS -> civil_from_days z = (y, m, d) ->
  1970 <= y <= 2262 /\ 1 <= m <= 12 /\ 1 <= d <= days_in m y /\ days_from_civil y m d = z
  /\ ymdnum (y, m, d) < ymdnum (civil_from_days (z + 1)).
Proof.
  intros Hz E. pose proof (all_days_ok z Hz) as H. unfold day_ok in H. rewrite E in H.
  repeat (apply andb_true_iff in H; destruct H as [H ?]).
  repeat split; lia.
Qed.

Lemma days_in_le31 m y : days_in m y <= 31.
Proof. unfold days_in. destruct (m =? 2); [destruct (leap y); lia|]. destruct (_ || _); lia. Qed.

Lemma ymd_step z : 0 <= z < NDAYS -> ymdnum (civil_from_days z) < ymdnum (civil_from_days (z + 1)).
Proof.
  intros Hz. destruct (civil_from_days z) as [[y m] d] eqn:E.
  pose proof (day_facts z y m d Hz E). tauto.
Qed.

Lemma ymd_mono_nat (n : nat) : forall z, 0 <= z -> z + Z.of_nat (S n) <= NDAYS ->
  ymdnum (civil_from_days z) < ymdnum (civil_from_days (z + Z.of_nat (S n))).
Proof.
  induction n as [|n IH]; intros z Hz Hn.
  - change (Z.of_nat 1) with 1. apply ymd_step. lia.
  - replace (z + Z.of_nat (S (S n))) with ((z + Z.of_nat (S n)) + 1) by lia.
    eapply Z.lt_trans; [apply IH; lia|]. apply ymd_step. lia.
Qed.

Lemma ymd_mono z1 z2 : 0 <= z1 -> z1 < z2 -> z2 <= NDAYS ->
  ymdnum (civil_from_days z1) < ymdnum (civil_from_days z2).
Proof.
  intros H0 H12 H2.
  replace z2 with (z1 + Z.of_nat (S (Z.to_nat (z2 - z1 - 1)))) by lia.
  apply ymd_mono_nat; lia.
Qed.

Lemma ymd_cmp z1 z2 : 0 <= z1 < NDAYS -> 0 <= z2 < NDAYS ->
  (z1 ?= z2) = (ymdnum (civil_from_days z1) ?= ymdnum (civil_from_days z2)).
Proof.
  intros H1 H2. destruct (Z.compare_spec z1 z2) as [E|L|G]; symmetry.
  - subst. apply Z.compare_refl.
  - apply Z.compare_lt_iff. apply ymd_mono; lia.
  - apply Z.compare_gt_iff. apply ymd_mono; lia.
Qed.

(* the order of (y, m, d) triples of real dates is the order of their YYYYMMDD numbers *)
Lemma ymdnum_cmp y1 m1 d1 y2 m2 d2 :
  1 <= m1 <= 12 -> 1 <= d1 <= 31 -> 1 <= m2 <= 12 -> 1 <= d2 <= 31 ->
  (ymdnum (y1, m1, d1) ?= ymdnum (y2, m2, d2)) = lexc (y1 ?= y2) (lexc (m1 ?= m2) (d1 ?= d2)).
Proof.
  intros. unfold ymdnum.
  destruct (Z.compare_spec y1 y2); cbn [lexc];
    [destruct (Z.compare_spec m1 m2); cbn [lexc]; [destruct (Z.compare_spec d1 d2)| |] | |];
    first [apply Z.compare_eq_iff | apply Z.compare_lt_iff | apply Z.compare_gt_iff]; lia.
Qed.

(* ---------- fixed-width decimals ---------- *)

Lemma dec_S k n : dec (S k) n = Z.to_N (48 + (n / 10 ^ Z.of_nat k) mod 10) :: dec k (n mod 10 ^ Z.of_nat k).
Proof. reflexivity. Qed.

Lemma pow10_pos k : 0 < 10 ^ Z.of_nat k.
Proof. apply Z.pow_pos_nonneg; lia. Qed.

Lemma pow10_S k : 10 ^ Z.of_nat (S k) = 10 * 10 ^ Z.of_nat k.
Proof. rewrite Nat2Z.inj_succ, Z.pow_succ_r by lia. reflexivity. Qed.

Lemma dec_length k : forall n, length (dec k n) = k.
Proof. induction k as [|k IH]; intros n; [reflexivity|]. rewrite dec_S. cbn [length]. rewrite IH. reflexivity. Qed.

(* leading digit and rest of a number below 10^(k+1) *)
Lemma lead_digit k n : 0 <= n < 10 ^ Z.of_nat (S k) ->
  0 <= n / 10 ^ Z.of_nat k < 10 /\ (n / 10 ^ Z.of_nat k) mod 10 = n / 10 ^ Z.of_nat k
  /\ 0 <= n mod 10 ^ Z.of_nat k < 10 ^ Z.of_nat k.
Proof.
  intros Hn. rewrite pow10_S in Hn. pose proof (pow10_pos k) as Hp.
  set (p := 10 ^ Z.of_nat k) in *. clearbody p.
  assert (H1 : 0 <= n / p < 10).
  { split; [apply Z.div_pos; lia|]. apply Z.div_lt_upper_bound; lia. }
  split; [exact H1|]. split; [apply Z.mod_small; exact H1|]. apply Z.mod_pos_bound. exact Hp.
Qed.

Lemma dec_digits k : forall n, 0 <= n < 10 ^ Z.of_nat k -> forallb is_digit (dec k n) = true.
Proof.
  induction k as [|k IH]; intros n Hn; [reflexivity|].
  destruct (lead_digit k n Hn) as (Hq & Hm & Hr).
  rewrite dec_S, Hm. cbn [forallb]. rewrite IH by exact Hr.
  set (q := n / 10 ^ Z.of_nat k) in *. clearbody q.
  unfold is_digit. rewrite andb_true_r. apply andb_true_iff. split; lia.
Qed.

(* byte order of fixed-width decimals (followed by anything) = numeric order, then the rest *)
Lemma bcmp_dec k : forall a b r1 r2,
  0 <= a < 10 ^ Z.of_nat k -> 0 <= b < 10 ^ Z.of_nat k ->
  bcmp (dec k a ++ r1) (dec k b ++ r2) = lexc (a ?= b) (bcmp r1 r2).
Proof.
  induction k as [|k IH]; intros a b r1 r2 Ha Hb.
  - change (10 ^ Z.of_nat 0) with 1 in *. replace a with 0 by lia. replace b with 0 by lia. reflexivity.
  - destruct (lead_digit k a Ha) as (Hqa & Hma & Hra). destruct (lead_digit k b Hb) as (Hqb & Hmb & Hrb).
    rewrite !dec_S, Hma, Hmb. cbn [app bcmp].
    rewrite (cmp_divmod (10 ^ Z.of_nat k) a b (pow10_pos k)).
    rewrite IH by assumption.
    set (qa := a / 10 ^ Z.of_nat k) in *. set (qb := b / 10 ^ Z.of_nat k) in *.
    clearbody qa qb.
    assert (Hc : N.compare (Z.to_N (48 + qa)) (Z.to_N (48 + qb)) = (qa ?= qb)).
    { destruct (Z.compare_spec qa qb);
        [apply N.compare_eq_iff|apply N.compare_lt_iff|apply N.compare_gt_iff]; lia. }
    rewrite Hc, lexc_assoc. destruct (qa ?= qb); reflexivity.
Qed.

Lemma bcmp_cons_same c r1 r2 : bcmp (c :: r1) (c :: r2) = bcmp r1 r2.
Proof. cbn [bcmp]. rewrite N.compare_refl. reflexivity. Qed.

(* parsing a fixed-width decimal back *)
Lemma take_dec_dec k : forall n r, 0 <= n < 10 ^ Z.of_nat k -> take_dec k (dec k n ++ r) = Some (n, r).
Proof.
  induction k as [|k IH]; intros n r Hn.
  - change (10 ^ Z.of_nat 0) with 1 in Hn. replace n with 0 by lia. reflexivity.
  - destruct (lead_digit k n Hn) as (Hq & Hm & Hr).
    rewrite dec_S, Hm. cbn [app take_dec].
    rewrite IH by exact Hr.
    pose proof (Z.div_mod n (10 ^ Z.of_nat k) ltac:(pose proof (pow10_pos k); lia)) as E.
    set (q := n / 10 ^ Z.of_nat k) in *. set (m := n mod 10 ^ Z.of_nat k) in *.
    set (p := 10 ^ Z.of_nat k) in *. clearbody q m p.
    replace (is_digit (Z.to_N (48 + q))) with true by (unfold is_digit; lia).
    f_equal. f_equal. rewrite Z2N.id by lia. lia.
Qed.

(* ... and conversely: what take_dec accepts is a fixed-width decimal *)
Lemma take_dec_inv k : forall s v r, take_dec k s = Some (v, r) ->
  s = dec k v ++ r /\ 0 <= v < 10 ^ Z.of_nat k.
Proof.
  induction k as [|k IH]; intros s v r H.
  - cbn [take_dec] in H. inversion H; subst. split; [reflexivity|]. change (10 ^ Z.of_nat 0) with 1. lia.
  - cbn [take_dec] in H. destruct s as [|c s']; [discriminate|].
    destruct (is_digit c) eqn:Hc; [|discriminate].
    destruct (take_dec k s') as [[v' r']|] eqn:Ht; [|discriminate].
    inversion H; subst; clear H.
    destruct (IH s' v' r Ht) as [Es Hv]. subst s'.
    pose proof (pow10_pos k) as Hp. rewrite pow10_S.
    unfold is_digit in Hc.
    set (p := 10 ^ Z.of_nat k) in *.
    assert (Hq : ((Z.of_N c - 48) * p + v') / p = Z.of_N c - 48).
    { rewrite Z.div_add_l by lia. rewrite Z.div_small by lia. lia. }
    assert (Hm : ((Z.of_N c - 48) * p + v') mod p = v').
    { rewrite Z.add_comm, Z.mod_add by lia. apply Z.mod_small. lia. }
    split.
    + rewrite dec_S. fold p. rewrite Hq, Hm. cbn [app]. f_equal.
      rewrite Z.mod_small by lia. lia.
    + clearbody p. nia.
Qed.

Lemma take_dec_dec_nil k n : 0 <= n < 10 ^ Z.of_nat k -> take_dec k (dec k n) = Some (n, []).
Proof. intros H. rewrite <- (app_nil_r (dec k n)) at 1. apply take_dec_dec, H. Qed.

(* ---------- the fields of an instant ---------- *)

Definition f_days (t : Z) : Z := t / NS_DAY.
Definition f_rem (t : Z) : Z := t mod NS_DAY.
Definition f_secs (t : Z) : Z := f_rem t / NS_SEC.
Definition f_ns (t : Z) : Z := f_rem t mod NS_SEC.
Definition f_mins (t : Z) : Z := f_secs t / 60.
Definition f_ss (t : Z) : Z := f_secs t mod 60.
Definition f_hh (t : Z) : Z := f_mins t / 60.
Definition f_mm (t : Z) : Z := f_mins t mod 60.

Lemma format_ts_eq t y m d : civil_from_days (f_days t) = (y, m, d) ->
  format_ts t = dec 4 y ++ dec 2 m ++ dec 2 d ++ [45%N] ++ dec 2 (f_hh t) ++ dec 2 (f_mm t) ++ dec 2 (f_ss t)
                ++ [45%N] ++ dec 9 (f_ns t).
Proof. intros E. unfold format_ts. unfold f_days in E. rewrite E. reflexivity. Qed.

Lemma clock_bounds t :
  0 <= f_hh t < 24 /\ 0 <= f_mm t < 60 /\ 0 <= f_ss t < 60 /\ 0 <= f_ns t < 1000000000
  /\ (f_hh t * 3600 + f_mm t * 60 + f_ss t) * NS_SEC + f_ns t = f_rem t
  /\ t = f_days t * NS_DAY + f_rem t.
Proof. unfold f_hh, f_mm, f_ss, f_ns, f_mins, f_secs, f_rem, f_days, NS_SEC, NS_DAY. lia. Qed.

Lemma days_range t : 0 <= t < two63z -> 0 <= f_days t < NDAYS.
Proof. unfold f_days, two63z, NS_DAY, NDAYS. lia. Qed.

Ltac pow10 :=
  change (10 ^ Z.of_nat 2) with 100 in *; change (10 ^ Z.of_nat 4) with 10000 in *;
  change (10 ^ Z.of_nat 9) with 1000000000 in *; change (10 ^ Z.of_nat 8) with 100000000 in *.

Lemma format_ts_length t : length (format_ts t) = 25%nat.
Proof.
  destruct (civil_from_days (f_days t)) as [[y m] d] eqn:E. rewrite (format_ts_eq t y m d E).
  rewrite !app_length, !dec_length. reflexivity.
Qed.

Lemma format_ts_dash t : nth 15 (format_ts t) 0%N = 45%N.
Proof.
  destruct (civil_from_days (f_days t)) as [[y m] d] eqn:E. rewrite (format_ts_eq t y m d E).
  rewrite !app_assoc. rewrite <- (app_assoc _ [45%N] (dec 9 (f_ns t))). cbn [app].
  match goal with |- nth 15 (?a ++ _ :: _) _ = _ => replace 15%nat with (length a) end.
  - apply nth_middle.
  - rewrite !app_length, !dec_length. reflexivity.
Qed.

Lemma frac_split_dec ns : 0 <= ns < 1000000000 -> frac_split (dec 9 ns) = (false, false, 9%nat, dec 9 ns).
Proof.
  intros H.
  assert (Hd : forallb is_digit (dec 9 ns) = true) by (apply dec_digits; pow10; lia).
  destruct (dec 9 ns) as [|c r]; [reflexivity|].
  cbn [forallb] in Hd. apply andb_true_iff in Hd. destruct Hd as [Hc _].
  unfold frac_split, is_digit in *.
  replace ((c =? 43) || (c =? 45))%N with false by lia. reflexivity.
Qed.

(* Parse inverts Format on every instant 0 <= t < 2^63 *)
Lemma time_parse_format t : 0 <= t < two63z -> time_parse (format_ts t) = Some t.
Proof.
  intros Ht. pose proof (days_range t Ht) as Hd.
  destruct (civil_from_days (f_days t)) as [[y m] d] eqn:E.
  destruct (day_facts _ y m d Hd E) as (Hy & Hm & Hdd & Hdfc & _).
  destruct (clock_bounds t) as (Hhh & Hmm & Hss & Hns & Hrem & Hsplit).
  pose proof (days_in_le31 m y) as H31.
  rewrite (format_ts_eq t y m d E).
  unfold time_parse, time_parse_br.
  rewrite take_dec_dec by (pow10; lia). cbv iota beta.
  rewrite take_dec_dec by (pow10; lia). cbv iota beta.
  replace ((m <? 1) || (12 <? m)) with false by lia.
  rewrite take_dec_dec by (pow10; lia). cbv iota beta. cbn [app].
  change (negb (45 =? 45)%N) with false. cbv iota.
  rewrite take_dec_dec by (pow10; lia). cbv iota beta.
  replace (24 <=? f_hh t) with false by lia.
  rewrite take_dec_dec by (pow10; lia). cbv iota beta.
  replace (60 <=? f_mm t) with false by lia.
  rewrite take_dec_dec by (pow10; lia). cbv iota beta.
  replace (60 <=? f_ss t) with false by lia.
  rewrite frac_split_dec by lia.
  rewrite take_dec_dec_nil by (pow10; lia). cbv iota beta. cbn [andb].
  replace ((d <? 1) || (days_in m y <? d)) with false by lia.
  cbn [fst]. f_equal. rewrite Hdfc. unfold NS_SEC, NS_DAY in *. lia.
Qed.

(* every byte of a formatted in-range instant is a digit or '-' *)
Lemma format_ts_chars t : 0 <= t < two63z ->
  forallb (fun c => is_digit c || (c =? 45)%N) (format_ts t) = true.
Proof.
  intros Ht. pose proof (days_range t Ht) as Hd.
  destruct (civil_from_days (f_days t)) as [[y m] d] eqn:E.
  destruct (day_facts _ y m d Hd E) as (Hy & Hm & Hdd & _).
  destruct (clock_bounds t) as (Hhh & Hmm & Hss & Hns & _).
  pose proof (days_in_le31 m y) as H31.
  rewrite (format_ts_eq t y m d E).
  assert (D : forall k n, 0 <= n < 10 ^ Z.of_nat k ->
              forallb (fun c => is_digit c || (c =? 45)%N) (dec k n) = true).
  { intros k n Hn. pose proof (dec_digits k n Hn) as H. rewrite forallb_forall in *.
    intros c Hc. rewrite (H c Hc). reflexivity. }
  rewrite !forallb_app. rewrite !D by (pow10; lia). reflexivity.
Qed.

(* byte order of formatted instants (followed by anything) = order of the instants, then the rest *)
Lemma format_ts_cmp t1 t2 r1 r2 : 0 <= t1 < two63z -> 0 <= t2 < two63z ->
  bcmp (format_ts t1 ++ r1) (format_ts t2 ++ r2) = lexc (t1 ?= t2) (bcmp r1 r2).
Proof.
  intros Ht1 Ht2. pose proof (days_range t1 Ht1) as Hd1. pose proof (days_range t2 Ht2) as Hd2.
  destruct (civil_from_days (f_days t1)) as [[y1 m1] d1] eqn:E1.
  destruct (civil_from_days (f_days t2)) as [[y2 m2] d2] eqn:E2.
  destruct (day_facts _ y1 m1 d1 Hd1 E1) as (Hy1 & Hm1 & Hdd1 & _).
  destruct (day_facts _ y2 m2 d2 Hd2 E2) as (Hy2 & Hm2 & Hdd2 & _).
  pose proof (days_in_le31 m1 y1) as H311. pose proof (days_in_le31 m2 y2) as H312.
  destruct (clock_bounds t1) as (Hhh1 & Hmm1 & Hss1 & Hns1 & _).
  destruct (clock_bounds t2) as (Hhh2 & Hmm2 & Hss2 & Hns2 & _).
  rewrite (format_ts_eq t1 y1 m1 d1 E1), (format_ts_eq t2 y2 m2 d2 E2).
  rewrite <- !app_assoc.
  rewrite !bcmp_dec by (pow10; lia). cbn [app]. rewrite bcmp_cons_same.
  rewrite !bcmp_dec by (pow10; lia). cbn [app]. rewrite bcmp_cons_same.
  rewrite !bcmp_dec by (pow10; lia).
  (* the instants, field by field *)
  rewrite (cmp_divmod NS_DAY t1 t2) by (unfold NS_DAY; lia).
  fold (f_days t1) (f_days t2) (f_rem t1) (f_rem t2).
  rewrite (ymd_cmp _ _ Hd1 Hd2), E1, E2.
  rewrite ymdnum_cmp by lia.
  rewrite (cmp_divmod NS_SEC (f_rem t1) (f_rem t2)) by (unfold NS_SEC; lia).
  fold (f_secs t1) (f_secs t2) (f_ns t1) (f_ns t2).
  rewrite (cmp_divmod 60 (f_secs t1) (f_secs t2)) by lia.
  fold (f_mins t1) (f_mins t2) (f_ss t1) (f_ss t2).
  rewrite (cmp_divmod 60 (f_mins t1) (f_mins t2)) by lia.
  fold (f_hh t1) (f_hh t2) (f_mm t1) (f_mm t2).
  rewrite !lexc_assoc. reflexivity.
Qed.

Lemma lexc_lt_iff c1 c2 : c2 = Eq -> (lexc c1 c2 = Lt <-> c1 = Lt).
Proof. intros ->. rewrite lexc_eq_r. tauto. Qed.
