(* Names/CivilSweep.v — the one expensive computation of the Names development, kept in its own file:
   the complete check of [day_ok] on all 106,752 day numbers 0 .. 106751 (1970-01-01 .. 2262-04-11),
   i.e. on every day an instant 0 <= t < 2^63 ns can fall on; four power-of-two blocks
   (65536 + 32768 + 8192 + 256). Each is evaluated by the kernel's vm, once, at Qed. *)
From LS Require Import Base.Bytes Names.Civil.
Open Scope Z_scope.

Lemma sweep_block1 : sweep 16 0 = true.
Proof. vm_cast_no_check (eq_refl true). Qed.
Lemma sweep_block2 : sweep 15 65536 = true.
Proof. vm_cast_no_check (eq_refl true). Qed.
Lemma sweep_block3 : sweep 13 98304 = true.
Proof. vm_cast_no_check (eq_refl true). Qed.
Lemma sweep_block4 : sweep 8 106496 = true.
Proof. vm_cast_no_check (eq_refl true). Qed.
