(* Names/CivilSweep.v — the one expensive computation of the Names development, kept in its own file:
   the complete check of [day_ok] on all 106,752 day numbers 0 .. 106751 (1970-01-01 .. 2262-04-11),
   i.e. on every day an instant 0 <= t < 2^63 ns can fall on. Evaluated by the kernel's vm (once, at Qed). *)
From LS Require Import Base.Bytes Names.Civil.

Lemma sweep_all_true : sweep_all = true.
Proof. vm_cast_no_check (eq_refl true). Qed.
