(* Fleet/Replay.v — the executable replay used by the correspondence check (Corr/Run_fleet.v: frun) only ever
   produces states of the PROVEN transition system: every history the harness replays is a path of fstep, so
   the theorems of Fleet/Proofs.v speak about exactly the states the real fleets are compared with. *)
From LS Require Import Base.Bytes Base.Res Merge.Version Merge.Order Fleet.Model Fleet.Proofs Corr.Run_fleet.
Open Scope N_scope.

Lemma beqb_eq a b : beqb a b = true -> a = b.
Proof.
  revert b. induction a as [|x a IH]; intros [|y b] H; cbn in H; try discriminate; [reflexivity|].
  apply andb_true_iff in H. destruct H as [H1 H2]. apply N.eqb_eq in H1. subst. f_equal. apply IH, H2.
Qed.

Lemma ver_eqb_eq a b : ver_eqb a b = true -> a = b.
Proof.
  unfold ver_eqb. intros H. apply andb_true_iff in H. destruct H as [H H3]. apply andb_true_iff in H.
  destruct H as [H1 H2]. apply N.eqb_eq in H1. apply Bool.eqb_prop in H2. apply beqb_eq in H3.
  destruct a, b; cbn in *; subst; reflexivity.
Qed.

Lemma vle_b_ole a b : vle_b a b = true -> ole a (Some b).
Proof.
  destruct a as [x|]; cbn; [|auto]. intros H. apply orb_true_iff in H. destruct H as [H|H].
  - left. apply ver_eqb_eq, H.
  - right. exact H.
Qed.

Lemma fapply_step s o s' : fapply s o = Some s' -> fstep K K_eq_dec s s'.
Proof.
  destruct o as [i k v|i|i x|i]; cbn [fapply].
  - destruct (vle_b (st K s i k) v) eqn:E; [|discriminate]. intros H; inversion H; subst.
    apply f_write. apply vle_b_ole, E.
  - intros H; inversion H; subst. apply f_upload.
  - destruct (nth_error (snaps K s) x) as [sn|] eqn:E; [|discriminate]. intros H; inversion H; subst.
    apply f_merge. eapply nth_error_In, E.
  - intros H; inversion H; subst. apply f_reset. intros k. exact I.
Qed.

Theorem frun_reach s0 l : forall s s', freach K K_eq_dec s0 s -> frun s l = Some s' -> freach K K_eq_dec s0 s'.
Proof.
  induction l as [|o l IH]; intros s s' Hr H; cbn [frun] in H.
  - inversion H; subst. exact Hr.
  - destruct (fapply s o) as [s1|] eqn:E; [|discriminate].
    eapply IH; [|exact H]. eapply fr_step; [exact Hr|]. eapply fapply_step, E.
Qed.

(* every replayed history ends in a reachable state of the proven system *)
Corollary frun_init_reach l s : frun (finit K) l = Some s -> freach K K_eq_dec (finit K) s.
Proof. apply frun_reach. apply fr_init. Qed.
