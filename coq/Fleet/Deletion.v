(* Fleet/Deletion.v — C04 at fleet level: the convergence theorem instantiated for a deletion. If the newest
   thing ever written for a key, anywhere, is a deletion at time T (every other write of that key, on any
   instance, before or after, has a timestamp <= T), then in every reachable quiescent state of the fleet EVERY
   instance holds exactly that deletion marker: the deletion reached everybody and no older version, stored or
   arriving later in a stale snapshot, resurrected the key — with resets (lost LMDBs) on the way. *)
From LS Require Import Base.Bytes Merge.Version Merge.Order Fleet.Model Fleet.Proofs.
Open Scope N_scope.

Section D.
  Variable K : Type.
  Variable K_eq_dec : forall a b : K, {a = b} + {a <> b}.

  Theorem deletion_propagates n s k d :
    freach K K_eq_dec (finit K) s -> quiescent K n s ->
    del d = true -> val d = [] -> written_k K s k d ->
    (forall v, written_k K s k v -> ts v <= ts d) ->
    forall i, (i < n)%nat -> st K s i k = Some d.
  Proof.
    intros Hr Hq Hd Hv Hw Hmax i Hi.
    destruct (convergence K K_eq_dec n s Hr Hq i k Hi) as (Hge & Hfw & _).
    specialize (Hge d Hw). unfold from_written in Hfw.
    destruct (st K s i k) as [w|]; [|contradiction].
    cbn [ole] in Hge. destruct Hge as [E|W]; [rewrite E; reflexivity|].
    apply only_newer_beats_deletion in W; auto. specialize (Hmax w Hfw). lia.
  Qed.

  (* and the key comes back only through a strictly newer write: if some instance holds a live version at
     quiescence although a deletion at T was written, that version is a write with a timestamp above T *)
  Theorem live_after_deletion_is_newer n s k d w :
    freach K K_eq_dec (finit K) s -> quiescent K n s ->
    del d = true -> val d = [] -> written_k K s k d ->
    forall i, (i < n)%nat -> st K s i k = Some w -> w <> d ->
    written_k K s k w /\ ts d < ts w.
  Proof.
    intros Hr Hq Hd Hv Hw i Hi Hs Hne.
    destruct (convergence K K_eq_dec n s Hr Hq i k Hi) as (Hge & Hfw & _).
    specialize (Hge d Hw). rewrite Hs in Hge, Hfw. split; [exact Hfw|].
    cbn [ole] in Hge. destruct Hge as [E|W]; [congruence|].
    apply only_newer_beats_deletion in W; auto.
  Qed.
End D.
