(* Fleet/Proofs.v — convergence to the last-writer-wins winner. *)
From LS Require Import Base.Bytes Merge.Version Merge.Order Fleet.Model.
Open Scope N_scope.

Section P.
  Variable K : Type.
  Variable K_eq_dec : forall a b : K, {a = b} + {a <> b}.
  Notation sys := (sys K).
  Notation fstep := (fstep K K_eq_dec).
  Notation freach := (freach K K_eq_dec).
  Notation finit := (finit K).

  Lemma ole_refl a : ole a a.
  Proof. destruct a; cbn; [apply vle_refl|exact I]. Qed.
  Lemma ole_trans a b c : ole a b -> ole b c -> ole a c.
  Proof. destruct a, b, c; cbn; try tauto. apply vle_trans. Qed.
  Lemma ole_antisym a b : ole a b -> ole b a -> a = b.
  Proof. destruct a, b; cbn; try tauto. intros H1 H2. f_equal. apply vle_antisym; assumption. Qed.
  Lemma ole_join_l a b : ole a (ojoin2 a b).
  Proof. destruct a, b; cbn; try exact I; [apply vle_join_l|apply vle_refl]. Qed.
  Lemma ole_join_r a b : ole b (ojoin2 a b).
  Proof. destruct a, b; cbn; try exact I; [apply vle_join_r|apply vle_refl]. Qed.
  Lemma ojoin2_cases a b : ojoin2 a b = a \/ ojoin2 a b = b.
  Proof. destruct a, b; cbn; auto. unfold join. destruct (wins v0 v); auto. Qed.

  (* invariant: everything stored or uploaded was written by some application, and stores/snapshots only hold
     written versions *)
  Definition from_written (s : sys) (o : option ver) (k : K) : Prop :=
    match o with None => True | Some v => written_k K s k v end.

  Definition finv (s : sys) : Prop :=
    (forall i k, from_written s (st K s i k) k) /\
    (forall x k, In x (snaps K s) -> from_written s (snd x k) k).

  Lemma from_written_mono s s' o k :
    (forall e, In e (written K s) -> In e (written K s')) -> from_written s o k -> from_written s' o k.
  Proof. intros Hm. destruct o; cbn; [|auto]. intros (i & Hi). exists i. apply Hm, Hi. Qed.

  Lemma finv_init : finv finit.
  Proof. split; cbn; [intros; exact I|intros x k []]. Qed.

  Lemma finv_step s s' : finv s -> fstep s s' -> finv s'.
  Proof.
    intros [I1 I2] H. inversion H as [s0 i k v Hle|s0 i|s0 i x Hin|s0 i g Hg]; subst; split; cbn [st snaps written].
    - intros j k'. unfold upd_inst, upd. destruct (Nat.eq_dec i j) as [->|Hn].
      + destruct (K_eq_dec k k') as [->|Hk].
        * cbn. exists j. left; reflexivity.
        * eapply from_written_mono; [|apply I1]. intros e He; right; exact He.
      + eapply from_written_mono; [|apply I1]. intros e He; right; exact He.
    - intros x k' Hx. eapply from_written_mono; [|apply I2, Hx]. intros e He; right; exact He.
    - exact I1.
    - intros x k' Hx. apply in_app_or in Hx. destruct Hx as [Hx|[<-|[]]]; [apply I2, Hx|apply I1].
    - intros j k'. unfold upd_inst. destruct (Nat.eq_dec i j) as [->|Hn]; [|apply I1].
      destruct (ojoin2_cases (st K s j k') (snd x k')) as [-> | ->]; [apply I1|apply I2, Hin].
    - exact I2.
    - intros j k'. unfold upd_inst. destruct (Nat.eq_dec i j) as [->|Hn]; [|apply I1].
      unfold from_written. specialize (Hg k'). destruct (g k'); [exact Hg|exact I].
    - exact I2.
  Qed.

  Lemma finv_reach s : freach finit s -> finv s.
  Proof. induction 1; [apply finv_init|eapply finv_step; eauto]. Qed.

  (* THE CONVERGENCE THEOREM: in every reachable quiescent state all instances hold, per key, the same version,
     and it is the last-writer-wins maximum of all versions ever written anywhere — any number of instances,
     any order of writes, uploads and merges, merges of stale snapshots included *)
  Theorem convergence n s :
    freach finit s -> quiescent K n s ->
    forall i k, (i < n)%nat ->
      (forall v, written_k K s k v -> ole (Some v) (st K s i k)) /\        (* at least as new as every write *)
      from_written s (st K s i k) k /\                                      (* and itself one of the writes *)
      (forall j, (j < n)%nat -> st K s i k = st K s j k).                         (* hence identical everywhere *)
  Proof.
    intros Hr [Hw Hq].
    assert (Hmax : forall i k v, (i < n)%nat -> written_k K s k v -> ole (Some v) (st K s i k)).
    { intros i k v Hi (j & Hj). destruct (Hq i j Hi (Hw j k v Hj)) as (x & Hx & Hfx & Hcov & Hmerged).
      eapply ole_trans; [apply (Hcov k v Hj)|apply Hmerged]. }
    destruct (finv_reach s Hr) as [I1 _].
    intros i k Hi. split; [intros v; apply Hmax, Hi|]. split; [apply I1|].
    intros j Hj. apply ole_antisym.
    - specialize (I1 i k). destruct (st K s i k) as [u|]; [|exact I]. apply Hmax; [exact Hj|exact I1].
    - specialize (I1 j k). destruct (st K s j k) as [u|]; [|exact I]. apply Hmax; [exact Hi|exact I1].
  Qed.

  (* the winner is unique: two versions that are both maximal among the writes are equal (fixed, order-
     independent tie-break) *)
  Theorem winner_unique (P : ver -> Prop) a b :
    P a -> P b -> (forall v, P v -> vle v a) -> (forall v, P v -> vle v b) -> a = b.
  Proof. intros Ha Hb Ma Mb. apply vle_antisym; [apply Mb, Ha|apply Ma, Hb]. Qed.

  (* stores only grow: a key never moves backwards at any instance, except by the loss of that instance's LMDB
     itself (a reset of THAT instance; Lightning Stream's own steps and the resets of others never do it) *)
  Theorem stores_monotone s s' : fstep s s' ->
    forall i, (forall k, ole (st K s i k) (st K s' i k)) \/
              (exists g, s' = mkSys K (upd_inst K (st K s) i g) (snaps K s) (written K s)).
  Proof.
    intros H i. inversion H as [s0 j k0 v Hle|s0 j|s0 j x Hin|s0 j g Hg]; subst; cbn [st].
    - left. intros k. unfold upd_inst, upd. destruct (Nat.eq_dec j i) as [->|]; [|apply ole_refl].
      destruct (K_eq_dec k0 k) as [->|]; [exact Hle|apply ole_refl].
    - left. intros k. apply ole_refl.
    - left. intros k. unfold upd_inst. destruct (Nat.eq_dec j i) as [->|]; [apply ole_join_l|apply ole_refl].
    - destruct (Nat.eq_dec j i) as [->|Hn].
      + right. exists g. reflexivity.
      + left. intros k. unfold upd_inst. destruct (Nat.eq_dec j i); [contradiction|apply ole_refl].
  Qed.
End P.

(* ---- deletions (C04) ---- *)
Lemma only_newer_beats_deletion o n :
  del o = true -> val o = [] -> wins n o = true -> ts o < ts n.
Proof.
  unfold wins. intros Hd Hv. rewrite Hd, Hv.
  destruct (N.ltb_spec (ts o) (ts n)) as [H|H]; [intros _; exact H|].
  cbn [orb]. destruct (ts n =? ts o); cbn [andb]; [|discriminate].
  destruct (val n) as [|x l]; cbn; [|discriminate]. rewrite andb_false_r. discriminate.
Qed.

(* once a deletion at time T is stored, merging any versions with timestamps <= T, in any number and order,
   leaves exactly that deletion: the key stays absent from the application's view *)
Theorem stays_deleted o l :
  del o = true -> val o = [] -> Forall (fun n => ts n <= ts o) l -> joinl o l = o.
Proof.
  intros Hd Hv Hl. induction Hl as [|n l Hn _ IH]; [reflexivity|].
  unfold joinl in *. cbn [fold_left]. unfold join at 2.
  destruct (wins n o) eqn:W; [|exact IH].
  apply only_newer_beats_deletion in W; auto. lia.
Qed.
