(* Fleet/CrashReplay.v — the executable guard replay of the correspondence check (Corr/Run_crash.v: gstep/grun,
   content-free: snapshots are (instance, sequence number)) is a SIMULATION of the proven bucket model
   (Fleet/Crash.v: cstep, with content): every event log the replay accepts is a path of cstep from the initial
   state, so the invariant and the theorems of Fleet/CrashProofs.v hold of exactly the histories the real
   Syncers are compared on.  Content is whatever the path carries (the replay never looks at it). *)
From Coq Require Import Arith List Lia Bool.
Import ListNotations.
From LS Require Import Base.Bytes Merge.Version Merge.Order Fleet.Model Fleet.Crash Fleet.CrashProofs Corr.Run_crash.
Open Scope nat_scope.

Section Sim.
  Variable K : Type.
  Variable K_eq_dec : forall a b : K, {a = b} + {a <> b}.
  Notation csys := (csys K).
  Notation snap := (snap K).
  Notation cstep := (cstep K K_eq_dec).

  Definition pr (x : snap) : nat * nat := (sn_inst K x, sn_seq K x).

  (* ---- association lists ---- *)
  Lemma alookup_aset {A} (l : list (nat * A)) k v j :
    alookup (aset l k v) j = if Nat.eqb k j then Some v else alookup l j.
  Proof.
    induction l as [|[k0 v0] l IH]; cbn.
    - destruct (Nat.eqb k j); reflexivity.
    - destruct (Nat.eqb k0 k) eqn:E; cbn.
      + apply Nat.eqb_eq in E. subst k0. destruct (Nat.eqb k j); reflexivity.
      + destruct (Nat.eqb k0 j) eqn:E2.
        * apply Nat.eqb_eq in E2. subst k0. rewrite Nat.eqb_sym in E. rewrite E. reflexivity.
        * exact IH.
  Qed.

  Lemma alookup_not_in {A} (l : list (nat * A)) j : ~ In j (map fst l) -> alookup l j = None.
  Proof.
    induction l as [|[k0 v0] l IH]; cbn; [reflexivity|]. intros H.
    destruct (Nat.eqb k0 j) eqn:E; [apply Nat.eqb_eq in E; subst; exfalso; apply H; left; reflexivity|].
    apply IH. intros H2. apply H. right. exact H2.
  Qed.

  Lemma alookup_adel {A} (l : list (nat * A)) k j : NoDup (map fst l) ->
    alookup (adel l k) j = if Nat.eqb k j then None else alookup l j.
  Proof.
    induction l as [|[k0 v0] l IH]; cbn; intros ND.
    - destruct (Nat.eqb k j); reflexivity.
    - inversion ND as [|? ? Hn ND']; subst.
      destruct (Nat.eqb k0 k) eqn:E.
      + apply Nat.eqb_eq in E. subst k0. destruct (Nat.eqb k j) eqn:E2; [|reflexivity].
        apply Nat.eqb_eq in E2. subst j. apply alookup_not_in, Hn.
      + cbn. destruct (Nat.eqb k0 j) eqn:E2.
        * apply Nat.eqb_eq in E2. subst k0. rewrite Nat.eqb_sym in E. rewrite E. reflexivity.
        * apply IH, ND'.
  Qed.

  Lemma aset_keys {A} (l : list (nat * A)) k v x : In x (map fst (aset l k v)) -> x = k \/ In x (map fst l).
  Proof.
    induction l as [|[k0 v0] l IH]; cbn.
    - intros [<-|[]]; auto.
    - destruct (Nat.eqb k0 k) eqn:E; cbn.
      + apply Nat.eqb_eq in E. subst. intros [<-|H]; auto.
      + intros [<-|H]; auto. destruct (IH H); auto.
  Qed.
  Lemma aset_nodup {A} (l : list (nat * A)) k v : NoDup (map fst l) -> NoDup (map fst (aset l k v)).
  Proof.
    induction l as [|[k0 v0] l IH]; cbn; intros ND.
    - constructor; [intros []|constructor].
    - inversion ND as [|? ? Hn ND']; subst. destruct (Nat.eqb k0 k) eqn:E; cbn.
      + apply Nat.eqb_eq in E. subst. constructor; assumption.
      + constructor; [|apply IH, ND']. intros H. destruct (aset_keys _ _ _ _ H) as [->|H2]; [|contradiction].
        rewrite Nat.eqb_refl in E. discriminate.
  Qed.
  Lemma adel_keys {A} (l : list (nat * A)) k x : In x (map fst (adel l k)) -> In x (map fst l).
  Proof.
    induction l as [|[k0 v0] l IH]; cbn; [auto|]. destruct (Nat.eqb k0 k); cbn; [auto|]. intros [<-|H]; auto.
  Qed.
  Lemma adel_nodup {A} (l : list (nat * A)) k : NoDup (map fst l) -> NoDup (map fst (adel l k)).
  Proof.
    induction l as [|[k0 v0] l IH]; cbn; intros ND; [constructor|].
    inversion ND as [|? ? Hn ND']; subst. destruct (Nat.eqb k0 k); cbn; [exact ND'|].
    constructor; [|apply IH, ND']. intros H. apply Hn. eapply adel_keys, H.
  Qed.

  (* ---- newest_of ---- *)
  Definition nstep (i : nat) (acc : option nat) (p : nat * nat) : option nat :=
    if Nat.eqb (fst p) i then match acc with None => Some (snd p) | Some m => Some (Nat.max m (snd p)) end else acc.

  Lemma newest_of_eq b i : newest_of b i = fold_left (nstep i) b None.
  Proof. reflexivity. Qed.

  Lemma fold_nstep_spec b i : forall acc,
    match fold_left (nstep i) b acc with
    | None => acc = None /\ forall p, In p b -> fst p <> i
    | Some m =>
        (acc = Some m \/ In (i, m) b) /\
        (forall a, acc = Some a -> a <= m) /\
        (forall p, In p b -> fst p = i -> snd p <= m)
    end.
  Proof.
    induction b as [|[j q] b IH]; intros acc; cbn [fold_left].
    - destruct acc as [a|]; [|split; [reflexivity|intros p []]].
      split; [left; reflexivity|]. split; [intros a' E; inversion E; lia|intros p []].
    - specialize (IH (nstep i acc (j, q))).
      assert (NS : nstep i acc (j, q) =
                   if Nat.eqb j i then match acc with None => Some q | Some a => Some (Nat.max a q) end else acc)
        by reflexivity.
      destruct (fold_left (nstep i) b (nstep i acc (j, q))) as [m|].
      + destruct IH as (I1 & I2 & I3). rewrite NS in I1, I2.
        destruct (Nat.eqb j i) eqn:E.
        * apply Nat.eqb_eq in E. subst j.
          assert (Hq : q <= m).
          { destruct acc as [a|]; [specialize (I2 (Nat.max a q) eq_refl)|specialize (I2 q eq_refl)]; lia. }
          split; [|split].
          -- destruct I1 as [I1|I1]; [|right; right; exact I1].
             destruct acc as [a|]; inversion I1 as [Hm].
             ++ destruct (Nat.max_spec a q) as [[_ Hx]|[_ Hx]]; rewrite Hx.
                ** right. left. reflexivity.
                ** left. reflexivity.
             ++ right. left. reflexivity.
          -- intros a Ea. subst acc. specialize (I2 (Nat.max a q) eq_refl). lia.
          -- intros p [<-|Hp] Hi; [exact Hq|apply I3; assumption].
        * split; [|split].
          -- destruct I1 as [I1|I1]; [left; exact I1|right; right; exact I1].
          -- exact I2.
          -- intros p [<-|Hp] Hi; [cbn in Hi; subst; rewrite Nat.eqb_refl in E; discriminate|apply I3; assumption].
      + destruct IH as (I1 & I2). rewrite NS in I1.
        destruct (Nat.eqb j i) eqn:E.
        * destruct acc; discriminate.
        * split; [exact I1|]. intros p [<-|Hp]; [cbn; intros ->; rewrite Nat.eqb_refl in E; discriminate|apply I2, Hp].
  Qed.

  Lemma newest_of_some b i m : newest_of b i = Some m ->
    In (i, m) b /\ forall p, In p b -> fst p = i -> snd p <= m.
  Proof.
    intros H. generalize (fold_nstep_spec b i None). rewrite <- newest_of_eq, H.
    intros ([E|I] & _ & I3); [discriminate|]. split; assumption.
  Qed.
  Lemma newest_of_none b i : newest_of b i = None -> forall p, In p b -> fst p <> i.
  Proof.
    intros H. generalize (fold_nstep_spec b i None). rewrite <- newest_of_eq, H. intros [_ I]. exact I.
  Qed.

  Lemma inst_of_some ev q j : inst_of ev q = Some j -> In (j, q) ev.
  Proof.
    unfold inst_of. destruct (find (fun p => Nat.eqb (snd p) q) ev) as [[a b]|] eqn:F; [|discriminate].
    intros E. inversion E; subst. apply find_some in F. destruct F as [Hin Hq]. cbn in Hq.
    apply Nat.eqb_eq in Hq. subst. exact Hin.
  Qed.

  Lemma in_map_pr (l : list snap) j q : In (j, q) (map pr l) -> exists x, In x l /\ sn_inst K x = j /\ sn_seq K x = q.
  Proof.
    intros H. apply in_map_iff in H. destruct H as (x & E & Hx). unfold pr in E. inversion E; subst. eauto.
  Qed.

  (* ---- the simulation relation ---- *)
  Definition proc_rel (gp : gproc) (p : proc K) : Prop :=
    g_waiting gp = p_waiting_self K p /\
    g_listed gp = option_map (sn_seq K) (p_listed_own K p) /\
    (forall j, alookup (g_last_by gp) j = p_last_by K p j) /\
    (forall j, alookup (g_committed gp) j = p_committed K p j).

  Definition R (g : gst) (s : csys) : Prop :=
    (forall i, match alookup (g_procs g) i, procs K s i with
               | None, None => True
               | Some gp, Some p => proc_rel gp p
               | _, _ => False
               end) /\
    map pr (bucket K s) = g_bucket g /\
    map pr (ever K s) = g_ever g /\
    next_seq K s = g_next g.

  (* what the replay state keeps by itself *)
  Definition ginv (g : gst) : Prop :=
    NoDup (map fst (g_procs g)) /\
    NoDup (map snd (g_ever g)) /\
    (forall p, In p (g_ever g) -> snd p < g_next g) /\
    incl (g_bucket g) (g_ever g).

  Lemma ginv_step g e g' : ginv g -> gstep g e = Some g' -> ginv g'.
  Proof.
    intros (I1 & I2 & I3 & I4) H. destruct e as [i|i|i q|i|c q]; cbn [gstep] in H.
    - destruct (alookup (g_procs g) i); [discriminate|]. inversion H; subst. repeat split; cbn; auto.
      apply aset_nodup, I1.
    - inversion H; subst. repeat split; cbn; auto. apply adel_nodup, I1.
    - destruct (alookup (g_procs g) i) as [p|]; [|discriminate].
      destruct (inst_of (g_ever g) q) as [j|]; [|discriminate]. inversion H; subst. repeat split; cbn; auto.
      apply aset_nodup, I1.
    - destruct (alookup (g_procs g) i) as [p|]; [|discriminate].
      destruct (g_waiting p && match newest_of (g_bucket g) i with Some _ => true | None => false end); [discriminate|].
      inversion H; subst. repeat split; cbn.
      + apply aset_nodup, I1.
      + constructor; [|exact I2]. intros Hin. apply in_map_iff in Hin. destruct Hin as (p0 & E & Hp0).
        apply I3 in Hp0. lia.
      + intros p0 [<-|Hp0]; cbn; [lia|]. apply I3 in Hp0. lia.
      + intros p0 [<-|Hp0]; [left; reflexivity|right; apply I4, Hp0].
    - destruct (alookup (g_procs g) c) as [p|]; [|discriminate].
      destruct (inst_of (g_bucket g) q) as [j|]; [|discriminate].
      match type of H with (if ?b then _ else _) = _ => destruct b end; [|discriminate].
      inversion H; subst. repeat split; cbn; auto.
      intros p0 Hp0. apply filter_In in Hp0. apply I4, Hp0.
  Qed.

  (* snapshots of a model state related to a replay state are identified by their sequence number *)
  Lemma seq_identifies g s : ginv g -> R g s ->
    forall x y, In x (ever K s) -> In y (ever K s) -> sn_seq K x = sn_seq K y -> x = y.
  Proof.
    intros (_ & I2 & _ & _) (_ & _ & RE & _). rewrite <- RE in I2. rewrite map_map in I2. cbn in I2.
    intros x y Hx Hy E.
    assert (G : forall (l : list snap), NoDup (map (fun z => sn_seq K z) l) ->
                 In x l -> In y l -> sn_seq K x = sn_seq K y -> x = y).
    { clear. induction l as [|z l IH]; cbn; intros ND Hx Hy E; [contradiction|].
      inversion ND as [|? ? Hn ND']; subst.
      destruct Hx as [<-|Hx], Hy as [<-|Hy]; auto.
      - exfalso. apply Hn. rewrite E. apply in_map_iff. eauto.
      - exfalso. apply Hn. rewrite <- E. apply in_map_iff. eauto. }
    apply (G (ever K s)); assumption.
  Qed.

  (* reflexive-transitive closure of cstep *)
  Inductive csteps : csys -> csys -> Prop :=
  | cs_refl s : csteps s s
  | cs_step s s' s'' : csteps s s' -> cstep s' s'' -> csteps s s''.

  Lemma csteps_trans a b c : csteps a b -> csteps b c -> csteps a c.
  Proof. intros H1 H2. induction H2 as [|x y z H2 IH H3]; [exact H1|]. eapply cs_step; [apply IH, H1|exact H3]. Qed.

  Lemma creach_csteps s s' : creach K K_eq_dec s -> csteps s s' -> creach K K_eq_dec s'.
  Proof. intros Hr H. induction H; [exact Hr|]. eapply cr_step; [apply IHcsteps, Hr|eassumption]. Qed.

  Lemma set_proc_eq f i p : set_proc K f i p i = p.
  Proof. unfold set_proc. destruct (Nat.eq_dec i i); [reflexivity|contradiction]. Qed.
  Lemma set_proc_neq f i p j : i <> j -> set_proc K f i p j = f j.
  Proof. unfold set_proc. destruct (Nat.eq_dec i j); [contradiction|reflexivity]. Qed.

  (* every accepted event is one or two steps of the proven model *)
  Lemma gstep_sim g e g' s :
    ginv g -> R g s -> incl (bucket K s) (ever K s) -> gstep g e = Some g' ->
    exists s', csteps s s' /\ R g' s' /\ incl (bucket K s') (ever K s').
  Proof.
    intros GI RR BE H. pose proof RR as (RP & RB & RE & RN).
    destruct e as [i|i|i q|i|c q]; cbn [gstep] in H.
    - (* start *)
      destruct (alookup (g_procs g) i) as [gp|] eqn:Lg; [discriminate|]. inversion H; subst g'. clear H.
      pose proof (RP i) as Pi. rewrite Lg in Pi. destruct (procs K s i) as [p|] eqn:Ls; [contradiction|].
      destruct (newest_of (g_bucket g) i) as [m|] eqn:N.
      + apply newest_of_some in N. destruct N as [Nin Nmax]. rewrite <- RB in Nin.
        apply in_map_pr in Nin. destruct Nin as (x & Hx & Hxi & Hxq).
        eexists. split; [eapply cs_step; [apply cs_refl|apply (c_start K K_eq_dec s i (Some x)); [exact Ls|]]|].
        * split; [|exact Hxi]. split; [exact Hx|]. intros z Hz Hzi. rewrite Hxq.
          apply (Nmax (pr z)); [rewrite <- RB; apply in_map, Hz|cbn; congruence].
        * split; [|exact BE]. split; [|cbn; auto]. intros j. cbn [g_procs procs]. rewrite alookup_aset.
          destruct (Nat.eqb i j) eqn:E.
          -- apply Nat.eqb_eq in E. subst j. rewrite set_proc_eq. repeat split; cbn; congruence.
          -- apply Nat.eqb_neq in E. rewrite set_proc_neq by exact E. apply RP.
      + pose proof (newest_of_none _ _ N) as Nn.
        eexists. split; [eapply cs_step; [apply cs_refl|apply (c_start K K_eq_dec s i None); [exact Ls|]]|].
        * intros (z & Hz & Hzi). apply (Nn (pr z)); [rewrite <- RB; apply in_map, Hz|exact Hzi].
        * split; [|exact BE]. split; [|cbn; auto]. intros j. cbn [g_procs procs]. rewrite alookup_aset.
          destruct (Nat.eqb i j) eqn:E.
          -- apply Nat.eqb_eq in E. subst j. rewrite set_proc_eq. repeat split; cbn; reflexivity.
          -- apply Nat.eqb_neq in E. rewrite set_proc_neq by exact E. apply RP.
    - (* stop *)
      inversion H; subst g'. clear H.
      eexists. split; [eapply cs_step; [apply cs_refl|apply (c_stop K K_eq_dec s i)]|].
      split; [|exact BE]. split; [|cbn; auto]. intros j. cbn [g_procs procs].
      rewrite alookup_adel by apply GI. destruct (Nat.eqb i j) eqn:E.
      + apply Nat.eqb_eq in E. subst j. rewrite set_proc_eq. exact I.
      + apply Nat.eqb_neq in E. rewrite set_proc_neq by exact E. apply RP.
    - (* merge *)
      destruct (alookup (g_procs g) i) as [gp|] eqn:Lg; [|discriminate].
      destruct (inst_of (g_ever g) q) as [j|] eqn:IO; [|discriminate]. inversion H; subst g'. clear H.
      pose proof (RP i) as Pi. rewrite Lg in Pi. destruct (procs K s i) as [p|] eqn:Ls; [|contradiction].
      destruct Pi as (P1 & P2 & P3 & P4).
      apply inst_of_some in IO. rewrite <- RE in IO. apply in_map_pr in IO. destruct IO as (x & Hx & Hxj & Hxq).
      eexists. split; [eapply cs_step; [apply cs_refl|apply (c_merge K K_eq_dec s i p x Ls Hx)]|].
      split; [|exact BE]. split; [|cbn; auto]. intros j'. cbn [g_procs procs]. rewrite alookup_aset.
      destruct (Nat.eqb i j') eqn:E.
      + apply Nat.eqb_eq in E. subst j'. rewrite set_proc_eq. split; [|split; [exact P2|split]]; cbn.
        * rewrite P2. destruct (p_listed_own K p) as [lx|]; cbn; [|exact P1].
          destruct (Nat.eq_dec (sn_seq K lx) (sn_seq K x)) as [Eq|Nq].
          -- rewrite Eq, Hxq, Nat.eqb_refl. reflexivity.
          -- rewrite <- Hxq. apply Nat.eqb_neq in Nq. rewrite Nq. exact P1.
        * intros j2. rewrite alookup_aset. unfold set_opt. rewrite Hxj, Hxq.
          destruct (Nat.eq_dec j j2) as [->|Nj]; [rewrite Nat.eqb_refl; reflexivity|].
          apply Nat.eqb_neq in Nj. rewrite Nj. apply P3.
        * exact P4.
      + apply Nat.eqb_neq in E. rewrite set_proc_neq by exact E. apply RP.
    - (* upload *)
      destruct (alookup (g_procs g) i) as [gp|] eqn:Lg; [|discriminate].
      destruct (g_waiting gp && match newest_of (g_bucket g) i with Some _ => true | None => false end) eqn:W; [discriminate|].
      inversion H; subst g'. clear H.
      pose proof (RP i) as Pi. rewrite Lg in Pi. destruct (procs K s i) as [p|] eqn:Ls; [|contradiction].
      destruct Pi as (P1 & P2 & P3 & P4).
      (* the state from which the upload step is taken: after c_disappeared if the process was still waiting *)
      assert (Hpre : exists s1 p1, csteps s s1 /\ procs K s1 i = Some p1 /\ p_waiting_self K p1 = false /\
                       p_listed_own K p1 = p_listed_own K p /\ p_last_by K p1 = p_last_by K p /\
                       (forall j, j <> i -> procs K s1 j = procs K s j) /\
                       cst K s1 = cst K s /\ bucket K s1 = bucket K s /\ ever K s1 = ever K s /\ next_seq K s1 = next_seq K s).
      { destruct (g_waiting gp) eqn:Wg; cbn in W.
        - destruct (newest_of (g_bucket g) i) eqn:N; [discriminate|].
          pose proof (newest_of_none _ _ N) as Nn.
          eexists. exists (mkProc K false (p_listed_own K p) (p_last_by K p) (p_committed K p)).
          split; [eapply cs_step; [apply cs_refl|apply (c_disappeared K K_eq_dec s i p Ls)]|].
          + intros (z & Hz & Hzi). apply (Nn (pr z)); [rewrite <- RB; apply in_map, Hz|exact Hzi].
          + cbn. rewrite set_proc_eq. repeat split; auto; try (intros j Hj; apply set_proc_neq; auto).
        - exists s, p. split; [apply cs_refl|]. repeat split; auto; try congruence. }
      destruct Hpre as (s1 & p1 & S1 & L1 & W1 & Q1 & Q2 & Q3 & Q4 & Q5 & Q6 & Q7).
      eexists. split; [eapply cs_step; [exact S1|apply (c_upload K K_eq_dec s1 i p1 L1 W1)]|].
      split.
      + split; [|cbn; rewrite Q5, Q6, Q7, RB, RE, RN; unfold pr; cbn; auto].
        intros j. cbn [g_procs procs]. rewrite alookup_aset. destruct (Nat.eqb i j) eqn:E.
        * apply Nat.eqb_eq in E. subst j. rewrite set_proc_eq. split; [reflexivity|]. cbn.
          rewrite Q1, Q2. split; [exact P2|]. split; exact P3.
        * apply Nat.eqb_neq in E. rewrite set_proc_neq by exact E. rewrite Q3 by auto. apply RP.
      + cbn. rewrite Q5, Q6. intros z [<-|Hz]; [left; reflexivity|right; apply BE, Hz].
    - (* delete *)
      destruct (alookup (g_procs g) c) as [gp|] eqn:Lg; [|discriminate].
      destruct (inst_of (g_bucket g) q) as [j|] eqn:IO; [|discriminate].
      pose proof (RP c) as Pc. rewrite Lg in Pc. destruct (procs K s c) as [p|] eqn:Ls; [|contradiction].
      destruct Pc as (P1 & P2 & P3 & P4).
      apply inst_of_some in IO. rewrite <- RB in IO. apply in_map_pr in IO. destruct IO as (x & Hx & Hxj & Hxq).
      set (b' := filter (fun z => negb (Nat.eqb (sn_seq K z) q)) (bucket K s)).
      assert (RM : remove_snap K (bucket K s) x b').
      { intros z. unfold b'. rewrite filter_In. split.
        - intros [Hz Hq]. split; [exact Hz|]. intros ->. rewrite Hxq, Nat.eqb_refl in Hq. discriminate.
        - intros [Hz Hne]. split; [exact Hz|]. apply negb_true_iff, Nat.eqb_neq. intros Eq. apply Hne.
          eapply (seq_identifies g s GI RR); [apply BE, Hz|apply BE, Hx|congruence]. }
      assert (MB : map pr b' = filter (fun p0 => negb (Nat.eqb (snd p0) q)) (g_bucket g)).
      { rewrite <- RB. unfold b'. clear. induction (bucket K s) as [|z l IH]; cbn; [reflexivity|].
        destruct (negb (Nat.eqb (sn_seq K z) q)); cbn; rewrite IH; reflexivity. }
      assert (BE' : incl b' (ever K s)).
      { intros z Hz. unfold b' in Hz. apply filter_In in Hz. apply BE, Hz. }
      destruct (newest_of (g_bucket g) j) as [m|] eqn:N.
      2:{ cbn in H. discriminate. }
      apply newest_of_some in N. destruct N as [Nin Nmax]. rewrite <- RB in Nin.
      apply in_map_pr in Nin. destruct Nin as (y & Hy & Hyj & Hym).
      destruct (Nat.ltb q m) eqn:LT.
      + (* superseded *)
        cbn in H. inversion H; subst g'. clear H. apply Nat.ltb_lt in LT.
        eexists. split; [eapply cs_step; [apply cs_refl|
          apply (c_clean_superseded K K_eq_dec s c p x y b' Ls Hx Hy); [congruence|lia|exact RM]]|].
        split; [|exact BE']. split; [exact RP|]. cbn. auto.
      + cbn [orb] in H. destruct (alookup (g_committed gp) j) as [cq|] eqn:CQ; [|discriminate].
        destruct (Nat.eqb m q && Nat.leb q cq) eqn:ST; [|discriminate].
        inversion H; subst g'. clear H. apply andb_true_iff in ST. destruct ST as [E1 E2].
        apply Nat.eqb_eq in E1. apply Nat.leb_le in E2. subst m.
        eexists. split; [eapply cs_step; [apply cs_refl|
          apply (c_clean_stale K K_eq_dec s c p x cq b' Ls); [|rewrite Hxj, <- P4; exact CQ|lia|exact RM]]|].
        * split; [exact Hx|]. intros z Hz Hzi. rewrite Hxq, <- E1.
          apply (Nmax (pr z)); [rewrite <- RB; apply in_map, Hz|cbn; congruence].
        * split; [|exact BE']. split; [exact RP|]. cbn. auto.
  Qed.

  Definition g0 : gst := mkG [] [] 0 [].

  Lemma ginv0 : ginv g0.
  Proof. repeat split; cbn; try constructor; intros p []. Qed.
  Lemma R0 : R g0 (cinit K).
  Proof. split; [intros i; cbn; exact I|cbn; auto]. Qed.

  Fixpoint gfinal (g : gst) (l : list cev) : option gst :=
    match l with [] => Some g | e :: l' => match gstep g e with Some g' => gfinal g' l' | None => None end end.

  Lemma grun_gfinal l : forall g i, grun g l i = None -> exists g', gfinal g l = Some g'.
  Proof.
    induction l as [|e l IH]; intros g i H; cbn in *; [eauto|].
    destruct (gstep g e) as [g1|]; [eapply IH, H|discriminate].
  Qed.

  Lemma gfinal_sim l : forall g s g',
    ginv g -> R g s -> incl (bucket K s) (ever K s) -> gfinal g l = Some g' ->
    exists s', csteps s s' /\ R g' s' /\ ginv g'.
  Proof.
    induction l as [|e l IH]; intros g s g' GI RR BE H; cbn in H.
    - inversion H; subst. exists s. split; [apply cs_refl|split; assumption].
    - destruct (gstep g e) as [g1|] eqn:E; [|discriminate].
      destruct (gstep_sim g e g1 s GI RR BE E) as (s1 & S1 & R1 & B1).
      destruct (IH g1 s1 g' (ginv_step g e g1 GI E) R1 B1 H) as (s2 & S2 & R2 & G2).
      exists s2. split; [|split; assumption]. eapply csteps_trans; eassumption.
  Qed.

  (* THE TIE: every event log the replay accepts is a path of the proven model from its initial state, ending in a
     model state whose processes, bucket and upload history are those the replay computed *)
  Theorem accepted_log_is_model_path l :
    ccheck (mkCC l) = true ->
    exists g s, gfinal g0 l = Some g /\ creach K K_eq_dec s /\ R g s.
  Proof.
    unfold ccheck. cbn [cc_events]. destruct (grun (mkG [] [] 0 []) l 0%N) eqn:G; [discriminate|]. intros _.
    destruct (grun_gfinal l _ _ G) as (g & Hg).
    destruct (gfinal_sim l g0 (cinit K) g ginv0 R0 (fun z Hz => match Hz with end) Hg) as (s & S & RR & _).
    exists g, s. split; [exact Hg|]. split; [|exact RR]. eapply creach_csteps; [apply cr_init|exact S].
  Qed.
End Sim.
