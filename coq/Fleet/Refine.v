(* Fleet/Refine.v — the byte-level merge of one snapshot DBI into one LMDB DBI (strategy.Update with the
   NativeIterator, as LoadOnce runs it) computes, key by key, the logical join used by Fleet/Model.v; and a
   dumped entry denotes exactly the stored version. *)
From LS Require Import Base.Bytes Base.BytesProofs Base.Res Header.Model Header.Proofs Merge.Model Merge.Version
  Merge.Order Merge.Proofs Merge.Fold Strategy.Model Strategy.Order Strategy.Proofs Shadow.Model.
From Coq Require Import ZifyN ZifyNat ZifyBool.
Open Scope N_scope.

Section R.
  Variable cmp : bytes -> bytes -> comparison.
  Variable dom : bytes -> Prop.
  Hypothesis ORD : ord_ok cmp dom.

  Definition entries_for (l : list kv) (k : bytes) : list kv :=
    filter (fun e => is_eq (cmp (k_key e) k)) l.

  Lemma decide_is_fold c l k cur :
    decide cmp kv k_key (fun e old => native_merge c old e) l k cur = merge_fold c cur (entries_for l k).
  Proof.
    revert cur. induction l as [|e l IH]; intros cur; [reflexivity|].
    cbn [decide entries_for filter]. destruct (is_eq (cmp (k_key e) k)).
    - cbn [merge_fold]. destruct (native_merge c cur e); try reflexivity. apply IH.
    - apply IH.
  Qed.

  Lemma Forall_filter {A} (P : A -> Prop) f l : Forall P l -> Forall P (filter f l).
  Proof. induction 1; cbn; [constructor|]. destruct (f x); [constructor|]; auto. Qed.

  (* what LoadOnce leaves in a DBI for key k after merging a snapshot DBI (sweeper disabled: cutoff 0) *)
  Theorem load_dbi_refines c d l r :
    snap_cfg c -> c_cutoff c = 0 ->
    sorted cmp dom (keys d) -> Forall dom (ekeys kv k_key l) -> Forall kv_ok l ->
    update cmp kv k_key (fun e old => native_merge c old e) d l = Ok r ->
    sorted cmp dom (keys r) /\
    forall k, dom k ->
      match entries_for l k with
      | [] => dget cmp r k = dget cmp d k                                  (* untouched keys keep their bytes *)
      | e :: es =>
          match dget cmp d k with
          | [] => ver_of (dget cmp r k) = Some (joinl (norm c e) (map (norm c) es))
          | old => exists o, ver_of old = Some o /\
                             ver_of (dget cmp r k) = Some (joinl o (map (norm c) (e :: es)))
          end
      end.
  Proof.
    intros Hc Hcut Hs Hl Hok H.
    destruct (update_spec cmp dom ORD kv k_key _ (fun _ => Ok []) l d r Hs Hl H) as [Hsr Hdec].
    split; [exact Hsr|]. intros k Hk. specialize (Hdec k Hk). rewrite decide_is_fold in Hdec.
    assert (Hokk : Forall kv_ok (entries_for l k)) by (apply Forall_filter; exact Hok).
    destruct (entries_for l k) as [|e es] eqn:Ee.
    - cbn in Hdec. injection Hdec as <-. reflexivity.
    - inversion Hokk as [|? ? He Hes]; subst.
      destruct (dget cmp d k) as [|x old'] eqn:Eo.
      + destruct (fold_absent_nocutoff c e es Hc Hcut He Hes) as (v & Hv & Hver).
        rewrite Hv in Hdec. injection Hdec as <-. exact Hver.
      + destruct (ver_of (x :: old')) as [o|] eqn:Ev.
        * exists o. split; [reflexivity|].
          destruct (fold_present c (x :: old') o (e :: es) Hc Hokk Ev) as (v & Hv & Hver).
          rewrite Hv in Hdec. injection Hdec as <-. exact Hver.
        * (* an unparsable stored value makes the merge fail: the run cannot have been Ok *)
          exfalso. cbn [merge_fold] in Hdec. unfold ver_of in Ev.
          destruct (parse (x :: old')) as [[h app]|x0| |] eqn:Ep; try discriminate.
          -- rewrite (merge_bad_old c (x :: old') e x0) in Hdec by (auto; discriminate). discriminate.
          -- unfold native_merge in Hdec. rewrite Ep in Hdec. discriminate.
          -- unfold native_merge in Hdec. rewrite Ep in Hdec. discriminate.
  Qed.
End R.

(* a dumped entry (current format) denotes exactly the stored version, for stored values as LS and conforming
   applications write them (a deleted entry carries no value) *)
Theorem dump_entry_denotes c v h app :
  c_fmt c = 3 -> c_default_ts c = 0 ->
  parse v = Ok (h, app) -> (is_deleted (h_flags h) = true -> app = []) ->
  norm c (mkKV [] app (h_ts h) (masked (h_flags h))) = mkVer (h_ts h) (is_deleted (h_flags h)) app.
Proof.
  intros Hf Hd Hp Hwf. unfold norm, new_deleted, masked_flags. cbn [k_ts k_flags k_val].
  rewrite Hf, Hd. change (3 <? 2) with false. rewrite andb_false_r, orb_false_r.
  assert (Em : is_deleted (masked (h_flags h) mod 2) = is_deleted (h_flags h)).
  { unfold is_deleted, masked. rewrite N.mod_mod by lia. rewrite <- !N.bit0_odd.
    change 2 with (2 ^ 1). rewrite N.mod_pow2_bits_low by lia. reflexivity. }
  rewrite Em.
  destruct (h_ts h =? 0) eqn:Et.
  - apply N.eqb_eq in Et. rewrite Et. destruct (is_deleted (h_flags h)) eqn:Edel; [rewrite (Hwf eq_refl)|]; reflexivity.
  - destruct (is_deleted (h_flags h)) eqn:Edel; [rewrite (Hwf eq_refl)|]; reflexivity.
Qed.
