(* Fleet/Model.v — several instances and a bucket, at the level of logical content:
   a store maps a key (DBI + key bytes) to an optional version; Write / Upload / Merge / Reset (an instance's LMDB lost or rolled back) in any order,
   merges of ANY uploaded snapshot (not necessarily the newest), any number of instances.
   The per-DBI, byte-level counterparts of Merge (load) and Upload (dump) are tied to this level by
   Fleet/Refine.v. Ghost: the list of all versions ever written, per instance. *)
From LS Require Import Base.Bytes Merge.Version Merge.Order.
Open Scope N_scope.

Section Fleet.
  Variable K : Type.                      (* keys: a DBI name and key bytes *)
  Variable K_eq_dec : forall a b : K, {a = b} + {a <> b}.

  Definition store := K -> option ver.

  (* absent is lowest *)
  Definition ole (a b : option ver) : Prop :=
    match a, b with
    | None, _ => True
    | Some _, None => False
    | Some x, Some y => vle x y
    end.
  Definition ojoin2 (a b : option ver) : option ver :=
    match a, b with
    | None, _ => b
    | _, None => a
    | Some x, Some y => Some (join x y)
    end.

  Record sys := mkSys {
    st : nat -> store;                    (* instance -> logical LMDB content *)
    snaps : list (nat * store);           (* uploaded snapshots: (instance, content) *)
    written : list (nat * K * ver)        (* ghost: every version ever written, and where *)
  }.

  Definition upd (s : store) (k : K) (v : option ver) : store :=
    fun k' => if K_eq_dec k k' then v else s k'.
  Definition upd_inst (f : nat -> store) (i : nat) (s : store) : nat -> store :=
    fun j => if Nat.eq_dec i j then s else f j.

  Definition written_k (s : sys) (k : K) (v : ver) : Prop := exists i, In (i, k, v) (written s).

  Inductive fstep : sys -> sys -> Prop :=
  | f_write s i k v :                     (* the application on instance i writes version v for key k;
                                             per key per instance the application is monotone *)
      ole (st s i k) (Some v) ->
      fstep s (mkSys (upd_inst (st s) i (upd (st s i) k (Some v))) (snaps s) ((i, k, v) :: written s))
  | f_upload s i :
      fstep s (mkSys (st s) (snaps s ++ [(i, st s i)]) (written s))    (* upload order *)
  | f_merge s i x :                       (* instance i merges ANY snapshot uploaded so far *)
      In x (snaps s) ->
      fstep s (mkSys (upd_inst (st s) i (fun k => ojoin2 (st s i k) (snd x k))) (snaps s) (written s))
  | f_reset s i g :                       (* instance i's LMDB is lost or rolled back while Lightning Stream is down:
                                             it restarts under the same name with ANY content made of versions that
                                             were written somewhere (empty, an old backup, ...); the bucket is untouched *)
      (forall k, match g k with None => True | Some v => written_k s k v end) ->
      fstep s (mkSys (upd_inst (st s) i g) (snaps s) (written s)).

  Inductive freach (s0 : sys) : sys -> Prop :=
  | fr_init : freach s0 s0
  | fr_step s s' : freach s0 s -> fstep s s' -> freach s0 s'.

  Definition finit : sys := mkSys (fun _ _ => None) [] [].

  (* quiescence, in terms of what the property says, for a fleet of n instances (numbered 0..n-1; nobody else
     ever wrote): every instance's newest snapshot was taken after its last local write (it contains every
     version written there — after a reset this means the instance merged its own old snapshot back before
     uploading, which is what C05 guarantees of the real loop), and every instance has merged such a snapshot
     of every instance *)
  Definition quiescent (n : nat) (s : sys) : Prop :=
    (forall j k v, In (j, k, v) (written s) -> (j < n)%nat) /\
    forall i j, (i < n)%nat -> (j < n)%nat -> exists x, In x (snaps s) /\ fst x = j /\
      (forall k v, In (j, k, v) (written s) -> ole (Some v) (snd x k)) /\
      (forall k, ole (snd x k) (st s i k)).
End Fleet.
