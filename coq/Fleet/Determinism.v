(* Fleet/Determinism.v — the converged content is a function of the SET of versions written, not of the history:
   two fleets (of any sizes) that went through different writes orders, uploads, merges of whatever snapshots, and
   LMDB losses, but in which the same versions were written per key, hold the same version for every key on every
   instance once both are quiescent. *)
From LS Require Import Base.Bytes Merge.Version Merge.Order Fleet.Model Fleet.Proofs.
Open Scope N_scope.

Section Det.
  Variable K : Type.
  Variable K_eq_dec : forall a b : K, {a = b} + {a <> b}.

  Lemma le_of_same_writes n1 n2 s1 s2 k i j :
    freach K K_eq_dec (finit K) s1 -> quiescent K n1 s1 ->
    freach K K_eq_dec (finit K) s2 -> quiescent K n2 s2 ->
    (forall v, written_k K s2 k v -> written_k K s1 k v) ->
    (i < n1)%nat -> (j < n2)%nat ->
    ole (st K s2 j k) (st K s1 i k).
  Proof.
    intros R1 Q1 R2 Q2 Hsub Hi Hj.
    destruct (convergence K K_eq_dec n1 s1 R1 Q1 i k Hi) as (Hge1 & _ & _).
    destruct (convergence K K_eq_dec n2 s2 R2 Q2 j k Hj) as (_ & Hfw2 & _).
    unfold from_written in Hfw2. destruct (st K s2 j k) as [w|]; [|exact I].
    apply Hge1, Hsub, Hfw2.
  Qed.

  Theorem history_independent n1 n2 s1 s2 :
    freach K K_eq_dec (finit K) s1 -> quiescent K n1 s1 ->
    freach K K_eq_dec (finit K) s2 -> quiescent K n2 s2 ->
    forall k, (forall v, written_k K s1 k v <-> written_k K s2 k v) ->
    forall i j, (i < n1)%nat -> (j < n2)%nat -> st K s1 i k = st K s2 j k.
  Proof.
    intros R1 Q1 R2 Q2 k Hsame i j Hi Hj.
    apply ole_antisym.
    - apply (le_of_same_writes n2 n1 s2 s1 k j i); auto. intros v Hv. apply Hsame, Hv.
    - apply (le_of_same_writes n1 n2 s1 s2 k i j); auto. intros v Hv. apply Hsame, Hv.
  Qed.
End Det.
