(* Fleet/CrashProofs.v — published data is never lost from the bucket (C05). *)
From LS Require Import Base.Bytes Merge.Version Merge.Order Fleet.Model Fleet.Proofs Fleet.Crash.
From Coq Require Import Lia.
Open Scope N_scope.

Section P.
  Variable K : Type.
  Variable K_eq_dec : forall a b : K, {a = b} + {a <> b}.
  Notation csys := (csys K).
  Notation snap := (snap K).
  Notation cstep := (cstep K K_eq_dec).
  Notation creach := (creach K K_eq_dec).
  Notation sle := (sle K).
  Notation covers := (covers K).
  Notation newest := (newest K).
  Notation has_own := (has_own K).

  Lemma sle_refl a : sle a a.
  Proof. intros k. apply ole_refl. Qed.
  Lemma sle_trans a b c : sle a b -> sle b c -> sle a c.
  Proof. intros H1 H2 k. eapply ole_trans; eauto. Qed.
  Lemma covers_refl x : covers x x. Proof. apply sle_refl. Qed.
  Lemma covers_trans z y x : covers z y -> covers y x -> covers z x.
  Proof. unfold Crash.covers. intros H1 H2. eapply sle_trans; eauto. Qed.

  Lemma sle_join_l (a b : store K) : sle a (fun k => ojoin2 (a k) (b k)).
  Proof. intros k. apply ole_join_l. Qed.
  Lemma sle_join_r (a b : store K) : sle b (fun k => ojoin2 (a k) (b k)).
  Proof. intros k. apply ole_join_r. Qed.
  Lemma sle_upd (a : store K) k v : ole (a k) (Some v) -> sle a (upd K K_eq_dec a k (Some v)).
  Proof. intros H k'. unfold upd. destruct (K_eq_dec k k') as [->|]; [exact H|apply ole_refl]. Qed.

  Lemma classic_has (b : list snap) i :
    (exists z, In z b /\ sn_inst K z = i) \/ ~ (exists z, In z b /\ sn_inst K z = i).
  Proof.
    induction b as [|a b IH]; [right; intros (z & [] & _)|].
    destruct (Nat.eq_dec (sn_inst K a) i) as [Ea|Na]; [left; exists a; split; [left; reflexivity|exact Ea]|].
    destruct IH as [(z & Hz & Hi)|Hn]; [left; exists z; split; [right; exact Hz|exact Hi]|].
    right. intros (z & [<-|Hz] & Hi); [contradiction|]. apply Hn. exists z; auto.
  Qed.

  (* a non-empty set of snapshots of one instance has a newest one *)
  Lemma exists_newest_in (b : list snap) i :
    (exists z, In z b /\ sn_inst K z = i) ->
    exists y, In y b /\ sn_inst K y = i /\ forall z, In z b -> sn_inst K z = i -> (sn_seq K z <= sn_seq K y)%nat.
  Proof.
    induction b as [|a b IH]; intros (z & Hz & Hi); [destruct Hz|].
    destruct (Nat.eq_dec (sn_inst K a) i) as [Ea|Na].
    - destruct (classic_has b i) as [Hb|Hb].
      + destruct (IH Hb) as (y & Hy & Hyi & Hmax).
        destruct (le_lt_dec (sn_seq K a) (sn_seq K y)) as [L|L].
        * exists y. split; [right; exact Hy|]. split; [exact Hyi|].
          intros w [<-|Hw] Hwi; [exact L|apply Hmax; auto].
        * exists a. split; [left; reflexivity|]. split; [exact Ea|].
          intros w [<-|Hw] Hwi; [lia|]. specialize (Hmax w Hw Hwi). lia.
      + exists a. split; [left; reflexivity|]. split; [exact Ea|].
        intros w [<-|Hw] Hwi; [lia|]. exfalso. apply Hb. exists w. auto.
    - destruct Hz as [<-|Hz]; [contradiction|].
      destruct (IH (ex_intro _ z (conj Hz Hi))) as (y & Hy & Hyi & Hmax).
      exists y. split; [right; exact Hy|]. split; [exact Hyi|].
      intros w [<-|Hw] Hwi; [contradiction|apply Hmax; auto].
  Qed.

  (* ---------------- the invariant ---------------- *)
  Record cinv (s : csys) : Prop := mkInv {
    iU1 : forall x, In x (bucket K s) -> In x (ever K s);
    iU2 : forall x, In x (ever K s) -> (sn_seq K x < next_seq K s)%nat;
    iU3 : forall x y, In x (ever K s) -> In y (ever K s) -> sn_seq K x = sn_seq K y -> x = y;
    (* E: a snapshot still stored is dominated by every later upload of the same instance *)
    iE : forall x y, In x (bucket K s) -> In y (ever K s) -> sn_inst K y = sn_inst K x ->
                     (sn_seq K x < sn_seq K y)%nat -> covers y x;
    (* M: what a running process has merged is below its LMDB content *)
    iM : forall c p j q, procs K s c = Some p -> p_last_by K p j = Some q ->
           exists xq, In xq (ever K s) /\ sn_seq K xq = q /\ sn_inst K xq = j /\ sle (sn_store K xq) (cst K s c);
    (* Q: the cleaner is only ever told about merged snapshots that exist *)
    iQ : forall c p j q, procs K s c = Some p -> p_committed K p j = Some q -> (q < next_seq K s)%nat;
    (* L: while a process waits for its own snapshot, that snapshot is the newest stored one of its name *)
    iL : forall i p, procs K s i = Some p -> p_waiting_self K p = true ->
           exists lx, p_listed_own K p = Some lx /\ In lx (ever K s) /\ sn_inst K lx = i /\
                      forall z, In z (bucket K s) -> sn_inst K z = i -> (sn_seq K z <= sn_seq K lx)%nat;
    (* A: a process that may upload holds at least its own newest stored snapshot *)
    iA : forall i p x, procs K s i = Some p -> p_waiting_self K p = false ->
           newest s x -> sn_inst K x = i -> sle (sn_store K x) (cst K s i);
    (* B: what the cleaner was told is covered by a CURRENT newest snapshot uploaded strictly later *)
    iB : forall c p j q x, procs K s c = Some p -> p_committed K p j = Some q ->
           In x (bucket K s) -> sn_inst K x = j -> (sn_seq K x <= q)%nat ->
           exists y, newest s y /\ (sn_seq K x < sn_seq K y)%nat /\ covers y x;
    (* D: every snapshot EVER uploaded is covered by a current newest snapshot *)
    iD : forall x, In x (ever K s) -> exists y, newest s y /\ (sn_seq K x <= sn_seq K y)%nat /\ covers y x
  }.

  Lemma cinv_init : cinv (cinit K).
  Proof. constructor; cbn; try (intros; contradiction); try discriminate; intros; discriminate. Qed.

  Ltac unf := unfold Crash.newest, Crash.covers, Crash.has_own in *; cbn [cst procs bucket ever next_seq] in *.

  (* ---- steps that touch neither the bucket nor the set of uploads ---- *)

  Lemma inv_stop s i : cinv s ->
    cinv (mkCSys K (cst K s) (set_proc K (procs K s) i None) (bucket K s) (ever K s) (next_seq K s)).
  Proof.
    intros I. destruct I as [U1 U2 U3 E M Q L A B D].
    assert (Hp : forall c p, set_proc K (procs K s) i None c = Some p -> procs K s c = Some p).
    { intros c p. unfold set_proc. destruct (Nat.eq_dec i c); [discriminate|auto]. }
    constructor; unf.
    - exact U1. - exact U2. - exact U3. - exact E.
    - intros c p j q H. apply Hp in H. eauto.
    - intros c p j q H. apply Hp in H. eauto.
    - intros c p H. apply Hp in H. eauto.
    - intros c p x H. apply Hp in H. eauto.
    - intros c p j q x H. apply Hp in H. eauto.
    - exact D.
  Qed.

  Lemma inv_write s i k v : cinv s -> ole (cst K s i k) (Some v) ->
    cinv (mkCSys K (upd_inst K (cst K s) i (upd K K_eq_dec (cst K s i) k (Some v))) (procs K s) (bucket K s) (ever K s) (next_seq K s)).
  Proof.
    intros I Hle. destruct I as [U1 U2 U3 E M Q L A B D].
    assert (Hg : forall c, sle (cst K s c) (upd_inst K (cst K s) i (upd K K_eq_dec (cst K s i) k (Some v)) c)).
    { intros c. unfold upd_inst. destruct (Nat.eq_dec i c) as [<-|]; [apply sle_upd; exact Hle|apply sle_refl]. }
    constructor; unf.
    - exact U1. - exact U2. - exact U3. - exact E.
    - intros c p j q H1 H2. destruct (M c p j q H1 H2) as (xq & X1 & X2 & X3 & X4).
      exists xq. repeat split; auto. eapply sle_trans; [exact X4|apply Hg].
    - exact Q. - exact L.
    - intros c p x H1 H2 H3 H4. eapply sle_trans; [apply (A c p x H1 H2 H3 H4)|apply Hg].
    - exact B. - exact D.
  Qed.

  Lemma inv_tamper s i g : cinv s -> procs K s i = None ->
    cinv (mkCSys K (upd_inst K (cst K s) i g) (procs K s) (bucket K s) (ever K s) (next_seq K s)).
  Proof.
    intros I Hn. destruct I as [U1 U2 U3 E M Q L A B D].
    assert (Hs : forall c p, procs K s c = Some p -> upd_inst K (cst K s) i g c = cst K s c).
    { intros c p H. unfold upd_inst. destruct (Nat.eq_dec i c) as [<-|]; [congruence|reflexivity]. }
    constructor; unf.
    - exact U1. - exact U2. - exact U3. - exact E.
    - intros c p j q H1 H2. destruct (M c p j q H1 H2) as (xq & X1 & X2 & X3 & X4).
      exists xq. repeat split; auto. rewrite (Hs c p H1). exact X4.
    - exact Q. - exact L.
    - intros c p x H1 H2 H3 H4. rewrite (Hs c p H1). eauto.
    - exact B. - exact D.
  Qed.

  Lemma inv_start s i lo : cinv s -> procs K s i = None ->
    (match lo with Some x => newest s x /\ sn_inst K x = i | None => ~ has_own s i end) ->
    cinv (mkCSys K (cst K s)
            (set_proc K (procs K s) i (Some (mkProc K (match lo with Some _ => true | None => false end) lo (fun _ => None) (fun _ => None))))
            (bucket K s) (ever K s) (next_seq K s)).
  Proof.
    intros I Hn Hlo. destruct I as [U1 U2 U3 E M Q L A B D].
    set (np := mkProc K (match lo with Some _ => true | None => false end) lo (fun _ => None) (fun _ => None)).
    assert (Hp : forall c p, set_proc K (procs K s) i (Some np) c = Some p ->
                 (c = i /\ p = np) \/ (c <> i /\ procs K s c = Some p)).
    { intros c p. unfold set_proc. destruct (Nat.eq_dec i c) as [<-|Hne]; intros H; [left; split; congruence|right; split; auto]. }
    constructor; unf.
    - exact U1. - exact U2. - exact U3. - exact E.
    - intros c p j q H H2. destruct (Hp c p H) as [[-> ->]|[_ H']]; [discriminate|eauto].
    - intros c p j q H H2. destruct (Hp c p H) as [[-> ->]|[_ H']]; [discriminate|eauto].
    - intros c p H Hw. destruct (Hp c p H) as [[-> ->]|[_ H']]; [|eauto].
      cbn in Hw. destruct lo as [x|]; [|discriminate]. destruct Hlo as [[Hin Hmax] Hi].
      exists x. cbn. repeat split; auto. intros z Hz Hzi. apply Hmax; auto. congruence.
    - intros c p x H Hw Hnw Hi. destruct (Hp c p H) as [[-> ->]|[_ H']]; [|eauto].
      cbn in Hw. destruct lo; [discriminate|]. exfalso. apply Hlo. exists x. destruct Hnw; auto.
    - intros c p j q x H H2. destruct (Hp c p H) as [[-> ->]|[_ H']]; [discriminate|eauto].
    - exact D.
  Qed.

  Lemma inv_disappeared s i p : cinv s -> procs K s i = Some p -> ~ has_own s i ->
    cinv (mkCSys K (cst K s)
            (set_proc K (procs K s) i (Some (mkProc K false (p_listed_own K p) (p_last_by K p) (p_committed K p))))
            (bucket K s) (ever K s) (next_seq K s)).
  Proof.
    intros I Hpi Hno. destruct I as [U1 U2 U3 E M Q L A B D].
    set (np := mkProc K false (p_listed_own K p) (p_last_by K p) (p_committed K p)).
    assert (Hp : forall c p0, set_proc K (procs K s) i (Some np) c = Some p0 ->
                 (c = i /\ p0 = np) \/ (c <> i /\ procs K s c = Some p0)).
    { intros c p0. unfold set_proc. destruct (Nat.eq_dec i c) as [<-|Hne]; intros H; [left; split; congruence|right; split; auto]. }
    constructor; unf.
    - exact U1. - exact U2. - exact U3. - exact E.
    - intros c p0 j q H H2. destruct (Hp c p0 H) as [[-> ->]|[_ H']]; [cbn in H2|]; eauto.
    - intros c p0 j q H H2. destruct (Hp c p0 H) as [[-> ->]|[_ H']]; [cbn in H2|]; eauto.
    - intros c p0 H Hw. destruct (Hp c p0 H) as [[-> ->]|[_ H']]; [discriminate|eauto].
    - intros c p0 x H Hw Hnw Hi. destruct (Hp c p0 H) as [[-> ->]|[_ H']]; [|eauto].
      exfalso. apply Hno. exists x. destruct Hnw; auto.
    - intros c p0 j q x H H2. destruct (Hp c p0 H) as [[-> ->]|[_ H']]; [cbn in H2|]; eauto.
    - exact D.
  Qed.

  Lemma inv_merge s i p x : cinv s -> procs K s i = Some p -> In x (ever K s) ->
    let clears := match p_listed_own K p with
                  | Some lx => if Nat.eq_dec (sn_seq K lx) (sn_seq K x) then true else false
                  | None => false
                  end in
    cinv (mkCSys K (upd_inst K (cst K s) i (fun k => ojoin2 (cst K s i k) (sn_store K x k)))
            (set_proc K (procs K s) i (Some (mkProc K (if clears then false else p_waiting_self K p)
                                                (p_listed_own K p)
                                                (set_opt (p_last_by K p) (sn_inst K x) (sn_seq K x))
                                                (p_committed K p))))
            (bucket K s) (ever K s) (next_seq K s)).
  Proof.
    intros I Hpi Hx clears. destruct I as [U1 U2 U3 E M Q L A B D].
    set (st' := upd_inst K (cst K s) i (fun k => ojoin2 (cst K s i k) (sn_store K x k))).
    set (np := mkProc K (if clears then false else p_waiting_self K p) (p_listed_own K p)
                       (set_opt (p_last_by K p) (sn_inst K x) (sn_seq K x)) (p_committed K p)).
    assert (Hg : forall c, sle (cst K s c) (st' c)).
    { intros c. unfold st', upd_inst. destruct (Nat.eq_dec i c) as [<-|]; [apply sle_join_l|apply sle_refl]. }
    assert (Hxi : sle (sn_store K x) (st' i)).
    { unfold st', upd_inst. destruct (Nat.eq_dec i i); [apply sle_join_r|congruence]. }
    assert (Hp : forall c p0, set_proc K (procs K s) i (Some np) c = Some p0 ->
                 (c = i /\ p0 = np) \/ (c <> i /\ procs K s c = Some p0)).
    { intros c p0. unfold set_proc. destruct (Nat.eq_dec i c) as [<-|Hne]; intros H; [left; split; congruence|right; split; auto]. }
    constructor; unf.
    - exact U1. - exact U2. - exact U3. - exact E.
    - (* M *) intros c p0 j q H H2. destruct (Hp c p0 H) as [[-> ->]|[_ H']].
      + cbn in H2. unfold set_opt in H2. destruct (Nat.eq_dec (sn_inst K x) j) as [<-|Hne].
        * injection H2 as <-. exists x. repeat split; auto.
        * destruct (M i p j q Hpi H2) as (xq & X1 & X2 & X3 & X4). exists xq. repeat split; auto.
          eapply sle_trans; [exact X4|apply Hg].
      + destruct (M c p0 j q H' H2) as (xq & X1 & X2 & X3 & X4). exists xq. repeat split; auto.
        eapply sle_trans; [exact X4|apply Hg].
    - (* Q *) intros c p0 j q H H2. destruct (Hp c p0 H) as [[-> ->]|[_ H']]; [cbn in H2|]; eauto.
    - (* L *) intros c p0 H Hw. destruct (Hp c p0 H) as [[-> ->]|[_ H']]; [|eauto].
      cbn in Hw |- *. destruct clears; [discriminate|]. eauto.
    - (* A *) intros c p0 x' H Hw Hnw Hi. destruct (Hp c p0 H) as [[-> ->]|[_ H']].
      + cbn in Hw. destruct (p_waiting_self K p) eqn:Ew.
        * (* was waiting: this merge is the listed own snapshot *)
          destruct (L i p Hpi Ew) as (lx & Hl1 & Hl2 & Hl3 & Hl4).
          unfold clears in Hw. rewrite Hl1 in Hw.
          destruct (Nat.eq_dec (sn_seq K lx) (sn_seq K x)) as [Eseq|]; [|discriminate].
          assert (lx = x) by (apply U3; auto). subst lx.
          destruct Hnw as [Hin Hmax].
          destruct (Nat.eq_dec (sn_seq K x') (sn_seq K x)) as [E2|N2].
          -- assert (x' = x) by (apply U3; auto). subst x'. exact Hxi.
          -- eapply sle_trans; [|exact Hxi]. apply (E x' x); [exact Hin|exact Hx|congruence|].
             specialize (Hl4 x' Hin Hi). lia.
        * eapply sle_trans; [apply (A i p x' Hpi Ew Hnw Hi)|apply Hg].
      + eapply sle_trans; [apply (A c p0 x' H' Hw Hnw Hi)|apply Hg].
    - (* B *) intros c p0 j q x0 H H2. destruct (Hp c p0 H) as [[-> ->]|[_ H']]; [cbn in H2|]; eauto.
    - exact D.
  Qed.

  Lemma inv_upload s i p : cinv s -> procs K s i = Some p -> p_waiting_self K p = false ->
    let y := mkSnapC K i (next_seq K s) (cst K s i) in
    cinv (mkCSys K (cst K s)
            (set_proc K (procs K s) i (Some (mkProc K false (p_listed_own K p) (p_last_by K p) (p_last_by K p))))
            (y :: bucket K s) (y :: ever K s) (S (next_seq K s))).
  Proof.
    intros I Hpi Hw y. destruct I as [U1 U2 U3 E M Q L A B D].
    set (np := mkProc K false (p_listed_own K p) (p_last_by K p) (p_last_by K p)).
    set (s' := mkCSys K (cst K s) (set_proc K (procs K s) i (Some np)) (y :: bucket K s) (y :: ever K s) (S (next_seq K s))).
    assert (Hp : forall c p0, set_proc K (procs K s) i (Some np) c = Some p0 ->
                 (c = i /\ p0 = np) \/ (c <> i /\ procs K s c = Some p0)).
    { intros c p0. unfold set_proc. destruct (Nat.eq_dec i c) as [<-|Hne]; intros H; [left; split; congruence|right; split; auto]. }
    assert (Hfresh : forall z, In z (ever K s) -> (sn_seq K z < sn_seq K y)%nat) by (intros z Hz; cbn; apply U2, Hz).
    assert (Hyn : newest s' y).
    { split; [left; reflexivity|]. intros z [<-|Hz] _; [lia|]. apply U1, Hfresh in Hz. lia. }
    assert (Hkeep : forall w, sn_inst K w <> i -> (newest s' w <-> newest s w)).
    { intros w Hwi. split; intros [Hin Hmax].
      - destruct Hin as [<-|Hin]; [cbn in Hwi; congruence|]. split; [exact Hin|].
        intros z Hz Hzi. apply Hmax; [right; exact Hz|exact Hzi].
      - split; [right; exact Hin|]. intros z [<-|Hz] Hzi; [cbn in Hzi; congruence|apply Hmax; auto]. }
    assert (Hown : forall w, newest s' w -> sn_inst K w = i -> w = y).
    { intros w [Hin Hmax] Hwi. destruct Hin as [<-|Hin]; [reflexivity|].
      assert (Hle : (sn_seq K y <= sn_seq K w)%nat) by (apply Hmax; [left; reflexivity|cbn; congruence]).
      apply U1, Hfresh in Hin. lia. }
    assert (Hprom : forall w, newest s w -> exists w', newest s' w' /\ (sn_seq K w <= sn_seq K w')%nat /\ covers w' w).
    { intros w Hw'. destruct (Nat.eq_dec (sn_inst K w) i) as [Ei|Ni].
      - exists y. split; [exact Hyn|]. split.
        + destruct Hw' as [Hin _]. apply U1, Hfresh in Hin. lia.
        + unfold Crash.covers. cbn. apply (A i p w Hpi Hw Hw' Ei).
      - exists w. split; [apply Hkeep; auto|]. split; [lia|apply covers_refl]. }
    (* every stored snapshot of i is below i's LMDB content *)
    assert (Hbelow : forall x, In x (bucket K s) -> sn_inst K x = i -> sle (sn_store K x) (cst K s i)).
    { intros x Hx Hxi.
      destruct (exists_newest_in (bucket K s) i (ex_intro _ x (conj Hx Hxi))) as (xs & Hs1 & Hs2 & Hs3).
      assert (Hns : newest s xs) by (split; [exact Hs1|intros z Hz Hzi; apply Hs3; auto; congruence]).
      pose proof (A i p xs Hpi Hw Hns Hs2) as Hxs.
      destruct (Nat.eq_dec (sn_seq K x) (sn_seq K xs)) as [Eq|Nq].
      - assert (x = xs) by (apply U3; auto). subst. exact Hxs.
      - eapply sle_trans; [|exact Hxs]. apply (E x xs); [exact Hx|apply U1, Hs1|congruence|].
        specialize (Hs3 x Hx Hxi). lia. }
    constructor; unfold s' in *; unf.
    - (* U1 *) intros x [<-|Hx]; [left; reflexivity|right; apply U1, Hx].
    - (* U2 *) intros x [<-|Hx]; [cbn; lia|]. specialize (U2 x Hx). lia.
    - (* U3 *) intros a b [<-|Ha] [<-|Hb] Hs; auto.
      + apply Hfresh in Hb. cbn in *. lia.
      + apply Hfresh in Ha. cbn in *. lia.
    - (* E *) intros x y0 [<-|Hx] [<-|Hy0] Hi Hlt.
      + lia.
      + apply Hfresh in Hy0. lia.
      + unfold Crash.covers. cbn. apply Hbelow; auto.
      + apply E; auto.
    - (* M *) intros c p0 j q H H2. destruct (Hp c p0 H) as [[-> ->]|[_ H']].
      + cbn in H2. destruct (M i p j q Hpi H2) as (xq & X1 & X2 & X3 & X4). exists xq. repeat split; auto. right; exact X1.
      + destruct (M c p0 j q H' H2) as (xq & X1 & X2 & X3 & X4). exists xq. repeat split; auto. right; exact X1.
    - (* Q *) intros c p0 j q H H2. destruct (Hp c p0 H) as [[-> ->]|[_ H']].
      + cbn in H2. destruct (M i p j q Hpi H2) as (xq & X1 & X2 & _). apply U2 in X1. lia.
      + specialize (Q c p0 j q H' H2). lia.
    - (* L *) intros c p0 H Hw0. destruct (Hp c p0 H) as [[-> ->]|[Hne H']]; [discriminate|].
      destruct (L c p0 H' Hw0) as (lx & Hl1 & Hl2 & Hl3 & Hl4). exists lx. repeat split; auto; [right; exact Hl2|].
      intros z [<-|Hz] Hzi; [cbn in Hzi; congruence|apply Hl4; auto].
    - (* A *) intros c p0 x H Hw0 Hnw Hi. destruct (Hp c p0 H) as [[-> ->]|[Hne H']].
      + rewrite (Hown x Hnw Hi). cbn. apply sle_refl.
      + apply (A c p0 x H' Hw0); [|exact Hi]. apply Hkeep; [congruence|exact Hnw].
    - (* B *) intros c p0 j q x H H2 Hx Hxj Hle. destruct (Hp c p0 H) as [[-> ->]|[Hne H']].
      + cbn in H2. destruct (M i p j q Hpi H2) as (xq & X1 & X2 & X3 & X4).
        destruct Hx as [<-|Hx]; [apply U2 in X1; cbn in Hle; lia|].
        exists y. split; [exact Hyn|]. split; [apply U1, Hfresh in Hx; exact Hx|].
        unfold Crash.covers. cbn. eapply sle_trans; [|exact X4].
        destruct (Nat.eq_dec (sn_seq K x) q) as [Eq|Nq].
        * assert (x = xq) by (apply U3; auto; congruence). subst. apply sle_refl.
        * apply (E x xq); auto; [congruence|lia].
      + destruct Hx as [<-|Hx]; [specialize (Q c p0 j q H' H2); cbn in Hle; lia|].
        destruct (B c p0 j q x H' H2 Hx Hxj Hle) as (y0 & Y1 & Y2 & Y3).
        destruct (Hprom y0 Y1) as (w' & W1 & W2 & W3). exists w'. split; [exact W1|]. split; [lia|].
        eapply covers_trans; eauto.
    - (* D *) intros x [<-|Hx].
      + exists y. split; [exact Hyn|]. split; [lia|apply covers_refl].
      + destruct (D x Hx) as (y0 & Y1 & Y2 & Y3). destruct (Hprom y0 Y1) as (w' & W1 & W2 & W3).
        exists w'. split; [exact W1|]. split; [lia|]. eapply covers_trans; eauto.
  Qed.

  Lemma inv_clean_superseded s x y b' : cinv s ->
    In x (bucket K s) -> In y (bucket K s) -> sn_inst K y = sn_inst K x -> (sn_seq K x < sn_seq K y)%nat ->
    remove_snap K (bucket K s) x b' ->
    cinv (mkCSys K (cst K s) (procs K s) b' (ever K s) (next_seq K s)).
  Proof.
    intros I Hx Hy Hi Hlt Hrm. destruct I as [U1 U2 U3 E M Q L A B D].
    set (s' := mkCSys K (cst K s) (procs K s) b' (ever K s) (next_seq K s)).
    assert (Hsub : forall z, In z b' -> In z (bucket K s)) by (intros z Hz; apply Hrm in Hz; tauto).
    assert (Hyx : y <> x) by (intros ->; lia).
    assert (Hyb : In y b') by (apply Hrm; auto).
    assert (Hn1 : forall w, newest s' w -> newest s w).
    { intros w [Hin Hmax]. split; [apply Hsub, Hin|]. intros z Hz Hzi.
      destruct (Nat.eq_dec (sn_seq K z) (sn_seq K x)) as [Es|Hne].
      - assert (z = x) by (apply U3; auto). subst z.
        assert (Hle : (sn_seq K y <= sn_seq K w)%nat) by (apply Hmax; [exact Hyb|congruence]). lia.
      - apply Hmax; [apply Hrm; split; [exact Hz|intros ->; congruence]|exact Hzi]. }
    assert (Hn2 : forall w, newest s w -> newest s' w).
    { intros w [Hin Hmax]. assert (w <> x).
      { intros ->. assert ((sn_seq K y <= sn_seq K x)%nat) by (apply Hmax; auto). lia. }
      split; [apply Hrm; auto|]. intros z Hz Hzi. apply Hmax; auto. }
    constructor; unfold s' in *; unf.
    - intros z Hz. apply U1, Hsub, Hz.
    - exact U2. - exact U3.
    - intros a b Ha. apply E, Hsub, Ha.
    - exact M. - exact Q.
    - intros i p H Hw. destruct (L i p H Hw) as (lx & L1 & L2 & L3 & L4). exists lx. repeat split; auto.
    - intros i p w H Hw Hnw Hwi. apply (A i p w H Hw); auto.
    - intros c p j q x0 H H2 Hx0 Hj Hle. destruct (B c p j q x0 H H2 (Hsub _ Hx0) Hj Hle) as (y0 & Y1 & Y2 & Y3).
      exists y0. split; [apply Hn2, Y1|auto].
    - intros x0 Hx0. destruct (D x0 Hx0) as (y0 & Y1 & Y2 & Y3). exists y0. split; [apply Hn2, Y1|auto].
  Qed.

  Lemma inv_clean_stale s c p x q b' : cinv s ->
    procs K s c = Some p -> newest s x -> p_committed K p (sn_inst K x) = Some q -> (sn_seq K x <= q)%nat ->
    remove_snap K (bucket K s) x b' ->
    cinv (mkCSys K (cst K s) (procs K s) b' (ever K s) (next_seq K s)).
  Proof.
    intros I Hpc Hnx Hcq Hle Hrm. destruct I as [U1 U2 U3 E M Q L A B D].
    set (s' := mkCSys K (cst K s) (procs K s) b' (ever K s) (next_seq K s)).
    assert (Hsub : forall z, In z b' -> In z (bucket K s)) by (intros z Hz; apply Hrm in Hz; tauto).
    destruct Hnx as [Hxin Hxmax].
    destruct (B c p (sn_inst K x) q x Hpc Hcq Hxin eq_refl Hle) as (y0 & [Y0in Y0max] & Y0lt & Y0cov).
    assert (Hy0i : sn_inst K y0 <> sn_inst K x).
    { intros Ei. assert ((sn_seq K y0 <= sn_seq K x)%nat) by (apply Hxmax; auto). lia. }
    assert (Hy0x : y0 <> x) by (intros ->; lia).
    (* snapshots of other instances keep their status *)
    assert (Hother : forall w, sn_inst K w <> sn_inst K x -> newest s w -> newest s' w).
    { intros w Hwi [Hin Hmax]. split; [apply Hrm; split; [exact Hin|intros ->; congruence]|].
      intros z Hz Hzi. apply Hmax; auto. }
    assert (Hn1 : forall w, sn_inst K w <> sn_inst K x -> newest s' w -> newest s w).
    { intros w Hwi [Hin Hmax]. split; [apply Hsub, Hin|]. intros z Hz Hzi.
      apply Hmax; [apply Hrm; split; [exact Hz|intros ->; congruence]|exact Hzi]. }
    assert (Hprom : forall w, newest s w -> exists w', newest s' w' /\ (sn_seq K w <= sn_seq K w')%nat /\ covers w' w).
    { intros w [Hin Hmax]. destruct (Nat.eq_dec (sn_inst K w) (sn_inst K x)) as [Ei|Ni].
      - (* two newest snapshots of one instance are the same snapshot: w = x *)
        assert (w = x).
        { apply U3; auto.
          assert ((sn_seq K w <= sn_seq K x)%nat) by (apply Hxmax; auto).
          assert ((sn_seq K x <= sn_seq K w)%nat) by (apply Hmax; auto). lia. }
        subst w. exists y0. split; [apply Hother; [exact Hy0i|split; auto]|]. split; [lia|exact Y0cov].
      - exists w. split; [apply Hother; [exact Ni|split; auto]|]. split; [lia|apply covers_refl]. }
    constructor; unfold s' in *; unf.
    - intros z Hz. apply U1, Hsub, Hz.
    - exact U2. - exact U3.
    - intros a b Ha. apply E, Hsub, Ha.
    - exact M. - exact Q.
    - intros i p0 H Hw. destruct (L i p0 H Hw) as (lx & L1 & L2 & L3 & L4). exists lx. repeat split; auto.
    - (* A *) intros i p0 w H Hw Hnw Hwi.
      destruct (Nat.eq_dec (sn_inst K w) (sn_inst K x)) as [Ei|Ni].
      + (* the removed snapshot was the newest of this very instance *)
        assert (Hxs : sle (sn_store K x) (cst K s i)) by (apply (A i p0 x H Hw); [split; auto|congruence]).
        destruct Hnw as [Hwin _]. assert (Hwb := Hsub _ Hwin). assert (Hwx : w <> x) by (apply Hrm in Hwin; tauto).
        assert (Hwle : (sn_seq K w <= sn_seq K x)%nat) by (apply Hxmax; auto).
        assert (Hwne : sn_seq K w <> sn_seq K x) by (intros Es; apply Hwx; apply U3; auto).
        eapply sle_trans; [|exact Hxs]. apply (E w x); auto. lia.
      + apply (A i p0 w H Hw); [apply Hn1; auto|exact Hwi].
    - (* B *) intros c0 p0 j q0 x0 H H2 Hx0 Hj Hle0.
      destruct (B c0 p0 j q0 x0 H H2 (Hsub _ Hx0) Hj Hle0) as (y1 & Y1 & Y2 & Y3).
      destruct (Hprom y1 Y1) as (w' & W1 & W2 & W3). exists w'. split; [exact W1|]. split; [lia|].
      eapply covers_trans; eauto.
    - (* D *) intros x0 Hx0. destruct (D x0 Hx0) as (y1 & Y1 & Y2 & Y3).
      destruct (Hprom y1 Y1) as (w' & W1 & W2 & W3). exists w'. split; [exact W1|]. split; [lia|].
      eapply covers_trans; eauto.
  Qed.

  (* ---------------- every step preserves the invariant ---------------- *)
  Lemma cinv_step s s' : cinv s -> cstep s s' -> cinv s'.
  Proof.
    intros I H. inversion H; subst.
    - apply inv_write; auto.
    - apply inv_tamper; auto.
    - apply inv_stop; auto.
    - apply inv_start; auto.
    - apply inv_merge; auto.
    - apply inv_disappeared; auto.
    - apply inv_upload; auto.
    - match goal with
      | Hx : In ?x (bucket K s), Hy : In ?y (bucket K s), Hi : sn_inst K ?y = sn_inst K ?x,
        Hlt : (sn_seq K ?x < sn_seq K ?y)%nat, Hrm : remove_snap K (bucket K s) ?x ?b |- _ =>
          exact (inv_clean_superseded s x y b I Hx Hy Hi Hlt Hrm)
      end.
    - match goal with
      | Hp : procs K s ?c = Some ?p, Hn : newest s ?x, Hc : p_committed K ?p (sn_inst K ?x) = Some ?q,
        Hle : (sn_seq K ?x <= ?q)%nat, Hrm : remove_snap K (bucket K s) ?x ?b |- _ =>
          exact (inv_clean_stale s c p x q b I Hp Hn Hc Hle Hrm)
      end.
    - exact I.
  Qed.

  Theorem cinv_reach s : creach s -> cinv s.
  Proof. induction 1; [apply cinv_init|eapply cinv_step; eauto]. Qed.

  Lemma ever_grows s s' : cstep s s' -> forall x, In x (ever K s) -> In x (ever K s').
  Proof. intros H x Hx. inversion H; subst; cbn [ever]; auto. right; exact Hx. Qed.

  (* PUBLISHED DATA IS NEVER LOST: after any step, every snapshot that was EVER uploaded (whether or not it is
     still stored) is covered by a snapshot that is currently the newest of its instance in the bucket *)
  Theorem published_never_lost s s' :
    creach s -> cstep s s' ->
    forall x, In x (ever K s) -> exists y, newest s' y /\ covers y x.
  Proof.
    intros Hr Hs x Hx. assert (I' : cinv s') by (eapply cinv_step; [apply cinv_reach, Hr|exact Hs]).
    destruct (iD s' I' x (ever_grows s s' Hs x Hx)) as (y & Y1 & _ & Y3). eauto.
  Qed.

  (* hence the join of the newest snapshots never decreases: each newest snapshot of before is covered by a
     newest snapshot of after *)
  Theorem newest_join_monotone s s' :
    creach s -> cstep s s' ->
    forall w, newest s w -> exists w', newest s' w' /\ covers w' w.
  Proof.
    intros Hr Hs w [Hin _]. apply (published_never_lost s s' Hr Hs). apply (iU1 s (cinv_reach s Hr)), Hin.
  Qed.

  (* an instance whose name has snapshots in the bucket uploads nothing before it has merged its own newest
     one: an upload happens only in a process that is not waiting for itself, and such a process holds at least
     the content of the newest stored snapshot of its name *)
  Theorem own_first s s' i :
    creach s -> cstep s s' ->
    (exists y, In y (ever K s') /\ ~ In y (ever K s) /\ sn_inst K y = i) ->
    exists p, procs K s i = Some p /\ p_waiting_self K p = false /\
              forall x, newest s x -> sn_inst K x = i -> sle (sn_store K x) (cst K s i).
  Proof.
    intros Hr Hs (y & Hy' & Hny & Hyi).
    inversion Hs; subst; cbn [ever] in *; try contradiction.
    destruct Hy' as [<-|Hy']; [|contradiction]. cbn in *.
    exists p. split; [assumption|]. split; [assumption|].
    intros x Hx Hxi. eapply (iA s (cinv_reach s Hr)); eauto.
  Qed.

  (* a freshly started process whose name has snapshots waits for itself *)
  Theorem start_waits s s' i :
    cstep s s' -> procs K s i = None -> (exists p, procs K s' i = Some p) -> has_own s i ->
    exists p, procs K s' i = Some p /\ p_waiting_self K p = true.
  Proof.
    intros Hs Hn (p & Hp) Hown. inversion Hs; subst; cbn [procs] in *; try congruence.
    - (* stop *) unfold set_proc in Hp. destruct (Nat.eq_dec i0 i); congruence.
    - (* start *) unfold set_proc in *. destruct (Nat.eq_dec i0 i) as [->|]; [|congruence].
      destruct lo as [x|]; [eexists; split; [reflexivity|reflexivity]|contradiction].
    - unfold set_proc in Hp. destruct (Nat.eq_dec i0 i) as [->|]; congruence.
    - unfold set_proc in Hp. destruct (Nat.eq_dec i0 i) as [->|]; congruence.
    - unfold set_proc in Hp. destruct (Nat.eq_dec i0 i) as [->|]; congruence.
  Qed.
End P.
