(* Fleet/Crash.v — the bucket over time: uploads, merges, snapshot cleaning by any instance, crashes and
   restarts of an instance at any point (volatile state lost), an LMDB changed arbitrarily while its syncer
   is down (emptied, edited), instances coming back under the same name.
   Content level: a store maps keys to optional versions (Fleet/Model.v); a snapshot is (instance, sequence
   number = global upload order, store). Volatile per-process state mirrors the sync loop's:
     waiting_self  the own instance is still in waitingForInstances (set at start-up iff the name has snapshots)
     listed_own    the own snapshot the start-up listing handed to the own downloader
     last_by       lastByInstance: sequence number of the last merged snapshot per instance
     committed     what the cleaner was told (SetCommitted), copied from last_by after a successful Store
   Guards mirror the code: Upload only when the own instance is not waited for (sync.go), CleanSuperseded only
   when a newer snapshot of that instance is listed, CleanStale only for an instance's newest snapshot that
   is not newer than committed[instance] (cleaner.go). Time conditions of the cleaner only restrict it further.
   Storage faults change nothing (failed List/Load/Store/Delete) and are stuttering steps. *)
From LS Require Import Base.Bytes Merge.Version Merge.Order Fleet.Model.
Open Scope N_scope.

Section Crash.
  Variable K : Type.
  Variable K_eq_dec : forall a b : K, {a = b} + {a <> b}.
  Notation store := (store K).

  Record snap := mkSnapC { sn_inst : nat; sn_seq : nat; sn_store : store }.

  Record proc := mkProc {
    p_waiting_self : bool;
    p_listed_own : option snap;
    p_last_by : nat -> option nat;
    p_committed : nat -> option nat
  }.

  Record csys := mkCSys {
    cst : nat -> store;              (* durable: the LMDB of every instance *)
    procs : nat -> option proc;      (* volatile: None = the syncer is down *)
    bucket : list snap;              (* durable: the snapshots currently stored *)
    ever : list snap;                (* ghost: every snapshot ever uploaded *)
    next_seq : nat
  }.

  Definition sle (a b : store) : Prop := forall k, ole (a k) (b k).
  Definition covers (y x : snap) : Prop := sle (sn_store x) (sn_store y).

  (* y is the newest snapshot of its instance among those stored *)
  Definition newest (s : csys) (y : snap) : Prop :=
    In y (bucket s) /\ forall z, In z (bucket s) -> sn_inst z = sn_inst y -> (sn_seq z <= sn_seq y)%nat.

  Definition has_own (s : csys) (i : nat) : Prop := exists z, In z (bucket s) /\ sn_inst z = i.

  Definition set_proc (f : nat -> option proc) (i : nat) (p : option proc) : nat -> option proc :=
    fun j => if Nat.eq_dec i j then p else f j.
  Definition set_opt (f : nat -> option nat) (j : nat) (q : nat) : nat -> option nat :=
    fun j' => if Nat.eq_dec j j' then Some q else f j'.

  Definition remove_snap (b : list snap) (x : snap) (b' : list snap) : Prop :=
    (forall z, In z b' <-> (In z b /\ z <> x)).

  Inductive cstep : csys -> csys -> Prop :=
  | c_write s i k v :                          (* application write, monotone per key; the syncer may be down *)
      ole (cst s i k) (Some v) ->
      cstep s (mkCSys (upd_inst K (cst s) i (upd K K_eq_dec (cst s i) k (Some v))) (procs s) (bucket s) (ever s) (next_seq s))
  | c_tamper s i g :                           (* while the syncer is down the LMDB may change arbitrarily *)
      procs s i = None ->
      cstep s (mkCSys (upd_inst K (cst s) i g) (procs s) (bucket s) (ever s) (next_seq s))
  | c_stop s i :                               (* crash / stop at any point between two atomic actions *)
      cstep s (mkCSys (cst s) (set_proc (procs s) i None) (bucket s) (ever s) (next_seq s))
  | c_start s i lo :                           (* start-up listing *)
      procs s i = None ->
      (match lo with
       | Some x => newest s x /\ sn_inst x = i
       | None => ~ has_own s i
       end) ->
      cstep s (mkCSys (cst s)
                 (set_proc (procs s) i (Some (mkProc (match lo with Some _ => true | None => false end) lo
                                                     (fun _ => None) (fun _ => None))))
                 (bucket s) (ever s) (next_seq s))
  | c_merge s i p x :                          (* LoadOnce of any snapshot that was ever uploaded *)
      procs s i = Some p -> In x (ever s) ->
      let clears := match p_listed_own p with
                    | Some lx => if Nat.eq_dec (sn_seq lx) (sn_seq x) then true else false
                    | None => false
                    end in
      cstep s (mkCSys (upd_inst K (cst s) i (fun k => ojoin2 (cst s i k) (sn_store x k)))
                 (set_proc (procs s) i (Some (mkProc (if clears then false else p_waiting_self p)
                                                     (p_listed_own p)
                                                     (set_opt (p_last_by p) (sn_inst x) (sn_seq x))
                                                     (p_committed p))))
                 (bucket s) (ever s) (next_seq s))
  | c_disappeared s i p :                      (* the own name no longer has snapshots: stop waiting for it *)
      procs s i = Some p -> ~ has_own s i ->
      cstep s (mkCSys (cst s)
                 (set_proc (procs s) i (Some (mkProc false (p_listed_own p) (p_last_by p) (p_committed p))))
                 (bucket s) (ever s) (next_seq s))
  | c_upload s i p :                           (* SendOnce with a successful Store *)
      procs s i = Some p -> p_waiting_self p = false ->
      let y := mkSnapC i (next_seq s) (cst s i) in
      cstep s (mkCSys (cst s)
                 (set_proc (procs s) i (Some (mkProc false (p_listed_own p) (p_last_by p) (p_last_by p))))
                 (y :: bucket s) (y :: ever s) (S (next_seq s)))
  | c_clean_superseded s c p x y b' :          (* the cleaner of any running instance *)
      procs s c = Some p -> In x (bucket s) -> In y (bucket s) ->
      sn_inst y = sn_inst x -> (sn_seq x < sn_seq y)%nat -> remove_snap (bucket s) x b' ->
      cstep s (mkCSys (cst s) (procs s) b' (ever s) (next_seq s))
  | c_clean_stale s c p x q b' :
      procs s c = Some p -> newest s x -> p_committed p (sn_inst x) = Some q -> (sn_seq x <= q)%nat ->
      remove_snap (bucket s) x b' ->
      cstep s (mkCSys (cst s) (procs s) b' (ever s) (next_seq s))
  | c_fault s : cstep s s.                     (* failing List / Load / Store / Delete: nothing changes *)

  Definition cinit : csys := mkCSys (fun _ _ => None) (fun _ => None) [] [] 0.

  Inductive creach : csys -> Prop :=
  | cr_init : creach cinit
  | cr_step s s' : creach s -> cstep s s' -> creach s'.
End Crash.
